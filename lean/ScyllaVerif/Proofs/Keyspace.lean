import ScyllaVerif.Model.Keyspace
/-! Invariant of the pool refiller model (`Model/Keyspace.lean` §3) for C20: preserved by every `step`. -/
set_option linter.unusedSectionVars false
set_option linter.unusedSimpArgs false
namespace ScyllaVerif.Keyspace
variable {K : Type} [DecidableEq K]

/-- `n'` differs from `n` at most by connections having become broken. -/
def NetLe (n n' : Nat → Conn K) : Prop :=
  ∀ j, (n' j).serverKs = (n j).serverKs ∧ (n' j).acked = (n j).acked ∧ (n' j).queue = (n j).queue ∧
    (n' j).unclaimed = (n j).unclaimed ∧ ((n j).broken = true → (n' j).broken = true)

theorem NetLe.refl (n : Nat → Conn K) : NetLe n n := fun _ => ⟨rfl, rfl, rfl, rfl, id⟩

theorem netLe_close (p : Pool K) (i : Nat) : NetLe p.net (p.close i).net := by
  intro j
  unfold Pool.close setConn
  by_cases h : j = i <;> simp [h]

/-- What is claimed about connection `i` with respect to the newest task `L`, when `i` is published, not broken
and no user-issued `USE` was written on it after `L`'s own. -/
def ConnOk (L : Task K) (c : Conn K) (i : Nat) : Prop :=
  (i ∉ L.snapshot → c.serverKs = some L.ks ∧ c.queue = []) ∧
  (i ∈ L.snapshot →
    (L.results.lookup i = some (.ok ()) → c.serverKs = some L.ks ∧ c.queue = []) ∧
    (L.resp = none → i ∈ L.submitted → L.results.lookup i = none →
      ∃ pre, c.queue = pre ++ [(.task L.id, L.ks)] ∧ ∀ e ∈ pre, e.1 ≠ .task L.id))

/-- The strong statement about the newest task (meaningful when it did not overlap an older one). -/
def Strong (p : Pool K) : Prop :=
  match p.tasks with
  | [] => ∀ i ∈ p.conns, (p.net i).broken = false → (p.net i).unclaimed = false →
      (p.net i).serverKs = p.currentKs ∧ (p.net i).queue = []
  | L :: rest => p.currentKs = some L.ks ∧ (∀ t ∈ rest, t.resp ≠ none) ∧
      ∀ i ∈ p.conns, (p.net i).broken = false → (p.net i).unclaimed = false → ConnOk L (p.net i) i

structure Inv (p : Pool K) : Prop where
  conns_lt : ∀ i ∈ p.conns, i < p.nextId
  setting_lt : ∀ e ∈ p.setting, e.1 < p.nextId
  setting_cur : ∀ e ∈ p.setting, p.currentKs ≠ none
  snap_lt : ∀ t ∈ p.tasks, ∀ i ∈ t.snapshot, i < p.nextId
  ids : p.tasks.Pairwise (fun a b => a.id ≠ b.id)
  ids_lt : ∀ t ∈ p.tasks, t.id < p.tasks.length
  sub_snap : ∀ t ∈ p.tasks, ∀ i ∈ t.submitted, i ∈ t.snapshot
  res_sub : ∀ t ∈ p.tasks, ∀ i r, t.results.lookup i = some r → i ∈ t.submitted
  res_broken : ∀ t ∈ p.tasks, ∀ i, t.results.lookup i = some (.error .broken) → (p.net i).broken = true
  res_ok : ∀ t ∈ p.tasks, ∀ i, t.results.lookup i = some (.ok ()) → t.ks ∈ (p.net i).acked
  priv : ∀ e ∈ p.setting, e.1 ∉ p.conns ∧ ∀ t ∈ p.tasks, e.1 ∉ t.snapshot
  setting_clean : ∀ e ∈ p.setting, (p.net e.1).queue = [] ∧ (p.net e.1).unclaimed = false
  q_lt : ∀ i tid k, (Waiter.task tid, k) ∈ (p.net i).queue → tid < p.tasks.length
  q_sub : ∀ t ∈ p.tasks, ∀ i, i ∉ t.submitted → ∀ e ∈ (p.net i).queue, e.1 ≠ .task t.id
  q_ks : ∀ t ∈ p.tasks, ∀ i k, (Waiter.task t.id, k) ∈ (p.net i).queue → k = t.ks
  resp : ∀ t ∈ p.tasks, ∀ o, t.resp = some o →
    (t.snapshot = [] ∧ o = .ok) ∨ o = .err .timeout ∨ (t.allDone = true ∧ o = useKeyspaceResult t.resultList)
  strong : p.overlap = false → Strong p
  /-- no discipline needed: a published connection that is in NO task's snapshot (it was published after the
  newest request arrived) carries the current keyspace, with nothing in flight -/
  fresh : ∀ i ∈ p.conns, (∀ t ∈ p.tasks, i ∉ t.snapshot) → (p.net i).broken = false → (p.net i).unclaimed = false →
    (p.net i).serverKs = p.currentKs ∧ (p.net i).queue = []

theorem Inv.res_snap {p : Pool K} (h : Inv p) (t : Task K) (ht : t ∈ p.tasks) (i : Nat) (r : UseRes)
    (hr : t.results.lookup i = some r) : i ∈ t.snapshot :=
  h.sub_snap t ht i (h.res_sub t ht i r hr)

theorem inv_init (perShard : Bool) (target : Nat) (ks : Option K) : Inv (Pool.init perShard target ks) := by
  constructor <;> simp [Pool.init, Strong]

/-! ### the shard-major walk and the swap-remove keep the set of connections -/

theorem mem_insertByShard (sh : Nat → Nat) (i x : Nat) (l : List Nat) :
    x ∈ insertByShard sh i l ↔ x = i ∨ x ∈ l := by
  induction l with
  | nil => simp [insertByShard]
  | cons j l ih =>
    simp only [insertByShard]
    split
    · simp
    · simp only [List.mem_cons, ih]
      constructor
      · rintro (h | h | h)
        · exact Or.inr (Or.inl h)
        · exact Or.inl h
        · exact Or.inr (Or.inr h)
      · rintro (h | h | h)
        · exact Or.inr (Or.inl h)
        · exact Or.inl h
        · exact Or.inr (Or.inr h)

theorem mem_byShard (p : Pool K) (x : Nat) : x ∈ p.byShard ↔ x ∈ p.conns := by
  unfold Pool.byShard
  suffices h : ∀ (l acc : List Nat), x ∈ l.foldl (fun acc i => insertByShard (fun j => (p.net j).shard) i acc) acc ↔
      x ∈ acc ∨ x ∈ l by simpa using h p.conns []
  intro l
  induction l with
  | nil => intro acc; simp
  | cons a l ih =>
    intro acc
    simp only [List.foldl_cons, ih, mem_insertByShard, List.mem_cons]
    constructor
    · rintro ((h | h) | h)
      · exact Or.inr (Or.inl h)
      · exact Or.inl h
      · exact Or.inr (Or.inr h)
    · rintro (h | h | h)
      · exact Or.inl (Or.inr h)
      · exact Or.inl (Or.inl h)
      · exact Or.inr h

theorem byShard_eq_nil (p : Pool K) : p.byShard = [] ↔ p.conns = [] := by
  constructor
  · intro h
    cases hc : p.conns with
    | nil => rfl
    | cons a l =>
      have : a ∈ p.byShard := (mem_byShard p a).mpr (by rw [hc]; exact List.mem_cons_self)
      rw [h] at this; cases this
  · intro h
    cases hb : p.byShard with
    | nil => rfl
    | cons a l =>
      have : a ∈ p.conns := (mem_byShard p a).mp (by rw [hb]; exact List.mem_cons_self)
      rw [h] at this; cases this

theorem mem_removeConn (p : Pool K) (i x : Nat) (h : x ∈ p.removeConn i) : x ∈ p.conns := by
  unfold Pool.removeConn at h
  simp only [List.mem_append] at h
  rcases h with h | h
  · exact (List.mem_filter.mp h).1
  · have hb : ∀ y ∈ (p.conns.filter fun j => (p.net j).shard == (p.net i).shard), y ∈ p.conns :=
      fun y hy => (List.mem_filter.mp hy).1
    split at h
    · split at h
      · rename_i last hlast
        have h1 := List.dropLast_subset _ h
        rcases List.mem_or_eq_of_mem_set h1 with h2 | h2
        · exact hb x h2
        · subst h2; exact hb _ (List.mem_of_getLast? hlast)
      · cases h
    · exact hb x h

/-- Frame: the network only got worse (connections broke), connections were unpublished or a connection
carrying the current keyspace (nothing in flight on it) was published, setting-keyspace futures were dropped or
added for private connections; bookkeeping fields are free. -/
theorem inv_frame {p q : Pool K} (h : Inv p)
    (hnet : NetLe p.net q.net)
    (hconns : ∀ j ∈ q.conns, j ∈ p.conns ∨ (j < p.nextId ∧ (∀ t ∈ p.tasks, j ∉ t.snapshot) ∧
        (p.net j).serverKs = p.currentKs ∧ (p.net j).queue = [] ∧ ∀ e ∈ q.setting, e.1 ≠ j))
    (hset : ∀ e ∈ q.setting, e ∈ p.setting ∨ (e.1 < p.nextId ∧ p.currentKs ≠ none ∧ e.1 ∉ p.conns ∧
        (∀ t ∈ p.tasks, e.1 ∉ t.snapshot) ∧ (p.net e.1).queue = [] ∧ (p.net e.1).unclaimed = false))
    (hid : q.nextId = p.nextId) (hks : q.currentKs = p.currentKs)
    (ht : q.tasks = p.tasks) (ho : q.overlap = p.overlap) : Inv q := by
  have hq : ∀ j, (q.net j).queue = (p.net j).queue := fun j => (hnet j).2.2.1
  constructor
  · intro i hi; rw [hid]
    rcases hconns i hi with h1 | h1
    · exact h.conns_lt i h1
    · exact h1.1
  · intro e he; rw [hid]
    rcases hset e he with h1 | h1
    · exact h.setting_lt e h1
    · exact h1.1
  · intro e he; rw [hks]
    rcases hset e he with h1 | h1
    · exact h.setting_cur e h1
    · exact h1.2.1
  · rw [ht, hid]; exact h.snap_lt
  · rw [ht]; exact h.ids
  · rw [ht]; exact h.ids_lt
  · rw [ht]; exact h.sub_snap
  · rw [ht]; exact h.res_sub
  · rw [ht]; intro t ht' i hi; exact (hnet i).2.2.2.2 (h.res_broken t ht' i hi)
  · rw [ht]; intro t ht' i hi; rw [(hnet i).2.1]; exact h.res_ok t ht' i hi
  · rw [ht]; intro e he
    have hsnap : ∀ t ∈ p.tasks, e.1 ∉ t.snapshot := by
      rcases hset e he with h1 | h1
      · exact (h.priv e h1).2
      · exact h1.2.2.2.1
    refine ⟨fun hc => ?_, hsnap⟩
    rcases hconns _ hc with h2 | h2
    · rcases hset e he with h1 | h1
      · exact (h.priv e h1).1 h2
      · exact h1.2.2.1 h2
    · exact h2.2.2.2.2 e he rfl
  · intro e he
    rw [hq, (hnet e.1).2.2.2.1]
    rcases hset e he with h1 | h1
    · exact h.setting_clean e h1
    · exact ⟨h1.2.2.2.2.1, h1.2.2.2.2.2⟩
  · rw [ht]; intro i tid k hm; rw [hq] at hm; exact h.q_lt i tid k hm
  · rw [ht]; intro t ht' i hi e he; rw [hq] at he; exact h.q_sub t ht' i hi e he
  · rw [ht]; intro t ht' i k hm; rw [hq] at hm; exact h.q_ks t ht' i k hm
  · rw [ht]; exact h.resp
  · intro hov
    rw [ho] at hov
    have hs := h.strong hov
    unfold Strong at hs ⊢
    rw [ht, hks]
    have hb : ∀ i, (q.net i).broken = false → (p.net i).broken = false := by
      intro i hi
      cases hpb : (p.net i).broken with
      | false => rfl
      | true => rw [(hnet i).2.2.2.2 hpb] at hi; cases hi
    cases htasks : p.tasks with
    | nil =>
      rw [htasks] at hs
      intro i hi hbr hm
      rw [(hnet i).1, hq]
      rw [(hnet i).2.2.2.1] at hm
      rcases hconns i hi with h1 | h1
      · exact hs i h1 (hb i hbr) hm
      · exact ⟨h1.2.2.1, h1.2.2.2.1⟩
    | cons L rest =>
      rw [htasks] at hs
      refine ⟨hs.1, hs.2.1, ?_⟩
      intro i hi hbr hm
      rw [(hnet i).2.2.2.1] at hm
      unfold ConnOk
      rw [(hnet i).1, hq]
      rcases hconns i hi with h1 | h1
      · exact hs.2.2 i h1 (hb i hbr) hm
      · have hL : i ∉ L.snapshot := h1.2.1 L (by rw [htasks]; exact List.mem_cons_self)
        exact ⟨fun _ => ⟨by rw [h1.2.2.1, hs.1], h1.2.2.2.1⟩, fun hc => absurd hc hL⟩
  · intro i hi hns hbr hm
    rw [ht] at hns
    rw [(hnet i).2.2.2.1] at hm
    rw [(hnet i).1, hq, hks]
    have hb' : (p.net i).broken = false := by
      cases hpb : (p.net i).broken with
      | false => rfl
      | true => rw [(hnet i).2.2.2.2 hpb] at hbr; cases hbr
    rcases hconns i hi with h1 | h1
    · exact h.fresh i h1 hns hb' hm
    · exact ⟨h1.2.2.1, h1.2.2.2.1⟩

/-- Frame: the network changed only at connections that are neither published nor in any task's snapshot
(a fresh connection, or one that is still private to its setting-keyspace future), and nothing was put in
flight there. -/
theorem inv_frame2 {p q : Pool K} (h : Inv p)
    (hnet : ∀ j, (j ∈ p.conns ∨ ∃ t ∈ p.tasks, j ∈ t.snapshot) → q.net j = p.net j)
    (hnq : ∀ j, (q.net j).queue = (p.net j).queue ∨ (q.net j).queue = [])
    (hnset : ∀ e ∈ p.setting, q.net e.1 = p.net e.1)
    (hconns : q.conns = p.conns) (hset : q.setting = p.setting) (hid : p.nextId ≤ q.nextId)
    (hks : q.currentKs = p.currentKs) (ht : q.tasks = p.tasks) (ho : q.overlap = p.overlap) : Inv q := by
  have hqsub : ∀ j, ∀ e ∈ (q.net j).queue, e ∈ (p.net j).queue := by
    intro j e he
    rcases hnq j with h1 | h1
    · rw [h1] at he; exact he
    · rw [h1] at he; cases he
  constructor
  · rw [hconns]; intro i hi; exact Nat.lt_of_lt_of_le (h.conns_lt i hi) hid
  · rw [hset]; intro e he; exact Nat.lt_of_lt_of_le (h.setting_lt e he) hid
  · rw [hset, hks]; exact h.setting_cur
  · rw [ht]; intro t ht' i hi; exact Nat.lt_of_lt_of_le (h.snap_lt t ht' i hi) hid
  · rw [ht]; exact h.ids
  · rw [ht]; exact h.ids_lt
  · rw [ht]; exact h.sub_snap
  · rw [ht]; exact h.res_sub
  · rw [ht]; intro t ht' i hi
    rw [hnet i (Or.inr ⟨t, ht', h.res_snap t ht' i _ hi⟩)]; exact h.res_broken t ht' i hi
  · rw [ht]; intro t ht' i hi
    rw [hnet i (Or.inr ⟨t, ht', h.res_snap t ht' i _ hi⟩)]; exact h.res_ok t ht' i hi
  · rw [ht, hset, hconns]; exact h.priv
  · rw [hset]; intro e he; rw [hnset e he]; exact h.setting_clean e he
  · rw [ht]; intro i tid k hm; exact h.q_lt i tid k (hqsub i _ hm)
  · rw [ht]; intro t ht' i hi e he; exact h.q_sub t ht' i hi e (hqsub i e he)
  · rw [ht]; intro t ht' i k hm; exact h.q_ks t ht' i k (hqsub i _ hm)
  · rw [ht]; exact h.resp
  · intro hov
    rw [ho] at hov
    have hs := h.strong hov
    unfold Strong at hs ⊢
    rw [ht, hks, hconns]
    cases htasks : p.tasks with
    | nil =>
      rw [htasks] at hs
      intro i hi hbr hm
      rw [hnet i (Or.inl hi)] at hbr hm ⊢
      exact hs i hi hbr hm
    | cons L rest =>
      rw [htasks] at hs
      refine ⟨hs.1, hs.2.1, ?_⟩
      intro i hi hbr hm
      rw [hnet i (Or.inl hi)] at hbr hm ⊢
      exact hs.2.2 i hi hbr hm
  · rw [ht, hks, hconns]
    intro i hi hns hbr hm
    rw [hnet i (Or.inl hi)] at hbr hm ⊢
    exact h.fresh i hi hns hbr hm

/-- What `accept` may change. -/
theorem accept_frame (p : Pool K) (i : Nat) (req : Option Nat) :
    let q := p.accept i req
    NetLe p.net q.net ∧ (∀ j ∈ q.conns, j ∈ p.conns ∨ j = i) ∧ q.setting = p.setting ∧ q.nextId = p.nextId ∧
    q.currentKs = p.currentKs ∧ q.tasks = p.tasks ∧ q.overlap = p.overlap := by
  unfold Pool.accept Pool.maybeReshard
  simp only
  split <;> split <;> split <;> (try split) <;> (try split) <;>
    simp_all [NetLe.refl, Pool.close, Pool.canAccept] <;>
    first
      | (intro j; unfold setConn; by_cases hj : j = i <;> simp [hj])
      | skip

theorem afterReady_frame (p : Pool K) :
    let q := p.afterReady
    q.net = p.net ∧ q.conns = p.conns ∧ q.setting = p.setting ∧ q.nextId = p.nextId ∧
    q.currentKs = p.currentKs ∧ q.tasks = p.tasks ∧ q.overlap = p.overlap := by
  unfold Pool.afterReady
  split <;> simp

theorem handleReady_cases (p : Pool K) (i : Nat) (evKs : Option K) (req : Option Nat) :
    (p.handleReady i evKs req = p.accept i req ∧ (p.currentKs = none ∨ evKs = p.currentKs)) ∨
    (∃ k, p.currentKs = some k ∧ p.handleReady i evKs req = { p with setting := p.setting ++ [(i, k, req)] }) := by
  unfold Pool.handleReady
  cases hk : p.currentKs with
  | none => simp
  | some k =>
    by_cases hne : evKs = some k
    · simp [hne]
    · right; exact ⟨k, rfl, by simp [hne]⟩

/-- `handle_ready_connection` (Ok branch) + the run loop's excess clearing keep the invariant, provided the
connection is private, nothing is in flight on it and, if its event claims the current keyspace, the server has
that keyspace set. -/
theorem inv_handleReady {p : Pool K} (h : Inv p) (i : Nat) (evKs : Option K) (req : Option Nat)
    (hi : i < p.nextId) (hc : i ∉ p.conns) (hs : ∀ e ∈ p.setting, e.1 ≠ i)
    (ht : ∀ t ∈ p.tasks, i ∉ t.snapshot)
    (hq : (p.net i).queue = [] ∧ (p.net i).unclaimed = false)
    (hev : evKs = p.currentKs → (p.net i).serverKs = p.currentKs)
    (hnone : p.currentKs = none → (p.net i).serverKs = none) :
    Inv (p.handleReady i evKs req).afterReady := by
  have haf := afterReady_frame (p.handleReady i evKs req)
  simp only at haf
  obtain ⟨a1, a2, a3, a4, a5, a6, a7⟩ := haf
  rcases handleReady_cases p i evKs req with ⟨heq, hcur⟩ | ⟨k, hk, heq⟩
  · rw [heq] at a1 a2 a3 a4 a5 a6 a7 ⊢
    have hacc := accept_frame p i req
    simp only at hacc
    obtain ⟨b1, b2, b3, b4, b5, b6, b7⟩ := hacc
    apply inv_frame h (q := (p.accept i req).afterReady)
    · rw [a1]; exact b1
    · intro j hj
      rw [a2] at hj
      rcases b2 j hj with h1 | h1
      · exact Or.inl h1
      · subst h1
        refine Or.inr ⟨hi, ht, ?_, hq.1, ?_⟩
        · rcases hcur with h2 | h2
          · rw [h2]; exact hnone h2
          · exact hev h2
        · rw [a3, b3]; exact hs
    · intro e he; rw [a3, b3] at he; exact Or.inl he
    · rw [a4, b4]
    · rw [a5, b5]
    · rw [a6, b6]
    · rw [a7, b7]
  · rw [heq] at a1 a2 a3 a4 a5 a6 a7 ⊢
    simp only at a1 a2 a3 a4 a5 a6 a7
    apply inv_frame h
    · rw [a1]; exact NetLe.refl _
    · intro j hj; rw [a2] at hj; exact Or.inl hj
    · intro e he
      rw [a3] at he
      simp only [List.mem_append, List.mem_singleton] at he
      rcases he with h1 | h1
      · exact Or.inl h1
      · subst h1
        exact Or.inr ⟨hi, by simp [hk], hc, ht, hq.1, hq.2⟩
    · rw [a4]
    · rw [a5]
    · rw [a6]
    · rw [a7]

theorem inv_useKs {p : Pool K} (h : Inv p) (k : K) : Inv (step p (.useKs k)) := by
  simp only [step]
  constructor
  · exact h.conns_lt
  · exact h.setting_lt
  · intro e _; simp
  · intro t ht i hi
    simp only [List.mem_cons] at ht
    rcases ht with rfl | ht
    · exact h.conns_lt i ((mem_byShard p i).mp hi)
    · exact h.snap_lt t ht i hi
  · simp only [List.pairwise_cons]
    refine ⟨fun t ht => ?_, h.ids⟩
    have := h.ids_lt t ht
    simp only [ne_eq]; omega
  · intro t ht
    simp only [List.mem_cons, List.length_cons] at ht ⊢
    rcases ht with rfl | ht
    · simp
    · have := h.ids_lt t ht; omega
  · intro t ht i hi
    simp only [List.mem_cons] at ht
    rcases ht with rfl | ht
    · simp at hi
    · exact h.sub_snap t ht i hi
  · intro t ht i r hr
    simp only [List.mem_cons] at ht
    rcases ht with rfl | ht
    · simp at hr
    · exact h.res_sub t ht i r hr
  · intro t ht i hr
    simp only [List.mem_cons] at ht
    rcases ht with rfl | ht
    · simp at hr
    · exact h.res_broken t ht i hr
  · intro t ht i hr
    simp only [List.mem_cons] at ht
    rcases ht with rfl | ht
    · simp at hr
    · exact h.res_ok t ht i hr
  · intro e he
    refine ⟨(h.priv e he).1, fun t ht => ?_⟩
    simp only [List.mem_cons] at ht
    rcases ht with rfl | ht
    · exact fun hc => (h.priv e he).1 ((mem_byShard p _).mp hc)
    · exact (h.priv e he).2 t ht
  · exact h.setting_clean
  · intro i tid k' hm
    have := h.q_lt i tid k' hm
    simp only [List.length_cons]; omega
  · intro t ht i hi e he
    simp only [List.mem_cons] at ht
    rcases ht with rfl | ht
    · intro heq
      obtain ⟨w, k'⟩ := e
      simp only at heq
      subst heq
      have := h.q_lt i _ k' he
      simp at this
    · exact h.q_sub t ht i hi e he
  · intro t ht i k' hm
    simp only [List.mem_cons] at ht
    rcases ht with rfl | ht
    · have := h.q_lt i _ k' hm
      simp at this
    · exact h.q_ks t ht i k' hm
  · intro t ht o ho
    simp only [List.mem_cons] at ht
    rcases ht with rfl | ht
    · left
      simp only at ho ⊢
      cases hc : p.conns with
      | nil => simp [hc] at ho ⊢; exact ⟨(byShard_eq_nil p).mpr hc, ho.symm⟩
      | cons a l => simp [hc] at ho
    · exact h.resp t ht o ho
  · intro hov
    simp only at hov
    unfold Strong
    simp only
    refine ⟨trivial, ?_, ?_⟩
    · intro t ht hnone
      rw [List.any_eq_false] at hov
      exact hov t ht (by simp [hnone])
    · intro i hi _ _
      unfold ConnOk
      exact ⟨fun hn => absurd ((mem_byShard p i).mpr hi) hn, fun _ => ⟨fun hr => by simp at hr, fun _ hs => by simp at hs⟩⟩
  · intro i hi hns _ _
    exact absurd ((mem_byShard p i).mpr hi) (hns _ List.mem_cons_self)

theorem unique_id {ts : List (Task K)} (hp : ts.Pairwise (fun a b => a.id ≠ b.id)) {a b : Task K}
    (ha : a ∈ ts) (hb : b ∈ ts) (hid : a.id = b.id) : a = b := by
  induction hp with
  | nil => cases ha
  | cons hhead _ ih =>
    simp only [List.mem_cons] at ha hb
    rcases ha with rfl | ha <;> rcases hb with rfl | hb
    · rfl
    · exact absurd hid (hhead b hb)
    · exact absurd hid.symm (hhead a ha)
    · exact ih ha hb

theorem findTask_some {ts : List (Task K)} {tid : Nat} {t : Task K} (h : findTask ts tid = some t) :
    t ∈ ts ∧ t.id = tid := by
  unfold findTask at h
  exact ⟨List.mem_of_find?_eq_some h, by simpa using List.find?_some h⟩

theorem mem_modifyTask {ts : List (Task K)} {tid : Nat} {f : Task K → Task K} {t' : Task K} :
    t' ∈ modifyTask ts tid f ↔ ∃ t ∈ ts, t' = if t.id = tid then f t else t := by
  unfold modifyTask
  simp only [List.mem_map]
  constructor
  · rintro ⟨t, ht, rfl⟩; exact ⟨t, ht, rfl⟩
  · rintro ⟨t, ht, rfl⟩; exact ⟨t, ht, rfl⟩

theorem modifyTask_of_ne {ts : List (Task K)} {tid : Nat} {f : Task K → Task K}
    (h : ∀ t ∈ ts, t.id ≠ tid) : modifyTask ts tid f = ts := by
  unfold modifyTask
  induction ts with
  | nil => rfl
  | cons a l ih =>
    simp only [List.map_cons, List.mem_cons, forall_eq_or_imp] at h ⊢
    rw [if_neg h.1, ih h.2]

theorem nosnap_of_modify {ts : List (Task K)} {tid : Nat} {f : Task K → Task K}
    (hf : ∀ t, (f t).snapshot = t.snapshot) {j : Nat}
    (h : ∀ t' ∈ modifyTask ts tid f, j ∉ t'.snapshot) : ∀ t ∈ ts, j ∉ t.snapshot := by
  intro t ht
  have := h _ (mem_modifyTask.mpr ⟨t, ht, rfl⟩)
  split at this
  · rw [hf t] at this; exact this
  · exact this

theorem serveUse_props (c : Conn K) (k : K) (r : SrvReply K) :
    let (c', res) := serveUse c k r
    c'.broken = c.broken ∧ (∀ x ∈ c.acked, x ∈ c'.acked) ∧ res ≠ .error .broken ∧
    (res = .ok () → c'.serverKs = some k ∧ k ∈ c'.acked) ∧ c'.queue = c.queue ∧ c'.unclaimed = c.unclaimed := by
  cases r <;> simp [serveUse] <;> (intro x hx; exact Or.inl hx)

/-- The properties of the connection after the node answered (or the broken connection failed) the oldest
`USE` in flight. -/
structure Served (c c' : Conn K) (k : K) (rest : List (Waiter × K)) (res : UseRes) : Prop where
  broken : c'.broken = c.broken
  acked : ∀ x ∈ c.acked, x ∈ c'.acked
  queue : c'.queue = rest
  mark : c'.unclaimed = c.unclaimed
  ok : res = .ok () → c'.serverKs = some k ∧ k ∈ c'.acked
  brk : res = .error .broken → c.broken = true

theorem served_of_step (c : Conn K) (k : K) (r : SrvReply K) (rest : List (Waiter × K)) :
    Served c { (if c.broken then (c, (.error .broken : UseRes)) else serveUse c k r).1 with queue := rest } k rest
      (if c.broken then (c, (.error .broken : UseRes)) else serveUse c k r).2 := by
  by_cases hb : c.broken = true
  · rw [if_pos hb]
    exact ⟨rfl, fun x hx => hx, rfl, rfl, fun h => by simp at h, fun _ => hb⟩
  · have hb' : c.broken = false := by simpa using hb
    simp only [hb', Bool.false_eq_true, ↓reduceIte]
    have hp := serveUse_props c k r
    generalize serveUse c k r = cr at hp ⊢
    obtain ⟨c1, res⟩ := cr
    simp only at hp ⊢
    exact ⟨hp.1, hp.2.1, rfl, hp.2.2.2.2.2, hp.2.2.2.1, fun h => absurd h hp.2.2.1⟩

/-- The oldest `USE` on `i` is answered and nobody records the answer (a user statement, or a task that has
already answered its caller). -/
theorem inv_serve_norec {p : Pool K} (h : Inv p) (i : Nat) (w : Waiter) (k : K) (rest : List (Waiter × K))
    (c' : Conn K) (res : UseRes) (hqu : (p.net i).queue = (w, k) :: rest) (hsv : Served (p.net i) c' k rest res)
    (hno : ∀ t ∈ p.tasks, w = .task t.id → t.resp ≠ none ∨ t.results.lookup i ≠ none) :
    Inv { p with net := setConn p.net i c' } := by
  have hnet : ∀ j, j ≠ i → setConn p.net i c' j = p.net j := fun j hj => by simp [setConn, hj]
  have hneti : setConn p.net i c' i = c' := by simp [setConn]
  have hqsub : ∀ j, ∀ e ∈ (setConn p.net i c' j).queue, e ∈ (p.net j).queue := by
    intro j e he
    by_cases hj : j = i
    · subst hj; rw [hneti, hsv.queue] at he; rw [hqu]; exact List.mem_cons_of_mem _ he
    · rw [hnet j hj] at he; exact he
  have hiset : ∀ e ∈ p.setting, e.1 ≠ i := by
    intro e he heq
    have := (h.setting_clean e he).1
    rw [heq, hqu] at this; cases this
  constructor
  · exact h.conns_lt
  · exact h.setting_lt
  · exact h.setting_cur
  · exact h.snap_lt
  · exact h.ids
  · exact h.ids_lt
  · exact h.sub_snap
  · exact h.res_sub
  · intro t ht j hr
    have := h.res_broken t ht j hr
    by_cases hj : j = i
    · subst hj; simp only [hneti]; rw [hsv.broken]; exact this
    · simp only [hnet j hj]; exact this
  · intro t ht j hr
    have := h.res_ok t ht j hr
    by_cases hj : j = i
    · subst hj; simp only [hneti]; exact hsv.acked _ this
    · simp only [hnet j hj]; exact this
  · exact h.priv
  · intro e he
    simp only [hnet e.1 (hiset e he)]
    exact h.setting_clean e he
  · intro j tid k' hm; exact h.q_lt j tid k' (hqsub j _ hm)
  · intro t ht j hj e he; exact h.q_sub t ht j hj e (hqsub j e he)
  · intro t ht j k' hm; exact h.q_ks t ht j k' (hqsub j _ hm)
  · exact h.resp
  · intro hov
    have hs := h.strong hov
    unfold Strong at hs ⊢
    simp only
    cases htasks : p.tasks with
    | nil =>
      rw [htasks] at hs
      intro j hj hb hm
      by_cases hji : j = i
      · subst hji
        rw [hneti] at hb hm
        rw [hsv.broken] at hb; rw [hsv.mark] at hm
        have := (hs j hj hb hm).2
        rw [hqu] at this; cases this
      · rw [hnet j hji] at hb hm ⊢; exact hs j hj hb hm
    | cons L tl =>
      rw [htasks] at hs
      refine ⟨hs.1, hs.2.1, ?_⟩
      intro j hj hb hm
      by_cases hji : j = i
      · subst hji
        rw [hneti] at hb hm ⊢
        rw [hsv.broken] at hb; rw [hsv.mark] at hm
        have hok := hs.2.2 j hj hb hm
        unfold ConnOk at hok ⊢
        refine ⟨fun hn => ?_, fun hin => ⟨fun hr => ?_, fun hal hsub hlk => ?_⟩⟩
        · have := (hok.1 hn).2; rw [hqu] at this; cases this
        · have := ((hok.2 hin).1 hr).2; rw [hqu] at this; cases this
        · obtain ⟨pre, hpre, hne⟩ := (hok.2 hin).2 hal hsub hlk
          rw [hqu] at hpre
          cases pre with
          | nil =>
            simp only [List.nil_append, List.cons.injEq, Prod.mk.injEq] at hpre
            have hL : L ∈ p.tasks := by rw [htasks]; exact List.mem_cons_self
            rcases hno L hL hpre.1.1 with h1 | h1
            · exact absurd hal h1
            · exact absurd hlk h1
          | cons e0 pre' =>
            simp only [List.cons_append, List.cons.injEq] at hpre
            refine ⟨pre', by rw [hsv.queue]; exact hpre.2, fun e he => hne e (List.mem_cons_of_mem _ he)⟩
      · rw [hnet j hji] at hb hm ⊢; exact hs.2.2 j hj hb hm
  · intro j hj hns hb hm
    try simp only at hj hns hb hm ⊢
    by_cases hji : j = i
    · subst hji
      rw [hneti] at hb hm
      rw [hsv.broken] at hb; rw [hsv.mark] at hm
      have := (h.fresh j hj hns hb hm).2
      rw [hqu] at this; cases this
    · rw [hnet j hji] at hb hm ⊢; exact h.fresh j hj hns hb hm

/-- The oldest `USE` on `i` is answered and the (alive) task that waits for it records the answer. -/
theorem inv_serve_rec {p : Pool K} (h : Inv p) (i : Nat) (t0 : Task K) (k : K) (rest : List (Waiter × K))
    (c' : Conn K) (res : UseRes) (hqu : (p.net i).queue = (.task t0.id, k) :: rest)
    (hsv : Served (p.net i) c' k rest res)
    (ht0 : t0 ∈ p.tasks) (halive : t0.resp = none) (hlk : t0.results.lookup i = none) :
    Inv { p with net := setConn p.net i c',
                 tasks := modifyTask p.tasks t0.id fun t => { t with results := (i, res) :: t.results } } := by
  have huniq : ∀ t ∈ p.tasks, t.id = t0.id → t = t0 := fun t ht hid => unique_id h.ids ht ht0 hid
  have hnet : ∀ j, j ≠ i → setConn p.net i c' j = p.net j := fun j hj => by simp [setConn, hj]
  have hneti : setConn p.net i c' i = c' := by simp [setConn]
  have hqsub : ∀ j, ∀ e ∈ (setConn p.net i c' j).queue, e ∈ (p.net j).queue := by
    intro j e he
    by_cases hj : j = i
    · subst hj; rw [hneti, hsv.queue] at he; rw [hqu]; exact List.mem_cons_of_mem _ he
    · rw [hnet j hj] at he; exact he
  have hiset : ∀ e ∈ p.setting, e.1 ≠ i := by
    intro e he heq
    have := (h.setting_clean e he).1
    rw [heq, hqu] at this; cases this
  have hk : k = t0.ks := h.q_ks t0 ht0 i k (by rw [hqu]; exact List.mem_cons_self)
  have hisub : i ∈ t0.submitted := by
    by_cases hn : i ∈ t0.submitted
    · exact hn
    · exact absurd rfl (h.q_sub t0 ht0 i hn (.task t0.id, k) (by rw [hqu]; exact List.mem_cons_self))
  have hbrk : ∀ j, (p.net j).broken = true → (setConn p.net i c' j).broken = true := by
    intro j hj
    by_cases hji : j = i
    · subst hji; rw [hneti, hsv.broken]; exact hj
    · rw [hnet j hji]; exact hj
  have hack : ∀ j x, x ∈ (p.net j).acked → x ∈ (setConn p.net i c' j).acked := by
    intro j x hx
    by_cases hji : j = i
    · subst hji; rw [hneti]; exact hsv.acked x hx
    · rw [hnet j hji]; exact hx
  constructor
  · exact h.conns_lt
  · exact h.setting_lt
  · exact h.setting_cur
  · intro t' ht' j hj
    obtain ⟨t, ht, rfl⟩ := mem_modifyTask.mp ht'
    split at hj <;> exact h.snap_lt t ht j hj
  · simp only [modifyTask, List.pairwise_map]
    refine h.ids.imp ?_
    intro a b hab
    split <;> split <;> simpa using hab
  · intro t' ht'
    obtain ⟨t, ht, rfl⟩ := mem_modifyTask.mp ht'
    simp only [modifyTask, List.length_map]
    split <;> exact h.ids_lt t ht
  · intro t' ht' j hj
    obtain ⟨t, ht, rfl⟩ := mem_modifyTask.mp ht'
    split at hj <;> split <;> first | exact h.sub_snap t ht j hj | simp_all
  · intro t' ht' j r hr
    obtain ⟨t, ht, rfl⟩ := mem_modifyTask.mp ht'
    split at hr
    next hid =>
      have := huniq t ht hid; subst this
      simp only [hid, ↓reduceIte]
      simp only [List.lookup_cons] at hr
      split at hr
      next heq => simp only [beq_iff_eq] at heq; subst heq; exact hisub
      next => exact h.res_sub _ ht j r hr
    next hid => simp only [hid, ↓reduceIte]; exact h.res_sub t ht j r hr
  · intro t' ht' j hr
    obtain ⟨t, ht, rfl⟩ := mem_modifyTask.mp ht'
    simp only
    split at hr
    next hid =>
      have := huniq t ht hid; subst this
      simp only [List.lookup_cons] at hr
      split at hr
      next heq =>
        simp only [beq_iff_eq] at heq; subst heq
        simp only [Option.some.injEq] at hr
        exact hbrk j (hsv.brk hr)
      next => exact hbrk j (h.res_broken _ ht j hr)
    next => exact hbrk j (h.res_broken t ht j hr)
  · intro t' ht' j hr
    obtain ⟨t, ht, rfl⟩ := mem_modifyTask.mp ht'
    simp only
    split at hr
    next hid =>
      have := huniq t ht hid; subst this
      simp only [↓reduceIte]
      simp only [List.lookup_cons] at hr
      split at hr
      next heq =>
        simp only [beq_iff_eq] at heq; subst heq
        simp only [Option.some.injEq] at hr
        rw [hneti, ← hk]; exact (hsv.ok hr).2
      next => exact hack j _ (h.res_ok _ ht j hr)
    next hid =>
      simp only [hid, ↓reduceIte]
      exact hack j _ (h.res_ok t ht j hr)
  · intro e he
    refine ⟨(h.priv e he).1, fun t' ht' => ?_⟩
    obtain ⟨t, ht, rfl⟩ := mem_modifyTask.mp ht'
    split <;> exact (h.priv e he).2 t ht
  · intro e he
    simp only [hnet e.1 (hiset e he)]
    exact h.setting_clean e he
  · intro j tid k' hm
    simp only [modifyTask, List.length_map]
    exact h.q_lt j tid k' (hqsub j _ hm)
  · intro t' ht' j hj e he
    obtain ⟨t, ht, rfl⟩ := mem_modifyTask.mp ht'
    split at hj <;> split <;> first | exact h.q_sub t ht j hj e (hqsub j e he) | simp_all
  · intro t' ht' j k' hm
    obtain ⟨t, ht, rfl⟩ := mem_modifyTask.mp ht'
    split at hm <;> split <;> first | exact h.q_ks t ht j k' (hqsub j _ hm) | simp_all
  · intro t' ht' o ho
    obtain ⟨t, ht, rfl⟩ := mem_modifyTask.mp ht'
    split at ho
    next hid =>
      have := huniq t ht hid; subst this
      simp only at ho
      rw [halive] at ho; cases ho
    next hid =>
      simp only [hid, ↓reduceIte]
      exact h.resp t ht o ho
  · intro hov
    have hs := h.strong hov
    unfold Strong at hs ⊢
    simp only
    cases htasks : p.tasks with
    | nil => rw [htasks] at ht0; cases ht0
    | cons L tl =>
      rw [htasks] at hs ht0
      have hL : t0 = L := by
        simp only [List.mem_cons] at ht0
        rcases ht0 with rfl | hr
        · rfl
        · exact absurd halive (hs.2.1 t0 hr)
      subst hL
      have hrest : ∀ t ∈ tl, t.id ≠ t0.id := by
        have := h.ids
        rw [htasks, List.pairwise_cons] at this
        intro t ht heq
        exact this.1 t ht heq.symm
      simp only [modifyTask, List.map_cons, ↓reduceIte]
      have : List.map (fun t => if t.id = t0.id then { t with results := (i, res) :: t.results } else t) tl = tl :=
        modifyTask_of_ne hrest
      rw [this]
      refine ⟨hs.1, hs.2.1, ?_⟩
      intro j hj hb hm
      by_cases hji : j = i
      · subst hji
        rw [hneti] at hb hm ⊢
        rw [hsv.broken] at hb; rw [hsv.mark] at hm
        have hok := hs.2.2 j hj hb hm
        unfold ConnOk at hok ⊢
        have hin : j ∈ t0.snapshot := h.sub_snap t0 (by rw [htasks]; exact List.mem_cons_self) j hisub
        obtain ⟨pre, hpre, hne⟩ := (hok.2 hin).2 halive hisub hlk
        rw [hqu] at hpre
        have hpre0 : pre = [] := by
          cases pre with
          | nil => rfl
          | cons e0 pre' =>
            simp only [List.cons_append, List.cons.injEq] at hpre
            exact absurd (by rw [← hpre.1]) (hne e0 List.mem_cons_self)
        subst hpre0
        simp only [List.nil_append, List.cons.injEq, and_true] at hpre
        refine ⟨fun hn => absurd hin hn, fun _ => ⟨fun hr => ?_, fun _ _ hlk' => ?_⟩⟩
        · simp only [List.lookup_cons, beq_self_eq_true, Option.some.injEq] at hr
          refine ⟨?_, by rw [hsv.queue]; exact hpre.2⟩
          rw [(hsv.ok hr).1, hk]
        · simp at hlk'
      · rw [hnet j hji] at hb hm ⊢
        have := hs.2.2 j hj hb hm
        unfold ConnOk at this ⊢
        refine ⟨this.1, fun hin => ⟨fun hr => (this.2 hin).1 ?_, fun hal hsub hlk' => (this.2 hin).2 hal hsub ?_⟩⟩
        · simp only [List.lookup_cons] at hr
          have hne : (j == i) = false := by simp [hji]
          rw [hne] at hr; exact hr
        · simp only [List.lookup_cons] at hlk'
          have hne : (j == i) = false := by simp [hji]
          rw [hne] at hlk'; exact hlk'
  · intro j hj hns hb hm
    try simp only at hj hns hb hm ⊢
    have hns' := nosnap_of_modify (f := fun t => { t with results := (i, res) :: t.results }) (fun _ => rfl) hns
    by_cases hji : j = i
    · subst hji
      exact absurd (h.sub_snap t0 ht0 j hisub) (hns' t0 ht0)
    · rw [hnet j hji] at hb hm ⊢; exact h.fresh j hj hns' hb hm

/-- The connection after the node answered, out of order, a `USE` that was not the oldest in flight. -/
structure ServedOoo (c c' : Conn K) (k : K) (res : UseRes) : Prop where
  broken : c'.broken = c.broken
  acked : ∀ x ∈ c.acked, x ∈ c'.acked
  qsub : ∀ e ∈ c'.queue, e ∈ c.queue
  mark : c'.unclaimed = true
  ok : res = .ok () → c'.serverKs = some k ∧ k ∈ c'.acked
  brk : res = .error .broken → c.broken = true

theorem servedOoo_of_step (c : Conn K) (k : K) (r : SrvReply K) (j : Nat) :
    ServedOoo c { (if c.broken then (c, (.error .broken : UseRes)) else serveUse c k r).1 with
        queue := c.queue.eraseIdx j, unclaimed := true } k
      (if c.broken then (c, (.error .broken : UseRes)) else serveUse c k r).2 := by
  have hsub : ∀ e ∈ c.queue.eraseIdx j, e ∈ c.queue := fun e he => List.mem_of_mem_eraseIdx he
  by_cases hb : c.broken = true
  · rw [if_pos hb]
    exact ⟨rfl, fun x hx => hx, hsub, rfl, fun h => by simp at h, fun _ => hb⟩
  · have hb' : c.broken = false := by simpa using hb
    simp only [hb', Bool.false_eq_true, ↓reduceIte]
    have hp := serveUse_props c k r
    generalize serveUse c k r = cr at hp ⊢
    obtain ⟨c1, res⟩ := cr
    simp only at hp ⊢
    exact ⟨hp.1, hp.2.1, hsub, rfl, hp.2.2.2.1, fun h => absurd h hp.2.2.1⟩

/-- An out-of-order answer that nobody records. The connection is marked: no claim about it survives. -/
theorem inv_ooo_norec {p : Pool K} (h : Inv p) (i : Nat) (w : Waiter) (k : K) (c' : Conn K) (res : UseRes)
    (hmem : (w, k) ∈ (p.net i).queue) (hsv : ServedOoo (p.net i) c' k res) :
    Inv { p with net := setConn p.net i c' } := by
  have hnet : ∀ j, j ≠ i → setConn p.net i c' j = p.net j := fun j hj => by simp [setConn, hj]
  have hneti : setConn p.net i c' i = c' := by simp [setConn]
  have hqsub : ∀ j, ∀ e ∈ (setConn p.net i c' j).queue, e ∈ (p.net j).queue := by
    intro j e he
    by_cases hj : j = i
    · subst hj; rw [hneti] at he; exact hsv.qsub e he
    · rw [hnet j hj] at he; exact he
  have hiset : ∀ e ∈ p.setting, e.1 ≠ i := by
    intro e he heq
    have := (h.setting_clean e he).1
    rw [heq] at this; rw [this] at hmem; cases hmem
  constructor
  · exact h.conns_lt
  · exact h.setting_lt
  · exact h.setting_cur
  · exact h.snap_lt
  · exact h.ids
  · exact h.ids_lt
  · exact h.sub_snap
  · exact h.res_sub
  · intro t ht j hr
    have := h.res_broken t ht j hr
    by_cases hj : j = i
    · subst hj; simp only [hneti]; rw [hsv.broken]; exact this
    · simp only [hnet j hj]; exact this
  · intro t ht j hr
    have := h.res_ok t ht j hr
    by_cases hj : j = i
    · subst hj; simp only [hneti]; exact hsv.acked _ this
    · simp only [hnet j hj]; exact this
  · exact h.priv
  · intro e he
    simp only [hnet e.1 (hiset e he)]
    exact h.setting_clean e he
  · intro j tid k' hm; exact h.q_lt j tid k' (hqsub j _ hm)
  · intro t ht j hj e he; exact h.q_sub t ht j hj e (hqsub j e he)
  · intro t ht j k' hm; exact h.q_ks t ht j k' (hqsub j _ hm)
  · exact h.resp
  · intro hov
    have hs := h.strong hov
    unfold Strong at hs ⊢
    simp only
    cases htasks : p.tasks with
    | nil =>
      rw [htasks] at hs
      intro j hj hb hm
      by_cases hji : j = i
      · subst hji; rw [hneti, hsv.mark] at hm; cases hm
      · rw [hnet j hji] at hb hm ⊢; exact hs j hj hb hm
    | cons L tl =>
      rw [htasks] at hs
      refine ⟨hs.1, hs.2.1, ?_⟩
      intro j hj hb hm
      by_cases hji : j = i
      · subst hji; rw [hneti, hsv.mark] at hm; cases hm
      · rw [hnet j hji] at hb hm ⊢; exact hs.2.2 j hj hb hm
  · intro j hj hns hb hm
    try simp only at hj hns hb hm ⊢
    by_cases hji : j = i
    · subst hji; rw [hneti, hsv.mark] at hm; cases hm
    · rw [hnet j hji] at hb hm ⊢; exact h.fresh j hj hns hb hm

/-- An out-of-order answer recorded by the (alive) task that waits for it. -/
theorem inv_ooo_rec {p : Pool K} (h : Inv p) (i : Nat) (t0 : Task K) (k : K)
    (c' : Conn K) (res : UseRes) (hmem : (Waiter.task t0.id, k) ∈ (p.net i).queue)
    (hsv : ServedOoo (p.net i) c' k res)
    (ht0 : t0 ∈ p.tasks) (halive : t0.resp = none) (hlk : t0.results.lookup i = none) :
    Inv { p with net := setConn p.net i c',
                 tasks := modifyTask p.tasks t0.id fun t => { t with results := (i, res) :: t.results } } := by
  have huniq : ∀ t ∈ p.tasks, t.id = t0.id → t = t0 := fun t ht hid => unique_id h.ids ht ht0 hid
  have hnet : ∀ j, j ≠ i → setConn p.net i c' j = p.net j := fun j hj => by simp [setConn, hj]
  have hneti : setConn p.net i c' i = c' := by simp [setConn]
  have hqsub : ∀ j, ∀ e ∈ (setConn p.net i c' j).queue, e ∈ (p.net j).queue := by
    intro j e he
    by_cases hj : j = i
    · subst hj; rw [hneti] at he; exact hsv.qsub e he
    · rw [hnet j hj] at he; exact he
  have hiset : ∀ e ∈ p.setting, e.1 ≠ i := by
    intro e he heq
    have := (h.setting_clean e he).1
    rw [heq] at this; rw [this] at hmem; cases hmem
  have hk : k = t0.ks := h.q_ks t0 ht0 i k hmem
  have hisub : i ∈ t0.submitted := by
    by_cases hn : i ∈ t0.submitted
    · exact hn
    · exact absurd rfl (h.q_sub t0 ht0 i hn (.task t0.id, k) hmem)
  have hbrk : ∀ j, (p.net j).broken = true → (setConn p.net i c' j).broken = true := by
    intro j hj
    by_cases hji : j = i
    · subst hji; rw [hneti, hsv.broken]; exact hj
    · rw [hnet j hji]; exact hj
  have hack : ∀ j x, x ∈ (p.net j).acked → x ∈ (setConn p.net i c' j).acked := by
    intro j x hx
    by_cases hji : j = i
    · subst hji; rw [hneti]; exact hsv.acked x hx
    · rw [hnet j hji]; exact hx
  constructor
  · exact h.conns_lt
  · exact h.setting_lt
  · exact h.setting_cur
  · intro t' ht' j hj
    obtain ⟨t, ht, rfl⟩ := mem_modifyTask.mp ht'
    split at hj <;> exact h.snap_lt t ht j hj
  · simp only [modifyTask, List.pairwise_map]
    refine h.ids.imp ?_
    intro a b hab
    split <;> split <;> simpa using hab
  · intro t' ht'
    obtain ⟨t, ht, rfl⟩ := mem_modifyTask.mp ht'
    simp only [modifyTask, List.length_map]
    split <;> exact h.ids_lt t ht
  · intro t' ht' j hj
    obtain ⟨t, ht, rfl⟩ := mem_modifyTask.mp ht'
    split at hj <;> split <;> first | exact h.sub_snap t ht j hj | simp_all
  · intro t' ht' j r hr
    obtain ⟨t, ht, rfl⟩ := mem_modifyTask.mp ht'
    split at hr
    next hid =>
      have := huniq t ht hid; subst this
      simp only [hid, ↓reduceIte]
      simp only [List.lookup_cons] at hr
      split at hr
      next heq => simp only [beq_iff_eq] at heq; subst heq; exact hisub
      next => exact h.res_sub _ ht j r hr
    next hid => simp only [hid, ↓reduceIte]; exact h.res_sub t ht j r hr
  · intro t' ht' j hr
    obtain ⟨t, ht, rfl⟩ := mem_modifyTask.mp ht'
    simp only
    split at hr
    next hid =>
      have := huniq t ht hid; subst this
      simp only [List.lookup_cons] at hr
      split at hr
      next heq =>
        simp only [beq_iff_eq] at heq; subst heq
        simp only [Option.some.injEq] at hr
        exact hbrk j (hsv.brk hr)
      next => exact hbrk j (h.res_broken _ ht j hr)
    next => exact hbrk j (h.res_broken t ht j hr)
  · intro t' ht' j hr
    obtain ⟨t, ht, rfl⟩ := mem_modifyTask.mp ht'
    simp only
    split at hr
    next hid =>
      have := huniq t ht hid; subst this
      simp only [↓reduceIte]
      simp only [List.lookup_cons] at hr
      split at hr
      next heq =>
        simp only [beq_iff_eq] at heq; subst heq
        simp only [Option.some.injEq] at hr
        rw [hneti, ← hk]; exact (hsv.ok hr).2
      next => exact hack j _ (h.res_ok _ ht j hr)
    next hid =>
      simp only [hid, ↓reduceIte]
      exact hack j _ (h.res_ok t ht j hr)
  · intro e he
    refine ⟨(h.priv e he).1, fun t' ht' => ?_⟩
    obtain ⟨t, ht, rfl⟩ := mem_modifyTask.mp ht'
    split <;> exact (h.priv e he).2 t ht
  · intro e he
    simp only [hnet e.1 (hiset e he)]
    exact h.setting_clean e he
  · intro j tid k' hm
    simp only [modifyTask, List.length_map]
    exact h.q_lt j tid k' (hqsub j _ hm)
  · intro t' ht' j hj e he
    obtain ⟨t, ht, rfl⟩ := mem_modifyTask.mp ht'
    split at hj <;> split <;> first | exact h.q_sub t ht j hj e (hqsub j e he) | simp_all
  · intro t' ht' j k' hm
    obtain ⟨t, ht, rfl⟩ := mem_modifyTask.mp ht'
    split at hm <;> split <;> first | exact h.q_ks t ht j k' (hqsub j _ hm) | simp_all
  · intro t' ht' o ho
    obtain ⟨t, ht, rfl⟩ := mem_modifyTask.mp ht'
    split at ho
    next hid =>
      have := huniq t ht hid; subst this
      simp only at ho
      rw [halive] at ho; cases ho
    next hid =>
      simp only [hid, ↓reduceIte]
      exact h.resp t ht o ho
  · intro hov
    have hs := h.strong hov
    unfold Strong at hs ⊢
    simp only
    cases htasks : p.tasks with
    | nil => rw [htasks] at ht0; cases ht0
    | cons L tl =>
      rw [htasks] at hs ht0
      have hL : t0 = L := by
        simp only [List.mem_cons] at ht0
        rcases ht0 with rfl | hr
        · rfl
        · exact absurd halive (hs.2.1 t0 hr)
      subst hL
      have hrest : ∀ t ∈ tl, t.id ≠ t0.id := by
        have := h.ids
        rw [htasks, List.pairwise_cons] at this
        intro t ht heq
        exact this.1 t ht heq.symm
      simp only [modifyTask, List.map_cons, ↓reduceIte]
      have : List.map (fun t => if t.id = t0.id then { t with results := (i, res) :: t.results } else t) tl = tl :=
        modifyTask_of_ne hrest
      rw [this]
      refine ⟨hs.1, hs.2.1, ?_⟩
      intro j hj hb hm
      by_cases hji : j = i
      · subst hji; rw [hneti, hsv.mark] at hm; cases hm
      · rw [hnet j hji] at hb hm ⊢
        have := hs.2.2 j hj hb hm
        unfold ConnOk at this ⊢
        refine ⟨this.1, fun hin => ⟨fun hr => (this.2 hin).1 ?_, fun hal hsub hlk' => (this.2 hin).2 hal hsub ?_⟩⟩
        · simp only [List.lookup_cons] at hr
          have hne : (j == i) = false := by simp [hji]
          rw [hne] at hr; exact hr
        · simp only [List.lookup_cons] at hlk'
          have hne : (j == i) = false := by simp [hji]
          rw [hne] at hlk'; exact hlk'
  · intro j hj hns hb hm
    try simp only at hj hns hb hm ⊢
    have hns' := nosnap_of_modify (f := fun t => { t with results := (i, res) :: t.results }) (fun _ => rfl) hns
    by_cases hji : j = i
    · subst hji; rw [hneti, hsv.mark] at hm; cases hm
    · rw [hnet j hji] at hb hm ⊢; exact h.fresh j hj hns' hb hm

/-- A task writes its `USE` on a snapshot connection (`broken` = the connection is broken: the request fails at
once and nothing is written). -/
theorem inv_submit {p : Pool K} (h : Inv p) (t0 : Task K) (ht0 : t0 ∈ p.tasks) (halive : t0.resp = none)
    (i : Nat) (hi : i ∈ t0.snapshot) (hns : i ∉ t0.submitted) (brokenCase : Bool)
    (hbc : brokenCase = (p.net i).broken) (N : Nat → Conn K) (f : Task K → Task K)
    (hNtrue : brokenCase = true → N = p.net)
    (hNj : ∀ j, j ≠ i → N j = p.net j)
    (hNb : ∀ j, (N j).broken = (p.net j).broken ∧ (N j).acked = (p.net j).acked ∧ (N j).serverKs = (p.net j).serverKs)
    (hNi : brokenCase = false → (N i).queue = (p.net i).queue ++ [(.task t0.id, t0.ks)] ∧
      (p.tasks.head?.map (·.id) = some t0.id → (N i).unclaimed = false))
    (hf : ∀ t, (f t).id = t.id ∧ (f t).ks = t.ks ∧ (f t).snapshot = t.snapshot ∧ (f t).resp = t.resp ∧
      (f t).submitted = i :: t.submitted ∧
      (f t).results = if brokenCase then (i, .error .broken) :: t.results else t.results) :
    Inv { p with net := N, tasks := modifyTask p.tasks t0.id f } := by
  have huniq : ∀ t ∈ p.tasks, t.id = t0.id → t = t0 := fun t ht hid => unique_id h.ids ht ht0 hid
  have hlk0 : t0.results.lookup i = none := by
    cases hl : t0.results.lookup i with
    | none => rfl
    | some r => exact absurd (h.res_sub t0 ht0 i r hl) hns
  have hNq : ∀ j, ∀ e ∈ (N j).queue, e ∈ (p.net j).queue ∨ (j = i ∧ brokenCase = false ∧ e = (.task t0.id, t0.ks)) := by
    intro j e he
    cases hbcase : brokenCase with
    | true => rw [hNtrue hbcase] at he; exact Or.inl he
    | false =>
      by_cases hj : j = i
      · subst hj
        rw [(hNi hbcase).1] at he
        simp only [List.mem_append, List.mem_singleton] at he
        rcases he with h1 | h1
        · exact Or.inl h1
        · exact Or.inr ⟨rfl, rfl, h1⟩
      · rw [hNj j hj] at he; exact Or.inl he
  have hfid : ∀ t : Task K, (if t.id = t0.id then f t else t).id = t.id := by
    intro t; split
    · exact (hf t).1
    · rfl
  have hfks : ∀ t : Task K, (if t.id = t0.id then f t else t).ks = t.ks := by
    intro t; split
    · exact (hf t).2.1
    · rfl
  have hfsnap : ∀ t : Task K, (if t.id = t0.id then f t else t).snapshot = t.snapshot := by
    intro t; split
    · exact (hf t).2.2.1
    · rfl
  have hiset : ∀ e ∈ p.setting, e.1 ≠ i := by
    intro e he heq
    exact (h.priv e he).2 t0 ht0 (heq ▸ hi)
  constructor
  · exact h.conns_lt
  · exact h.setting_lt
  · exact h.setting_cur
  · intro t' ht' j hj
    obtain ⟨t, ht, rfl⟩ := mem_modifyTask.mp ht'
    rw [hfsnap] at hj; exact h.snap_lt t ht j hj
  · simp only [modifyTask, List.pairwise_map]
    refine h.ids.imp ?_
    intro a b hab
    rw [hfid, hfid]; exact hab
  · intro t' ht'
    obtain ⟨t, ht, rfl⟩ := mem_modifyTask.mp ht'
    simp only [modifyTask, List.length_map]
    rw [hfid]; exact h.ids_lt t ht
  · intro t' ht' j hj
    obtain ⟨t, ht, rfl⟩ := mem_modifyTask.mp ht'
    rw [hfsnap]
    split at hj
    next hid =>
      have := huniq t ht hid; subst this
      rw [(hf t).2.2.2.2.1] at hj
      simp only [List.mem_cons] at hj
      rcases hj with rfl | hj
      · exact hi
      · exact h.sub_snap _ ht j hj
    next hid => exact h.sub_snap t ht j hj
  · intro t' ht' j r hr
    obtain ⟨t, ht, rfl⟩ := mem_modifyTask.mp ht'
    split at hr
    next hid =>
      have := huniq t ht hid; subst this
      simp only [hid, ↓reduceIte]
      rw [(hf t).2.2.2.2.1, List.mem_cons]
      rw [(hf t).2.2.2.2.2] at hr
      cases brokenCase
      · simp only [Bool.false_eq_true, ↓reduceIte] at hr
        exact Or.inr (h.res_sub _ ht j r hr)
      · simp only [↓reduceIte, List.lookup_cons] at hr
        split at hr
        next heq => simp only [beq_iff_eq] at heq; exact Or.inl heq
        next => exact Or.inr (h.res_sub _ ht j r hr)
    next hid => simp only [hid, ↓reduceIte]; exact h.res_sub t ht j r hr
  · intro t' ht' j hr
    obtain ⟨t, ht, rfl⟩ := mem_modifyTask.mp ht'
    simp only
    rw [(hNb j).1]
    split at hr
    next hid =>
      have := huniq t ht hid; subst this
      rw [(hf t).2.2.2.2.2] at hr
      cases brokenCase
      · simp only [Bool.false_eq_true, ↓reduceIte] at hr
        exact h.res_broken _ ht j hr
      · simp only [↓reduceIte, List.lookup_cons] at hr
        split at hr
        next heq => simp only [beq_iff_eq] at heq; subst heq; exact hbc.symm
        next => exact h.res_broken _ ht j hr
    next => exact h.res_broken t ht j hr
  · intro t' ht' j hr
    obtain ⟨t, ht, rfl⟩ := mem_modifyTask.mp ht'
    simp only
    rw [(hNb j).2.1]
    rw [hfks]
    split at hr
    next hid =>
      have := huniq t ht hid; subst this
      rw [(hf t).2.2.2.2.2] at hr
      cases brokenCase
      · simp only [Bool.false_eq_true, ↓reduceIte] at hr
        exact h.res_ok _ ht j hr
      · simp only [↓reduceIte, List.lookup_cons] at hr
        split at hr
        next heq => simp at hr
        next => exact h.res_ok _ ht j hr
    next hid =>
      exact h.res_ok t ht j hr
  · intro e he
    refine ⟨(h.priv e he).1, fun t' ht' => ?_⟩
    obtain ⟨t, ht, rfl⟩ := mem_modifyTask.mp ht'
    rw [hfsnap]; exact (h.priv e he).2 t ht
  · intro e he
    simp only [hNj e.1 (hiset e he)]
    exact h.setting_clean e he
  · intro j tid k' hm
    simp only [modifyTask, List.length_map]
    rcases hNq j _ hm with h1 | ⟨_, _, h1⟩
    · exact h.q_lt j tid k' h1
    · simp only [Prod.mk.injEq, Waiter.task.injEq] at h1
      rw [h1.1]; exact h.ids_lt t0 ht0
  · intro t' ht' j hj e he
    obtain ⟨t, ht, rfl⟩ := mem_modifyTask.mp ht'
    rw [hfid]
    split at hj
    next hid =>
      have := huniq t ht hid; subst this
      rw [(hf t).2.2.2.2.1] at hj
      simp only [List.mem_cons, not_or] at hj
      rcases hNq j e he with h1 | ⟨h1, _, _⟩
      · exact h.q_sub _ ht j hj.2 e h1
      · exact absurd h1 hj.1
    next hid =>
      rcases hNq j e he with h1 | ⟨_, _, h1⟩
      · exact h.q_sub t ht j hj e h1
      · subst h1; simp only [ne_eq, Waiter.task.injEq]; exact fun heq => hid heq.symm
  · intro t' ht' j k' hm
    obtain ⟨t, ht, rfl⟩ := mem_modifyTask.mp ht'
    rw [hfid] at hm; rw [hfks]
    rcases hNq j _ hm with h1 | ⟨_, _, h1⟩
    · exact h.q_ks t ht j k' h1
    · simp only [Prod.mk.injEq, Waiter.task.injEq] at h1
      rw [huniq t ht h1.1]; exact h1.2
  · intro t' ht' o ho
    obtain ⟨t, ht, rfl⟩ := mem_modifyTask.mp ht'
    split at ho
    next hid =>
      have := huniq t ht hid; subst this
      rw [(hf t).2.2.2.1, halive] at ho; cases ho
    next hid =>
      simp only [hid, ↓reduceIte]
      exact h.resp t ht o ho
  · intro hov
    have hs := h.strong hov
    unfold Strong at hs ⊢
    simp only
    cases htasks : p.tasks with
    | nil => rw [htasks] at ht0; cases ht0
    | cons L tl =>
      rw [htasks] at hs ht0
      have hL : t0 = L := by
        simp only [List.mem_cons] at ht0
        rcases ht0 with rfl | hr
        · rfl
        · exact absurd halive (hs.2.1 t0 hr)
      subst hL
      have hrest : ∀ t ∈ tl, t.id ≠ t0.id := by
        have := h.ids
        rw [htasks, List.pairwise_cons] at this
        intro t ht heq
        exact this.1 t ht heq.symm
      simp only [modifyTask, List.map_cons, ↓reduceIte]
      have : List.map (fun t => if t.id = t0.id then f t else t) tl = tl := modifyTask_of_ne hrest
      rw [this]
      have hft := hf t0
      refine ⟨by rw [hft.2.1]; exact hs.1, hs.2.1, ?_⟩
      intro j hj hb hm
      unfold ConnOk
      rw [hft.1, hft.2.1, hft.2.2.1, hft.2.2.2.1, hft.2.2.2.2.1, hft.2.2.2.2.2]
      by_cases hji : j = i
      · subst hji
        cases hbcase : brokenCase with
        | false =>
          -- written on the live connection: the task's entry is the last one
          have hni := hNi hbcase
          refine ⟨fun hn => absurd hi hn, fun _ => ⟨fun hr => ?_, fun _ _ _ => ?_⟩⟩
          · simp only [Bool.false_eq_true, ↓reduceIte] at hr
            rw [hlk0] at hr; cases hr
          · exact ⟨(p.net j).queue, hni.1, fun e he => h.q_sub t0 (by rw [htasks]; exact List.mem_cons_self) j hns e he⟩
        | true => rw [(hNb j).1, ← hbc, hbcase] at hb; cases hb
      · rw [hNj j hji] at hb hm ⊢
        have hok := hs.2.2 j hj hb hm
        unfold ConnOk at hok
        refine ⟨hok.1, fun hin => ⟨fun hr => (hok.2 hin).1 ?_, fun hal hsub hlk' => (hok.2 hin).2 hal ?_ ?_⟩⟩
        · cases brokenCase
          · simpa using hr
          · simp only [↓reduceIte, List.lookup_cons] at hr
            have hne : (j == i) = false := by simp [hji]
            rw [hne] at hr; exact hr
        · simp only [List.mem_cons] at hsub
          rcases hsub with h1 | h1
          · exact absurd h1 hji
          · exact h1
        · cases brokenCase
          · simpa using hlk'
          · simp only [↓reduceIte, List.lookup_cons] at hlk'
            have hne : (j == i) = false := by simp [hji]
            rw [hne] at hlk'; exact hlk'
  · intro j hj hns hb hm
    try simp only at hj hns hb hm ⊢
    have hns' := nosnap_of_modify (f := f) (fun t => (hf t).2.2.1) hns
    by_cases hji : j = i
    · subst hji; exact absurd hi (hns' t0 ht0)
    · rw [hNj j hji] at hb hm ⊢; exact h.fresh j hj hns' hb hm

/-- A task answers its caller (`use_keyspace_result` of the collected results, or the timeout). -/
theorem inv_taskResp {p : Pool K} (h : Inv p) (t0 : Task K) (ht0 : t0 ∈ p.tasks) (o : Outcome)
    (ho : o = .err .timeout ∨ (t0.allDone = true ∧ o = useKeyspaceResult t0.resultList)) :
    Inv { p with tasks := modifyTask p.tasks t0.id fun t => { t with resp := some o } } := by
  have huniq : ∀ t ∈ p.tasks, t.id = t0.id → t = t0 := fun t ht hid => unique_id h.ids ht ht0 hid
  constructor
  · exact h.conns_lt
  · exact h.setting_lt
  · exact h.setting_cur
  · intro t' ht' j hj
    obtain ⟨t, ht, rfl⟩ := mem_modifyTask.mp ht'
    split at hj <;> exact h.snap_lt t ht j hj
  · simp only [modifyTask, List.pairwise_map]
    refine h.ids.imp ?_
    intro a b hab
    split <;> split <;> simpa using hab
  · intro t' ht'
    obtain ⟨t, ht, rfl⟩ := mem_modifyTask.mp ht'
    simp only [modifyTask, List.length_map]
    split <;> exact h.ids_lt t ht
  · intro t' ht' j hj
    obtain ⟨t, ht, rfl⟩ := mem_modifyTask.mp ht'
    split at hj <;> split <;> first | exact h.sub_snap t ht j hj | simp_all
  · intro t' ht' j r hr
    obtain ⟨t, ht, rfl⟩ := mem_modifyTask.mp ht'
    split at hr <;> split <;> first | exact h.res_sub t ht j r hr | simp_all
  · intro t' ht' j hr
    obtain ⟨t, ht, rfl⟩ := mem_modifyTask.mp ht'
    split at hr <;> exact h.res_broken t ht j hr
  · intro t' ht' j hr
    obtain ⟨t, ht, rfl⟩ := mem_modifyTask.mp ht'
    split at hr <;> split <;> first | exact h.res_ok t ht j hr | (simp_all)
  · intro e he
    refine ⟨(h.priv e he).1, fun t' ht' => ?_⟩
    obtain ⟨t, ht, rfl⟩ := mem_modifyTask.mp ht'
    split <;> exact (h.priv e he).2 t ht
  · exact h.setting_clean
  · intro j tid k' hm
    simp only [modifyTask, List.length_map]
    exact h.q_lt j tid k' hm
  · intro t' ht' j hj e he
    obtain ⟨t, ht, rfl⟩ := mem_modifyTask.mp ht'
    split at hj <;> split <;> first | exact h.q_sub t ht j hj e he | simp_all
  · intro t' ht' j k' hm
    obtain ⟨t, ht, rfl⟩ := mem_modifyTask.mp ht'
    split at hm <;> split <;> first | exact h.q_ks t ht j k' hm | simp_all
  · intro t' ht' o' ho'
    obtain ⟨t, ht, rfl⟩ := mem_modifyTask.mp ht'
    split at ho'
    next hid =>
      have := huniq t ht hid; subst this
      simp only [Option.some.injEq] at ho'
      subst ho'
      simp only [↓reduceIte]
      rcases ho with h1 | h1
      · exact Or.inr (Or.inl h1)
      · exact Or.inr (Or.inr h1)
    next hid =>
      simp only [hid, ↓reduceIte]
      exact h.resp t ht o' ho'
  · intro hov
    have hs := h.strong hov
    unfold Strong at hs ⊢
    simp only
    cases htasks : p.tasks with
    | nil => rw [htasks] at ht0; cases ht0
    | cons L rest =>
      rw [htasks] at hs
      simp only [modifyTask, List.map_cons]
      refine ⟨?_, ?_, ?_⟩
      · split <;> exact hs.1
      · intro t' ht'
        simp only [List.mem_map] at ht'
        obtain ⟨t, ht, rfl⟩ := ht'
        split
        · simp
        · exact hs.2.1 t ht
      · intro j hj hbr hm
        have := hs.2.2 j hj hbr hm
        unfold ConnOk at this ⊢
        split
        · refine ⟨this.1, fun hin => ⟨(this.2 hin).1, fun hal => ?_⟩⟩
          simp at hal
        · exact this
  · intro j hj hns hb hm
    try simp only at hj hns hb hm ⊢
    have hns' := nosnap_of_modify (f := fun t => { t with resp := some o }) (fun _ => rfl) hns
    exact h.fresh j hj hns' hb hm

/-- A user statement `USE x` is written on a published connection: from now on nothing is claimed about that
connection until the next use-keyspace task writes its own `USE` behind it. -/
theorem inv_userUse {p : Pool K} (h : Inv p) (i : Nat) (x : K) (hi : i ∈ p.conns) :
    Inv { p with net := setConn p.net i { p.net i with queue := (p.net i).queue ++ [(.user, x)], unclaimed := true } } := by
  have hnet : ∀ j, j ≠ i → setConn p.net i { p.net i with queue := (p.net i).queue ++ [(.user, x)], unclaimed := true } j = p.net j :=
    fun j hj => by simp [setConn, hj]
  have hq : ∀ j, ∀ e ∈ (setConn p.net i { p.net i with queue := (p.net i).queue ++ [(.user, x)], unclaimed := true } j).queue,
      e ∈ (p.net j).queue ∨ e = (.user, x) := by
    intro j e he
    by_cases hj : j = i
    · subst hj
      simp only [setConn, ↓reduceIte, List.mem_append, List.mem_singleton] at he
      exact he
    · rw [hnet j hj] at he; exact Or.inl he
  have hiset : ∀ e ∈ p.setting, e.1 ≠ i := fun e he heq => (h.priv e he).1 (heq ▸ hi)
  constructor
  · exact h.conns_lt
  · exact h.setting_lt
  · exact h.setting_cur
  · exact h.snap_lt
  · exact h.ids
  · exact h.ids_lt
  · exact h.sub_snap
  · exact h.res_sub
  · intro t ht j hr
    have := h.res_broken t ht j hr
    by_cases hj : j = i
    · subst hj; simpa [setConn] using this
    · simp only [hnet j hj]; exact this
  · intro t ht j hr
    have := h.res_ok t ht j hr
    by_cases hj : j = i
    · subst hj; simpa [setConn] using this
    · simp only [hnet j hj]; exact this
  · exact h.priv
  · intro e he
    simp only [hnet e.1 (hiset e he)]
    exact h.setting_clean e he
  · intro j tid k' hm
    rcases hq j _ hm with h1 | h1
    · exact h.q_lt j tid k' h1
    · simp at h1
  · intro t ht j hj e he
    rcases hq j e he with h1 | h1
    · exact h.q_sub t ht j hj e h1
    · subst h1; simp
  · intro t ht j k' hm
    rcases hq j _ hm with h1 | h1
    · exact h.q_ks t ht j k' h1
    · simp at h1
  · exact h.resp
  · intro hov
    have hs := h.strong hov
    unfold Strong at hs ⊢
    simp only
    cases htasks : p.tasks with
    | nil =>
      rw [htasks] at hs
      intro j hj hb hm
      by_cases hji : j = i
      · subst hji; simp [setConn] at hm
      · rw [hnet j hji] at hb hm ⊢; exact hs j hj hb hm
    | cons L tl =>
      rw [htasks] at hs
      refine ⟨hs.1, hs.2.1, ?_⟩
      intro j hj hb hm
      by_cases hji : j = i
      · subst hji; simp [setConn] at hm
      · rw [hnet j hji] at hb hm ⊢; exact hs.2.2 j hj hb hm
  · intro j hj hns hb hm
    try simp only at hj hns hb hm ⊢
    by_cases hji : j = i
    · subst hji; simp [setConn] at hm
    · rw [hnet j hji] at hb hm ⊢; exact h.fresh j hj hns hb hm

theorem inv_simple {p q : Pool K} (h : Inv p) (hnet : NetLe p.net q.net) (hconns : ∀ j ∈ q.conns, j ∈ p.conns)
    (hset : ∀ e ∈ q.setting, e ∈ p.setting) (hid : q.nextId = p.nextId) (hks : q.currentKs = p.currentKs)
    (ht : q.tasks = p.tasks) (ho : q.overlap = p.overlap) : Inv q :=
  inv_frame h hnet (fun j hj => Or.inl (hconns j hj)) (fun e he => Or.inl (hset e he)) hid hks ht ho

theorem inv_step {p : Pool K} (h : Inv p) (e : Ev K) : Inv (step p e) := by
  cases e with
  | useKs k => exact inv_useKs h k
  | taskSubmit tid i =>
    simp only [step]
    split
    · exact h
    · rename_i t hft
      obtain ⟨htm, htid⟩ := findTask_some hft
      subst htid
      split
      · exact h
      · rename_i hcond
        simp only [Bool.or_eq_true, Bool.not_eq_true', not_or, Bool.not_eq_true, Option.isSome_eq_false_iff,
          Option.isNone_iff_eq_none, Bool.not_eq_false, List.contains_eq_mem, decide_eq_true_eq,
          decide_eq_false_iff_not] at hcond
        obtain ⟨⟨hal, hin'⟩, hns⟩ := hcond
        have hin : i ∈ t.snapshot := Decidable.not_not.mp hin'
        split
        · rename_i hb
          exact inv_submit h t htm hal i hin hns true hb.symm p.net _ (fun _ => rfl) (fun _ _ => rfl)
            (fun _ => ⟨rfl, rfl, rfl⟩) (fun hf => by cases hf) (fun x => ⟨rfl, rfl, rfl, rfl, rfl, rfl⟩)
        · rename_i hb
          have hb' : (p.net i).broken = false := by simpa using hb
          apply inv_submit h t htm hal i hin hns false hb'.symm _ _ (fun hf => by cases hf)
          · intro j hj; simp [setConn, hj]
          · intro j; by_cases hj : j = i <;> simp [setConn, hj]
          · intro _
            refine ⟨by simp [setConn], fun hnew => ?_⟩
            simp only [setConn, ↓reduceIte]
            rw [hnew]; simp
          · exact fun x => ⟨rfl, rfl, rfl, rfl, rfl, rfl⟩
  | serve i r =>
    simp only [step]
    split
    · exact h
    · rename_i w k rest hqu
      have hsv := served_of_step (p.net i) k r rest
      generalize (if (p.net i).broken = true then (p.net i, (Except.error UseErr.broken : UseRes)) else serveUse (p.net i) k r) = cr at hsv ⊢
      obtain ⟨c1, res⟩ := cr
      simp only at hsv ⊢
      cases w with
      | user =>
        simp only
        exact inv_serve_norec h i .user k rest _ res hqu hsv (fun t _ hw => by cases hw)
      | task tid =>
        simp only
        split
        · rename_i hft
          refine inv_serve_norec h i (.task tid) k rest _ res hqu hsv (fun t ht hw => ?_)
          simp only [Waiter.task.injEq] at hw
          subst hw
          unfold findTask at hft
          have := List.find?_eq_none.mp hft t ht
          simp at this
        · rename_i t hft
          obtain ⟨htm, htid⟩ := findTask_some hft
          subst htid
          split
          · rename_i hcond
            refine inv_serve_norec h i (.task t.id) k rest _ res hqu hsv (fun t' ht' hw => ?_)
            simp only [Waiter.task.injEq] at hw
            have := unique_id h.ids ht' htm hw.symm
            subst this
            simp only [Bool.or_eq_true, Option.isSome_iff_ne_none] at hcond
            exact hcond
          · rename_i hcond
            simp only [Bool.or_eq_true, not_or, Bool.not_eq_true, Option.isSome_eq_false_iff,
              Option.isNone_iff_eq_none] at hcond
            exact inv_serve_rec h i t k rest _ res hqu hsv htm hcond.1 hcond.2
  | serveOoo i j r =>
    simp only [step]
    split
    · exact h
    · rename_i w k hget
      have hmem : (w, k) ∈ (p.net i).queue := List.mem_of_getElem? hget
      have hsv := servedOoo_of_step (p.net i) k r (j + 1)
      generalize (if (p.net i).broken = true then (p.net i, (Except.error UseErr.broken : UseRes)) else serveUse (p.net i) k r) = cr at hsv ⊢
      obtain ⟨c1, res⟩ := cr
      simp only at hsv ⊢
      cases w with
      | user =>
        simp only
        exact inv_ooo_norec h i .user k _ res hmem hsv
      | task tid =>
        simp only
        split
        · exact inv_ooo_norec h i (.task tid) k _ res hmem hsv
        · rename_i t hft
          obtain ⟨htm, htid⟩ := findTask_some hft
          subst htid
          split
          · exact inv_ooo_norec h i (.task t.id) k _ res hmem hsv
          · rename_i hcond
            simp only [Bool.or_eq_true, not_or, Bool.not_eq_true, Option.isSome_eq_false_iff,
              Option.isNone_iff_eq_none] at hcond
            exact inv_ooo_rec h i t k _ res hmem hsv htm hcond.1 hcond.2
  | taskFinish tid =>
    simp only [step]
    split
    · exact h
    · rename_i t hft
      obtain ⟨htm, htid⟩ := findTask_some hft
      subst htid
      split
      · exact h
      · rename_i hcond
        simp only [Bool.or_eq_true, Bool.not_eq_true', not_or, Bool.not_eq_false] at hcond
        have := inv_taskResp h t htm (useKeyspaceResult t.resultList) (Or.inr ⟨hcond.2, rfl⟩)
        have heq : modifyTask p.tasks t.id (fun t' => { t' with resp := some (useKeyspaceResult t'.resultList) }) =
            modifyTask p.tasks t.id (fun t' => { t' with resp := some (useKeyspaceResult t.resultList) }) := by
          unfold modifyTask
          apply List.map_congr_left
          intro a ha
          split
          · rename_i hid
            rw [unique_id h.ids ha htm hid]
          · rfl
        rw [heq]; exact this
  | taskTimeout tid =>
    simp only [step]
    split
    · exact h
    · rename_i t hft
      obtain ⟨htm, htid⟩ := findTask_some hft
      subst htid
      split
      · exact h
      · exact inv_taskResp h t htm (.err .timeout) (Or.inl rfl)
  | refill =>
    simp only [step]
    split
    · exact inv_simple h (NetLe.refl _) (fun _ hj => hj) (fun _ he => he) rfl rfl rfl rfl
    · exact h
  | opened shard sharder requested =>
    simp only [step]
    split
    · exact h
    · have h1 : Inv { p with opening := p.opening - 1, nextId := p.nextId + 1,
                             net := setConn p.net p.nextId { shard := shard, sharder := sharder } } := by
        apply inv_frame2 h
        · intro j hj
          have hlt : j < p.nextId := by
            rcases hj with hj | ⟨t, ht, hj⟩
            · exact h.conns_lt j hj
            · exact h.snap_lt t ht j hj
          simp only [setConn]
          rw [if_neg (by omega)]
        · intro j
          by_cases hj : j = p.nextId
          · right; simp [setConn, hj]
          · left; simp [setConn, hj]
        · intro e he
          have := h.setting_lt e he
          simp only [setConn]
          rw [if_neg (by omega)]
        · rfl
        · rfl
        · simp only; omega
        · rfl
        · rfl
        · rfl
      apply inv_handleReady h1
      · simp
      · intro hc; have := h.conns_lt _ hc; simp at this
      · intro e he hei
        have := h.setting_lt e he
        omega
      · intro t ht hc
        have := h.snap_lt t ht _ hc
        simp at this
      · simp [setConn]
      · intro hk; simp only [setConn, ↓reduceIte]; exact hk
      · intro _; simp [setConn]
  | openFailed requested =>
    simp only [step]
    split
    · exact h
    · split
      · exact h
      · exact inv_simple h (NetLe.refl _) (fun _ hj => hj) (fun _ he => he) rfl rfl rfl rfl
  | ksSet i r =>
    simp only [step]
    split
    · exact h
    · rename_i i' k requested hfind
      have hmem := List.mem_of_find?_eq_some hfind
      have hi' : i' = i := by simpa using List.find?_some hfind
      subst hi'
      have hlt := h.setting_lt _ hmem
      have hcur := h.setting_cur _ hmem
      have hpriv := h.priv _ hmem
      have hclean := h.setting_clean _ hmem
      simp only at hlt hpriv hclean
      have h1 : Inv { p with setting := p.setting.filter (·.1 ≠ i') } :=
        inv_simple h (NetLe.refl _) (fun _ hj => hj) (fun e he => (List.mem_filter.mp he).1) rfl rfl rfl rfl
      split
      · exact inv_simple h1 (netLe_close _ _) (fun _ hj => hj) (fun _ he => he) rfl rfl rfl rfl
      · have hp := serveUse_props (p.net i') k r
        generalize serveUse (p.net i') k r = cr at hp ⊢
        obtain ⟨c, res⟩ := cr
        simp only at hp ⊢
        have h2 : Inv { p with setting := p.setting.filter (·.1 ≠ i'), net := setConn p.net i' c } := by
          apply inv_frame2 h1
          · intro j hj
            have hne : j ≠ i' := by
              rcases hj with hj | ⟨t, ht, hj⟩
              · intro heq; subst heq; exact hpriv.1 hj
              · intro heq; subst heq; exact hpriv.2 t ht hj
            simp [setConn, hne]
          · intro j
            by_cases hj : j = i'
            · subst hj; left; simp only [setConn, ↓reduceIte]; exact hp.2.2.2.2.1
            · left; simp [setConn, hj]
          · intro e he
            have := (List.mem_filter.mp he).2
            have hne : e.1 ≠ i' := by simpa using this
            simp [setConn, hne]
          · rfl
          · rfl
          · exact Nat.le_refl _
          · rfl
          · rfl
          · rfl
        cases res with
        | ok u =>
          simp only
          apply inv_handleReady h2
          · exact hlt
          · exact hpriv.1
          · intro e he
            have := (List.mem_filter.mp he).2
            simpa using this
          · exact hpriv.2
          · simp only [setConn, ↓reduceIte]
            rw [hp.2.2.2.2.1, hp.2.2.2.2.2]; exact hclean
          · intro _
            simp only [setConn, ↓reduceIte]
            have := (hp.2.2.2.1 rfl).1
            rw [this]
            rename_i hk
            exact hk
          · intro hn; exact absurd hn hcur
        | error e =>
          simp only
          exact inv_simple h2 (netLe_close _ _) (fun _ hj => hj) (fun _ he => he) rfl rfl rfl rfl
  | breakConn i =>
    simp only [step]
    exact inv_simple h (netLe_close _ _) (fun _ hj => hj) (fun _ he => he) rfl rfl rfl rfl
  | connError i =>
    simp only [step]
    split
    · exact h
    · split
      · exact inv_simple h (NetLe.refl _) (fun j hj => mem_removeConn p i j hj) (fun _ he => he) rfl rfl rfl rfl
      · exact inv_simple h (NetLe.refl _) (fun _ hj => hj) (fun _ he => he) rfl rfl rfl rfl
  | userUse i x =>
    simp only [step]
    split
    · rename_i hcond
      simp only [Bool.and_eq_true, List.contains_eq_mem, decide_eq_true_eq] at hcond
      exact inv_userUse h i x hcond.1
    · exact h

theorem inv_run {p : Pool K} (h : Inv p) (evs : List (Ev K)) : Inv (run p evs) := by
  unfold run
  induction evs generalizing p with
  | nil => exact h
  | cons e es ih => exact ih (inv_step h e)

/-! ### a connection enters `conns` only through `handle_ready_connection` with the current keyspace -/

theorem handleReady_new_conn (p : Pool K) (i : Nat) (evKs : Option K) (req : Option Nat) (j : Nat)
    (hj : j ∈ (p.handleReady i evKs req).afterReady.conns) (hn : j ∉ p.conns) :
    j = i ∧ (p.currentKs = none ∨ evKs = p.currentKs) ∧
    ((p.handleReady i evKs req).afterReady.net j).serverKs = (p.net j).serverKs ∧
    (p.handleReady i evKs req).afterReady.currentKs = p.currentKs := by
  have haf := afterReady_frame (p.handleReady i evKs req)
  simp only at haf
  obtain ⟨a1, a2, a3, a4, a5, a6, a7⟩ := haf
  rcases handleReady_cases p i evKs req with ⟨heq, hcur⟩ | ⟨k, hk, heq⟩
  · rw [heq] at a1 a2 a3 a4 a5 a6 a7 hj ⊢
    have hacc := accept_frame p i req
    simp only at hacc
    obtain ⟨b1, b2, b3, b4, b5, b6, b7⟩ := hacc
    rw [a2] at hj
    rcases b2 j hj with h1 | h1
    · exact absurd h1 hn
    · exact ⟨h1, hcur, by rw [a1]; exact (b1 j).1, by rw [a5, b5]⟩
  · rw [heq] at a2 hj
    rw [a2] at hj
    exact absurd hj hn

theorem publish_step {p : Pool K} (h : Inv p) (e : Ev K) (j : Nat)
    (hj : j ∈ (step p e).conns) (hn : j ∉ p.conns) :
    ((step p e).net j).serverKs = (step p e).currentKs := by
  cases e with
  | useKs k => simp only [step] at hj; exact absurd hj hn
  | taskSubmit tid i =>
    simp only [step] at hj
    split at hj
    · exact absurd hj hn
    · split at hj
      · exact absurd hj hn
      · split at hj
        · exact absurd hj hn
        · exact absurd hj hn
  | serve i r =>
    simp only [step] at hj
    split at hj
    · exact absurd hj hn
    · split at hj
      · exact absurd hj hn
      · split at hj
        · exact absurd hj hn
        · split at hj <;> exact absurd hj hn
  | userUse i x =>
    simp only [step] at hj
    split at hj <;> exact absurd hj hn
  | serveOoo i j r =>
    simp only [step] at hj
    split at hj
    · exact absurd hj hn
    · split at hj
      · exact absurd hj hn
      · split at hj
        · exact absurd hj hn
        · split at hj <;> exact absurd hj hn
  | taskFinish tid =>
    simp only [step] at hj
    split at hj
    · exact absurd hj hn
    · split at hj <;> exact absurd hj hn
  | taskTimeout tid =>
    simp only [step] at hj
    split at hj
    · exact absurd hj hn
    · split at hj <;> exact absurd hj hn
  | refill => simp only [step] at hj; split at hj <;> exact absurd hj hn
  | openFailed requested =>
    simp only [step] at hj
    split at hj
    · exact absurd hj hn
    · split at hj <;> exact absurd hj hn
  | breakConn i => simp only [step, Pool.close] at hj; exact absurd hj hn
  | connError i =>
    simp only [step] at hj
    split at hj
    · exact absurd hj hn
    · split at hj
      · exact absurd (mem_removeConn p _ j hj) hn
      · exact absurd hj hn
  | opened shard sharder requested =>
    simp only [step] at hj ⊢
    split at hj
    · exact absurd hj hn
    · rename_i hop
      rw [if_neg hop]
      have := handleReady_new_conn _ _ _ _ j hj hn
      obtain ⟨h1, h2, h3, h4⟩ := this
      rw [h3, h4]
      subst h1
      simp only [setConn, ↓reduceIte]
      rcases h2 with h2 | h2
      · exact h2.symm
      · exact h2
  | ksSet i r =>
    simp only [step] at hj ⊢
    split at hj
    · exact absurd hj hn
    · rename_i i' k requested hfind
      skip
      have hmem := List.mem_of_find?_eq_some hfind
      have hcur := h.setting_cur _ hmem
      split at hj
      · simp only [Pool.close] at hj; exact absurd hj hn
      · rename_i hb
        simp only [hb, Bool.false_eq_true, ↓reduceIte]
        have hp := serveUse_props (p.net i) k r
        generalize serveUse (p.net i) k r = cr at hp hj ⊢
        obtain ⟨c, res⟩ := cr
        simp only at hp hj ⊢
        cases res with
        | ok u =>
          simp only at hj ⊢
          have := handleReady_new_conn _ _ _ _ j hj hn
          obtain ⟨h1, h2, h3, h4⟩ := this
          rw [h3, h4]
          subst h1
          simp only [setConn, ↓reduceIte]
          rcases h2 with h2 | h2
          · exact absurd h2 hcur
          · rw [(hp.2.2.2.1 rfl).1]; exact h2
        | error e =>
          simp only [Pool.close] at hj
          exact absurd hj hn

/-! ### the mark: who can set it -/

/-- Only a user-issued `USE` and an out-of-order answer set the mark: every other event keeps all connections
unmarked. -/
theorem unclaimed_step {p : Pool K} (h : ∀ i, (p.net i).unclaimed = false) (e : Ev K)
    (he : ∀ i j r, e ≠ .serveOoo i j r) (hu : ∀ i x, e ≠ .userUse i x) :
    ∀ i, ((step p e).net i).unclaimed = false := by
  have hready : ∀ (q : Pool K) (i : Nat) (evKs : Option K) (req : Option Nat), (∀ j, (q.net j).unclaimed = false) →
      ∀ j, (((q.handleReady i evKs req).afterReady).net j).unclaimed = false := by
    intro q i evKs req hq j
    rw [(afterReady_frame _).1]
    rcases handleReady_cases q i evKs req with ⟨heq, _⟩ | ⟨k, _, heq⟩
    · rw [heq, ((accept_frame q i req).1 j).2.2.2.1]; exact hq j
    · rw [heq]; exact hq j
  cases e with
  | useKs k => exact h
  | taskSubmit tid i =>
    intro j
    simp only [step]
    split
    · exact h j
    · split
      · exact h j
      · split
        · exact h j
        · simp only [setConn]
          split
          · split <;> simp [h i]
          · exact h j
  | serve i r =>
    intro j
    simp only [step]
    split
    · exact h j
    · rename_i w k rest hqu
      have hsv := served_of_step (p.net i) k r rest
      generalize (if (p.net i).broken = true then (p.net i, (Except.error UseErr.broken : UseRes)) else serveUse (p.net i) k r) = cr at hsv ⊢
      obtain ⟨c1, res⟩ := cr
      simp only at hsv ⊢
      have hj : (setConn p.net i { c1 with queue := rest } j).unclaimed = false := by
        simp only [setConn]
        split
        · rw [hsv.mark]; exact h i
        · exact h j
      cases w with
      | user => exact hj
      | task tid =>
        simp only
        split
        · exact hj
        · split <;> exact hj
  | serveOoo i j r => exact absurd rfl (he i j r)
  | taskFinish tid =>
    intro j; simp only [step]
    split
    · exact h j
    · split <;> exact h j
  | taskTimeout tid =>
    intro j; simp only [step]
    split
    · exact h j
    · split <;> exact h j
  | refill => intro j; simp only [step]; split <;> exact h j
  | opened shard sharder requested =>
    intro j
    simp only [step]
    split
    · exact h j
    · apply hready
      intro m
      simp only [setConn]
      split
      · rfl
      · exact h m
  | openFailed requested =>
    intro j; simp only [step]
    split
    · exact h j
    · split <;> exact h j
  | ksSet i r =>
    intro j
    simp only [step]
    split
    · exact h j
    · split
      · simp only [Pool.close, setConn]; split <;> simp [h]
      · rename_i k requested _ _
        have hp := serveUse_props (p.net i) k r
        generalize serveUse (p.net i) k r = cr at hp ⊢
        obtain ⟨c, res⟩ := cr
        simp only at hp ⊢
        have hq : ∀ m, (setConn p.net i c m).unclaimed = false := by
          intro m; simp only [setConn]
          split
          · rw [hp.2.2.2.2.2]; exact h i
          · exact h m
        cases res with
        | ok u => exact hready _ _ _ _ hq j
        | error e' =>
          have hqi := hq i
          have hqj := hq j
          simp only [Pool.close, setConn] at hqi hqj ⊢
          split
          · simp_all
          · simp_all
  | breakConn i => intro j; simp only [step, Pool.close, setConn]; split <;> simp [h]
  | connError i =>
    intro j; simp only [step]
    split
    · exact h j
    · split <;> exact h j
  | userUse i x => exact absurd rfl (hu i x)

/-! ### `use_keyspace_result` -/

theorem ukrLoop_error {rs : List UseRes} {w : Bool} {b : Option UseErr} {e : UseErr}
    (h : ukrLoop rs w b = .error e) : e ≠ .broken ∧ .error e ∈ rs := by
  induction rs generalizing w b with
  | nil => simp [ukrLoop] at h
  | cons r rest ih =>
    cases r with
    | ok u => cases u; simp only [ukrLoop] at h; have := ih h; exact ⟨this.1, List.mem_cons_of_mem _ this.2⟩
    | error e' =>
      cases e' <;> simp only [ukrLoop] at h
      · have := ih h; exact ⟨this.1, List.mem_cons_of_mem _ this.2⟩
      all_goals (cases h; exact ⟨by simp, List.mem_cons_self⟩)

theorem ukrLoop_ok {rs : List UseRes} {w : Bool} {b : Option UseErr} {x : Bool × Option UseErr}
    (h : ukrLoop rs w b = .ok x) :
    (∀ r ∈ rs, r = .ok () ∨ r = .error .broken) ∧ (x.1 = true ↔ (w = true ∨ .ok () ∈ rs)) ∧
    (∀ e, x.2 = some e → e = .broken ∨ b = some e) := by
  induction rs generalizing w b with
  | nil => simp only [ukrLoop] at h; cases h; simp only [List.not_mem_nil, false_imp_iff, implies_true, or_false, true_and]; exact fun e he => Or.inr he
  | cons r rest ih =>
    cases r with
    | ok u =>
      cases u; simp only [ukrLoop] at h
      have := ih h
      refine ⟨?_, ?_, this.2.2⟩
      · intro r hr; simp only [List.mem_cons] at hr; rcases hr with rfl | hr
        · exact Or.inl rfl
        · exact this.1 r hr
      · simp [this.2.1]
    | error e' =>
      cases e' <;> simp only [ukrLoop] at h
      · have := ih h
        refine ⟨?_, ?_, ?_⟩
        · intro r hr; simp only [List.mem_cons] at hr; rcases hr with rfl | hr
          · exact Or.inr rfl
          · exact this.1 r hr
        · simp [this.2.1]
        · intro e he; rcases this.2.2 e he with h1 | h1
          · exact Or.inl h1
          · simp only [Option.some.injEq] at h1; exact Or.inl h1.symm
      all_goals cases h

/-- `use_keyspace_result` answers Ok iff no result is an error other than a broken connection and at least
one is Ok. -/
theorem useKeyspaceResult_ok_iff (rs : List UseRes) :
    useKeyspaceResult rs = .ok ↔ (∀ r ∈ rs, r = .ok () ∨ r = .error .broken) ∧ .ok () ∈ rs := by
  unfold useKeyspaceResult
  cases h : ukrLoop rs false none with
  | error e =>
    have := ukrLoop_error h
    simp only [reduceCtorEq, false_iff, not_and]
    intro hall
    rcases hall _ this.2 with h1 | h1
    · cases h1
    · simp only [Except.error.injEq] at h1; exact absurd h1 this.1
  | ok x =>
    have := ukrLoop_ok h
    obtain ⟨x1, x2⟩ := x
    cases x1 with
    | true => simp only [true_iff]; exact ⟨this.1, by simpa using this.2.1⟩
    | false =>
      have hno : ¬ (.ok () ∈ rs) := by
        intro hm; have := this.2.1.mpr (Or.inr hm); simp at this
      cases x2 with
      | none => simp [hno]
      | some e => simp [hno]

/-- It answers a broken-connection error iff every result is a broken-connection error (and there is one). -/
theorem useKeyspaceResult_broken_iff (rs : List UseRes) :
    useKeyspaceResult rs = .err .broken ↔ (∀ r ∈ rs, r = .error .broken) ∧ rs ≠ [] := by
  unfold useKeyspaceResult
  cases h : ukrLoop rs false none with
  | error e =>
    have := ukrLoop_error h
    simp only [Outcome.err.injEq]
    constructor
    · intro he; exact absurd he this.1
    · intro hall; have := hall.1 _ this.2; simp only [Except.error.injEq] at this; exact this
  | ok x =>
    have hx := ukrLoop_ok h
    obtain ⟨x1, x2⟩ := x
    cases x1 with
    | true =>
      simp only [reduceCtorEq, false_iff, not_and]
      intro hall
      have : .ok () ∈ rs := by simpa using hx.2.1
      have := hall _ this
      cases this
    | false =>
      have hno : ¬ (.ok () ∈ rs) := by
        intro hm; have := hx.2.1.mpr (Or.inr hm); simp at this
      have hallb : ∀ r ∈ rs, r = .error .broken := by
        intro r hr
        rcases hx.1 r hr with h1 | h1
        · subst h1; exact absurd hr hno
        · exact h1
      cases x2 with
      | none =>
        simp only [reduceCtorEq, false_iff, not_and, ne_eq, Decidable.not_not]
        intro _
        cases rs with
        | nil => rfl
        | cons r rest =>
          have := hallb r List.mem_cons_self
          subst this
          simp only [ukrLoop] at h
          have := (ukrLoop_ok h).2.2
          exfalso
          -- the loop remembers the broken error it saw
          have hrem : ∀ (l : List UseRes) (w : Bool) (y : Bool × Option UseErr),
              ukrLoop l w (some .broken) = .ok y → y.2 ≠ none := by
            intro l
            induction l with
            | nil => intro w y hy; simp only [ukrLoop] at hy; cases hy; simp
            | cons a l ih =>
              intro w y hy
              cases a with
              | ok u => cases u; simp only [ukrLoop] at hy; exact ih _ _ hy
              | error e' => cases e' <;> simp only [ukrLoop] at hy <;> first | exact ih _ _ hy | cases hy
          exact hrem rest false _ h rfl
      | some e =>
        have := hx.2.2 e rfl
        simp only [reduceCtorEq, or_false] at this
        subst this
        simp only [true_iff]
        refine ⟨hallb, ?_⟩
        intro hnil; subst hnil; simp [ukrLoop] at h

/-! ### the cluster worker -/

/-- Tasks persist: identity, keyspace and snapshot never change, and an answered task is never touched again. -/
theorem task_persists {p : Pool K} (h : Inv p) (e : Ev K) (t : Task K) (ht : t ∈ p.tasks) :
    ∃ t' ∈ (step p e).tasks, t'.id = t.id ∧ t'.ks = t.ks ∧ t'.snapshot = t.snapshot ∧ (t.resp ≠ none → t' = t) := by
  have hsame : ∀ q : Pool K, q.tasks = p.tasks →
      ∃ t' ∈ q.tasks, t'.id = t.id ∧ t'.ks = t.ks ∧ t'.snapshot = t.snapshot ∧ (t.resp ≠ none → t' = t) :=
    fun q hq => ⟨t, by rw [hq]; exact ht, rfl, rfl, rfl, fun _ => rfl⟩
  have hmod : ∀ (q : Pool K) (t0 : Task K) (f : Task K → Task K), t0 ∈ p.tasks → t0.resp = none →
      q.tasks = modifyTask p.tasks t0.id f →
      (∀ x, (f x).id = x.id ∧ (f x).ks = x.ks ∧ (f x).snapshot = x.snapshot) →
      ∃ t' ∈ q.tasks, t'.id = t.id ∧ t'.ks = t.ks ∧ t'.snapshot = t.snapshot ∧ (t.resp ≠ none → t' = t) := by
    intro q t0 f ht0 hal hq hf
    refine ⟨if t.id = t0.id then f t else t, by rw [hq]; exact mem_modifyTask.mpr ⟨t, ht, rfl⟩, ?_⟩
    by_cases hid : t.id = t0.id
    · have := unique_id h.ids ht ht0 hid
      subst this
      simp only [↓reduceIte]
      exact ⟨(hf t).1, (hf t).2.1, (hf t).2.2, fun hne => absurd hal hne⟩
    · simp [hid]
  cases e with
  | useKs k => exact ⟨t, by simp only [step]; exact List.mem_cons_of_mem _ ht, rfl, rfl, rfl, fun _ => rfl⟩
  | taskSubmit tid i =>
    simp only [step]
    split
    · exact hsame _ rfl
    · rename_i t0 hft
      obtain ⟨htm, htid⟩ := findTask_some hft
      subst htid
      split
      · exact hsame _ rfl
      · rename_i hcond
        simp only [Bool.or_eq_true, Bool.not_eq_true', not_or, Bool.not_eq_true, Option.isSome_eq_false_iff,
          Option.isNone_iff_eq_none] at hcond
        split
        · exact hmod _ t0 _ htm hcond.1.1 rfl (fun x => ⟨rfl, rfl, rfl⟩)
        · exact hmod _ t0 _ htm hcond.1.1 rfl (fun x => ⟨rfl, rfl, rfl⟩)
  | serve i r =>
    simp only [step]
    split
    · exact hsame _ rfl
    · rename_i w k rest hqu
      cases w with
      | user => exact hsame _ rfl
      | task tid =>
        simp only
        split
        · exact hsame _ rfl
        · rename_i t0 hft
          obtain ⟨htm, htid⟩ := findTask_some hft
          subst htid
          split
          · exact hsame _ rfl
          · rename_i hcond
            simp only [Bool.or_eq_true, not_or, Bool.not_eq_true, Option.isSome_eq_false_iff,
              Option.isNone_iff_eq_none] at hcond
            exact hmod _ t0 _ htm hcond.1 rfl (fun x => ⟨rfl, rfl, rfl⟩)
  | userUse i x =>
    simp only [step]
    split <;> exact hsame _ rfl
  | serveOoo i j r =>
    simp only [step]
    split
    · exact hsame _ rfl
    · rename_i w k hget
      cases w with
      | user => exact hsame _ rfl
      | task tid =>
        simp only
        split
        · exact hsame _ rfl
        · rename_i t0 hft
          obtain ⟨htm, htid⟩ := findTask_some hft
          subst htid
          split
          · exact hsame _ rfl
          · rename_i hcond
            simp only [Bool.or_eq_true, not_or, Bool.not_eq_true, Option.isSome_eq_false_iff,
              Option.isNone_iff_eq_none] at hcond
            exact hmod _ t0 _ htm hcond.1 rfl (fun x => ⟨rfl, rfl, rfl⟩)
  | taskFinish tid =>
    simp only [step]
    split
    · exact hsame _ rfl
    · rename_i t0 hft
      obtain ⟨htm, htid⟩ := findTask_some hft
      subst htid
      split
      · exact hsame _ rfl
      · rename_i hcond
        simp only [Bool.or_eq_true, Bool.not_eq_true', not_or, Bool.not_eq_false, Bool.not_eq_true,
          Option.isSome_eq_false_iff, Option.isNone_iff_eq_none] at hcond
        exact hmod _ t0 _ htm hcond.1 rfl (fun x => ⟨rfl, rfl, rfl⟩)
  | taskTimeout tid =>
    simp only [step]
    split
    · exact hsame _ rfl
    · rename_i t0 hft
      obtain ⟨htm, htid⟩ := findTask_some hft
      subst htid
      split
      · exact hsame _ rfl
      · rename_i hcond
        simp only [Bool.not_eq_true, Option.isSome_eq_false_iff, Option.isNone_iff_eq_none] at hcond
        exact hmod _ t0 _ htm hcond rfl (fun x => ⟨rfl, rfl, rfl⟩)
  | refill => simp only [step]; split <;> exact hsame _ rfl
  | opened shard sharder requested =>
    simp only [step]
    split
    · exact hsame _ rfl
    · apply hsame
      have haf := afterReady_frame (Pool.handleReady { p with opening := p.opening - 1, nextId := p.nextId + 1, net := setConn p.net p.nextId { shard := shard, sharder := sharder } } p.nextId none requested)
      simp only at haf
      rw [haf.2.2.2.2.2.1]
      have hc := handleReady_cases { p with opening := p.opening - 1, nextId := p.nextId + 1, net := setConn p.net p.nextId { shard := shard, sharder := sharder } } p.nextId none requested
      rcases hc with ⟨heq, _⟩ | ⟨k, _, heq⟩
      · rw [heq]; exact (accept_frame _ _ _).2.2.2.2.2.1
      · rw [heq]
  | openFailed requested =>
    simp only [step]
    split
    · exact hsame _ rfl
    · split <;> exact hsame _ rfl
  | ksSet i r =>
    simp only [step]
    split
    · exact hsame _ rfl
    · split
      · exact hsame _ rfl
      · split
        · apply hsame
          rename_i k requested _ _ _ _
          have haf := afterReady_frame (Pool.handleReady { p with setting := p.setting.filter (·.1 ≠ i), net := setConn p.net i (serveUse (p.net i) k r).fst } i (some k) requested)
          simp only at haf
          rw [haf.2.2.2.2.2.1]
          have hc := handleReady_cases { p with setting := p.setting.filter (·.1 ≠ i), net := setConn p.net i (serveUse (p.net i) k r).fst } i (some k) requested
          rcases hc with ⟨heq, _⟩ | ⟨k', _, heq⟩
          · rw [heq]; exact (accept_frame _ _ _).2.2.2.2.2.1
          · rw [heq]
        · exact hsame _ rfl
  | breakConn i => exact hsame _ rfl
  | connError i =>
    simp only [step]
    split
    · exact hsame _ rfl
    · split <;> exact hsame _ rfl

structure CInv (c : Cluster K) : Prop where
  pools : ∀ n, Inv (c.pools n)
  known_lt : ∀ n ∈ c.known, n < c.nNodes
  nodes_lt : ∀ f ∈ c.fanouts, ∀ n ∈ f.nodes, n < c.nNodes
  fids : c.fanouts.Pairwise (fun a b => a.id ≠ b.id)
  fids_lt : ∀ f ∈ c.fanouts, f.id < c.fanouts.length
  used : c.usedKs = c.fanouts.head?.map (·.ks)
  sent_in : ∀ f ∈ c.fanouts, ∀ n tid, f.sent.lookup n = some tid → n ∈ f.nodes
  sent : ∀ f ∈ c.fanouts, ∀ n tid, f.sent.lookup n = some tid →
    ∃ t ∈ (c.pools n).tasks, t.id = tid ∧ t.ks = f.ks
  fan : ∀ f ∈ c.fanouts, f.resp = some .ok → ∀ n ∈ f.nodes,
    ∃ t ∈ (c.pools n).tasks, t.ks = f.ks ∧ (t.resp = some .ok ∨ t.resp = some (.err .broken))

theorem cinv_init (perShard : Bool) (target : Nat) : CInv (Cluster.init perShard target : Cluster K) := by
  constructor <;> simp [Cluster.init, inv_init]

theorem unique_fid {fs : List (Fanout K)} (hp : fs.Pairwise (fun a b => a.id ≠ b.id)) {a b : Fanout K}
    (ha : a ∈ fs) (hb : b ∈ fs) (hid : a.id = b.id) : a = b := by
  induction hp with
  | nil => cases ha
  | cons hhead _ ih =>
    simp only [List.mem_cons] at ha hb
    rcases ha with rfl | ha <;> rcases hb with rfl | hb
    · rfl
    · exact absurd hid (hhead b hb)
    · exact absurd hid.symm (hhead a ha)
    · exact ih ha hb

theorem mem_modifyFanout {fs : List (Fanout K)} {fid : Nat} {g : Fanout K → Fanout K} {f' : Fanout K} :
    f' ∈ modifyFanout fs fid g ↔ ∃ f ∈ fs, f' = if f.id = fid then g f else f := by
  unfold modifyFanout
  simp only [List.mem_map]
  constructor
  · rintro ⟨t, ht, rfl⟩; exact ⟨t, ht, rfl⟩
  · rintro ⟨t, ht, rfl⟩; exact ⟨t, ht, rfl⟩

/-- Changing only the pool of node `m` by one pool step (and/or leaving fan-outs' `resp`, `nodes`, `ks`, `id`
alone) keeps the pool-related clauses. -/
theorem cinv_pool_step {c : Cluster K} (h : CInv c) (m : Nat) (e : Ev K) :
    CInv { c with pools := setPool c.pools m (step (c.pools m) e) } := by
  have hp : ∀ n (t : Task K), t ∈ (c.pools n).tasks →
      ∃ t' ∈ (setPool c.pools m (step (c.pools m) e) n).tasks, t'.id = t.id ∧ t'.ks = t.ks ∧ (t.resp ≠ none → t' = t) := by
    intro n t ht
    unfold setPool
    by_cases hn : n = m
    · subst hn
      simp only [↓reduceIte]
      obtain ⟨t', h1, h2, h3, _, h5⟩ := task_persists (h.pools n) e t ht
      exact ⟨t', h1, h2, h3, h5⟩
    · simp only [hn, ↓reduceIte]
      exact ⟨t, ht, rfl, rfl, fun _ => rfl⟩
  constructor
  · intro n
    simp only [setPool]
    split
    · rename_i hn; subst hn; exact inv_step (h.pools n) e
    · exact h.pools n
  · exact h.known_lt
  · exact h.nodes_lt
  · exact h.fids
  · exact h.fids_lt
  · exact h.used
  · exact h.sent_in
  · intro f hf n tid hl
    obtain ⟨t, ht, hid, hks⟩ := h.sent f hf n tid hl
    obtain ⟨t', h1, h2, h3, _⟩ := hp n t ht
    exact ⟨t', h1, by rw [h2, hid], by rw [h3, hks]⟩
  · intro f hf hr n hn
    obtain ⟨t, ht, hks, hresp⟩ := h.fan f hf hr n hn
    obtain ⟨t', h1, _, _, h4⟩ := hp n t ht
    have : t' = t := h4 (by rcases hresp with h5 | h5 <;> simp [h5])
    subst this
    exact ⟨t', h1, hks, hresp⟩

theorem cinv_step {c : Cluster K} (h : CInv c) (e : CEv K) : CInv (cstep c e) := by
  cases e with
  | useKs k =>
    simp only [cstep]
    constructor
    · exact h.pools
    · exact h.known_lt
    · intro f hf n hn
      simp only [List.mem_cons] at hf
      rcases hf with rfl | hf
      · exact h.known_lt n hn
      · exact h.nodes_lt f hf n hn
    · simp only [List.pairwise_cons]
      refine ⟨fun f hf => ?_, h.fids⟩
      have := h.fids_lt f hf
      simp only [ne_eq]; omega
    · intro f hf
      simp only [List.mem_cons, List.length_cons] at hf ⊢
      rcases hf with rfl | hf
      · simp
      · have := h.fids_lt f hf; omega
    · simp
    · intro f hf n tid hl
      simp only [List.mem_cons] at hf
      rcases hf with rfl | hf
      · simp at hl
      · exact h.sent_in f hf n tid hl
    · intro f hf n tid hl
      simp only [List.mem_cons] at hf
      rcases hf with rfl | hf
      · simp at hl
      · exact h.sent f hf n tid hl
    · intro f hf hr n hn
      simp only [List.mem_cons] at hf
      rcases hf with rfl | hf
      · simp at hr
      · exact h.fan f hf hr n hn
  | deliver fid n =>
    simp only [cstep]
    split
    · exact h
    · rename_i f hfind
      have hfm := List.mem_of_find?_eq_some hfind
      have hfid : f.id = fid := by simpa using List.find?_some hfind
      subst hfid
      split
      · exact h
      · rename_i hcond
        simp only [Bool.or_eq_true, Bool.not_eq_true', not_or, Bool.not_eq_true, Option.isSome_eq_false_iff,
          Option.isNone_iff_eq_none, Bool.not_eq_false, List.contains_eq_mem, decide_eq_true_eq] at hcond
        obtain ⟨⟨hal, hin⟩, hlk⟩ := hcond
        have h1 := cinv_pool_step h n (.useKs f.ks)
        have huniq : ∀ f' ∈ c.fanouts, f'.id = f.id → f' = f := fun f' hf' hid => unique_fid h.fids hf' hfm hid
        constructor
        · exact h1.pools
        · exact h.known_lt
        · intro f'' hf'' m hm
          obtain ⟨f', hf', rfl⟩ := mem_modifyFanout.mp hf''
          split at hm <;> exact h.nodes_lt f' hf' m hm
        · simp only [modifyFanout, List.pairwise_map]
          refine h.fids.imp ?_
          intro a b hab
          split <;> split <;> simpa using hab
        · intro f'' hf''
          obtain ⟨f', hf', rfl⟩ := mem_modifyFanout.mp hf''
          simp only [modifyFanout, List.length_map]
          split <;> exact h.fids_lt f' hf'
        · have := h.used
          simp only [modifyFanout]
          rw [this]
          cases c.fanouts with
          | nil => rfl
          | cons a l => simp only [List.head?_cons, Option.map_some, List.map_cons]; split <;> rfl
        · intro f'' hf'' m tid hl
          obtain ⟨f', hf', rfl⟩ := mem_modifyFanout.mp hf''
          split at hl
          next hid =>
            have := huniq f' hf' hid; subst this
            simp only [hid, ↓reduceIte]
            simp only [List.lookup_cons] at hl
            split at hl
            next heq => simp only [beq_iff_eq] at heq; subst heq; exact hin
            next => exact h.sent_in _ hf' m tid hl
          next hid =>
            simp only [hid, ↓reduceIte]
            exact h.sent_in f' hf' m tid hl
        · intro f'' hf'' m tid hl
          obtain ⟨f', hf', rfl⟩ := mem_modifyFanout.mp hf''
          split at hl
          next hid =>
            have := huniq f' hf' hid; subst this
            simp only [hid, ↓reduceIte]
            simp only [List.lookup_cons] at hl
            split at hl
            next heq =>
              simp only [beq_iff_eq] at heq; subst heq
              simp only [Option.some.injEq] at hl
              subst hl
              simp only [setPool, ↓reduceIte, step]
              exact ⟨_, List.mem_cons_self, rfl, rfl⟩
            next => exact h1.sent _ hf' m tid hl
          next hid =>
            simp only [hid, ↓reduceIte]
            exact h1.sent f' hf' m tid hl
        · intro f'' hf'' hr m hm
          obtain ⟨f', hf', rfl⟩ := mem_modifyFanout.mp hf''
          split at hr
          next hid =>
            have := huniq f' hf' hid; subst this
            simp only at hr
            rw [hal] at hr; cases hr
          next hid =>
            simp only [hid, ↓reduceIte] at hm ⊢
            exact h1.fan f' hf' hr m hm
  | pool n e =>
    simp only [cstep]
    split
    · exact h
    · exact cinv_pool_step h n e
  | addNode perShard target filt =>
    simp only [cstep]
    have hne : ∀ f ∈ c.fanouts, ∀ n ∈ f.nodes, setPool c.pools c.nNodes (Pool.init perShard target c.usedKs) n = c.pools n := by
      intro f hf n hn
      have := h.nodes_lt f hf n hn
      simp only [setPool]
      rw [if_neg (by omega)]
    constructor
    · intro n
      simp only [setPool]
      split
      · exact inv_init _ _ _
      · exact h.pools n
    · intro n hn
      simp only [List.mem_append, List.mem_singleton] at hn ⊢
      rcases hn with hn | hn
      · have := h.known_lt n hn; omega
      · omega
    · intro f hf n hn; have := h.nodes_lt f hf n hn; simp only; omega
    · exact h.fids
    · exact h.fids_lt
    · exact h.used
    · exact h.sent_in
    · intro f hf n tid hl
      simp only
      rw [hne f hf n (h.sent_in f hf n tid hl)]
      exact h.sent f hf n tid hl
    · intro f hf hr n hn
      simp only
      rw [hne f hf n hn]
      exact h.fan f hf hr n hn
  | removeNode n =>
    simp only [cstep]
    constructor
    · exact h.pools
    · intro m hm; exact h.known_lt m (List.mem_filter.mp hm).1
    · exact h.nodes_lt
    · exact h.fids
    · exact h.fids_lt
    · exact h.used
    · exact h.sent_in
    · exact h.sent
    · exact h.fan
  | fanoutFinish fid =>
    simp only [cstep]
    split
    · exact h
    · rename_i f hfind
      have hfm := List.mem_of_find?_eq_some hfind
      have hfid : f.id = fid := by simpa using List.find?_some hfind
      subst hfid
      split
      · exact h
      · rename_i hcond
        simp only [Bool.or_eq_true, Bool.not_eq_true', not_or, Bool.not_eq_true, Option.isSome_eq_false_iff,
          Option.isNone_iff_eq_none, Bool.not_eq_false] at hcond
        obtain ⟨hal, hall⟩ := hcond
        have huniq : ∀ f' ∈ c.fanouts, f'.id = f.id → f' = f := fun f' hf' hid => unique_fid h.fids hf' hfm hid
        constructor
        · exact h.pools
        · exact h.known_lt
        · intro f'' hf'' m hm
          obtain ⟨f', hf', rfl⟩ := mem_modifyFanout.mp hf''
          split at hm <;> exact h.nodes_lt f' hf' m hm
        · simp only [modifyFanout, List.pairwise_map]
          refine h.fids.imp ?_
          intro a b hab
          split <;> split <;> simpa using hab
        · intro f'' hf''
          obtain ⟨f', hf', rfl⟩ := mem_modifyFanout.mp hf''
          simp only [modifyFanout, List.length_map]
          split <;> exact h.fids_lt f' hf'
        · have := h.used
          simp only [modifyFanout]
          rw [this]
          cases c.fanouts with
          | nil => rfl
          | cons a l => simp only [List.head?_cons, Option.map_some, List.map_cons]; split <;> rfl
        · intro f'' hf'' m tid hl
          obtain ⟨f', hf', rfl⟩ := mem_modifyFanout.mp hf''
          split at hl <;> split <;> exact h.sent_in f' hf' m tid hl
        · intro f'' hf'' m tid hl
          obtain ⟨f', hf', rfl⟩ := mem_modifyFanout.mp hf''
          split at hl <;> split <;> exact h.sent f' hf' m tid hl
        · intro f'' hf'' hr m hm
          obtain ⟨f', hf', rfl⟩ := mem_modifyFanout.mp hf''
          split at hr
          next hid =>
            have := huniq f' hf' hid; subst this
            simp only [hid, ↓reduceIte] at hm ⊢
            simp only [Option.some.injEq] at hr
            have hok := (useKeyspaceResult_ok_iff _).mp hr
            have hsome := List.all_eq_true.mp hall m hm
            obtain ⟨r, hr'⟩ := Option.isSome_iff_exists.mp hsome
            have hmem : r ∈ f'.nodes.filterMap (c.nodeAnswer f') := List.mem_filterMap.mpr ⟨m, hm, hr'⟩
            have hcase := hok.1 r hmem
            unfold Cluster.nodeAnswer at hr'
            split at hr'
            · cases hr'
            · rename_i tid hlk
              split at hr'
              · cases hr'
              · rename_i t hft
                obtain ⟨htm, htid⟩ := findTask_some hft
                obtain ⟨t2, ht2, hid2, hks2⟩ := h.sent f' hf' m tid hlk
                have : t2 = t := unique_id (h.pools m).ids ht2 htm (by rw [hid2, htid])
                subst this
                refine ⟨t2, htm, hks2, ?_⟩
                split at hr'
                · cases hr'
                · rename_i hresp; exact Or.inl hresp
                · rename_i e' hresp
                  simp only [Option.some.injEq] at hr'
                  subst hr'
                  rcases hcase with h5 | h5
                  · cases h5
                  · simp only [Except.error.injEq] at h5; subst h5; exact Or.inr hresp
                · cases hr'
          next hid =>
            simp only [hid, ↓reduceIte] at hm ⊢
            exact h.fan f' hf' hr m hm

theorem cinv_run {c : Cluster K} (h : CInv c) (evs : List (CEv K)) : CInv (crun c evs) := by
  unfold crun
  induction evs generalizing c with
  | nil => exact h
  | cons e es ih => exact ih (cinv_step h e)

end ScyllaVerif.Keyspace

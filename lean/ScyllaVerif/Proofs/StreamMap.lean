import ScyllaVerif.Model.StreamMap
/-! Helper lemmas for C02/C10: the bitmap at bit level, association lists through `get`. -/
namespace ScyllaVerif.StreamMap

/-! ### `trailing_ones` -/

theorem trailingOnesFrom_spec (x : BitVec 64) (fuel i : Nat) :
    i ≤ trailingOnesFrom x i fuel ∧ trailingOnesFrom x i fuel ≤ i + fuel ∧
    (∀ j, i ≤ j → j < trailingOnesFrom x i fuel → x.getLsbD j = true) ∧
    (trailingOnesFrom x i fuel < i + fuel → x.getLsbD (trailingOnesFrom x i fuel) = false) := by
  induction fuel generalizing i with
  | zero => simp [trailingOnesFrom]; intro j h1 h2; omega
  | succ n ih =>
    unfold trailingOnesFrom
    split
    · rename_i hb
      have := ih (i + 1)
      refine ⟨by omega, by omega, ?_, ?_⟩
      · intro j h1 h2
        by_cases hj : j = i
        · subst hj; exact hb
        · exact this.2.2.1 j (by omega) h2
      · intro h; exact this.2.2.2 (by omega)
    · rename_i hb
      refine ⟨by omega, by omega, ?_, ?_⟩
      · intro j h1 h2; omega
      · intro _; simpa using hb

theorem allOnes_bit (i : Nat) (hi : i < 64) : (BitVec.allOnes 64).getLsbD i = true := by
  rw [BitVec.getLsbD_allOnes]; simp [hi]

theorem trailingOnes_lt (x : BitVec 64) (h : x ≠ BitVec.allOnes 64) : trailingOnes x < 64 := by
  have sp := trailingOnesFrom_spec x 64 0
  unfold trailingOnes
  rcases Nat.lt_or_ge (trailingOnesFrom x 0 64) 64 with h1 | h1
  · exact h1
  · exfalso; apply h
    apply BitVec.eq_of_getLsbD_eq
    intro i hi
    rw [sp.2.2.1 i (by omega) (by omega), allOnes_bit i hi]

/-- `trailing_ones` of a block that is not all-ones is the index of its lowest zero bit. -/
theorem trailingOnes_spec (x : BitVec 64) (h : x ≠ BitVec.allOnes 64) :
    trailingOnes x < 64 ∧ x.getLsbD (trailingOnes x) = false ∧ ∀ j < trailingOnes x, x.getLsbD j = true := by
  have lt := trailingOnes_lt x h
  have sp := trailingOnesFrom_spec x 64 0
  unfold trailingOnes at *
  exact ⟨lt, sp.2.2.2 (by omega), fun j hj => sp.2.2.1 j (by omega) hj⟩

theorem setBit_getLsbD (b : BitVec 64) (off m : Nat) :
    (b ||| (1#64 <<< off)).getLsbD m = (b.getLsbD m || (m == off && decide (m < 64))) := by
  by_cases hm : m < 64
  · have : (!decide (m < off) && decide (m - off = 0)) = (m == off) := by
      rw [Bool.eq_iff_iff]; simp; omega
    simp [hm, this]
  · simp [BitVec.getLsbD_of_ge _ _ (by omega : 64 ≤ m), hm]

theorem clearBit_getLsbD (b : BitVec 64) (off m : Nat) :
    (b &&& ~~~(1#64 <<< off)).getLsbD m = (b.getLsbD m && !(m == off)) := by
  by_cases hm : m < 64
  · have : (decide (m < off) || !decide (m - off = 0)) = !(m == off) := by
      rw [Bool.eq_iff_iff]; simp; omega
    simp [hm, this]
  · simp [BitVec.getLsbD_of_ge _ _ (by omega : 64 ≤ m)]

/-! ### the block scan, with indices relative to the head of the list -/

/-- Bit `n` of a list of blocks. -/
def bitAt (bs : List (BitVec 64)) (n : Nat) : Bool := (bs.getD (n / 64) 0#64).getLsbD (n % 64)

theorem bitAt_nil (n : Nat) : bitAt [] n = false := by simp [bitAt]

theorem bitAt_cons (b : BitVec 64) (rest : List (BitVec 64)) (n : Nat) :
    bitAt (b :: rest) n = if n < 64 then b.getLsbD n else bitAt rest (n - 64) := by
  unfold bitAt
  split
  · rename_i h
    have h1 : n / 64 = 0 := by omega
    have h2 : n % 64 = n := by omega
    simp [h1, h2]
  · rename_i h
    have h1 : n / 64 = (n - 64) / 64 + 1 := by omega
    have h2 : n % 64 = (n - 64) % 64 := by omega
    simp [h1, h2]

theorem bitAt_ge (bs : List (BitVec 64)) (n : Nat) (h : bs.length * 64 ≤ n) : bitAt bs n = false := by
  unfold bitAt
  have : bs.length ≤ n / 64 := by omega
  simp [List.getD_eq_getElem?_getD, List.getElem?_eq_none this]

theorem allocateGo_some (bs : List (BitVec 64)) (k id : Nat) (bs' : List (BitVec 64))
    (h : allocateGo bs k = some (id, bs')) :
    ∃ n, id = n + k * 64 ∧ n < bs.length * 64 ∧ bitAt bs n = false ∧ (∀ j < n, bitAt bs j = true) ∧
      bitAt bs' n = true ∧ (∀ j, j ≠ n → bitAt bs' j = bitAt bs j) ∧ bs'.length = bs.length := by
  induction bs generalizing k id bs' with
  | nil => simp [allocateGo] at h
  | cons b rest ih =>
    unfold allocateGo at h
    split at h
    · rename_i hb
      have sp := trailingOnes_spec b hb
      simp only [Option.some.injEq, Prod.mk.injEq] at h
      obtain ⟨h1, h2⟩ := h
      subst h1 h2
      refine ⟨trailingOnes b, rfl, by simp only [List.length_cons]; omega, ?_, ?_, ?_, ?_, by simp⟩
      · rw [bitAt_cons, if_pos sp.1]; exact sp.2.1
      · intro j hj; rw [bitAt_cons, if_pos (show j < 64 by omega)]; exact sp.2.2 j hj
      · rw [bitAt_cons, if_pos sp.1, setBit_getLsbD]; simp [sp.1]
      · intro j hj
        rw [bitAt_cons, bitAt_cons]
        split
        · rename_i hj64
          rw [setBit_getLsbD]
          have : (j == trailingOnes b) = false := by simpa using hj
          rw [this]; simp
        · rfl
    · rename_i hb
      have hb : b = BitVec.allOnes 64 := by simpa using hb
      split at h
      · cases h
      · rename_i id' rest' hrec
        simp only [Option.some.injEq, Prod.mk.injEq] at h
        obtain ⟨h1, h2⟩ := h
        subst h1 h2
        obtain ⟨n, e, lt, f, below, set, other, len⟩ := ih (k + 1) id' rest' hrec
        refine ⟨n + 64, by omega, by simp only [List.length_cons]; omega, ?_, ?_, ?_, ?_, by simp [len]⟩
        · rw [bitAt_cons]; simp [f]
        · intro j hj
          rw [bitAt_cons]
          split
          · rename_i h64; rw [hb]; exact allOnes_bit j h64
          · exact below (j - 64) (by omega)
        · rw [bitAt_cons]; simp [set]
        · intro j hj
          rw [bitAt_cons, bitAt_cons]
          split
          · rfl
          · exact other (j - 64) (by omega)

theorem allocateGo_none (bs : List (BitVec 64)) (k : Nat) :
    allocateGo bs k = none ↔ ∀ n < bs.length * 64, bitAt bs n = true := by
  induction bs generalizing k with
  | nil => simp [allocateGo]
  | cons b rest ih =>
    unfold allocateGo
    split
    · rename_i hb
      have sp := trailingOnes_spec b hb
      simp only [reduceCtorEq, false_iff]
      intro hall
      have := hall (trailingOnes b) (by simp only [List.length_cons]; omega)
      rw [bitAt_cons, if_pos sp.1, sp.2.1] at this
      cases this
    · rename_i hb
      have hb : b = BitVec.allOnes 64 := by simpa using hb
      have hrec := ih (k + 1)
      split
      · rename_i hnone
        simp only [true_iff]
        intro n hn
        rw [bitAt_cons]
        split
        · rename_i h64; rw [hb]; exact allOnes_bit n h64
        · exact (hrec.mp hnone) (n - 64) (by simp only [List.length_cons] at hn; omega)
      · rename_i id' rest' hsome
        simp only [reduceCtorEq, false_iff]
        intro hall
        have : allocateGo rest (k + 1) = none := by
          apply hrec.mpr
          intro n hn
          have := hall (n + 64) (by simp only [List.length_cons]; omega)
          rw [bitAt_cons] at this
          simpa using this
        rw [this] at hsome
        cases hsome

/-! ### `StreamIdSet`: the bit level refines the abstract set `isUsed` -/

theorem isUsed_eq_bitAt (s : StreamIdSet) (id : Nat) : s.isUsed id = bitAt s.blocks id := rfl

theorem new_length : StreamIdSet.new.blocks.length = 512 := by
  show (List.replicate blockCount 0#64).length = 512
  rw [List.length_replicate]; rfl

theorem new_isUsed (id : Nat) : StreamIdSet.new.isUsed id = false := by
  show ((List.replicate blockCount 0#64).getD (id / 64) 0#64).getLsbD (id % 64) = false
  rw [List.getD_eq_getElem?_getD, List.getElem?_replicate]
  split <;> simp

theorem sallocate_some {s s' : StreamIdSet} {id : Nat} (hlen : s.blocks.length = 512)
    (h : s.allocate = some (id, s')) :
    id < 32768 ∧ s.isUsed id = false ∧ (∀ j < id, s.isUsed j = true) ∧ s'.isUsed id = true ∧
      (∀ j, j ≠ id → s'.isUsed j = s.isUsed j) ∧ s'.blocks.length = 512 := by
  unfold StreamIdSet.allocate at h
  split at h
  · cases h
  · rename_i id' bs' hgo
    simp only [Option.some.injEq, Prod.mk.injEq] at h
    obtain ⟨h1, h2⟩ := h
    subst h1 h2
    obtain ⟨n, e, lt, f, below, set, other, len⟩ := allocateGo_some _ _ _ _ hgo
    simp only [Nat.zero_mul, Nat.add_zero] at e
    subst e
    simp only [isUsed_eq_bitAt]
    exact ⟨by omega, f, below, set, other, by omega⟩

theorem sallocate_none {s : StreamIdSet} (hlen : s.blocks.length = 512) :
    s.allocate = none ↔ ∀ id < 32768, s.isUsed id = true := by
  unfold StreamIdSet.allocate
  have := allocateGo_none s.blocks 0
  rw [hlen] at this
  split
  · rename_i hgo; simp only [true_iff]; exact this.mp hgo
  · rename_i hgo
    simp only [reduceCtorEq, false_iff]
    intro hall
    rw [this.mpr hall] at hgo
    cases hgo

theorem free_length (s : StreamIdSet) (id : Nat) : (s.free id).blocks.length = s.blocks.length := by
  simp [StreamIdSet.free]

/-- `free` clears exactly the bit `id` (for ids inside the bitmap). -/
theorem free_isUsed (s : StreamIdSet) (id j : Nat) :
    (s.free id).isUsed j = (s.isUsed j && !(j == id)) := by
  unfold StreamIdSet.free StreamIdSet.isUsed
  simp only [List.getD_eq_getElem?_getD, List.getElem?_modify]
  by_cases hq : id / 64 = j / 64
  · simp only [hq, if_true]
    cases hget : s.blocks[j / 64]? with
    | none => simp
    | some b =>
      have : (j % 64 == id % 64) = (j == id) := by
        rw [Bool.eq_iff_iff]; simp; omega
      show (b &&& ~~~(1#64 <<< (id % 64))).getLsbD (j % 64) = _
      rw [clearBit_getLsbD, this]; rfl
  · simp only [hq, if_false]
    have : (j == id) = false := by
      simp; intro h; subst h; exact hq rfl
    simp [this]

/-! ### association lists, observed through `get` -/

@[simp] theorem AMap.get_nil (k : Nat) : AMap.get [] k = none := rfl

theorem AMap.get_cons (k' v k : Nat) (m : AMap) :
    AMap.get ((k', v) :: m) k = if k' = k then some v else AMap.get m k := rfl

theorem AMap.get_insert (m : AMap) (k v k' : Nat) :
    (m.insert k v).get k' = if k = k' then some v else m.get k' := rfl

theorem AMap.get_filter (m : AMap) (k k' : Nat) :
    AMap.get (m.filter (fun p => p.1 != k)) k' = if k = k' then none else AMap.get m k' := by
  induction m with
  | nil => simp
  | cons p rest ih =>
    obtain ⟨a, b⟩ := p
    rw [List.filter_cons]
    by_cases hak : a = k
    · subst hak
      simp only [bne_self_eq_false, Bool.false_eq_true, if_false, ih, AMap.get_cons]
      split <;> simp_all
    · have : (a != k) = true := by simpa using hak
      simp only [this, if_true, AMap.get_cons, ih]
      split <;> split <;> simp_all

theorem AMap.get_erase (m : AMap) (k k' : Nat) :
    (m.erase k).get k' = if k = k' then none else m.get k' := by
  unfold AMap.erase
  split
  · rename_i h
    split
    · rename_i hk; subst hk; exact h
    · rfl
  · exact AMap.get_filter m k k'

theorem AMap.get_some_mem (m : AMap) (k v : Nat) (h : m.get k = some v) : v ∈ m.map (·.2) := by
  induction m with
  | nil => simp at h
  | cons p rest ih =>
    obtain ⟨a, b⟩ := p
    rw [AMap.get_cons] at h
    split at h
    · simp only [Option.some.injEq] at h; subst h; simp
    · simp only [List.map_cons, List.mem_cons]; exact Or.inr (ih h)

end ScyllaVerif.StreamMap

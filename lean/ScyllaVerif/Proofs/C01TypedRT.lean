import ScyllaVerif.Model.C01TypedDecode
import ScyllaVerif.Proofs.CodecDec
import ScyllaVerif.Proofs.CarrierFactor
/-!
C01: typed round trip — the typed `DeserializeValue` impl of a carrier gives back the Rust value from the bytes
its embedding encodes to (`deserCarrier ∘ encode ∘ embed = id` on `rtOk`), by mutual induction over the carrier.
-/
namespace ScyllaVerif.Proofs.TypedRT
open ScyllaVerif.Vint ScyllaVerif.Cql ScyllaVerif.Codec ScyllaVerif.TypedCarrier ScyllaVerif.TypedDecode
open ScyllaVerif.Proofs.Vint ScyllaVerif.Proofs.CodecEnc ScyllaVerif.Proofs.CodecDec

/-- One serialized cell reads back as one item which the element decoder turns into `y`. -/
def ItemRT {α : Type} (f : Option Bytes → Except DeErr α) (cell : Bytes) (y : α) : Prop :=
  ∀ rest, ∃ o, readCqlBytes (cell ++ rest) = .ok (o, rest) ∧ f o = .ok y

theorem concatEnc_map {α β : Type} (g : β → Except SerErr Bytes) (h : α → β) (xs : List α) :
    concatEnc g (xs.map h) = concatEnc (fun x => g (h x)) xs := by
  induction xs with
  | nil => rfl
  | cons x xs ih => simp only [List.map_cons, concatEnc, ih]

theorem seqG_rt {α : Type} (f : Option Bytes → Except DeErr α) (g : α → Except SerErr Bytes) :
    ∀ (xs : List α) (cells rest : Bytes), (∀ y, y ∈ xs → ∀ cell, g y = .ok cell → ItemRT f cell y) →
      concatEnc g xs = .ok cells → seqG f xs.length (cells ++ rest) = .ok xs := by
  intro xs
  induction xs with
  | nil => intro cells rest _ _; rfl
  | cons y xs ih =>
    intro cells rest hall h
    obtain ⟨c, r, hc, hr, rfl⟩ := concatEnc_cons_ok g y xs cells h
    obtain ⟨o, hread, hf⟩ := hall y List.mem_cons_self c hc (r ++ rest)
    simp only [List.length_cons, seqG, List.append_assoc, hread, hf,
      ih r rest (fun z hz => hall z (List.mem_cons_of_mem _ hz)) hr]

theorem mapG_rt {α β : Type} (fk : Option Bytes → Except DeErr α) (fv : Option Bytes → Except DeErr β)
    (ek : α → CqlVal) (ev : β → CqlVal) (gk gv : CqlVal → Except SerErr Bytes) :
    ∀ (kvs : List (α × β)) (cells rest : Bytes),
      (∀ kv, kv ∈ kvs → (∀ cell, gk (ek kv.1) = .ok cell → ItemRT fk cell kv.1) ∧
        (∀ cell, gv (ev kv.2) = .ok cell → ItemRT fv cell kv.2)) →
      concatEnc (fun (kv : α × β) => pairSpec gk gv (ek kv.1, ev kv.2)) kvs = .ok cells →
      mapG fk fv kvs.length (cells ++ rest) = .ok kvs := by
  intro kvs
  induction kvs with
  | nil => intro cells rest _ _; rfl
  | cons kv kvs ih =>
    intro cells rest hall h
    obtain ⟨c, r, hc, hr, rfl⟩ := concatEnc_cons_ok _ kv kvs cells h
    obtain ⟨a, b, hk, hv, rfl⟩ := pairSpec_ok gk gv _ c hc
    simp only at hk hv
    obtain ⟨h1, h2⟩ := hall kv List.mem_cons_self
    obtain ⟨ok, hrk, hfk⟩ := h1 a hk (b ++ (r ++ rest))
    obtain ⟨ov, hrv, hfv⟩ := h2 b hv (r ++ rest)
    simp only [List.length_cons, mapG, List.append_assoc, hrk, hrv, hfk, hfv,
      ih r rest (fun z hz => hall z (List.mem_cons_of_mem _ hz)) hr]

theorem vecVarG_rt {α : Type} (f : Option Bytes → Except DeErr α) (e : α → CqlVal)
    (gv : CqlVal → Except SerErr Bytes) :
    ∀ (xs : List α) (cells : Bytes),
      (∀ y, y ∈ xs → ∀ eb, gv (e y) = .ok eb → eb.length < 2 ^ 64 → f (some eb) = .ok y) →
      concatEnc (fun y => varElemSpec gv (e y)) xs = .ok cells → cells.length < 2 ^ 64 →
      vecVarG f xs.length cells = .ok xs := by
  intro xs
  induction xs with
  | nil => intro cells _ _ _; rfl
  | cons y xs ih =>
    intro cells hall h hlt
    obtain ⟨c, r, hc, hr, rfl⟩ := concatEnc_cons_ok _ y xs cells h
    obtain ⟨eb, heb, rfl⟩ := varElemSpec_ok gv (e y) c hc
    have hl : eb.length < 2 ^ 64 ∧ r.length < 2 ^ 64 := by
      simp only [List.length_append] at hlt; omega
    have hne : ((eb ++ r).isEmpty && eb.length != 0) = false := by
      cases eb with
      | nil => simp
      | cons a l => simp
    have htn : (BitVec.ofNat 64 eb.length).toNat = eb.length := by
      simp [BitVec.toNat_ofNat, Nat.mod_eq_of_lt hl.1]
    have hlen : ¬ ((eb ++ r).length < eb.length) := by simp [List.length_append]
    simp only [List.length_cons, vecVarG, List.append_assoc, uvint_roundtrip, htn, readN, hne,
      Bool.false_eq_true, if_false, hlen, List.take_left' rfl, List.drop_left' rfl,
      hall y List.mem_cons_self eb heb hl.1,
      ih r (fun z hz => hall z (List.mem_cons_of_mem _ hz)) hr hl.2]

theorem vecFixedG_rt {α : Type} (f : Option Bytes → Except DeErr α) (e : α → CqlVal)
    (gv : CqlVal → Except SerErr Bytes) (size : Nat) :
    ∀ (xs : List α) (cells : Bytes),
      (∀ y, y ∈ xs → ∀ eb, gv (e y) = .ok eb → eb.length < 2 ^ 64 →
        f (some eb) = .ok y ∧ eb.length = size ∧ 0 < size) →
      concatEnc (fun y => gv (e y)) xs = .ok cells → cells.length < 2 ^ 64 →
      vecFixedG f size xs.length cells = .ok xs := by
  intro xs
  induction xs with
  | nil => intro cells _ _ _; rfl
  | cons y xs ih =>
    intro cells hall h hlt
    obtain ⟨c, r, hc, hr, rfl⟩ := concatEnc_cons_ok _ y xs cells h
    have hl : c.length < 2 ^ 64 ∧ r.length < 2 ^ 64 := by
      simp only [List.length_append] at hlt; omega
    obtain ⟨hf, hlen, hpos⟩ := hall y List.mem_cons_self c hc hl.1
    have hcne : c ≠ [] := by intro e'; rw [e'] at hlen; simp at hlen; omega
    have hne : ((c ++ r).isEmpty && size != 0) = false := by
      cases c with
      | nil => exact absurd rfl hcne
      | cons a l => simp
    have hlen' : ¬ ((c ++ r).length < size) := by simp [List.length_append, hlen]
    simp only [List.length_cons, vecFixedG, readN, hne, Bool.false_eq_true, if_false, hlen',
      List.take_left' hlen, List.drop_left' hlen, hf,
      ih r (fun z hz => hall z (List.mem_cons_of_mem _ hz)) hr hl.2]

/-! ### scalars -/

theorem view_retag (n : NativeTy) (v : CqlVal) : viewOf (retag n v) = viewOf v := by
  cases n <;> cases v <;> rfl

theorem primOfVal_retag (c : Carrier) (x : RustVal) (v : CqlVal) (n : NativeTy) (h : embedPrim c x = some v) :
    primOfVal (retag n v) = some x := by
  cases c <;> cases x <;> simp [embedPrim] at h <;> subst h <;> cases n <;> rfl

theorem embedPrim_not_special (c : Carrier) (x : RustVal) (v : CqlVal) (h : embedPrim c x = some v) :
    v ≠ .null ∧ v ≠ .unset ∧ v ≠ .empty := by
  cases c <;> cases x <;> simp [embedPrim] at h <;> subst h <;> simp

/-- Scalar carriers: strict decode of the content gives the Rust value back. -/
theorem prim_rt (u : Bytes → Bool) (c : Carrier) (x : RustVal) (v : CqlVal) (n : NativeTy) (body : Bytes)
    (he : embedPrim c x = some v) (hw : wfNative u n (retag n v) = true)
    (hb : encSpec (.native n) v false = .ok body) :
    deserPrim u (.native n) (some body) = .ok x := by
  obtain ⟨acc, b, viaB, hv, hacc, hdec, _⟩ := native_rt u n (retag n v) hw
  rw [view_retag] at hv
  rw [encSpec] at hb
  simp only [hv, encScalarSpec, hacc, if_true] at hb
  have := frame_false_ok b body viaB hb
  subst this
  have hdn : decNative u n body = .ok (retag n v) := by
    rw [decVal] at hdec
    split at hdec
    · -- the *empty* shortcut cannot have produced a well-formed native
      injection hdec with h'
      have : wfNative u n .empty = false := by cases n <;> rfl
      rw [← h', this] at hw; cases hw
    · exact hdec
  simp only [deserPrim, hdn, primOfVal_retag c x v n he]

def TRT (u : Bytes → Bool) (fl : Flavour) (c : Carrier) : Prop :=
  ∀ (t : CqlTy) (x : RustVal), wtVal c x = true → tcheck c t = true → rtOk u c t x = true →
    embed c x ≠ .unset ∧
    (embed c x = .null → deserCarrier u fl c t none = .ok x) ∧
    (∀ body, encSpec t (embed c x) false = .ok body → body.length < 2 ^ 64 →
      deserCarrier u fl c t (some body) = .ok x)

def TRTTuple (u : Bytes → Bool) (fl : Flavour) (cs : List Carrier) : Prop :=
  ∀ (ts : List CqlTy) (xs : List RustVal) (cells : Bytes), wtTuple cs xs = true → tcheckTuple cs ts = true →
    rtOkTuple u cs ts xs = true → encTupleSpec ts (embedTuple cs xs) = .ok cells →
    deserTuple u fl cs ts cells = .ok xs

theorem view_not_special (v : CqlVal) (h1 : v ≠ .null) (h2 : v ≠ .unset) :
    ∀ w, viewOf v = w → (match w with | .null => False | .unset => False | _ => True) := by
  intro w hw; subst hw
  cases v <;> simp [viewOf] at h1 h2 ⊢

/-- From the content statement to the item statement (what the collection / tuple loops need). -/
theorem item_of_trt (u : Bytes → Bool) (fl : Flavour) (c : Carrier) (t : CqlTy) (x : RustVal)
    (h : embed c x ≠ .unset ∧ (embed c x = .null → deserCarrier u fl c t none = .ok x) ∧
      (∀ body, encSpec t (embed c x) false = .ok body → body.length < 2 ^ 64 →
        deserCarrier u fl c t (some body) = .ok x))
    (cell : Bytes) (hc : encSpec t (embed c x) true = .ok cell) :
    ItemRT (fun o => deserCarrier u fl c t o) cell x := by
  intro rest
  by_cases hnull : embed c x = .null
  · rw [hnull, encSpec] at hc
    simp only [viewOf, if_true] at hc
    cases hc
    exact ⟨none, readCqlBytes_null rest, h.2.1 hnull⟩
  · obtain ⟨body, hb, hlen, rfl⟩ := encSpec_cell t _ cell hc (view_not_special _ hnull h.1)
    have hl : body.length < 2 ^ 64 := by have := i32Max_lt; omega
    exact ⟨some body, readCqlBytes_cell body rest hlen, h.2.2 body hb hl⟩

macro "prim_rt " c:term : tactic => `(tactic| (
  intro t x hwt htc hrt
  cases t with
  | native n =>
    simp only [rtOk] at hrt
    cases he : embedPrim $c x with
    | none => rw [he] at hrt; cases hrt
    | some v =>
      rw [he] at hrt
      simp only at hrt
      obtain ⟨h1, h2, h3⟩ := embedPrim_not_special $c x v he
      have hemb : embed $c x = v := by simp [embed, he]
      rw [hemb]
      refine ⟨h2, fun h => absurd h h1, ?_⟩
      intro body hb _
      simp only [deserCarrier]
      exact prim_rt _ $c x v n body he hrt hb
  | _ => simp [tcheck, primNatives] at htc))

theorem zeroLen_retag (n : NativeTy) (v : CqlVal) : zeroLenBody (retag n v) = zeroLenBody v := by
  cases n <;> cases v <;> first | rfl | (rename_i s; cases s <;> rfl)

theorem prim_body_nonempty (u : Bytes → Bool) (v : CqlVal) (n : NativeTy) (body : Bytes)
    (hw : wfNative u n (retag n v) = true) (hb : encSpec (.native n) v false = .ok body) (h0 : body = []) :
    zeroLenBody v = true := by
  obtain ⟨acc, b, viaB, hv, hacc, _, hz⟩ := native_rt u n (retag n v) hw
  rw [view_retag] at hv
  rw [encSpec] at hb
  simp only [hv, encScalarSpec, hacc, if_true] at hb
  have := frame_false_ok b body viaB hb
  subst this
  rw [← zeroLen_retag n v]
  exact hz h0

theorem rtOk_prim (u : Bytes → Bool) (c : Carrier) (t : CqlTy) (y : RustVal) (v : CqlVal)
    (he : embedPrim c y = some v) (hrt : rtOk u c t y = true) :
    ∃ n, t = .native n ∧ wfNative u n (retag n v) = true ∧ embed c y = v := by
  cases c <;> simp [embedPrim] at he <;>
    (cases t <;> simp [rtOk, he, embedPrim] at hrt
     exact ⟨_, rfl, by simpa using hrt, by simp [embed, embedPrim, he]⟩)

theorem tcheckTuple_length : ∀ (cs : List Carrier) (ts : List CqlTy), tcheckTuple cs ts = true → ts.length = cs.length
  | [], [], _ => rfl
  | [], _ :: _, h => by simp [tcheckTuple] at h
  | _ :: _, [], h => by simp [tcheckTuple] at h
  | c :: cs, t :: ts, h => by
    simp only [tcheckTuple, Bool.and_eq_true] at h
    simp [tcheckTuple_length cs ts h.2]

theorem readCqlBytes_ok_nonempty (bs : Bytes) (r : Option Bytes × Bytes) (h : readCqlBytes bs = .ok r) :
    bs.isEmpty = false := by
  cases bs with
  | nil => simp [readCqlBytes] at h
  | cons a l => rfl

/-! ### canonical content is a fixed point of `collect` -/

theorem pairwiseLt_cross : ∀ (a b : List RustVal), pairwiseLt (a ++ b) = true →
    ∀ y, y ∈ a → ∀ z, z ∈ b → rvCmp y z = .lt
  | [], _, _, y, hy, _, _ => by cases hy
  | x :: a, b, h, y, hy, z, hz => by
    simp only [List.cons_append, pairwiseLt, Bool.and_eq_true, List.all_eq_true, beq_iff_eq] at h
    cases hy with
    | head => exact h.1 z (List.mem_append_right _ hz)
    | tail _ hy' => exact pairwiseLt_cross a b h.2 y hy' z hz

theorem insertSet_append (fl : Flavour) (x : RustVal) : ∀ ys : List RustVal, (∀ y, y ∈ ys → rvCmp y x = .lt) →
    insertSet fl x ys = ys ++ [x]
  | [], _ => rfl
  | y :: ys, h => by
    simp only [insertSet, h y List.mem_cons_self, List.cons_append,
      insertSet_append fl x ys (fun z hz => h z (List.mem_cons_of_mem _ hz))]

theorem collectSet_canon_aux (fl : Flavour) : ∀ (xs acc : List RustVal), pairwiseLt (acc ++ xs) = true →
    xs.foldl (fun a x => insertSet fl x a) acc = acc ++ xs
  | [], acc, _ => by simp
  | x :: xs, acc, h => by
    have hlt : ∀ y, y ∈ acc → rvCmp y x = .lt := fun y hy => pairwiseLt_cross acc (x :: xs) h y hy x List.mem_cons_self
    simp only [List.foldl_cons, insertSet_append fl x acc hlt]
    have h' : pairwiseLt ((acc ++ [x]) ++ xs) = true := by simpa [List.append_assoc] using h
    rw [collectSet_canon_aux fl xs (acc ++ [x]) h']
    simp [List.append_assoc]

theorem collectSet_canon (fl : Flavour) (xs : List RustVal) (h : pairwiseLt xs = true) : collectSet fl xs = xs := by
  have := collectSet_canon_aux fl xs [] (by simpa using h)
  simpa [collectSet] using this

theorem insertMap_append (fl : Flavour) (kv : RustVal × RustVal) : ∀ es : List (RustVal × RustVal),
    (∀ e, e ∈ es → rvCmp e.1 kv.1 = .lt) → insertMap fl kv es = es ++ [kv]
  | [], _ => rfl
  | e :: es, h => by
    simp only [insertMap, h e List.mem_cons_self, List.cons_append,
      insertMap_append fl kv es (fun z hz => h z (List.mem_cons_of_mem _ hz))]

theorem collectMap_canon_aux (fl : Flavour) : ∀ (kvs acc : List (RustVal × RustVal)),
    pairwiseLt ((acc ++ kvs).map (·.1)) = true →
    kvs.foldl (fun a kv => insertMap fl kv a) acc = acc ++ kvs
  | [], acc, _ => by simp
  | kv :: kvs, acc, h => by
    have hlt : ∀ e, e ∈ acc → rvCmp e.1 kv.1 = .lt := by
      intro e he
      rw [List.map_append] at h
      exact pairwiseLt_cross (acc.map (·.1)) ((kv :: kvs).map (·.1)) h e.1 (List.mem_map_of_mem he) kv.1
        (by simp)
    simp only [List.foldl_cons, insertMap_append fl kv acc hlt]
    have h' : pairwiseLt (((acc ++ [kv]) ++ kvs).map (·.1)) = true := by simpa [List.append_assoc] using h
    rw [collectMap_canon_aux fl kvs (acc ++ [kv]) h']
    simp [List.append_assoc]

theorem collectMap_canon (fl : Flavour) (kvs : List (RustVal × RustVal)) (h : pairwiseLt (kvs.map (·.1)) = true) :
    collectMap fl kvs = kvs := by
  have := collectMap_canon_aux fl kvs [] (by simpa using h)
  simpa [collectMap] using this

/-- list / set columns (for `Vec` and the set carriers). -/
theorem seq_body_rt (u : Bytes → Bool) (fl : Flavour) (c : Carrier) (e : CqlTy) (xs : List RustVal) (body : Bytes)
    (post : List RustVal → List RustVal) (hpost : post xs = xs)
    (hitem : ∀ y, y ∈ xs → ∀ cell, encSpec e (embed c y) true = .ok cell →
      ItemRT (fun o => deserCarrier u fl c e o) cell y)
    (hb : (if (xs.map (fun y => embed c y)).length > i32Max then (.error .tooManyElements : Except SerErr Bytes)
      else match concatEnc (fun v => encSpec e v true) (xs.map (fun y => embed c y)) with
        | .error er => .error er
        | .ok cells => frame false (be32 (xs.map (fun y => embed c y)).length ++ cells)) = .ok body) :
    (match readCount body with
     | .error er => (.error er : Except DeErr RustVal)
     | .ok (n, rest) =>
       match seqG (fun o => deserCarrier u fl c e o) n rest with
       | .error er => .error er
       | .ok ys => .ok (.seq (post ys))) = .ok (.seq xs) := by
  simp only [List.length_map, concatEnc_map] at hb
  split at hb
  · cases hb
  · rename_i hlen
    cases hc : concatEnc (fun y => encSpec e (embed c y) true) xs with
    | error er => rw [hc] at hb; cases hb
    | ok cells =>
      rw [hc] at hb
      simp only [frame] at hb
      cases hb
      rw [readCount_be32 _ _ (by omega)]
      have := seqG_rt (fun o => deserCarrier u fl c e o) (fun y => encSpec e (embed c y) true) xs cells [] hitem hc
      rw [List.append_nil] at this
      simp only [this, hpost]

mutual
theorem trt (u : Bytes → Bool) (fl : Flavour) : ∀ c : Carrier, TRT u fl c
  | .i8 => by prim_rt Carrier.i8
  | .i16 => by prim_rt Carrier.i16
  | .i32 => by prim_rt Carrier.i32
  | .i64 => by prim_rt Carrier.i64
  | .f32 => by prim_rt Carrier.f32
  | .f64 => by prim_rt Carrier.f64
  | .bool => by prim_rt Carrier.bool
  | .string => by prim_rt Carrier.string
  | .blob => by prim_rt Carrier.blob
  | .inet => by prim_rt Carrier.inet
  | .uuid => by prim_rt Carrier.uuid
  | .timeuuid => by prim_rt Carrier.timeuuid
  | .date => by prim_rt Carrier.date
  | .time => by prim_rt Carrier.time
  | .timestamp => by prim_rt Carrier.timestamp
  | .duration => by prim_rt Carrier.duration
  | .varint => by prim_rt Carrier.varint
  | .decimal => by prim_rt Carrier.decimal
  | .counter => by prim_rt Carrier.counter
  | .opt c => by
    intro t x hwt htc hrt
    cases x <;> simp [wtVal] at hwt
    · refine ⟨by simp [embed], fun _ => by simp [deserCarrier], ?_⟩
      intro body hb _
      simp only [embed] at hb
      rw [encSpec] at hb
      simp [viewOf] at hb
    · rename_i y
      simp only [rtOk, Bool.and_eq_true, Bool.not_eq_true'] at hrt
      have ih := trt u fl c t y hwt (by simpa [tcheck] using htc) hrt.1
      simp only [embed]
      refine ⟨ih.1, fun hn => ?_, fun body hb hl => ?_⟩
      · rw [hn] at hrt; simp [isNullVal] at hrt
      · simp only [deserCarrier, ih.2.2 body hb hl]
  | .maybeUnset c => by intro t x _ htc _; simp [tcheck] at htc
  | .maybeEmpty c => by
    intro t x hwt htc hrt
    cases x <;> simp [wtVal] at hwt
    · refine ⟨by simp [embed], fun h => by simp [embed] at h, ?_⟩
      intro body hb _
      simp only [embed] at hb
      rw [encSpec] at hb
      simp only [viewOf, frameChecked] at hb
      split at hb
      · simp [i32Max] at hb
        subst hb
        simp [deserCarrier]
      · cases hb
    · rename_i y
      simp only [rtOk, Bool.and_eq_true, Bool.not_eq_true', Option.isSome_iff_exists] at hrt
      obtain ⟨⟨⟨v, he⟩, hry⟩, hz⟩ := hrt
      have ih := trt u fl c t y hwt (by simpa [tcheck] using htc) hry
      obtain ⟨n, rfl, hwn, hemb⟩ := rtOk_prim u c t y v he hry
      obtain ⟨h1, h2, h3⟩ := embedPrim_not_special c y v he
      simp only [embed]
      refine ⟨ih.1, fun hn => ?_, fun body hb hl => ?_⟩
      · rw [hemb] at hn; exact absurd hn h1
      · have hne : body.isEmpty = false := by
          cases body with
          | nil =>
            rw [hemb] at hb hz
            have := prim_body_nonempty u v n [] hwn hb rfl
            rw [this] at hz; cases hz
          | cons a l => rfl
        simp only [deserCarrier, hne, Bool.false_eq_true, if_false, ih.2.2 body hb hl]
  | .vec c => by
    intro t x hwt htc hrt
    cases x <;> simp [wtVal] at hwt
    rename_i xs
    cases t with
    | list e =>
      simp only [tcheck] at htc
      simp only [rtOk, List.all_eq_true] at hrt
      refine ⟨by simp [embed], fun h => by simp [embed] at h, ?_⟩
      intro body hb _
      simp only [embed] at hb
      rw [encSpec] at hb
      simp only [viewOf] at hb
      simp only [deserCarrier]
      exact seq_body_rt u fl c e xs body (fun ys => ys) rfl
        (fun y hy cell hc => item_of_trt u fl c e y (trt u fl c e y (hwt y hy) htc (hrt y hy)) cell hc) hb
    | set e =>
      simp only [tcheck] at htc
      simp only [rtOk, List.all_eq_true] at hrt
      refine ⟨by simp [embed], fun h => by simp [embed] at h, ?_⟩
      intro body hb _
      simp only [embed] at hb
      rw [encSpec] at hb
      simp only [viewOf] at hb
      simp only [deserCarrier]
      exact seq_body_rt u fl c e xs body (fun ys => ys) rfl
        (fun y hy cell hc => item_of_trt u fl c e y (trt u fl c e y (hwt y hy) htc (hrt y hy)) cell hc) hb
    | vector e dim =>
      simp only [tcheck] at htc
      simp only [rtOk, Bool.and_eq_true, List.all_eq_true, beq_iff_eq, Bool.not_eq_true'] at hrt
      obtain ⟨⟨hlen, hall⟩, hfix⟩ := hrt
      refine ⟨by simp [embed], fun h => by simp [embed] at h, ?_⟩
      intro body hb hlt
      simp only [embed] at hb
      rw [encSpec] at hb
      have hl : ¬ ((xs.map (fun y => embed c y)).length ≠ dim) := by simp [hlen]
      simp only [viewOf, hl, if_false, concatEnc_map] at hb
      simp only [deserCarrier]
      cases hs : e.sizeForVector with
      | some size =>
        rw [hs] at hb hfix
        simp only [List.all_eq_true, Bool.and_eq_true, Bool.not_eq_true'] at hb hfix
        cases hc : concatEnc (fun y => encSpec e (embed c y) false) xs with
        | error er => rw [hc] at hb; cases hb
        | ok cells =>
          rw [hc] at hb
          simp only [frame] at hb
          cases hb
          have := vecFixedG_rt (fun o => deserCarrier u fl c e o) (fun y => embed c y)
            (fun v => encSpec e v false) size xs body
            (fun y hy eb heb hle =>
              ⟨(trt u fl c e y (hwt y hy) htc (hall y hy).1).2.2 eb heb hle,
               sz_all u e (embed c y) eb size (hfix y hy).1 (hfix y hy).2 hs heb⟩) hc hlt
          rw [hlen] at this
          simp only [this]
      | none =>
        rw [hs] at hb
        simp only at hb
        cases hc : concatEnc (fun y => varElemSpec (fun v => encSpec e v false) (embed c y)) xs with
        | error er => rw [hc] at hb; cases hb
        | ok cells =>
          rw [hc] at hb
          simp only [frame] at hb
          cases hb
          have := vecVarG_rt (fun o => deserCarrier u fl c e o) (fun y => embed c y)
            (fun v => encSpec e v false) xs body
            (fun y hy eb heb hle => (trt u fl c e y (hwt y hy) htc (hall y hy).1).2.2 eb heb hle) hc hlt
          rw [hlen] at this
          simp only [this]
    | native n => simp [tcheck] at htc
    | map a b => simp [tcheck] at htc
    | tuple ts => simp [tcheck] at htc
    | udt a b d => simp [tcheck] at htc
  | .set c => by
    intro t x hwt htc hrt
    cases x <;> simp [wtVal] at hwt
    rename_i xs
    cases t with
    | set e =>
      simp only [tcheck] at htc
      simp only [rtOk, Bool.and_eq_true, List.all_eq_true] at hrt
      refine ⟨by simp [embed], fun h => by simp [embed] at h, ?_⟩
      intro body hb _
      simp only [embed] at hb
      rw [encSpec] at hb
      simp only [viewOf] at hb
      simp only [deserCarrier]
      exact seq_body_rt u fl c e xs body (collectSet fl) (collectSet_canon fl xs hrt.2)
        (fun y hy cell hc => item_of_trt u fl c e y (trt u fl c e y (hwt y hy) htc (hrt.1.2 y hy)) cell hc) hb
    | native n => simp [tcheck] at htc
    | list e => simp [tcheck] at htc
    | vector e d => simp [tcheck] at htc
    | map a b => simp [tcheck] at htc
    | tuple ts => simp [tcheck] at htc
    | udt a b d => simp [tcheck] at htc
  | .map k v => by
    intro t x hwt htc hrt
    cases x <;> simp [wtVal] at hwt
    rename_i kvs
    cases t with
    | map kt vt =>
      simp only [tcheck, Bool.and_eq_true] at htc
      simp only [rtOk, List.all_eq_true, Bool.and_eq_true] at hrt
      obtain ⟨⟨_, hrt⟩, hcanon⟩ := hrt
      refine ⟨by simp [embed], fun h => by simp [embed] at h, ?_⟩
      intro body hb _
      simp only [embed] at hb
      rw [encSpec] at hb
      simp only [viewOf, List.length_map, concatEnc_map] at hb
      simp only [deserCarrier]
      split at hb
      · cases hb
      · rename_i hlen
        cases hc : concatEnc (fun (kv : RustVal × RustVal) =>
            pairSpec (fun k' => encSpec kt k' true) (fun v' => encSpec vt v' true) (embed k kv.1, embed v kv.2)) kvs with
        | error er => rw [hc] at hb; cases hb
        | ok cells =>
          rw [hc] at hb
          simp only [frame] at hb
          cases hb
          rw [readCount_be32 _ _ (by omega)]
          have := mapG_rt (fun o => deserCarrier u fl k kt o) (fun o => deserCarrier u fl v vt o)
            (fun y => embed k y) (fun y => embed v y) (fun k' => encSpec kt k' true) (fun v' => encSpec vt v' true)
            kvs cells []
            (fun kv hkv =>
              ⟨fun cell hcell => item_of_trt u fl k kt kv.1
                  (trt u fl k kt kv.1 (hwt kv.1 kv.2 hkv).1 htc.1 (hrt kv hkv).1) cell hcell,
               fun cell hcell => item_of_trt u fl v vt kv.2
                  (trt u fl v vt kv.2 (hwt kv.1 kv.2 hkv).2 htc.2 (hrt kv hkv).2) cell hcell⟩) hc
          rw [List.append_nil] at this
          simp only [this, collectMap_canon fl kvs hcanon]
    | native n => simp [tcheck] at htc
    | list e => simp [tcheck] at htc
    | set e => simp [tcheck] at htc
    | vector e d => simp [tcheck] at htc
    | tuple ts => simp [tcheck] at htc
    | udt a b d => simp [tcheck] at htc
  | .tuple cs => by
    intro t x hwt htc hrt
    cases x <;> simp [wtVal] at hwt
    rename_i xs
    cases t with
    | tuple ts =>
      simp only [tcheck] at htc
      simp only [rtOk] at hrt
      refine ⟨by simp [embed], fun h => by simp [embed] at h, ?_⟩
      intro body hb _
      simp only [embed] at hb
      rw [encSpec] at hb
      have hl : ¬ (ts.length < (embedTuple cs xs).length) := by
        rw [CarrierFactor.embedTuple_length cs xs hwt, tcheckTuple_length cs ts htc]; omega
      simp only [viewOf, hl, if_false] at hb
      simp only [deserCarrier]
      cases hc : encTupleSpec ts (embedTuple cs xs) with
      | error er => rw [hc] at hb; cases hb
      | ok cells =>
        rw [hc] at hb
        simp only [frame] at hb
        cases hb
        simp only [trtTuple u fl cs ts xs body hwt htc hrt hc]
    | native n => simp [tcheck] at htc
    | list e => simp [tcheck] at htc
    | set e => simp [tcheck] at htc
    | vector e d => simp [tcheck] at htc
    | map a b => simp [tcheck] at htc
    | udt a b d => simp [tcheck] at htc
  | .dyn => by intro t x _ _ hrt; simp [rtOk] at hrt
theorem trtTuple (u : Bytes → Bool) (fl : Flavour) : ∀ cs : List Carrier, TRTTuple u fl cs
  | [] => by
    intro ts xs cells hwt htc _ _
    cases xs with
    | nil => cases ts <;> simp [deserTuple]
    | cons x xs => simp [wtTuple] at hwt
  | c :: cs => by
    intro ts xs cells hwt htc hrt hc
    cases xs with
    | nil => simp [wtTuple] at hwt
    | cons x xs =>
      cases ts with
      | nil => simp [tcheckTuple] at htc
      | cons t ts =>
        simp only [wtTuple, Bool.and_eq_true] at hwt
        simp only [tcheckTuple, Bool.and_eq_true] at htc
        simp only [rtOkTuple, Bool.and_eq_true] at hrt
        simp only [embedTuple] at hc
        rw [encTupleSpec] at hc
        cases h1 : encSpec t (embed c x) true with
        | error er => rw [h1] at hc; cases hc
        | ok c1 =>
          rw [h1] at hc
          simp only at hc
          cases hr : encTupleSpec ts (embedTuple cs xs) with
          | error er => rw [hr] at hc; cases hc
          | ok r =>
            rw [hr] at hc
            cases hc
            obtain ⟨o, hread, hf⟩ := item_of_trt u fl c t x (trt u fl c t x hwt.1 htc.1 hrt.1) c1 h1 r
            have hne := readCqlBytes_ok_nonempty _ _ hread
            simp only at hf
            simp only [deserTuple, hne, Bool.false_eq_true, if_false, hread, hf,
              trtTuple u fl cs ts xs r hwt.2 htc.2 hrt.2 hr]
end

end ScyllaVerif.Proofs.TypedRT

import ScyllaVerif.Proofs.CustomNP
/-
C08 — the termination fuel of the custom type string parser is never exhausted, and its "impossible" arms are
unreachable: the model's `loopfuel` / `impossible` error kinds are never produced, so the fuel is a pure
termination device and not a behaviour of the model that the code lacks.
Key fact: every successful `do_parse` on a non-empty input consumes at least one scalar.
-/
namespace ScyllaVerif.C08

/-! ### consumption -/

theorem dropWhile_len (p : CU → Bool) (s : Str) : (s.dropWhile p).length ≤ s.length := by
  induction s with
  | nil => simp
  | cons a t ih => simp only [List.dropWhile_cons]; split <;> simp <;> omega

theorem skipWhite_len (s : Str) : (skipWhite s).length ≤ s.length := dropWhile_len _ s

theorem accept_len (c : UInt8) (s s' : Str) (h : accept c s = some s') : s'.length + 1 = s.length := by
  unfold accept at h
  cases s with
  | nil => cases h
  | cons u rest =>
    simp only at h
    split at h
    · injection h with h; subst h; simp
    · cases h

theorem skipBlankComma_len (s : Str) : (skipBlankComma s).length ≤ s.length := by
  unfold skipBlankComma
  simp only []
  have h1 := skipWhite_len s
  split
  · rename_i s' h
    have := accept_len _ _ _ h
    have := skipWhite_len s'
    omega
  · exact h1

theorem takeWhile_dropWhile_len (p : CU → Bool) (s : Str) :
    (s.takeWhile p).length + (s.dropWhile p).length = s.length := by
  induction s with
  | nil => simp
  | cons a t ih =>
    simp only [List.takeWhile_cons, List.dropWhile_cons]
    split <;> simp <;> omega

theorem readIdent_len (s : Str) : (readIdent s).1.length + (readIdent s).2.length = s.length :=
  takeWhile_dropWhile_len _ s

theorem parseU16_len (s : Str) (v : Nat) (s' : Str) (h : parseU16 s = some (v, s')) : s'.length ≤ s.length := by
  unfold parseU16 at h
  simp only [] at h
  split at h
  · cases h
  · injection h with h; injection h with _ h2; subst h2; exact dropWhile_len _ s

/-- `parse` only consumes, and consumes something from a non-empty input. -/
def Shr (parse : CtParse) : Prop :=
  ∀ fr s t s', parse fr s = .ok (t, s') → s'.length ≤ s.length ∧ (s ≠ [] → s'.length < s.length)

theorem paramsLoop_len (parse : CtParse) (hs : Shr parse) (fr : Bool) :
    ∀ (n : Nat) (s : Str), (paramsLoop parse fr n s).2.length ≤ s.length
  | 0, s => by simp [paramsLoop]
  | n + 1, s => by
    unfold paramsLoop
    simp only []
    have h0 := skipBlankComma_len s
    split
    · exact h0
    · split
      · rename_i s' h; have := accept_len _ _ _ h; simp only []; omega
      · split
        · exact h0
        · rename_i t s' he
          have h1 := (hs fr _ t s' he).1
          have h2 := paramsLoop_len parse hs fr n s'
          simp only []
          omega

theorem typeParameters_len (parse : CtParse) (hs : Shr parse) (fr : Bool) (s : Str) (items : List (CtRes Ty))
    (s' : Str) (h : typeParameters parse fr s = .ok (items, s')) : s'.length ≤ s.length := by
  unfold typeParameters at h
  split at h
  · injection h with h; injection h with _ h2; subst h2; exact Nat.le_refl _
  · split at h
    · cases h
    · rename_i s1 ha
      injection h with h
      have h1 := accept_len _ _ _ ha
      have h2 := paramsLoop_len parse hs fr (s1.length + 1) s1
      rw [h] at h2
      simp only at h2
      omega

theorem nTypeParameters_len (parse : CtParse) (hs : Shr parse) (fr : Bool) (n : Nat) (s : Str)
    (items : List (CtRes Ty)) (s' : Str) (h : nTypeParameters parse fr n s = .ok (items, s')) :
    s'.length ≤ s.length := by
  unfold nTypeParameters at h
  cases ht : typeParameters parse fr s with
  | error e => rw [ht] at h; cases h
  | ok p =>
    obtain ⟨i2, s2⟩ := p
    rw [ht] at h
    simp only at h
    split at h
    · injection h with h; injection h with _ h2; subst h2
      exact typeParameters_len parse hs fr s i2 s2 ht
    · cases h

theorem udtFields_len (parse : CtParse) (hs : Shr parse) (fr : Bool) :
    ∀ (n : Nat) (s : Str) (r : List (Bytes × Ty)) (s' : Str), udtFields parse fr n s = .ok (r, s') →
      s'.length ≤ s.length
  | 0, _, _, _, h => by simp [udtFields] at h
  | n + 1, s, r, s', h => by
    unfold udtFields at h
    simp only [] at h
    have h0 := skipBlankComma_len s
    split at h
    · cases h
    · split at h
      · rename_i s1 ha
        injection h with h; injection h with _ h2; subst h2
        have := accept_len _ _ _ ha; omega
      · have hri := readIdent_len (skipBlankComma s)
        split at h
        · cases h
        · split at h
          · cases h
          · rename_i s2 hc
            have h2 := accept_len _ _ _ hc
            split at h
            · cases h
            · rename_i t s3 hp
              have h3 := (hs fr s2 t s3 hp).1
              split at h
              · cases h
              · rename_i r' s4 hu
                injection h with h; injection h with _ h5; subst h5
                have h4 := udtFields_len parse hs fr n s3 r' s4 hu
                omega

theorem oneParam_len (parse : CtParse) (hs : Shr parse) (fr : Bool) (s : Str) (t : Ty) (s' : Str)
    (h : oneParam parse fr s = .ok (t, s')) : s'.length ≤ s.length := by
  unfold oneParam at h
  split at h
  · rename_i t' s2 he
    injection h with h; injection h with _ h2; subst h2
    exact nTypeParameters_len parse hs fr 1 s _ _ he
  · cases h
  · cases h
  · cases h

theorem complexType_len (parse : CtParse) (hs : Shr parse) (fr : Bool) (name : Bytes) (s : Str) (t : Ty) (s' : Str)
    (h : complexType parse fr name s = .ok (t, s')) : s'.length ≤ s.length := by
  unfold complexType at h
  simp only [] at h
  split at h
  · split at h
    · rename_i t' s2 he
      injection h with h; injection h with _ h2; subst h2
      exact oneParam_len parse hs fr s _ _ he
    · cases h
  · split at h
    · split at h
      · rename_i t' s2 he
        injection h with h; injection h with _ h2; subst h2
        exact oneParam_len parse hs fr s _ _ he
      · cases h
    · split at h
      · split at h
        · rename_i k v s2 he
          injection h with h; injection h with _ h2; subst h2
          exact nTypeParameters_len parse hs fr 2 s _ _ he
        · cases h
        · cases h
        · cases h
        · cases h
      · split at h
        · split at h
          · cases h
          · rename_i items s2 he
            split at h
            · cases h
            · cases h
            · injection h with h; injection h with _ h2; subst h2
              exact typeParameters_len parse hs fr s _ _ he
        · split at h
          · split at h
            · cases h
            · rename_i s1 ha
              have h1 := accept_len _ _ _ ha
              have h2 := skipBlankComma_len s1
              split at h
              · cases h
              · split at h
                · cases h
                · rename_i t' s3 hp
                  have h3 := (hs fr _ t' s3 hp).1
                  have h4 := skipBlankComma_len s3
                  split at h
                  · cases h
                  · rename_i dim s4 hu
                    have h5 := parseU16_len _ _ _ hu
                    split at h
                    · cases h
                    · split at h
                      · cases h
                      · rename_i s5 hr
                        injection h with h; injection h with _ h6; subst h6
                        have := accept_len _ _ _ hr
                        omega
          · split at h
            · split at h
              · cases h
              · rename_i s1 ha
                have h1 := accept_len _ _ _ ha
                have h2 := skipBlankComma_len s1
                have h3 := readIdent_len (skipBlankComma s1)
                have h4 := skipBlankComma_len (readIdent (skipBlankComma s1)).2
                have h5 := readIdent_len (skipBlankComma (readIdent (skipBlankComma s1)).2)
                split at h
                · cases h
                · split at h
                  · cases h
                  · rename_i fields s4 hu
                    injection h with h; injection h with _ h6; subst h6
                    have := udtFields_len parse hs fr _ _ _ _ hu
                    omega
            · split at h
              · exact oneParam_len parse hs true s _ _ h
              · cases h

theorem doParse_shr : ∀ fuel, Shr (doParse fuel)
  | 0 => by intro fr s t s' h; simp [doParse] at h
  | fuel + 1 => by
    intro fr s t s' h
    have ih := doParse_shr fuel
    unfold doParse at h
    simp only [] at h
    have hw := skipWhite_len s
    have hri := readIdent_len (skipWhite s)
    split at h
    · -- empty name
      rename_i hne
      split at h
      · cases h
      · rename_i he
        injection h with h; injection h with _ h2; subst h2
        have hz : (readIdent (skipWhite s)).2 = [] := by simpa using he
        refine ⟨by rw [hz]; simp, fun hs => ?_⟩
        rw [hz]; simp only [List.length_nil]
        exact List.length_pos_iff.mpr hs
    · rename_i hne
      have hpos : 0 < (readIdent (skipWhite s)).1.length := by
        apply List.length_pos_iff.mpr
        intro hh; apply hne; simp [hh]
      split at h
      · cases h
      · rename_i name s2 hr
        -- `s2` is what is left after the name (and the optional prefix)
        have hs2 : s2.length + 1 ≤ s.length := by
          split at hr
          · rename_i sc hc
            have hacc : sc.length + 1 = (readIdent (skipWhite s)).2.length := accept_len _ _ _ hc
            split at hr
            · injection hr with hr; injection hr with _ h2; subst h2
              have hdl := dropWhile_len CU.isIdent sc
              show (List.dropWhile CU.isIdent sc).length + 1 ≤ s.length
              omega
            · cases hr
          · injection hr with hr; injection hr with _ h2; subst h2; omega
        have hw3 := skipWhite_len s2
        split at h
        · have := complexType_len (doParse fuel) ih fr _ _ t s' h
          exact ⟨by omega, fun _ => by omega⟩
        · split at h
          · injection h with h; injection h with _ h2; subst h2
            exact ⟨by omega, fun _ => by omega⟩
          · cases h

/-! ### the fuel errors are never produced -/

/-- The result is not a model-only fuel error. -/
def NF (r : CtRes α) : Prop := ∀ w, r ≠ .error (.fuel w)

theorem nf_ok (a : α) : NF (.ok a : CtRes α) := fun _ h => by cases h
theorem nf_kind (k : String) : NF (.error (.kind k) : CtRes α) := fun _ h => by cases h
theorem nf_panic (k : String) : NF (.error (.panic k) : CtRes α) := fun _ h => by cases h
theorem nf_fwd {r : CtRes α} {e : CtErr} (h : NF r) (he : r = .error e) : NF (.error e : CtRes β) := by
  intro w hh; injection hh with hh; exact h w (by rw [he, hh])

macro "nf_leaf" : tactic => `(tactic| first | exact nf_ok _ | exact nf_kind _ | exact nf_panic _)

def PNF (parse : CtParse) : Prop := ∀ fr s, NF (parse fr s)

theorem hexChunks_nf : ∀ s : Bytes, NF (hexChunks s)
  | [] => by unfold hexChunks; nf_leaf
  | [_] => by unfold hexChunks; nf_leaf
  | a :: b :: rest => by
    unfold hexChunks
    split
    · nf_leaf
    · split
      · nf_leaf
      · have ih := hexChunks_nf rest
        split
        · nf_leaf
        · rename_i e he; exact nf_fwd ih he

theorem fromHexUtf8_nf (s : Bytes) : NF (fromHexUtf8 s) := by
  unfold fromHexUtf8
  split
  · nf_leaf
  · split
    · nf_leaf
    · split
      · rename_i e he; exact nf_fwd (hexChunks_nf s) he
      · split <;> nf_leaf

theorem simpleType_nf (n : Bytes) : NF (simpleType n) := by
  unfold simpleType; simp only []; split <;> nf_leaf

/-- With enough fuel (more than the scalars left) the parameter loop never runs out. -/
theorem paramsLoop_nf (parse : CtParse) (hs : Shr parse) (hp : PNF parse) (fr : Bool) :
    ∀ (n : Nat) (s : Str), s.length < n → ∀ r ∈ (paramsLoop parse fr n s).1, NF r
  | 0, s, h => by omega
  | n + 1, s, h => by
    intro r hr
    unfold paramsLoop at hr
    simp only [] at hr
    have h0 := skipBlankComma_len s
    split at hr
    · simp only [List.mem_singleton] at hr; subst hr; nf_leaf
    · rename_i hne
      split at hr
      · simp at hr
      · split at hr
        · rename_i e he
          simp only [List.mem_singleton] at hr; subst hr
          exact nf_fwd (hp fr _) he
        · rename_i t s' he
          simp only [List.mem_cons] at hr
          rcases hr with rfl | hr
          · nf_leaf
          · have hne' : skipBlankComma s ≠ [] := by intro hh; apply hne; simp [hh]
            have := (hs fr _ t s' he).2 hne'
            exact paramsLoop_nf parse hs hp fr n s' (by omega) r hr

theorem typeParameters_nf (parse : CtParse) (hs : Shr parse) (hp : PNF parse) (fr : Bool) (s : Str) :
    NF (typeParameters parse fr s) ∧ ∀ items s', typeParameters parse fr s = .ok (items, s') → ∀ r ∈ items, NF r := by
  unfold typeParameters
  split
  · exact ⟨nf_ok _, by intro items s' h; injection h with h; injection h with h1 _; subst h1; simp⟩
  · split
    · exact ⟨nf_kind _, by intro items s' h; cases h⟩
    · rename_i s1 _
      refine ⟨nf_ok _, ?_⟩
      intro items s' h
      injection h with h
      have := paramsLoop_nf parse hs hp fr (s1.length + 1) s1 (by omega)
      rw [h] at this; exact this

theorem nTypeParameters_nf (parse : CtParse) (hs : Shr parse) (hp : PNF parse) (fr : Bool) (n : Nat) (s : Str) :
    NF (nTypeParameters parse fr n s) ∧
    ∀ items s', nTypeParameters parse fr n s = .ok (items, s') → items.length = n ∧ ∀ r ∈ items, NF r := by
  have ⟨h1, h2⟩ := typeParameters_nf parse hs hp fr s
  unfold nTypeParameters
  cases ht : typeParameters parse fr s with
  | error e => rw [ht] at h1; exact ⟨nf_fwd h1 rfl, by intro items s' h; cases h⟩
  | ok p =>
    obtain ⟨items, s'⟩ := p
    simp only []
    split
    · rename_i hl
      refine ⟨nf_ok _, ?_⟩
      intro i2 s2 h; injection h with h; injection h with e1 _; subst e1
      exact ⟨hl, h2 items s' ht⟩
    · exact ⟨nf_kind _, by intro items s' h; cases h⟩

theorem collectOk_nf : ∀ (items : List (CtRes Ty)), (∀ r ∈ items, NF r) → NF (collectOk items)
  | [], _ => by unfold collectOk; nf_leaf
  | .error e :: rest, h => by
    unfold collectOk
    exact nf_fwd (h (.error e) List.mem_cons_self) rfl
  | .ok t :: rest, h => by
    unfold collectOk
    have ih := collectOk_nf rest (fun r hr => h r (List.mem_cons_of_mem _ hr))
    split
    · nf_leaf
    · rename_i e he; exact nf_fwd ih he

theorem udtFields_nf (parse : CtParse) (hs : Shr parse) (hp : PNF parse) (fr : Bool) :
    ∀ (n : Nat) (s : Str), s.length < n → NF (udtFields parse fr n s)
  | 0, s, h => by omega
  | n + 1, s, h => by
    unfold udtFields
    simp only []
    have h0 := skipBlankComma_len s
    split
    · nf_leaf
    · split
      · nf_leaf
      · have hri := readIdent_len (skipBlankComma s)
        split
        · rename_i e he; exact nf_fwd (fromHexUtf8_nf _) he
        · split
          · nf_leaf
          · rename_i s2 hc
            have hacc : s2.length + 1 = (readIdent (skipBlankComma s)).2.length := accept_len _ _ _ hc
            split
            · rename_i e he; exact nf_fwd (hp _ _) he
            · rename_i t s3 hpk
              have h3 := (hs fr s2 t s3 hpk).1
              have ih := udtFields_nf parse hs hp fr n s3 (by omega)
              split
              · rename_i e he; exact nf_fwd ih he
              · nf_leaf

theorem oneParam_nf (parse : CtParse) (hs : Shr parse) (hp : PNF parse) (fr : Bool) (s : Str) :
    NF (oneParam parse fr s) := by
  have ⟨h1, h2⟩ := nTypeParameters_nf parse hs hp fr 1 s
  unfold oneParam
  split
  · nf_leaf
  · rename_i e s' he
    exact nf_fwd ((h2 _ _ he).2 (.error e) (by simp)) rfl
  · -- the "impossible" arm: a list of exactly one item is `[ok _]` or `[error _]`
    rename_i x hx1 hx2 hx3
    exfalso
    obtain ⟨items, s'⟩ := x
    have hl := (h2 items s' hx3).1
    match items, hl with
    | [.ok t], _ => exact hx1 t s' rfl
    | [.error e], _ => exact hx2 e s' rfl
  · rename_i e he; exact nf_fwd h1 he

theorem complexType_nf (parse : CtParse) (hs : Shr parse) (hp : PNF parse) (fr : Bool) (name : Bytes) (s : Str) :
    NF (complexType parse fr name s) := by
  unfold complexType
  simp only []
  split
  · have := oneParam_nf parse hs hp fr s
    split
    · nf_leaf
    · rename_i e he; exact nf_fwd this he
  · split
    · have := oneParam_nf parse hs hp fr s
      split
      · nf_leaf
      · rename_i e he; exact nf_fwd this he
    · split
      · have ⟨h1, h2⟩ := nTypeParameters_nf parse hs hp fr 2 s
        split
        · nf_leaf
        · rename_i e x s' he; exact nf_fwd ((h2 _ _ he).2 (.error e) (by simp)) rfl
        · rename_i t e s' he; exact nf_fwd ((h2 _ _ he).2 (.error e) (by simp)) rfl
        · -- "impossible": two items are `[ok, ok]`, `[error, _]` or `[ok, error]`
          rename_i x hx1 hx2 hx3 hx4
          exfalso
          obtain ⟨items, s'⟩ := x
          have hl := (h2 items s' hx4).1
          match items, hl with
          | [.ok k, .ok v], _ => exact hx1 k v s' rfl
          | [.error e, y], _ => exact hx2 e y s' rfl
          | [.ok k, .error e], _ => exact hx3 k e s' rfl
        · rename_i e he; exact nf_fwd h1 he
      · split
        · have ⟨h1, h2⟩ := typeParameters_nf parse hs hp fr s
          split
          · rename_i e he; exact nf_fwd h1 he
          · rename_i items s' he
            have hc := collectOk_nf items (h2 items s' he)
            split
            · rename_i e he2; exact nf_fwd hc he2
            · nf_leaf
            · nf_leaf
        · split
          · split
            · nf_leaf
            · split
              · nf_leaf
              · split
                · rename_i e he; exact nf_fwd (hp _ _) he
                · split
                  · nf_leaf
                  · split
                    · nf_leaf
                    · split <;> nf_leaf
          · split
            · split
              · nf_leaf
              · rename_i s1 ha
                split
                · rename_i e he; exact nf_fwd (fromHexUtf8_nf _) he
                · split
                  · rename_i e he
                    exact nf_fwd (udtFields_nf parse hs hp fr _ _ (by omega)) he
                  · nf_leaf
            · split
              · exact oneParam_nf parse hs hp true s
              · nf_leaf

theorem doParse_nf : ∀ fuel, PNF (doParse fuel)
  | 0 => by intro fr s; unfold doParse; nf_leaf
  | fuel + 1 => by
    intro fr s
    have ih := doParse_nf fuel
    have ihs := doParse_shr fuel
    unfold doParse
    simp only []
    split
    · split <;> nf_leaf
    · split
      · rename_i e he
        split at he
        · split at he
          · cases he
          · injection he with he; subst he; nf_leaf
        · cases he
      · split
        · exact complexType_nf _ ihs ih fr _ _
        · split
          · nf_leaf
          · rename_i e he; exact nf_fwd (simpleType_nf _) he

/-- The model-only error kinds (`loop` fuel exhausted, `impossible` arm) are never produced: the fuel of the
parameter / field loops (`remaining scalars + 1`) always suffices because every successful item consumes at least
one scalar, and the arms marked impossible are. -/
theorem customParse_nf (uni : List (Bytes × UCls)) (s : Bytes) : NF (customParse uni s) := by
  unfold customParse
  have := doParse_nf MAX_TYPE_NESTING_DEPTH false (toStr uni s)
  split
  · nf_leaf
  · rename_i e he; exact nf_fwd this he

end ScyllaVerif.C08

import ScyllaVerif.Model.Codec
import ScyllaVerif.Proofs.Vint
import ScyllaVerif.Proofs.CodecEnc
/-!
Helper lemmas for C01, decoder side: reading back `[bytes]` cells and counts, the relation between the
framed (`ws = true`) and bare (`ws = false`) specification encodings, and the round trip
`decVal (encSpec v) = pad v` on `wfVal` by mutual structural induction over the type.
-/
namespace ScyllaVerif.Proofs.CodecDec
open ScyllaVerif.Vint ScyllaVerif.Cql ScyllaVerif.Codec ScyllaVerif.Proofs.Vint ScyllaVerif.Proofs.CodecEnc

theorem i32Max_lt : i32Max < 256 ^ 4 := by decide

theorem beNat_be32 (n : Nat) (h : n ≤ i32Max) : beNat (be32 n) = n := by
  unfold be32
  rw [beNat_beBytes]
  have := i32Max_lt
  exact Nat.mod_eq_of_lt (by omega)

theorem take_be32 (n : Nat) (r : Bytes) : (be32 n ++ r).take 4 = be32 n := by
  have := be32_length n
  rw [List.take_left' this]

theorem drop_be32 (n : Nat) (r : Bytes) : (be32 n ++ r).drop 4 = r := by
  have := be32_length n
  rw [List.drop_left' this]

/-- Reading back a framed cell. -/
theorem readCqlBytes_cell (body rest : Bytes) (h : body.length ≤ i32Max) :
    readCqlBytes (be32 body.length ++ body ++ rest) = .ok (some body, rest) := by
  unfold readCqlBytes
  have h4 : ¬ ((be32 body.length ++ body ++ rest).length < 4) := by
    simp [List.length_append, be32_length]
  rw [if_neg h4, List.append_assoc, take_be32, drop_be32, beNat_be32 _ h]
  have h1 : ¬ (body.length > i32Max) := by omega
  have h2 : ¬ ((body ++ rest).length < body.length) := by simp [List.length_append]
  simp only [h1, h2, if_false]
  rw [List.take_left' rfl, List.drop_left' rfl]

theorem readCqlBytes_null (rest : Bytes) : readCqlBytes (nullBytes ++ rest) = .ok (none, rest) := by
  have h : ¬ (rest.length + 1 + 1 + 1 + 1 < 4) := by omega
  simp [readCqlBytes, nullBytes, beNat, i32Max, h]

theorem readCount_be32 (n : Nat) (rest : Bytes) (h : n ≤ i32Max) :
    readCount (be32 n ++ rest) = .ok (n, rest) := by
  unfold readCount
  have h4 : ¬ ((be32 n ++ rest).length < 4) := by
    simp [List.length_append, be32_length]
  rw [if_neg h4, take_be32, drop_be32, beNat_be32 _ h]
  have h1 : ¬ (n > i32Max) := by omega
  simp [h1]

/-- `frame true` succeeded: the cell is `length ++ body` with a length that fits. -/
theorem frame_true_ok (body cell : Bytes) (h : frame true body = .ok cell) :
    body.length ≤ i32Max ∧ cell = be32 body.length ++ body := by
  unfold frame at h
  simp only [if_true] at h
  split at h
  · cases h
  · cases h; exact ⟨by omega, rfl⟩

theorem frameChecked_true_ok (body cell : Bytes) (h : frameChecked true body = .ok cell) :
    body.length ≤ i32Max ∧ cell = be32 body.length ++ body ∧ frameChecked false body = .ok body := by
  unfold frameChecked at h ⊢
  split at h
  · cases h
  · rename_i hl
    simp only [if_true] at h
    cases h
    exact ⟨by omega, rfl, by simp [hl]⟩

/-- What a framed encoding is, in terms of the bare one. -/
def Framed (bare : Except SerErr Bytes) (cell : Bytes) : Prop :=
  ∃ body, bare = .ok body ∧ body.length ≤ i32Max ∧ cell = be32 body.length ++ body

theorem framed_frame (body cell : Bytes) (h : frame true body = .ok cell) : Framed (frame false body) cell := by
  obtain ⟨h1, h2⟩ := frame_true_ok body cell h
  exact ⟨body, rfl, h1, h2⟩

theorem framed_frameChecked (body cell : Bytes) (h : frameChecked true body = .ok cell) :
    Framed (frameChecked false body) cell := by
  obtain ⟨h1, h2, h3⟩ := frameChecked_true_ok body cell h
  exact ⟨body, h3, h1, h2⟩

/-- Generic shape of every branch of `encSpec`: an intermediate result followed by `frame`. -/
theorem framed_bind {α : Type} (r : Except SerErr α) (k : α → Bytes) (cell : Bytes)
    (h : (match r with | .error e => (.error e : Except SerErr Bytes) | .ok x => frame true (k x)) = .ok cell) :
    Framed (match r with | .error e => (.error e : Except SerErr Bytes) | .ok x => frame false (k x)) cell := by
  cases r with
  | error e => cases h
  | ok x => exact framed_frame _ _ h

/-- For a non-null, non-unset value the framed encoding is `length ++` the bare encoding. -/
theorem encSpec_cell (t : CqlTy) (v : CqlVal) (cell : Bytes) (h : encSpec t v true = .ok cell)
    (hn : ∀ w, viewOf v = w → (match w with | .null => False | .unset => False | _ => True)) :
    Framed (encSpec t v false) cell := by
  rw [encSpec] at h ⊢
  have hn' := hn _ rfl
  generalize viewOf v = w at h hn' ⊢
  cases w with
  | null => exact hn'.elim
  | unset => exact hn'.elim
  | empty =>
    simp only at h ⊢
    split at h
    · rename_i hs; simp only [hs, if_true]; exact framed_frameChecked _ _ h
    · cases h
  | scalar acc body viaB =>
    simp only [encScalarSpec] at h ⊢
    cases t with
    | native n =>
      simp only at h ⊢
      split at h
      · rename_i hs
        simp only [hs, if_true]
        cases viaB
        · exact framed_frameChecked _ _ h
        · exact framed_frame _ _ h
      · cases h
    | _ => cases h
  | seq vs =>
    cases t with
    | list elt =>
      simp only at h ⊢
      split at h
      · cases h
      · rename_i hs; simp only [hs, if_false]
        generalize concatEnc (fun v => encSpec elt v true) vs = r at h ⊢
        cases r with
        | error e => cases h
        | ok c => exact framed_frame _ _ h
    | set elt =>
      simp only at h ⊢
      split at h
      · cases h
      · rename_i hs; simp only [hs, if_false]
        generalize concatEnc (fun v => encSpec elt v true) vs = r at h ⊢
        cases r with
        | error e => cases h
        | ok c => exact framed_frame _ _ h
    | vector elt dim =>
      simp only at h ⊢
      split at h
      · cases h
      · rename_i hs
        simp only [hs, if_false]
        cases hsz : elt.sizeForVector with
        | some sz =>
          simp only [hsz] at h ⊢
          generalize concatEnc (fun v => encSpec elt v false) vs = r at h ⊢
          cases r with
          | error e => cases h
          | ok c => exact framed_frame _ _ h
        | none =>
          simp only [hsz] at h ⊢
          generalize concatEnc (varElemSpec (fun v => encSpec elt v false)) vs = r at h ⊢
          cases r with
          | error e => cases h
          | ok c => exact framed_frame _ _ h
    | _ => cases h
  | map kvs =>
    cases t with
    | map kt vt =>
      simp only at h ⊢
      split at h
      · cases h
      · rename_i hs; simp only [hs, if_false]
        generalize concatEnc (pairSpec (fun k => encSpec kt k true) (fun v => encSpec vt v true)) kvs = r at h ⊢
        cases r with
        | error e => cases h
        | ok c => exact framed_frame _ _ h
    | _ => cases h
  | tuple fs =>
    cases t with
    | tuple ts =>
      simp only at h ⊢
      split at h
      · cases h
      · rename_i hs; simp only [hs, if_false]
        generalize encTupleSpec ts fs = r at h ⊢
        cases r with
        | error e => cases h
        | ok c => exact framed_frame _ _ h
    | _ => cases h
  | udt ks name m =>
    cases t with
    | udt dks dname fields =>
      simp only at h ⊢
      split at h
      · cases h
      · rename_i hs
        simp only [hs, if_false]
        cases hr : encUdtSpec fields m with
        | error e => rw [hr] at h; cases h
        | ok r =>
          obtain ⟨c, l⟩ := r
          rw [hr] at h
          simp only at h ⊢
          split at h
          · cases h
          · rename_i hl; simp only [hl, if_false]; exact framed_frame _ _ h
    | _ => cases h

/-! ### natives -/

theorem beNat_bv {w : Nat} (k : Nat) (x : BitVec w) (h : 2 ^ w = 256 ^ k) :
    BitVec.ofNat w (beNat (beBytes k x.toNat)) = x := by
  rw [beNat_beBytes, ← h, Nat.mod_eq_of_lt x.isLt, BitVec.ofNat_toNat, BitVec.setWidth_eq]

theorem beNat_bv' {w : Nat} (k : Nat) (x : BitVec w) (h : 2 ^ w = 256 ^ k) :
    beNat (beBytes k x.toNat) = x.toNat := by
  rw [beNat_beBytes, ← h, Nat.mod_eq_of_lt x.isLt]

theorem beBytes_ne_nil (k v : Nat) (hk : 0 < k) : (beBytes k v).isEmpty = false := by
  cases k with
  | zero => omega
  | succ k => simp [beBytes]

theorem setWidth_signExtend (m : BitVec 32) : (m.signExtend 64).setWidth 32 = m := by
  apply BitVec.eq_of_getLsbD_eq
  intro i hi
  simp [BitVec.getLsbD_signExtend, hi]
  omega

theorem fitsI32_signExtend (m : BitVec 32) : fitsI32 (m.signExtend 64) = true := by
  simp [fitsI32, setWidth_signExtend]

theorem vintEnc_ne_nil (v : BitVec 64) : vintEnc v ≠ [] := by
  have := (uvintEnc_length (zigzagEnc v)).1
  unfold vintEnc
  intro h
  rw [h] at this
  simp at this

/-- Every well-formed native value: its view is a scalar accepted by the type, its content decodes back to
the value, and the content is empty only for the empty string / blob. -/
theorem native_rt (u : Bytes → Bool) (n : NativeTy) (v : CqlVal) (h : wfNative u n v = true) :
    ∃ acc b viaB, viewOf v = .scalar acc b viaB ∧ acc.contains n = true ∧
      decVal u (.native n) b = .ok v ∧ (b = [] → zeroLenBody v = true) := by
  cases n with
  | ascii =>
    cases v <;> simp [wfNative] at h
    rename_i s
    refine ⟨_, _, _, rfl, by decide, ?_, ?_⟩
    · rw [decVal]
      simp [CqlTy.isStringLike, decNative, h.2]
      exact h.1
    · intro hs; subst hs; rfl
  | text =>
    cases v <;> simp [wfNative] at h
    rename_i s
    refine ⟨_, _, _, rfl, by decide, ?_, ?_⟩
    · rw [decVal]
      simp [CqlTy.isStringLike, decNative, h]
    · intro hs; subst hs; rfl
  | blob =>
    cases v <;> simp [wfNative] at h
    rename_i s
    refine ⟨_, _, _, rfl, by decide, ?_, ?_⟩
    · rw [decVal]
      simp [CqlTy.isStringLike, decNative]
    · intro hs; subst hs; rfl
  | boolean =>
    cases v <;> simp [wfNative] at h
    rename_i b
    refine ⟨_, _, _, rfl, by decide, ?_, by simp⟩
    rw [decVal]
    cases b <;> simp [decNative, beNat, CqlTy.isStringLike]
  | tinyint =>
    cases v <;> simp [wfNative] at h
    rename_i x
    refine ⟨_, _, _, rfl, by decide, ?_, by simp [beBytes]⟩
    rw [decVal]
    simp [beBytes_ne_nil, decNative, fixed, beBytes_length, beNat_bv 1 x (by decide)]
  | smallint =>
    cases v <;> simp [wfNative] at h
    rename_i x
    refine ⟨_, _, _, rfl, by decide, ?_, by simp [beBytes]⟩
    rw [decVal]
    simp [beBytes_ne_nil, decNative, fixed, beBytes_length, beNat_bv 2 x (by decide)]
  | int =>
    cases v <;> simp [wfNative] at h
    rename_i x
    refine ⟨_, _, _, rfl, by decide, ?_, by simp [beBytes]⟩
    rw [decVal]
    simp [beBytes_ne_nil, decNative, fixed, beBytes_length, beNat_bv 4 x (by decide)]
  | bigint =>
    cases v <;> simp [wfNative] at h
    rename_i x
    refine ⟨_, _, _, rfl, by decide, ?_, by simp [beBytes]⟩
    rw [decVal]
    simp [beBytes_ne_nil, decNative, fixed, beBytes_length, beNat_bv 8 x (by decide)]
  | counter =>
    cases v <;> simp [wfNative] at h
    rename_i x
    refine ⟨_, _, _, rfl, by decide, ?_, by simp [beBytes]⟩
    rw [decVal]
    simp [beBytes_ne_nil, decNative, fixed, beBytes_length, beNat_bv 8 x (by decide)]
  | float =>
    cases v <;> simp [wfNative] at h
    rename_i x
    refine ⟨_, _, _, rfl, by decide, ?_, by simp [beBytes]⟩
    rw [decVal]
    simp [beBytes_ne_nil, decNative, fixed, beBytes_length, beNat_bv 4 x (by decide)]
  | double =>
    cases v <;> simp [wfNative] at h
    rename_i x
    refine ⟨_, _, _, rfl, by decide, ?_, by simp [beBytes]⟩
    rw [decVal]
    simp [beBytes_ne_nil, decNative, fixed, beBytes_length, beNat_bv 8 x (by decide)]
  | date =>
    cases v <;> simp [wfNative] at h
    rename_i x
    refine ⟨_, _, _, rfl, by decide, ?_, by simp [beBytes]⟩
    rw [decVal]
    simp [beBytes_ne_nil, decNative, fixed, beBytes_length, beNat_bv 4 x (by decide)]
  | timestamp =>
    cases v <;> simp [wfNative] at h
    rename_i x
    refine ⟨_, _, _, rfl, by decide, ?_, by simp [beBytes]⟩
    rw [decVal]
    simp [beBytes_ne_nil, decNative, fixed, beBytes_length, beNat_bv 8 x (by decide)]
  | timeuuid =>
    cases v <;> simp [wfNative] at h
    rename_i x
    refine ⟨_, _, _, rfl, by decide, ?_, by simp [beBytes]⟩
    rw [decVal]
    simp [beBytes_ne_nil, decNative, fixed, beBytes_length, beNat_bv 16 x (by decide)]
  | uuid =>
    cases v <;> simp [wfNative] at h
    rename_i x
    refine ⟨_, _, _, rfl, by decide, ?_, by simp [beBytes]⟩
    rw [decVal]
    simp [beBytes_ne_nil, decNative, fixed, beBytes_length, beNat_bv 16 x (by decide)]
  | time =>
    cases v <;> simp [wfNative] at h
    rename_i x
    refine ⟨_, _, _, rfl, by decide, ?_, by simp [beBytes]⟩
    rw [decVal]
    simp [beBytes_ne_nil, decNative, beBytes_length, beNat_bv 8 x (by decide), beNat_bv' 8 x (by decide), h]
  | inet =>
    cases v <;> simp [wfNative] at h
    · rename_i x
      refine ⟨_, _, _, rfl, by decide, ?_, by simp [beBytes]⟩
      rw [decVal]
      simp [beBytes_ne_nil, decNative, beBytes_length, beNat_bv 4 x (by decide)]
    · rename_i x
      refine ⟨_, _, _, rfl, by decide, ?_, by simp [beBytes]⟩
      rw [decVal]
      simp [beBytes_ne_nil, decNative, beBytes_length, beNat_bv 16 x (by decide)]
  | varint =>
    cases v <;> simp [wfNative] at h
    rename_i b
    refine ⟨_, _, _, rfl, by decide, ?_, by intro hb; exact absurd hb h⟩
    rw [decVal]
    have : b.isEmpty = false := by simpa using h
    simp [this, decNative]
  | decimal =>
    cases v <;> simp [wfNative] at h
    rename_i sc b
    refine ⟨_, _, _, rfl, by decide, ?_, by simp [beBytes]⟩
    rw [decVal]
    have h4 := beBytes_length 4 sc.toNat
    have hne : (beBytes 4 sc.toNat ++ b).isEmpty = false := by simp [beBytes]
    have hlen : ¬ ((beBytes 4 sc.toNat ++ b).length < 4) := by simp [List.length_append, h4]
    simp only [hne, Bool.false_and, decNative, if_neg hlen]
    rw [List.take_left' h4, List.drop_left' h4, beNat_bv 4 sc (by decide)]
    rfl
  | duration =>
    cases v <;> simp [wfNative] at h
    rename_i m d ns
    refine ⟨_, _, _, rfl, by decide, ?_, ?_⟩
    · rw [decVal]
      have hne : (vintEnc (m.signExtend 64) ++ vintEnc (d.signExtend 64) ++ vintEnc ns).isEmpty = false := by
        have := vintEnc_ne_nil (m.signExtend 64)
        cases hx : vintEnc (m.signExtend 64) with
        | nil => exact absurd hx this
        | cons a l => simp
      simp only [hne, Bool.false_and, decNative]
      rw [List.append_assoc, vint_roundtrip]
      simp only [fitsI32_signExtend, Bool.not_true]
      rw [vint_roundtrip]
      simp only [fitsI32_signExtend, Bool.not_true]
      have := vint_roundtrip ns []
      rw [List.append_nil] at this
      rw [this]
      simp [setWidth_signExtend]
    · intro hb
      have := vintEnc_ne_nil (m.signExtend 64)
      cases hx : vintEnc (m.signExtend 64) with
      | nil => exact absurd hx this
      | cons a l => rw [hx] at hb; simp at hb

/-! ### round trip -/

/-- Round-trip statement at one type: the bare encoding of a well-formed value decodes to its normal form;
it is zero bytes long only for `empty` / the empty string / the empty blob. -/
def RT (u : Bytes → Bool) (t : CqlTy) : Prop :=
  ∀ (v : CqlVal) (body : Bytes), wfVal u t v = true → encSpec t v false = .ok body → body.length < 2 ^ 64 →
    decVal u t body = .ok (pad t v) ∧ (body = [] → zeroLenBody v = true)

theorem wf_not_null (u : Bytes → Bool) (t : CqlTy) (v : CqlVal) (h : wfVal u t v = true) :
    ∀ w, viewOf v = w → (match w with | .null => False | .unset => False | _ => True) := by
  intro w hw
  subst hw
  cases v <;> simp [viewOf]
  · rw [wfVal] at h; simp at h
  · rw [wfVal] at h; simp at h

theorem decVal_nil_nonstring (u : Bytes → Bool) (t : CqlTy) (h : t.isStringLike = false) :
    decVal u t [] = .ok .empty := by
  rw [decVal.eq_def]; simp [h]

theorem pad_empty_nonstring (t : CqlTy) (h : t.isStringLike = false) : pad t .empty = .empty := by
  cases t with
  | native n => cases n <;> first | (simp [CqlTy.isStringLike] at h; done) | (simp [pad])
  | _ => simp [pad]

theorem string_like_cases (t : CqlTy) (h : t.isStringLike = true) :
    t = .native .ascii ∨ t = .native .text ∨ t = .native .blob := by
  cases t with
  | native n => cases n <;> simp [CqlTy.isStringLike] at h <;> simp
  | _ => simp [CqlTy.isStringLike] at h

/-- The `empty` value round-trips at every type that admits it. -/
theorem rt_empty (u : Bytes → Bool) (t : CqlTy) (body : Bytes) (hw : wfVal u t .empty = true)
    (he : encSpec t .empty false = .ok body) :
    decVal u t body = .ok (pad t .empty) ∧ (body = [] → zeroLenBody .empty = true) := by
  rw [wfVal] at hw
  simp only [Bool.and_eq_true, Bool.or_eq_true, Bool.not_eq_true'] at hw
  rw [encSpec] at he
  simp only [viewOf, hw.1, if_true, frameChecked] at he
  simp [i32Max] at he
  subst he
  refine ⟨?_, fun _ => rfl⟩
  cases hs : t.isStringLike with
  | false => rw [decVal_nil_nonstring u t hs, pad_empty_nonstring t hs]
  | true =>
    have hu : u [] = true := by
      cases hw.2 with
      | inl h => rw [hs] at h; cases h
      | inr h => exact h
    rcases string_like_cases t hs with rfl | rfl | rfl
    · rw [decVal]; simp [pad, decNative, hu, CqlTy.isStringLike]
    · rw [decVal]; simp [pad, decNative, hu, CqlTy.isStringLike]
    · rw [decVal]; simp [pad, decNative, CqlTy.isStringLike]

/-- A well-formed element's framed cell, split into length prefix and bare content. -/
theorem wf_cell (u : Bytes → Bool) (t : CqlTy) (v : CqlVal) (c : Bytes) (hw : wfVal u t v = true)
    (hc : encSpec t v true = .ok c) :
    ∃ body, encSpec t v false = .ok body ∧ body.length ≤ i32Max ∧ c = be32 body.length ++ body :=
  encSpec_cell t v c hc (wf_not_null u t v hw)

theorem concatEnc_cons_ok {α : Type} (g : α → Except SerErr Bytes) (v : α) (vs : List α) (cells : Bytes)
    (h : concatEnc g (v :: vs) = .ok cells) :
    ∃ c r, g v = .ok c ∧ concatEnc g vs = .ok r ∧ cells = c ++ r := by
  unfold concatEnc at h
  cases hg : g v with
  | error e => rw [hg] at h; cases h
  | ok c =>
    rw [hg] at h
    simp only at h
    cases hr : concatEnc g vs with
    | error e => rw [hr] at h; cases h
    | ok r => rw [hr] at h; cases h; exact ⟨c, r, rfl, rfl, rfl⟩

theorem decSeq_rt (u : Bytes → Bool) (elt : CqlTy) (ih : RT u elt) :
    ∀ (vs : List CqlVal) (cells rest : Bytes), (∀ x, x ∈ vs → wfVal u elt x = true) →
      concatEnc (fun v => encSpec elt v true) vs = .ok cells → cells.length < 2 ^ 64 →
      decSeq (fun b => decVal u elt b) vs.length (cells ++ rest) = .ok (vs.map (fun x => pad elt x)) := by
  intro vs
  induction vs with
  | nil => intro cells rest _ h _; simp [decSeq]
  | cons v vs ihs =>
    intro cells rest hw h hlt
    obtain ⟨c, r, hc, hr, rfl⟩ := concatEnc_cons_ok _ v vs cells h
    have hwv := hw v List.mem_cons_self
    obtain ⟨body, hb, hlen, rfl⟩ := wf_cell u elt v c hwv hc
    have hl : body.length < 2 ^ 64 ∧ r.length < 2 ^ 64 := by
      simp only [List.length_append] at hlt; omega
    have e : be32 body.length ++ body ++ r ++ rest = be32 body.length ++ body ++ (r ++ rest) := by
      simp [List.append_assoc]
    simp only [List.length_cons, decSeq, e, readCqlBytes_cell body (r ++ rest) hlen]
    rw [(ih v body hwv hb hl.1).1]
    simp only
    rw [ihs r rest (fun x hx => hw x (List.mem_cons_of_mem _ hx)) hr hl.2]
    rfl

theorem wf_native_inv (u : Bytes → Bool) (n : NativeTy) (v : CqlVal) (h : wfVal u (.native n) v = true) :
    v = .empty ∨ wfNative u n v = true := by
  cases v <;> simp [wfVal] at h ⊢ <;> exact h

theorem wf_list_inv (u : Bytes → Bool) (elt : CqlTy) (v : CqlVal) (h : wfVal u (.list elt) v = true) :
    v = .empty ∨ ∃ vs, v = .list vs ∧ ∀ x, x ∈ vs → wfVal u elt x = true := by
  cases v <;> simp [wfVal] at h ⊢
  exact h

theorem wf_set_inv (u : Bytes → Bool) (elt : CqlTy) (v : CqlVal) (h : wfVal u (.set elt) v = true) :
    v = .empty ∨ ∃ vs, v = .set vs ∧ ∀ x, x ∈ vs → wfVal u elt x = true := by
  cases v <;> simp [wfVal] at h ⊢
  exact h

theorem be32_append_ne_nil (n : Nat) (r : Bytes) : (be32 n ++ r).isEmpty = false := by
  simp [be32, beBytes]

theorem be32_append_ne_nil' (n : Nat) (r : Bytes) : be32 n ++ r ≠ [] := by
  simp [be32, beBytes]

/-- list / set: shared by both constructors (`mk` is `.list` or `.set`). -/
theorem rt_seq (u : Bytes → Bool) (elt : CqlTy) (ih : RT u elt) (vs : List CqlVal) (body : Bytes)
    (hall : ∀ x, x ∈ vs → wfVal u elt x = true)
    (he : (if vs.length > i32Max then (.error .tooManyElements : Except SerErr Bytes)
      else match concatEnc (fun v => encSpec elt v true) vs with
        | .error e => .error e
        | .ok cells => frame false (be32 vs.length ++ cells)) = .ok body)
    (hlt : body.length < 2 ^ 64) :
    (match readCount body with
     | .error e => (.error e : Except DeErr (List CqlVal))
     | .ok (n, rest) => decSeq (fun b => decVal u elt b) n rest) = .ok (vs.map (fun x => pad elt x)) ∧
    body ≠ [] := by
  split at he
  · cases he
  · rename_i hlen
    cases hc : concatEnc (fun v => encSpec elt v true) vs with
    | error e => rw [hc] at he; cases he
    | ok cells =>
      rw [hc] at he
      simp only [frame] at he
      cases he
      refine ⟨?_, be32_append_ne_nil' _ _⟩
      rw [readCount_be32 _ _ (by omega)]
      simp only
      have hl : cells.length < 2 ^ 64 := by simp only [List.length_append] at hlt; omega
      have := decSeq_rt u elt ih vs cells [] hall hc hl
      rw [List.append_nil] at this
      exact this

theorem pad_native_scalar (n : NativeTy) (v : CqlVal) (acc : List NativeTy) (b : Bytes) (viaB : Bool)
    (h : viewOf v = .scalar acc b viaB) : pad (.native n) v = v := by
  cases n <;> cases v <;> simp [viewOf] at h <;> simp [pad]

theorem frame_false_ok (b body : Bytes) (viaB : Bool)
    (h : (if viaB = true then frame false b else frameChecked false b) = .ok body) : body = b := by
  cases viaB
  · simp only [frameChecked, Bool.false_eq_true, if_false] at h
    split at h
    · cases h
    · cases h; rfl
  · simp only [frame, if_true, Bool.false_eq_true, if_false] at h
    cases h; rfl

theorem wf_map_inv (u : Bytes → Bool) (kt vt : CqlTy) (v : CqlVal) (h : wfVal u (.map kt vt) v = true) :
    v = .empty ∨ ∃ kvs, v = .map kvs ∧ ∀ kv, kv ∈ kvs → wfVal u kt kv.1 = true ∧ wfVal u vt kv.2 = true := by
  cases v <;> simp [wfVal] at h ⊢
  intro a b hab
  exact h a b hab

theorem pairSpec_ok (gk gv : CqlVal → Except SerErr Bytes) (kv : CqlVal × CqlVal) (c : Bytes)
    (h : pairSpec gk gv kv = .ok c) : ∃ kc vc, gk kv.1 = .ok kc ∧ gv kv.2 = .ok vc ∧ c = kc ++ vc := by
  unfold pairSpec at h
  cases hk : gk kv.1 with
  | error e => rw [hk] at h; cases h
  | ok kc =>
    rw [hk] at h
    simp only at h
    cases hv : gv kv.2 with
    | error e => rw [hv] at h; cases h
    | ok vc => rw [hv] at h; cases h; exact ⟨kc, vc, rfl, rfl, rfl⟩

theorem decMap_rt (u : Bytes → Bool) (kt vt : CqlTy) (ihk : RT u kt) (ihv : RT u vt) :
    ∀ (kvs : List (CqlVal × CqlVal)) (cells rest : Bytes),
      (∀ kv, kv ∈ kvs → wfVal u kt kv.1 = true ∧ wfVal u vt kv.2 = true) →
      concatEnc (pairSpec (fun k => encSpec kt k true) (fun v => encSpec vt v true)) kvs = .ok cells →
      cells.length < 2 ^ 64 →
      decMap (fun b => decVal u kt b) (fun b => decVal u vt b) kvs.length (cells ++ rest) =
        .ok (kvs.map (fun kv => (pad kt kv.1, pad vt kv.2))) := by
  intro kvs
  induction kvs with
  | nil => intro cells rest _ h _; simp [decMap]
  | cons kv kvs ihs =>
    intro cells rest hw h hlt
    obtain ⟨c, r, hc, hr, rfl⟩ := concatEnc_cons_ok _ kv kvs cells h
    obtain ⟨kc, vc, hkc, hvc, rfl⟩ := pairSpec_ok _ _ kv c hc
    have hwv := hw kv List.mem_cons_self
    obtain ⟨kb, hkb, hklen, rfl⟩ := wf_cell u kt kv.1 kc hwv.1 hkc
    obtain ⟨vb, hvb, hvlen, rfl⟩ := wf_cell u vt kv.2 vc hwv.2 hvc
    have hl : kb.length < 2 ^ 64 ∧ vb.length < 2 ^ 64 ∧ r.length < 2 ^ 64 := by
      simp only [List.length_append] at hlt; omega
    have e : be32 kb.length ++ kb ++ (be32 vb.length ++ vb) ++ r ++ rest =
        be32 kb.length ++ kb ++ (be32 vb.length ++ vb ++ (r ++ rest)) := by
      simp [List.append_assoc]
    simp only [List.length_cons, decMap, e, readCqlBytes_cell kb _ hklen, readCqlBytes_cell vb _ hvlen]
    rw [(ihk kv.1 kb hwv.1 hkb hl.1).1]
    simp only
    rw [(ihv kv.2 vb hwv.2 hvb hl.2.1).1]
    simp only
    rw [ihs r rest (fun x hx => hw x (List.mem_cons_of_mem _ hx)) hr hl.2.2]
    rfl

theorem wf_tuple_inv (u : Bytes → Bool) (ts : List CqlTy) (v : CqlVal) (h : wfVal u (.tuple ts) v = true) :
    v = .empty ∨ ∃ fs, v = .tuple fs ∧ fs ≠ [] ∧ fs.length ≤ ts.length ∧ wfTuple u ts fs = true := by
  cases v <;> simp [wfVal] at h ⊢
  exact ⟨h.1.1, h.1.2, h.2⟩

theorem pad_null (t : CqlTy) : pad t .null = .null := by
  cases t with
  | native n => cases n <;> simp [pad]
  | _ => simp [pad]

theorem nullBytes_append_ne_nil (r : Bytes) : (nullBytes ++ r).isEmpty = false := by
  simp [nullBytes]

def RTTuple (u : Bytes → Bool) (ts : List CqlTy) : Prop :=
  ∀ (fs : List CqlVal) (cells : Bytes), wfTuple u ts fs = true → fs.length ≤ ts.length →
    encTupleSpec ts fs = .ok cells → cells.length < 2 ^ 64 →
    decTuple u ts cells = .ok (padTuple ts fs) ∧ (fs ≠ [] → cells ≠ [])

theorem wf_udt_inv (u : Bytes → Bool) (ks name : String) (fields : List (String × CqlTy)) (v : CqlVal)
    (h : wfVal u (.udt ks name fields) v = true) :
    ∃ m, v = .udt ks name m ∧ fields ≠ [] ∧ (fields.map (·.1)).Nodup ∧ wfUdt u fields m = true := by
  cases v <;> simp [wfVal, CqlTy.supportsEmpty] at h ⊢
  obtain ⟨⟨⟨⟨⟨h1, h2⟩, h3⟩, h4⟩, _⟩, h6⟩ := h
  exact ⟨_, ⟨h1, h2, rfl⟩, h3, h4, h6⟩

theorem lookupLast_removeName (n n' : String) (m : List (String × CqlVal)) (h : n' ≠ n) :
    lookupLast n' (removeName n m) = lookupLast n' m := by
  induction m with
  | nil => rfl
  | cons p m ih =>
    obtain ⟨k, v⟩ := p
    unfold removeName at ih ⊢
    by_cases hk : k = n
    · subst hk
      have : decide ((k, v).1 ≠ k) = false := by simp
      rw [List.filter_cons_of_neg (by simp), ih]
      simp only [lookupLast]
      have : ¬ (k = n') := fun e => h e.symm
      simp only [this, if_false]
      cases lookupLast n' m <;> rfl
    · rw [List.filter_cons_of_pos (by simp [hk])]
      simp only [lookupLast, ih]

def RTUdt (u : Bytes → Bool) (fields : List (String × CqlTy)) : Prop :=
  ∀ (m m' : List (String × CqlVal)) (cells : Bytes) (l : List (String × CqlVal)),
    (∀ f, f ∈ fields → lookupLast f.1 m' = lookupLast f.1 m) → (fields.map (·.1)).Nodup →
    wfUdt u fields m = true → encUdtSpec fields m' = .ok (cells, l) → cells.length < 2 ^ 64 →
    decUdt u fields cells = .ok (padUdt fields m) ∧ (fields ≠ [] → cells ≠ [])

theorem wf_vector_inv (u : Bytes → Bool) (elt : CqlTy) (dim : Nat) (v : CqlVal)
    (h : wfVal u (.vector elt dim) v = true) :
    v = .empty ∨ ∃ vs, v = .vector vs ∧ vs.length = dim ∧ 0 < dim ∧ (∀ x, x ∈ vs → wfVal u elt x = true) ∧
      (match elt.sizeForVector with
       | some _ => ∀ x, x ∈ vs → isEmptyVal x = false
       | none => True) := by
  cases v <;> simp [wfVal] at h ⊢
  rename_i vs
  obtain ⟨⟨⟨h1, h2⟩, h3⟩, h4⟩ := h
  refine ⟨h1, h2, h3, ?_⟩
  cases hs : elt.sizeForVector with
  | some sz => rw [hs] at h4; simpa using h4
  | none => trivial

theorem varElemSpec_ok (g : CqlVal → Except SerErr Bytes) (v : CqlVal) (c : Bytes)
    (h : varElemSpec g v = .ok c) : ∃ eb, g v = .ok eb ∧ c = uvintEnc (BitVec.ofNat 64 eb.length) ++ eb := by
  unfold varElemSpec at h
  cases hg : g v with
  | error e => rw [hg] at h; cases h
  | ok eb => rw [hg] at h; cases h; exact ⟨eb, rfl, rfl⟩

theorem uvintEnc_ne_nil (v : BitVec 64) (r : Bytes) : uvintEnc v ++ r ≠ [] := by
  have := (uvintEnc_length v).1
  cases hx : uvintEnc v with
  | nil => rw [hx] at this; simp at this
  | cons a l => simp

theorem decVecVar_rt (u : Bytes → Bool) (elt : CqlTy) (ih : RT u elt) :
    ∀ (vs : List CqlVal) (cells : Bytes), (∀ x, x ∈ vs → wfVal u elt x = true) →
      concatEnc (varElemSpec (fun v => encSpec elt v false)) vs = .ok cells → cells.length < 2 ^ 64 →
      decVecVar (fun b => decVal u elt b) vs.length cells = .ok (vs.map (fun x => pad elt x)) ∧
      (vs ≠ [] → cells ≠ []) := by
  intro vs
  induction vs with
  | nil => intro cells _ h _; simp [decVecVar]
  | cons v vs ihs =>
    intro cells hw h hlt
    obtain ⟨c, r, hc, hr, rfl⟩ := concatEnc_cons_ok _ v vs cells h
    obtain ⟨eb, heb, rfl⟩ := varElemSpec_ok _ v c hc
    have hwv := hw v List.mem_cons_self
    have hl : eb.length < 2 ^ 64 ∧ r.length < 2 ^ 64 := by
      simp only [List.length_append] at hlt; omega
    obtain ⟨hdec, _⟩ := ih v eb hwv heb hl.1
    obtain ⟨ih1, _⟩ := ihs r (fun x hx => hw x (List.mem_cons_of_mem _ hx)) hr hl.2
    refine ⟨?_, fun _ => ?_⟩
    · have hne : ((eb ++ r).isEmpty && eb.length != 0) = false := by
        cases eb with
        | nil => simp
        | cons a l => simp
      have htn : (BitVec.ofNat 64 eb.length).toNat = eb.length := by
        simp [BitVec.toNat_ofNat, Nat.mod_eq_of_lt hl.1]
      have hlen : ¬ ((eb ++ r).length < eb.length) := by simp [List.length_append]
      simp only [List.length_cons, decVecVar, List.append_assoc, uvint_roundtrip, htn, readN, hne,
        Bool.false_eq_true, if_false, hlen, List.take_left' rfl, List.drop_left' rfl, hdec, ih1]
      rfl
    · rw [List.append_assoc]; exact uvintEnc_ne_nil _ _

/-- Fixed-width element types: every well-formed non-`empty` value has exactly `size` content bytes. -/
def SZ (u : Bytes → Bool) (t : CqlTy) : Prop :=
  ∀ (v : CqlVal) (body : Bytes) (sz : Nat), wfVal u t v = true → isEmptyVal v = false →
    t.sizeForVector = some sz → encSpec t v false = .ok body → body.length = sz ∧ 0 < sz

theorem concatEnc_len {α : Type} (g : α → Except SerErr Bytes) (sz : Nat) :
    ∀ (vs : List α) (cells : Bytes), (∀ x, x ∈ vs → ∀ b, g x = .ok b → b.length = sz) →
      concatEnc g vs = .ok cells → cells.length = sz * vs.length := by
  intro vs
  induction vs with
  | nil => intro cells _ h; simp [concatEnc] at h; subst h; simp
  | cons v vs ih =>
    intro cells hall h
    obtain ⟨c, r, hc, hr, rfl⟩ := concatEnc_cons_ok g v vs cells h
    have h1 := hall v List.mem_cons_self c hc
    have h2 := ih r (fun x hx => hall x (List.mem_cons_of_mem _ hx)) hr
    simp only [List.length_append, List.length_cons, h1, h2, Nat.mul_succ]
    omega

theorem sz_native (u : Bytes → Bool) (n : NativeTy) : SZ u (.native n) := by
  intro v body sz hw hne hs he
  rcases wf_native_inv u n v hw with rfl | hn
  · simp [isEmptyVal] at hne
  · cases n <;> simp [CqlTy.sizeForVector, NativeTy.sizeForVector] at hs <;> subst hs <;>
      cases v <;> simp [wfNative] at hn <;>
      (rw [encSpec] at he
       simp [viewOf, encScalarSpec, frameChecked, i32Max, beBytes_length] at he
       subst he
       simp [beBytes_length])

theorem sz_all (u : Bytes → Bool) : ∀ t : CqlTy, SZ u t
  | .native n => sz_native u n
  | .vector elt dim => by
    intro v body sz hw hne hs he
    rcases wf_vector_inv u elt dim v hw with rfl | ⟨vs, rfl, hlen, hdim, hall, hextra⟩
    · simp [isEmptyVal] at hne
    · simp only [CqlTy.sizeForVector] at hs
      cases hs' : elt.sizeForVector with
      | none => rw [hs'] at hs; cases hs
      | some s' =>
        rw [hs'] at hs hextra
        simp only at hs hextra
        cases hs
        rw [encSpec] at he
        have hl : ¬ (vs.length ≠ dim) := by simp [hlen]
        simp only [viewOf, hl, if_false, hs'] at he
        cases hc : concatEnc (fun v => encSpec elt v false) vs with
        | error e => rw [hc] at he; cases he
        | ok cells =>
          rw [hc] at he
          simp only [frame] at he
          cases he
          have hpos : 0 < s' := by
            cases vs with
            | nil => simp at hlen; omega
            | cons a l =>
              obtain ⟨c, r, hc1, _, _⟩ := concatEnc_cons_ok _ a l body hc
              exact (sz_all u elt a c s' (hall a List.mem_cons_self) (hextra a List.mem_cons_self) hs' hc1).2
          have := concatEnc_len (fun v => encSpec elt v false) s' vs body
            (fun y hy b hb => (sz_all u elt y b s' (hall y hy) (hextra y hy) hs' hb).1) hc
          rw [this, hlen]
          exact ⟨rfl, Nat.mul_pos hpos hdim⟩
  | .list _ => by intro v body sz _ _ hs; simp [CqlTy.sizeForVector] at hs
  | .set _ => by intro v body sz _ _ hs; simp [CqlTy.sizeForVector] at hs
  | .map _ _ => by intro v body sz _ _ hs; simp [CqlTy.sizeForVector] at hs
  | .tuple _ => by intro v body sz _ _ hs; simp [CqlTy.sizeForVector] at hs
  | .udt _ _ _ => by intro v body sz _ _ hs; simp [CqlTy.sizeForVector] at hs

theorem decVecFixed_rt (u : Bytes → Bool) (elt : CqlTy) (sz : Nat) (hs : elt.sizeForVector = some sz)
    (ih : RT u elt) :
    ∀ (vs : List CqlVal) (cells : Bytes), (∀ x, x ∈ vs → wfVal u elt x = true) →
      (∀ x, x ∈ vs → isEmptyVal x = false) →
      concatEnc (fun v => encSpec elt v false) vs = .ok cells → cells.length < 2 ^ 64 →
      decVecFixed (fun b => decVal u elt b) sz vs.length cells = .ok (vs.map (fun x => pad elt x)) ∧
      (vs ≠ [] → cells ≠ []) := by
  intro vs
  induction vs with
  | nil => intro cells _ _ h _; simp [decVecFixed]
  | cons v vs ihs =>
    intro cells hw hne h hlt
    obtain ⟨c, r, hc, hr, rfl⟩ := concatEnc_cons_ok _ v vs cells h
    have hwv := hw v List.mem_cons_self
    have hl : c.length < 2 ^ 64 ∧ r.length < 2 ^ 64 := by
      simp only [List.length_append] at hlt; omega
    obtain ⟨hlen, hpos⟩ := sz_all u elt v c sz hwv (hne v List.mem_cons_self) hs hc
    have hdec := (ih v c hwv hc hl.1).1
    obtain ⟨ih1, _⟩ := ihs r (fun x hx => hw x (List.mem_cons_of_mem _ hx))
      (fun x hx => hne x (List.mem_cons_of_mem _ hx)) hr hl.2
    have hcne : c ≠ [] := by intro e; rw [e] at hlen; simp at hlen; omega
    have hne' : ((c ++ r).isEmpty && sz != 0) = false := by
      cases c with
      | nil => exact absurd rfl hcne
      | cons a l => simp
    refine ⟨?_, fun _ => by cases c with | nil => exact absurd rfl hcne | cons a l => simp⟩
    have hlen' : ¬ ((c ++ r).length < sz) := by simp [List.length_append, hlen]
    simp only [List.length_cons, decVecFixed, readN, hne', Bool.false_eq_true, if_false, hlen',
      List.take_left' hlen, List.drop_left' hlen, hdec, ih1]
    rfl

mutual
theorem rt (u : Bytes → Bool) : ∀ t : CqlTy, RT u t
  | .native n => by
    intro v body hw he hlt
    rcases wf_native_inv u n v hw with rfl | hn
    · exact rt_empty u _ body hw he
    · obtain ⟨acc, b, viaB, hv, hacc, hdec, hz⟩ := native_rt u n v hn
      rw [encSpec] at he
      simp only [hv, encScalarSpec, hacc, if_true] at he
      have hb := frame_false_ok b body viaB he
      subst hb
      rw [pad_native_scalar n v acc body viaB hv]
      exact ⟨hdec, hz⟩
  | .list elt => by
    intro v body hw he hlt
    rcases wf_list_inv u elt v hw with rfl | ⟨vs, rfl, hall⟩
    · exact rt_empty u _ body hw he
    · rw [encSpec] at he
      simp only [viewOf] at he
      obtain ⟨h1, h2⟩ := rt_seq u elt (rt u elt) vs body hall he hlt
      refine ⟨?_, fun h => absurd h h2⟩
      rw [decVal]
      have : body.isEmpty = false := by cases body <;> simp at h2 ⊢
      simp only [this, Bool.false_and]
      simp only [pad]
      revert h1
      cases readCount body with
      | error e => intro h1; cases h1
      | ok r => obtain ⟨n, rest⟩ := r; intro h1; simp only at h1 ⊢; rw [h1]; rfl
  | .set elt => by
    intro v body hw he hlt
    rcases wf_set_inv u elt v hw with rfl | ⟨vs, rfl, hall⟩
    · exact rt_empty u _ body hw he
    · rw [encSpec] at he
      simp only [viewOf] at he
      obtain ⟨h1, h2⟩ := rt_seq u elt (rt u elt) vs body hall he hlt
      refine ⟨?_, fun h => absurd h h2⟩
      rw [decVal]
      have : body.isEmpty = false := by cases body <;> simp at h2 ⊢
      simp only [this, Bool.false_and]
      simp only [pad]
      revert h1
      cases readCount body with
      | error e => intro h1; cases h1
      | ok r => obtain ⟨n, rest⟩ := r; intro h1; simp only at h1 ⊢; rw [h1]; rfl
  | .map kt vt => by
    intro v body hw he hlt
    rcases wf_map_inv u kt vt v hw with rfl | ⟨kvs, rfl, hall⟩
    · exact rt_empty u _ body hw he
    · rw [encSpec] at he
      simp only [viewOf] at he
      split at he
      · cases he
      · rename_i hlen
        cases hc : concatEnc (pairSpec (fun k => encSpec kt k true) (fun v => encSpec vt v true)) kvs with
        | error e => rw [hc] at he; cases he
        | ok cells =>
          rw [hc] at he
          simp only [frame] at he
          cases he
          refine ⟨?_, fun h => absurd h (be32_append_ne_nil' _ _)⟩
          rw [decVal]
          simp only [be32_append_ne_nil, Bool.false_and]
          rw [readCount_be32 _ _ (by omega)]
          simp only [pad]
          have hl : cells.length < 2 ^ 64 := by simp only [List.length_append] at hlt; omega
          have := decMap_rt u kt vt (rt u kt) (rt u vt) kvs cells [] hall hc hl
          rw [List.append_nil] at this
          rw [this]
          rfl
  | .tuple ts => by
    intro v body hw he hlt
    rcases wf_tuple_inv u ts v hw with rfl | ⟨fs, rfl, hne, hlen, hwt⟩
    · exact rt_empty u _ body hw he
    · rw [encSpec] at he
      simp only [viewOf] at he
      have hl : ¬ (ts.length < fs.length) := by omega
      simp only [hl, if_false] at he
      cases hc : encTupleSpec ts fs with
      | error e => rw [hc] at he; cases he
      | ok cells =>
        rw [hc] at he
        simp only [frame] at he
        cases he
        obtain ⟨h1, h2⟩ := rtTuple u ts fs body hwt hlen hc hlt
        have h3 := h2 hne
        refine ⟨?_, fun h => absurd h h3⟩
        rw [decVal]
        have : body.isEmpty = false := by cases body <;> simp at h3 ⊢
        simp only [this, Bool.false_and, pad, h1]
        rfl
  | .udt ks name fields => by
    intro v body hw he hlt
    obtain ⟨m, rfl, hne, hnd, hwu⟩ := wf_udt_inv u ks name fields v hw
    rw [encSpec] at he
    simp only [viewOf] at he
    have hnm : (decide (ks ≠ ks) || decide (name ≠ name)) = false := by simp
    simp only [hnm, Bool.false_eq_true, if_false] at he
    cases hc : encUdtSpec fields m with
    | error e => rw [hc] at he; cases he
    | ok r =>
      obtain ⟨cells, l⟩ := r
      rw [hc] at he
      simp only at he
      split at he
      · cases he
      · simp only [frame] at he
        cases he
        obtain ⟨h1, h2⟩ := rtUdt u fields m m body l (fun _ _ => rfl) hnd hwu hc hlt
        have h3 := h2 hne
        refine ⟨?_, fun h => absurd h h3⟩
        rw [decVal]
        have : body.isEmpty = false := by cases body <;> simp at h3 ⊢
        simp only [this, Bool.false_and, pad, h1]
        rfl
  | .vector elt dim => by
    intro v body hw he hlt
    rcases wf_vector_inv u elt dim v hw with rfl | ⟨vs, rfl, hlen, hdim, hall, hextra⟩
    · exact rt_empty u _ body hw he
    · rw [encSpec] at he
      have hl : ¬ (vs.length ≠ dim) := by simp [hlen]
      simp only [viewOf, hl, if_false] at he
      have hvne : vs ≠ [] := by intro e; rw [e] at hlen; simp at hlen; omega
      cases hs : elt.sizeForVector with
      | some sz =>
        rw [hs] at he hextra
        simp only at he hextra
        cases hc : concatEnc (fun v => encSpec elt v false) vs with
        | error e => rw [hc] at he; cases he
        | ok cells =>
          rw [hc] at he
          simp only [frame] at he
          cases he
          obtain ⟨h1, h2⟩ := decVecFixed_rt u elt sz hs (rt u elt) vs body hall hextra hc hlt
          have h3 := h2 hvne
          refine ⟨?_, fun h => absurd h h3⟩
          rw [decVal]
          have : body.isEmpty = false := by cases body <;> simp at h3 ⊢
          rw [hlen] at h1
          simp only [this, Bool.false_and, pad, hs, h1]
          rfl
      | none =>
        rw [hs] at he hextra
        simp only at he hextra
        cases hc : concatEnc (varElemSpec (fun v => encSpec elt v false)) vs with
        | error e => rw [hc] at he; cases he
        | ok cells =>
          rw [hc] at he
          simp only [frame] at he
          cases he
          obtain ⟨h1, h2⟩ := decVecVar_rt u elt (rt u elt) vs body hall hc hlt
          have h3 := h2 hvne
          refine ⟨?_, fun h => absurd h h3⟩
          rw [decVal]
          have : body.isEmpty = false := by cases body <;> simp at h3 ⊢
          rw [hlen] at h1
          simp only [this, Bool.false_and, pad, hs, h1]
          rfl
theorem rtTuple (u : Bytes → Bool) : ∀ ts : List CqlTy, RTTuple u ts
  | [] => by
    intro fs cells _ hlen he _
    cases fs with
    | nil => simp [decTuple, padTuple]
    | cons f fs => simp at hlen
  | t :: ts => by
    intro fs cells hw hlen he hlt
    cases fs with
    | nil =>
      simp only [encTupleSpec] at he
      cases he
      have := (rtTuple u ts [] [] (by cases ts <;> rfl) (by simp) (by cases ts <;> rfl) (by simp)).1
      simp [decTuple, padTuple, this]
    | cons f fs =>
      rw [encTupleSpec] at he
      cases hc : encSpec t f true with
      | error e => rw [hc] at he; cases he
      | ok c =>
        rw [hc] at he
        simp only at he
        cases hr : encTupleSpec ts fs with
        | error e => rw [hr] at he; cases he
        | ok r =>
          rw [hr] at he
          cases he
          rw [wfTuple] at hw
          simp only [Bool.and_eq_true, Bool.or_eq_true] at hw
          have hlen' : fs.length ≤ ts.length := by simpa using hlen
          have hlr : c.length < 2 ^ 64 ∧ r.length < 2 ^ 64 := by
            simp only [List.length_append] at hlt; omega
          have ih2 := (rtTuple u ts fs r hw.2 hlen' hr hlr.2).1
          rcases hw.1 with hnull | hwf
          · -- null field
            cases f <;> simp [isNullVal] at hnull
            rw [encSpec] at hc
            simp only [viewOf, if_true] at hc
            cases hc
            refine ⟨?_, fun _ => by simp [nullBytes]⟩
            rw [decTuple]
            simp only [nullBytes_append_ne_nil, Bool.false_eq_true, if_false, readCqlBytes_null, ih2, padTuple, pad_null]
          · obtain ⟨body, hb, hblen, rfl⟩ := wf_cell u t f c hwf hc
            have hbl : body.length < 2 ^ 64 := by
              have := i32Max_lt
              omega
            refine ⟨?_, fun _ => by simp [be32, beBytes]⟩
            rw [decTuple]
            have hne : (be32 body.length ++ body ++ r).isEmpty = false := by simp [be32, beBytes]
            simp only [hne, Bool.false_eq_true, if_false, readCqlBytes_cell body r hblen,
              (rt u t f body hwf hb hbl).1, ih2, padTuple]
theorem rtUdt (u : Bytes → Bool) : ∀ fields : List (String × CqlTy), RTUdt u fields
  | [] => by
    intro m m' cells l _ _ _ he _
    simp [decUdt, padUdt]
  | (n, t) :: rest => by
    intro m m' cells l hag hnd hw he hlt
    have hn := hag (n, t) List.mem_cons_self
    simp only at hn
    simp only [List.map_cons, List.nodup_cons] at hnd
    rw [wfUdt] at hw
    simp only [Bool.and_eq_true, Bool.or_eq_true] at hw
    rw [encUdtSpec] at he
    rw [hn] at he
    have hagr : ∀ f, f ∈ rest → lookupLast f.1 m' = lookupLast f.1 m :=
      fun f hf => hag f (List.mem_cons_of_mem _ hf)
    cases hl : lookupLast n m with
    | none =>
      rw [hl] at he
      simp only at he
      cases hr : encUdtSpec rest m' with
      | error e => rw [hr] at he; cases he
      | ok rr =>
        obtain ⟨r, l'⟩ := rr
        rw [hr] at he
        cases he
        have hlr : r.length < 2 ^ 64 := by simp only [List.length_append] at hlt; omega
        have ih2 := (rtUdt u rest m m' r _ hagr hnd.2 hw.2 hr hlr).1
        refine ⟨?_, fun _ => by simp [nullBytes]⟩
        rw [decUdt]
        simp only [nullBytes_append_ne_nil, Bool.false_eq_true, if_false, readCqlBytes_null, ih2, padUdt,
          lookupOrNull, hl, pad_null]
    | some v =>
      rw [hl] at he
      simp only at he
      have hlo : lookupOrNull n m = v := by simp [lookupOrNull, hl]
      rw [hlo] at hw
      cases hc : encSpec t v true with
      | error e => rw [hc] at he; cases he
      | ok c =>
        rw [hc] at he
        simp only at he
        cases hr : encUdtSpec rest (removeName n m') with
        | error e => rw [hr] at he; cases he
        | ok rr =>
          obtain ⟨r, l'⟩ := rr
          rw [hr] at he
          cases he
          have hlr : c.length < 2 ^ 64 ∧ r.length < 2 ^ 64 := by
            simp only [List.length_append] at hlt; omega
          have hag' : ∀ f, f ∈ rest → lookupLast f.1 (removeName n m') = lookupLast f.1 m := by
            intro f hf
            have hne : f.1 ≠ n := by
              intro e
              apply hnd.1
              rw [← e]
              exact List.mem_map_of_mem hf
            rw [lookupLast_removeName n f.1 m' hne]
            exact hagr f hf
          have ih2 := (rtUdt u rest m (removeName n m') r _ hag' hnd.2 hw.2 hr hlr.2).1
          rcases hw.1 with hnull | hwf
          · cases v <;> simp [isNullVal] at hnull
            rw [encSpec] at hc
            simp only [viewOf, if_true] at hc
            cases hc
            refine ⟨?_, fun _ => by simp [nullBytes]⟩
            rw [decUdt]
            simp only [nullBytes_append_ne_nil, Bool.false_eq_true, if_false, readCqlBytes_null, ih2, padUdt,
              hlo, pad_null]
          · obtain ⟨body, hb, hblen, rfl⟩ := wf_cell u t v c hwf hc
            have hbl : body.length < 2 ^ 64 := by
              have := i32Max_lt
              omega
            refine ⟨?_, fun _ => by simp [be32, beBytes]⟩
            rw [decUdt]
            have hne : (be32 body.length ++ body ++ r).isEmpty = false := by simp [be32, beBytes]
            simp only [hne, Bool.false_eq_true, if_false, readCqlBytes_cell body r hblen,
              (rt u t v body hwf hb hbl).1, ih2, padUdt, hlo]
end

end ScyllaVerif.Proofs.CodecDec

import ScyllaVerif.Proofs.CodecEnc
/-!
C01: a dynamic value (`v.isDyn`: the image of an `Option<CqlValue>`) never hits the one place where the
specification has no encoding (`bareNullInVector`: a null / unset vector element) — so for the dynamic type
`encImpl = buf ++ encSpec` holds without side condition.
-/
namespace ScyllaVerif.Proofs.CodecDyn
open ScyllaVerif.Vint ScyllaVerif.Cql ScyllaVerif.Codec ScyllaVerif.Proofs.CodecEnc

/-- The result is not the `bareNullInVector` error. -/
def NB {α : Type} (r : Except SerErr α) : Prop := r ≠ .error .bareNullInVector

theorem nb_ok {α : Type} (x : α) : NB (.ok x : Except SerErr α) := by intro h; cases h

theorem nb_frame (ws : Bool) (b : Bytes) : NB (frame ws b) := by
  unfold NB frame; repeat' split
  all_goals (intro h; cases h)

theorem nb_frameChecked (ws : Bool) (b : Bytes) : NB (frameChecked ws b) := by
  unfold NB frameChecked; repeat' split
  all_goals (intro h; cases h)

theorem nb_concat {α : Type} (g : α → Except SerErr Bytes) (vs : List α)
    (h : ∀ x, x ∈ vs → NB (g x)) : NB (concatEnc g vs) := by
  induction vs with
  | nil => exact nb_ok _
  | cons v vs ih =>
    intro he
    unfold concatEnc at he
    cases hg : g v with
    | error e' => rw [hg] at he; cases he; exact h v List.mem_cons_self hg
    | ok b =>
      rw [hg] at he
      simp only at he
      cases hr : concatEnc g vs with
      | error e' =>
        rw [hr] at he; cases he
        exact ih (fun x hx => h x (List.mem_cons_of_mem _ hx)) hr
      | ok r => rw [hr] at he; cases he

theorem dynVals_mem : ∀ (vs : List CqlVal), isDynVals vs = true → ∀ x, x ∈ vs → x.isDynVal = true
  | [], _, x, hx => by cases hx
  | v :: vs, h, x, hx => by
    simp only [isDynVals, Bool.and_eq_true] at h
    cases hx with
    | head => exact h.1
    | tail _ hx' => exact dynVals_mem vs h.2 x hx'

theorem dynPairs_mem : ∀ (kvs : List (CqlVal × CqlVal)), isDynPairs kvs = true →
    ∀ kv, kv ∈ kvs → kv.1.isDynVal = true ∧ kv.2.isDynVal = true
  | [], _, x, hx => by cases hx
  | (k, v) :: r, h, x, hx => by
    simp only [isDynPairs, Bool.and_eq_true] at h
    cases hx with
    | head => exact ⟨h.1.1, h.1.2⟩
    | tail _ hx' => exact dynPairs_mem r h.2 x hx'

/-- A tuple / UDT field of a dynamic value is null or dynamic. -/
def DynCell (v : CqlVal) : Prop := v = .null ∨ v.isDynVal = true

theorem dynCells_cons (f : CqlVal) (fs : List CqlVal) (h : isDynCells (f :: fs) = true) :
    DynCell f ∧ isDynCells fs = true := by
  cases f <;> simp [isDynCells, DynCell] at h ⊢ <;> first | exact h | exact ⟨h.1, h.2⟩

theorem dynFields_mem : ∀ (m : List (String × CqlVal)), isDynFields m = true → ∀ p, p ∈ m → DynCell p.2
  | [], _, p, hp => by cases hp
  | (n, v) :: r, h, p, hp => by
    have hc : DynCell v ∧ isDynFields r = true := by
      cases v <;> simp [isDynFields, DynCell] at h ⊢ <;> first | exact h | exact ⟨h.1, h.2⟩
    cases hp with
    | head => exact hc.1
    | tail _ hp' => exact dynFields_mem r hc.2 p hp'

theorem lookupLast_mem (n : String) : ∀ (m : List (String × CqlVal)) (v : CqlVal), lookupLast n m = some v →
    (n, v) ∈ m
  | [], v, h => by simp [lookupLast] at h
  | (k, w) :: r, v, h => by
    simp only [lookupLast] at h
    cases hl : lookupLast n r with
    | some x =>
      rw [hl] at h
      simp only [Option.some.injEq] at h
      subst h
      exact List.mem_cons_of_mem _ (lookupLast_mem n r x hl)
    | none =>
      rw [hl] at h
      simp only at h
      split at h
      · rename_i hk; cases h; subst hk; exact List.mem_cons_self
      · cases h

/-- The view of a dynamic value: never null / unset; its parts are dynamic. -/
theorem dyn_view (v : CqlVal) (h : v.isDynVal = true) :
    match viewOf v with
    | .null => False
    | .unset => False
    | .seq vs => isDynVals vs = true
    | .map kvs => isDynPairs kvs = true
    | .tuple fs => isDynCells fs = true
    | .udt _ _ m => isDynFields m = true
    | _ => True := by
  cases v <;> simp [CqlVal.isDynVal, viewOf] at h ⊢ <;> exact h

def NBT (t : CqlTy) : Prop := ∀ (v : CqlVal) (ws : Bool), v.isDynVal = true → NB (encSpec t v ws)
def NBTuple (ts : List CqlTy) : Prop := ∀ fs : List CqlVal, isDynCells fs = true → NB (encTupleSpec ts fs)
def NBUdt (fields : List (String × CqlTy)) : Prop :=
  ∀ m : List (String × CqlVal), (∀ p, p ∈ m → DynCell p.2) → NB (encUdtSpec fields m)

theorem nb_scalar (acc : List NativeTy) (body : Bytes) (viaB : Bool) (t : CqlTy) (ws : Bool) :
    NB (encScalarSpec acc body viaB t ws) := by
  unfold encScalarSpec
  cases t with
  | native n =>
    simp only
    split
    · split
      · exact nb_frame _ _
      · exact nb_frameChecked _ _
    · intro h; cases h
  | _ => intro h; cases h

mutual
theorem nbt : ∀ t : CqlTy, NBT t
  | .native n => by
    intro v ws hd h
    have hv := dyn_view v hd
    rw [encSpec] at h
    generalize viewOf v = w at h hv
    cases w with
    | null => exact hv.elim
    | unset => exact hv.elim
    | empty =>
      simp only at h
      split at h
      · exact nb_frameChecked _ _ h
      · cases h
    | scalar acc body viaB => exact nb_scalar acc body viaB _ ws h
    | seq vs => cases h
    | map kvs => cases h
    | tuple fs => cases h
    | udt ks name m => cases h
  | .list elt => by
    intro v ws hd h
    have hv := dyn_view v hd
    rw [encSpec] at h
    generalize viewOf v = w at h hv
    cases w with
    | null => exact hv.elim
    | unset => exact hv.elim
    | empty =>
      simp only at h
      split at h
      · exact nb_frameChecked _ _ h
      · cases h
    | scalar acc body viaB => exact nb_scalar acc body viaB _ ws h
    | seq vs =>
      simp only at h hv
      split at h
      · cases h
      · cases hc : concatEnc (fun v => encSpec elt v true) vs with
        | error e' =>
          rw [hc] at h; cases h
          exact nb_concat _ _ (fun x hx => nbt elt x true (dynVals_mem vs hv x hx)) hc
        | ok c => rw [hc] at h; exact nb_frame _ _ h
    | map kvs => cases h
    | tuple fs => cases h
    | udt ks name m => cases h
  | .set elt => by
    intro v ws hd h
    have hv := dyn_view v hd
    rw [encSpec] at h
    generalize viewOf v = w at h hv
    cases w with
    | null => exact hv.elim
    | unset => exact hv.elim
    | empty =>
      simp only at h
      split at h
      · exact nb_frameChecked _ _ h
      · cases h
    | scalar acc body viaB => exact nb_scalar acc body viaB _ ws h
    | seq vs =>
      simp only at h hv
      split at h
      · cases h
      · cases hc : concatEnc (fun v => encSpec elt v true) vs with
        | error e' =>
          rw [hc] at h; cases h
          exact nb_concat _ _ (fun x hx => nbt elt x true (dynVals_mem vs hv x hx)) hc
        | ok c => rw [hc] at h; exact nb_frame _ _ h
    | map kvs => cases h
    | tuple fs => cases h
    | udt ks name m => cases h
  | .map kt vt => by
    intro v ws hd h
    have hv := dyn_view v hd
    rw [encSpec] at h
    generalize viewOf v = w at h hv
    cases w with
    | null => exact hv.elim
    | unset => exact hv.elim
    | empty =>
      simp only at h
      split at h
      · exact nb_frameChecked _ _ h
      · cases h
    | scalar acc body viaB => exact nb_scalar acc body viaB _ ws h
    | map kvs =>
      simp only at h hv
      split at h
      · cases h
      · cases hc : concatEnc (pairSpec (fun k => encSpec kt k true) (fun v => encSpec vt v true)) kvs with
        | error e' =>
          rw [hc] at h; cases h
          exact nb_concat _ _ (fun kv hkv => by
            intro he2
            unfold pairSpec at he2
            simp only at he2
            have hd2 := dynPairs_mem kvs hv kv hkv
            cases hk : encSpec kt kv.1 true with
            | error e3 => rw [hk] at he2; cases he2; exact nbt kt kv.1 true hd2.1 hk
            | ok kb =>
              rw [hk] at he2
              simp only at he2
              cases hvv : encSpec vt kv.2 true with
              | error e3 => rw [hvv] at he2; cases he2; exact nbt vt kv.2 true hd2.2 hvv
              | ok vb => rw [hvv] at he2; cases he2) hc
        | ok c => rw [hc] at h; exact nb_frame _ _ h
    | seq vs => cases h
    | tuple fs => cases h
    | udt ks name m => cases h
  | .vector elt dim => by
    intro v ws hd h
    have hv := dyn_view v hd
    rw [encSpec] at h
    generalize viewOf v = w at h hv
    cases w with
    | null => exact hv.elim
    | unset => exact hv.elim
    | empty =>
      simp only at h
      split at h
      · exact nb_frameChecked _ _ h
      · cases h
    | scalar acc body viaB => exact nb_scalar acc body viaB _ ws h
    | seq vs =>
      simp only at h hv
      split at h
      · cases h
      · cases hs : elt.sizeForVector with
        | some sz =>
          rw [hs] at h
          simp only at h
          cases hc : concatEnc (fun v => encSpec elt v false) vs with
          | error e' =>
            rw [hc] at h; cases h
            exact nb_concat _ _ (fun x hx => nbt elt x false (dynVals_mem vs hv x hx)) hc
          | ok c => rw [hc] at h; exact nb_frame _ _ h
        | none =>
          rw [hs] at h
          simp only at h
          cases hc : concatEnc (varElemSpec (fun v => encSpec elt v false)) vs with
          | error e' =>
            rw [hc] at h; cases h
            refine nb_concat _ _ (fun x hx => ?_) hc
            intro he2
            unfold varElemSpec at he2
            simp only at he2
            cases hx2 : encSpec elt x false with
            | error e3 => rw [hx2] at he2; cases he2; exact nbt elt x false (dynVals_mem vs hv x hx) hx2
            | ok eb => rw [hx2] at he2; cases he2
          | ok c => rw [hc] at h; exact nb_frame _ _ h
    | map kvs => cases h
    | tuple fs => cases h
    | udt ks name m => cases h
  | .tuple ts => by
    intro v ws hd h
    have hv := dyn_view v hd
    rw [encSpec] at h
    generalize viewOf v = w at h hv
    cases w with
    | null => exact hv.elim
    | unset => exact hv.elim
    | empty =>
      simp only at h
      split at h
      · exact nb_frameChecked _ _ h
      · cases h
    | scalar acc body viaB => exact nb_scalar acc body viaB _ ws h
    | tuple fs =>
      simp only at h hv
      split at h
      · cases h
      · cases hc : encTupleSpec ts fs with
        | error e' => rw [hc] at h; cases h; exact nbTuple ts fs hv hc
        | ok c => rw [hc] at h; exact nb_frame _ _ h
    | seq vs => cases h
    | map kvs => cases h
    | udt ks name m => cases h
  | .udt dks dname fields => by
    intro v ws hd h
    have hv := dyn_view v hd
    rw [encSpec] at h
    generalize viewOf v = w at h hv
    cases w with
    | null => exact hv.elim
    | unset => exact hv.elim
    | empty =>
      simp only at h
      split at h
      · exact nb_frameChecked _ _ h
      · cases h
    | scalar acc body viaB => exact nb_scalar acc body viaB _ ws h
    | udt ks name m =>
      simp only at h hv
      split at h
      · cases h
      · cases hc : encUdtSpec fields m with
        | error e' => rw [hc] at h; cases h; exact nbUdt fields m (dynFields_mem m hv) hc
        | ok r =>
          obtain ⟨c, l⟩ := r
          rw [hc] at h
          simp only at h
          split at h
          · cases h
          · exact nb_frame _ _ h
    | seq vs => cases h
    | map kvs => cases h
    | tuple fs => cases h
theorem nbCell : ∀ (t : CqlTy) (v : CqlVal), DynCell v → NB (encSpec t v true)
  | t, v, h => by
    rcases h with rfl | hd
    · rw [encSpec]; simp only [viewOf, if_true]; exact nb_ok _
    · exact nbt t v true hd
theorem nbTuple : ∀ ts : List CqlTy, NBTuple ts
  | [] => by intro fs _; cases fs <;> exact nb_ok _
  | t :: ts => by
    intro fs hd
    cases fs with
    | nil => exact nb_ok _
    | cons f fs =>
      obtain ⟨hf, hfs⟩ := dynCells_cons f fs hd
      intro he
      rw [encTupleSpec] at he
      cases hc : encSpec t f true with
      | error e' => rw [hc] at he; cases he; exact nbCell t f hf hc
      | ok c =>
        rw [hc] at he
        simp only at he
        cases hr : encTupleSpec ts fs with
        | error e' => rw [hr] at he; cases he; exact nbTuple ts fs hfs hr
        | ok r => rw [hr] at he; cases he
theorem nbUdt : ∀ fields : List (String × CqlTy), NBUdt fields
  | [] => by intro m _; exact nb_ok _
  | (n, t) :: rest => by
    intro m hm he
    rw [encUdtSpec] at he
    cases hl : lookupLast n m with
    | none =>
      rw [hl] at he
      simp only at he
      cases hr : encUdtSpec rest m with
      | error e' => rw [hr] at he; cases he; exact nbUdt rest m hm hr
      | ok rr => obtain ⟨r, l'⟩ := rr; rw [hr] at he; cases he
    | some v =>
      rw [hl] at he
      simp only at he
      have hdv : DynCell v := hm (n, v) (lookupLast_mem n m v hl)
      cases hc : encSpec t v true with
      | error e' => rw [hc] at he; cases he; exact nbCell t v hdv hc
      | ok c =>
        rw [hc] at he
        simp only at he
        have hm' : ∀ p, p ∈ removeName n m → DynCell p.2 := by
          intro p hp
          unfold removeName at hp
          exact hm p (List.mem_filter.mp hp).1
        cases hr : encUdtSpec rest (removeName n m) with
        | error e' => rw [hr] at he; cases he; exact nbUdt rest _ hm' hr
        | ok rr => obtain ⟨r, l'⟩ := rr; rw [hr] at he; cases he
end

end ScyllaVerif.Proofs.CodecDyn

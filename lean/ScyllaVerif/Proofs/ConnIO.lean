import ScyllaVerif.Model.ConnIO
import ScyllaVerif.Proofs.Conn
import ScyllaVerif.Proofs.FrameStream
/-! Helper lemmas for C10: the reader over a byte stream, the keepaliver. -/
namespace ScyllaVerif.ConnIO
open ScyllaVerif.StreamMap ScyllaVerif.Conn ScyllaVerif.FrameStream

theorem reader_broken {c : Conn} (hb : c.broken = true) (b : List UInt8) (e : Bool) : reader c b e = (c, b) := by
  rw [reader]; simp [hb]

theorem reader_frame {c : Conn} (hb : c.broken = false) {b rest : List UInt8} {f : Frame} (e : Bool)
    (h : readFrame b = .frame f rest) : reader c b e = reader (deliverFrame c f) rest e := by
  rw [reader]
  simp only [hb, Bool.false_eq_true, if_false]
  split
  · rename_i f' rest' hf'
    rw [h] at hf'
    cases hf'; rfl
  · rename_i hne
    exact absurd h (hne f rest)

theorem reader_stop {c : Conn} (hb : c.broken = false) {b : List UInt8} (e : Bool)
    (h : ∀ f rest, readFrame b ≠ .frame f rest) : reader c b e = (readerStop c (readFrame b) e, b) := by
  rw [reader]
  simp only [hb, Bool.false_eq_true, if_false]

/-- The frames the reader consumes, in order. -/
def deliverFrames (c : Conn) (fs : List Frame) : Conn := fs.foldl deliverFrame c

/-- The end of the bytes, seen from the reader. -/
def readerEnd (c : Conn) (t : Tail) (eof : Bool) : Conn :=
  match t with
  | .badHeader _ => step c (.break_ .frameHeaderParseError)
  | .boundary | .cutInHeader _ | .cutInBody _ _ =>
    if eof then step c (.break_ .frameHeaderParseError) else c

theorem step_broken_noop {c : Conn} (hb : c.broken = true) (e : Ev)
    (he : (∃ i, e = .respond i) ∨ (∃ s, e = .unsolicited s) ∨ (∃ k, e = .break_ k)) : step c e = c := by
  rcases he with ⟨i, rfl⟩ | ⟨s, rfl⟩ | ⟨k, rfl⟩ <;> simp [step, hb]

theorem deliverFrame_broken {c : Conn} (hb : c.broken = true) (f : Frame) : deliverFrame c f = c := by
  unfold deliverFrame
  split
  · rfl
  · simp only
    split
    · exact step_broken_noop hb _ (Or.inl ⟨_, rfl⟩)
    · exact step_broken_noop hb _ (Or.inr (Or.inl ⟨_, rfl⟩))

theorem deliverFrames_broken {c : Conn} (hb : c.broken = true) (fs : List Frame) : deliverFrames c fs = c := by
  unfold deliverFrames
  induction fs with
  | nil => rfl
  | cons f rest ih => simp only [List.foldl_cons, deliverFrame_broken hb, ih]

theorem readerEnd_broken {c : Conn} (hb : c.broken = true) (t : Tail) (e : Bool) : readerEnd c t e = c := by
  unfold readerEnd
  have := step_broken_noop hb (.break_ .frameHeaderParseError) (Or.inr (Or.inr ⟨_, rfl⟩))
  cases t <;> simp [this]

/-- The reader is: deliver the whole frames in order, then judge how the bytes end. -/
theorem reader_eq (b : List UInt8) (c : Conn) (e : Bool) :
    (reader c b e).1 = readerEnd (deliverFrames c (readFrames b).1) (readFrames b).2 e := by
  induction b using readFrames.induct generalizing c with
  | case1 bytes f rest hf hlt fs t hfs ih =>
    rw [readFrames_frame hf]
    cases hb : c.broken with
    | true =>
      rw [reader_broken hb, deliverFrames_broken hb, readerEnd_broken hb]
    | false =>
      rw [reader_frame hb e hf, ih]
      rfl
  | case2 bytes hf =>
    have hstop : ∀ f rest, readFrame bytes ≠ .frame f rest := by intro f rest; rw [hf]; simp
    rw [readFrames_stop hstop, hf]
    cases hb : c.broken with
    | true => rw [reader_broken hb]; exact (readerEnd_broken hb _ e).symm
    | false => rw [reader_stop hb e hstop, hf]; rfl
  | case3 bytes n hf =>
    have hstop : ∀ f rest, readFrame bytes ≠ .frame f rest := by intro f rest; rw [hf]; simp
    rw [readFrames_stop hstop, hf]
    cases hb : c.broken with
    | true => rw [reader_broken hb]; exact (readerEnd_broken hb _ e).symm
    | false => rw [reader_stop hb e hstop, hf]; rfl
  | case4 bytes m l hf =>
    have hstop : ∀ f rest, readFrame bytes ≠ .frame f rest := by intro f rest; rw [hf]; simp
    rw [readFrames_stop hstop, hf]
    cases hb : c.broken with
    | true => rw [reader_broken hb]; exact (readerEnd_broken hb _ e).symm
    | false => rw [reader_stop hb e hstop, hf]; rfl
  | case5 bytes w hf =>
    have hstop : ∀ f rest, readFrame bytes ≠ .frame f rest := by intro f rest; rw [hf]; simp
    rw [readFrames_stop hstop, hf]
    cases hb : c.broken with
    | true => rw [reader_broken hb]; exact (readerEnd_broken hb _ e).symm
    | false => rw [reader_stop hb e hstop, hf]; rfl

/-! ### invariants along the reader -/

theorem inv_deliverFrame {c : Conn} (h : Inv c) (f : Frame) : Inv (deliverFrame c f) := by
  unfold ConnIO.deliverFrame
  split
  · exact h
  · simp only
    split
    · exact h.step _
    · exact h.step _

theorem inv_deliverFrames {c : Conn} (h : Inv c) (fs : List Frame) : Inv (deliverFrames c fs) := by
  unfold ConnIO.deliverFrames
  induction fs generalizing c with
  | nil => exact h
  | cons f rest ih => exact ih (inv_deliverFrame h f)

theorem inv_readerEnd {c : Conn} (h : Inv c) (t : Tail) (e : Bool) : Inv (readerEnd c t e) := by
  unfold ConnIO.readerEnd
  cases t <;> simp only <;> (try split) <;> first | exact h | exact h.step _

theorem inv_reader {c : Conn} (h : Inv c) (b : List UInt8) (e : Bool) : Inv (reader c b e).1 := by
  rw [reader_eq]; exact inv_readerEnd (inv_deliverFrames h _) _ _

theorem break_sets_broken (c : Conn) (k : BreakKind) : (step c (.break_ k)).broken = true := by
  simp only [step]
  split
  · assumption
  · rfl

/-- Whatever bytes arrived: once the peer has closed, the router has ended. -/
theorem reader_eof_broken (c : Conn) (b : List UInt8) : (reader c b true).1.broken = true := by
  rw [reader_eq]
  unfold readerEnd
  cases (readFrames b).2 <;> simp [break_sets_broken]

/-- A bad header ends the router even while the peer is still there. -/
theorem reader_bad_header_broken (c : Conn) (b : List UInt8) (e : Bool) (w : BadHeader)
    (h : (readFrames b).2 = .badHeader w) : (reader c b e).1.broken = true := by
  rw [reader_eq, h]
  exact break_sets_broken _ _

/-! ### a caller's state, once it is not `waiting`, is not touched by the reader -/

theorem deliver_keeps {cs : List (Nat × CallerSt)} {r : Nat} {st : CallerSt} (hs : getCaller cs r = some st)
    (hne : st ≠ .waiting) (r' : Nat) (o : Outcome) : getCaller (deliver cs r' o) r = some st := by
  rw [getCaller_deliver]
  split
  · rename_i hc
    obtain ⟨e, hw⟩ := hc
    subst e
    rw [hw] at hs
    simp only [Option.some.injEq] at hs
    exact absurd hs.symm hne
  · exact hs

theorem doBreak_keeps {c : Conn} {r : Nat} {st : CallerSt} (hs : getCaller c.callers r = some st)
    (hne : st ≠ .waiting) (k : BreakKind) : getCaller (doBreak c k).callers r = some st := by
  rw [doBreak_callers]
  have : ¬ getCaller c.callers r = some .waiting := by
    intro hw; rw [hw] at hs
    simp only [Option.some.injEq] at hs
    exact hne hs.symm
  simp only [this, if_false]; exact hs

theorem deliverFrame_keeps {c : Conn} {r : Nat} {st : CallerSt} (hs : getCaller c.callers r = some st)
    (hne : st ≠ .waiting) (f : Frame) : getCaller (deliverFrame c f).callers r = some st := by
  unfold deliverFrame
  split
  · exact hs
  · simp only
    split
    · rename_i i _
      simp only [step]
      split
      · exact hs
      · split
        · exact hs
        · rename_i s0 r0 _
          cases hl : c.map.lookup s0 with
          | mk res m' =>
            cases res with
            | handler r' => exact deliver_keeps hs hne _ _
            | orphaned => exact hs
            | missing => exact doBreak_keeps (c := { c with server := c.server.eraseIdx i, map := m' }) hs hne _
    · simp only [step]
      split
      · exact hs
      · split
        · exact hs
        · split
          · exact hs
          · cases hl : c.map.lookup f.stream.toNat with
            | mk res m' =>
              cases res with
              | handler r' => exact deliver_keeps hs hne _ _
              | orphaned => exact hs
              | missing => exact doBreak_keeps (c := { c with map := m' }) hs hne _

theorem deliverFrames_keeps {c : Conn} {r : Nat} {st : CallerSt} (hs : getCaller c.callers r = some st)
    (hne : st ≠ .waiting) (fs : List Frame) : getCaller (deliverFrames c fs).callers r = some st := by
  unfold deliverFrames
  induction fs generalizing c with
  | nil => exact hs
  | cons f rest ih => exact ih (deliverFrame_keeps hs hne f)

/-! ### what the reader hands out -/

/-- Caller `r` holds the response frame produced for request `g`. -/
def holds (c : Conn) (r g : Nat) : Prop :=
  getCaller c.callers r = some (.delivered (.frame g)) ∨ getCaller c.callers r = some (.done (.frame g))

theorem findIdx_some {c : Conn} {s i : Nat} (h : c.server.findIdx? (fun p => p.1 == s) = some i) :
    ∃ r, c.server[i]? = some (s, r) := by
  obtain ⟨hlt, hp, _⟩ := List.findIdx?_eq_some_iff_getElem.mp h
  have e : (c.server[i]).1 = s := by simpa using hp
  refine ⟨(c.server[i]).2, ?_⟩
  rw [List.getElem?_eq_getElem hlt, ← e]

theorem findIdx_none {c : Conn} {s : Nat} (h : c.server.findIdx? (fun p => p.1 == s) = none) :
    s ∉ srvStreams c := by
  intro hm
  obtain ⟨⟨s', r'⟩, hm2, e⟩ := List.mem_map.mp hm
  simp only at e; subst e
  have := List.findIdx?_eq_none_iff.mp h (s', r') hm2
  simp at this

theorem not_any_of_not_mem {c : Conn} {s : Nat} (h : s ∉ srvStreams c) :
    ¬ (c.server.any (fun p => p.1 == s)) = true := by
  intro ha
  obtain ⟨⟨s', r'⟩, hm, e⟩ := List.any_eq_true.mp ha
  have : s' = s := by simpa using e
  subst this
  exact h (mem_streams hm)

/-- The state after an unsolicited frame (for any `s`): nobody newly holds a frame, the server's list is as before. -/
theorem unsolicited_effect {c : Conn} (h : Inv c) (s : Nat) (hs : s ∉ srvStreams c) :
    (step c (.unsolicited s)).server = c.server ∧
    ∀ r g, holds (step c (.unsolicited s)) r g → holds c r g := by
  simp only [step]
  split
  · exact ⟨rfl, fun _ _ h => h⟩
  · split
    · exact ⟨rfl, fun _ _ h => h⟩
    · simp only [not_any_of_not_mem hs, Bool.false_eq_true, if_false, lookup_unowed h.map hs]
      refine ⟨rfl, ?_⟩
      intro r g hh
      unfold holds at *
      rw [doBreak_callers] at hh
      split at hh
      · split at hh
        · rcases hh with e | e <;> cases e
        · split at hh
          · rcases hh with e | e <;> cases e
          · rcases hh with e | e <;> cases e
      · exact hh

/-- One frame: whoever newly holds a response is the request outstanding on the frame's stream, and the
server's list only shrinks. -/
theorem deliverFrame_effect {c : Conn} (h : Inv c) (f : Frame) :
    (∀ p, p ∈ (deliverFrame c f).server → p ∈ c.server) ∧
    ∀ r g, holds (deliverFrame c f) r g → holds c r g ∨ (0 ≤ f.stream ∧ (f.stream.toNat, r) ∈ c.server) := by
  unfold deliverFrame
  split
  · exact ⟨fun _ hp => hp, fun _ _ hh => Or.inl hh⟩
  · rename_i hneg
    have hpos : 0 ≤ f.stream := by omega
    simp only
    split
    · rename_i i hidx
      obtain ⟨r0, hi⟩ := findIdx_some hidx
      cases hb : c.broken with
      | true =>
        rw [step_broken_noop hb _ (Or.inl ⟨_, rfl⟩)]
        exact ⟨fun _ hp => hp, fun _ _ hh => Or.inl hh⟩
      | false =>
        obtain ⟨_, hsrv, hother⟩ := respond_owed h hb hi
        refine ⟨?_, ?_⟩
        · intro p hp; rw [hsrv] at hp; exact mem_of_mem_eraseIdx hp
        · intro r g hh
          by_cases e : r = r0
          · subst e; exact Or.inr ⟨hpos, List.mem_of_getElem? hi⟩
          · unfold holds at *
            rw [hother r e] at hh
            exact Or.inl hh
    · rename_i hidx
      have := unsolicited_effect h f.stream.toNat (findIdx_none hidx)
      exact ⟨fun p hp => this.1 ▸ hp, fun r g hh => Or.inl (this.2 r g hh)⟩

theorem deliverFrames_effect {c : Conn} (h : Inv c) (fs : List Frame) :
    (∀ p, p ∈ (deliverFrames c fs).server → p ∈ c.server) ∧
    ∀ r g, holds (deliverFrames c fs) r g →
      holds c r g ∨ ∃ f, f ∈ fs ∧ 0 ≤ f.stream ∧ (f.stream.toNat, r) ∈ c.server := by
  unfold deliverFrames
  induction fs generalizing c with
  | nil => exact ⟨fun _ hp => hp, fun _ _ hh => Or.inl hh⟩
  | cons f rest ih =>
    obtain ⟨hs1, hh1⟩ := deliverFrame_effect h f
    obtain ⟨hs2, hh2⟩ := ih (inv_deliverFrame h f)
    simp only [List.foldl_cons]
    refine ⟨fun p hp => hs1 p (hs2 p hp), ?_⟩
    intro r g hh
    rcases hh2 r g hh with h0 | ⟨f', hf', hp', hm'⟩
    · rcases hh1 r g h0 with h00 | ⟨hp, hm⟩
      · exact Or.inl h00
      · exact Or.inr ⟨f, List.mem_cons_self, hp, hm⟩
    · exact Or.inr ⟨f', List.mem_cons_of_mem _ hf', hp', hs1 _ hm'⟩

theorem readerEnd_holds {c : Conn} (t : Tail) (e : Bool) (r g : Nat) (hh : holds (readerEnd c t e) r g) :
    holds c r g := by
  have key : ∀ k, holds (step c (.break_ k)) r g → holds c r g := by
    intro k hk
    simp only [step] at hk
    split at hk
    · exact hk
    · unfold holds at *
      rw [doBreak_callers] at hk
      split at hk
      · split at hk
        · rcases hk with e | e <;> cases e
        · split at hk
          · rcases hk with e | e <;> cases e
          · rcases hk with e | e <;> cases e
      · exact hk
  unfold readerEnd at hh
  cases t <;> simp only at hh <;> (try split at hh) <;> first | exact hh | exact key _ hh

/-- Frames that answer distinct outstanding requests. -/
def Answers (c : Conn) (fs : List Frame) : Prop :=
  (fs.map (·.stream)).Nodup ∧ ∀ f, f ∈ fs → 0 ≤ f.stream ∧ f.stream.toNat ∈ srvStreams c

/-- Honest answers are all delivered: the router lives on, and every addressee that was still waiting now has
its own response in its oneshot. -/
theorem deliverFrames_delivers {c : Conn} (h : Inv c) (hb : c.broken = false) (fs : List Frame)
    (ha : Answers c fs) :
    (deliverFrames c fs).broken = false ∧
    ∀ f, f ∈ fs → ∀ r, (f.stream.toNat, r) ∈ c.server → getCaller c.callers r = some .waiting →
      getCaller (deliverFrames c fs).callers r = some (.delivered (.frame r)) := by
  unfold deliverFrames
  induction fs generalizing c with
  | nil => exact ⟨hb, fun f hf => by cases hf⟩
  | cons f rest ih =>
    obtain ⟨hnd, hall⟩ := ha
    obtain ⟨hpos, hstr⟩ := hall f List.mem_cons_self
    have hdf : ∃ i r0, c.server[i]? = some (f.stream.toNat, r0) ∧ deliverFrame c f = step c (.respond i) := by
      unfold deliverFrame
      have hneg : ¬ f.stream < 0 := by omega
      simp only [hneg, if_false]
      cases hidx : c.server.findIdx? (fun p => p.1 == f.stream.toNat) with
      | none => exact absurd hstr (findIdx_none hidx)
      | some i =>
        obtain ⟨r0, hi⟩ := findIdx_some hidx
        exact ⟨i, r0, hi, rfl⟩
    obtain ⟨i, r0, hi, hdf⟩ := hdf
    have hmem0 : (f.stream.toNat, r0) ∈ c.server := List.mem_of_getElem? hi
    obtain ⟨hb1, hsrv1, hother⟩ := respond_owed h hb hi
    have hinv1 : Inv (step c (.respond i)) := h.step _
    simp only [List.map_cons, List.nodup_cons] at hnd
    have hne_stream : ∀ g, g ∈ rest → g.stream.toNat ≠ f.stream.toNat := by
      intro g hg e
      have hg0 := (hall g (List.mem_cons_of_mem _ hg)).1
      have : g.stream = f.stream := by omega
      exact hnd.1 (List.mem_map.mpr ⟨g, hg, this⟩)
    have hkeep : ∀ s r, (s, r) ∈ c.server → s ≠ f.stream.toNat → (s, r) ∈ (step c (.respond i)).server := by
      intro s r hm hne
      rw [hsrv1]
      exact mem_eraseIdx_of_ne hm hi (by intro e; cases e; exact hne rfl)
    have ha1 : Answers (step c (.respond i)) rest := by
      refine ⟨hnd.2, ?_⟩
      intro g hg
      obtain ⟨hg0, hgs⟩ := hall g (List.mem_cons_of_mem _ hg)
      refine ⟨hg0, ?_⟩
      obtain ⟨⟨s', r'⟩, hm2, e⟩ := List.mem_map.mp hgs
      simp only at e; subst e
      exact mem_streams (hkeep _ r' hm2 (hne_stream g hg))
    obtain ⟨hbF, hdelF⟩ := ih hinv1 hb1 ha1
    simp only [List.foldl_cons, hdf]
    refine ⟨hbF, ?_⟩
    intro g hg r hm hw
    rcases List.mem_cons.mp hg with e | hg'
    · subst e
      have : r = r0 := pair_unique h.map.srvOnce hm hmem0
      subst this
      have hd := respond_reaches_waiting h hb hi hw
      exact deliverFrames_keeps hd (by intro e; cases e) rest
    · have hne := hne_stream g hg'
      have hr : r ≠ r0 := by
        intro e; subst e
        have two := two_entries_count hne hm hmem0
        have once := h.map.reqOnce r
        simp only [srvReqs] at once
        omega
      exact hdelF g hg' r (hkeep _ r hm hne) (by rw [hother r hr]; exact hw)

/-! ### the wire -/

/-- What the reader leaves in the buffer is what remains after a number of whole frames: the bytes it consumed are
the exact encodings of frames. -/
theorem reader_rest (b : List UInt8) (c : Conn) (e : Bool) :
    ∃ fs, b = encodeAll fs ++ (reader c b e).2 := by
  induction b using readFrames.induct generalizing c with
  | case1 bytes f rest hf hlt fs t hfs ih =>
    cases hb : c.broken with
    | true => rw [reader_broken hb]; exact ⟨[], by simp [encodeAll]⟩
    | false =>
      rw [reader_frame hb e hf]
      obtain ⟨fs', hfs'⟩ := ih (deliverFrame c f)
      refine ⟨f :: fs', ?_⟩
      have := (readFrame_exact bytes f rest hf).1
      rw [this]
      simp only [encodeAll, List.flatMap_cons, List.append_assoc]
      congr 1
  | case2 bytes hf =>
    have hstop : ∀ f rest, readFrame bytes ≠ .frame f rest := by intro f rest; rw [hf]; simp
    cases hb : c.broken with
    | true => rw [reader_broken hb]; exact ⟨[], by simp [encodeAll]⟩
    | false => rw [reader_stop hb e hstop]; exact ⟨[], by simp [encodeAll]⟩
  | case3 bytes n hf =>
    have hstop : ∀ f rest, readFrame bytes ≠ .frame f rest := by intro f rest; rw [hf]; simp
    cases hb : c.broken with
    | true => rw [reader_broken hb]; exact ⟨[], by simp [encodeAll]⟩
    | false => rw [reader_stop hb e hstop]; exact ⟨[], by simp [encodeAll]⟩
  | case4 bytes m l hf =>
    have hstop : ∀ f rest, readFrame bytes ≠ .frame f rest := by intro f rest; rw [hf]; simp
    cases hb : c.broken with
    | true => rw [reader_broken hb]; exact ⟨[], by simp [encodeAll]⟩
    | false => rw [reader_stop hb e hstop]; exact ⟨[], by simp [encodeAll]⟩
  | case5 bytes w hf =>
    have hstop : ∀ f rest, readFrame bytes ≠ .frame f rest := by intro f rest; rw [hf]; simp
    cases hb : c.broken with
    | true => rw [reader_broken hb]; exact ⟨[], by simp [encodeAll]⟩
    | false => rw [reader_stop hb e hstop]; exact ⟨[], by simp [encodeAll]⟩

/-- Frame alignment is an invariant of the wire: at any time the bytes received so far are a number of whole,
exactly encoded frames followed by what is still buffered. -/
def Aligned (w : Wire) : Prop := ∃ fs, w.received = encodeAll fs ++ w.inbuf

theorem encodeAll_append (a b : List Frame) : encodeAll (a ++ b) = encodeAll a ++ encodeAll b := by
  simp [encodeAll]

theorem aligned_step {w : Wire} (h : Aligned w) (e : WEv) : Aligned (wstep w e) := by
  obtain ⟨fs, hfs⟩ := h
  cases e with
  | bytes bs =>
    simp only [wstep]
    split
    · exact ⟨fs, hfs⟩
    · obtain ⟨fs', hfs'⟩ := reader_rest (w.inbuf ++ bs) w.c false
      refine ⟨fs ++ fs', ?_⟩
      show w.received ++ bs = encodeAll (fs ++ fs') ++ (reader w.c (w.inbuf ++ bs) false).2
      rw [encodeAll_append, List.append_assoc, ← hfs', hfs, List.append_assoc]
  | close =>
    simp only [wstep]
    split
    · exact ⟨fs, hfs⟩
    · obtain ⟨fs', hfs'⟩ := reader_rest w.inbuf w.c true
      refine ⟨fs ++ fs', ?_⟩
      show w.received = encodeAll (fs ++ fs') ++ (reader w.c w.inbuf true).2
      rw [encodeAll_append, List.append_assoc, ← hfs', hfs]
  | conn e => exact ⟨fs, hfs⟩

theorem aligned_run {w : Wire} (h : Aligned w) (evs : List WEv) : Aligned (wrun w evs) := by
  unfold wrun
  induction evs generalizing w with
  | nil => exact h
  | cons e rest ih => exact ih (aligned_step h e)

theorem inv_wstep {w : Wire} (h : Inv w.c) (e : WEv) : Inv (wstep w e).c := by
  cases e with
  | bytes bs => simp only [wstep]; split; exact h; exact inv_reader h _ _
  | close => simp only [wstep]; split; exact h; exact inv_reader h _ _
  | conn e => exact h.step e

theorem inv_wrun {w : Wire} (h : Inv w.c) (evs : List WEv) : Inv (wrun w evs).c := by
  unfold wrun
  induction evs generalizing w with
  | nil => exact h
  | cons e rest ih => exact ih (inv_wstep h e)

theorem readFrame_bad_append (a b : List UInt8) (w : BadHeader) (h : readFrame a = .bad w) :
    readFrame (a ++ b) = .bad w := by
  unfold readFrame at h
  split at h
  · cases h
  · rename_i v fl s1 s0 op l3 l2 l1 l0 tl
    simp only [List.cons_append, readFrame]
    split at h
    · rename_i h1; simp only [h1, if_true]; exact h
    · rename_i h1
      simp only [h1, if_false]
      split at h
      · rename_i h2; simp only [h2, if_true]; exact h
      · rename_i h2
        simp only [h2, if_false]
        split at h
        · rename_i h3; simp only [h3, if_true]; exact h
        · simp only at h
          split at h <;> cases h
  · cases h

/-- How the response bytes are cut into chunks does not matter: feeding `a` and then `b` (nothing else happening in
between) leaves the same state as feeding `a ++ b`. -/
theorem reader_chunks (a : List UInt8) (b : List UInt8) (c : Conn) (e : Bool) :
    reader (reader c a false).1 ((reader c a false).2 ++ b) e = reader c (a ++ b) e := by
  induction a using readFrames.induct generalizing c with
  | case1 bytes f rest hf hlt fs t hfs ih =>
    cases hb : c.broken with
    | true => rw [reader_broken hb]
    | false =>
      obtain ⟨hex, hwf⟩ := readFrame_exact bytes f rest hf
      have hf2 : readFrame (bytes ++ b) = .frame f (rest ++ b) := by
        rw [hex, List.append_assoc]; exact readFrame_encode f hwf _
      rw [reader_frame hb false hf, reader_frame hb e hf2]
      exact ih (deliverFrame c f)
  | case2 bytes hf =>
    have hstop : ∀ f rest, readFrame bytes ≠ .frame f rest := by intro f rest; rw [hf]; simp
    cases hb : c.broken with
    | true => rw [reader_broken hb]
    | false => rw [reader_stop hb false hstop, hf]; rfl
  | case3 bytes n hf =>
    have hstop : ∀ f rest, readFrame bytes ≠ .frame f rest := by intro f rest; rw [hf]; simp
    cases hb : c.broken with
    | true => rw [reader_broken hb]
    | false => rw [reader_stop hb false hstop, hf]; rfl
  | case4 bytes m l hf =>
    have hstop : ∀ f rest, readFrame bytes ≠ .frame f rest := by intro f rest; rw [hf]; simp
    cases hb : c.broken with
    | true => rw [reader_broken hb]
    | false => rw [reader_stop hb false hstop, hf]; rfl
  | case5 bytes w hf =>
    have hstop : ∀ f rest, readFrame bytes ≠ .frame f rest := by intro f rest; rw [hf]; simp
    cases hb : c.broken with
    | true => rw [reader_broken hb]
    | false =>
      rw [reader_stop hb false hstop, hf]
      have hbr : (readerStop c (.bad w) false).broken = true := break_sets_broken _ _
      show reader (readerStop c (.bad w) false) (bytes ++ b) e = _
      rw [reader_broken hbr]
      have hstop2 : ∀ f rest, readFrame (bytes ++ b) ≠ .frame f rest := by
        intro f rest; rw [readFrame_bad_append bytes b w hf]; simp
      rw [reader_stop hb e hstop2, readFrame_bad_append bytes b w hf]
      rfl

/-! ### the reader of a connection WITH an event sender (`readerEv`) -/

theorem readerEv_broken (ok : Frame → Bool) (ch : EvChan) {c : Conn} (hb : c.broken = true) (b : List UInt8)
    (e : Bool) : readerEv ok ch c b e = (c, b, ch) := by
  rw [readerEv]; simp [hb]

theorem readerEv_frame (ok : Frame → Bool) (ch : EvChan) {c : Conn} (hb : c.broken = false) {b rest : List UInt8}
    {f : Frame} (e : Bool) (h : readFrame b = .frame f rest) :
    readerEv ok ch c b e =
      match deliverFrameEv ok ch c f with
      | none => (c, b, ch)
      | some (c', ch') => readerEv ok ch' c' rest e := by
  rw [readerEv]
  simp only [hb, Bool.false_eq_true, if_false]
  split
  · rename_i f' rest' hf'
    rw [h] at hf'
    cases hf'; rfl
  · rename_i hne
    exact absurd h (hne f rest)

theorem readerEv_stop (ok : Frame → Bool) (ch : EvChan) {c : Conn} (hb : c.broken = false) {b : List UInt8} (e : Bool)
    (h : ∀ f rest, readFrame b ≠ .frame f rest) : readerEv ok ch c b e = (readerStop c (readFrame b) e, b, ch) := by
  rw [readerEv]
  simp only [hb, Bool.false_eq_true, if_false]

/-- The reader is PARKED on a full event channel: exactly the case in which `deliverFrameEv` answers `none`. -/
theorem deliverFrameEv_none {ok : Frame → Bool} {ch : EvChan} {c : Conn} {f : Frame}
    (h : deliverFrameEv ok ch c f = none) :
    f.stream = -1 ∧ c.broken = false ∧ ok f = true ∧ ch.closed = false ∧ ch.room = 0 := by
  unfold deliverFrameEv at h
  split at h
  · rename_i hs
    split at h
    · cases h
    · rename_i hb
      split at h
      · cases h
      · rename_i hok
        split at h
        · cases h
        · rename_i hcl
          split at h
          · rename_i hr
            exact ⟨hs, by simpa using hb, by simpa using hok, by simpa using hcl, hr⟩
          · cases h
  · cases h

theorem inv_deliverFrameEv {ok : Frame → Bool} {ch ch' : EvChan} {c c' : Conn} (h : Inv c) {f : Frame}
    (hd : deliverFrameEv ok ch c f = some (c', ch')) : Inv c' := by
  unfold deliverFrameEv at hd
  split at hd
  · split at hd
    · cases hd; exact h
    · split at hd
      · cases hd; exact h.step _
      · split at hd
        · cases hd; exact h.step _
        · split at hd
          · cases hd
          · cases hd; exact h
  · cases hd; exact inv_deliverFrame h f

theorem inv_readerStop {c : Conn} (h : Inv c) (r : ReadRes) (e : Bool) : Inv (readerStop c r e) := by
  unfold readerStop
  cases r <;> simp only <;> (try split) <;> first | exact h | exact h.step _

/-- The invariant of the connection model holds along the reader of a connection with an event sender. -/
theorem inv_readerEv (ok : Frame → Bool) (e : Bool) :
    ∀ (n : Nat) (b : List UInt8), b.length ≤ n → ∀ (ch : EvChan) (c : Conn), Inv c → Inv (readerEv ok ch c b e).1 := by
  intro n
  induction n with
  | zero =>
    intro b hn ch c h
    cases hb : c.broken with
    | true => rw [readerEv_broken ok ch hb]; exact h
    | false =>
      have hstop : ∀ f rest, readFrame b ≠ .frame f rest := by
        intro f rest hf; have := readFrame_rest_lt hf; omega
      rw [readerEv_stop ok ch hb e hstop]; exact inv_readerStop h _ _
  | succ n ih =>
    intro b hn ch c h
    cases hb : c.broken with
    | true => rw [readerEv_broken ok ch hb]; exact h
    | false =>
      by_cases hfr : ∃ f rest, readFrame b = .frame f rest
      · obtain ⟨f, rest, hf⟩ := hfr
        rw [readerEv_frame ok ch hb e hf]
        cases hd : deliverFrameEv ok ch c f with
        | none => exact h
        | some p =>
          obtain ⟨c', ch'⟩ := p
          have := readFrame_rest_lt hf
          exact ih rest (by omega) ch' c' (inv_deliverFrameEv h hd)
      · have hstop : ∀ f rest, readFrame b ≠ .frame f rest := fun f rest hf => hfr ⟨f, rest, hf⟩
        rw [readerEv_stop ok ch hb e hstop]; exact inv_readerStop h _ _

/-- The reader of a connection with an event sender stopped because it is parked in `event_sender.send(..).await`:
the router has NOT ended, and the next thing in its buffer is a well-formed event for which the (still open) event
channel has no room. -/
def Parked (ok : Frame → Bool) (r : Conn × List UInt8 × EvChan) : Prop :=
  r.1.broken = false ∧ ∃ f rest, readFrame r.2.1 = .frame f rest ∧ f.stream = -1 ∧ ok f = true ∧
    r.2.2.closed = false ∧ r.2.2.room = 0

theorem readerStop_eof_broken (c : Conn) (r : ReadRes) (h : ∀ f rest, r ≠ .frame f rest) :
    (readerStop c r true).broken = true := by
  unfold readerStop
  cases r with
  | frame f rest => exact absurd rfl (h f rest)
  | bad w => exact break_sets_broken _ _
  | empty => simp [break_sets_broken]
  | cutInHeader n => simp [break_sets_broken]
  | cutInBody m l => simp [break_sets_broken]

/-- After the peer has closed, the reader of a connection with an event sender has either ended the router, or it is
parked on a full event channel — there is no third state. -/
theorem readerEv_eof (ok : Frame → Bool) :
    ∀ (n : Nat) (b : List UInt8), b.length ≤ n → ∀ (ch : EvChan) (c : Conn),
      (readerEv ok ch c b true).1.broken = true ∨ Parked ok (readerEv ok ch c b true) := by
  intro n
  induction n with
  | zero =>
    intro b hn ch c
    cases hb : c.broken with
    | true => rw [readerEv_broken ok ch hb]; exact .inl hb
    | false =>
      have hstop : ∀ f rest, readFrame b ≠ .frame f rest := by
        intro f rest hf; have := readFrame_rest_lt hf; omega
      rw [readerEv_stop ok ch hb true hstop]; exact .inl (readerStop_eof_broken _ _ hstop)
  | succ n ih =>
    intro b hn ch c
    cases hb : c.broken with
    | true => rw [readerEv_broken ok ch hb]; exact .inl hb
    | false =>
      by_cases hfr : ∃ f rest, readFrame b = .frame f rest
      · obtain ⟨f, rest, hf⟩ := hfr
        rw [readerEv_frame ok ch hb true hf]
        cases hd : deliverFrameEv ok ch c f with
        | none =>
          obtain ⟨h1, _, h3, h4, h5⟩ := deliverFrameEv_none hd
          exact .inr ⟨hb, f, rest, hf, h1, h3, h4, h5⟩
        | some p =>
          obtain ⟨c', ch'⟩ := p
          have := readFrame_rest_lt hf
          exact ih rest (by omega) ch' c'
      · have hstop : ∀ f rest, readFrame b ≠ .frame f rest := fun f rest hf => hfr ⟨f, rest, hf⟩
        rw [readerEv_stop ok ch hb true hstop]; exact .inl (readerStop_eof_broken _ _ hstop)

theorem deliverFrameEv_room {ok : Frame → Bool} {ch ch' : EvChan} {c c' : Conn} {f : Frame}
    (hd : deliverFrameEv ok ch c f = some (c', ch')) : ch.room ≤ ch'.room + 1 := by
  unfold deliverFrameEv at hd
  split at hd
  · split at hd
    · cases hd; omega
    · split at hd
      · cases hd; omega
      · split at hd
        · cases hd; omega
        · split at hd
          · cases hd
          · cases hd; simp only; omega
  · cases hd; omega

/-- With enough room in the event channel (a slot for every event the bytes can hold - a consumer that keeps up) the
reader is never parked: after the peer has closed the router has ended. -/
theorem readerEv_eof_room (ok : Frame → Bool) :
    ∀ (n : Nat) (b : List UInt8), b.length ≤ n → ∀ (ch : EvChan) (c : Conn), b.length ≤ ch.room →
      (readerEv ok ch c b true).1.broken = true := by
  intro n
  induction n with
  | zero =>
    intro b hn ch c _
    cases hb : c.broken with
    | true => rw [readerEv_broken ok ch hb]; exact hb
    | false =>
      have hstop : ∀ f rest, readFrame b ≠ .frame f rest := by
        intro f rest hf; have := readFrame_rest_lt hf; omega
      rw [readerEv_stop ok ch hb true hstop]; exact readerStop_eof_broken _ _ hstop
  | succ n ih =>
    intro b hn ch c hroom
    cases hb : c.broken with
    | true => rw [readerEv_broken ok ch hb]; exact hb
    | false =>
      by_cases hfr : ∃ f rest, readFrame b = .frame f rest
      · obtain ⟨f, rest, hf⟩ := hfr
        rw [readerEv_frame ok ch hb true hf]
        have hlt := readFrame_rest_lt hf
        cases hd : deliverFrameEv ok ch c f with
        | none =>
          obtain ⟨_, _, _, _, h5⟩ := deliverFrameEv_none hd
          omega
        | some p =>
          obtain ⟨c', ch'⟩ := p
          have := deliverFrameEv_room hd
          exact ih rest (by omega) ch' c' (by omega)
      · have hstop : ∀ f rest, readFrame b ≠ .frame f rest := fun f rest hf => hfr ⟨f, rest, hf⟩
        rw [readerEv_stop ok ch hb true hstop]; exact readerStop_eof_broken _ _ hstop

end ScyllaVerif.ConnIO

/-
C03: the statement-by-statement transliteration of Cassandra's Java (`Murmur3.Java.*`) computes the same function as
the one-shot form `murmur3Raw` the chunking theorem is stated against.
-/
import ScyllaVerif.Model.Murmur3
import ScyllaVerif.Proofs.Murmur3

namespace ScyllaVerif.Proofs.Murmur3Java
open ScyllaVerif.Murmur3 ScyllaVerif.Proofs.Murmur3

/-! ### bytes -/

private theorem toLong_ofNat : ∀ n, n < 256 → Java.toLong (UInt8.ofNat n) = sext (UInt8.ofNat n) := by
  decide +kernel

private theorem mask_ofNat : ∀ n, n < 256 →
    (Java.toLong (UInt8.ofNat n) &&& (0xff : UInt64)) = (UInt8.ofNat n).toUInt64 := by
  decide +kernel

/-- `(long) b` is the sign extension `b as i8 as i64`. -/
theorem toLong_eq_sext (b : UInt8) : Java.toLong b = sext b := by
  have := toLong_ofNat b.toNat b.toNat_lt
  rwa [UInt8.ofNat_toNat] at this

/-- `(long) b & 0xff` is the unsigned byte. -/
theorem toLong_mask (b : UInt8) : (Java.toLong b &&& (0xff : UInt64)) = b.toUInt64 := by
  have := mask_ofNat b.toNat b.toNat_lt
  rwa [UInt8.ofNat_toNat] at this

/-! ### `getblock` is the little-endian load -/

/-- `Σ_{i<n} bs[i] · 256^i` -/
def sumLE (bs : List UInt8) : Nat → Nat
  | 0 => 0
  | n + 1 => sumLE bs n + (bs.getD n 0).toNat * 2 ^ (8 * n)

theorem sumLE_lt (bs : List UInt8) (n : Nat) : sumLE bs n < 2 ^ (8 * n) := by
  induction n with
  | zero => simp [sumLE]
  | succ n ih =>
    have hb : (bs.getD n 0).toNat < 256 := (bs.getD n 0).toNat_lt
    have hp : 2 ^ (8 * (n + 1)) = 256 * 2 ^ (8 * n) := by
      rw [Nat.mul_succ, Nat.pow_add]; omega
    have hm : (bs.getD n 0).toNat * 2 ^ (8 * n) ≤ 255 * 2 ^ (8 * n) := Nat.mul_le_mul_right _ (by omega)
    simp only [sumLE]
    omega

private theorem le64_fold (bs : List UInt8) (n : Nat) (hn : n ≤ 8) :
    ((List.range n).foldl
      (fun acc i => acc ||| ((bs.getD i 0).toUInt64 <<< (UInt64.ofNat (8 * i)))) (0 : UInt64)).toNat = sumLE bs n := by
  induction n with
  | zero => rfl
  | succ n ih =>
    rw [List.range_succ, List.foldl_append]
    simp only [List.foldl_cons, List.foldl_nil]
    rw [UInt64.toNat_or, ih (by omega), UInt64.toNat_shiftLeft, UInt8.toNat_toUInt64, UInt64.toNat_ofNat']
    have h8 : 8 * n % 2 ^ 64 % 64 = 8 * n := by omega
    have hlt := sumLE_lt bs n
    have hb : (bs.getD n 0).toNat < 256 := (bs.getD n 0).toNat_lt
    have hpow : 2 ^ (8 * n) ≤ 2 ^ 56 := Nat.pow_le_pow_right (by omega) (by omega)
    have hm : (bs.getD n 0).toNat * 2 ^ (8 * n) ≤ 255 * 2 ^ (8 * n) := Nat.mul_le_mul_right _ (by omega)
    have hsmall : (bs.getD n 0).toNat <<< (8 * n) < 2 ^ 64 := by
      rw [Nat.shiftLeft_eq]
      have : (255 : Nat) * 2 ^ 56 < 2 ^ 64 := by decide
      omega
    rw [h8, Nat.mod_eq_of_lt hsmall, Nat.or_comm, ← Nat.shiftLeft_add_eq_or_of_lt hlt, Nat.shiftLeft_eq]
    simp only [sumLE]
    omega

theorem le64_toNat (bs : List UInt8) : (le64 bs).toNat = sumLE bs 8 := le64_fold bs 8 (Nat.le_refl _)

private theorem pow8_succ (n : Nat) : 2 ^ (8 * (n + 1)) = 256 * 2 ^ (8 * n) := by
  rw [Nat.mul_succ, Nat.pow_add]; omega

/-- One `+ ((b & 0xff) << 8n)` of `getblock`: no carry, no overflow. -/
private theorem add_step (acc : UInt64) (b : UInt8) (n : Nat) (hn : n < 8) (s : UInt64) (hs : s.toNat = 8 * n)
    (v : Nat) (hv : acc.toNat = v) (hlt : v < 2 ^ (8 * n)) :
    (acc + (b.toUInt64 <<< s)).toNat = v + b.toNat * 2 ^ (8 * n) := by
  rw [UInt64.toNat_add, UInt64.toNat_shiftLeft, UInt8.toNat_toUInt64, hs, hv, Nat.shiftLeft_eq]
  have h8 : 8 * n % 64 = 8 * n := by omega
  rw [h8]
  have hb : b.toNat < 256 := b.toNat_lt
  have hpow : 2 ^ (8 * n) ≤ 2 ^ 56 := Nat.pow_le_pow_right (by omega) (by omega)
  have hm : b.toNat * 2 ^ (8 * n) ≤ 255 * 2 ^ (8 * n) := Nat.mul_le_mul_right _ (by omega)
  have h56 : (2 : Nat) ^ 56 = 72057594037927936 := by decide
  have h64 : (2 : Nat) ^ 64 = 18446744073709551616 := by decide
  generalize 2 ^ (8 * n) = P at *
  generalize b.toNat * P = bP at *
  rw [h64]
  rw [h56] at hpow
  have e1 : bP % 18446744073709551616 = bP := Nat.mod_eq_of_lt (by omega)
  rw [e1]
  exact Nat.mod_eq_of_lt (by omega)

theorem getblock_toNat (key : List UInt8) (offset index : Nat) :
    (Java.getblock key offset index).toNat = sumLE (key.drop (offset + 8 * index)) 8 := by
  have hget : ∀ j, (key.drop (offset + 8 * index)).getD j 0 = Java.get key (offset + index <<< 3 + j) := by
    intro j
    unfold Java.get
    rw [Nat.shiftLeft_eq]
    simp only [List.getD, List.getElem?_drop]
    congr 2
    omega
  unfold Java.getblock
  simp only [toLong_mask]
  have hs := sumLE_lt (key.drop (offset + 8 * index))
  generalize hS : sumLE (key.drop (offset + 8 * index)) = S at hs
  have hS' : ∀ n, S (n + 1) = S n + (Java.get key (offset + index <<< 3 + n)).toNat * 2 ^ (8 * n) := by
    intro n; rw [← hS, ← hget]; rfl
  have hS0 : S 0 = 0 := by rw [← hS]; rfl
  have e0 : (Java.get key (offset + index <<< 3 + 0)).toUInt64.toNat = S 1 := by
    rw [UInt8.toNat_toUInt64, hS', hS0]; simp
  have e1 := add_step _ (Java.get key (offset + index <<< 3 + 1)) 1 (by omega) 8 (by decide) _ e0 (hs 1)
  rw [← hS' 1] at e1
  have e2 := add_step _ (Java.get key (offset + index <<< 3 + 2)) 2 (by omega) 16 (by decide) _ e1 (hs 2)
  rw [← hS' 2] at e2
  have e3 := add_step _ (Java.get key (offset + index <<< 3 + 3)) 3 (by omega) 24 (by decide) _ e2 (hs 3)
  rw [← hS' 3] at e3
  have e4 := add_step _ (Java.get key (offset + index <<< 3 + 4)) 4 (by omega) 32 (by decide) _ e3 (hs 4)
  rw [← hS' 4] at e4
  have e5 := add_step _ (Java.get key (offset + index <<< 3 + 5)) 5 (by omega) 40 (by decide) _ e4 (hs 5)
  rw [← hS' 5] at e5
  have e6 := add_step _ (Java.get key (offset + index <<< 3 + 6)) 6 (by omega) 48 (by decide) _ e5 (hs 6)
  rw [← hS' 6] at e6
  have e7 := add_step _ (Java.get key (offset + index <<< 3 + 7)) 7 (by omega) 56 (by decide) _ e6 (hs 7)
  rw [← hS' 7] at e7
  exact e7

/-- `getblock(key, offset, index)` loads the 8 bytes at `offset + 8·index` little-endian. -/
theorem getblock_eq_le64 (key : List UInt8) (offset index : Nat) :
    Java.getblock key offset index = le64 (key.drop (offset + 8 * index)) := by
  apply UInt64.toNat_inj.mp
  rw [getblock_toNat, le64_toNat]

/-! ### the block loop -/

theorem loopBody_eq_hash16 (h : St) (k1 k2 : UInt64) : Java.loopBody h k1 k2 = hash16 h (k1, k2) := by
  unfold Java.loopBody hash16 mixK1 mixK2
  rfl

theorem blocks_snoc (h : St) (bs : List UInt8) (n : Nat) :
    blocks h bs (n + 1) = hash16 (blocks h bs n) (fetch16 (bs.drop (16 * n))) := by
  induction n generalizing h bs with
  | zero => simp [blocks]
  | succ n ih =>
    rw [blocks_succ, ih, blocks_succ, List.drop_drop]
    congr 3
    omega

theorem loop_eq_blocks (key : List UInt8) (n : Nat) (h0 : St) :
    (List.range n).foldl
      (fun h i => Java.loopBody h (Java.getblock key 0 (i * 2 + 0)) (Java.getblock key 0 (i * 2 + 1))) h0 =
    blocks h0 key n := by
  induction n with
  | zero => rfl
  | succ n ih =>
    rw [List.range_succ, List.foldl_append, ih, blocks_snoc]
    simp only [List.foldl_cons, List.foldl_nil]
    rw [loopBody_eq_hash16, getblock_eq_le64, getblock_eq_le64]
    unfold fetch16
    rw [List.drop_drop]
    congr 4 <;> omega

/-! ### the tail switch -/

theorem c1_eq : Java.c1 = c1 := rfl
theorem c2_eq : Java.c2 = c2 := rfl
theorem rotl_eq (v n : UInt64) : Java.rotl64 v n = rotl64 v n := rfl

theorem mixK1_eq (k : UInt64) : Java.rotl64 (k * Java.c1) 31 * Java.c2 = mixK1 k := by
  unfold mixK1; rw [c1_eq, c2_eq, rotl_eq]

theorem mixK2_eq (k : UInt64) : Java.rotl64 (k * Java.c2) 33 * Java.c1 = mixK2 k := by
  unfold mixK2; rw [c1_eq, c2_eq, rotl_eq]

/-- The 15-case fall-through `switch` computes the two sign-extended tail words (`sw` = `length & 15`). -/
theorem tailSwitch_eq (key : List UInt8) (offset sw : Nat) (h : St) (hsw : sw < 16) :
    Java.tailSwitch key offset sw h.1 h.2 =
      (if sw > 0 then h.1 ^^^ mixK1 (tailXor (key.drop offset) 0 (min 8 sw)) else h.1,
       if sw > 8 then h.2 ^^^ mixK2 (tailXor (key.drop offset) 8 sw) else h.2) := by
  have hget : ∀ j, Java.toLong (Java.get key (offset + j)) = sext ((key.drop offset).getD j 0) := by
    intro j
    rw [toLong_eq_sext]
    unfold Java.get
    simp [List.getD, List.getElem?_drop]
  have hget0 : Java.toLong (Java.get key offset) = sext ((key.drop offset).getD 0 0) <<< 0 := by
    rw [UInt64.shiftLeft_zero]; exact hget 0
  have hcases : sw = 0 ∨ sw = 1 ∨ sw = 2 ∨ sw = 3 ∨ sw = 4 ∨ sw = 5 ∨ sw = 6 ∨ sw = 7 ∨ sw = 8 ∨ sw = 9 ∨
      sw = 10 ∨ sw = 11 ∨ sw = 12 ∨ sw = 13 ∨ sw = 14 ∨ sw = 15 := by omega
  unfold Java.tailSwitch
  rcases hcases with h | h | h | h | h | h | h | h | h | h | h | h | h | h | h | h <;> subst h <;>
    simp -zeta only [Nat.reduceLeDiff, ↓reduceIte, hget, hget0, mixK1_eq, mixK2_eq] <;> rfl

/-! ### the whole function -/

theorem fmix_eq (k : UInt64) : Java.fmix k = fmix k := by
  unfold Java.fmix fmix
  rfl

/-- The Java transliteration and the one-shot form agree on every byte string. -/
theorem java_eq_raw (key : List UInt8) : (Java.hash3_x64_128 key).1 = murmur3Raw key := by
  have hsh : key.length >>> 4 = key.length / 16 := by
    rw [Nat.shiftRight_eq_div_pow]
  have hand : key.length &&& 15 = key.length % 16 := by
    have : (15 : Nat) = 2 ^ 4 - 1 := by decide
    rw [this, Nat.and_two_pow_sub_one_eq_mod]
  unfold Java.hash3_x64_128 murmur3Raw tailAndFinal finalMix
  simp only [hsh, hand, loop_eq_blocks]
  rw [tailSwitch_eq _ _ _ _ (Nat.mod_lt _ (by decide))]
  simp only [fmix_eq]
  have : key.length / 16 * 16 = 16 * (key.length / 16) := Nat.mul_comm _ _
  rw [this]

/-- `Murmur3Partitioner.getToken` on a non-empty key is `murmur3Spec`. -/
theorem getToken_eq_spec (key : List UInt8) (hne : key ≠ []) : Java.getToken key = murmur3Spec key := by
  unfold Java.getToken murmur3Spec tokenNew
  have : key.length ≠ 0 := by
    intro h; exact hne (List.eq_nil_of_length_eq_zero h)
  rw [if_neg this, java_eq_raw]

end ScyllaVerif.Proofs.Murmur3Java

import ScyllaVerif.Model.Carrier
import ScyllaVerif.Proofs.Vint
/-
Helper lemmas for C17 about `Model/Carrier.lean`: every serializer only ever *appends* to the buffer it is given
(whether it succeeds or fails), and a successful top-level serialization appends exactly one well-framed cell.
-/
namespace ScyllaVerif.Proofs.Carrier
open ScyllaVerif.Vint ScyllaVerif.Cql ScyllaVerif.Carrier ScyllaVerif.Proofs.Vint

/-- The buffer after the call extends the buffer before it. -/
def App (f : Bytes → Res) : Prop := ∀ b, ∃ s, (f b).1 = b ++ s

theorem be32_length (n : Nat) : (be32 n).length = 4 := beBytes_length 4 n

@[simp] theorem wrap_fst (st : Step) (r : Res) : (wrap st r).1 = r.1 := by
  obtain ⟨b, e⟩ := r
  cases e <;> rfl

theorem wrap_snd_none (st : Step) (r : Res) : (wrap st r).2 = none ↔ r.2 = none := by
  obtain ⟨b, e⟩ := r
  cases e <;> simp [wrap]

theorem serLeaf_app (k : SerKind) : App (fun b => serLeaf b k) := fun b => ⟨[], by simp [serLeaf]⟩

theorem setValue_app (ws : Bool) (c : Bytes) : App (setValue ws c) := by
  intro b
  unfold setValue
  split
  · exact ⟨[], by simp [serLeaf]⟩
  · split
    · exact ⟨be32 c.length ++ c, by simp⟩
    · exact ⟨c, rfl⟩

theorem foldSer_app {α : Type} (f : α → Bytes → Res) (vs : List α) (h : ∀ v, v ∈ vs → App (f v)) :
    App (foldSer f vs) := by
  induction vs with
  | nil => intro b; exact ⟨[], by simp [foldSer]⟩
  | cons v vs ih =>
    intro b
    obtain ⟨s1, h1⟩ := h v (by simp) b
    unfold foldSer
    generalize hr : f v b = r at h1
    obtain ⟨b1, e⟩ := r
    simp only at h1
    cases e with
    | some e => exact ⟨s1, h1⟩
    | none =>
      obtain ⟨s2, h2⟩ := ih (fun w hw => h w (by simp [hw])) b1
      subst h1
      exact ⟨s1 ++ s2, by rw [h2, List.append_assoc]⟩

theorem varElem_app (f : RVal → Bytes → Res) (v : RVal) : App (varElem f v) := by
  intro b
  unfold varElem
  generalize f v [] = r
  obtain ⟨eb, e⟩ := r
  cases e with
  | some e => exact ⟨[], by simp⟩
  | none => exact ⟨uvintEnc (BitVec.ofNat 64 eb.length) ++ eb, by simp⟩

theorem pairSer_app (fk fv : RVal → Bytes → Res) (kv : RVal × RVal) (hk : App (fk kv.1)) (hv : App (fv kv.2)) :
    App (pairSer fk fv kv) := by
  intro b
  unfold pairSer
  obtain ⟨s1, h1⟩ := hk b
  generalize hr : fk kv.1 b = r at h1
  obtain ⟨b1, e⟩ := r
  simp only at h1
  cases e with
  | some e => exact ⟨s1, by simp [wrap, h1]⟩
  | none =>
    obtain ⟨s2, h2⟩ := hv b1
    subst h1
    refine ⟨s1 ++ s2, ?_⟩
    rw [show wrap Step.key (b ++ s1, none) = (b ++ s1, none) from rfl]
    simp only [wrap_fst, h2, List.append_assoc]

theorem seqBody_app (n : Nat) (loop : Bytes → Res) (h : App loop) : App (seqBody n loop) := by
  intro b
  unfold seqBody
  split
  · exact ⟨[], by simp [serLeaf]⟩
  · obtain ⟨s, hs⟩ := h (b ++ be32 n)
    exact ⟨be32 n ++ s, by simp [hs]⟩

/-- What `framed` does, given that its body only appends: the placeholder is back-patched to the body length. -/
theorem framed_spec (ws : Bool) (buf : Bytes) (inner : Bytes → Res) (h : App inner) :
    ∃ s, (inner (builderNew ws buf)).1 = builderNew ws buf ++ s ∧
      (((inner (builderNew ws buf)).2 ≠ none ∧ framed ws buf inner = inner (builderNew ws buf)) ∨
       ((inner (builderNew ws buf)).2 = none ∧ ws = true ∧ s.length > i32Max ∧
          framed ws buf inner = (buf ++ placeholder ++ s, some ⟨[], .sizeOverflow⟩)) ∨
       ((inner (builderNew ws buf)).2 = none ∧ ws = true ∧ s.length ≤ i32Max ∧
          framed ws buf inner = (buf ++ be32 s.length ++ s, none)) ∨
       ((inner (builderNew ws buf)).2 = none ∧ ws = false ∧ framed ws buf inner = (buf ++ s, none))) := by
  obtain ⟨s, hs⟩ := h (builderNew ws buf)
  refine ⟨s, hs, ?_⟩
  unfold framed
  generalize hr : inner (builderNew ws buf) = r at hs
  obtain ⟨b, e⟩ := r
  simp only at hs
  cases e with
  | some e => left; simp
  | none =>
    right
    cases ws with
    | false =>
      right; right
      simp [builderFinish, builderNew] at hs ⊢
      exact hs
    | true =>
      have hb : b = buf ++ placeholder ++ s := by simpa [builderNew] using hs
      have hlen : b.length - buf.length - 4 = s.length := by
        simp [hb, placeholder]
      by_cases hbig : s.length > i32Max
      · left
        subst hb
        simp only [builderFinish, if_true, hlen, hbig, serLeaf]
        simp
      · right; left
        have htake : b.take buf.length = buf := by
          rw [hb, List.append_assoc]; simp
        have hdrop : b.drop (buf.length + 4) = s := by
          rw [hb]
          have : (buf ++ placeholder).length = buf.length + 4 := by simp [placeholder]
          rw [← this, List.drop_left]
        simp only [builderFinish, if_true, hlen, hbig, if_false, htake, hdrop]
        simp; omega

theorem framed_app (ws : Bool) (inner : Bytes → Res) (h : App inner) : App (fun b => framed ws b inner) := by
  intro buf
  obtain ⟨s, hs, hc⟩ := framed_spec ws buf inner h
  rcases hc with ⟨_, he⟩ | ⟨_, _, _, he⟩ | ⟨_, _, _, he⟩ | ⟨_, _, he⟩
  · simp only [he, hs]
    cases ws
    · exact ⟨s, by simp [builderNew]⟩
    · exact ⟨placeholder ++ s, by simp [builderNew]⟩
  · exact ⟨placeholder ++ s, by simp [he]⟩
  · exact ⟨be32 s.length ++ s, by simp [he]⟩
  · exact ⟨s, by simp [he]⟩

theorem serScalar_app (s : Scalar) (body : Bytes) (t : CqlTy) (ws : Bool) : App (serScalar s body t ws) := by
  intro b
  unfold serScalar
  split
  · split
    · split
      · exact framed_app ws (fun b0 => (b0 ++ body, none)) (fun b0 => ⟨body, rfl⟩) b
      · exact setValue_app ws body b
    · exact ⟨[], by simp [serLeaf]⟩
  · exact ⟨[], by simp [serLeaf]⟩

theorem setNull_app : App setNull := fun _ => ⟨nullBytes, rfl⟩
theorem setUnset_app : App setUnset := fun _ => ⟨unsetBytes, rfl⟩

theorem wrap_app (st : Step) (f : Bytes → Res) (h : App f) : App (fun b => wrap st (f b)) := by
  intro b
  obtain ⟨s, hs⟩ := h b
  exact ⟨s, by simp [hs]⟩

-- Opens `ser t x ws buf` at a concrete type constructor and closes the views that do not recurse.
set_option hygiene false in
macro "open_ser" : tactic => `(tactic| (
  intro x ws buf
  rw [ser]
  generalize strip x = sc
  obtain ⟨chk, core⟩ := sc
  simp only []
  split
  · exact serLeaf_app _ buf
  cases core <;> simp only [] <;>
    first
    | exact setNull_app buf
    | exact setUnset_app buf
    | exact setValue_app ws [] buf
    | exact serScalar_app _ _ _ ws buf
    | exact serLeaf_app _ buf
    | skip))

mutual
theorem ser_app : ∀ (t : CqlTy) (x : RVal) (ws : Bool) (buf : Bytes), ∃ s, (ser t x ws buf).1 = buf ++ s
  | .native n => by
    open_ser
  | .list elt => by
    open_ser
    all_goals
      exact framed_app ws _ (seqBody_app _ _ (foldSer_app _ _ (fun v _ => wrap_app _ _ (ser_app elt v true)))) buf
  | .set elt => by
    open_ser
    all_goals
      exact framed_app ws _ (seqBody_app _ _ (foldSer_app _ _ (fun v _ => wrap_app _ _ (ser_app elt v true)))) buf
  | .vector elt dim => by
    open_ser
    rename_i vs
    split
    · exact serLeaf_app _ buf
    · split
      · exact framed_app ws _ (foldSer_app _ _ (fun v _ => wrap_app _ _ (ser_app elt v false))) buf
      · exact framed_app ws _ (foldSer_app _ _ (fun v _ => varElem_app _ v)) buf
  | .map kt vt => by
    open_ser
    exact framed_app ws _ (seqBody_app _ _ (foldSer_app _ _ (fun kv _ =>
      pairSer_app _ _ kv (fun b => ser_app kt kv.1 true b) (fun b => ser_app vt kv.2 true b)))) buf
  | .tuple ts => by
    open_ser
    split
    · exact serLeaf_app _ buf
    · exact framed_app ws _ (fun b => serTuple_app ts _ 0 b) buf
  | .udt ks name fields => by
    open_ser
    split
    · exact serLeaf_app _ buf
    · exact framed_app ws _ (fun b => serUdt_app fields _ b) buf
theorem serTuple_app : ∀ (ts : List CqlTy) (fs : List RVal) (i : Nat) (buf : Bytes),
    ∃ s, (serTuple ts fs i buf).1 = buf ++ s
  | [], fs, i, buf => ⟨[], by simp [serTuple]⟩
  | t :: ts, [], i, buf => ⟨[], by simp [serTuple]⟩
  | t :: ts, f :: fs, i, buf => by
    rw [serTuple]
    obtain ⟨s1, h1⟩ := ser_app t f true buf
    generalize hr : ser t f true buf = r at h1
    obtain ⟨b1, e⟩ := r
    simp only at h1
    subst h1
    cases e with
    | some e => exact ⟨s1, by simp [wrap]⟩
    | none =>
      obtain ⟨s2, h2⟩ := serTuple_app ts fs (i + 1) (buf ++ s1)
      exact ⟨s1 ++ s2, by simp [wrap, h2]⟩
theorem serUdt_app : ∀ (fields : List (String × CqlTy)) (m : List (String × RVal)) (buf : Bytes),
    ∃ s, (serUdt fields m buf).1 = buf ++ s
  | [], m, buf => by
    rw [serUdt]
    split
    · exact ⟨[], by simp⟩
    · exact ⟨[], by simp [serLeaf]⟩
  | (n, t) :: rest, m, buf => by
    rw [serUdt]
    split
    · obtain ⟨s2, h2⟩ := serUdt_app rest m (buf ++ nullBytes)
      exact ⟨nullBytes ++ s2, by simp [setNull, h2]⟩
    · rename_i v _
      obtain ⟨s1, h1⟩ := ser_app t v true buf
      generalize hr : ser t v true buf = r at h1
      obtain ⟨b1, e⟩ := r
      simp only at h1
      subst h1
      cases e with
      | some e => exact ⟨s1, by simp [wrap]⟩
      | none =>
        obtain ⟨s2, h2⟩ := serUdt_app rest (removeName n m) (buf ++ s1)
        exact ⟨s1 ++ s2, by simp [wrap, h2]⟩
end

/-! ### a successful top-level serialization appends exactly one well-framed cell -/

/-- One `[value]` of the protocol: null, unset, or a non-negative `i32` length followed by that many bytes. -/
def IsCell (c : Bytes) : Prop :=
  c = nullBytes ∨ c = unsetBytes ∨ ∃ body, body.length ≤ i32Max ∧ c = be32 body.length ++ body

/-- If the call succeeded, what it appended to `buf` is one cell. -/
def CellRes (buf : Bytes) (r : Res) : Prop := r.2 = none → ∃ c, IsCell c ∧ r.1 = buf ++ c

theorem serLeaf_cell (buf : Bytes) (k : SerKind) : CellRes buf (serLeaf buf k) := by
  intro h; simp [serLeaf] at h

theorem setNull_cell (buf : Bytes) : CellRes buf (setNull buf) := fun _ => ⟨nullBytes, .inl rfl, rfl⟩
theorem setUnset_cell (buf : Bytes) : CellRes buf (setUnset buf) := fun _ => ⟨unsetBytes, .inr (.inl rfl), rfl⟩

theorem setValue_cell (buf c : Bytes) : CellRes buf (setValue true c buf) := by
  unfold setValue
  split
  · exact serLeaf_cell _ _
  · intro _
    exact ⟨be32 c.length ++ c, .inr (.inr ⟨c, by omega, rfl⟩), by simp⟩

theorem framed_cell (buf : Bytes) (inner : Bytes → Res) (h : App inner) : CellRes buf (framed true buf inner) := by
  intro hok
  obtain ⟨s, _, hc⟩ := framed_spec true buf inner h
  rcases hc with ⟨hne, he⟩ | ⟨_, _, _, he⟩ | ⟨_, _, hle, he⟩ | ⟨_, hws, _⟩
  · rw [he] at hok; exact absurd hok hne
  · rw [he] at hok; simp at hok
  · exact ⟨be32 s.length ++ s, .inr (.inr ⟨s, hle, rfl⟩), by simp [he]⟩
  · cases hws

theorem serScalar_cell (s : Scalar) (body : Bytes) (t : CqlTy) (buf : Bytes) :
    CellRes buf (serScalar s body t true buf) := by
  unfold serScalar
  split
  · split
    · split
      · exact framed_cell buf _ (fun b0 => ⟨body, rfl⟩)
      · exact setValue_cell buf body
    · exact serLeaf_cell _ _
  · exact serLeaf_cell _ _

theorem ser_cell (t : CqlTy) (x : RVal) (buf : Bytes) : CellRes buf (ser t x true buf) := by
  rw [ser]
  generalize strip x = sc
  obtain ⟨chk, core⟩ := sc
  simp only []
  split
  · exact serLeaf_cell _ _
  cases core <;> simp only [] <;> (repeat' split) <;>
    first
    | exact serLeaf_cell _ _
    | exact setNull_cell _
    | exact setUnset_cell _
    | exact setValue_cell _ _
    | exact serScalar_cell _ _ _ _
    | exact framed_cell _ _ (seqBody_app _ _ (foldSer_app _ _ (fun v _ => wrap_app _ _ (ser_app _ v true))))
    | exact framed_cell _ _ (foldSer_app _ _ (fun v _ => wrap_app _ _ (ser_app _ v false)))
    | exact framed_cell _ _ (foldSer_app _ _ (fun v _ => varElem_app _ v))
    | exact framed_cell _ _ (seqBody_app _ _ (foldSer_app _ _ (fun kv _ =>
        pairSer_app _ _ kv (ser_app _ kv.1 true) (ser_app _ kv.2 true))))
    | exact framed_cell _ _ (serTuple_app _ _ 0)
    | exact framed_cell _ _ (serUdt_app _ _)

end ScyllaVerif.Proofs.Carrier

import ScyllaVerif.Model.C08Value
import ScyllaVerif.Proofs.Vint
/-
C08 — the typed value decoders never reach a panic site (`Model/C08Value.lean`), for all bytes and all column types.
-/
namespace ScyllaVerif.C08V
open ScyllaVerif.Cql ScyllaVerif.Codec ScyllaVerif.Vint ScyllaVerif.Proofs.Vint

def NPo (o : Out α) : Prop := ∀ s, o ≠ .panic s
theorem npo_ok (a : α) : NPo (.ok a : Out α) := fun _ h => by cases h
theorem npo_err (e : DeErr) : NPo (.err e : Out α) := fun _ h => by cases h
theorem npo_ofExcept (x : Except DeErr α) : NPo (Out.ofExcept x) := by
  cases x <;> simp only [Out.ofExcept] <;> first | exact npo_ok _ | exact npo_err _
theorem npo_fwd {o : Out α} {s : String} (h : NPo o) (he : o = .panic s) : False := h s he

macro "npo_leaf" : tactic => `(tactic| first | exact npo_ok _ | exact npo_err _)

/-- Close `NPo (match o with | .panic s => .panic s | .err e => .err e | .ok a => .ok _)` from `h : NPo o`. -/
macro "npo_via " h:term : tactic => `(tactic|
  (split
   · rename_i s he; exact (npo_fwd $h he).elim
   · exact npo_err _
   · exact npo_ok _))

/-- `split_at` behind the length guard. -/
theorem readRawP_np (count : Nat) (bs : Bytes) : NPo (readRawP count bs) := by
  unfold readRawP
  split
  · npo_leaf
  · first
    | npo_leaf
    | (split
       · omega
       · npo_leaf)

theorem readCqlBytesP_np (bs : Bytes) : NPo (readCqlBytesP bs) := by
  unfold readCqlBytesP
  split
  · npo_leaf
  · simp only []
    split
    · npo_leaf
    · have := readRawP_np (beNat (bs.take 4)) (bs.drop 4)
      split
      · npo_leaf
      · npo_leaf
      · rename_i s he; exact (npo_fwd this he).elim

theorem readNP_np (count : Nat) (bs : Bytes) : NPo (readNP count bs) := by
  unfold readNP
  split
  · npo_leaf
  · have := readRawP_np count bs
    split
    · npo_leaf
    · npo_leaf
    · rename_i s he; exact (npo_fwd this he).elim

theorem leadingOnes8_le (b : UInt8) : leadingOnes8 b ≤ 8 := by
  unfold leadingOnes8
  repeat (split; omega)
  omega

private theorem and_shift_bound (first : UInt8) (k : Nat) (hk : k ≤ 7) :
    (first &&& ((0xff : UInt8) >>> UInt8.ofNat k)).toNat < 2 ^ (8 - k) := by
  have h1 : (first &&& ((0xff : UInt8) >>> UInt8.ofNat k)).toNat ≤ ((0xff : UInt8) >>> UInt8.ofNat k).toNat := by
    rw [UInt8.toNat_and]; exact Nat.and_le_right
  have h2 : ((0xff : UInt8) >>> UInt8.ofNat k).toNat < 2 ^ (8 - k) := by
    match k, hk with
    | 0, _ => decide
    | 1, _ => decide
    | 2, _ => decide
    | 3, _ => decide
    | 4, _ => decide
    | 5, _ => decide
    | 6, _ => decide
    | 7, _ => decide
  omega

private theorem vint_sum (k a x : Nat) (hk : k ≤ 7) (ha : a < 2 ^ (8 - k)) (hx : x < 2 ^ (8 * k)) :
    a * 2 ^ (8 * k) + x < 2 ^ 64 := by
  have h1 : a * 2 ^ (8 * k) + x < (a + 1) * 2 ^ (8 * k) := by rw [Nat.add_mul]; omega
  have h2 : (a + 1) * 2 ^ (8 * k) ≤ 2 ^ (8 - k) * 2 ^ (8 * k) := Nat.mul_le_mul_right _ (by omega)
  have h3 : 2 ^ (8 - k) * 2 ^ (8 * k) = 2 ^ (8 - k + 8 * k) := (Nat.pow_add 2 _ _).symm
  have h4 : 2 ^ (8 - k + 8 * k) ≤ 2 ^ 57 := Nat.pow_le_pow_right (by omega) (by omega)
  have h5 : (2 : Nat) ^ 57 < 2 ^ 64 := by decide
  omega

private theorem pow256 (n : Nat) : 256 ^ n = 2 ^ (8 * n) := by
  rw [show (256 : Nat) = 2 ^ 8 from rfl, ← Nat.pow_mul]

/-- `unsigned_vint_decode` never panics: the `extra_bytes != 8` test guards the shift, `extra_bytes != 0` guards
`read_uint` (whose argument is then in 1..=8), and the sum stays below 2^64. -/
theorem uvintDecP_np (bs : Bytes) : NPo (uvintDecP bs) := by
  unfold uvintDecP
  cases bs with
  | nil => npo_leaf
  | cons first rest =>
    simp only []
    have hle := leadingOnes8_le first
    by_cases h8 : leadingOnes8 first = 8
    · -- nine-byte form
      simp only [h8, ne_eq, not_true_eq_false, if_false]
      split
      · omega
      · split
        · rename_i h; omega
        · split
          · npo_leaf
          · split
            · rename_i hx
              have := beNat_lt (rest.take 8)
              have hl : (rest.take 8).length ≤ 8 := by simp [List.length_take]; omega
              have : 256 ^ (rest.take 8).length ≤ 256 ^ 8 := Nat.pow_le_pow_right (by omega) hl
              omega
            · npo_leaf
    · have hk : leadingOnes8 first ≤ 7 := by omega
      simp only [ne_eq, h8, not_false_eq_true, if_true]
      have hge : ¬ (leadingOnes8 first ≥ 8) := by omega
      have hsh : ¬ (8 * leadingOnes8 first ≥ 64) := by omega
      simp only [hge, hsh, if_false]
      split
      · npo_leaf
      · split
        · rename_i h0 h; omega
        · split
          · npo_leaf
          · split
            · rename_i hx
              exfalso
              have hb := and_shift_bound first (leadingOnes8 first) hk
              have hx2 := beNat_lt (rest.take (leadingOnes8 first))
              have hl : (rest.take (leadingOnes8 first)).length ≤ leadingOnes8 first := by
                simp [List.length_take]; omega
              have hp : 256 ^ (rest.take (leadingOnes8 first)).length ≤ 256 ^ leadingOnes8 first :=
                Nat.pow_le_pow_right (by omega) hl
              rw [Nat.shiftLeft_eq] at hx
              rw [pow256] at hx2 hp
              have hx3 : beNat (rest.take (leadingOnes8 first)) < 2 ^ (8 * leadingOnes8 first) :=
                Nat.lt_of_lt_of_le hx2 (by rw [pow256] at *; exact hp)
              have := vint_sum (leadingOnes8 first) _ _ hk hb hx3
              omega
            · npo_leaf

/-- A decoder of cell bodies that never panics. -/
def FNP (f : Bytes → Out CqlVal) : Prop := ∀ b, NPo (f b)

theorem seqP_np (f : Bytes → Out CqlVal) (hf : FNP f) : ∀ (n : Nat) (bs : Bytes), NPo (seqP f n bs)
  | 0, _ => by unfold seqP; npo_leaf
  | n + 1, bs => by
    unfold seqP
    have h1 := readCqlBytesP_np bs
    split
    · rename_i s he; exact (npo_fwd h1 he).elim
    · npo_leaf
    · npo_leaf
    · rename_i b rest _
      have h2 := hf b
      split
      · rename_i s he; exact (npo_fwd h2 he).elim
      · npo_leaf
      · have h3 := seqP_np f hf n rest
        split
        · rename_i s he; exact (npo_fwd h3 he).elim
        · npo_leaf
        · npo_leaf

theorem mapP_np (fk fv : Bytes → Out CqlVal) (hk : FNP fk) (hv : FNP fv) :
    ∀ (n : Nat) (bs : Bytes), NPo (mapP fk fv n bs)
  | 0, _ => by unfold mapP; npo_leaf
  | n + 1, bs => by
    unfold mapP
    have h1 := readCqlBytesP_np bs
    split
    · rename_i s he; exact (npo_fwd h1 he).elim
    · npo_leaf
    · rename_i rk rest1 _
      have h2 := readCqlBytesP_np rest1
      split
      · rename_i s he; exact (npo_fwd h2 he).elim
      · npo_leaf
      · rename_i rv rest2 _
        split
        · npo_leaf
        · split
          · rename_i s he; exact (npo_fwd (hk _) he).elim
          · npo_leaf
          · split
            · npo_leaf
            · split
              · rename_i s he; exact (npo_fwd (hv _) he).elim
              · npo_leaf
              · have h5 := mapP_np fk fv hk hv n rest2
                split
                · rename_i s he; exact (npo_fwd h5 he).elim
                · npo_leaf
                · npo_leaf

theorem vecFixedP_np (f : Bytes → Out CqlVal) (hf : FNP f) (size : Nat) :
    ∀ (n : Nat) (bs : Bytes), NPo (vecFixedP f size n bs)
  | 0, _ => by unfold vecFixedP; npo_leaf
  | n + 1, bs => by
    unfold vecFixedP
    have h1 := readNP_np size bs
    split
    · rename_i s he; exact (npo_fwd h1 he).elim
    · npo_leaf
    · npo_leaf
    · rename_i b rest _
      have h2 := hf b
      split
      · rename_i s he; exact (npo_fwd h2 he).elim
      · npo_leaf
      · have h3 := vecFixedP_np f hf size n rest
        split
        · rename_i s he; exact (npo_fwd h3 he).elim
        · npo_leaf
        · npo_leaf

theorem vecVarP_np (f : Bytes → Out CqlVal) (hf : FNP f) : ∀ (n : Nat) (bs : Bytes), NPo (vecVarP f n bs)
  | 0, _ => by unfold vecVarP; npo_leaf
  | n + 1, bs => by
    unfold vecVarP
    have h0 := uvintDecP_np bs
    split
    · rename_i s he; exact (npo_fwd h0 he).elim
    · npo_leaf
    · rename_i size r0 _
      have h1 := readNP_np size.toNat r0
      split
      · rename_i s he; exact (npo_fwd h1 he).elim
      · npo_leaf
      · npo_leaf
      · rename_i b rest _
        have h2 := hf b
        split
        · rename_i s he; exact (npo_fwd h2 he).elim
        · npo_leaf
        · have h3 := vecVarP_np f hf n rest
          split
          · rename_i s he; exact (npo_fwd h3 he).elim
          · npo_leaf
          · npo_leaf

theorem readCount_le (bs : Bytes) (n : Nat) (rest : Bytes) (h : readCountP bs = .ok (n, rest)) : n ≤ i32Max := by
  unfold readCountP readCount at h
  split at h
  · simp [Out.ofExcept] at h
  · simp only [] at h
    split at h
    · simp [Out.ofExcept] at h
    · simp only [Out.ofExcept] at h
      injection h with h; injection h with h1 _; subst h1; omega

theorem readCountP_np (bs : Bytes) : NPo (readCountP bs) := npo_ofExcept _

theorem expectShape_np (sh : Shape) (t : CqlTy) (k : Out α) (hs : hasShape sh t = true) (hk : NPo k) :
    NPo (expectShape sh t k) := by
  unfold expectShape; simp only [hs, if_true]; exact hk

/-- Forwarding a three-way match: `match o with | .panic s => .panic s | .err e => .err e | .ok a => .ok (g a)`. -/
theorem npo_map {o : Out α} (g : α → β) (h : NPo o) :
    NPo (match o with
      | .panic s => Out.panic s
      | .err e => .err e
      | .ok a => .ok (g a)) := by
  cases o with
  | ok a => npo_leaf
  | err e => npo_leaf
  | panic s => exact (h s rfl).elim

mutual
/-- `CqlValue::deserialize` never panics, for every column type and all bytes: each iterator is handed the very
type the dispatch matched on (`unreachable!` is), counts are non-negative `i32`s (`2 * count`), raw reads are
guarded, vints are sound. -/
theorem decValP_np (u : Bytes → Bool) : ∀ (t : CqlTy) (bs : Bytes), NPo (decValP u t bs)
  | .native n, bs => by
    unfold decValP
    split
    · npo_leaf
    · exact npo_ofExcept _
  | .list elt, bs => by
    unfold decValP
    split
    · npo_leaf
    · refine expectShape_np _ _ _ rfl ?_
      have hc := readCountP_np bs
      split
      · rename_i s he; exact (npo_fwd hc he).elim
      · npo_leaf
      · rename_i n rest _
        npo_via (seqP_np (fun b => decValP u elt b) (fun b => decValP_np u elt b) n rest)
  | .set elt, bs => by
    unfold decValP
    split
    · npo_leaf
    · refine expectShape_np _ _ _ rfl ?_
      have hc := readCountP_np bs
      split
      · rename_i s he; exact (npo_fwd hc he).elim
      · npo_leaf
      · rename_i n rest _
        npo_via (seqP_np (fun b => decValP u elt b) (fun b => decValP_np u elt b) n rest)
  | .map kt vt, bs => by
    unfold decValP
    split
    · npo_leaf
    · refine expectShape_np _ _ _ rfl ?_
      have hc := readCountP_np bs
      split
      · rename_i s he; exact (npo_fwd hc he).elim
      · npo_leaf
      · rename_i n rest hrc
        have hn := readCount_le bs n rest hrc
        split
        · rename_i h2; unfold i32Max USIZE_MAX at *; omega
        · npo_via (mapP_np (fun b => decValP u kt b) (fun b => decValP u vt b) (fun b => decValP_np u kt b) (fun b => decValP_np u vt b) n rest)
  | .vector elt dim, bs => by
    unfold decValP
    split
    · npo_leaf
    · refine expectShape_np _ _ _ rfl ?_
      split
      · npo_via (vecFixedP_np (fun b => decValP u elt b) (fun b => decValP_np u elt b) _ dim bs)
      · npo_via (vecVarP_np (fun b => decValP u elt b) (fun b => decValP_np u elt b) dim bs)
  | .tuple ts, bs => by
    unfold decValP
    split
    · npo_leaf
    · dsimp only
      npo_via (tupleP_np u ts bs)
  | .udt ks name fields, bs => by
    unfold decValP
    split
    · npo_leaf
    · refine expectShape_np _ _ _ rfl ?_
      npo_via (udtP_np u fields bs)
theorem tupleP_np (u : Bytes → Bool) : ∀ (ts : List CqlTy) (bs : Bytes), NPo (tupleP u ts bs)
  | [], _ => by unfold tupleP; npo_leaf
  | t :: ts, bs => by
    unfold tupleP
    split
    · npo_via (tupleP_np u ts bs)
    · have h1 := readCqlBytesP_np bs
      split
      · rename_i s he; exact (npo_fwd h1 he).elim
      · npo_leaf
      · rename_i rest _
        npo_via (tupleP_np u ts rest)
      · rename_i b rest _
        have h2 := decValP_np u t b
        split
        · rename_i s he; exact (npo_fwd h2 he).elim
        · npo_leaf
        · rename_i v _
          npo_via (tupleP_np u ts rest)
theorem udtP_np (u : Bytes → Bool) : ∀ (fs : List (String × CqlTy)) (bs : Bytes), NPo (udtP u fs bs)
  | [], _ => by unfold udtP; npo_leaf
  | (n, t) :: rest, bs => by
    unfold udtP
    split
    · npo_via (udtP_np u rest bs)
    · have h1 := readCqlBytesP_np bs
      split
      · rename_i s he; exact (npo_fwd h1 he).elim
      · npo_leaf
      · rename_i tail _
        npo_via (udtP_np u rest tail)
      · rename_i b tail _
        have h2 := decValP_np u t b
        split
        · rename_i s he; exact (npo_fwd h2 he).elim
        · npo_leaf
        · rename_i v _
          npo_via (udtP_np u rest tail)
end

theorem decCellP_np (u : Bytes → Bool) (t : CqlTy) (c : Option Bytes) : NPo (decCellP u t c) := by
  cases c with
  | none => unfold decCellP; npo_leaf
  | some b => exact decValP_np u t b

theorem skipCellsP_np : ∀ (n : Nat) (bs : Bytes), NPo (skipCellsP n bs)
  | 0, _ => by unfold skipCellsP; npo_leaf
  | n + 1, bs => by
    unfold skipCellsP
    have h1 := readCqlBytesP_np bs
    split
    · rename_i s he; exact (npo_fwd h1 he).elim
    · npo_leaf
    · rename_i c rest _
      npo_via (skipCellsP_np n rest)

/-- `Row::deserialize`: the `expect` on the `0usize..` column counter needs more than `usize::MAX` columns. -/
theorem decCellsP_np (u : Bytes → Bool) : ∀ (ts : List CqlTy) (idx : Nat) (cs : List (Option Bytes)),
    idx + ts.length ≤ USIZE_MAX → NPo (decCellsP u ts idx cs)
  | [], _, _, _ => by unfold decCellsP; npo_leaf
  | _ :: _, _, [], _ => by unfold decCellsP; npo_leaf
  | t :: ts, idx, c :: cs, h => by
    unfold decCellsP
    simp only [List.length_cons] at h
    split
    · omega
    · have h2 := decCellP_np u t c
      split
      · rename_i s he; exact (npo_fwd h2 he).elim
      · npo_leaf
      · npo_via (decCellsP_np u ts (idx + 1) cs (by omega))

theorem rowP_np (u : Bytes → Bool) (ts : List CqlTy) (hts : ts.length ≤ USIZE_MAX) (bs : Bytes) :
    NPo (rowP u ts bs) := by
  unfold rowP
  have h1 := skipCellsP_np ts.length bs
  split
  · rename_i s he; exact (npo_fwd h1 he).elim
  · npo_leaf
  · rename_i cells rest _
    npo_via (decCellsP_np u ts 0 cells (by omega))

theorem rowsP_np (u : Bytes → Bool) (ts : List CqlTy) (hts : ts.length ≤ USIZE_MAX) :
    ∀ (n : Nat) (bs : Bytes), NPo (rowsP u ts n bs)
  | 0, _ => by unfold rowsP; npo_leaf
  | n + 1, bs => by
    unfold rowsP
    have h1 := rowP_np u ts hts bs
    split
    · rename_i s he; exact (npo_fwd h1 he).elim
    · npo_leaf
    · rename_i vs rest _
      npo_via (rowsP_np u ts hts n rest)

/-! ### what is materialised is bounded by what is consumed -/

theorem readRawP_consumes (count : Nat) (bs b r : Bytes) (h : readRawP count bs = .ok (b, r)) :
    r.length + count = bs.length := by
  unfold readRawP at h
  split at h
  · cases h
  · first
    | (injection h with h; injection h with _ h2; subst h2; simp only [List.length_drop]; omega)
    | (split at h
       · cases h
       · injection h with h; injection h with _ h2; subst h2; simp only [List.length_drop]; omega)

theorem readCqlBytesP_consumes (bs : Bytes) (o : Option Bytes) (rest : Bytes)
    (h : readCqlBytesP bs = .ok (o, rest)) : rest.length + 4 ≤ bs.length := by
  unfold readCqlBytesP at h
  split at h
  · cases h
  · simp only [] at h
    split at h
    · injection h with h; injection h with _ h2; subst h2; simp only [List.length_drop]; omega
    · split at h
      · rename_i b r hr
        injection h with h; injection h with _ h2; subst h2
        have := readRawP_consumes _ _ _ _ hr
        simp only [List.length_drop] at this; omega
      · cases h
      · cases h

/-- Lists / sets: `n` decoded elements consumed at least `4·n` bytes (nothing is pre-allocated from `n`). -/
theorem seqP_bound (f : Bytes → Out CqlVal) : ∀ (n : Nat) (bs : Bytes) (vs : List CqlVal),
    seqP f n bs = .ok vs → vs.length = n ∧ 4 * n ≤ bs.length
  | 0, _, vs, h => by simp [seqP] at h; subst h; simp
  | n + 1, bs, vs, h => by
    unfold seqP at h
    split at h
    · cases h
    · cases h
    · cases h
    · rename_i b rest hr
      have hc := readCqlBytesP_consumes bs _ rest hr
      split at h
      · cases h
      · cases h
      · split at h
        · cases h
        · cases h
        · rename_i r hs
          injection h with h; subst h
          have ih := seqP_bound f n rest r hs
          simp only [List.length_cons]; omega

/-- Maps: `8·n`. -/
theorem mapP_bound (fk fv : Bytes → Out CqlVal) : ∀ (n : Nat) (bs : Bytes) (r : List (CqlVal × CqlVal)),
    mapP fk fv n bs = .ok r → r.length = n ∧ 8 * n ≤ bs.length
  | 0, _, r, h => by simp [mapP] at h; subst h; simp
  | n + 1, bs, r, h => by
    unfold mapP at h
    split at h
    · cases h
    · cases h
    · rename_i rk rest1 h1
      have c1 := readCqlBytesP_consumes bs rk rest1 h1
      split at h
      · cases h
      · cases h
      · rename_i rv rest2 h2
        have c2 := readCqlBytesP_consumes rest1 rv rest2 h2
        split at h
        · cases h
        · split at h
          · cases h
          · cases h
          · split at h
            · cases h
            · split at h
              · cases h
              · cases h
              · split at h
                · cases h
                · cases h
                · rename_i r' hm
                  injection h with h; subst h
                  have ih := mapP_bound fk fv n rest2 r' hm
                  simp only [List.length_cons]; omega

theorem readNP_consumes (count : Nat) (hc : 1 ≤ count) (bs b rest : Bytes) (h : readNP count bs = .ok (some b, rest)) :
    rest.length + 1 ≤ bs.length := by
  unfold readNP at h
  split at h
  · cases h
  · split at h
    · rename_i b' r hr
      injection h with h; injection h with _ h2; subst h2
      have := readRawP_consumes _ _ _ _ hr; omega
    · cases h
    · cases h

/-- Fixed-size vector elements: at least one byte each, when the element size is positive. -/
theorem vecFixedP_bound (f : Bytes → Out CqlVal) (size : Nat) (hsize : 1 ≤ size) :
    ∀ (n : Nat) (bs : Bytes) (vs : List CqlVal), vecFixedP f size n bs = .ok vs → vs.length = n ∧ n ≤ bs.length
  | 0, _, vs, h => by simp [vecFixedP] at h; subst h; simp
  | n + 1, bs, vs, h => by
    unfold vecFixedP at h
    split at h
    · cases h
    · cases h
    · cases h
    · rename_i b rest hr
      have hc := readNP_consumes size hsize bs b rest hr
      split at h
      · cases h
      · cases h
      · split at h
        · cases h
        · cases h
        · rename_i r hs
          injection h with h; subst h
          have ih := vecFixedP_bound f size hsize n rest r hs
          simp only [List.length_cons]; omega

/-- Every vector dimension of the type is positive (what the type parsers guarantee since fix 2a278cb). -/
def DimsPos : CqlTy → Prop
  | .vector t d => 1 ≤ d ∧ DimsPos t
  | _ => True

/-- With positive dimensions the fixed element size of a vector is positive: no element is "read" from no input. -/
theorem sizeForVectorSat_pos : ∀ (t : CqlTy), DimsPos t → ∀ s, sizeForVectorSat t = some s → 1 ≤ s
  | .native n, _, s, h => by
    simp only [sizeForVectorSat] at h
    cases n <;> simp [NativeTy.sizeForVector] at h <;> omega
  | .vector t d, hd, s, h => by
    simp only [sizeForVectorSat] at h
    cases hs : sizeForVectorSat t with
    | none => rw [hs] at h; cases h
    | some s' =>
      rw [hs] at h
      injection h with h
      have := sizeForVectorSat_pos t hd.2 s' hs
      have h1 : 1 ≤ s' * d := Nat.mul_pos this hd.1
      have h2 : 1 ≤ USIZE_MAX := by decide
      omega
  | .list _, _, s, h => by simp [sizeForVectorSat] at h
  | .set _, _, s, h => by simp [sizeForVectorSat] at h
  | .map _ _, _, s, h => by simp [sizeForVectorSat] at h
  | .tuple _, _, s, h => by simp [sizeForVectorSat] at h
  | .udt _ _ _, _, s, h => by simp [sizeForVectorSat] at h

/-! ### the overridden iterator methods -/

theorem vecNextFixedP_np (f : Bytes → Out CqlVal) (hf : FNP f) (size remaining : Nat) (bs : Bytes) :
    NPo (vecNextFixedP f size remaining bs) := by
  unfold vecNextFixedP
  split
  · npo_leaf
  · have h1 := readNP_np size bs
    split
    · rename_i s he; exact (npo_fwd h1 he).elim
    · npo_leaf
    · npo_leaf
    · split
      · rename_i s he; exact (npo_fwd (hf _) he).elim
      · npo_leaf
      · npo_leaf

/-- `VectorIterator::nth` never panics (fixed code): the product saturates, and `n < remaining` guards both
subtractions and `n + 1`. -/
theorem vecNthFixedP_np (f : Bytes → Out CqlVal) (hf : FNP f) (size remaining n : Nat) (bs : Bytes)
    (hr : remaining ≤ USIZE_MAX) : NPo (vecNthFixedP f size remaining n bs) := by
  unfold vecNthFixedP
  split
  · npo_leaf
  · rename_i hn
    split
    · simp only []
      have h1 := readNP_np (min (n * size) USIZE_MAX) bs
      split
      · rename_i s he; exact (npo_fwd h1 he).elim
      · split
        · omega
        · split
          · omega
          · npo_leaf
      · split
        · omega
        · exact vecNextFixedP_np f hf size _ _
    · exact vecNextFixedP_np f hf size _ _

/-- The three panic tests of `vecNthFixedP` are dead by the single guard `n >= remaining` (plus `remaining ≤
usize::MAX`): no arithmetic beyond that comparison is needed. -/
theorem vecNth_guards_dead (remaining n : Nat) (hr : remaining ≤ USIZE_MAX) (hn : ¬ n ≥ remaining) :
    ¬ (n + 1 > USIZE_MAX) ∧ ¬ (remaining < n + 1) ∧ ¬ (remaining < n) := by
  omega

theorem vecNextVarP_np (f : Bytes → Out CqlVal) (hf : FNP f) (remaining : Nat) (bs : Bytes) :
    NPo (vecNextVarP f remaining bs) := by
  unfold vecNextVarP
  split
  · npo_leaf
  · have h0 := uvintDecP_np bs
    split
    · rename_i s he; exact (npo_fwd h0 he).elim
    · npo_leaf
    · rename_i size r0 _
      have h1 := readNP_np size.toNat r0
      split
      · rename_i s he; exact (npo_fwd h1 he).elim
      · npo_leaf
      · npo_leaf
      · split
        · rename_i s he; exact (npo_fwd (hf _) he).elim
        · npo_leaf
        · npo_leaf

theorem vecNthVarP_np (f : Bytes → Out CqlVal) (hf : FNP f) :
    ∀ (n remaining : Nat) (bs : Bytes), NPo (vecNthVarP f n remaining bs)
  | 0, remaining, bs => by unfold vecNthVarP; exact vecNextVarP_np f hf remaining bs
  | n + 1, remaining, bs => by
    unfold vecNthVarP
    have h := vecNextVarP_np f hf remaining bs
    split
    · rename_i s he; exact (npo_fwd h he).elim
    · npo_leaf
    · npo_leaf
    · rename_i r b _
      exact vecNthVarP_np f hf n r b

theorem vecSizeHintP_np (remaining : Nat) : NPo (vecSizeHintP remaining) := by
  unfold vecSizeHintP; simp only [ne_eq, not_true_eq_false, if_false]; npo_leaf

theorem mapSizeHintP_np (r : Nat) : NPo (mapSizeHintP r) := by
  unfold mapSizeHintP
  have := vecSizeHintP_np r
  split
  · rename_i s he; exact (npo_fwd this he).elim
  · npo_leaf
  · npo_leaf

end ScyllaVerif.C08V

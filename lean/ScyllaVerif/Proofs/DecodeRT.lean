import ScyllaVerif.Proofs.DecodeAlloc
/-
C08 — round trip: wire encoders written from the protocol specification (native_protocol_v4.spec §3, §4.2) and the
compositional predicate `RT m enc a` ("reader `m` run on `enc ++ rest` returns `a` and leaves exactly `rest`").
-/
namespace ScyllaVerif.C08

/-- `m` decodes the encoding `enc` to `a`, consuming exactly `enc` (ghost counters are free). -/
def RT (m : M α) (enc : Bytes) (a : α) : Prop :=
  ∀ (rest : Bytes) (s : St), s.buf = enc ++ rest → ∃ s', m s = (.ok a, s') ∧ s'.buf = rest

theorem rt_pure (a : α) : RT (pure a : M α) [] a := by
  intro rest s hs; exact ⟨s, rfl, by simpa using hs⟩

theorem rt_bind {m : M α} {f : α → M β} {e1 e2 : Bytes} {a : α} {b : β}
    (h1 : RT m e1 a) (h2 : RT (f a) e2 b) : RT (m >>= f) (e1 ++ e2) b := by
  intro rest s hs
  obtain ⟨s1, hm, hb1⟩ := h1 (e2 ++ rest) s (by simpa [List.append_assoc] using hs)
  obtain ⟨s2, hf, hb2⟩ := h2 rest s1 hb1
  exact ⟨s2, by simp only [bind_def, hm, hf], hb2⟩

/-- `bind` whose first reader consumes nothing. -/
theorem rt_bind0 {m : M α} {f : α → M β} {e : Bytes} {a : α} {b : β}
    (h1 : RT m [] a) (h2 : RT (f a) e b) : RT (m >>= f) e b := by
  simpa using rt_bind h1 h2

/-- `m >>= fun x => pure (g x)`. -/
theorem rt_map {m : M α} {e : Bytes} {a : α} (g : α → β) (h : RT m e a) :
    RT (m >>= fun x => (pure (g x) : M β)) e (g a) := by
  have := rt_bind (f := fun x => (pure (g x) : M β)) h (rt_pure (g a))
  simpa using this

theorem rt_tag {m : M α} {e : Bytes} {a : α} (t : String) (h : RT m e a) : RT (tag t m) e a := by
  intro rest s hs
  obtain ⟨s1, hm, hb⟩ := h rest s hs
  exact ⟨s1, by simp only [tag_def, hm], hb⟩

theorem rt_allocReq (n : Nat) : RT (allocReq n) [] () := by
  intro rest s hs; exact ⟨_, rfl, by simpa using hs⟩

theorem rt_noteDepth (d : Nat) : RT (noteDepth d) [] () := by
  intro rest s hs; exact ⟨_, rfl, by simpa using hs⟩

theorem rt_remaining_bind {f : Nat → M β} {e : Bytes} {b : β} (h : ∀ rem, RT (f rem) e b) :
    RT (remaining >>= f) e b := by
  intro rest s hs
  obtain ⟨s1, hf, hb⟩ := h s.buf.length rest s hs
  exact ⟨s1, by simp only [bind_def, remaining, hf], hb⟩

theorem rt_takeN (xs : Bytes) (k : String) : RT (takeN xs.length k) xs xs := by
  intro rest s hs
  refine ⟨{ s with buf := rest }, ?_, rfl⟩
  unfold takeN; simp [hs]

theorem rt_loopN {body : M α} (enc : α → Bytes) :
    ∀ vs : List α, (∀ v ∈ vs, RT body (enc v) v) → RT (loopN vs.length body) (vs.flatMap enc) vs
  | [], _ => by simpa [loopN] using rt_pure ([] : List α)
  | v :: vs, h => by
    simp only [List.length_cons, loopN, List.flatMap_cons]
    have ih := rt_loopN enc vs (fun x hx => h x (List.mem_cons_of_mem _ hx))
    exact rt_bind (h v (List.mem_cons_self)) (rt_map (fun r => v :: r) ih)

/-! ### encoders of the primitives -/

def encU8 (n : Nat) : Bytes := [UInt8.ofNat n]
def encShort (n : Nat) : Bytes := [UInt8.ofNat (n / 256), UInt8.ofNat (n % 256)]
def encInt (v : Int) : Bytes :=
  let u : Nat := (v % 2 ^ 32).toNat
  [UInt8.ofNat (u / 2 ^ 24), UInt8.ofNat (u / 2 ^ 16 % 256), UInt8.ofNat (u / 2 ^ 8 % 256), UInt8.ofNat (u % 256)]
def encString (s : Bytes) : Bytes := encShort s.length ++ s
def encShortBytes (s : Bytes) : Bytes := encShort s.length ++ s
def encBytes (b : Bytes) : Bytes := encInt b.length ++ b
def encBytesOpt : Option Bytes → Bytes
  | none => encInt (-1)
  | some b => encInt b.length ++ b
def encStringList (l : List Bytes) : Bytes := encShort l.length ++ l.flatMap encString
def encInet (a : Addr) : Bytes := encU8 a.ip.length ++ a.ip ++ encInt a.port

/-- A protocol `[string]`: valid UTF-8 that fits a `u16` length. -/
def WfStr (s : Bytes) : Prop := s.length < 65536 ∧ utf8ok s = true

theorem beNat_encShort (n : Nat) (h : n < 65536) : beNat (encShort n) = n := by
  simp only [encShort, beNat, List.foldl, UInt8.toNat_ofNat']
  omega

theorem beNat_encInt (v : Int) : beNat (encInt v) = (v % 2 ^ 32).toNat := by
  simp only [encInt, beNat, List.foldl, UInt8.toNat_ofNat']
  have : (v % 2 ^ 32).toNat < 2 ^ 32 := by omega
  omega

theorem rt_readU8 (n : Nat) (h : n < 256) : RT readU8 (encU8 n) n := by
  unfold readU8
  have h1 : RT (takeN 1 "eof") (encU8 n) (encU8 n) := rt_takeN (encU8 n) "eof"
  have := rt_map beNat h1
  have e : beNat (encU8 n) = n := by simp [encU8, beNat, List.foldl, UInt8.toNat_ofNat']; omega
  rwa [e] at this

theorem rt_readShort (n : Nat) (h : n < 65536) : RT readShort (encShort n) n := by
  unfold readShort
  have h1 : RT (takeN 2 "eof") (encShort n) (encShort n) := rt_takeN (encShort n) "eof"
  have := rt_map beNat h1
  rwa [beNat_encShort n h] at this

theorem rt_readInt (v : Int) (h : -2 ^ 31 ≤ v ∧ v < 2 ^ 31) : RT readInt (encInt v) v := by
  unfold readInt
  have h1 : RT (takeN 4 "eof") (encInt v) (encInt v) := rt_takeN (encInt v) "eof"
  have := rt_map (fun b => toSigned 32 (beNat b)) h1
  have e : toSigned 32 (beNat (encInt v)) = v := by
    rw [beNat_encInt]; unfold toSigned; split <;> omega
  rwa [e] at this

theorem rt_readIntLength (n : Nat) (h : n < 2 ^ 31) : RT readIntLength (encInt n) n := by
  unfold readIntLength
  have := rt_bind (rt_readInt (n : Int) (by omega)) (e2 := []) (b := n)
    (f := fun v => if v < 0 then fail "negint" else pure v.toNat) (by
      have : ¬ ((n : Int) < 0) := by omega
      simp only [this, if_false, Int.toNat_natCast]; exact rt_pure n)
  simpa using this

theorem rt_readRaw (xs : Bytes) : RT (readRaw xs.length) xs xs := rt_takeN xs "few"

theorem rt_readString (s : Bytes) (h : WfStr s) : RT readString (encString s) s := by
  unfold readString encString
  refine rt_bind (rt_readShort s.length h.1) ?_
  have := rt_bind (rt_readRaw s) (e2 := []) (f := checkUtf8) (b := s) (by
    unfold checkUtf8; simp only [h.2, if_true]; exact rt_pure s)
  simpa using this

theorem rt_readShortBytes (b : Bytes) (h : b.length < 65536) : RT readShortBytes (encShortBytes b) b := by
  unfold readShortBytes encShortBytes
  exact rt_bind (rt_readShort b.length h) (rt_readRaw b)

theorem rt_readBytes (b : Bytes) (h : b.length < 2 ^ 31) : RT readBytes (encBytes b) b := by
  unfold readBytes encBytes
  exact rt_bind (rt_readIntLength b.length h) (rt_readRaw b)

theorem rt_readBytesOpt (o : Option Bytes) (h : ∀ b, o = some b → b.length < 2 ^ 31) :
    RT readBytesOpt (encBytesOpt o) o := by
  unfold readBytesOpt
  cases o with
  | none =>
    have := rt_bind (rt_readInt (-1) (by omega)) (e2 := []) (b := (none : Option Bytes))
      (f := fun n => if n < 0 then pure none else readRaw n.toNat >>= fun raw => pure (some raw)) (by
        simp; exact rt_pure none)
    simpa [encBytesOpt] using this
  | some b =>
    have hb := h b rfl
    have hn : ¬ ((b.length : Int) < 0) := by omega
    have := rt_bind (rt_readInt (b.length : Int) (by omega)) (e2 := b) (b := some b)
      (f := fun n => if n < 0 then pure none else readRaw n.toNat >>= fun raw => pure (some raw)) (by
        simp only [hn, if_false, Int.toNat_natCast]
        exact rt_map some (rt_readRaw b))
    simpa [encBytesOpt] using this

theorem rt_readStringList (l : List Bytes) (hl : l.length < 65536) (h : ∀ s ∈ l, WfStr s) :
    RT readStringList (encStringList l) l := by
  unfold readStringList encStringList
  exact rt_bind (rt_readShort l.length hl) (rt_bind0 (rt_allocReq _) (rt_loopN encString l (fun s hs => rt_readString s (h s hs))))

theorem rt_readInet (a : Addr) (hip : a.ip.length = 4 ∨ a.ip.length = 16) (hp : a.port < 65536) :
    RT readInet (encInet a) a := by
  unfold readInet encInet
  rw [List.append_assoc]
  refine rt_bind (rt_readU8 a.ip.length (by omega)) ?_
  simp only [hip, if_true]
  refine rt_bind (rt_readRaw a.ip) ?_
  have hn : ¬ (((a.port : Nat) : Int) < 0 ∨ ((a.port : Nat) : Int) > 65535) := by omega
  have := rt_bind (rt_readInt (a.port : Int) (by omega)) (e2 := []) (b := a)
    (f := fun p => if p < 0 ∨ p > 65535 then fail "negint" else pure (⟨a.ip, p.toNat⟩ : Addr)) (by
      simp only [hn, if_false, Int.toNat_natCast]; exact rt_pure _)
  simpa using this

/-! ### binary column type descriptions -/

def nativeId : Native → Nat
  | .ascii => 0x01 | .bigint => 0x02 | .blob => 0x03 | .boolean => 0x04 | .counter => 0x05 | .decimal => 0x06
  | .double => 0x07 | .float => 0x08 | .int => 0x09 | .timestamp => 0x0B | .uuid => 0x0C | .text => 0x0D
  | .varint => 0x0E | .timeuuid => 0x0F | .inet => 0x10 | .date => 0x11 | .time => 0x12 | .smallint => 0x13
  | .tinyint => 0x14 | .duration => 0x15

mutual
/-- `[option]` of the protocol spec (§4.2.5.2) for the types that have a binary id. -/
def encTy : Ty → Bytes
  | .native n => encShort (nativeId n)
  | .list _ t => encShort 0x20 ++ encTy t
  | .set _ t => encShort 0x22 ++ encTy t
  | .map _ k v => encShort 0x21 ++ (encTy k ++ encTy v)
  | .tuple ts => encShort 0x31 ++ (encShort (tysLen ts) ++ encTys ts)
  | .udt _ ks name fs => encShort 0x30 ++ (encString ks ++ (encString name ++ (encShort (fieldsLen fs) ++ encFields fs)))
  | .vector _ _ => []
def encTys : List Ty → Bytes
  | [] => []
  | t :: ts => encTy t ++ encTys ts
def encFields : List (Bytes × Ty) → Bytes
  | [] => []
  | (n, t) :: fs => (encString n ++ encTy t) ++ encFields fs
def tysLen : List Ty → Nat
  | [] => 0
  | _ :: ts => tysLen ts + 1
def fieldsLen : List (Bytes × Ty) → Nat
  | [] => 0
  | _ :: fs => fieldsLen fs + 1
end

mutual
/-- Types the binary format can express (no frozen flag, no vector), well-formed, nested at most `fuel` deep. -/
def BinTy : Ty → Nat → Prop
  | _, 0 => False
  | .native _, _ + 1 => True
  | .list fr t, f + 1 => fr = false ∧ BinTy t f
  | .set fr t, f + 1 => fr = false ∧ BinTy t f
  | .map fr k v, f + 1 => fr = false ∧ BinTy k f ∧ BinTy v f
  | .tuple ts, f + 1 => tysLen ts < 65536 ∧ BinTys ts f
  | .udt fr ks name fs, f + 1 => fr = false ∧ WfStr ks ∧ WfStr name ∧ fieldsLen fs < 65536 ∧ BinFields fs f
  | .vector _ _, _ + 1 => False
def BinTys : List Ty → Nat → Prop
  | [], _ => True
  | t :: ts, f => BinTy t f ∧ BinTys ts f
def BinFields : List (Bytes × Ty) → Nat → Prop
  | [], _ => True
  | (n, t) :: fs, f => WfStr n ∧ BinTy t f ∧ BinFields fs f
end

theorem nativeOfId_nativeId (n : Native) : nativeOfId (nativeId n) = some n := by
  cases n <;> rfl

/-- The field reader inside the UDT loop of `deserType`. -/
def fieldReader (fuel : Nat) : M (Bytes × Ty) := do
  let fname ← tag "type.udtfield" readString
  let t ← deserType fuel
  pure (fname, t)

mutual
theorem rt_deserType : ∀ (t : Ty) (fuel : Nat), BinTy t fuel → RT (deserType fuel) (encTy t) t
  | _, 0, h => by cases h
  | .native n, f + 1, _ => by
    unfold deserType encTy
    refine rt_bind0 (rt_noteDepth _) (?_)
    have h1 := rt_tag "type.id" (rt_readShort (nativeId n) (by cases n <;> decide))
    have := rt_bind (e2 := []) (b := Ty.native n) h1 (f := fun id => match id with
      | 0x0000 => do
        let str ← tag "type.customname" readString
        match customParse str with
        | .ok t => do noteDepth (129 - f + customDepthBound); pure t
        | .error e => fail ("type.ct." ++ e)
      | 0x0020 => do let t ← deserType f; pure (.list false t)
      | 0x0021 => do let k ← deserType f; let v ← deserType f; pure (.map false k v)
      | 0x0022 => do let t ← deserType f; pure (.set false t)
      | 0x0030 => do
        let ks ← tag "type.udtks" readString
        let name ← tag "type.udtname" readString
        let n ← tag "type.udtcount" readShort
        let fields ← loopN n (do
          let fname ← tag "type.udtfield" readString
          let t ← deserType f
          pure (fname, t))
        pure (.udt false ks name fields)
      | 0x0031 => do
        let n ← tag "type.tuplelen" readShort
        let ts ← loopN n (deserType f)
        pure (.tuple ts)
      | id =>
        match nativeOfId id with
        | some n => pure (.native n)
        | none => fail "type.unknownid") (by
        cases n <;> exact rt_pure _)
    simpa using this
  | .list fr t, f + 1, h => by
    obtain ⟨rfl, ht⟩ := h
    unfold deserType encTy
    refine rt_bind0 (rt_noteDepth _) (rt_bind (rt_tag _ (rt_readShort 0x20 (by decide))) ?_)
    exact rt_map (fun t => Ty.list false t) (rt_deserType t f ht)
  | .set fr t, f + 1, h => by
    obtain ⟨rfl, ht⟩ := h
    unfold deserType encTy
    refine rt_bind0 (rt_noteDepth _) (rt_bind (rt_tag _ (rt_readShort 0x22 (by decide))) ?_)
    exact rt_map (fun t => Ty.set false t) (rt_deserType t f ht)
  | .map fr k v, f + 1, h => by
    obtain ⟨rfl, hk, hv⟩ := h
    unfold deserType encTy
    refine rt_bind0 (rt_noteDepth _) (rt_bind (rt_tag _ (rt_readShort 0x21 (by decide))) ?_)
    exact rt_bind (rt_deserType k f hk) (rt_map (fun v => Ty.map false k v) (rt_deserType v f hv))
  | .tuple ts, f + 1, h => by
    obtain ⟨hl, hts⟩ := h
    unfold deserType encTy
    refine rt_bind0 (rt_noteDepth _) (rt_bind (rt_tag _ (rt_readShort 0x31 (by decide))) ?_)
    refine rt_bind (rt_tag _ (rt_readShort (tysLen ts) hl)) ?_
    exact rt_map (fun ts => Ty.tuple ts) (rt_types ts f hts)
  | .udt fr ks name fs, f + 1, h => by
    obtain ⟨rfl, hks, hname, hl, hfs⟩ := h
    unfold deserType encTy
    refine rt_bind0 (rt_noteDepth _) (rt_bind (rt_tag _ (rt_readShort 0x30 (by decide))) ?_)
    refine rt_bind (rt_tag _ (rt_readString ks hks)) (rt_bind (rt_tag _ (rt_readString name hname))
      (rt_bind (rt_tag _ (rt_readShort (fieldsLen fs) hl)) ?_))
    exact rt_map (fun fields => Ty.udt false ks name fields) (rt_fields fs f hfs)
  | .vector _ _, _ + 1, h => by cases h
theorem rt_types : ∀ (ts : List Ty) (fuel : Nat), BinTys ts fuel →
    RT (loopN (tysLen ts) (deserType fuel)) (encTys ts) ts
  | [], _, _ => by simpa [tysLen, loopN, encTys] using rt_pure ([] : List Ty)
  | t :: ts, f, h => by
    unfold tysLen loopN encTys
    exact rt_bind (rt_deserType t f h.1) (rt_map (fun r => t :: r) (rt_types ts f h.2))
theorem rt_fields : ∀ (fs : List (Bytes × Ty)) (fuel : Nat), BinFields fs fuel →
    RT (loopN (fieldsLen fs) (fieldReader fuel)) (encFields fs) fs
  | [], _, _ => by simpa [fieldsLen, loopN, encFields] using rt_pure ([] : List (Bytes × Ty))
  | (n, t) :: fs, f, h => by
    unfold fieldsLen loopN encFields
    refine rt_bind ?_ (rt_map (fun r => (n, t) :: r) (rt_fields fs f h.2.2))
    unfold fieldReader
    exact rt_bind (rt_tag _ (rt_readString n h.1)) (rt_map (fun t => (n, t)) (rt_deserType t f h.2.1))
end

end ScyllaVerif.C08

import ScyllaVerif.Proofs.DecodeAlloc
/-
C08 — round trip: wire encoders written from the protocol specification (native_protocol_v4.spec §3, §4.2) and the
compositional predicate `RT m enc a` ("reader `m` run on `enc ++ rest` returns `a` and leaves exactly `rest`").
-/
namespace ScyllaVerif.C08

/-- `m` decodes the encoding `enc` to `a`, consuming exactly `enc` (ghost counters are free). -/
def RT (m : M α) (enc : Bytes) (a : α) : Prop :=
  ∀ (rest : Bytes) (s : St), s.buf = enc ++ rest → ∃ s', m s = (.ok a, s') ∧ s'.buf = rest

theorem rt_pure (a : α) : RT (pure a : M α) [] a := by
  intro rest s hs; exact ⟨s, rfl, by simpa using hs⟩

theorem rt_bind {m : M α} {f : α → M β} {e1 e2 : Bytes} {a : α} {b : β}
    (h1 : RT m e1 a) (h2 : RT (f a) e2 b) : RT (m >>= f) (e1 ++ e2) b := by
  intro rest s hs
  obtain ⟨s1, hm, hb1⟩ := h1 (e2 ++ rest) s (by simpa [List.append_assoc] using hs)
  obtain ⟨s2, hf, hb2⟩ := h2 rest s1 hb1
  exact ⟨s2, by simp only [bind_def, hm, hf], hb2⟩

/-- `bind` whose first reader consumes nothing. -/
theorem rt_bind0 {m : M α} {f : α → M β} {e : Bytes} {a : α} {b : β}
    (h1 : RT m [] a) (h2 : RT (f a) e b) : RT (m >>= f) e b := by
  simpa using rt_bind h1 h2

/-- `m >>= fun x => pure (g x)`. -/
theorem rt_map {m : M α} {e : Bytes} {a : α} (g : α → β) (h : RT m e a) :
    RT (m >>= fun x => (pure (g x) : M β)) e (g a) := by
  have := rt_bind (f := fun x => (pure (g x) : M β)) h (rt_pure (g a))
  simpa using this

theorem rt_tag {m : M α} {e : Bytes} {a : α} (t : String) (h : RT m e a) : RT (tag t m) e a := by
  intro rest s hs
  obtain ⟨s1, hm, hb⟩ := h rest s hs
  exact ⟨s1, by simp only [tag_def, hm], hb⟩

/-- `tracked m` then `slice_ref`: on an encoding the re-slicing is legal. -/
theorem rt_sliced {m : M α} {e : Bytes} {a : α} (h : RT m e a) :
    RT (tracked m >>= fun sm => sliceRef sm.2 >>= fun _ => (pure sm.1 : M α)) e a := by
  intro rest s hs
  obtain ⟨s1, hm, hb⟩ := h rest s hs
  refine ⟨s1, ?_, hb⟩
  have hsuf : s1.buf.isSuffixOf s.buf = true := by
    rw [List.isSuffixOf_iff_suffix, hb, hs]; exact List.suffix_append _ _
  simp only [bind_def, tracked, hm, hsuf, sliceRef, if_true, pure_def]

theorem rt_tracked {m : M α} {e : Bytes} {a : α} (h : RT m e a) : RT (tracked m) e (a, true) := by
  intro rest s hs
  obtain ⟨s1, hm, hb⟩ := h rest s hs
  refine ⟨s1, ?_, hb⟩
  have hsuf : s1.buf.isSuffixOf s.buf = true := by
    rw [List.isSuffixOf_iff_suffix, hb, hs]; exact List.suffix_append _ _
  simp only [tracked, hm, hsuf]

theorem rt_sliceRef_true : RT (sliceRef true) [] () := by
  unfold sliceRef; simp only [if_true]; exact rt_pure ()

theorem rt_allocReq (n : Nat) : RT (allocReq n) [] () := by
  intro rest s hs; exact ⟨_, rfl, by simpa using hs⟩

theorem rt_noteDepth (d : Nat) : RT (noteDepth d) [] () := by
  intro rest s hs; exact ⟨_, rfl, by simpa using hs⟩

theorem rt_remaining_bind {f : Nat → M β} {e : Bytes} {b : β} (h : ∀ rem, RT (f rem) e b) :
    RT (remaining >>= f) e b := by
  intro rest s hs
  obtain ⟨s1, hf, hb⟩ := h s.buf.length rest s hs
  exact ⟨s1, by simp only [bind_def, remaining, hf], hb⟩

theorem rt_takeN (xs : Bytes) (k : String) : RT (takeN xs.length k) xs xs := by
  intro rest s hs
  refine ⟨{ s with buf := rest }, ?_, rfl⟩
  unfold takeN; simp [hs]

theorem rt_loopN {body : M α} (enc : α → Bytes) :
    ∀ vs : List α, (∀ v ∈ vs, RT body (enc v) v) → RT (loopN vs.length body) (vs.flatMap enc) vs
  | [], _ => by simpa [loopN] using rt_pure ([] : List α)
  | v :: vs, h => by
    simp only [List.length_cons, loopN, List.flatMap_cons]
    have ih := rt_loopN enc vs (fun x hx => h x (List.mem_cons_of_mem _ hx))
    exact rt_bind (h v (List.mem_cons_self)) (rt_map (fun r => v :: r) ih)

/-! ### encoders of the primitives -/

def encU8 (n : Nat) : Bytes := [UInt8.ofNat n]
def encShort (n : Nat) : Bytes := [UInt8.ofNat (n / 256), UInt8.ofNat (n % 256)]
def encInt (v : Int) : Bytes :=
  let u : Nat := (v % 2 ^ 32).toNat
  [UInt8.ofNat (u / 2 ^ 24), UInt8.ofNat (u / 2 ^ 16 % 256), UInt8.ofNat (u / 2 ^ 8 % 256), UInt8.ofNat (u % 256)]
def encString (s : Bytes) : Bytes := encShort s.length ++ s
def encShortBytes (s : Bytes) : Bytes := encShort s.length ++ s
def encBytes (b : Bytes) : Bytes := encInt b.length ++ b
def encBytesOpt : Option Bytes → Bytes
  | none => encInt (-1)
  | some b => encInt b.length ++ b
def encStringList (l : List Bytes) : Bytes := encShort l.length ++ l.flatMap encString
def encInet (a : Addr) : Bytes := encU8 a.ip.length ++ a.ip ++ encInt a.port

/-- A protocol `[string]`: valid UTF-8 that fits a `u16` length. -/
def WfStr (s : Bytes) : Prop := s.length < 65536 ∧ utf8ok s = true

theorem beNat_encShort (n : Nat) (h : n < 65536) : beNat (encShort n) = n := by
  simp only [encShort, beNat, List.foldl, UInt8.toNat_ofNat']
  omega

theorem beNat_encInt (v : Int) : beNat (encInt v) = (v % 2 ^ 32).toNat := by
  simp only [encInt, beNat, List.foldl, UInt8.toNat_ofNat']
  have : (v % 2 ^ 32).toNat < 2 ^ 32 := by omega
  omega

theorem rt_readU8 (n : Nat) (h : n < 256) : RT readU8 (encU8 n) n := by
  unfold readU8
  have h1 : RT (takeN 1 "eof") (encU8 n) (encU8 n) := rt_takeN (encU8 n) "eof"
  have := rt_map beNat h1
  have e : beNat (encU8 n) = n := by simp [encU8, beNat, List.foldl, UInt8.toNat_ofNat']; omega
  rwa [e] at this

theorem rt_readShort (n : Nat) (h : n < 65536) : RT readShort (encShort n) n := by
  unfold readShort
  have h1 : RT (takeN 2 "eof") (encShort n) (encShort n) := rt_takeN (encShort n) "eof"
  have := rt_map beNat h1
  rwa [beNat_encShort n h] at this

theorem rt_readInt (v : Int) (h : -2 ^ 31 ≤ v ∧ v < 2 ^ 31) : RT readInt (encInt v) v := by
  unfold readInt
  have h1 : RT (takeN 4 "eof") (encInt v) (encInt v) := rt_takeN (encInt v) "eof"
  have := rt_map (fun b => toSigned 32 (beNat b)) h1
  have e : toSigned 32 (beNat (encInt v)) = v := by
    rw [beNat_encInt]; unfold toSigned; split <;> omega
  rwa [e] at this

theorem rt_readIntLength (n : Nat) (h : n < 2 ^ 31) : RT readIntLength (encInt n) n := by
  unfold readIntLength
  have := rt_bind (rt_readInt (n : Int) (by omega)) (e2 := []) (b := n)
    (f := fun v => if v < 0 then fail "negint" else pure v.toNat) (by
      have : ¬ ((n : Int) < 0) := by omega
      simp only [this, if_false, Int.toNat_natCast]; exact rt_pure n)
  simpa using this

theorem rt_readRaw (xs : Bytes) : RT (readRaw xs.length) xs xs := by
  rw [readRaw_eq_takeN]; exact rt_takeN xs "few"

theorem rt_readString (s : Bytes) (h : WfStr s) : RT readString (encString s) s := by
  unfold readString encString
  refine rt_bind (rt_readShort s.length h.1) ?_
  have := rt_bind (rt_readRaw s) (e2 := []) (f := checkUtf8) (b := s) (by
    unfold checkUtf8; simp only [h.2, if_true]; exact rt_pure s)
  simpa using this

theorem rt_readShortBytes (b : Bytes) (h : b.length < 65536) : RT readShortBytes (encShortBytes b) b := by
  unfold readShortBytes encShortBytes
  exact rt_bind (rt_readShort b.length h) (rt_readRaw b)

theorem rt_readBytes (b : Bytes) (h : b.length < 2 ^ 31) : RT readBytes (encBytes b) b := by
  unfold readBytes encBytes
  exact rt_bind (rt_readIntLength b.length h) (rt_readRaw b)

theorem rt_readBytesOpt (o : Option Bytes) (h : ∀ b, o = some b → b.length < 2 ^ 31) :
    RT readBytesOpt (encBytesOpt o) o := by
  unfold readBytesOpt
  cases o with
  | none =>
    have := rt_bind (rt_readInt (-1) (by omega)) (e2 := []) (b := (none : Option Bytes))
      (f := fun n => if n < 0 then pure none else readRaw n.toNat >>= fun raw => pure (some raw)) (by
        simp; exact rt_pure none)
    simpa [encBytesOpt] using this
  | some b =>
    have hb := h b rfl
    have hn : ¬ ((b.length : Int) < 0) := by omega
    have := rt_bind (rt_readInt (b.length : Int) (by omega)) (e2 := b) (b := some b)
      (f := fun n => if n < 0 then pure none else readRaw n.toNat >>= fun raw => pure (some raw)) (by
        simp only [hn, if_false, Int.toNat_natCast]
        exact rt_map some (rt_readRaw b))
    simpa [encBytesOpt] using this

theorem rt_readStringList (l : List Bytes) (hl : l.length < 65536) (h : ∀ s ∈ l, WfStr s) :
    RT readStringList (encStringList l) l := by
  unfold readStringList encStringList
  exact rt_bind (rt_readShort l.length hl) (rt_bind0 (rt_allocReq _) (rt_loopN encString l (fun s hs => rt_readString s (h s hs))))

theorem rt_readInet (a : Addr) (hip : a.ip.length = 4 ∨ a.ip.length = 16) (hp : a.port < 65536) :
    RT readInet (encInet a) a := by
  unfold readInet encInet
  rw [List.append_assoc]
  refine rt_bind (rt_readU8 a.ip.length (by omega)) ?_
  simp only [hip, if_true]
  refine rt_bind (rt_readRaw a.ip) ?_
  have hn : ¬ (((a.port : Nat) : Int) < 0 ∨ ((a.port : Nat) : Int) > 65535) := by omega
  have := rt_bind (rt_readInt (a.port : Int) (by omega)) (e2 := []) (b := a)
    (f := fun p => if p < 0 ∨ p > 65535 then fail "negint" else pure (⟨a.ip, p.toNat⟩ : Addr)) (by
      simp only [hn, if_false, Int.toNat_natCast]; exact rt_pure _)
  simpa using this

/-! ### binary column type descriptions -/

def nativeId : Native → Nat
  | .ascii => 0x01 | .bigint => 0x02 | .blob => 0x03 | .boolean => 0x04 | .counter => 0x05 | .decimal => 0x06
  | .double => 0x07 | .float => 0x08 | .int => 0x09 | .timestamp => 0x0B | .uuid => 0x0C | .text => 0x0D
  | .varint => 0x0E | .timeuuid => 0x0F | .inet => 0x10 | .date => 0x11 | .time => 0x12 | .smallint => 0x13
  | .tinyint => 0x14 | .duration => 0x15

mutual
/-- `[option]` of the protocol spec (§4.2.5.2) for the types that have a binary id. -/
def encTy : Ty → Bytes
  | .native n => encShort (nativeId n)
  | .list _ t => encShort 0x20 ++ encTy t
  | .set _ t => encShort 0x22 ++ encTy t
  | .map _ k v => encShort 0x21 ++ (encTy k ++ encTy v)
  | .tuple ts => encShort 0x31 ++ (encShort (tysLen ts) ++ encTys ts)
  | .udt _ ks name fs => encShort 0x30 ++ (encString ks ++ (encString name ++ (encShort (fieldsLen fs) ++ encFields fs)))
  | .vector _ _ => []
def encTys : List Ty → Bytes
  | [] => []
  | t :: ts => encTy t ++ encTys ts
def encFields : List (Bytes × Ty) → Bytes
  | [] => []
  | (n, t) :: fs => (encString n ++ encTy t) ++ encFields fs
def tysLen : List Ty → Nat
  | [] => 0
  | _ :: ts => tysLen ts + 1
def fieldsLen : List (Bytes × Ty) → Nat
  | [] => 0
  | _ :: fs => fieldsLen fs + 1
end

mutual
/-- Types the binary format can express (no frozen flag, no vector), well-formed, nested at most `fuel` deep. -/
def BinTy : Ty → Nat → Prop
  | _, 0 => False
  | .native _, _ + 1 => True
  | .list fr t, f + 1 => fr = false ∧ BinTy t f
  | .set fr t, f + 1 => fr = false ∧ BinTy t f
  | .map fr k v, f + 1 => fr = false ∧ BinTy k f ∧ BinTy v f
  | .tuple ts, f + 1 => tysLen ts < 65536 ∧ BinTys ts f
  | .udt fr ks name fs, f + 1 => fr = false ∧ WfStr ks ∧ WfStr name ∧ fieldsLen fs < 65536 ∧ BinFields fs f
  | .vector _ _, _ + 1 => False
def BinTys : List Ty → Nat → Prop
  | [], _ => True
  | t :: ts, f => BinTy t f ∧ BinTys ts f
def BinFields : List (Bytes × Ty) → Nat → Prop
  | [], _ => True
  | (n, t) :: fs, f => WfStr n ∧ BinTy t f ∧ BinFields fs f
end

theorem nativeOfId_nativeId (n : Native) : nativeOfId (nativeId n) = some n := by
  cases n <;> rfl

/-- The field reader inside the UDT loop of `deserType`. -/
def fieldReader (fuel : Nat) : M (Bytes × Ty) := do
  let fname ← tag "type.udtfield" readString
  let t ← deserType fuel
  pure (fname, t)

mutual
theorem rt_deserType : ∀ (t : Ty) (fuel : Nat), BinTy t fuel → RT (deserType fuel) (encTy t) t
  | t, 0, h => by cases t <;> simp [BinTy] at h
  | .native n, f + 1, _ => by
    unfold deserType encTy
    refine rt_bind0 (rt_noteDepth _) (?_)
    have h1 := rt_tag "type.id" (rt_readShort (nativeId n) (by cases n <;> decide))
    rw [← List.append_nil (encShort (nativeId n))]
    refine rt_bind h1 ?_
    cases n <;> exact rt_pure _
  | .list fr t, f + 1, h => by
    obtain ⟨rfl, ht⟩ := h
    unfold deserType encTy
    refine rt_bind0 (rt_noteDepth _) (rt_bind (rt_tag _ (rt_readShort 0x20 (by decide))) ?_)
    exact rt_map (fun t => Ty.list false t) (rt_deserType t f ht)
  | .set fr t, f + 1, h => by
    obtain ⟨rfl, ht⟩ := h
    unfold deserType encTy
    refine rt_bind0 (rt_noteDepth _) (rt_bind (rt_tag _ (rt_readShort 0x22 (by decide))) ?_)
    exact rt_map (fun t => Ty.set false t) (rt_deserType t f ht)
  | .map fr k v, f + 1, h => by
    obtain ⟨rfl, hk, hv⟩ := h
    unfold deserType encTy
    refine rt_bind0 (rt_noteDepth _) (rt_bind (rt_tag _ (rt_readShort 0x21 (by decide))) ?_)
    exact rt_bind (rt_deserType k f hk) (rt_map (fun v => Ty.map false k v) (rt_deserType v f hv))
  | .tuple ts, f + 1, h => by
    obtain ⟨hl, hts⟩ := h
    unfold deserType encTy
    refine rt_bind0 (rt_noteDepth _) (rt_bind (rt_tag _ (rt_readShort 0x31 (by decide))) ?_)
    refine rt_bind (rt_tag _ (rt_readShort (tysLen ts) hl)) ?_
    exact rt_map (fun ts => Ty.tuple ts) (rt_types ts f hts)
  | .udt fr ks name fs, f + 1, h => by
    obtain ⟨rfl, hks, hname, hl, hfs⟩ := h
    unfold deserType encTy
    refine rt_bind0 (rt_noteDepth _) (rt_bind (rt_tag _ (rt_readShort 0x30 (by decide))) ?_)
    refine rt_bind (rt_tag _ (rt_readString ks hks)) (rt_bind (rt_tag _ (rt_readString name hname))
      (rt_bind (rt_tag _ (rt_readShort (fieldsLen fs) hl)) ?_))
    exact rt_map (fun fields => Ty.udt false ks name fields) (rt_fields fs f hfs)
  | .vector _ _, _ + 1, h => by simp [BinTy] at h
theorem rt_types : ∀ (ts : List Ty) (fuel : Nat), BinTys ts fuel →
    RT (loopN (tysLen ts) (deserType fuel)) (encTys ts) ts
  | [], _, _ => by simpa [tysLen, loopN, encTys] using rt_pure ([] : List Ty)
  | t :: ts, f, h => by
    unfold tysLen loopN encTys
    exact rt_bind (rt_deserType t f h.1) (rt_map (fun r => t :: r) (rt_types ts f h.2))
theorem rt_fields : ∀ (fs : List (Bytes × Ty)) (fuel : Nat), BinFields fs fuel →
    RT (loopN (fieldsLen fs) (fieldReader fuel)) (encFields fs) fs
  | [], _, _ => by simpa [fieldsLen, loopN, encFields] using rt_pure ([] : List (Bytes × Ty))
  | (n, t) :: fs, f, h => by
    unfold fieldsLen loopN encFields
    refine rt_bind ?_ (rt_map (fun r => (n, t) :: r) (rt_fields fs f h.2.2))
    unfold fieldReader
    exact rt_bind (rt_tag _ (rt_readString n h.1)) (rt_map (fun t => (n, t)) (rt_deserType t f h.2.1))
end

/-! ### ERROR -/

def Fld.ty : Fld → FldTy
  | .int _ => .int | .cons _ => .cons | .bool _ => .bool | .byte _ => .byte | .str _ => .str | .strs _ => .strs
  | .sbytes _ => .sbytes

def encFld : Fld → Bytes
  | .int v => encInt v
  | .cons c => encShort c
  | .bool b => encU8 (if b then 1 else 0)
  | .byte n => encU8 n
  | .str s => encString s
  | .strs l => encStringList l
  | .sbytes b => encShortBytes b

def WfFld : Fld → Prop
  | .int v => -2 ^ 31 ≤ v ∧ v < 2 ^ 31
  | .cons c => c ≤ 10
  | .bool _ => True
  | .byte n => n < 256
  | .str s => WfStr s
  | .strs l => l.length < 65536 ∧ ∀ s ∈ l, WfStr s
  | .sbytes b => b.length < 65536

theorem rt_readConsistency (c : Nat) (h : c ≤ 10) : RT readConsistency (encShort c) c := by
  unfold readConsistency
  rw [← List.append_nil (encShort c)]
  refine rt_bind (rt_readShort c (by omega)) ?_
  have : consistencyOk c = true := by simp [consistencyOk]; omega
  simp only [this, if_true]; exact rt_pure c

theorem rt_readFld (x : Fld) (h : WfFld x) : RT (readFld x.ty) (encFld x) x := by
  cases x with
  | int v => exact rt_map Fld.int (rt_readInt v h)
  | cons c => exact rt_map Fld.cons (rt_readConsistency c h)
  | bool b =>
    have := rt_map (fun n => Fld.bool (n ≠ 0)) (rt_readU8 (if b then 1 else 0) (by split <;> omega))
    cases b <;> simpa [Fld.ty, readFld, encFld] using this
  | byte n => exact rt_map Fld.byte (rt_readU8 n h)
  | str s => exact rt_map Fld.str (rt_readString s h)
  | strs l => exact rt_map Fld.strs (rt_readStringList l h.1 h.2)
  | sbytes b => exact rt_map Fld.sbytes (rt_readShortBytes b h)

theorem rt_readFlds : ∀ (xs : List Fld), (∀ x ∈ xs, WfFld x) → RT (readFlds (xs.map Fld.ty)) (xs.flatMap encFld) xs
  | [], _ => by simpa [readFlds] using rt_pure ([] : List Fld)
  | x :: xs, h => by
    simp only [List.map_cons, readFlds, List.flatMap_cons]
    exact rt_bind (rt_readFld x (h x List.mem_cons_self))
      (rt_map (fun r => x :: r) (rt_readFlds xs (fun y hy => h y (List.mem_cons_of_mem _ hy))))

def encError (e : ErrorResp) : Bytes := encInt e.code ++ (encString e.reason ++ e.fields.flatMap encFld)

/-- The fields are those the protocol prescribes for the error code (with the negotiated rate-limit code). -/
def WfError (rl : Option Int) (e : ErrorResp) : Prop :=
  (-2 ^ 31 ≤ e.code ∧ e.code < 2 ^ 31) ∧ WfStr e.reason ∧ e.fields.map Fld.ty = (errorSpec rl e.code).2 ∧
    ∀ x ∈ e.fields, WfFld x

theorem rt_deserError (f : Features) (e : ErrorResp) (h : WfError f.rateLimitError e) :
    RT (deserError f) (encError e) e := by
  unfold deserError encError
  refine rt_bind (rt_tag _ (rt_readInt e.code h.1)) (rt_bind (rt_tag _ (rt_readString e.reason h.2.1)) ?_)
  rw [← h.2.2.1]
  have := rt_map (fun fields => (⟨e.code, e.reason, fields⟩ : ErrorResp)) (rt_tag "error.field" (rt_readFlds e.fields h.2.2.2))
  simpa using this

/-! ### SUPPORTED -/

def encMultimap (l : List (Bytes × List Bytes)) : Bytes :=
  encShort l.length ++ l.flatMap (fun p => encString p.1 ++ encStringList p.2)

def WfMultimap (l : List (Bytes × List Bytes)) : Prop :=
  l.length < 65536 ∧ ∀ p ∈ l, WfStr p.1 ∧ p.2.length < 65536 ∧ ∀ s ∈ p.2, WfStr s

theorem rt_readStringMultimap (l : List (Bytes × List Bytes)) (h : WfMultimap l) :
    RT readStringMultimap (encMultimap l) l := by
  unfold readStringMultimap encMultimap
  refine rt_bind (rt_readShort l.length h.1) (rt_bind0 (rt_allocReq _) ?_)
  refine rt_loopN (fun p => encString p.1 ++ encStringList p.2) l (fun p hp => ?_)
  have hp' := h.2 p hp
  exact rt_bind (rt_readString p.1 hp'.1) (rt_map (fun v => (p.1, v)) (rt_readStringList p.2 hp'.2.1 hp'.2.2))

/-! ### schema change, EVENT -/

def S (s : String) : Bytes := asciiBytes s

def encSchemaChange (sc : SchemaChange) : Bytes :=
  encString sc.changeType ++ match sc.target with
  | .keyspace => encString (S "KEYSPACE") ++ encString sc.ks
  | .table n => encString (S "TABLE") ++ (encString sc.ks ++ encString n)
  | .type n => encString (S "TYPE") ++ (encString sc.ks ++ encString n)
  | .function n args => encString (S "FUNCTION") ++ (encString sc.ks ++ (encString n ++ encStringList args))
  | .aggregate n args => encString (S "AGGREGATE") ++ (encString sc.ks ++ (encString n ++ encStringList args))

def WfTarget : SchemaTarget → Prop
  | .keyspace => True
  | .table n => WfStr n
  | .type n => WfStr n
  | .function n args => WfStr n ∧ args.length < 65536 ∧ ∀ s ∈ args, WfStr s
  | .aggregate n args => WfStr n ∧ args.length < 65536 ∧ ∀ s ∈ args, WfStr s

def WfSchemaChange (sc : SchemaChange) : Prop := WfStr sc.changeType ∧ WfStr sc.ks ∧ WfTarget sc.target

theorem wfS (s : String) (h : (utf8ok (S s) && decide ((S s).length < 65536)) = true) : WfStr (S s) := by
  simp only [Bool.and_eq_true, decide_eq_true_eq] at h
  exact ⟨h.2, h.1⟩

/-- The argument list as `deserSchemaChange` reads it. -/
theorem rt_args (args : List Bytes) (hl : args.length < 65536) (h : ∀ s ∈ args, WfStr s) {β : Type}
    (g : List Bytes → β) :
    RT (tag "schema.argcount" readShort >>= fun cnt => allocReq cnt >>= fun _ =>
        tag "schema.arg" (loopN cnt readString) >>= fun a => (pure (g a) : M β)) (encStringList args) (g args) := by
  unfold encStringList
  exact rt_bind (rt_tag _ (rt_readShort args.length hl)) (rt_bind0 (rt_allocReq _)
    (rt_map g (rt_tag _ (rt_loopN encString args (fun s hs => rt_readString s (h s hs))))))

theorem rt_deserSchemaChange (sc : SchemaChange) (h : WfSchemaChange sc) :
    RT deserSchemaChange (encSchemaChange sc) sc := by
  obtain ⟨ct, ks, target⟩ := sc
  obtain ⟨hct, hks, ht⟩ := h
  simp only at hct hks ht
  unfold deserSchemaChange encSchemaChange
  refine rt_bind (rt_tag _ (rt_readString ct hct)) ?_
  cases target with
  | keyspace =>
    refine rt_bind (rt_tag _ (rt_readString (S "KEYSPACE") (wfS _ (by decide +kernel)))) ?_
    rw [← List.append_nil (encString ks)]
    refine rt_bind (rt_tag _ (rt_readString ks hks)) ?_
    simp only [S, if_true, beq_self_eq_true]
    exact rt_pure _
  | table n =>
    refine rt_bind (rt_tag _ (rt_readString (S "TABLE") (wfS _ (by decide +kernel)))) ?_
    refine rt_bind (rt_tag _ (rt_readString ks hks)) ?_
    have e1 : (S "TABLE" == asciiBytes "KEYSPACE") = false := by decide +kernel
    simp only [S] at e1 ⊢
    simp only [e1, beq_self_eq_true, if_true, Bool.false_eq_true, if_false]
    exact rt_map (fun n => (⟨ct, ks, .table n⟩ : SchemaChange)) (rt_tag _ (rt_readString n ht))
  | type n =>
    refine rt_bind (rt_tag _ (rt_readString (S "TYPE") (wfS _ (by decide +kernel)))) ?_
    refine rt_bind (rt_tag _ (rt_readString ks hks)) ?_
    have e1 : (S "TYPE" == asciiBytes "KEYSPACE") = false := by decide +kernel
    have e2 : (S "TYPE" == asciiBytes "TABLE") = false := by decide +kernel
    simp only [S] at e1 e2 ⊢
    simp only [e1, e2, beq_self_eq_true, if_true, Bool.false_eq_true, if_false]
    exact rt_map (fun n => (⟨ct, ks, .type n⟩ : SchemaChange)) (rt_tag _ (rt_readString n ht))
  | function n args =>
    refine rt_bind (rt_tag _ (rt_readString (S "FUNCTION") (wfS _ (by decide +kernel)))) ?_
    refine rt_bind (rt_tag _ (rt_readString ks hks)) ?_
    have e1 : (S "FUNCTION" == asciiBytes "KEYSPACE") = false := by decide +kernel
    have e2 : (S "FUNCTION" == asciiBytes "TABLE") = false := by decide +kernel
    have e3 : (S "FUNCTION" == asciiBytes "TYPE") = false := by decide +kernel
    simp only [S] at e1 e2 e3 ⊢
    simp only [e1, e2, e3, beq_self_eq_true, if_true, Bool.false_eq_true, if_false]
    exact rt_bind (rt_tag _ (rt_readString n ht.1))
      (rt_args args ht.2.1 ht.2.2 (fun a => (⟨ct, ks, .function n a⟩ : SchemaChange)))
  | aggregate n args =>
    refine rt_bind (rt_tag _ (rt_readString (S "AGGREGATE") (wfS _ (by decide +kernel)))) ?_
    refine rt_bind (rt_tag _ (rt_readString ks hks)) ?_
    have e1 : (S "AGGREGATE" == asciiBytes "KEYSPACE") = false := by decide +kernel
    have e2 : (S "AGGREGATE" == asciiBytes "TABLE") = false := by decide +kernel
    have e3 : (S "AGGREGATE" == asciiBytes "TYPE") = false := by decide +kernel
    have e4 : (S "AGGREGATE" == asciiBytes "FUNCTION") = false := by decide +kernel
    simp only [S] at e1 e2 e3 e4 ⊢
    simp only [e1, e2, e3, e4, beq_self_eq_true, if_true, Bool.false_eq_true, if_false]
    exact rt_bind (rt_tag _ (rt_readString n ht.1))
      (rt_args args ht.2.1 ht.2.2 (fun a => (⟨ct, ks, .aggregate n a⟩ : SchemaChange)))

/-- EVENT kinds covered by the round trip (client-routes events carry host ids as UUID strings: not covered). -/
def encEvent : Event → Bytes
  | .topology c a => encString (S "TOPOLOGY_CHANGE") ++ (encString c ++ encInet a)
  | .status c a => encString (S "STATUS_CHANGE") ++ (encString c ++ encInet a)
  | .schema sc => encString (S "SCHEMA_CHANGE") ++ encSchemaChange sc
  | .routes _ _ => []

def WfAddr (a : Addr) : Prop := (a.ip.length = 4 ∨ a.ip.length = 16) ∧ a.port < 65536

def WfEvent : Event → Prop
  | .topology c a => (c = S "NEW_NODE" ∨ c = S "REMOVED_NODE") ∧ WfAddr a
  | .status c a => (c = S "UP" ∨ c = S "DOWN") ∧ WfAddr a
  | .schema sc => WfSchemaChange sc
  | .routes _ _ => False

theorem rt_deserEvent (e : Event) (h : WfEvent e) : RT deserEvent (encEvent e) e := by
  unfold deserEvent
  cases e with
  | topology c a =>
    unfold encEvent
    refine rt_bind (rt_tag _ (rt_readString (S "TOPOLOGY_CHANGE") (wfS _ (by decide +kernel)))) ?_
    simp only [S, beq_self_eq_true, if_true]
    have hc : WfStr c := by rcases h.1 with rfl | rfl <;> exact wfS _ (by decide +kernel)
    refine rt_bind (rt_tag _ (rt_readString c hc)) ?_
    rw [← List.append_nil (encInet a)]
    refine rt_bind (rt_tag _ (rt_readInet a h.2.1 h.2.2)) ?_
    have : (c == asciiBytes "NEW_NODE" ∨ c == asciiBytes "REMOVED_NODE") := by
      rcases h.1 with rfl | rfl <;> simp [S]
    simp only [this, if_true]; exact rt_pure _
  | status c a =>
    unfold encEvent
    refine rt_bind (rt_tag _ (rt_readString (S "STATUS_CHANGE") (wfS _ (by decide +kernel)))) ?_
    have e1 : (S "STATUS_CHANGE" == asciiBytes "TOPOLOGY_CHANGE") = false := by decide +kernel
    simp only [S] at e1 ⊢
    simp only [e1, beq_self_eq_true, if_true, Bool.false_eq_true, if_false]
    have hc : WfStr c := by rcases h.1 with rfl | rfl <;> exact wfS _ (by decide +kernel)
    refine rt_bind (rt_tag _ (rt_readString c hc)) ?_
    rw [← List.append_nil (encInet a)]
    refine rt_bind (rt_tag _ (rt_readInet a h.2.1 h.2.2)) ?_
    have : (c == asciiBytes "UP" ∨ c == asciiBytes "DOWN") := by
      rcases h.1 with rfl | rfl <;> simp [S]
    simp only [this, if_true]; exact rt_pure _
  | schema sc =>
    unfold encEvent
    refine rt_bind (rt_tag _ (rt_readString (S "SCHEMA_CHANGE") (wfS _ (by decide +kernel)))) ?_
    have e1 : (S "SCHEMA_CHANGE" == asciiBytes "TOPOLOGY_CHANGE") = false := by decide +kernel
    have e2 : (S "SCHEMA_CHANGE" == asciiBytes "STATUS_CHANGE") = false := by decide +kernel
    simp only [S] at e1 e2 ⊢
    simp only [e1, e2, beq_self_eq_true, if_true, Bool.false_eq_true, if_false]
    exact rt_map Event.schema (rt_deserSchemaChange sc h)
  | routes _ _ => exact absurd h (by simp [WfEvent])

/-! ### column specifications, result metadata, Rows -/

def encTableSpec (g : Bytes × Bytes) : Bytes := encString g.1 ++ encString g.2

def encColSpec (gts : Option (Bytes × Bytes)) (c : ColSpec) : Bytes :=
  (match gts with
   | some _ => []
   | none => encTableSpec (c.ks, c.table)) ++ (encString c.name ++ encTy c.ty)

def WfCol (gts : Option (Bytes × Bytes)) (c : ColSpec) : Prop :=
  WfStr c.name ∧ BinTy c.ty 129 ∧
    match gts with
    | some g => c.ks = g.1 ∧ c.table = g.2
    | none => WfStr c.ks ∧ WfStr c.table

theorem rt_deserTableSpec (g : Bytes × Bytes) (h : WfStr g.1 ∧ WfStr g.2) : RT deserTableSpec (encTableSpec g) g := by
  unfold deserTableSpec encTableSpec
  exact rt_bind (rt_tag _ (rt_readString g.1 h.1)) (rt_map (fun t => (g.1, t)) (rt_tag _ (rt_readString g.2 h.2)))

theorem rt_deserColSpec (gts : Option (Bytes × Bytes)) (c : ColSpec) (h : WfCol gts c) :
    RT (deserColSpec gts) (encColSpec gts c) c := by
  obtain ⟨ks, table, name, ty⟩ := c
  obtain ⟨hn, hty, hg⟩ := h
  have tail : RT (tag "name" readString >>= fun name => deserTypeTop >>= fun t =>
      (pure (⟨ks, table, name, t⟩ : ColSpec) : M ColSpec)) (encString name ++ encTy ty) ⟨ks, table, name, ty⟩ :=
    rt_bind (rt_tag _ (rt_readString name hn))
      (rt_map (fun t => (⟨ks, table, name, t⟩ : ColSpec)) (rt_deserType ty 129 hty))
  unfold deserColSpec encColSpec
  cases gts with
  | some g =>
    simp only at hg ⊢
    obtain ⟨rfl, rfl⟩ := hg
    exact rt_bind0 (by unfold tableSpecFor; exact rt_pure g) tail
  | none =>
    simp only at hg ⊢
    exact rt_bind (by unfold tableSpecFor; exact rt_deserTableSpec (ks, table) hg) tail

theorem rt_deserColSpecs (gts : Option (Bytes × Bytes)) (cols : List ColSpec) (h : ∀ c ∈ cols, WfCol gts c) :
    RT (deserColSpecs gts cols.length) (cols.flatMap (encColSpec gts)) cols := by
  unfold deserColSpecs
  exact rt_remaining_bind (fun rem => rt_bind0 (rt_allocReq _)
    (rt_loopN (encColSpec gts) cols (fun c hc => rt_tag _ (rt_deserColSpec gts c (h c hc)))))

/-- The `i32` flags word of result metadata: global table spec, has-more-pages, no-metadata, metadata-changed. -/
def flagBits (g p n c : Bool) : Int :=
  (if g then 1 else 0) + (if p then 2 else 0) + (if n then 4 else 0) + (if c then 8 else 0)

theorem flagSet_bits (g p n c : Bool) :
    flagSet (flagBits g p n c) 1 = g ∧ flagSet (flagBits g p n c) 2 = p ∧ flagSet (flagBits g p n c) 4 = n ∧
    flagSet (flagBits g p n c) 8 = c := by
  cases g <;> cases p <;> cases n <;> cases c <;> decide

theorem rt_optRead {m : M α} {e : Bytes} {a : α} (h : RT m e a) : RT (optRead true m) e (some a) := by
  unfold optRead; simp only [if_true]; exact rt_map some h

theorem rt_optRead_false (m : M α) : RT (optRead false m) [] (none : Option α) := by
  unfold optRead; simp only [Bool.false_eq_true, if_false]; exact rt_pure _

theorem flagBits_range (g p n c : Bool) : -2 ^ 31 ≤ flagBits g p n c ∧ flagBits g p n c < 2 ^ 31 := by
  cases g <;> cases p <;> cases n <;> cases c <;> decide

/-- Header of a Rows result: flags, column count, optional paging state. -/
def encRawRows (r : RawRows) : Bytes :=
  encInt (flagBits r.globalSpec r.paging.isSome (r.presence == .noMetadata) (r.presence == .withNewId)) ++
    (encInt r.colCount ++ match r.paging with
      | some p => encBytes p
      | none => [])

def WfRawRows (f : Features) (r : RawRows) : Prop :=
  (r.presence = .withNewId → f.metadataId = true) ∧ r.colCount < 2 ^ 31 ∧ ∀ p, r.paging = some p → p.length < 2 ^ 31

theorem rt_deserRawRows (f : Features) (r : RawRows) (h : WfRawRows f r) :
    RT (deserRawRows f) (encRawRows r) r := by
  unfold deserRawRows
  refine rt_sliced ?_
  obtain ⟨cc, g, pres, paging⟩ := r
  obtain ⟨hm, hcc, hp⟩ := h
  simp only at hm hcc hp
  unfold deserRawRowsHdr encRawRows
  refine rt_bind (rt_tag _ (rt_readInt _ (flagBits_range _ _ _ _))) ?_
  obtain ⟨b1, b2, b3, b4⟩ := flagSet_bits g paging.isSome (pres == .noMetadata) (pres == .withNewId)
  simp only [b1, b2, b3, b4]
  have hpres : (if (pres == MetaPresence.noMetadata) = true then MetaPresence.noMetadata
      else if (f.metadataId && pres == MetaPresence.withNewId) = true then MetaPresence.withNewId
      else MetaPresence.justMetadata) = pres := by
    cases pres <;> simp_all
  have hnot : ((pres == MetaPresence.noMetadata) && (f.metadataId && pres == MetaPresence.withNewId)) = false := by
    cases pres <;> simp
  simp only [hnot, Bool.false_eq_true, if_false, hpres]
  refine rt_bind (rt_tag _ (rt_readIntLength cc hcc)) ?_
  cases paging with
  | none => exact rt_map (fun pg => (⟨cc, g, pres, pg⟩ : RawRows)) (rt_optRead_false _)
  | some p =>
    exact rt_map (fun pg => (⟨cc, g, pres, pg⟩ : RawRows)) (rt_optRead (rt_tag "rows.paging" (rt_readBytes p (hp p rfl))))

/-- The table spec written as the global one: that of the first column (any, if there is no column). -/
def firstTable : List ColSpec → Bytes × Bytes
  | c :: _ => (c.ks, c.table)
  | [] => ([], [])

/-- Metadata of a Rows result as sent by the server (after the header): [new id] [global table spec] col specs. -/
def encRowsMeta (r : RawRows) (m : ResultMeta) : Bytes :=
  (match m.id with
   | some i => encShortBytes i
   | none => []) ++
  ((if r.globalSpec then encTableSpec (firstTable m.cols) else []) ++
   m.cols.flatMap (encColSpec (if r.globalSpec then some (firstTable m.cols) else none)))

def gtsOf (global : Bool) (cols : List ColSpec) : Option (Bytes × Bytes) :=
  if global then some (firstTable cols) else none

def WfRowsMeta (r : RawRows) (m : ResultMeta) : Prop :=
  r.presence ≠ .noMetadata ∧ (m.id.isSome ↔ r.presence = .withNewId) ∧ (∀ i, m.id = some i → i.length < 65536) ∧
  m.colCount = r.colCount ∧ m.cols.length = r.colCount ∧ (∀ c ∈ m.cols, WfCol (gtsOf r.globalSpec m.cols) c) ∧
  (r.globalSpec = true → ∀ g, gtsOf true m.cols = some g → WfStr g.1 ∧ WfStr g.2)

theorem rt_metaBody (global : Bool) (cols : List ColSpec) (newId : Option Bytes) (cc : Nat) (hcc : cols.length = cc)
    (hc : ∀ c ∈ cols, WfCol (gtsOf global cols) c)
    (hg : global = true → ∀ g, gtsOf true cols = some g → WfStr g.1 ∧ WfStr g.2) :
    RT (optRead global (tag "gts" deserTableSpec) >>= fun gts => deserColSpecs gts cc >>= fun cols =>
        (pure (MetaSource.parsed, (⟨newId, cc, cols⟩ : ResultMeta)) : M (MetaSource × ResultMeta)))
      ((if global then encTableSpec (firstTable cols) else []) ++ cols.flatMap (encColSpec (gtsOf global cols)))
      (MetaSource.parsed, ⟨newId, cc, cols⟩) := by
  subst hcc
  cases global with
  | false =>
    simp only [Bool.false_eq_true, if_false, List.nil_append]
    refine rt_bind0 (rt_optRead_false _) ?_
    exact rt_map (fun cs => (MetaSource.parsed, (⟨newId, cols.length, cs⟩ : ResultMeta)))
      (rt_deserColSpecs none cols (by simpa [gtsOf] using hc))
  | true =>
    simp only [if_true]
    have hw := hg rfl _ rfl
    refine rt_bind (rt_optRead (rt_tag "gts" (rt_deserTableSpec _ hw))) ?_
    exact rt_map (fun cs => (MetaSource.parsed, (⟨newId, cols.length, cs⟩ : ResultMeta)))
      (rt_deserColSpecs _ cols (by simpa [gtsOf] using hc))

theorem rt_metaFor (r : RawRows) (cached : Option ResultMeta) (m : ResultMeta) (h : WfRowsMeta r m) :
    RT (metaFor r cached) (encRowsMeta r m) (MetaSource.parsed, m) := by
  obtain ⟨cc, g, pres, paging⟩ := r
  obtain ⟨mid, mcc, cols⟩ := m
  obtain ⟨hp, hid, hil, hcc, hlen, hcols, hg⟩ := h
  simp only at hp hid hil hcc hlen hcols hg
  subst hcc
  unfold metaFor encRowsMeta
  cases pres with
  | noMetadata => exact absurd rfl hp
  | justMetadata =>
    have : mid = none := by
      cases mid with
      | none => rfl
      | some i => simp at hid
    subst this
    simp only [List.nil_append]
    unfold parsedMetaSliced parsedMeta
    refine rt_sliced (rt_tag _ (rt_bind0 (by simpa using rt_optRead_false (tag "newid" readShortBytes)) ?_))
    exact rt_metaBody g cols none mcc hlen hcols hg
  | withNewId =>
    cases mid with
    | none => simp at hid
    | some i =>
      simp only
      unfold parsedMetaSliced parsedMeta
      refine rt_sliced (rt_tag _ (rt_bind (by simpa using rt_optRead (rt_tag "newid" (rt_readShortBytes i (hil i rfl)))) ?_))
      exact rt_metaBody g cols (some i) mcc hlen hcols hg

/-! ### raw rows -/

def encRow (cells : List (Option Bytes)) : Bytes := cells.flatMap encBytesOpt

def WfCell (c : Option Bytes) : Prop := ∀ b, c = some b → b.length < 2 ^ 31

theorem readCells_roundtrip : ∀ (cells : List (Option Bytes)) (idx : Nat) (rest : Bytes), (∀ c ∈ cells, WfCell c) →
    readCells cells.length idx (encRow cells ++ rest) = .ok (cells, rest)
  | [], _, _, _ => by simp [readCells, encRow]
  | c :: cs, idx, rest, h => by
    simp only [List.length_cons, readCells, encRow, List.flatMap_cons, List.append_assoc]
    obtain ⟨s1, h1, hb⟩ := rt_readBytesOpt c (h c List.mem_cons_self) (cs.flatMap encBytesOpt ++ rest)
      { buf := encBytesOpt c ++ (cs.flatMap encBytesOpt ++ rest) } rfl
    rw [h1]
    simp only [hb]
    have ih := readCells_roundtrip cs (idx + 1) rest (fun x hx => h x (List.mem_cons_of_mem _ hx))
    simp only [encRow] at ih
    rw [ih]

theorem readRows_roundtrip (ncols : Nat) : ∀ (rows : List (List (Option Bytes))) (ridx : Nat),
    (∀ r ∈ rows, r.length = ncols ∧ ∀ c ∈ r, WfCell c) →
    readRows ncols rows.length ridx (rows.flatMap encRow) = (rows, none)
  | [], _, _ => by simp [readRows]
  | r :: rs, ridx, h => by
    simp only [List.length_cons, readRows, List.flatMap_cons]
    have hr := h r List.mem_cons_self
    have := readCells_roundtrip r 0 (rs.flatMap encRow) hr.2
    rw [hr.1] at this
    rw [this]
    simp only
    rw [readRows_roundtrip ncols rs (ridx + 1) (fun x hx => h x (List.mem_cons_of_mem _ hx))]

/-! ### PREPARED -/

def encGtsCols (global : Bool) (cols : List ColSpec) : Bytes :=
  (if global then encTableSpec (firstTable cols) else []) ++ cols.flatMap (encColSpec (gtsOf global cols))

def WfGtsCols (global : Bool) (cols : List ColSpec) : Prop :=
  (∀ c ∈ cols, WfCol (gtsOf global cols) c) ∧ (global = true → WfStr (firstTable cols).1 ∧ WfStr (firstTable cols).2)

theorem rt_gtsCols (global : Bool) (cols : List ColSpec) (h : WfGtsCols global cols) {β : Type} (g : List ColSpec → β) :
    RT (optRead global (tag "gts" deserTableSpec) >>= fun gts => deserColSpecs gts cols.length >>= fun cs =>
        (pure (g cs) : M β)) (encGtsCols global cols) (g cols) := by
  unfold encGtsCols
  cases global with
  | false =>
    simp only [Bool.false_eq_true, if_false, List.nil_append]
    exact rt_bind0 (rt_optRead_false _) (rt_map g (rt_deserColSpecs none cols (by simpa [gtsOf] using h.1)))
  | true =>
    simp only [if_true]
    exact rt_bind (rt_optRead (rt_tag "gts" (rt_deserTableSpec _ (h.2 rfl))))
      (rt_map g (rt_deserColSpecs _ cols (by simpa [gtsOf] using h.1)))

def encPreparedMeta (pm : PreparedMeta) : Bytes :=
  encInt pm.flags ++ (encInt pm.colCount ++ (encInt pm.pkIndexes.length ++
    ((pm.pkIndexes.map (·.1)).flatMap encShort ++ encGtsCols (flagSet pm.flags 1) pm.cols)))

def WfPreparedMeta (pm : PreparedMeta) : Prop :=
  (-2 ^ 31 ≤ pm.flags ∧ pm.flags < 2 ^ 31) ∧ pm.colCount = pm.cols.length ∧ pm.cols.length < 2 ^ 31 ∧
  pm.pkIndexes.length < 2 ^ 31 ∧ (∀ p ∈ pm.pkIndexes, p.1 < 65536) ∧
  pm.pkIndexes = (pm.pkIndexes.map (·.1)).zipIdx.map (fun p => (p.1, p.2 % 65536)) ∧
  WfGtsCols (flagSet pm.flags 1) pm.cols

theorem rt_deserPreparedMetadata (pm : PreparedMeta) (h : WfPreparedMeta pm) :
    RT deserPreparedMetadata (encPreparedMeta pm) pm := by
  obtain ⟨flags, cc, pk, cols⟩ := pm
  obtain ⟨hf, hcc, hcl, hpl, hpi, hpk, hg⟩ := h
  simp only at hf hcc hcl hpl hpi hpk hg
  subst hcc
  unfold deserPreparedMetadata encPreparedMeta
  refine rt_bind (rt_tag _ (rt_readInt flags hf)) (rt_bind (rt_tag _ (rt_readIntLength cols.length hcl))
    (rt_bind (rt_tag _ (rt_readIntLength pk.length hpl)) (rt_remaining_bind (fun rem => rt_bind0 (rt_allocReq _) ?_))))
  have hl := rt_loopN encShort (pk.map (·.1)) (body := tag "pkindex" readShort) (fun x hx => by
    obtain ⟨p, hp, rfl⟩ := List.mem_map.mp hx
    exact rt_tag _ (rt_readShort p.1 (hpi p hp)))
  rw [List.length_map] at hl
  refine rt_bind hl ?_
  have := rt_gtsCols (flagSet flags 1) cols hg
    (fun cs => (⟨flags, cols.length, (pk.map (·.1)).zipIdx.map (fun p => (p.1, p.2 % 65536)), cs⟩ : PreparedMeta))
  simp only []
  rw [← hpk]
  rw [← hpk] at this
  exact this

/-- Result metadata inside PREPARED; `global` / `noMeta` / `nid` are presentation choices of the server: `nid` is a
new metadata id announced with flag 0x8 (only with the metadata-id extension and real metadata); the driver reads
it and then keeps the id of the PREPARED response itself. -/
def encResultMetaP (global noMeta : Bool) (nid : Option Bytes) (m : ResultMeta) : Bytes :=
  encInt (flagBits global false noMeta nid.isSome) ++ (encInt m.colCount ++
    ((match nid with
      | some i => encShortBytes i
      | none => []) ++ (if noMeta then [] else encGtsCols global m.cols)))

def WfResultMetaP (f : Features) (global noMeta : Bool) (nid : Option Bytes) (m : ResultMeta) : Prop :=
  m.colCount < 2 ^ 31 ∧ (∀ i, nid = some i → f.metadataId = true ∧ noMeta = false ∧ i.length < 65536) ∧
  (if noMeta then m.cols = [] else m.cols.length = m.colCount ∧ WfGtsCols global m.cols)

theorem rt_deserResultMetadataP (f : Features) (global noMeta : Bool) (nid : Option Bytes) (m : ResultMeta)
    (h : WfResultMetaP f global noMeta nid m) :
    RT (deserResultMetadata f) (encResultMetaP global noMeta nid m) (⟨nid, m.colCount, m.cols⟩, none) := by
  obtain ⟨mid, cc, cols⟩ := m
  obtain ⟨hcc, hn, hc⟩ := h
  simp only at hcc hc ⊢
  unfold deserResultMetadata encResultMetaP
  refine rt_bind (rt_tag _ (rt_readInt _ (flagBits_range _ _ _ _))) ?_
  obtain ⟨b1, b2, b3, b4⟩ := flagSet_bits global false noMeta nid.isSome
  simp only [b1, b2, b3, b4]
  have hch : (f.metadataId && nid.isSome) = nid.isSome := by
    cases nid with
    | none => simp
    | some i => simp [(hn i rfl).1]
  have hnot : ((f.metadataId && nid.isSome) && noMeta) = false := by
    cases nid with
    | none => simp
    | some i => simp [(hn i rfl).2.1]
  simp only [hch]
  have hnot2 : (nid.isSome && noMeta) = false := by rw [← hch]; exact hnot
  simp only [hnot2, Bool.false_eq_true, if_false]
  refine rt_bind (rt_tag _ (rt_readIntLength cc hcc)) (rt_bind0 (rt_optRead_false _) ?_)
  have tail : RT (condRead (!noMeta) (optRead global (tag "gts" deserTableSpec) >>= fun gts =>
        deserColSpecs gts cc) [] >>= fun cs =>
        (pure ((⟨nid, cc, cs⟩ : ResultMeta), (none : Option Bytes)) : M (ResultMeta × Option Bytes)))
      (if noMeta then [] else encGtsCols global cols) ((⟨nid, cc, cols⟩ : ResultMeta), none) := by
    cases noMeta with
    | true =>
      simp only [if_true] at hc ⊢
      subst hc
      simp only [condRead, Bool.not_true, Bool.false_eq_true, if_false]
      exact rt_map (fun cs => ((⟨nid, cc, cs⟩ : ResultMeta), (none : Option Bytes))) (rt_pure [])
    | false =>
      simp only [Bool.false_eq_true, if_false] at hc ⊢
      obtain ⟨hl, hg⟩ := hc
      subst hl
      simp only [condRead, Bool.not_false, if_true]
      have := rt_gtsCols global cols hg (fun cs => cs)
      simp only [bind_pure_M] at this
      exact rt_map (fun cs => ((⟨nid, cols.length, cs⟩ : ResultMeta), (none : Option Bytes))) (by
        simpa [bind_pure_M] using this)
  cases nid with
  | none => exact rt_bind0 (rt_optRead_false _) tail
  | some i => exact rt_bind (rt_optRead (rt_tag "newid" (rt_readShortBytes i (hn i rfl).2.2))) tail

def encPrepared (f : Features) (global noMeta : Bool) (nid : Option Bytes) (p : Prepared) : Bytes :=
  encShortBytes p.id ++ ((match p.resultMeta.id with
    | some i => encShortBytes i
    | none => []) ++ (encPreparedMeta p.prepMeta ++ encResultMetaP global noMeta nid p.resultMeta))

def WfPrepared (f : Features) (global noMeta : Bool) (nid : Option Bytes) (p : Prepared) : Prop :=
  p.id.length < 65536 ∧ (p.resultMeta.id.isSome = f.metadataId) ∧ (∀ i, p.resultMeta.id = some i → i.length < 65536) ∧
  WfPreparedMeta p.prepMeta ∧ WfResultMetaP f global noMeta nid p.resultMeta

theorem rt_deserPrepared (f : Features) (global noMeta : Bool) (nid : Option Bytes) (p : Prepared)
    (h : WfPrepared f global noMeta nid p) :
    RT (deserPrepared f) (encPrepared f global noMeta nid p) p := by
  obtain ⟨id, pm, ⟨rid, rcc, rcols⟩⟩ := p
  obtain ⟨hid, hrm, hril, hpm, hrmw⟩ := h
  simp only at hid hrm hril hpm hrmw
  unfold deserPrepared encPrepared
  refine rt_bind (rt_tag _ (rt_readShortBytes id hid)) ?_
  have tail : ∀ rmid : Option Bytes, RT (tag "prep.pm" deserPreparedMetadata >>= fun pm =>
      tag "prep.rm" (deserResultMetadata f) >>= fun rp =>
        match rp.2 with
        | some _ => fail "prep.nonzeropaging"
        | none => (pure (⟨id, pm, { rp.1 with id := rmid }⟩ : Prepared) : M Prepared))
      (encPreparedMeta pm ++ encResultMetaP global noMeta nid ⟨rid, rcc, rcols⟩) ⟨id, pm, ⟨rmid, rcc, rcols⟩⟩ := by
    intro rmid
    refine rt_bind (rt_tag _ (rt_deserPreparedMetadata pm hpm)) ?_
    rw [← List.append_nil (encResultMetaP global noMeta nid _)]
    refine rt_bind (rt_tag _ (rt_deserResultMetadataP f global noMeta nid ⟨rid, rcc, rcols⟩ hrmw)) ?_
    exact rt_pure _
  cases rid with
  | none =>
    have hm : f.metadataId = false := by simpa using hrm.symm
    simp only [hm, List.nil_append]
    exact rt_bind0 (rt_optRead_false _) (tail none)
  | some i =>
    have hm : f.metadataId = true := by simpa using hrm.symm
    simp only [hm]
    exact rt_bind (rt_optRead (rt_tag "prep.rmid" (rt_readShortBytes i (hril i rfl)))) (tail (some i))

/-! ### truncation: every proper prefix of an encoding is an error -/

/-- Every proper prefix `p` of `enc` makes `m` fail. -/
def TR (m : M α) (enc : Bytes) : Prop :=
  ∀ (p t : Bytes), t ≠ [] → p ++ t = enc → ∀ s : St, s.buf = p → ∃ k, (m s).1 = .err k

theorem tr_takeN (xs : Bytes) (k : String) : TR (takeN xs.length k) xs := by
  intro p t ht hp s hs
  refine ⟨k, ?_⟩
  have hl : p.length + t.length = xs.length := by rw [← hp]; simp
  have : 0 < t.length := List.length_pos_iff.mpr ht
  unfold takeN
  have : s.buf.length < xs.length := by rw [hs]; omega
  simp [this]

theorem tr_readRaw (xs : Bytes) : TR (readRaw xs.length) xs := by
  rw [readRaw_eq_takeN]; exact tr_takeN xs "few"

theorem tr_bindL {m : M α} {f : α → M β} {e : Bytes} (h : TR m e) : TR (m >>= f) e := by
  intro p t ht hp s hs
  obtain ⟨k, hk⟩ := h p t ht hp s hs
  refine ⟨k, ?_⟩
  simp only [bind_def]
  cases hm : m s with
  | mk o s1 => rw [hm] at hk; simp only at hk; subst hk; rfl

theorem tr_tag {m : M α} {e : Bytes} (t : String) (h : TR m e) : TR (tag t m) e := by
  intro p t' ht hp s hs
  obtain ⟨k, hk⟩ := h p t' ht hp s hs
  refine ⟨t ++ "." ++ k, ?_⟩
  rw [tag_def]
  cases hm : m s with
  | mk o s1 => rw [hm] at hk; simp only at hk; subst hk; rfl

theorem tr_tracked {m : M α} {e : Bytes} (h : TR m e) : TR (tracked m) e := by
  intro p t ht hp s hs
  obtain ⟨k, hk⟩ := h p t ht hp s hs
  refine ⟨k, ?_⟩
  unfold tracked
  cases hm : m s with
  | mk o s1 => rw [hm] at hk; simp only at hk; subst hk; rfl

theorem tr_bind {m : M α} {f : α → M β} {e1 e2 : Bytes} {a : α}
    (h1 : RT m e1 a) (ht1 : TR m e1) (ht2 : TR (f a) e2) : TR (m >>= f) (e1 ++ e2) := by
  intro p t ht hp s hs
  by_cases hlen : p.length < e1.length
  · -- the cut is inside the first part
    have hp1 : p ++ (e1.drop p.length) = e1 := by
      have : p = e1.take p.length := by
        have := congrArg (List.take p.length) hp
        rw [List.take_append_of_le_length (Nat.le_refl _), List.take_length,
          List.take_append_of_le_length (by omega)] at this
        exact this
      conv => lhs; arg 1; rw [this]
      exact List.take_append_drop _ _
    have hne : e1.drop p.length ≠ [] := by
      intro h
      have := congrArg List.length h
      simp at this; omega
    exact tr_bindL ht1 p _ hne hp1 s hs
  · -- the first part is intact
    have hp1 : p = e1 ++ p.drop e1.length := by
      have : e1 = p.take e1.length := by
        have := congrArg (List.take e1.length) hp
        rw [List.take_append_of_le_length (by omega), List.take_append_of_le_length (Nat.le_refl _),
          List.take_length] at this
        exact this.symm
      conv => rhs; arg 1; rw [this]
      exact (List.take_append_drop _ _).symm
    have hp2 : p.drop e1.length ++ t = e2 := by
      rw [hp1, List.append_assoc] at hp
      exact List.append_cancel_left hp
    obtain ⟨s1, hm, hb⟩ := h1 (p.drop e1.length) s (by rw [hs]; exact hp1)
    obtain ⟨k, hk⟩ := ht2 _ t ht hp2 s1 hb
    refine ⟨k, ?_⟩
    simp only [bind_def, hm]
    exact hk

theorem tr_readShort (n : Nat) : TR readShort (encShort n) := by
  unfold readShort; exact tr_bindL (tr_takeN (encShort n) "eof")

theorem tr_readInt (v : Int) : TR readInt (encInt v) := by
  unfold readInt; exact tr_bindL (tr_takeN (encInt v) "eof")

theorem tr_readString (s : Bytes) (h : s.length < 65536) : TR readString (encString s) := by
  unfold readString encString
  exact tr_bind (rt_readShort s.length h) (tr_readShort _) (tr_bindL (tr_readRaw s))

theorem tr_readBytesOpt (o : Option Bytes) (h : ∀ b, o = some b → b.length < 2 ^ 31) :
    TR readBytesOpt (encBytesOpt o) := by
  unfold readBytesOpt
  cases o with
  | none =>
    simp only [encBytesOpt]
    exact tr_bindL (tr_readInt _)
  | some b =>
    simp only [encBytesOpt]
    refine tr_bind (rt_readInt (b.length : Int) (by have := h b rfl; omega)) (tr_readInt _) ?_
    have hn : ¬ ((b.length : Int) < 0) := by omega
    simp only [hn, if_false, Int.toNat_natCast]
    exact tr_bindL (tr_readRaw b)

end ScyllaVerif.C08

import ScyllaVerif.Proofs.CustomFuel
import ScyllaVerif.Proofs.DecodeAlloc
/-
C08 — an honest depth bound: the NESTING of every column type that the two type parsers return is bounded
(custom type strings: ≤ 128; binary descriptions: ≤ 129 levels plus a custom leaf), measured on the result rather
than read off the termination fuel.  The recursion of a successful parse is as deep as the type it builds (plus
`FrozenType(` wrappers, which the nesting limit counts as well), and typed value decoding recurses on the type.
-/
namespace ScyllaVerif.C08

mutual
/-- Nesting depth of a column type (a native is 1). -/
def nestTy : Ty → Nat
  | .native _ => 1
  | .list _ t => nestTy t + 1
  | .set _ t => nestTy t + 1
  | .map _ k v => max (nestTy k) (nestTy v) + 1
  | .tuple ts => nestTys ts + 1
  | .udt _ _ _ fs => nestFields fs + 1
  | .vector t _ => nestTy t + 1
def nestTys : List Ty → Nat
  | [] => 0
  | t :: ts => max (nestTy t) (nestTys ts)
def nestFields : List (Bytes × Ty) → Nat
  | [] => 0
  | (_, t) :: fs => max (nestTy t) (nestFields fs)
end

/-! ### custom type strings -/

/-- Every type `parse` returns is nested at most `f` deep. -/
def PB (parse : CtParse) (f : Nat) : Prop := ∀ fr s t s', parse fr s = .ok (t, s') → nestTy t ≤ f

theorem paramsLoop_nest (parse : CtParse) (f : Nat) (hp : PB parse f) (fr : Bool) :
    ∀ (n : Nat) (s : Str) (t : Ty), .ok t ∈ (paramsLoop parse fr n s).1 → nestTy t ≤ f
  | 0, s, t, h => by simp [paramsLoop] at h
  | n + 1, s, t, h => by
    unfold paramsLoop at h
    simp only [] at h
    split at h
    · simp at h
    · split at h
      · simp at h
      · split at h
        · simp at h
        · rename_i t' s' he
          simp only [List.mem_cons] at h
          rcases h with h | h
          · injection h with h; subst h; exact hp fr _ _ s' he
          · exact paramsLoop_nest parse f hp fr n s' t h

theorem typeParameters_nest (parse : CtParse) (f : Nat) (hp : PB parse f) (fr : Bool) (s : Str)
    (items : List (CtRes Ty)) (s' : Str) (h : typeParameters parse fr s = .ok (items, s')) :
    ∀ t, .ok t ∈ items → nestTy t ≤ f := by
  unfold typeParameters at h
  split at h
  · injection h with h; injection h with h1 _; subst h1; intro t ht; simp at ht
  · split at h
    · cases h
    · rename_i s1 _
      injection h with h
      intro t ht
      have := paramsLoop_nest parse f hp fr (s1.length + 1) s1 t
      rw [h] at this; exact this ht

theorem nTypeParameters_nest (parse : CtParse) (f : Nat) (hp : PB parse f) (fr : Bool) (n : Nat) (s : Str)
    (items : List (CtRes Ty)) (s' : Str) (h : nTypeParameters parse fr n s = .ok (items, s')) :
    ∀ t, .ok t ∈ items → nestTy t ≤ f := by
  unfold nTypeParameters at h
  cases ht : typeParameters parse fr s with
  | error e => rw [ht] at h; cases h
  | ok p =>
    obtain ⟨i2, s2⟩ := p
    rw [ht] at h
    simp only at h
    split at h
    · injection h with h; injection h with h1 _; subst h1
      exact typeParameters_nest parse f hp fr s i2 s2 ht
    · cases h

theorem collectOk_nest (f : Nat) : ∀ (items : List (CtRes Ty)) (ts : List Ty),
    (∀ t, .ok t ∈ items → nestTy t ≤ f) → collectOk items = .ok ts → nestTys ts ≤ f
  | [], ts, _, h => by simp [collectOk] at h; subst h; simp [nestTys]
  | .error e :: rest, ts, _, h => by simp [collectOk] at h
  | .ok t :: rest, ts, hall, h => by
    unfold collectOk at h
    cases hc : collectOk rest with
    | error e => rw [hc] at h; cases h
    | ok r =>
      rw [hc] at h
      injection h with h; subst h
      have h1 := hall t List.mem_cons_self
      have h2 := collectOk_nest f rest r (fun t ht => hall t (List.mem_cons_of_mem _ ht)) hc
      simp only [nestTys]; omega

theorem udtFields_nest (parse : CtParse) (f : Nat) (hp : PB parse f) (fr : Bool) :
    ∀ (n : Nat) (s : Str) (r : List (Bytes × Ty)) (s' : Str), udtFields parse fr n s = .ok (r, s') → nestFields r ≤ f
  | 0, _, _, _, h => by simp [udtFields] at h
  | n + 1, s, r, s', h => by
    unfold udtFields at h
    simp only [] at h
    split at h
    · cases h
    · split at h
      · injection h with h; injection h with h1 _; subst h1; simp [nestFields]
      · split at h
        · cases h
        · split at h
          · cases h
          · split at h
            · cases h
            · rename_i t s3 hpk
              split at h
              · cases h
              · rename_i r' s4 hu
                injection h with h; injection h with h1 _; subst h1
                have h1 := hp fr _ t s3 hpk
                have h2 := udtFields_nest parse f hp fr n s3 r' s4 hu
                simp only [nestFields]; omega

theorem oneParam_nest (parse : CtParse) (f : Nat) (hp : PB parse f) (fr : Bool) (s : Str) (t : Ty) (s' : Str)
    (h : oneParam parse fr s = .ok (t, s')) : nestTy t ≤ f := by
  unfold oneParam at h
  split at h
  · rename_i t' s2 he
    injection h with h; injection h with h1 _; subst h1
    exact nTypeParameters_nest parse f hp fr 1 s _ _ he t' (by simp)
  · cases h
  · cases h
  · cases h

theorem complexType_nest (parse : CtParse) (f : Nat) (hp : PB parse f) (fr : Bool) (name : Bytes) (s : Str)
    (t : Ty) (s' : Str) (h : complexType parse fr name s = .ok (t, s')) : nestTy t ≤ f + 1 := by
  unfold complexType at h
  simp only [] at h
  split at h
  · split at h
    · rename_i t' s2 he
      injection h with h; injection h with h1 _; subst h1
      have := oneParam_nest parse f hp fr s t' s2 he
      simp only [nestTy]; omega
    · cases h
  · split at h
    · split at h
      · rename_i t' s2 he
        injection h with h; injection h with h1 _; subst h1
        have := oneParam_nest parse f hp fr s t' s2 he
        simp only [nestTy]; omega
      · cases h
    · split at h
      · split at h
        · rename_i k v s2 he
          injection h with h; injection h with h1 _; subst h1
          have hk := nTypeParameters_nest parse f hp fr 2 s _ _ he k (by simp)
          have hv := nTypeParameters_nest parse f hp fr 2 s _ _ he v (by simp)
          simp only [nestTy]; omega
        · cases h
        · cases h
        · cases h
        · cases h
      · split at h
        · split at h
          · cases h
          · rename_i items s2 he
            split at h
            · cases h
            · cases h
            · rename_i ts _ hc
              injection h with h; injection h with h1 _; subst h1
              have := collectOk_nest f items ts (typeParameters_nest parse f hp fr s items s2 he) hc
              simp only [nestTy]; omega
        · split at h
          · split at h
            · cases h
            · split at h
              · cases h
              · split at h
                · cases h
                · rename_i t' s3 hpk
                  split at h
                  · cases h
                  · split at h
                    · cases h
                    · split at h
                      · cases h
                      · injection h with h; injection h with h1 _; subst h1
                        have := hp fr _ t' s3 hpk
                        simp only [nestTy]; omega
          · split at h
            · split at h
              · cases h
              · split at h
                · cases h
                · split at h
                  · cases h
                  · rename_i fields s4 hu
                    injection h with h; injection h with h1 _; subst h1
                    have := udtFields_nest parse f hp fr _ _ fields s4 hu
                    simp only [nestTy]; omega
            · split at h
              · have := oneParam_nest parse f hp true s t s' h
                omega
              · cases h

/-- A custom type string never yields a type nested deeper than the fuel (`128 - depth` levels). -/
theorem doParse_nest : ∀ fuel, PB (doParse fuel) fuel
  | 0 => by intro fr s t s' h; simp [doParse] at h
  | fuel + 1 => by
    intro fr s t s' h
    have ih := doParse_nest fuel
    unfold doParse at h
    simp only [] at h
    split at h
    · split at h
      · cases h
      · injection h with h; injection h with h1 _; subst h1; simp [nestTy]
    · split at h
      · cases h
      · split at h
        · exact complexType_nest (doParse fuel) fuel ih fr _ _ t s' h
        · split at h
          · rename_i t' hs
            injection h with h; injection h with h1 _; subst h1
            unfold simpleType at hs
            simp only [] at hs
            split at hs
            · injection hs with hs; subst hs; simp [nestTy]
            · cases hs
          · cases h

theorem customParse_nest (uni : List (Bytes × UCls)) (s : Bytes) (t : Ty) (h : customParse uni s = .ok t) :
    nestTy t ≤ 128 := by
  unfold customParse at h
  split at h
  · rename_i t' s' he
    injection h with h; subst h
    exact doParse_nest MAX_TYPE_NESTING_DEPTH false _ t' s' he
  · cases h

/-! ### binary type descriptions -/

/-- Postcondition on the value a reader returns. -/
def Post (m : M α) (P : α → Prop) : Prop := ∀ s a s', m s = (.ok a, s') → P a

theorem post_pure (a : α) (P : α → Prop) (h : P a) : Post (pure a : M α) P := by
  intro s a' s' e; simp only [pure_def] at e; injection e with e1 _; injection e1 with e1; subst e1; exact h

theorem post_fail (k : String) (P : α → Prop) : Post (fail k : M α) P := by
  intro s a s' e; simp at e

theorem post_bind {m : M α} {f : α → M β} {P : β → Prop} (h : ∀ a, Post (f a) P) : Post (m >>= f) P := by
  intro s b s' e
  simp only [bind_def] at e
  cases hm : m s with
  | mk o s1 =>
    rw [hm] at e
    cases o with
    | ok a => exact h a s1 b s' e
    | err k => simp at e
    | panic k => simp at e

/-- `bind` that remembers a postcondition of the first reader. -/
theorem post_bind2 {m : M α} {f : α → M β} {Q : α → Prop} {P : β → Prop} (hm : Post m Q)
    (h : ∀ a, Q a → Post (f a) P) : Post (m >>= f) P := by
  intro s b s' e
  simp only [bind_def] at e
  cases hms : m s with
  | mk o s1 =>
    rw [hms] at e
    cases o with
    | ok a => exact h a (hm s a s1 hms) s1 b s' e
    | err k => simp at e
    | panic k => simp at e

theorem post_tag {m : M α} {P : α → Prop} (t : String) (h : Post m P) : Post (tag t m) P := by
  intro s a s' e
  rw [tag_def] at e
  cases hm : m s with
  | mk o s1 =>
    rw [hm] at e
    cases o with
    | ok a' => simp only at e; injection e with e1 e2; injection e1 with e1; subst e1; exact h s _ s1 hm
    | err k => simp at e
    | panic k => simp at e

theorem post_loopN {m : M α} {P : α → Prop} (h : Post m P) : ∀ n, Post (loopN n m) (fun l => ∀ x ∈ l, P x)
  | 0 => by
    intro s l s' e
    simp only [loopN, pure_def] at e
    injection e with e1 _; injection e1 with e1; subst e1; simp
  | n + 1 => by
    unfold loopN
    refine post_bind2 h (fun a ha => post_bind2 (post_loopN h n) (fun r hr => ?_))
    refine post_pure _ _ ?_
    intro x hx
    simp only [List.mem_cons] at hx
    rcases hx with rfl | hx
    · exact ha
    · exact hr x hx

theorem nestTys_le (ts : List Ty) (b : Nat) (h : ∀ t ∈ ts, nestTy t ≤ b) : nestTys ts ≤ b := by
  induction ts with
  | nil => simp [nestTys]
  | cons t ts ih =>
    simp only [nestTys]
    have := h t List.mem_cons_self
    have := ih (fun x hx => h x (List.mem_cons_of_mem _ hx))
    omega

theorem nestFields_le (fs : List (Bytes × Ty)) (b : Nat) (h : ∀ p ∈ fs, nestTy p.2 ≤ b) : nestFields fs ≤ b := by
  induction fs with
  | nil => simp [nestFields]
  | cons p fs ih =>
    obtain ⟨n, t⟩ := p
    simp only [nestFields]
    have := h (n, t) List.mem_cons_self
    have := ih (fun x hx => h x (List.mem_cons_of_mem _ hx))
    simp only at *
    omega

/-- Every type a binary description yields is nested at most `fuel + 128` deep: one level per level of the
description (`fuel = 129 - depth`), plus at most 128 inside a custom type string leaf. -/
theorem deserType_nest : ∀ fuel, Post (deserType fuel) (fun t => nestTy t ≤ fuel + 128)
  | 0 => by unfold deserType; exact post_fail _ _
  | fuel + 1 => by
    have ih := deserType_nest fuel
    unfold deserType
    refine post_bind (fun _ => post_bind (fun id => ?_))
    split
    · refine post_bind (fun str => post_bind (fun uni => ?_))
      split
      · rename_i t ht
        refine post_bind (fun _ => post_pure _ _ ?_)
        have := customParse_nest uni str t ht
        omega
      · exact post_fail _ _
      · intro s a s' e; simp [panicAt] at e
      · exact post_fail _ _
    · refine post_bind2 ih (fun t ht => post_pure _ _ ?_); simp only [nestTy]; omega
    · refine post_bind2 ih (fun k hk => post_bind2 ih (fun v hv => post_pure _ _ ?_)); simp only [nestTy]; omega
    · refine post_bind2 ih (fun t ht => post_pure _ _ ?_); simp only [nestTy]; omega
    · refine post_bind (fun ks => post_bind (fun name => post_bind (fun n => ?_)))
      have hbody : Post (tag "type.udtfield" readString >>= fun fname => deserType fuel >>= fun t =>
          (pure (fname, t) : M (Bytes × Ty))) (fun p => nestTy p.2 ≤ fuel + 128) :=
        post_bind (fun fname => post_bind2 ih (fun t ht => post_pure _ _ ht))
      refine post_bind2 (post_loopN hbody n) (fun fields hf => post_pure _ _ ?_)
      have := nestFields_le fields (fuel + 128) hf
      simp only [nestTy]; omega
    · refine post_bind (fun n => post_bind2 (post_loopN ih n) (fun ts hts => post_pure _ _ ?_))
      have := nestTys_le ts (fuel + 128) hts
      simp only [nestTy]; omega
    · split
      · exact post_pure _ _ (by simp only [nestTy]; omega)
      · exact post_fail _ _

/-- THE HONEST DEPTH BOUND: every column type the driver accepts from the network is nested at most 257 deep
(129 levels of binary description + 128 of a custom type string), so everything that recurses on a column type —
the parsers on success, `type_check`, typed value decoding — recurses at most that deep. -/
theorem deserTypeTop_nest : Post deserTypeTop (fun t => nestTy t ≤ 257) := by
  unfold deserTypeTop
  intro s a s' e
  have := deserType_nest 129 s a s' e
  omega

end ScyllaVerif.C08

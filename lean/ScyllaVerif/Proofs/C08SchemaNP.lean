import ScyllaVerif.Model.C08SchemaType
/-!
C08 — the schema-table type string parser (`Model/C08SchemaType.lean`): never a panic, the tuple loop's fuel is never
exhausted, every successful parse consumes at least one scalar, and the nesting of the returned type is bounded by
the nesting fuel (`TOP_FUEL = MAX_CQL_TYPE_NESTING_DEPTH + 1`).
-/
namespace ScyllaVerif.C08S
open ScyllaVerif ScyllaVerif.C08

theorem length_takeWhile_le (p : CU → Bool) (s : Str) : (s.takeWhile p).length ≤ s.length := by
  induction s with
  | nil => simp
  | cons a t ih => simp [List.takeWhile]; split <;> simp <;> omega

/-- `take_while`'s slices never panic: `idx ≤ len`. -/
theorem takeWhileP_eq (p : CU → Bool) (s : Str) :
    takeWhileP p s = .ok (s.take (s.takeWhile p).length, s.drop (s.takeWhile p).length) := by
  unfold takeWhileP
  have := length_takeWhile_le p s
  simp only []
  rw [if_neg (by omega)]

theorem skipWhiteP_ok (s : Str) : ∃ r, skipWhiteP s = .ok r ∧ r.length ≤ s.length := by
  refine ⟨s.drop (s.takeWhile CU.isWhite).length, ?_, ?_⟩
  · unfold skipWhiteP; rw [takeWhileP_eq]
  · simp [List.length_drop]

theorem stripLit_len : ∀ (lit : Bytes) (s r : Str), stripLit lit s = some r → r.length + lit.length = s.length
  | [], s, r, h => by simp [stripLit] at h; subst h; simp
  | _ :: _, [], r, h => by simp [stripLit] at h
  | c :: cs, u :: rest, r, h => by
    simp only [stripLit] at h
    split at h
    · have := stripLit_len cs rest r h
      simp only [List.length_cons]; omega
    · cases h

/-- Result of a sub-step that returns the remaining input: not a panic, not the model's fuel; on success the input
did not grow, and shrank by at least `k`. -/
def StepOk (k : Nat) (s : Str) : SRes Str → Prop
  | .ok r => r.length + k ≤ s.length
  | .error (.perr _ _) => True
  | .error (.panic _) => False
  | .error (.fuel _) => False

theorem acceptP_step (lit : String) (s : Str) : StepOk (asciiBytes lit).length s (acceptP lit s) := by
  unfold acceptP
  cases h : stripLit (asciiBytes lit) s with
  | none => simp [StepOk]
  | some r => have := stripLit_len _ _ _ h; simp only [StepOk]; omega

/-- A parser result: the rest is STRICTLY shorter than the input, the type nests at most `n`; never a panic, never
the model's fuel. -/
def Good (n : Nat) (s : Str) : SRes (PreTy × Str) → Prop
  | .ok (t, r) => r.length < s.length ∧ nestPre t ≤ n
  | .error (.perr _ _) => True
  | .error (.panic _) => False
  | .error (.fuel _) => False

def GoodP (n : Nat) (p : Str → SRes (PreTy × Str)) : Prop := ∀ s, Good n s (p s)

theorem Good.mono {n m : Nat} {s s0 : Str} {r : SRes (PreTy × Str)} (h : Good n s r) (hn : n ≤ m)
    (hs : s.length ≤ s0.length) : Good m s0 r := by
  match r, h with
  | .ok (t, r), h => simp only [Good] at h ⊢; omega
  | .error (.perr _ _), _ => trivial

theorem acceptP_gt (s r : Str) (h : acceptP ">" s = .ok r) : r.length < s.length := by
  have := acceptP_step ">" s
  rw [h] at this
  simp only [StepOk] at this
  have : (asciiBytes ">").length = 1 := by decide
  omega

theorem oneParam_good {n : Nat} {p : Str → SRes (PreTy × Str)} (hp : GoodP n p) (s : Str) :
    Good n s (oneParam p s) := by
  unfold oneParam
  have h1 := hp s
  match hps : p s with
  | .error (.perr _ _) => trivial
  | .error (.panic _) => rw [hps] at h1; exact h1.elim
  | .error (.fuel _) => rw [hps] at h1; exact h1.elim
  | .ok (t, s1) =>
    rw [hps] at h1
    simp only [Good] at h1
    simp only []
    have h2 := acceptP_step ">" s1
    match ha : acceptP ">" s1 with
    | .error (.perr _ _) => trivial
    | .error (.panic _) => rw [ha] at h2; exact h2.elim
    | .error (.fuel _) => rw [ha] at h2; exact h2.elim
    | .ok s2 =>
      rw [ha] at h2
      simp only [StepOk] at h2
      simp only [Good]
      omega

theorem nest_freeze (t : PreTy) : nestPre (freeze t) = nestPre t := by
  cases t <;> simp [freeze, nestPre]

theorem mapFst_good {n : Nat} {s : Str} {r : SRes (PreTy × Str)} (f : PreTy → PreTy) (k : Nat)
    (hf : ∀ t, nestPre (f t) ≤ nestPre t + k) (h : Good n s r) : Good (n + k) s (mapFst f r) := by
  match r, h with
  | .ok (t, r), h =>
    simp only [Good, mapFst] at h ⊢
    have := hf t
    omega
  | .error (.perr _ _), _ => trivial

/-- case analysis helper: a `Good`/`StepOk` result is `ok` or a parse error -/
theorem good_cases {n : Nat} {s : Str} {r : SRes (PreTy × Str)} (h : Good n s r) :
    (∃ t r', r = .ok (t, r') ∧ r'.length < s.length ∧ nestPre t ≤ n) ∨ (∃ a b, r = .error (.perr a b)) := by
  match r, h with
  | .ok (t, r'), h => exact .inl ⟨t, r', rfl, h⟩
  | .error (.perr a b), _ => exact .inr ⟨a, b, rfl⟩

theorem step_cases {k : Nat} {s : Str} {r : SRes Str} (h : StepOk k s r) :
    (∃ r', r = .ok r' ∧ r'.length + k ≤ s.length) ∨ (∃ a b, r = .error (.perr a b)) := by
  match r, h with
  | .ok r', h => exact .inl ⟨r', rfl, h⟩
  | .error (.perr a b), _ => exact .inr ⟨a, b, rfl⟩

theorem mapParams_good {n : Nat} {p : Str → SRes (PreTy × Str)} (hp : GoodP n p) (s : Str) :
    Good (n + 1) s (mapParams p s) := by
  unfold mapParams
  rcases good_cases (hp s) with ⟨k, s1, e1, l1, n1⟩ | ⟨a, b, e1⟩
  · rw [e1]; simp only []
    rcases step_cases (acceptP_step "," s1) with ⟨s2, e2, l2⟩ | ⟨a, b, e2⟩
    · rw [e2]; simp only []
      obtain ⟨s3, e3, l3⟩ := skipWhiteP_ok s2
      rw [e3]; simp only []
      rcases good_cases (hp s3) with ⟨v, s4, e4, l4, n4⟩ | ⟨a, b, e4⟩
      · rw [e4]; simp only []
        rcases step_cases (acceptP_step ">" s4) with ⟨s5, e5, l5⟩ | ⟨a, b, e5⟩
        · rw [e5]; simp only [Good, nestPre]
          omega
        · rw [e5]; trivial
      · rw [e4]; trivial
    · rw [e2]; trivial
  · rw [e1]; trivial

theorem takeWhileP_cases (p : CU → Bool) (s : Str) :
    ∃ tok r, takeWhileP p s = .ok (tok, r) ∧ r.length + tok.length = s.length := by
  refine ⟨_, _, takeWhileP_eq p s, ?_⟩
  have := length_takeWhile_le p s
  simp [List.length_take, List.length_drop]
  omega

theorem parseU16_step (s : Str) :
    (∃ d r, parseU16 s = .ok (d, r) ∧ r.length ≤ s.length) ∨ (∃ a b, parseU16 s = .error (.perr a b)) := by
  unfold parseU16
  obtain ⟨tok, r, e, l⟩ := takeWhileP_cases CU.isDigit s
  rw [e]; simp only []
  split
  · exact .inr ⟨_, _, rfl⟩
  · exact .inl ⟨_, _, rfl, by omega⟩

theorem vectorParams_good {n : Nat} {p : Str → SRes (PreTy × Str)} (hp : GoodP n p) (s : Str) :
    Good (n + 1) s (vectorParams p s) := by
  unfold vectorParams
  rcases good_cases (hp s) with ⟨t, s1, e1, l1, n1⟩ | ⟨a, b, e1⟩
  · rw [e1]; simp only []
    obtain ⟨s2, e2, l2⟩ := skipWhiteP_ok s1
    rw [e2]; simp only []
    rcases step_cases (acceptP_step "," s2) with ⟨s3, e3, l3⟩ | ⟨a, b, e3⟩
    · rw [e3]; simp only []
      obtain ⟨s4, e4, l4⟩ := skipWhiteP_ok s3
      rw [e4]; simp only []
      rcases parseU16_step s4 with ⟨d, s5, e5, l5⟩ | ⟨a, b, e5⟩
      · rw [e5]; simp only []
        obtain ⟨s6, e6, l6⟩ := skipWhiteP_ok s5
        rw [e6]; simp only []
        rcases step_cases (acceptP_step ">" s6) with ⟨s7, e7, l7⟩ | ⟨a, b, e7⟩
        · rw [e7]; simp only [Good, nestPre]
          omega
        · rw [e7]; trivial
      · rw [e5]; trivial
    · rw [e3]; trivial
  · rw [e1]; trivial

theorem nativeOfTok_nil : nativeOfTok [] = none := by decide

theorem bytesOf_nil_of (tok : Str) (h : tok = []) : bytesOf tok = [] := by subst h; rfl

theorem leafTy_good (s : Str) : Good 1 s (leafTy s) := by
  unfold leafTy parseNative parseUdt
  obtain ⟨tok, r, e, l⟩ := takeWhileP_cases isNativeCh s
  rw [e]; simp only []
  cases hn : nativeOfTok (bytesOf tok) with
  | some nt =>
    simp only [Good, nestPre]
    have : tok ≠ [] := by
      intro h; rw [bytesOf_nil_of tok h, nativeOfTok_nil] at hn; cases hn
    have : tok.length > 0 := List.length_pos_iff.mpr this
    omega
  | none =>
    simp only []
    obtain ⟨tok2, r2, e2, l2⟩ := takeWhileP_cases isUdtCh s
    rw [e2]; simp only []
    cases tok2 with
    | nil => simp [Good]
    | cons u us =>
      simp only [List.isEmpty_cons, Bool.false_eq_true, if_false, Good, nestPre]
      simp only [List.length_cons] at l2
      omega

theorem nestPreL_append (a : List PreTy) (t : PreTy) : nestPreL (a ++ [t]) = max (nestPreL a) (nestPre t) := by
  induction a with
  | nil => simp [nestPreL]
  | cons x xs ih => simp only [List.cons_append, nestPreL, ih]; omega

/-- The `tuple<` loop: with loop fuel above the remaining length it never runs out, never panics, consumes input and
collects types nested at most `n`. -/
theorem tupleLoop_good {n : Nat} {p : Str → SRes (PreTy × Str)} (hp : GoodP n p) :
    ∀ (lf : Nat) (s : Str) (acc : List PreTy), s.length < lf → nestPreL acc ≤ n →
      match tupleLoop p lf s acc with
      | .ok (ts, r) => r.length < s.length ∧ nestPreL ts ≤ n
      | .error (.perr _ _) => True
      | .error (.panic _) => False
      | .error (.fuel _) => False
  | 0, s, acc, h, _ => by omega
  | lf + 1, s, acc, h, ha => by
    unfold tupleLoop
    rcases good_cases (hp s) with ⟨t, s1, e1, l1, n1⟩ | ⟨a, b, e1⟩
    · rw [e1]; simp only []
      have hacc : nestPreL (acc ++ [t]) ≤ n := by rw [nestPreL_append]; omega
      cases hc : stripLit (asciiBytes ",") s1 with
      | some s2 =>
        simp only []
        have := stripLit_len _ _ _ hc
        obtain ⟨s3, e3, l3⟩ := skipWhiteP_ok s2
        rw [e3]; simp only []
        have ih := tupleLoop_good hp lf s3 (acc ++ [t]) (by omega) hacc
        revert ih
        cases tupleLoop p lf s3 (acc ++ [t]) with
        | ok v => obtain ⟨ts, r⟩ := v; simp only []; intro ih; omega
        | error e => cases e <;> simp
      | none =>
        simp only []
        cases hg : stripLit (asciiBytes ">") s1 with
        | some s2 =>
          have := stripLit_len _ _ _ hg
          simp only []
          omega
        | none => simp
    · rw [e1]; trivial

theorem stripLit_lt (lit : Bytes) (s r : Str) (h : stripLit lit s = some r) : r.length ≤ s.length := by
  have := stripLit_len lit s r h; omega

/-- `parse_cql_type_nested` with nesting fuel `fuel`: a `Good fuel` parser. -/
theorem parseTy_good : ∀ (fuel : Nat), GoodP fuel (parseTy fuel)
  | 0 => by intro s; unfold parseTy; trivial
  | fuel + 1 => by
    intro s
    have ih := parseTy_good fuel
    unfold parseTy
    cases h1 : stripLit (asciiBytes "frozen<") s with
    | some s1 =>
      simp only []
      have hl := stripLit_lt _ _ _ h1
      exact Good.mono (mapFst_good freeze 0 (fun t => by rw [nest_freeze]; omega) (oneParam_good ih s1)) (by omega) hl
    | none =>
    simp only []
    cases h2 : stripLit (asciiBytes "map<") s with
    | some s1 => exact Good.mono (mapParams_good ih s1) (Nat.le_refl _) (stripLit_lt _ _ _ h2)
    | none =>
    simp only []
    cases h3 : stripLit (asciiBytes "list<") s with
    | some s1 =>
      exact Good.mono (mapFst_good (.list false) 1 (fun t => by simp [nestPre]) (oneParam_good ih s1)) (Nat.le_refl _)
        (stripLit_lt _ _ _ h3)
    | none =>
    simp only []
    cases h4 : stripLit (asciiBytes "set<") s with
    | some s1 =>
      exact Good.mono (mapFst_good (.set false) 1 (fun t => by simp [nestPre]) (oneParam_good ih s1)) (Nat.le_refl _)
        (stripLit_lt _ _ _ h4)
    | none =>
    simp only []
    cases h5 : stripLit (asciiBytes "tuple<") s with
    | some s1 =>
      simp only []
      have hl := stripLit_lt _ _ _ h5
      have := tupleLoop_good ih (s1.length + 1) s1 [] (by omega) (by simp [nestPreL])
      revert this
      cases tupleLoop (parseTy fuel) (s1.length + 1) s1 [] with
      | ok v => obtain ⟨ts, r⟩ := v; simp only [Good, nestPre]; intro h; omega
      | error e => cases e <;> simp [Good]
    | none =>
    simp only []
    cases h6 : stripLit (asciiBytes "vector<") s with
    | some s1 => exact Good.mono (vectorParams_good ih s1) (Nat.le_refl _) (stripLit_lt _ _ _ h6)
    | none => exact Good.mono (leafTy_good s) (by omega) (Nat.le_refl _)

end ScyllaVerif.C08S

import ScyllaVerif.Model.Replicas
import ScyllaVerif.Proofs.Ring
/-! Helper lemmas about the placement walks, the precomputed lists and the replica-set views (C04). -/
namespace ScyllaVerif.Proofs.Replicas
open ScyllaVerif.Ring ScyllaVerif.Replicas ScyllaVerif.Proofs.Ring

/-! ### the rack-aware walk -/

/-- Number of rack values among `rest` that are not yet in `used`. -/
def newRacks (used : List (Option Nat)) (rest : List Node) : Nat :=
  (uniqFrom used (rest.map (·.rack))).length

theorem newRacks_le (used : List (Option Nat)) (rest : List Node) : newRacks used rest ≤ rest.length := by
  unfold newRacks
  have := uniqFrom_length_le used (rest.map (·.rack))
  simpa using this

theorem newRacks_cons_new {used : List (Option Nat)} {n : Node} {rest : List Node} (h : n.rack ∉ used) :
    newRacks used (n :: rest) = newRacks (n.rack :: used) rest + 1 := by
  simp [newRacks, uniqFrom, h]

theorem newRacks_cons_old {used : List (Option Nat)} {n : Node} {rest : List Node} (h : n.rack ∈ used) :
    newRacks used (n :: rest) = newRacks used rest := by
  simp [newRacks, uniqFrom, h]

theorem ntsWalk_zero (used : List (Option Nat)) (repeats : Nat) (rest : List Node) :
    ntsWalk 0 used repeats rest = [] := by
  cases rest <;> simp [ntsWalk]

/-- Exact size of the walk's result from any state. -/
theorem ntsWalk_length (left : Nat) (used : List (Option Nat)) (repeats : Nat) (rest : List Node) :
    (ntsWalk left used repeats rest).length =
      min left (newRacks used rest + min repeats (rest.length - newRacks used rest)) := by
  induction rest generalizing left used repeats with
  | nil => simp [ntsWalk, newRacks, uniqFrom]
  | cons n rest ih =>
    unfold ntsWalk
    by_cases hl : left = 0
    · simp [hl]
    · rw [if_neg hl]
      by_cases hr : n.rack ∈ used
      · have hle := newRacks_le used rest
        rw [if_neg (by simpa using hr), newRacks_cons_old hr]
        by_cases hp : repeats > 0
        · rw [if_pos hp, List.length_cons, ih, List.length_cons]; omega
        · rw [if_neg hp, ih, List.length_cons]; omega
      · have hle := newRacks_le (n.rack :: used) rest
        rw [if_pos (by simpa using hr), newRacks_cons_new hr, List.length_cons, ih, List.length_cons]; omega

/-- Every node the walk returns is one of the nodes it was given, in the same order. -/
theorem ntsWalk_sublist (left : Nat) (used : List (Option Nat)) (repeats : Nat) (rest : List Node) :
    (ntsWalk left used repeats rest).Sublist rest := by
  induction rest generalizing left used repeats with
  | nil => simp [ntsWalk]
  | cons n rest ih =>
    unfold ntsWalk
    split
    · exact List.nil_sublist _
    · split
      · exact (ih _ _ _).cons_cons _
      · split
        · exact (ih _ _ _).cons_cons _
        · exact (ih _ _ _).cons _

/-- With no repeats allowed, asking for fewer replicas gives a prefix. -/
theorem ntsWalk_prefix {left left' : Nat} (h : left ≤ left') (used : List (Option Nat)) (rest : List Node) :
    ntsWalk left used 0 rest <+: ntsWalk left' used 0 rest := by
  induction rest generalizing left left' used with
  | nil => simp [ntsWalk]
  | cons n rest ih =>
    by_cases hl : left = 0
    · subst hl; rw [ntsWalk_zero]; exact List.nil_prefix
    · have hl' : left' ≠ 0 := by omega
      unfold ntsWalk
      rw [if_neg hl, if_neg hl']
      by_cases hr : n.rack ∈ used
      · have hnn : ¬ (n.rack ∉ used) := by simpa using hr
        have h0 : ¬ (0 > 0) := by omega
        simp only [if_neg hnn, if_neg h0]
        exact ih h used
      · rw [if_pos (by simpa using hr), if_pos (by simpa using hr)]
        rw [List.prefix_cons_inj]
        exact ih (by omega) _

/-- When enough replicas are wanted and enough repeats allowed, every node is taken. -/
theorem ntsWalk_all (left : Nat) (used : List (Option Nat)) (repeats : Nat) (rest : List Node)
    (hl : rest.length ≤ left) (hr : rest.length - newRacks used rest ≤ repeats) :
    ntsWalk left used repeats rest = rest := by
  induction rest generalizing left used repeats with
  | nil => simp [ntsWalk]
  | cons n rest ih =>
    simp only [List.length_cons] at hl hr
    unfold ntsWalk
    rw [if_neg (by omega)]
    by_cases hk : n.rack ∈ used
    · rw [newRacks_cons_old hk] at hr
      have hle := newRacks_le used rest
      rw [if_neg (by simpa using hk), if_pos (by omega)]
      congr 1
      exact ih _ _ _ (by omega) (by omega)
    · rw [newRacks_cons_new hk] at hr
      rw [if_pos (by simpa using hk)]
      congr 1
      exact ih _ _ _ (by omega) (by omega)

/-! ### `nts_replicas_in_datacenter` -/

/-- The distinct nodes of a datacenter ring, clockwise from the token. -/
def dcNodes (r : Ring Node) (tok : Int) (dc : Nat) : List Node := uniq (ringRange (dcRing r dc) tok)

theorem dcNodes_length (r : Ring Node) (tok : Int) (dc : Nat) :
    (dcNodes r tok dc).length = (uniqueNodes (dcRing r dc)).length := by
  unfold dcNodes uniqueNodes
  apply uniq_length_congr
  intro a; exact mem_ringRange

theorem mem_dcNodes {r : Ring Node} {tok : Int} {dc : Nat} {n : Node} :
    n ∈ dcNodes r tok dc ↔ n ∈ (dcRing r dc).map (·.2) := by
  unfold dcNodes; rw [mem_uniq, mem_ringRange]

theorem rackCount_eq (r : Ring Node) (tok : Int) (dc : Nat) :
    rackCount r dc = newRacks [] (dcNodes r tok dc) := by
  unfold rackCount newRacks
  apply uniq_length_congr
  intro a
  simp only [List.mem_map]
  constructor
  · rintro ⟨e, he, rfl⟩
    exact ⟨e.2, mem_dcNodes.mpr (List.mem_map.mpr ⟨e, he, rfl⟩), rfl⟩
  · rintro ⟨n, hn, rfl⟩
    obtain ⟨e, he, rfl⟩ := List.mem_map.mp (mem_dcNodes.mp hn)
    exact ⟨e, he, rfl⟩

theorem rackCount_le (r : Ring Node) (dc : Nat) : rackCount r dc ≤ (uniqueNodes (dcRing r dc)).length := by
  rw [rackCount_eq r 0 dc, ← dcNodes_length r 0 dc]
  exact newRacks_le _ _

theorem ntsReplicas_def (r : Ring Node) (tok : Int) (dc rf : Nat) :
    ntsReplicas r tok dc rf =
      ntsWalk (min rf (dcNodes r tok dc).length) [] (rf - newRacks [] (dcNodes r tok dc)) (dcNodes r tok dc) := by
  unfold ntsReplicas
  simp only []
  rw [← dcNodes_length r tok dc, rackCount_eq r tok dc]
  rfl

/-- **Size.** A datacenter contributes exactly `min(RF, number of its nodes)` replicas. -/
theorem ntsReplicas_length (r : Ring Node) (tok : Int) (dc rf : Nat) :
    (ntsReplicas r tok dc rf).length = min rf (uniqueNodes (dcRing r dc)).length := by
  rw [ntsReplicas_def, ntsWalk_length, ← dcNodes_length r tok dc]
  have := newRacks_le [] (dcNodes r tok dc)
  omega

theorem ntsReplicas_sublist (r : Ring Node) (tok : Int) (dc rf : Nat) :
    (ntsReplicas r tok dc rf).Sublist (dcNodes r tok dc) := by
  rw [ntsReplicas_def]; exact ntsWalk_sublist _ _ _ _

theorem ntsReplicas_nodup (r : Ring Node) (tok : Int) (dc rf : Nat) : (ntsReplicas r tok dc rf).Nodup :=
  (ntsReplicas_sublist r tok dc rf).nodup (uniq_nodup _)

theorem ntsReplicas_zero (r : Ring Node) (tok : Int) (dc : Nat) : ntsReplicas r tok dc 0 = [] := by
  rw [ntsReplicas_def, Nat.zero_min, ntsWalk_zero]

/-- Members of a datacenter's replica list are ring members of that datacenter. -/
theorem mem_ntsReplicas {r : Ring Node} {tok : Int} {dc rf : Nat} {n : Node} (h : n ∈ ntsReplicas r tok dc rf) :
    n.dc = some dc ∧ n ∈ r.map (·.2) := by
  have := (ntsReplicas_sublist r tok dc rf).subset h
  obtain ⟨e, he, rfl⟩ := List.mem_map.mp (mem_dcNodes.mp this)
  unfold dcRing at he
  obtain ⟨h1, h2⟩ := List.mem_filter.mp he
  exact ⟨by simpa using h2, List.mem_map.mpr ⟨e, h1, rfl⟩⟩

/-- **Prefix property** behind the "compressed" precomputed lists: up to the rack count, a smaller
replication factor gives a prefix of the list of a larger one. -/
theorem ntsReplicas_prefix (r : Ring Node) (tok : Int) (dc : Nat) {rf rf' : Nat}
    (h : rf ≤ rf') (h' : rf' ≤ rackCount r dc) :
    ntsReplicas r tok dc rf <+: ntsReplicas r tok dc rf' := by
  rw [ntsReplicas_def, ntsReplicas_def, ← rackCount_eq]
  rw [show rf - rackCount r dc = 0 by omega, show rf' - rackCount r dc = 0 by omega]
  apply ntsWalk_prefix
  omega

/-- A replication factor at or above the datacenter's node count selects every node, in ring order. -/
theorem ntsReplicas_all (r : Ring Node) (tok : Int) (dc : Nat) {rf : Nat}
    (h : (uniqueNodes (dcRing r dc)).length ≤ rf) : ntsReplicas r tok dc rf = dcNodes r tok dc := by
  rw [ntsReplicas_def]
  rw [← dcNodes_length r tok dc] at h
  apply ntsWalk_all
  · omega
  · have := newRacks_le [] (dcNodes r tok dc); omega

/-- `choose` clamps the replication factor to the node count before computing the list; the list is the same. -/
theorem ntsReplicas_clamp (r : Ring Node) (tok : Int) (dc rf : Nat) :
    ntsReplicas r tok dc (min rf (uniqueNodes (dcRing r dc)).length) = ntsReplicas r tok dc rf := by
  by_cases h : rf ≤ (uniqueNodes (dcRing r dc)).length
  · rw [Nat.min_eq_left h]
  · rw [Nat.min_eq_right (by omega), ntsReplicas_all r tok dc (Nat.le_refl _), ntsReplicas_all r tok dc (by omega)]

/-! ### precomputed lists -/

/-- Looking a token up in a ring of values precomputed per ring token returns the value computed for the
token of the member the walk starts at. -/
theorem getElemForToken_pre {β γ : Type} {r : Ring β} (hs : Sorted r) (f : Int → γ) (tok : Int) :
    getElemForToken (mkRing (r.map (fun e => (e.1, f e.1)))) tok =
      (ringRangeFull r tok).head?.map (fun e => f e.1) := by
  have hs' : Sorted (r.map (fun e => (e.1, f e.1))) := by
    unfold Sorted; rw [List.pairwise_map]; exact hs
  rw [mkRing_of_sorted hs']
  unfold getElemForToken ringRange ringRangeFull rotateAt
  have ht : (r.map (fun e => (e.1, f e.1))).map (·.1) = r.map (·.1) := by
    rw [List.map_map]; rfl
  rw [ht, ← List.map_drop, ← List.map_take, ← List.map_append, List.map_map, List.head?_map]
  rfl

theorem ringNodes_length (r : Ring Node) (tok : Int) :
    (uniq (ringRange r tok)).length = (uniqueNodes r).length := by
  unfold uniqueNodes
  apply uniq_length_congr
  intro a; exact mem_ringRange

theorem simpleReplicas_snap {r : Ring Node} (hs : Sorted r) (tok : Int) (m : Nat) (e : Int × Node)
    (he : (ringRangeFull r tok).head? = some e) : simpleReplicas r e.1 m = simpleReplicas r tok m := by
  unfold simpleReplicas ringRange; rw [ringRangeFull_snap hs tok e he]

/-- **Prefix property** of SimpleStrategy lists. -/
theorem simpleReplicas_take (r : Ring Node) (tok : Int) {rf m : Nat} (h : rf ≤ m) :
    (simpleReplicas r tok m).take (min (simpleReplicas r tok m).length rf) = simpleReplicas r tok rf := by
  unfold simpleReplicas
  rw [List.length_take, ringNodes_length, List.take_take]
  congr 1; omega

theorem simpleReplicas_length (r : Ring Node) (tok : Int) (rf : Nat) :
    (simpleReplicas r tok rf).length = min rf (uniqueNodes r).length := by
  unfold simpleReplicas
  rw [List.length_take, ringNodes_length]; omega

/-- **Precomputed = on the fly**, SimpleStrategy: whatever keyspace strategies `S` were precomputed. -/
theorem getSimple_precompute {r : Ring Node} (hs : Sorted r) (S : List Strategy) (tok : Int) (rf : Nat) :
    getSimple ⟨r, precompute r S⟩ tok rf = simpleReplicas r tok rf := by
  unfold getSimple
  by_cases h0 : rf = 0
  · subst h0; simp [simpleReplicas]
  · rw [if_neg h0]
    unfold lookupSimple precompute
    simp only []
    by_cases hm : maxGlobalRf S < rf
    · rw [if_pos hm]
    · rw [if_neg hm, getElemForToken_pre hs (fun t => simpleReplicas r t (maxGlobalRf S))]
      cases he : (ringRangeFull r tok).head? with
      | none => rfl
      | some e =>
        simp only [Option.map_some]
        rw [simpleReplicas_snap hs tok _ e he]
        exact simpleReplicas_take r tok (by omega)

theorem lookup_filterMap_some {κ δ : Type} [BEq κ] [LawfulBEq κ] (g : κ → Option δ) (l : List κ) (k : κ) (d : δ)
    (h : (l.filterMap (fun k => (g k).map (fun d => (k, d)))).lookup k = some d) : g k = some d := by
  induction l with
  | nil => simp at h
  | cons a l ih =>
    rw [List.filterMap_cons] at h
    cases hg : g a with
    | none => rw [hg] at h; exact ih h
    | some d' =>
      rw [hg] at h
      simp only [Option.map_some, List.lookup_cons] at h
      by_cases hk : k = a
      · subst hk; simp only [beq_self_eq_true] at h; rw [hg]; exact h
      · have : (k == a) = false := by simpa using hk
        rw [this] at h; exact ih h

theorem lookup_map_some {δ : Type} (g : Nat → δ) (l : List Nat) (k : Nat) (d : δ)
    (h : (l.map (fun x => (x, g x))).lookup k = some d) : d = g k ∧ k ∈ l := by
  induction l with
  | nil => simp at h
  | cons a l ih =>
    simp only [List.map_cons, List.lookup_cons] at h
    by_cases hk : k = a
    · subst hk; simp only [beq_self_eq_true, Option.some.injEq] at h; exact ⟨h.symm, List.mem_cons_self⟩
    · have : (k == a) = false := by simpa using hk
      rw [this] at h
      exact ⟨(ih h).1, List.mem_cons_of_mem _ (ih h).2⟩

theorem sorted_dcRing {r : Ring Node} (hs : Sorted r) (dc : Nat) : Sorted (dcRing r dc) := hs.filter _

theorem ntsReplicas_snap {r : Ring Node} (hs : Sorted r) (tok : Int) (dc rf : Nat) (e : Int × Node)
    (he : (ringRangeFull (dcRing r dc) tok).head? = some e) : ntsReplicas r e.1 dc rf = ntsReplicas r tok dc rf := by
  unfold ntsReplicas ringRange
  simp only []
  rw [ringRangeFull_snap (sorted_dcRing hs dc) tok e he]

/-- The stored value at the looked-up position of a datacenter's precomputed ring. -/
theorem getElem_ntsPreRing {r : Ring Node} (hs : Sorted r) (tok : Int) (dc rf : Nat) (l : List Node)
    (h : getElemForToken (ntsPreRing r dc rf) tok = some l) : l = ntsReplicas r tok dc rf := by
  unfold ntsPreRing at h
  rw [getElemForToken_pre (sorted_dcRing hs dc) (fun t => ntsReplicas r t dc rf)] at h
  cases he : (ringRangeFull (dcRing r dc) tok).head? with
  | none => rw [he] at h; cases h
  | some e =>
    rw [he] at h
    simp only [Option.map_some, Option.some.injEq] at h
    rw [← h]; exact ntsReplicas_snap hs tok dc rf e he

/-- **Precomputed = on the fly**, one datacenter of NetworkTopologyStrategy: for every replication factor
(0, below / at / above the rack count, above the node count), datacenters absent from the ring or from the
precomputed strategies included. -/
theorem getNts_precompute {r : Ring Node} (hs : Sorted r) (S : List Strategy) (tok : Int) (dc rf : Nat) :
    getNts ⟨r, precompute r S⟩ tok dc rf = ntsReplicas r tok dc rf := by
  unfold getNts
  by_cases h0 : rf = 0
  · subst h0; rw [if_pos rfl, ntsReplicas_zero]
  · rw [if_neg h0]
    cases hl : lookupNts (precompute r S) tok dc rf with
    | none => rfl
    | some l =>
      simp only []
      unfold lookupNts precompute at hl
      simp only [] at hl
      split at hl
      · cases hl
      · rename_i d hd
        have hd' := lookup_filterMap_some (precomputeDc r S) _ dc d hd
        unfold precomputeDc at hd'
        split at hd'
        · cases hd'
        · simp only [Option.some.injEq] at hd'
          split at hl
          · cases hl
          · rename_i ring hring
            split at hl
            · cases hl
            · rename_i l0 hl0
              simp only [Option.some.injEq] at hl
              subst hl
              unfold ringForRf at hring
              rw [← hd'] at hring
              simp only [] at hring
              -- which ring was selected?
              cases hc : ((rfsFor S dc).filter (fun rf => decide (rf ≤ rackCount r dc))).max? with
              | none =>
                rw [hc] at hring
                simp only [Option.map_none] at hring
                obtain ⟨h1, _⟩ := lookup_map_some (fun rf => ntsPreRing r dc rf) _ rf ring hring
                subst h1
                have := getElem_ntsPreRing hs tok dc rf l0 hl0
                subst this
                rw [Nat.min_eq_left (by rw [ntsReplicas_length]; omega), List.take_length]
              | some crf =>
                rw [hc] at hring
                simp only [Option.map_some] at hring
                have hcrf : crf ≤ rackCount r dc := by
                  have := List.max?_mem hc
                  simpa using (List.mem_filter.mp this).2
                by_cases hle : rf ≤ crf
                · rw [if_pos hle] at hring
                  simp only [Option.some.injEq] at hring
                  subst hring
                  have := getElem_ntsPreRing hs tok dc crf l0 hl0
                  subst this
                  have hrc := rackCount_le r dc
                  have hpre := ntsReplicas_prefix r tok dc hle hcrf
                  rw [List.prefix_iff_eq_take] at hpre
                  rw [ntsReplicas_length] at hpre ⊢
                  rw [show min (min crf (uniqueNodes (dcRing r dc)).length) rf = min rf (uniqueNodes (dcRing r dc)).length by omega]
                  exact hpre.symm
                · rw [if_neg hle] at hring
                  obtain ⟨h1, _⟩ := lookup_map_some (fun rf => ntsPreRing r dc rf) _ rf ring hring
                  subst h1
                  have := getElem_ntsPreRing hs tok dc rf l0 hl0
                  subst this
                  rw [Nat.min_eq_left (by rw [ntsReplicas_length]; omega), List.take_length]

/-! ### `precompute` without the (identity) re-sort, so that concrete instances reduce in the kernel -/

/-- `precompute` with every `mkRing` of an already sorted list dropped. -/
def precomputeNoSort (r : Ring Node) (S : List Strategy) : Pre :=
  let m := maxGlobalRf S
  { global := ⟨r.map (fun e => (e.1, simpleReplicas r e.1 m)), m⟩
    dcs := (uniq ((dcRfEntries S).map (·.1))).filterMap (fun dc =>
      (if (dcRing r dc).isEmpty then none
       else
        let rc := rackCount r dc
        let rfs := rfsFor S dc
        some ({
          compressed := ((rfs.filter (fun rf => decide (rf ≤ rc))).max?).map
            (fun rf => ⟨(dcRing r dc).map (fun e => (e.1, ntsReplicas r e.1 dc rf)), rf⟩)
          above := (rfs.filter (fun rf => decide (rc < rf))).map
            (fun rf => (rf, (dcRing r dc).map (fun e => (e.1, ntsReplicas r e.1 dc rf)))) } : DcPre)).map
        (fun d => (dc, d))) }

theorem mkRing_pre {β γ : Type} {r : Ring β} (hs : Sorted r) (f : Int → γ) :
    mkRing (r.map (fun e => (e.1, f e.1))) = r.map (fun e => (e.1, f e.1)) := by
  apply mkRing_of_sorted
  unfold Sorted; rw [List.pairwise_map]; exact hs

/-- On a sorted ring the stable re-sorts inside `PrecomputedReplicas::compute` change nothing. -/
theorem precompute_eq_noSort {r : Ring Node} (hs : Sorted r) (S : List Strategy) :
    precompute r S = precomputeNoSort r S := by
  unfold precompute precomputeNoSort precomputeDc ntsPreRing
  have h1 := mkRing_pre hs (fun t => simpleReplicas r t (maxGlobalRf S))
  have h2 : ∀ dc rf, mkRing ((dcRing r dc).map (fun e => (e.1, ntsReplicas r e.1 dc rf))) =
      (dcRing r dc).map (fun e => (e.1, ntsReplicas r e.1 dc rf)) :=
    fun dc rf => mkRing_pre (sorted_dcRing hs dc) (fun t => ntsReplicas r t dc rf)
  simp only [h1, h2]

/-! ### views of the unrestricted NetworkTopologyStrategy replica set -/

theorem sum_map_zero {κ : Type} (l : List κ) (f : κ → Nat) (h : ∀ x ∈ l, f x = 0) : (l.map f).sum = 0 := by
  induction l with
  | nil => rfl
  | cons a l ih =>
    rw [List.map_cons, List.sum_cons, h a List.mem_cons_self, ih (fun x hx => h x (List.mem_cons_of_mem _ hx))]

theorem sum_map_update (D : List Nat) (hD : D.Nodup) (k a : Nat) (h : Nat → Nat) (hk0 : h k = 0) :
    (D.map (fun dc => if dc = k then a else h dc)).sum = (if k ∈ D then a else 0) + (D.map h).sum := by
  induction D with
  | nil => simp
  | cons d D ih =>
    rw [List.nodup_cons] at hD
    rw [List.map_cons, List.sum_cons, List.map_cons, List.sum_cons, ih hD.2]
    by_cases hdk : d = k
    · subst hdk
      simp only [if_true, List.mem_cons, true_or, if_neg hD.1, hk0]
    · have : (k ∈ d :: D) ↔ k ∈ D := by
        simp only [List.mem_cons]; constructor
        · rintro (h | h); exact absurd h.symm hdk; exact h
        · exact Or.inr
      simp only [if_neg hdk, this]; omega

theorem lookup_none_of_not_mem (repf : List (Nat × Nat)) (k : Nat) (h : k ∉ repf.map (·.1)) : repf.lookup k = none := by
  induction repf with
  | nil => rfl
  | cons e tl ih =>
    simp only [List.map_cons, List.mem_cons, not_or] at h
    obtain ⟨k', v⟩ := e
    rw [List.lookup_cons]
    have : (k == k') = false := by simpa using h.1
    rw [this]; exact ih h.2

theorem lookup_eq_some_iff (repf : List (Nat × Nat)) (hk : (repf.map (·.1)).Nodup) (k v : Nat) :
    repf.lookup k = some v ↔ (k, v) ∈ repf := by
  induction repf with
  | nil => simp
  | cons e tl ih =>
    obtain ⟨k', v'⟩ := e
    rw [List.map_cons, List.nodup_cons] at hk
    rw [List.lookup_cons]
    by_cases hkk : k = k'
    · subst hkk
      simp only [beq_self_eq_true, Option.some.injEq, List.mem_cons, Prod.mk.injEq, true_and]
      constructor
      · intro h; exact Or.inl h.symm
      · rintro (h | h)
        · exact h.symm
        · exact absurd (List.mem_map.mpr ⟨(k, v), h, rfl⟩) hk.1
    · have : (k == k') = false := by simpa using hkk
      rw [this, ih hk.2]
      simp only [List.mem_cons, Prod.mk.injEq]
      constructor
      · exact Or.inr
      · rintro (⟨h, _⟩ | h)
        · exact absurd h hkk
        · exact h

/-- Summing over the strategy's entries = summing over the ring's datacenters. -/
theorem sum_reindex (repf : List (Nat × Nat)) (hk : (repf.map (·.1)).Nodup) (D : List Nat) (hD : D.Nodup)
    (g : Nat → Nat → Nat) (g0 : ∀ dc, g dc 0 = 0) (gD : ∀ dc rf, dc ∉ D → g dc rf = 0) :
    (repf.map (fun e => g e.1 e.2)).sum = (D.map (fun dc => g dc ((repf.lookup dc).getD 0))).sum := by
  induction repf with
  | nil =>
    simp only [List.map_nil, List.sum_nil, List.lookup_nil, Option.getD_none]
    exact (sum_map_zero D _ (fun x _ => g0 x)).symm
  | cons e tl ih =>
    obtain ⟨k, v⟩ := e
    rw [List.map_cons, List.nodup_cons] at hk
    rw [List.map_cons, List.sum_cons, ih hk.2]
    have hfun : (fun dc => g dc (((k, v) :: tl).lookup dc |>.getD 0)) =
        (fun dc => if dc = k then g k v else g dc ((tl.lookup dc).getD 0)) := by
      funext dc
      rw [List.lookup_cons]
      by_cases hdk : dc = k
      · subst hdk; simp
      · have : (dc == k) = false := by simpa using hdk
        rw [this]; simp [hdk]
    rw [hfun, sum_map_update D hD k (g k v) (fun dc => g dc ((tl.lookup dc).getD 0))
      (by rw [lookup_none_of_not_mem tl k hk.1]; exact g0 k)]
    by_cases hkD : k ∈ D
    · rw [if_pos hkD]
    · rw [if_neg hkD, gD k v hkD]

theorem mem_datacenters {loc : Locator} {dc : Nat} :
    dc ∈ loc.datacenters ↔ ∃ e ∈ loc.ring, e.2.dc = some dc := by
  unfold Locator.datacenters
  rw [mem_uniq, List.mem_filterMap]

theorem dcNodeCount_zero {loc : Locator} {dc : Nat} (h : dc ∉ loc.datacenters) : dcNodeCount loc dc = 0 := by
  unfold dcNodeCount
  have : dcRing loc.ring dc = [] := by
    unfold dcRing
    apply List.filter_eq_nil_iff.mpr
    intro e he hd
    exact h (mem_datacenters.mpr ⟨e, he, by simpa using hd⟩)
  rw [this]; rfl

/-- `choose` walks the datacenters exactly as the iteration concatenates them. -/
theorem chooseNts_eq (loc : Locator) (repf : List (Nat × Nat)) (tok : Int)
    (F : Nat → List Node)
    (hF : ∀ dc, getNts loc tok dc (min ((repf.lookup dc).getD 0) (dcNodeCount loc dc)) = F dc)
    (hlen : ∀ dc, (F dc).length = min ((repf.lookup dc).getD 0) (dcNodeCount loc dc))
    (D : List Nat) (idx : Nat) :
    chooseNts loc repf tok D idx = (D.flatMap F)[idx]? := by
  induction D generalizing idx with
  | nil => simp [chooseNts]
  | cons dc rest ih =>
    unfold chooseNts
    simp only []
    rw [List.flatMap_cons, List.getElem?_append, hlen dc, hF dc]
    split
    · rfl
    · exact ih _

theorem nodup_flatMap_of_disjoint {κ : Type} (D : List κ) (hD : D.Nodup) (F : κ → List Node)
    (hn : ∀ k, (F k).Nodup) (key : Node → Option κ) (hkey : ∀ k, ∀ n ∈ F k, key n = some k) :
    (D.flatMap F).Nodup := by
  induction D with
  | nil => simp
  | cons d D ih =>
    rw [List.nodup_cons] at hD
    rw [List.flatMap_cons, List.nodup_append]
    refine ⟨hn d, ih hD.2, ?_⟩
    intro a ha b hb hab
    subst hab
    obtain ⟨k, hk, hbk⟩ := List.mem_flatMap.mp hb
    have h1 := hkey d a ha
    have h2 := hkey k a hbk
    rw [h1] at h2
    simp only [Option.some.injEq] at h2
    subst h2
    exact hD.1 hk

/-! ### the ring-ordered view -/

theorem ringRange_dcRing {r : Ring Node} (hs : Sorted r) (tok : Int) (dc : Nat) :
    ringRange (dcRing r dc) tok = (ringRange r tok).filter (fun n => decide (n.dc = some dc)) := by
  unfold ringRange dcRing
  rw [ringRangeFull_filter hs, List.filter_map]
  rfl

/-- A datacenter's distinct nodes clockwise = the global distinct nodes clockwise, restricted to it. -/
theorem dcNodes_eq_filter {r : Ring Node} (hs : Sorted r) (tok : Int) (dc : Nat) :
    dcNodes r tok dc = (uniq (ringRange r tok)).filter (fun n => decide (n.dc = some dc)) := by
  unfold dcNodes
  rw [ringRange_dcRing hs, uniq_filter]

/-- The replicas of the unrestricted NTS set as iterated: ring datacenters in order of first appearance. -/
def ntsIter (r : Ring Node) (repf : List (Nat × Nat)) (tok : Int) : List Node :=
  (uniq (r.filterMap (·.2.dc))).flatMap (fun dc => ntsReplicas r tok dc ((repf.lookup dc).getD 0))

/-- The replicas of the unrestricted NTS set as collected by the ring-ordered view. -/
def ntsAll (r : Ring Node) (repf : List (Nat × Nat)) (tok : Int) : List Node :=
  repf.flatMap (fun e => ntsReplicas r tok e.1 e.2)

theorem mem_ntsAll_iff_mem_ntsIter (r : Ring Node) (repf : List (Nat × Nat)) (hk : (repf.map (·.1)).Nodup)
    (tok : Int) (n : Node) : n ∈ ntsAll r repf tok ↔ n ∈ ntsIter r repf tok := by
  unfold ntsAll ntsIter
  rw [List.mem_flatMap, List.mem_flatMap]
  constructor
  · rintro ⟨⟨dc, rf⟩, he, hn⟩
    refine ⟨dc, ?_, ?_⟩
    · obtain ⟨h1, h2⟩ := mem_ntsReplicas hn
      obtain ⟨e, he', rfl⟩ := List.mem_map.mp h2
      rw [mem_uniq, List.mem_filterMap]
      exact ⟨e, he', h1⟩
    · rw [(lookup_eq_some_iff repf hk dc rf).mpr he]; exact hn
  · rintro ⟨dc, _, hn⟩
    cases hl : repf.lookup dc with
    | none => rw [hl, Option.getD_none, ntsReplicas_zero] at hn; cases hn
    | some rf =>
      rw [hl, Option.getD_some] at hn
      exact ⟨(dc, rf), (lookup_eq_some_iff repf hk dc rf).mp hl, hn⟩

theorem ntsIter_nodup (r : Ring Node) (repf : List (Nat × Nat)) (tok : Int) : (ntsIter r repf tok).Nodup := by
  unfold ntsIter
  apply nodup_flatMap_of_disjoint _ (uniq_nodup _) _ (fun dc => ntsReplicas_nodup r tok dc _) (fun n => n.dc)
  intro dc n hn
  exact (mem_ntsReplicas hn).1

/-- A replica's datacenter "has replicas in this NTS". -/
theorem dcHasReplicas_of_mem {r : Ring Node} {repf : List (Nat × Nat)} (hk : (repf.map (·.1)).Nodup) {tok : Int}
    {n : Node} (h : n ∈ ntsAll r repf tok) : dcHasReplicas repf n = true := by
  unfold ntsAll at h
  obtain ⟨⟨dc, rf⟩, he, hn⟩ := List.mem_flatMap.mp h
  have hdc := (mem_ntsReplicas hn).1
  have hrf : rf ≠ 0 := by
    intro h0; subst h0; rw [ntsReplicas_zero] at hn; cases hn
  unfold dcHasReplicas
  rw [hdc]
  simp only []
  rw [(lookup_eq_some_iff repf hk dc rf).mpr he]
  simp only [decide_eq_true_eq]; omega

/-- The first ring member (clockwise) whose datacenter has a positive replication factor heads that
datacenter's replica list: the "primary replica" picked by the ring-ordered view is a replica. -/
theorem picked_head {r : Ring Node} (hs : Sorted r) (tok : Int) (dc rf : Nat) (A B : List Node) (picked : Node)
    (h : ringRange r tok = A ++ picked :: B) (hA : ∀ a ∈ A, a.dc ≠ some dc) (hp : picked.dc = some dc)
    (hrf : 0 < rf) : ∃ T, ntsReplicas r tok dc rf = picked :: T := by
  have hd : dcNodes r tok dc = picked :: uniqFrom [picked] (B.filter (fun n => decide (n.dc = some dc))) := by
    unfold dcNodes
    rw [ringRange_dcRing hs, h, List.filter_append]
    have hAe : A.filter (fun n => decide (n.dc = some dc)) = [] :=
      List.filter_eq_nil_iff.mpr (by intro a ha; simpa using hA a ha)
    rw [hAe, List.nil_append, List.filter_cons_of_pos (by simpa using hp)]
    unfold uniq
    rw [uniqFrom, if_neg (by simp)]
  rw [ntsReplicas_def, hd]
  unfold ntsWalk
  rw [if_neg (by simp only [List.length_cons]; omega), if_pos (by simp)]
  exact ⟨_, rfl⟩

/-- The ring-ordered view of the unrestricted NTS set, over the on-the-fly lists. -/
def ntsOrdered (r : Ring Node) (repf : List (Nat × Nat)) (tok : Int) : List Node :=
  match (ringRange r tok).find? (dcHasReplicas repf) with
  | none => []
  | some picked => picked :: (uniq (ringRange r tok)).filter (fun n => decide (n ∈ ntsAll r repf tok ∧ n ≠ picked))

theorem dcHasReplicas_congr (repf : List (Nat × Nat)) {a b : Node} (h : a.dc = b.dc) :
    dcHasReplicas repf a = dcHasReplicas repf b := by
  unfold dcHasReplicas; rw [h]

/-- **Ring-ordered view**: a permutation of the iterated replicas, in ring order (a subsequence of the distinct
nodes met clockwise from the token). -/
theorem ntsOrdered_spec {r : Ring Node} (hs : Sorted r) (repf : List (Nat × Nat)) (hk : (repf.map (·.1)).Nodup)
    (tok : Int) :
    (ntsOrdered r repf tok).Perm (ntsIter r repf tok) ∧ (ntsOrdered r repf tok).Sublist (uniq (ringRange r tok)) := by
  unfold ntsOrdered
  cases hf : (ringRange r tok).find? (dcHasReplicas repf) with
  | none =>
    simp only []
    refine ⟨?_, List.nil_sublist _⟩
    have : ntsIter r repf tok = [] := by
      apply List.eq_nil_iff_forall_not_mem.mpr
      intro n hn
      have hn' := (mem_ntsAll_iff_mem_ntsIter r repf hk tok n).mpr hn
      have hd := dcHasReplicas_of_mem hk hn'
      unfold ntsAll at hn'
      obtain ⟨e, _, hne⟩ := List.mem_flatMap.mp hn'
      have hr : n ∈ ringRange r tok := mem_ringRange.mpr (mem_ntsReplicas hne).2
      have := List.find?_eq_none.mp hf n hr
      rw [hd] at this; exact this rfl
    rw [this]
  | some picked =>
    simp only []
    obtain ⟨hpt, A, B, hAB, hA⟩ := List.find?_eq_some_iff_append.mp hf
    -- picked's datacenter and its positive replication factor
    have hpd : ∃ dc rf, picked.dc = some dc ∧ repf.lookup dc = some rf ∧ 0 < rf := by
      unfold dcHasReplicas at hpt
      cases hdc : picked.dc with
      | none => rw [hdc] at hpt; cases hpt
      | some dc =>
        rw [hdc] at hpt
        simp only [] at hpt
        cases hl : repf.lookup dc with
        | none => rw [hl] at hpt; cases hpt
        | some rf => rw [hl] at hpt; exact ⟨dc, rf, rfl, hl, by simpa using hpt⟩
    obtain ⟨dc, rf, hdc, hl, hrf⟩ := hpd
    have hA' : ∀ a ∈ A, a.dc ≠ some dc := by
      intro a ha hh
      have h1 := hA a ha
      have : dcHasReplicas repf a = dcHasReplicas repf picked := dcHasReplicas_congr repf (by rw [hh, hdc])
      rw [this, hpt] at h1; cases h1
    obtain ⟨T, hT⟩ := picked_head hs tok dc rf A B picked hAB hA' hdc hrf
    have hpall : picked ∈ ntsAll r repf tok := by
      unfold ntsAll
      exact List.mem_flatMap.mpr ⟨(dc, rf), (lookup_eq_some_iff repf hk dc rf).mp hl, by rw [hT]; exact List.mem_cons_self⟩
    constructor
    · rw [List.perm_ext_iff_of_nodup _ (ntsIter_nodup r repf tok)]
      · intro n
        rw [← mem_ntsAll_iff_mem_ntsIter r repf hk tok n, List.mem_cons, List.mem_filter]
        constructor
        · rintro (rfl | ⟨_, h2⟩)
          · exact hpall
          · simp only [decide_eq_true_eq] at h2; exact h2.1
        · intro hn
          by_cases hnp : n = picked
          · exact Or.inl hnp
          · right
            refine ⟨?_, by simp only [decide_eq_true_eq]; exact ⟨hn, hnp⟩⟩
            unfold ntsAll at hn
            obtain ⟨e, _, hne⟩ := List.mem_flatMap.mp hn
            exact mem_uniq.mpr (mem_ringRange.mpr (mem_ntsReplicas hne).2)
      · rw [List.nodup_cons]
        refine ⟨?_, (uniq_nodup _).sublist List.filter_sublist |> fun h => h⟩
        intro hm
        have := (List.mem_filter.mp hm).2
        simp only [decide_eq_true_eq] at this
        exact this.2 rfl
    · -- ring order: everything before `picked` on the ring is filtered out
      have hU : (uniq (ringRange r tok)).filter (dcHasReplicas repf) =
          picked :: uniqFrom [picked] (B.filter (dcHasReplicas repf)) := by
        rw [← uniq_filter, hAB, List.filter_append]
        have hAe : A.filter (dcHasReplicas repf) = [] :=
          List.filter_eq_nil_iff.mpr (by intro a ha; simpa using hA a ha)
        rw [hAe, List.nil_append, List.filter_cons_of_pos hpt]
        unfold uniq
        rw [uniqFrom, if_neg (by simp)]
      have hq : (uniq (ringRange r tok)).filter (fun n => decide (n ∈ ntsAll r repf tok ∧ n ≠ picked)) =
          ((uniq (ringRange r tok)).filter (dcHasReplicas repf)).filter
            (fun n => decide (n ∈ ntsAll r repf tok ∧ n ≠ picked)) := by
        rw [List.filter_filter]
        apply List.filter_congr
        intro n _
        by_cases hn : n ∈ ntsAll r repf tok
        · simp [hn, dcHasReplicas_of_mem hk hn]
        · simp [hn]
      rw [hq, hU, List.filter_cons_of_neg (by simp)]
      refine List.Sublist.trans ?_ (hU ▸ List.filter_sublist)
      exact (List.filter_sublist).cons_cons _

end ScyllaVerif.Proofs.Replicas

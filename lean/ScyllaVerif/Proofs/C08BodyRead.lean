import ScyllaVerif.Model.FrameHdr
/-
C08 — `read_response_frame`'s body read: the capacity it requests is bounded by the bytes that actually arrived
(at most 1 MiB up front, then amortised doubling), not by the length the header announces.
-/
namespace ScyllaVerif.C08

/-- Invariant of the read loop: capacity and peak are bounded by `c0 + 2·len + 64`. -/
theorem readBodyLoop_bound (c0 : Nat) : ∀ (fuel limit cap len avail peak : Nat),
    cap ≤ c0 + 2 * len + 64 → peak ≤ c0 + 2 * len + 64 → len ≤ cap →
    (readBodyLoop fuel limit cap len avail peak).2.2 ≤ c0 + 2 * (readBodyLoop fuel limit cap len avail peak).1 + 64 ∧
    (readBodyLoop fuel limit cap len avail peak).1 ≤ len + avail ∧
    len ≤ (readBodyLoop fuel limit cap len avail peak).1
  | 0, _, _, len, _, peak, _, hp, _ => by simp only [readBodyLoop]; omega
  | fuel + 1, limit, cap, len, avail, peak, hc, hp, hl => by
    unfold readBodyLoop
    by_cases h1 : len ≥ limit
    · simp only [h1, if_true]; omega
    · simp only [h1, if_false]
      have hcap' : (if len = cap then growCap cap else cap) ≤ c0 + 2 * len + 64 := by
        split
        · rename_i he; subst he; unfold growCap; omega
        · exact hc
      have hlen' : len ≤ (if len = cap then growCap cap else cap) := by
        split
        · unfold growCap; omega
        · exact hl
      generalize (if len = cap then growCap cap else cap) = cap' at *
      by_cases hn : min (min (cap' - len) (limit - len)) avail = 0
      · simp only [hn, if_true]; omega
      · simp only [hn, if_false]
        generalize hnn : min (min (cap' - len) (limit - len)) avail = n at *
        have hn1 : n ≤ avail := by rw [← hnn]; exact Nat.min_le_right _ _
        have hn2 : n ≤ cap' - len := by rw [← hnn]; exact Nat.le_trans (Nat.min_le_left _ _) (Nat.min_le_left _ _)
        have ih := readBodyLoop_bound c0 fuel limit cap' (len + n) (avail - n) (max peak cap')
          (by omega) (by omega) (by omega)
        omega

/-- THE BODY READ ALLOCATES IN PROPORTION TO WHAT ARRIVED: whatever length the 9 header bytes announce, the largest
capacity requested is at most `1 MiB + 2 · received + 64`, and `received ≤ bytes present`. -/
theorem readBody_alloc (length avail : Nat) :
    (readBody length avail).2.2 ≤ MAX_BODY_PREALLOCATION + 2 * (readBody length avail).1 + 64 ∧
    (readBody length avail).1 ≤ avail := by
  simp only [readBody]
  have hmin : min length MAX_BODY_PREALLOCATION ≤ MAX_BODY_PREALLOCATION := Nat.min_le_right _ _
  have h := readBodyLoop_bound (min length MAX_BODY_PREALLOCATION) (avail + 2) length
    (min length MAX_BODY_PREALLOCATION) 0 avail (min length MAX_BODY_PREALLOCATION)
    (by omega) (by omega) (by omega)
  omega

/-- In particular: 9 header bytes announcing 4 GiB - 1 followed by EOF request 1 MiB, not 4 GiB. -/
theorem readBody_huge_header_eof : (readBody 0xFFFFFFFF 0).2.2 = 2 ^ 20 := by decide +kernel

end ScyllaVerif.C08

import ScyllaVerif.Proofs.CodecDec
/-!
C01, encode totality: for a well-formed value the specification encoder can only fail for size reasons
(`SizeOverflow`: a cell above `i32::MAX` bytes; `TooManyElements`: a collection above `i32::MAX` elements).
-/
namespace ScyllaVerif.Proofs.CodecTotal
open ScyllaVerif.Vint ScyllaVerif.Cql ScyllaVerif.Codec ScyllaVerif.Proofs.Vint ScyllaVerif.Proofs.CodecEnc
open ScyllaVerif.Proofs.CodecDec

/-- The result is a success or a size error. -/
def OkOrSize {α : Type} (r : Except SerErr α) : Prop :=
  ∀ e, r = .error e → e = .sizeOverflow ∨ e = .tooManyElements

theorem okOrSize_ok {α : Type} (x : α) : OkOrSize (.ok x : Except SerErr α) := by
  intro e h; cases h

theorem okOrSize_frame (ws : Bool) (b : Bytes) : OkOrSize (frame ws b) := by
  intro e h
  unfold frame at h
  split at h
  · split at h
    · cases h; exact .inl rfl
    · cases h
  · cases h

theorem okOrSize_frameChecked (ws : Bool) (b : Bytes) : OkOrSize (frameChecked ws b) := by
  intro e h
  unfold frameChecked at h
  split at h
  · cases h; exact .inl rfl
  · split at h <;> cases h

theorem okOrSize_concat {α : Type} (g : α → Except SerErr Bytes) (vs : List α)
    (h : ∀ x, x ∈ vs → OkOrSize (g x)) : OkOrSize (concatEnc g vs) := by
  induction vs with
  | nil => exact okOrSize_ok _
  | cons v vs ih =>
    intro e he
    unfold concatEnc at he
    cases hg : g v with
    | error e' => rw [hg] at he; cases he; exact h v List.mem_cons_self _ hg
    | ok b =>
      rw [hg] at he
      simp only at he
      cases hr : concatEnc g vs with
      | error e' =>
        rw [hr] at he; cases he
        exact ih (fun x hx => h x (List.mem_cons_of_mem _ hx)) _ hr
      | ok r => rw [hr] at he; cases he

def Tot (u : Bytes → Bool) (t : CqlTy) : Prop :=
  ∀ (v : CqlVal) (ws : Bool), wfVal u t v = true → OkOrSize (encSpec t v ws)

theorem tot_empty (u : Bytes → Bool) (t : CqlTy) (ws : Bool) (hw : wfVal u t .empty = true) :
    OkOrSize (encSpec t .empty ws) := by
  rw [wfVal] at hw
  simp only [Bool.and_eq_true] at hw
  rw [encSpec]
  simp only [viewOf, hw.1, if_true]
  exact okOrSize_frameChecked _ _

theorem lookupLast_none (n : String) (m : List (String × CqlVal)) (h : lookupLast n m = none) :
    ∀ p, p ∈ m → p.1 ≠ n := by
  induction m with
  | nil => intro p hp; cases hp
  | cons q m ih =>
    obtain ⟨k, v⟩ := q
    simp only [lookupLast] at h
    cases hl : lookupLast n m with
    | some x => rw [hl] at h; cases h
    | none =>
      rw [hl] at h
      simp only at h
      intro p hp
      cases hp with
      | head => intro e; simp only at e; simp [e] at h
      | tail _ hp' => exact ih hl p hp'

/-- What `serialize_udt` finds left over in its map: only entries whose name is not a type field. -/
theorem leftover_sub : ∀ (fields : List (String × CqlTy)) (m : List (String × CqlVal)) (c : Bytes)
    (l : List (String × CqlVal)), encUdtSpec fields m = .ok (c, l) →
    ∀ p, p ∈ l → p ∈ m ∧ ∀ f, f ∈ fields → f.1 ≠ p.1
  | [], m, c, l, h => by
    simp only [encUdtSpec] at h
    cases h
    intro p hp
    exact ⟨hp, fun f hf => by cases hf⟩
  | (n, t) :: rest, m, c, l, h => by
    rw [encUdtSpec] at h
    cases hl : lookupLast n m with
    | none =>
      rw [hl] at h
      simp only at h
      cases hr : encUdtSpec rest m with
      | error e => rw [hr] at h; cases h
      | ok rr =>
        obtain ⟨r, l'⟩ := rr
        rw [hr] at h
        cases h
        intro p hp
        obtain ⟨h1, h2⟩ := leftover_sub rest m r _ hr p hp
        refine ⟨h1, ?_⟩
        intro f hf
        cases hf with
        | head => exact fun e => lookupLast_none n m hl p h1 e.symm
        | tail _ hf' => exact h2 f hf'
    | some v =>
      rw [hl] at h
      simp only at h
      cases hc : encSpec t v true with
      | error e => rw [hc] at h; cases h
      | ok cc =>
        rw [hc] at h
        simp only at h
        cases hr : encUdtSpec rest (removeName n m) with
        | error e => rw [hr] at h; cases h
        | ok rr =>
          obtain ⟨r, l'⟩ := rr
          rw [hr] at h
          cases h
          intro p hp
          obtain ⟨h1, h2⟩ := leftover_sub rest (removeName n m) r _ hr p hp
          unfold removeName at h1
          rw [List.mem_filter] at h1
          refine ⟨h1.1, ?_⟩
          intro f hf
          cases hf with
          | head => intro e; simp only at e; simp [e] at h1
          | tail _ hf' => exact h2 f hf'

def TotTuple (u : Bytes → Bool) (ts : List CqlTy) : Prop :=
  ∀ fs : List CqlVal, wfTuple u ts fs = true → OkOrSize (encTupleSpec ts fs)

def TotUdt (u : Bytes → Bool) (fields : List (String × CqlTy)) : Prop :=
  ∀ (m m' : List (String × CqlVal)), (∀ f, f ∈ fields → lookupLast f.1 m' = lookupLast f.1 m) →
    (fields.map (·.1)).Nodup → wfUdt u fields m = true → OkOrSize (encUdtSpec fields m')

theorem wf_udt_names (u : Bytes → Bool) (ks name : String) (fields : List (String × CqlTy))
    (m : List (String × CqlVal)) (h : wfVal u (.udt ks name fields) (.udt ks name m) = true) :
    ∀ p, p ∈ m → ∃ f, f ∈ fields ∧ f.1 = p.1 := by
  simp [wfVal] at h
  intro p hp
  obtain ⟨x, hx⟩ := h.1.2 p.1 p.2 hp
  exact ⟨(p.1, x), hx, rfl⟩

mutual
theorem tot (u : Bytes → Bool) : ∀ t : CqlTy, Tot u t
  | .native n => by
    intro v ws hw
    rcases wf_native_inv u n v hw with rfl | hn
    · exact tot_empty u _ ws hw
    · obtain ⟨acc, b, viaB, hv, hacc, _, _⟩ := native_rt u n v hn
      rw [encSpec]
      simp only [hv, encScalarSpec, hacc, if_true]
      cases viaB
      · exact okOrSize_frameChecked _ _
      · exact okOrSize_frame _ _
  | .list elt => by
    intro v ws hw
    rcases wf_list_inv u elt v hw with rfl | ⟨vs, rfl, hall⟩
    · exact tot_empty u _ ws hw
    · rw [encSpec]
      simp only [viewOf]
      intro e he
      split at he
      · cases he; exact .inr rfl
      · cases hc : concatEnc (fun v => encSpec elt v true) vs with
        | error e' =>
          rw [hc] at he; cases he
          exact okOrSize_concat _ vs (fun x hx => tot u elt x true (hall x hx)) _ hc
        | ok c => rw [hc] at he; exact okOrSize_frame _ _ e he
  | .set elt => by
    intro v ws hw
    rcases wf_set_inv u elt v hw with rfl | ⟨vs, rfl, hall⟩
    · exact tot_empty u _ ws hw
    · rw [encSpec]
      simp only [viewOf]
      intro e he
      split at he
      · cases he; exact .inr rfl
      · cases hc : concatEnc (fun v => encSpec elt v true) vs with
        | error e' =>
          rw [hc] at he; cases he
          exact okOrSize_concat _ vs (fun x hx => tot u elt x true (hall x hx)) _ hc
        | ok c => rw [hc] at he; exact okOrSize_frame _ _ e he
  | .map kt vt => by
    intro v ws hw
    rcases wf_map_inv u kt vt v hw with rfl | ⟨kvs, rfl, hall⟩
    · exact tot_empty u _ ws hw
    · rw [encSpec]
      simp only [viewOf]
      intro e he
      split at he
      · cases he; exact .inr rfl
      · cases hc : concatEnc (pairSpec (fun k => encSpec kt k true) (fun v => encSpec vt v true)) kvs with
        | error e' =>
          rw [hc] at he; cases he
          refine okOrSize_concat _ kvs (fun kv hkv => ?_) _ hc
          intro e2 he2
          unfold pairSpec at he2
          simp only at he2
          cases hk : encSpec kt kv.1 true with
          | error e3 => rw [hk] at he2; cases he2; exact tot u kt kv.1 true (hall kv hkv).1 _ hk
          | ok kb =>
            rw [hk] at he2
            simp only at he2
            cases hv : encSpec vt kv.2 true with
            | error e3 => rw [hv] at he2; cases he2; exact tot u vt kv.2 true (hall kv hkv).2 _ hv
            | ok vb => rw [hv] at he2; cases he2
        | ok c => rw [hc] at he; exact okOrSize_frame _ _ e he
  | .vector elt dim => by
    intro v ws hw
    rcases wf_vector_inv u elt dim v hw with rfl | ⟨vs, rfl, hlen, hdim, hall, _⟩
    · exact tot_empty u _ ws hw
    · rw [encSpec]
      have hl : ¬ (vs.length ≠ dim) := by simp [hlen]
      simp only [viewOf, hl, if_false]
      intro e he
      cases hs : elt.sizeForVector with
      | some sz =>
        rw [hs] at he
        simp only at he
        cases hc : concatEnc (fun v => encSpec elt v false) vs with
        | error e' =>
          rw [hc] at he; cases he
          exact okOrSize_concat _ vs (fun x hx => tot u elt x false (hall x hx)) _ hc
        | ok c => rw [hc] at he; exact okOrSize_frame _ _ e he
      | none =>
        rw [hs] at he
        simp only at he
        cases hc : concatEnc (varElemSpec (fun v => encSpec elt v false)) vs with
        | error e' =>
          rw [hc] at he; cases he
          refine okOrSize_concat _ vs (fun x hx => ?_) _ hc
          intro e2 he2
          unfold varElemSpec at he2
          simp only at he2
          cases hx2 : encSpec elt x false with
          | error e3 => rw [hx2] at he2; cases he2; exact tot u elt x false (hall x hx) _ hx2
          | ok eb => rw [hx2] at he2; cases he2
        | ok c => rw [hc] at he; exact okOrSize_frame _ _ e he
  | .tuple ts => by
    intro v ws hw
    rcases wf_tuple_inv u ts v hw with rfl | ⟨fs, rfl, hne, hlen, hwt⟩
    · exact tot_empty u _ ws hw
    · rw [encSpec]
      have hl : ¬ (ts.length < fs.length) := by omega
      simp only [viewOf, hl, if_false]
      intro e he
      cases hc : encTupleSpec ts fs with
      | error e' => rw [hc] at he; cases he; exact totTuple u ts fs hwt _ hc
      | ok c => rw [hc] at he; exact okOrSize_frame _ _ e he
  | .udt ks name fields => by
    intro v ws hw
    obtain ⟨m, rfl, hne, hnd, hwu⟩ := wf_udt_inv u ks name fields v hw
    have hnames := wf_udt_names u ks name fields m hw
    rw [encSpec]
    have hnm : (decide (ks ≠ ks) || decide (name ≠ name)) = false := by simp
    simp only [viewOf, hnm, Bool.false_eq_true, if_false]
    intro e he
    cases hc : encUdtSpec fields m with
    | error e' => rw [hc] at he; cases he; exact totUdt u fields m m (fun _ _ => rfl) hnd hwu _ hc
    | ok r =>
      obtain ⟨c, l⟩ := r
      rw [hc] at he
      simp only at he
      have hl : l = [] := by
        cases l with
        | nil => rfl
        | cons p l' =>
          exfalso
          obtain ⟨h1, h2⟩ := leftover_sub fields m c _ hc p List.mem_cons_self
          obtain ⟨f, hf, hfe⟩ := hnames p h1
          exact h2 f hf hfe
      subst hl
      simp only [List.isEmpty_nil, Bool.not_true, Bool.false_eq_true, if_false] at he
      exact okOrSize_frame _ _ e he
theorem totTuple (u : Bytes → Bool) : ∀ ts : List CqlTy, TotTuple u ts
  | [] => by
    intro fs _
    cases fs <;> exact okOrSize_ok _
  | t :: ts => by
    intro fs hw
    cases fs with
    | nil => exact okOrSize_ok _
    | cons f fs =>
      rw [wfTuple] at hw
      simp only [Bool.and_eq_true, Bool.or_eq_true] at hw
      intro e he
      rw [encTupleSpec] at he
      have hf : OkOrSize (encSpec t f true) := by
        rcases hw.1 with hnull | hwf
        · cases f <;> simp [isNullVal] at hnull
          rw [encSpec]; simp only [viewOf, if_true]; exact okOrSize_ok _
        · exact tot u t f true hwf
      cases hc : encSpec t f true with
      | error e' => rw [hc] at he; cases he; exact hf _ hc
      | ok c =>
        rw [hc] at he
        simp only at he
        cases hr : encTupleSpec ts fs with
        | error e' => rw [hr] at he; cases he; exact totTuple u ts fs hw.2 _ hr
        | ok r => rw [hr] at he; cases he
theorem totUdt (u : Bytes → Bool) : ∀ fields : List (String × CqlTy), TotUdt u fields
  | [] => by
    intro m m' _ _ _
    exact okOrSize_ok _
  | (n, t) :: rest => by
    intro m m' hag hnd hw e he
    have hn := hag (n, t) List.mem_cons_self
    simp only at hn
    simp only [List.map_cons, List.nodup_cons] at hnd
    rw [wfUdt] at hw
    simp only [Bool.and_eq_true, Bool.or_eq_true] at hw
    rw [encUdtSpec, hn] at he
    have hagr : ∀ f, f ∈ rest → lookupLast f.1 m' = lookupLast f.1 m :=
      fun f hf => hag f (List.mem_cons_of_mem _ hf)
    cases hl : lookupLast n m with
    | none =>
      rw [hl] at he
      simp only at he
      cases hr : encUdtSpec rest m' with
      | error e' => rw [hr] at he; cases he; exact totUdt u rest m m' hagr hnd.2 hw.2 _ hr
      | ok rr => obtain ⟨r, l'⟩ := rr; rw [hr] at he; cases he
    | some v =>
      rw [hl] at he
      simp only at he
      have hlo : lookupOrNull n m = v := by simp [lookupOrNull, hl]
      rw [hlo] at hw
      have hf : OkOrSize (encSpec t v true) := by
        rcases hw.1 with hnull | hwf
        · cases v <;> simp [isNullVal] at hnull
          rw [encSpec]; simp only [viewOf, if_true]; exact okOrSize_ok _
        · exact tot u t v true hwf
      cases hc : encSpec t v true with
      | error e' => rw [hc] at he; cases he; exact hf _ hc
      | ok c =>
        rw [hc] at he
        simp only at he
        have hag' : ∀ f, f ∈ rest → lookupLast f.1 (removeName n m') = lookupLast f.1 m := by
          intro f hf
          have hne : f.1 ≠ n := by
            intro e
            apply hnd.1
            rw [← e]
            exact List.mem_map_of_mem hf
          rw [lookupLast_removeName n f.1 m' hne]
          exact hagr f hf
        cases hr : encUdtSpec rest (removeName n m') with
        | error e' => rw [hr] at he; cases he; exact totUdt u rest m _ hag' hnd.2 hw.2 _ hr
        | ok rr => obtain ⟨r, l'⟩ := rr; rw [hr] at he; cases he
end

end ScyllaVerif.Proofs.CodecTotal

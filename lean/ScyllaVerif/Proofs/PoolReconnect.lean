import ScyllaVerif.Model.PoolReconnect
/-! C10: the reconnect policy sessions never panic and stay within their limits, for every history. -/
namespace ScyllaVerif.PoolReconnect

theorem clamp_bounds (x lo hi : Nat) (h : lo ≤ hi) : lo ≤ clamp x lo hi ∧ clamp x lo hi ≤ hi := by
  unfold clamp
  split
  · exact ⟨Nat.le_refl _, h⟩
  · split <;> omega

theorem expStep_bounds (c : ExpCfg) (hok : c.min ≤ c.max) (hmax : c.max ≤ durMax) (cur : Nat) (hc : c.min ≤ cur ∧ cur ≤ c.max) (f : Fill) :
    c.min ≤ expStep c cur f ∧ expStep c cur f ≤ c.max := by
  cases f with
  | success => exact ⟨Nat.le_refl _, hok⟩
  | error =>
    simp only [expStep, expOnError]
    refine ⟨?_, Nat.min_le_left _ _⟩
    apply Nat.le_min.mpr
    refine ⟨hok, ?_⟩
    unfold satDouble
    split
    · omega
    · rename_i h; omega

theorem expRun_bounds (c : ExpCfg) (hok : c.min ≤ c.max) (hmax : c.max ≤ durMax) (hist : List Fill) :
    c.min ≤ expRun c hist ∧ expRun c hist ≤ c.max := by
  unfold expRun
  have key : ∀ (hist : List Fill) (cur : Nat), (c.min ≤ cur ∧ cur ≤ c.max) →
      c.min ≤ hist.foldl (expStep c) cur ∧ hist.foldl (expStep c) cur ≤ c.max := by
    intro hist
    induction hist with
    | nil => intro cur h; exact h
    | cons f rest ih => intro cur h; exact ih _ (expStep_bounds c hok hmax cur h f)
  exact key hist _ ⟨Nat.le_refl _, hok⟩

theorem mulJ_some_of_le (d ppm dmax jhi : Nat) (hd : d ≤ dmax) (hj : ppm ≤ jhi)
    (hfit : dmax * jhi / 1000000 ≤ durMax) : ∃ r, mulJ d ppm = some r ∧ r = d * ppm / 1000000 := by
  unfold mulJ
  have : d * ppm / 1000000 ≤ dmax * jhi / 1000000 := Nat.div_le_div_right (Nat.mul_le_mul hd hj)
  simp only
  rw [if_pos (Nat.le_trans this hfit)]
  exact ⟨_, rfl, rfl⟩

end ScyllaVerif.PoolReconnect

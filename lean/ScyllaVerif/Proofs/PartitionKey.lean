/-
Helper lemmas for C03: the CDC hasher invariant, the pk-index table built from the PREPARED frame, the extraction
loop of `PartitionKey::new`, the composite encoding.
-/
import ScyllaVerif.Model.PartitionKey
import ScyllaVerif.Proofs.Murmur3

namespace ScyllaVerif.Proofs.PartitionKey
open ScyllaVerif.Murmur3 ScyllaVerif.PartitionKey ScyllaVerif.Proofs.Murmur3

/-! ### CDC hasher -/

/-- State of the CDC hasher after `data` has been written. -/
def CdcInv : CdcState → List UInt8 → Prop
  | .feeding len buf, data => len < 8 ∧ buf.length = 8 ∧ data.length = len ∧ buf.take len = data
  | .computed t, data => 8 ≤ data.length ∧ t = tokenNew (be64 data).toInt64

theorem cdcInv_init : CdcInv cdcInit [] := by
  refine ⟨by decide, by simp, rfl, by simp⟩

theorem cdcInv_write (st : CdcState) (data pk : List UInt8) (h : CdcInv st data) :
    CdcInv (cdcWrite st pk) (data ++ pk) := by
  cases st with
  | computed t =>
    obtain ⟨hl, ht⟩ := h
    refine ⟨by simp only [List.length_append]; omega, ?_⟩
    rw [ht]
    congr 2
    exact (be64_congr _ _ (fun i hi => getD_append_left data pk i (by omega))).symm
  | feeding len buf =>
    obtain ⟨hlen, hbuf, hdl, htake⟩ := h
    unfold cdcWrite
    simp only []
    have hcl : (pk.take (min pk.length (8 - len))).length = min pk.length (8 - len) := by
      simp only [List.length_take]; omega
    have hbt := copyInto_take buf len (pk.take (min pk.length (8 - len))) (by omega)
    rw [hcl, htake] at hbt
    have hbl : (copyInto buf len (pk.take (min pk.length (8 - len)))).length = 8 := by
      rw [copyInto_length _ _ _ (by rw [hcl]; omega), hbuf]
    split
    · rename_i hfull
      have hmin : min pk.length (8 - len) = 8 - len := by omega
      refine ⟨by simp only [List.length_append]; omega, ?_⟩
      congr 2
      apply be64_congr
      intro i hi
      rw [← getD_take _ (len + min pk.length (8 - len)) i (by rw [hfull]; exact hi), hbt, hmin]
      rw [← getD_take (data ++ pk) 8 i hi]
      congr 1
      rw [List.take_append, List.take_of_length_le (l := data) (by omega), hdl]
    · rename_i hnot
      have hmin : min pk.length (8 - len) = pk.length := by omega
      refine ⟨by omega, hbl, by simp only [List.length_append]; omega, ?_⟩
      rw [hbt, hmin, List.take_of_length_le (Nat.le_refl _)]

theorem cdcInv_foldl (chunks : List (List UInt8)) (st : CdcState) (data : List UInt8) (h : CdcInv st data) :
    CdcInv (chunks.foldl cdcWrite st) (data ++ chunks.flatten) := by
  induction chunks generalizing st data with
  | nil => simpa using h
  | cons c cs ih =>
    simp only [List.foldl_cons, List.flatten_cons, ← List.append_assoc]
    exact ih _ _ (cdcInv_write st data c h)

theorem cdcFinish_of_inv (st : CdcState) (data : List UInt8) (h : CdcInv st data) :
    cdcFinish st = cdcRust data := by
  cases st with
  | computed t =>
    obtain ⟨hl, ht⟩ := h
    unfold cdcFinish cdcRust
    rw [if_neg (by omega), ht]
  | feeding len buf =>
    obtain ⟨hlen, _, hdl, _⟩ := h
    unfold cdcFinish cdcRust
    rw [if_pos (by omega)]

/-- Pigeonhole: a duplicate-free list of naturals below `n` has at most `n` elements. -/
theorem nodup_bounded_length (n : Nat) (l : List Nat) (hnd : l.Nodup) (hlt : ∀ x ∈ l, x < n) : l.length ≤ n := by
  induction n generalizing l with
  | zero =>
    cases l with
    | nil => simp
    | cons a _ => exact absurd (hlt a List.mem_cons_self) (Nat.not_lt_zero _)
  | succ n ih =>
    have h1 : (l.erase n).length ≤ n := by
      apply ih _ (hnd.erase n)
      intro x hx
      have hx' := (hnd.mem_erase_iff).mp hx
      have := hlt x hx'.2
      omega
    have h2 : l.length ≤ (l.erase n).length + 1 := by
      rw [List.length_erase]; split <;> omega
    omega

/-! ### the pk-index table -/

theorem mem_wirePairs (wire : List Nat) (j : Nat) (p : PkIndex) (hb : j + wire.length ≤ 65536)
    (hp : p ∈ wirePairs j wire) :
    j ≤ p.sequence ∧ p.sequence < j + wire.length ∧ wire[p.sequence - j]? = some p.index := by
  induction wire generalizing j with
  | nil => simp [wirePairs] at hp
  | cons ix rest ih =>
    simp only [wirePairs, List.mem_cons] at hp
    simp only [List.length_cons] at hb ⊢
    rcases hp with rfl | hp
    · have : j % 65536 = j := Nat.mod_eq_of_lt (by omega)
      simp [this]
    · obtain ⟨h1, h2, h3⟩ := ih (j + 1) (by omega) hp
      refine ⟨by omega, by omega, ?_⟩
      have : p.sequence - j = (p.sequence - (j + 1)) + 1 := by omega
      rw [this, List.getElem?_cons_succ]
      exact h3

theorem wirePairs_mem (wire : List Nat) (j s : Nat) (hs : s < wire.length) (hb : j + wire.length ≤ 65536) :
    (⟨wire[s], j + s⟩ : PkIndex) ∈ wirePairs j wire := by
  induction wire generalizing j s with
  | nil => simp at hs
  | cons ix rest ih =>
    simp only [List.length_cons] at hb hs
    cases s with
    | zero =>
      have : j % 65536 = j := Nat.mod_eq_of_lt (by omega)
      simp [wirePairs, this]
    | succ s =>
      simp only [wirePairs, List.getElem_cons_succ, List.mem_cons]
      right
      have := ih (j + 1) s (by omega) (by omega)
      have e : j + 1 + s = j + (s + 1) := by omega
      rw [e] at this
      exact this

theorem wirePairs_length (wire : List Nat) (j : Nat) : (wirePairs j wire).length = wire.length := by
  induction wire generalizing j with
  | nil => rfl
  | cons ix rest ih => simp [wirePairs, ih]

theorem wirePairs_seq_distinct (wire : List Nat) (j : Nat) (hb : j + wire.length ≤ 65536) :
    (wirePairs j wire).Pairwise (fun a b => a.sequence ≠ b.sequence) := by
  induction wire generalizing j with
  | nil => exact List.Pairwise.nil
  | cons ix rest ih =>
    simp only [List.length_cons] at hb
    simp only [wirePairs, List.pairwise_cons]
    refine ⟨?_, ih (j + 1) (by omega)⟩
    intro p hp
    have := mem_wirePairs rest (j + 1) p (by omega) hp
    have hj : j % 65536 = j := Nat.mod_eq_of_lt (by omega)
    simp only [hj]
    omega

theorem wirePairs_idx_distinct (wire : List Nat) (j : Nat) (hb : j + wire.length ≤ 65536) (hnd : wire.Nodup) :
    (wirePairs j wire).Pairwise (fun a b => a.index ≠ b.index) := by
  induction wire generalizing j with
  | nil => exact List.Pairwise.nil
  | cons ix rest ih =>
    simp only [List.length_cons] at hb
    rw [List.nodup_cons] at hnd
    simp only [wirePairs, List.pairwise_cons]
    refine ⟨?_, ih (j + 1) (by omega) hnd.2⟩
    intro p hp
    obtain ⟨_, _, h3⟩ := mem_wirePairs rest (j + 1) p (by omega) hp
    intro heq
    apply hnd.1
    rw [heq]
    exact List.mem_of_getElem? h3

theorem pkLe_trans (a b c : PkIndex) : pkLe a b = true → pkLe b c = true → pkLe a c = true := by
  unfold pkLe; simp only [decide_eq_true_eq]; omega

theorem pkLe_total (a b : PkIndex) : (pkLe a b || pkLe b a) = true := by
  unfold pkLe; simp only [Bool.or_eq_true, decide_eq_true_eq]; omega

/-- The table of `deser_prepared_metadata` for distinct marker indexes: a permutation of the wire pairs, strictly
ascending by marker index, with pairwise distinct sequences. -/
theorem pkIndexesOfWire_props (wire : List Nat) (hb : wire.length ≤ 65536) (hnd : wire.Nodup) :
    (pkIndexesOfWire wire).Perm (wirePairs 0 wire) ∧
    (pkIndexesOfWire wire).Pairwise (fun a b => a.index < b.index) ∧
    (pkIndexesOfWire wire).Pairwise (fun a b => a.sequence ≠ b.sequence) := by
  have hperm : (pkIndexesOfWire wire).Perm (wirePairs 0 wire) := List.mergeSort_perm _ _
  refine ⟨hperm, ?_, ?_⟩
  · have hs : (pkIndexesOfWire wire).Pairwise (fun a b => pkLe a b = true) :=
      List.pairwise_mergeSort pkLe_trans pkLe_total _
    have hd : (pkIndexesOfWire wire).Pairwise (fun a b => a.index ≠ b.index) :=
      (List.Perm.pairwise_iff (fun h => Ne.symm h) hperm).mpr
        (wirePairs_idx_distinct wire 0 (by omega) hnd)
    refine (hs.and hd).imp ?_
    intro a b ⟨h1, h2⟩
    unfold pkLe at h1
    simp only [decide_eq_true_eq] at h1
    omega
  · exact (List.Perm.pairwise_iff (fun h => Ne.symm h) hperm).mpr (wirePairs_seq_distinct wire 0 (by omega))

/-! ### the extraction loop -/

/-- What one iteration of `PartitionKey::new` stores. -/
def place (values : List RawValue) (acc : List (Option (List UInt8))) (p : PkIndex) :
    List (Option (List UInt8)) :=
  match values.getD p.index .null with
  | .value bs => acc.set p.sequence (some bs)
  | _ => acc

theorem place_length (values : List RawValue) (acc : List (Option (List UInt8))) (p : PkIndex) :
    (place values acc p).length = acc.length := by
  unfold place
  split <;> simp

theorem foldl_place_length (values : List RawValue) (ps : List PkIndex) (acc : List (Option (List UInt8))) :
    (ps.foldl (place values) acc).length = acc.length := by
  induction ps generalizing acc with
  | nil => rfl
  | cons p ps ih => simp only [List.foldl_cons]; rw [ih, place_length]

/-- On a table that is strictly ascending by marker index, with every marker among the bound values, the loop never
fails and stores every key component at its sequence. -/
theorem extractLoop_ok (values : List RawValue) (hv : values.length ≤ 65535) (ps : List PkIndex)
    (off : Nat) (acc : List (Option (List UInt8)))
    (hsorted : ps.Pairwise (fun a b => a.index < b.index))
    (hall : ∀ p ∈ ps, off ≤ p.index ∧ p.index < values.length ∧ p.sequence < acc.length) :
    extractLoop values.length ps (values.drop off) off acc = .ok (ps.foldl (place values) acc) := by
  induction ps generalizing off acc with
  | nil => rfl
  | cons p ps ih =>
    obtain ⟨h1, h2, h3⟩ := hall p List.mem_cons_self
    rw [List.pairwise_cons] at hsorted
    unfold extractLoop
    rw [if_neg (by omega)]
    have hdrop : (values.drop off).drop (p.index - off) = values[p.index] :: values.drop (p.index + 1) := by
      rw [List.drop_drop]
      have : off + (p.index - off) = p.index := by omega
      rw [this]
      exact List.drop_eq_getElem_cons h2
    rw [hdrop]
    simp only [List.foldl_cons]
    have hget : values.getD p.index .null = values[p.index] := by
      simp [List.getD, List.getElem?_eq_getElem h2]
    have hplace : store acc p.sequence values[p.index] = some (place values acc p) := by
      unfold place store
      rw [hget]
      split <;> simp_all
    rw [hplace]
    simp only []
    rw [if_neg (by omega)]
    apply ih
    · exact hsorted.2
    · intro q hq
      obtain ⟨_, q2, q3⟩ := hall q (List.mem_cons_of_mem _ hq)
      have := hsorted.1 q hq
      exact ⟨by omega, q2, by rw [place_length]; exact q3⟩

/-- On a table strictly ascending by marker index, if some marker is at or beyond the number of bound values, the
loop stops with `NoPkIndexValue` for the SMALLEST such marker (the first one it meets). -/
theorem extractLoop_missing (values : List RawValue) (hv : values.length ≤ 65535) (ps : List PkIndex)
    (off : Nat) (acc : List (Option (List UInt8)))
    (hsorted : ps.Pairwise (fun a b => a.index < b.index))
    (hall : ∀ p ∈ ps, off ≤ p.index ∧ p.sequence < acc.length)
    (hbad : ∃ p ∈ ps, values.length ≤ p.index) :
    ∃ m, m ∈ ps ∧ values.length ≤ m.index ∧ (∀ q ∈ ps, values.length ≤ q.index → m.index ≤ q.index) ∧
      extractLoop values.length ps (values.drop off) off acc = .error (.noPkIndexValue m.index values.length) := by
  induction ps generalizing off acc with
  | nil => obtain ⟨p, hp, _⟩ := hbad; cases hp
  | cons p ps ih =>
    obtain ⟨h1, h3⟩ := hall p List.mem_cons_self
    rw [List.pairwise_cons] at hsorted
    by_cases hp : values.length ≤ p.index
    · -- `p` is the first (hence smallest) missing marker
      refine ⟨p, List.mem_cons_self, hp, ?_, ?_⟩
      · intro q hq _
        rcases List.mem_cons.mp hq with rfl | hq'
        · exact Nat.le_refl _
        · exact Nat.le_of_lt (hsorted.1 q hq')
      · unfold extractLoop
        rw [if_neg (by omega)]
        have : (values.drop off).drop (p.index - off) = [] := by
          rw [List.drop_drop]; exact List.drop_of_length_le (by omega)
        rw [this]
    · have h2 : p.index < values.length := by omega
      have hbad' : ∃ q ∈ ps, values.length ≤ q.index := by
        obtain ⟨q, hq, hql⟩ := hbad
        rcases List.mem_cons.mp hq with rfl | hq'
        · exact absurd hql hp
        · exact ⟨q, hq', hql⟩
      obtain ⟨m, hm, hml, hmin, hres⟩ := ih (p.index + 1) (place values acc p) hsorted.2
        (by
          intro q hq
          obtain ⟨_, q3⟩ := hall q (List.mem_cons_of_mem _ hq)
          have := hsorted.1 q hq
          exact ⟨by omega, by rw [place_length]; exact q3⟩) hbad'
      refine ⟨m, List.mem_cons_of_mem _ hm, hml, ?_, ?_⟩
      · intro q hq hql
        rcases List.mem_cons.mp hq with rfl | hq'
        · exact absurd hql hp
        · exact hmin q hq' hql
      · unfold extractLoop
        rw [if_neg (by omega)]
        have hdrop : (values.drop off).drop (p.index - off) = values[p.index] :: values.drop (p.index + 1) := by
          rw [List.drop_drop]
          have : off + (p.index - off) = p.index := by omega
          rw [this]
          exact List.drop_eq_getElem_cons h2
        rw [hdrop]
        have hget : values.getD p.index .null = values[p.index] := by
          simp [List.getD, List.getElem?_eq_getElem h2]
        have hplace : store acc p.sequence values[p.index] = some (place values acc p) := by
          unfold place store
          rw [hget]
          split <;> simp_all
        simp only []
        rw [hplace]
        simp only []
        rw [if_neg (by omega)]
        exact hres

theorem wirePairs_map_index (wire : List Nat) (j : Nat) : (wirePairs j wire).map (·.index) = wire := by
  induction wire generalizing j with
  | nil => rfl
  | cons ix rest ih => simp [wirePairs, ih]

/-- If the loop returns a key at all, the table it walked was strictly ascending by marker index and every marker was
among the values still to be read — whatever the table (no sortedness assumed). -/
theorem extractLoop_ok_imp (count : Nat) (ps : List PkIndex) (iter : List RawValue) (off : Nat)
    (acc r : List (Option (List UInt8))) (h : extractLoop count ps iter off acc = .ok r) :
    ps.Pairwise (fun a b => a.index < b.index) ∧ ∀ p ∈ ps, off ≤ p.index ∧ p.index < off + iter.length := by
  induction ps generalizing iter off acc with
  | nil => exact ⟨List.Pairwise.nil, by simp⟩
  | cons p ps ih =>
    unfold extractLoop at h
    split at h
    · cases h
    · rename_i hge
      cases hd : iter.drop (p.index - off) with
      | nil => rw [hd] at h; cases h
      | cons v rest =>
        rw [hd] at h
        simp only [] at h
        have hlen : (iter.drop (p.index - off)).length = rest.length + 1 := by rw [hd]; rfl
        rw [List.length_drop] at hlen
        cases hs : store acc p.sequence v with
        | none => rw [hs] at h; cases h
        | some acc' =>
          rw [hs] at h
          simp only [] at h
          split at h
          · cases h
          · obtain ⟨hpw, hall⟩ := ih rest (p.index + 1) acc' h
            refine ⟨List.pairwise_cons.mpr ⟨fun q hq => by have := (hall q hq).1; omega, hpw⟩, ?_⟩
            intro q hq
            rcases List.mem_cons.mp hq with rfl | hq'
            · omega
            · have := hall q hq'
              omega

/-- On a table sorted (non-strictly) by marker index whose markers are all among the bound values, a repeated marker
— or a marker below the iterator offset — makes `index - offset` underflow: a panic (overflow checks on). -/
theorem extractLoop_dup_panics (values : List RawValue) (hv : values.length ≤ 65535) (ps : List PkIndex)
    (off : Nat) (acc : List (Option (List UInt8)))
    (hall : ∀ p ∈ ps, p.index < values.length ∧ p.sequence < acc.length)
    (hbad : ¬ ps.Pairwise (fun a b => a.index < b.index) ∨ ∃ p ∈ ps, p.index < off) :
    extractLoop values.length ps (values.drop off) off acc = .error .panic := by
  induction ps generalizing off acc with
  | nil =>
    rcases hbad with h | ⟨p, hp, _⟩
    · exact absurd List.Pairwise.nil h
    · cases hp
  | cons p ps ih =>
    obtain ⟨h2, h3⟩ := hall p List.mem_cons_self
    unfold extractLoop
    by_cases hlt : p.index < off
    · rw [if_pos hlt]
    · rw [if_neg hlt]
      have hdrop : (values.drop off).drop (p.index - off) = values[p.index] :: values.drop (p.index + 1) := by
        rw [List.drop_drop]
        have : off + (p.index - off) = p.index := by omega
        rw [this]
        exact List.drop_eq_getElem_cons h2
      rw [hdrop]
      have hget : values.getD p.index .null = values[p.index] := by
        simp [List.getD, List.getElem?_eq_getElem h2]
      have hplace : store acc p.sequence values[p.index] = some (place values acc p) := by
        unfold place store
        rw [hget]
        split <;> simp_all
      simp only []
      rw [hplace]
      simp only []
      rw [if_neg (by omega)]
      apply ih
      · intro q hq
        obtain ⟨q2, q3⟩ := hall q (List.mem_cons_of_mem _ hq)
        exact ⟨q2, by rw [place_length]; exact q3⟩
      · rcases hbad with h | ⟨q, hq, hql⟩
        · rw [List.pairwise_cons] at h
          by_cases hfirst : ∀ q ∈ ps, p.index < q.index
          · left
            intro hpw
            exact h ⟨hfirst, hpw⟩
          · right
            have : ∃ q ∈ ps, ¬ p.index < q.index := by
              apply Classical.byContradiction
              intro hne
              apply hfirst
              intro q hq
              apply Classical.byContradiction
              intro hnq
              exact hne ⟨q, hq, hnq⟩
            obtain ⟨q, hq, hnq⟩ := this
            exact ⟨q, hq, by omega⟩
        · rcases List.mem_cons.mp hq with rfl | hq'
          · exact absurd hql hlt
          · exact Or.inr ⟨q, hq', by omega⟩

theorem foldl_place_untouched (values : List RawValue) (ps : List PkIndex) (acc : List (Option (List UInt8)))
    (s : Nat) (h : ∀ q ∈ ps, q.sequence ≠ s) : (ps.foldl (place values) acc)[s]? = acc[s]? := by
  induction ps generalizing acc with
  | nil => rfl
  | cons q qs ih =>
    simp only [List.foldl_cons]
    rw [ih _ (fun r hr => h r (List.mem_cons_of_mem _ hr))]
    unfold place
    have := h q List.mem_cons_self
    split
    · rw [List.getElem?_set, if_neg this]
    · rfl

theorem foldl_place_get (values : List RawValue) (ps : List PkIndex) (acc : List (Option (List UInt8)))
    (hd : ps.Pairwise (fun a b => a.sequence ≠ b.sequence)) (p : PkIndex) (hp : p ∈ ps)
    (hlt : p.sequence < acc.length) (hnone : acc[p.sequence]? = some none) :
    (ps.foldl (place values) acc)[p.sequence]? = some (values.getD p.index .null).asValue := by
  induction ps generalizing acc with
  | nil => cases hp
  | cons q qs ih =>
    rw [List.pairwise_cons] at hd
    simp only [List.foldl_cons]
    rcases List.mem_cons.mp hp with rfl | hp'
    · rw [foldl_place_untouched _ _ _ _ (fun r hr => Ne.symm (hd.1 r hr))]
      unfold place
      split
      · rename_i bs hbs
        rw [List.getElem?_set, if_pos rfl, if_pos hlt, hbs]
        rfl
      · rename_i hnv
        rw [hnone]
        cases hv : values.getD p.index .null with
        | value bs => exact absurd hv (hnv bs)
        | null => rfl
        | unset => rfl
    · have hne : q.sequence ≠ p.sequence := hd.1 p hp'
      apply ih _ hd.2 hp'
      · rw [place_length]; exact hlt
      · unfold place
        split
        · rw [List.getElem?_set, if_neg hne]; exact hnone
        · exact hnone

/-! ### the `u16` increment of the iterator offset cannot overflow -/

/-- `extractLoop` without the `index + 1` overflow branch. -/
def extractLoopNoOvf (count : Nat) :
    List PkIndex → List RawValue → Nat → List (Option (List UInt8)) → Except ExtractErr (List (Option (List UInt8)))
  | [], _, _, acc => .ok acc
  | p :: ps, iter, off, acc =>
    if p.index < off then .error .panic
    else
      match iter.drop (p.index - off) with
      | [] => .error (.noPkIndexValue p.index count)
      | v :: rest =>
        match store acc p.sequence v with
        | none => .error .panic
        | some acc' => extractLoopNoOvf count ps rest (p.index + 1) acc'

/-- As long as at most 65535 values are bound (the `u16` element count of `SerializedValues`), a value found at
marker `index` implies `index + 1 ≤ 65535`: the overflow branch of `values_iter_offset = pk_index.index + 1` is dead. -/
theorem extractLoop_no_overflow (count : Nat) (hc : count ≤ 65535) (ps : List PkIndex) (iter : List RawValue)
    (off : Nat) (acc : List (Option (List UInt8))) (hinv : iter.length + off ≤ count) :
    extractLoop count ps iter off acc = extractLoopNoOvf count ps iter off acc := by
  induction ps generalizing iter off acc with
  | nil => rfl
  | cons p ps ih =>
    unfold extractLoop extractLoopNoOvf
    split
    · rfl
    · rename_i hge
      cases hd : iter.drop (p.index - off) with
      | nil => rfl
      | cons v rest =>
        simp only []
        have hlen : (iter.drop (p.index - off)).length = rest.length + 1 := by rw [hd]; rfl
        rw [List.length_drop] at hlen
        cases store acc p.sequence v with
        | none => rfl
        | some acc' =>
          simp only []
          rw [if_neg (by omega)]
          exact ih rest (p.index + 1) acc' (by omega)

/-! ### composite encoding -/

/-- `be16 len ++ bytes ++ [0]` -/
def frame (v : List UInt8) : List UInt8 := be16 v.length ++ v ++ [0]

theorem compositeChunks_ok (vs : List (List UInt8)) (h : ∀ v ∈ vs, v.length ≤ 65535) :
    ∃ cs, compositeChunks vs = .ok cs ∧ cs.flatten = (vs.map frame).flatten := by
  induction vs with
  | nil => exact ⟨[], rfl, rfl⟩
  | cons v vs ih =>
    obtain ⟨cs, hcs, hfl⟩ := ih (fun w hw => h w (List.mem_cons_of_mem _ hw))
    have hv := h v List.mem_cons_self
    refine ⟨be16 v.length :: v :: [0] :: cs, ?_, ?_⟩
    · unfold compositeChunks
      rw [if_neg (by omega), hcs]
    · simp only [List.flatten_cons, List.map_cons, hfl, frame, List.append_assoc]

theorem compositeChunks_err (vs : List (List UInt8)) (h : ∃ v ∈ vs, 65535 < v.length) :
    ∃ n, compositeChunks vs = .error n ∧ 65535 < n := by
  induction vs with
  | nil => obtain ⟨v, hv, _⟩ := h; cases hv
  | cons v vs ih =>
    unfold compositeChunks
    by_cases hv : 65535 < v.length
    · exact ⟨v.length, by rw [if_pos hv], hv⟩
    · rw [if_neg hv]
      obtain ⟨w, hw, hwl⟩ := h
      rcases List.mem_cons.mp hw with rfl | hw'
      · exact absurd hwl hv
      · obtain ⟨n, hn, hnl⟩ := ih ⟨w, hw', hwl⟩
        exact ⟨n, by rw [hn], hnl⟩

end ScyllaVerif.Proofs.PartitionKey

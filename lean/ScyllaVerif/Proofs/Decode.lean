import ScyllaVerif.Model.FrameHdr
/-
Helper lemmas for C08: the reader monad `M`, the allocation/consumption accounting predicate `AllocW`,
and the wire encoders (written from the protocol specification) used by the round-trip theorems.
-/
namespace ScyllaVerif.C08

/-! ### the monad -/

@[simp] theorem bind_def (m : M α) (f : α → M β) (s : St) :
    (m >>= f) s = match m s with
      | (.ok a, s') => f a s'
      | (.err k, s') => (.err k, s')
      | (.panic k, s') => (.panic k, s') := rfl

@[simp] theorem pure_def (a : α) (s : St) : (pure a : M α) s = (.ok a, s) := rfl

@[simp] theorem fail_def (k : String) (s : St) : (fail k : M α) s = (.err k, s) := rfl

theorem tag_def (t : String) (m : M α) (s : St) :
    tag t m s = match m s with
      | (.ok a, s') => (.ok a, s')
      | (.err k, s') => (.err (t ++ "." ++ k), s')
      | (.panic k, s') => (.panic k, s') := rfl

/-! ### allocation / consumption accounting

`AllocW w A B m`: on success the reader `m` consumed at least `w` bytes more than the element slots it requested
(`alloc` grows by at most `consumed - w`) and never grows the buffer or the recorded depth bound; on failure it
requested at most `A * remaining + B` slots.  In both cases the recorded recursion depth stays below `DEPTH_BOUND`;
what is left of the buffer is a suffix of what was there; and the reader NEVER PANICS (third branch). -/

theorem mul_split (A a b : Nat) (h : b ≤ a) (hA : 1 ≤ A) : A * b + (a - b) ≤ A * a := by
  have e : A * b + A * (a - b) = A * a := by rw [← Nat.mul_add]; congr 1; omega
  have : (a - b) ≤ A * (a - b) := Nat.le_mul_of_pos_left _ hA
  omega

/-- Deepest recursion the decoders can reach: 129 levels of `deser_type_generic` plus 128 of `do_parse`. -/
def DEPTH_BOUND : Nat := 257

def AllocW (w A B : Nat) (m : M α) : Prop :=
  ∀ s : St, match m s with
    | (.ok _, s') => s'.alloc + s'.buf.length + w ≤ s.alloc + s.buf.length ∧ s'.buf.length ≤ s.buf.length ∧
        s'.depth ≤ max s.depth DEPTH_BOUND ∧ s'.buf <:+ s.buf
    | (.err _, s') => s'.alloc ≤ s.alloc + A * s.buf.length + B ∧ s'.depth ≤ max s.depth DEPTH_BOUND
    | (.panic _, _) => False

theorem aw_mono {m : M α} (h : AllocW w A B m) (hw : w' ≤ w) (hA : A ≤ A') (hB : B ≤ B') :
    AllocW w' A' B' m := by
  intro s
  have := h s
  cases hms : m s with
  | mk o s1 =>
    rw [hms] at this
    cases o with
    | ok a => simp only at this ⊢; exact ⟨by omega, this.2.1, this.2.2.1, this.2.2.2⟩
    | err k =>
      simp only at this ⊢
      have : A * s.buf.length ≤ A' * s.buf.length := Nat.mul_le_mul_right _ hA
      omega
    | panic k => exact this

theorem aw_pure (a : α) : AllocW 0 A B (pure a : M α) := by
  intro s; simp only [pure_def]; exact ⟨by omega, by omega, by omega, List.suffix_refl _⟩

theorem aw_fail (k : String) : AllocW w A B (fail k : M α) := by
  intro s; simp only [fail_def]; omega

/-- `bind` where the continuation is only known to behave for the values the first reader can return. -/
theorem aw_bindP {m : M α} {f : α → M β} (P : α → Prop) (hA : 1 ≤ A) (hm : AllocW w1 A B m)
    (hP : ∀ s a s', m s = (.ok a, s') → P a)
    (hf : ∀ a, P a → AllocW w2 A B (f a)) : AllocW (w1 + w2) A B (m >>= f) := by
  intro s
  have h1 := hm s
  simp only [bind_def]
  cases hms : m s with
  | mk o s1 =>
    rw [hms] at h1
    cases o with
    | err k => simp only at h1 ⊢; exact h1
    | panic k => exact h1.elim
    | ok a =>
      simp only at h1 ⊢
      have hp := hP s a s1 hms
      have h2 := hf a hp s1
      cases hfs : f a s1 with
      | mk o2 s2 =>
        rw [hfs] at h2
        cases o2 with
        | ok b =>
          simp only at h2 ⊢
          exact ⟨by omega, by omega, by omega, h2.2.2.2.trans h1.2.2.2⟩
        | err k =>
          simp only at h2 ⊢
          have := mul_split A s.buf.length s1.buf.length h1.2.1 hA
          omega
        | panic k => exact h2.elim

theorem aw_bind {m : M α} {f : α → M β} (hA : 1 ≤ A) (hm : AllocW w1 A B m)
    (hf : ∀ a, AllocW w2 A B (f a)) : AllocW (w1 + w2) A B (m >>= f) :=
  aw_bindP (fun _ => True) hA hm (fun _ _ _ _ => trivial) (fun a _ => hf a)

theorem aw_bind0 {m : M α} {f : α → M β} (hA : 1 ≤ A) (hm : AllocW 0 A B m)
    (hf : ∀ a, AllocW w A B (f a)) : AllocW w A B (m >>= f) := by
  have := aw_bind hA hm hf
  simpa using this

theorem aw_bindL {m : M α} {f : α → M β} (hA : 1 ≤ A) (hm : AllocW w A B m)
    (hf : ∀ a, AllocW 0 A B (f a)) : AllocW w A B (m >>= f) := by
  have := aw_bind hA hm hf
  simpa using this

theorem aw_tag {m : M α} (t : String) (h : AllocW w A B m) : AllocW w A B (tag t m) := by
  intro s
  have := h s
  rw [tag_def]
  cases hms : m s with
  | mk o s1 => rw [hms] at this; cases o <;> simpa using this

theorem aw_takeN (n : Nat) (k : String) : AllocW n A B (takeN n k) := by
  intro s
  by_cases h : s.buf.length < n
  · simp only [takeN, h, if_true]; omega
  · simp only [takeN, h, if_false, List.length_drop]
    exact ⟨by omega, by omega, by omega, List.drop_suffix _ _⟩

/-- `read_raw_bytes`: behind its length guard the `split_at` cannot panic — the two steps together are `takeN`. -/
theorem readRaw_eq_takeN (n : Nat) : readRaw n = takeN n "few" := by
  funext s
  unfold readRaw takeN
  simp only [bind_def, remaining]
  by_cases h : s.buf.length < n
  · simp [h]
  · have h2 : ¬ (n > s.buf.length) := by omega
    simp [h, splitAtP, h2]

theorem aw_ite {c : Prop} [Decidable c] {a b : M α} (ha : AllocW w A B a) (hb : AllocW w A B b) :
    AllocW w A B (if c then a else b) := by
  split <;> assumption

/-- The ghost depth never influences anything and `noteDepth` / `remaining` consume and request nothing. -/
theorem aw_noteDepth (d : Nat) (hd : d ≤ DEPTH_BOUND) : AllocW 0 A B (noteDepth d) := by
  intro s; simp only [noteDepth]; exact ⟨by omega, by omega, by omega, List.suffix_refl _⟩

theorem aw_loopN {m : M α} (hA : 1 ≤ A) (h : AllocW w A B m) : ∀ n, AllocW (n * w) A B (loopN n m)
  | 0 => by simpa [loopN] using (aw_pure (A := A) (B := B) ([] : List α))
  | n + 1 => by
    unfold loopN
    have ih := aw_loopN hA h n
    have h2 : AllocW (w + n * w) A B
        (m >>= fun a => loopN n m >>= fun r => (Pure.pure (a :: r) : M (List α))) :=
      aw_bind hA h (fun a => aw_bindL hA ih (fun r => aw_pure _))
    have e : (n + 1) * w = w + n * w := by rw [Nat.add_mul]; omega
    rw [e]; exact h2

/-- `let rem ← remaining; allocReq (min n (rem / c)); loopN n body` where every iteration consumes at least one byte
more than it requests: on success the pre-allocation is paid for by the `n` iterations; on failure it is at most the
remaining input. -/
theorem aw_cappedLoop {body : M α} {k : List α → M β} (hA : 1 ≤ A) (c n : Nat)
    (hb : AllocW 1 A B body) (hk : ∀ l, AllocW 0 (A + 1) B (k l)) :
    AllocW 0 (A + 1) B (remaining >>= fun rem => allocReq (min n (rem / c)) >>= fun _ => loopN n body >>= k) := by
  intro s
  have hl := aw_loopN hA hb n
  simp only [bind_def, remaining, allocReq]
  have h1 := hl { s with alloc := s.alloc + min n (s.buf.length / c) }
  have hmin : min n (s.buf.length / c) ≤ n := Nat.min_le_left _ _
  have hmin2 : min n (s.buf.length / c) ≤ s.buf.length :=
    Nat.le_trans (Nat.min_le_right _ _) (Nat.div_le_self _ _)
  cases hls : loopN n body { s with alloc := s.alloc + min n (s.buf.length / c) } with
  | mk o s1 =>
    rw [hls] at h1
    cases o with
    | panic e => exact h1.elim
    | err e =>
      simp only at h1 ⊢
      rw [Nat.add_mul]; omega
    | ok l =>
      simp only [Nat.mul_one] at h1 ⊢
      have h2 := hk l s1
      cases hks : k l s1 with
      | mk o2 s2 =>
        rw [hks] at h2
        cases o2 with
        | panic e => exact h2.elim
        | ok b => simp only at h2 ⊢; exact ⟨by omega, by omega, by omega, h2.2.2.2.trans h1.2.2.2⟩
        | err e =>
          simp only at h2 ⊢
          have := mul_split (A + 1) s.buf.length s1.buf.length h1.2.1 (by omega)
          omega

/-- `allocReq n; loopN n body` with a `u16` count taken as sent (`read_string_list`, maps, schema-change arguments). -/
theorem aw_u16Loop {body : M α} {k : List α → M β} (hA : 1 ≤ A) (n U : Nat) (hn : n ≤ U)
    (hb : AllocW 1 A B body) (hk : ∀ l, AllocW 0 A (B + U) (k l)) :
    AllocW 0 A (B + U) (allocReq n >>= fun _ => loopN n body >>= k) := by
  intro s
  have hl := aw_loopN hA hb n
  simp only [bind_def, allocReq]
  have h1 := hl { s with alloc := s.alloc + n }
  cases hls : loopN n body { s with alloc := s.alloc + n } with
  | mk o s1 =>
    rw [hls] at h1
    cases o with
    | panic e => exact h1.elim
    | err e => simp only at h1 ⊢; omega
    | ok l =>
      simp only [Nat.mul_one] at h1 ⊢
      have h2 := hk l s1
      cases hks : k l s1 with
      | mk o2 s2 =>
        rw [hks] at h2
        cases o2 with
        | panic e => exact h2.elim
        | ok b => simp only at h2 ⊢; exact ⟨by omega, by omega, by omega, h2.2.2.2.trans h1.2.2.2⟩
        | err e =>
          simp only at h2 ⊢
          have := mul_split A s.buf.length s1.buf.length h1.2.1 hA
          omega

end ScyllaVerif.C08

import ScyllaVerif.Model.C08Tablet
/-
C08 — `RawTablet::from_custom_payload` never panics, and apart from the panic sites it IS C15's `parsePayload`.
-/
namespace ScyllaVerif.C08T
open ScyllaVerif.Tablets

def lift : Except PayloadErr α → Out α
  | .ok a => .ok a
  | .error e => .err e

theorem beNat_lt_aux : ∀ (bs : List UInt8) (acc : Nat),
    bs.foldl (fun a b => a * 256 + b.toNat) acc < (acc + 1) * 256 ^ bs.length
  | [], acc => by simp
  | b :: rest, acc => by
    simp only [List.foldl_cons, List.length_cons]
    have ih := beNat_lt_aux rest (acc * 256 + b.toNat)
    have hb := b.toNat_lt
    have h2 : (acc * 256 + b.toNat + 1) * 256 ^ rest.length ≤ ((acc + 1) * 256) * 256 ^ rest.length :=
      Nat.mul_le_mul_right _ (by omega)
    have h3 : ((acc + 1) * 256) * 256 ^ rest.length = (acc + 1) * 256 ^ (rest.length + 1) := by
      rw [Nat.pow_succ, Nat.mul_assoc, Nat.mul_comm 256]
    omega

/-- An 8-byte big-endian two's complement number is an `i64`. -/
theorem beInt8_range (bs : List UInt8) (h : bs.length = 8) : -2 ^ 63 ≤ beInt bs ∧ beInt bs ≤ I64_MAX := by
  have hlt : beNat bs < 2 ^ 64 := by
    have := beNat_lt_aux bs 0
    simp only [Nat.zero_add, Nat.one_mul, h] at this
    have e : (256 : Nat) ^ 8 = 2 ^ 64 := by decide
    unfold beNat; omega
  unfold beInt I64_MAX
  simp only [h]
  split <;> omega

theorem fixedField_len (n : Nat) (c : Option (List UInt8)) (b : List UInt8) (h : fixedField n c = some b) :
    b.length = n := by
  unfold fixedField at h
  cases c with
  | none => cases h
  | some x =>
    simp only at h
    split at h
    · injection h with h; subst h; assumption
    · cases h

/-- Behind `last_token > first_token` the `+ 1` cannot overflow. -/
theorem rawTabletCheckP_eq (a b : Int) (hb : b ≤ I64_MAX) (reps : List (Option (Nat × Int))) :
    rawTabletCheckP a b reps = lift (rawTabletCheck a b reps) := by
  unfold rawTabletCheckP rawTabletCheck
  split
  · rfl
  · cases collectReplicas reps with
    | error e => rfl
    | ok l =>
      simp only [lift]
      have : ¬ (a + 1 > I64_MAX) := by omega
      simp only [this, if_false]

/-- The three-outcome model equals (the lift of) C15's `parsePayload`: the panic sites are unreachable. -/
theorem parsePayloadP_eq (bs : List UInt8) : parsePayloadP bs = lift (parsePayload bs) := by
  unfold parsePayloadP parsePayload
  simp only [RAW_TABLETS_ARITY, ne_eq, not_true_eq_false, if_false, RAW_TABLETS_THIRD_IS_LIST, Bool.not_true,
    Bool.false_eq_true]
  cases h0 : tupleField bs with
  | none => rfl
  | some p0 =>
    obtain ⟨c0, v1⟩ := p0
    simp only []
    cases ha : fixedField 8 c0 with
    | none => rfl
    | some a =>
      simp only []
      cases h1 : tupleField v1 with
      | none => rfl
      | some p1 =>
        obtain ⟨c1, v2⟩ := p1
        simp only []
        cases hb : fixedField 8 c1 with
        | none => rfl
        | some b =>
          simp only []
          have hbr := (beInt8_range b (fixedField_len 8 c1 b hb)).2
          cases h2 : tupleField v2 with
          | none => rfl
          | some p2 =>
            obtain ⟨c2, v3⟩ := p2
            cases c2 with
            | none => simp only []; exact rawTabletCheckP_eq _ _ hbr _
            | some l =>
              simp only []
              cases hr : readInt l with
              | none => rfl
              | some pr =>
                obtain ⟨count, items⟩ := pr
                simp only []
                split
                · rfl
                · exact rawTabletCheckP_eq _ _ hbr _

theorem parsePayloadP_np (bs : List UInt8) (site : String) : parsePayloadP bs ≠ .panic site := by
  rw [parsePayloadP_eq]
  cases parsePayload bs <;> simp [lift]

end ScyllaVerif.C08T

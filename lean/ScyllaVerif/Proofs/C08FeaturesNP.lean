import ScyllaVerif.Model.C08Features
/-! C08 — `parse_from_supported` never panics (`Model/C08Features.lean`). -/
namespace ScyllaVerif.C08F
open ScyllaVerif ScyllaVerif.C08

def NPf {α : Type} : FOut α → Prop
  | .panic _ => False
  | .ok _ => True

theorem stripPrefixP_np (pre s : Bytes) : NPf (stripPrefixP pre s) := by
  unfold stripPrefixP
  split
  · rename_i h
    have : pre.length ≤ s.length := by
      have := congrArg List.length h
      simp [List.length_take] at this
      omega
    rw [if_neg (by omega)]; trivial
  · trivial

theorem fieldRest_np (key v : Bytes) : NPf (fieldRest key v) := by
  unfold fieldRest
  have h := stripPrefixP_np key v
  split
  · rename_i s he; rw [he] at h; exact h.elim
  · trivial
  · exact stripPrefixP_np _ _

theorem getField_np (key : Bytes) : ∀ vals, NPf (getField key vals)
  | [] => by unfold getField; trivial
  | v :: vs => by
    unfold getField
    have h := fieldRest_np key v
    split
    · rename_i s he; rw [he] at h; exact h.elim
    · trivial
    · exact getField_np key vs

theorem extField_np (ext field : Bytes) (opts : List (Bytes × List Bytes)) : NPf (extField ext field opts) := by
  unfold extField
  split
  · trivial
  · exact getField_np _ _

theorem parseFromSupported_np (opts : List (Bytes × List Bytes)) : NPf (parseFromSupported opts) := by
  unfold parseFromSupported
  have h1 := extField_np K_RATE F_CODE opts
  have h2 := extField_np K_LWT F_MASK opts
  split
  · rename_i s he; rw [he] at h1; exact h1.elim
  · split
    · rename_i s he; rw [he] at h2; exact h2.elim
    · trivial

theorem stripPrefixP_some (pre s r : Bytes) (h : stripPrefixP pre s = .ok (some r)) : s = pre ++ r := by
  unfold stripPrefixP at h
  split at h
  · rename_i hk
    split at h
    · cases h
    · injection h with h; injection h with h
      have h1 : s = s.take pre.length ++ s.drop pre.length := (List.take_append_drop _ _).symm
      rw [h1, hk, h]
  · cases h

theorem fieldRest_some (key v r : Bytes) (h : fieldRest key v = .ok (some r)) : v = key ++ 0x3D :: r := by
  unfold fieldRest at h
  cases h1 : stripPrefixP key v with
  | panic s => rw [h1] at h; cases h
  | ok o =>
    cases o with
    | none => rw [h1] at h; cases h
    | some rest =>
      rw [h1] at h; simp only [] at h
      have e1 := stripPrefixP_some _ _ _ h1
      have e2 := stripPrefixP_some _ _ _ h
      rw [e1, e2]; rfl

/-- What `getField` returns is the rest of the FIRST field that starts with `key=`: a field that only shares the
prefix (`ERROR_CODE2=7`) or is the bare key is skipped. -/
theorem getField_some (key : Bytes) : ∀ (vals : List Bytes) (r : Bytes), getField key vals = .ok (some r) →
    ∃ pre v post, vals = pre ++ v :: post ∧ v = key ++ 0x3D :: r ∧ ∀ w ∈ pre, fieldRest key w = .ok none
  | [], r, h => by simp [getField] at h
  | v :: vs, r, h => by
    unfold getField at h
    cases hf : fieldRest key v with
    | panic s => have := fieldRest_np key v; rw [hf] at this; exact this.elim
    | ok o =>
      cases o with
      | some r' =>
        rw [hf] at h; simp only [] at h
        injection h with h; injection h with h; subst h
        refine ⟨[], v, vs, rfl, ?_, by simp⟩
        exact fieldRest_some _ _ _ hf
      | none =>
        rw [hf] at h; simp only [] at h
        obtain ⟨pre, w, post, e1, e2, e3⟩ := getField_some key vs r h
        refine ⟨v :: pre, w, post, by rw [e1]; rfl, e2, ?_⟩
        intro x hx
        cases hx with
        | head => exact hf
        | tail _ hx => exact e3 x hx

end ScyllaVerif.C08F

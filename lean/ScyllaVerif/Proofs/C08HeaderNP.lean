import ScyllaVerif.Model.FrameHdr
/-
C08 — the fixed 9-byte header reads (`Buf::get_u8 / get_i16 / get_u32` after `read_exact`) never panic:
`parseFrameP` is `parseFrame`.
-/
namespace ScyllaVerif.C08

def liftHdr : Except String Header → Outcome Header
  | .ok h => .ok h
  | .error k => .err k

private theorem bufGet_ok (n : Nat) (cur : Bytes) (h : n ≤ cur.length) :
    bufGet n cur = .ok (cur.take n, cur.drop n) := by
  unfold bufGet
  have : ¬ cur.length < n := by omega
  simp [this]

/-- Five reads of 1 + 1 + 2 + 1 + 4 = 9 bytes from a 9-byte slice: none can run short. -/
theorem parseFrameP_eq (bs : Bytes) : parseFrameP bs = liftHdr (parseFrame bs) := by
  unfold parseFrameP parseFrame
  by_cases hl : bs.length < HEADER_SIZE
  · simp [hl, liftHdr]
  · simp only [hl, if_false]
    have h9 : 9 ≤ bs.length := by unfold HEADER_SIZE at hl; omega
    -- the nine header bytes
    obtain ⟨b0, b1, b2, b3, b4, b5, b6, b7, b8, tl, rfl⟩ :
        ∃ b0 b1 b2 b3 b4 b5 b6 b7 b8 tl, bs = b0 :: b1 :: b2 :: b3 :: b4 :: b5 :: b6 :: b7 :: b8 :: tl := by
      match bs, h9 with
      | b0 :: b1 :: b2 :: b3 :: b4 :: b5 :: b6 :: b7 :: b8 :: tl, _ => exact ⟨_, _, _, _, _, _, _, _, _, _, rfl⟩
    have g1 : bufGet 1 [b0, b1, b2, b3, b4, b5, b6, b7, b8] = .ok ([b0], [b1, b2, b3, b4, b5, b6, b7, b8]) := by
      unfold bufGet; simp
    have g2 : bufGet 1 [b1, b2, b3, b4, b5, b6, b7, b8] = .ok ([b1], [b2, b3, b4, b5, b6, b7, b8]) := by
      unfold bufGet; simp
    have g3 : bufGet 2 [b2, b3, b4, b5, b6, b7, b8] = .ok ([b2, b3], [b4, b5, b6, b7, b8]) := by
      unfold bufGet; simp
    have g4 : bufGet 1 [b4, b5, b6, b7, b8] = .ok ([b4], [b5, b6, b7, b8]) := by
      unfold bufGet; simp
    have g5 : bufGet 4 [b5, b6, b7, b8] = .ok ([b5, b6, b7, b8], []) := by
      unfold bufGet; simp
    simp only [HEADER_SIZE, List.take, g1, g2, g3, g4, g5, List.drop, List.getD_cons_zero, List.getD_cons_succ,
      beNat, List.foldl, Nat.zero_mul, Nat.zero_add]
    split
    · simp [liftHdr]
    · split
      · simp [liftHdr]
      · split
        · simp [liftHdr]
        · split <;> simp [liftHdr]

theorem parseFrameP_np (bs : Bytes) (site : String) : parseFrameP bs ≠ .panic site := by
  rw [parseFrameP_eq]
  cases parseFrame bs <;> simp [liftHdr]

end ScyllaVerif.C08

/-
Helper lemmas for the C01 theorems about the normalised equality of the varint carriers
(`Model/C01VarintNorm.lean`).
-/
import ScyllaVerif.Model.C01VarintNorm

namespace ScyllaVerif.Proofs.VarintNorm
open ScyllaVerif.VarintNorm

theorem dropZeros_length_le (d : List UInt8) : (dropZeros d).length ≤ d.length := by
  induction d with
  | nil => simp [dropZeros]
  | cons b bs ih =>
    simp only [dropZeros]
    split
    · simp only [List.length_cons]; omega
    · simp

theorem natBE_dropZeros (d : List UInt8) : natBE (dropZeros d) = natBE d := by
  induction d with
  | nil => rfl
  | cons b bs ih =>
    simp only [dropZeros]
    split
    · next h => simp [natBE, h, ih]
    · rfl

theorem natBE_lt (d : List UInt8) : natBE d < 256 ^ d.length := by
  induction d with
  | nil => simp [natBE]
  | cons b bs ih =>
    simp only [natBE, List.length_cons, Nat.pow_succ]
    have hb : b.toNat < 256 := UInt8.toNat_lt b
    have : b.toNat * 256 ^ bs.length ≤ 255 * 256 ^ bs.length := Nat.mul_le_mul_right _ (by omega)
    omega

/-- The first byte of what `dropZeros` leaves is not zero. -/
theorem dropZeros_head (d : List UInt8) (b : UInt8) (rest : List UInt8) (h : dropZeros d = b :: rest) :
    b.toNat ≠ 0 := by
  induction d with
  | nil => simp [dropZeros] at h
  | cons c cs ih =>
    simp only [dropZeros] at h
    split at h
    · exact ih h
    · next hc => cases h; exact hc

/-- Normalisation does not change the integer the bytes stand for. -/
theorem toInt_normalize (d : List UInt8) : toInt (normalize d) = toInt d := by
  cases d with
  | nil => simp [normalize, toInt, natBE]
  | cons c r =>
    by_cases hc : c.toNat = 0
    · have hd : dropZeros (c :: r) = dropZeros r := by simp [dropZeros, hc]
      have hlen := dropZeros_length_le r
      have hnat := natBE_dropZeros r
      have ht : toInt (c :: r) = (natBE r : Int) := by simp [toInt, natBE, hc]
      simp only [normalize, List.isEmpty_cons, hd, Bool.false_eq_true, if_false]
      cases hz : dropZeros r with
      | nil =>
        rw [hz] at hnat
        rw [ht, ← hnat]; simp [toInt, natBE]
      | cons b rest =>
        rw [hz] at hlen hnat
        have hpos : (c :: r).length - (b :: rest).length > 0 := by
          simp only [List.length_cons] at hlen ⊢; omega
        simp only [hpos, if_true]
        split
        · rw [ht, ← hnat]; simp [toInt, natBE]
        · next hb =>
          rw [ht, ← hnat]
          have : ¬ b.toNat ≥ 128 := by omega
          simp [toInt, this]
    · have hd : dropZeros (c :: r) = c :: r := by simp [dropZeros, hc]
      simp [normalize, hd]

theorem normalize_ne_nil (d : List UInt8) : normalize d ≠ [] := by
  unfold normalize
  split
  · simp
  · next hne =>
    split
    · simp
    · split
      · split <;> simp
      · intro h; simp [h] at hne

theorem varintEq_iff (a b : List UInt8) : varintEq a b = true ↔ normalize a = normalize b := by
  simp [varintEq]

theorem varintEq_sound (a b : List UInt8) (h : varintEq a b = true) : toInt a = toInt b := by
  rw [← toInt_normalize a, ← toInt_normalize b, (varintEq_iff a b).1 h]

/-! ### collect into a hash set / map -/

theorem insertSet_new (x : List UInt8) (acc : List (List UInt8)) (h : ∀ y ∈ acc, varintEq y x = false) :
    insertSet x acc = acc ++ [x] := by
  induction acc with
  | nil => rfl
  | cons y ys ih =>
    have hy := h y (by simp)
    simp only [insertSet, hy, Bool.false_eq_true, if_false, List.cons_append]
    rw [ih (fun z hz => h z (by simp [hz]))]

theorem foldl_insertSet_distinct (xs acc : List (List UInt8))
    (h : (acc ++ xs).Pairwise (fun a b => varintEq a b = false)) :
    xs.foldl (fun acc x => insertSet x acc) acc = acc ++ xs := by
  induction xs generalizing acc with
  | nil => simp
  | cons x xs ih =>
    have h1 : ∀ y ∈ acc, varintEq y x = false := by
      intro y hy
      exact (List.pairwise_append.1 h).2.2 y hy x (by simp)
    simp only [List.foldl_cons, insertSet_new x acc h1]
    rw [ih (acc ++ [x]) (by simpa using h)]
    simp

theorem insertSet_mem_old (x : List UInt8) (acc : List (List UInt8)) (y : List UInt8) (hy : y ∈ acc) :
    y ∈ insertSet x acc := by
  induction acc with
  | nil => cases hy
  | cons z zs ih =>
    simp only [insertSet]
    split
    · exact hy
    · rcases List.mem_cons.1 hy with h | h
      · simp [h]
      · exact List.mem_cons_of_mem _ (ih h)

theorem insertSet_cover (x : List UInt8) (acc : List (List UInt8)) :
    ∃ y ∈ insertSet x acc, normalize y = normalize x := by
  induction acc with
  | nil => exact ⟨x, by simp [insertSet], rfl⟩
  | cons z zs ih =>
    simp only [insertSet]
    split
    · next h => exact ⟨z, by simp, (varintEq_iff z x).1 h⟩
    · obtain ⟨y, hy, he⟩ := ih
      exact ⟨y, List.mem_cons_of_mem _ hy, he⟩

theorem foldl_insertSet_mem_old (xs acc : List (List UInt8)) (y : List UInt8) (hy : y ∈ acc) :
    y ∈ xs.foldl (fun acc x => insertSet x acc) acc := by
  induction xs generalizing acc with
  | nil => exact hy
  | cons x xs ih => exact ih _ (insertSet_mem_old x acc y hy)

theorem foldl_insertSet_cover (xs acc : List (List UInt8)) (x : List UInt8) (hx : x ∈ xs) :
    ∃ y ∈ xs.foldl (fun acc x => insertSet x acc) acc, normalize y = normalize x := by
  induction xs generalizing acc with
  | nil => cases hx
  | cons z zs ih =>
    rcases List.mem_cons.1 hx with h | h
    · subst h
      obtain ⟨y, hy, he⟩ := insertSet_cover x acc
      exact ⟨y, foldl_insertSet_mem_old zs _ y hy, he⟩
    · exact ih _ h

theorem insertMap_new {α : Type} (kv : List UInt8 × α) (acc : List (List UInt8 × α))
    (h : ∀ e ∈ acc, varintEq e.1 kv.1 = false) : insertMap kv acc = acc ++ [kv] := by
  induction acc with
  | nil => rfl
  | cons y ys ih =>
    have hy := h y (by simp)
    simp only [insertMap, hy, Bool.false_eq_true, if_false, List.cons_append]
    rw [ih (fun z hz => h z (by simp [hz]))]

theorem foldl_insertMap_distinct {α : Type} (xs acc : List (List UInt8 × α))
    (h : (acc ++ xs).Pairwise (fun a b => varintEq a.1 b.1 = false)) :
    xs.foldl (fun acc x => insertMap x acc) acc = acc ++ xs := by
  induction xs generalizing acc with
  | nil => simp
  | cons x xs ih =>
    have h1 : ∀ y ∈ acc, varintEq y.1 x.1 = false := by
      intro y hy
      exact (List.pairwise_append.1 h).2.2 y hy x (by simp)
    simp only [List.foldl_cons, insertMap_new x acc h1]
    rw [ih (acc ++ [x]) (by simpa using h)]
    simp

/-! ### minimal encodings: `toInt` is injective on them -/

/-- The minimal two's-complement encoding (what `BigInt::to_signed_bytes_be` and the driver's own integer
conversions write): at least one byte, no redundant leading 0x00 (before a byte < 0x80) and no redundant
leading 0xff (before a byte ≥ 0x80).  The empty string (which the code treats as 0) is not minimal: 0 is `[00]`. -/
def minimalVarint : List UInt8 → Bool
  | [] => false
  | [_] => true
  | b :: c :: _ => !(b.toNat = 0 && c.toNat < 128) && !(b.toNat = 255 && 128 ≤ c.toNat)

theorem toInt_bounds (b : UInt8) (rest : List UInt8) :
    -((128 * 256 ^ rest.length : Nat) : Int) ≤ toInt (b :: rest) ∧
      toInt (b :: rest) < ((128 * 256 ^ rest.length : Nat) : Int) := by
  have hr := natBE_lt rest
  have hb : b.toNat < 256 := UInt8.toNat_lt b
  simp only [toInt, natBE, Nat.pow_succ]
  generalize 256 ^ rest.length = P at *
  generalize natBE rest = r at *
  have h1 : b.toNat * P ≤ 255 * P := Nat.mul_le_mul_right _ (by omega)
  split
  · next h =>
    have h2 : 128 * P ≤ b.toNat * P := Nat.mul_le_mul_right _ h
    generalize b.toNat * P = t at *
    omega
  · next h =>
    have h2 : b.toNat * P ≤ 127 * P := Nat.mul_le_mul_right _ (by omega)
    generalize b.toNat * P = t at *
    omega

theorem toInt_minimal_big (b c : UInt8) (r : List UInt8) (hm : minimalVarint (b :: c :: r) = true) :
    ((128 * 256 ^ r.length : Nat) : Int) ≤ toInt (b :: c :: r) ∨
      toInt (b :: c :: r) < -((128 * 256 ^ r.length : Nat) : Int) := by
  have hr := natBE_lt r
  have hb : b.toNat < 256 := UInt8.toNat_lt b
  have hc : c.toNat < 256 := UInt8.toNat_lt c
  simp only [minimalVarint, Bool.and_eq_true, Bool.not_eq_true', Bool.and_eq_false_iff, decide_eq_false_iff_not] at hm
  simp only [toInt, natBE, List.length_cons, Nat.pow_succ]
  generalize 256 ^ r.length = Q at *
  generalize natBE r = n at *
  have e1 : b.toNat * (Q * 256) = b.toNat * Q * 256 := (Nat.mul_assoc _ _ _).symm
  rw [e1]
  have hcU : c.toNat * Q ≤ 255 * Q := Nat.mul_le_mul_right _ (by omega)
  have hbU : b.toNat * Q ≤ 255 * Q := Nat.mul_le_mul_right _ (by omega)
  by_cases hb0 : b.toNat = 0
  · have hc128 : 128 ≤ c.toNat := by omega
    have h2 : 128 * Q ≤ c.toNat * Q := Nat.mul_le_mul_right _ hc128
    simp only [hb0]
    generalize c.toNat * Q = w at *
    left; simp; omega
  · by_cases hlt : b.toNat < 128
    · have h2 : 1 * Q ≤ b.toNat * Q := Nat.mul_le_mul_right _ (by omega)
      have : ¬ b.toNat ≥ 128 := by omega
      simp only [this, if_false]
      generalize c.toNat * Q = w at *
      generalize b.toNat * Q = u at *
      left; omega
    · have hge : b.toNat ≥ 128 := by omega
      simp only [hge, if_true]
      by_cases h255 : b.toNat = 255
      · have hc128 : c.toNat < 128 := by omega
        have h2 : c.toNat * Q ≤ 127 * Q := Nat.mul_le_mul_right _ (by omega)
        simp only [h255]
        generalize c.toNat * Q = w at *
        right; omega
      · have h2 : b.toNat * Q ≤ 254 * Q := Nat.mul_le_mul_right _ (by omega)
        generalize c.toNat * Q = w at *
        generalize b.toNat * Q = u at *
        right; omega

theorem minimal_length_le (a b : List UInt8) (ha : minimalVarint a = true) (hb : minimalVarint b = true)
    (h : toInt a = toInt b) : a.length ≤ b.length := by
  match a, b with
  | [], _ => simp [minimalVarint] at ha
  | _, [] => simp [minimalVarint] at hb
  | [_], _ :: _ => simp
  | x :: y :: r, z :: s =>
    by_cases hl : s.length ≤ r.length
    · exfalso
      have hp : 256 ^ s.length ≤ 256 ^ r.length := Nat.pow_le_pow_right (by omega) hl
      have h1 := toInt_bounds z s
      have h2 := toInt_minimal_big x y r ha
      rw [h] at h2
      generalize 256 ^ s.length = S at *
      generalize 256 ^ r.length = R at *
      omega
    · simp only [List.length_cons]; omega

theorem natBE_inj (a b : List UInt8) (hl : a.length = b.length) (h : natBE a = natBE b) : a = b := by
  induction a generalizing b with
  | nil => cases b with
    | nil => rfl
    | cons _ _ => simp at hl
  | cons x xs ih =>
    cases b with
    | nil => simp at hl
    | cons y ys =>
      have hl' : xs.length = ys.length := by simpa using hl
      have hx := natBE_lt xs
      have hy := natBE_lt ys
      simp only [natBE] at h
      rw [hl'] at h hx
      generalize 256 ^ ys.length = P at *
      have hxy : x.toNat = y.toNat := by
        rcases Nat.lt_trichotomy x.toNat y.toNat with hlt | heq | hgt
        · have : (x.toNat + 1) * P ≤ y.toNat * P := Nat.mul_le_mul_right _ hlt
          rw [Nat.add_mul] at this
          generalize x.toNat * P = u at *
          generalize y.toNat * P = v at *
          omega
        · exact heq
        · have : (y.toNat + 1) * P ≤ x.toNat * P := Nat.mul_le_mul_right _ hgt
          rw [Nat.add_mul] at this
          generalize x.toNat * P = u at *
          generalize y.toNat * P = v at *
          omega
      rw [hxy] at h
      have hn : natBE xs = natBE ys := by omega
      rw [UInt8.toNat_inj.1 hxy, ih ys hl' hn]

theorem toInt_inj_same_length (a b : List UInt8) (hl : a.length = b.length) (h : toInt a = toInt b) : a = b := by
  match a, b with
  | [], [] => rfl
  | [], _ :: _ => simp at hl
  | _ :: _, [] => simp at hl
  | x :: xs, y :: ys =>
    have hl' : xs.length = ys.length := by simpa using hl
    have hx := natBE_lt (x :: xs)
    have hy := natBE_lt (y :: ys)
    apply natBE_inj _ _ hl
    simp only [toInt, hl'] at h
    simp only [List.length_cons, hl'] at hx hy
    generalize natBE (x :: xs) = p at *
    generalize natBE (y :: ys) = q at *
    generalize 256 ^ (ys.length + 1) = P at *
    split at h <;> split at h <;> omega

/-- Two minimal encodings of the same integer are the same bytes. -/
theorem toInt_inj_minimal (a b : List UInt8) (ha : minimalVarint a = true) (hb : minimalVarint b = true)
    (h : toInt a = toInt b) : a = b :=
  toInt_inj_same_length a b
    (Nat.le_antisymm (minimal_length_le a b ha hb h) (minimal_length_le b a hb ha h.symm)) h

end ScyllaVerif.Proofs.VarintNorm

/-
Helper lemmas for the C01 theorems about the normalised equality of the varint carriers
(`Model/C01VarintNorm.lean`).
-/
import ScyllaVerif.Model.C01VarintNorm

namespace ScyllaVerif.Proofs.VarintNorm
open ScyllaVerif.VarintNorm

theorem dropZeros_length_le (d : List UInt8) : (dropZeros d).length ≤ d.length := by
  induction d with
  | nil => simp [dropZeros]
  | cons b bs ih =>
    simp only [dropZeros]
    split
    · simp only [List.length_cons]; omega
    · simp

theorem natBE_dropZeros (d : List UInt8) : natBE (dropZeros d) = natBE d := by
  induction d with
  | nil => rfl
  | cons b bs ih =>
    simp only [dropZeros]
    split
    · next h => simp [natBE, h, ih]
    · rfl

theorem natBE_lt (d : List UInt8) : natBE d < 256 ^ d.length := by
  induction d with
  | nil => simp [natBE]
  | cons b bs ih =>
    simp only [natBE, List.length_cons, Nat.pow_succ]
    have hb : b.toNat < 256 := UInt8.toNat_lt b
    have : b.toNat * 256 ^ bs.length ≤ 255 * 256 ^ bs.length := Nat.mul_le_mul_right _ (by omega)
    omega

/-- The first byte of what `dropZeros` leaves is not zero. -/
theorem dropZeros_head (d : List UInt8) (b : UInt8) (rest : List UInt8) (h : dropZeros d = b :: rest) :
    b.toNat ≠ 0 := by
  induction d with
  | nil => simp [dropZeros] at h
  | cons c cs ih =>
    simp only [dropZeros] at h
    split at h
    · exact ih h
    · next hc => cases h; exact hc

/-- Normalisation does not change the integer the bytes stand for. -/
theorem toInt_normalize (d : List UInt8) : toInt (normalize d) = toInt d := by
  cases d with
  | nil => simp [normalize, toInt, natBE]
  | cons c r =>
    by_cases hc : c.toNat = 0
    · have hd : dropZeros (c :: r) = dropZeros r := by simp [dropZeros, hc]
      have hlen := dropZeros_length_le r
      have hnat := natBE_dropZeros r
      have ht : toInt (c :: r) = (natBE r : Int) := by simp [toInt, natBE, hc]
      simp only [normalize, List.isEmpty_cons, hd, Bool.false_eq_true, if_false]
      cases hz : dropZeros r with
      | nil =>
        rw [hz] at hnat
        rw [ht, ← hnat]; simp [toInt, natBE]
      | cons b rest =>
        rw [hz] at hlen hnat
        have hpos : (c :: r).length - (b :: rest).length > 0 := by
          simp only [List.length_cons] at hlen ⊢; omega
        simp only [hpos, if_true]
        split
        · rw [ht, ← hnat]; simp [toInt, natBE]
        · next hb =>
          rw [ht, ← hnat]
          have : ¬ b.toNat ≥ 128 := by omega
          simp [toInt, this]
    · have hd : dropZeros (c :: r) = c :: r := by simp [dropZeros, hc]
      simp [normalize, hd]

theorem normalize_ne_nil (d : List UInt8) : normalize d ≠ [] := by
  unfold normalize
  split
  · simp
  · next hne =>
    split
    · simp
    · split
      · split <;> simp
      · intro h; simp [h] at hne

theorem varintEq_iff (a b : List UInt8) : varintEq a b = true ↔ normalize a = normalize b := by
  simp [varintEq]

theorem varintEq_sound (a b : List UInt8) (h : varintEq a b = true) : toInt a = toInt b := by
  rw [← toInt_normalize a, ← toInt_normalize b, (varintEq_iff a b).1 h]

/-! ### collect into a hash set / map -/

theorem insertSet_new (x : List UInt8) (acc : List (List UInt8)) (h : ∀ y ∈ acc, varintEq y x = false) :
    insertSet x acc = acc ++ [x] := by
  induction acc with
  | nil => rfl
  | cons y ys ih =>
    have hy := h y (by simp)
    simp only [insertSet, hy, Bool.false_eq_true, if_false, List.cons_append]
    rw [ih (fun z hz => h z (by simp [hz]))]

theorem foldl_insertSet_distinct (xs acc : List (List UInt8))
    (h : (acc ++ xs).Pairwise (fun a b => varintEq a b = false)) :
    xs.foldl (fun acc x => insertSet x acc) acc = acc ++ xs := by
  induction xs generalizing acc with
  | nil => simp
  | cons x xs ih =>
    have h1 : ∀ y ∈ acc, varintEq y x = false := by
      intro y hy
      exact (List.pairwise_append.1 h).2.2 y hy x (by simp)
    simp only [List.foldl_cons, insertSet_new x acc h1]
    rw [ih (acc ++ [x]) (by simpa using h)]
    simp

theorem insertSet_mem_old (x : List UInt8) (acc : List (List UInt8)) (y : List UInt8) (hy : y ∈ acc) :
    y ∈ insertSet x acc := by
  induction acc with
  | nil => cases hy
  | cons z zs ih =>
    simp only [insertSet]
    split
    · exact hy
    · rcases List.mem_cons.1 hy with h | h
      · simp [h]
      · exact List.mem_cons_of_mem _ (ih h)

theorem insertSet_cover (x : List UInt8) (acc : List (List UInt8)) :
    ∃ y ∈ insertSet x acc, normalize y = normalize x := by
  induction acc with
  | nil => exact ⟨x, by simp [insertSet], rfl⟩
  | cons z zs ih =>
    simp only [insertSet]
    split
    · next h => exact ⟨z, by simp, (varintEq_iff z x).1 h⟩
    · obtain ⟨y, hy, he⟩ := ih
      exact ⟨y, List.mem_cons_of_mem _ hy, he⟩

theorem foldl_insertSet_mem_old (xs acc : List (List UInt8)) (y : List UInt8) (hy : y ∈ acc) :
    y ∈ xs.foldl (fun acc x => insertSet x acc) acc := by
  induction xs generalizing acc with
  | nil => exact hy
  | cons x xs ih => exact ih _ (insertSet_mem_old x acc y hy)

theorem foldl_insertSet_cover (xs acc : List (List UInt8)) (x : List UInt8) (hx : x ∈ xs) :
    ∃ y ∈ xs.foldl (fun acc x => insertSet x acc) acc, normalize y = normalize x := by
  induction xs generalizing acc with
  | nil => cases hx
  | cons z zs ih =>
    rcases List.mem_cons.1 hx with h | h
    · subst h
      obtain ⟨y, hy, he⟩ := insertSet_cover x acc
      exact ⟨y, foldl_insertSet_mem_old zs _ y hy, he⟩
    · exact ih _ h

theorem insertMap_new {α : Type} (kv : List UInt8 × α) (acc : List (List UInt8 × α))
    (h : ∀ e ∈ acc, varintEq e.1 kv.1 = false) : insertMap kv acc = acc ++ [kv] := by
  induction acc with
  | nil => rfl
  | cons y ys ih =>
    have hy := h y (by simp)
    simp only [insertMap, hy, Bool.false_eq_true, if_false, List.cons_append]
    rw [ih (fun z hz => h z (by simp [hz]))]

theorem foldl_insertMap_distinct {α : Type} (xs acc : List (List UInt8 × α))
    (h : (acc ++ xs).Pairwise (fun a b => varintEq a.1 b.1 = false)) :
    xs.foldl (fun acc x => insertMap x acc) acc = acc ++ xs := by
  induction xs generalizing acc with
  | nil => simp
  | cons x xs ih =>
    have h1 : ∀ y ∈ acc, varintEq y.1 x.1 = false := by
      intro y hy
      exact (List.pairwise_append.1 h).2.2 y hy x (by simp)
    simp only [List.foldl_cons, insertMap_new x acc h1]
    rw [ih (acc ++ [x]) (by simpa using h)]
    simp

end ScyllaVerif.Proofs.VarintNorm

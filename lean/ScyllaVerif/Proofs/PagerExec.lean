/-
Lemmas about C06's execution-core model (`Model/Exec.lean`) as used by the pager (`Model/PagerExec.lean`):
which target every attempt goes to, that a fetch over a non-empty plan of connected nodes sends a request,
the plan of a page fetch, coordinator stability along the fetches of an iteration. Used by `Props/C07.lean`.
-/
import ScyllaVerif.Model.PagerExec
set_option linter.unusedSimpArgs false
namespace ScyllaVerif.PagerExec
open ScyllaVerif.Retry ScyllaVerif.Exec

/-- Every target of the plan always yields a connection (the harness's clusters: all pools connected). -/
def AllAvail (plan : List Target) : Prop := ∀ av ∈ plan, ∀ j, av j = true

theorem allAvail_tail {av : Target} {rest : List Target} (h : AllAvail (av :: rest)) : AllAvail rest :=
  fun a ha j => h a (List.mem_cons_of_mem _ ha) j

theorem allAvail_next {av : Target} {rest : List Target} (h : AllAvail (av :: rest)) : AllAvail (av.next :: rest) := by
  intro a ha j
  rcases List.mem_cons.mp ha with rfl | ha
  · exact h av (List.mem_cons_self) (j + 1)
  · exact h a (List.mem_cons_of_mem _ ha) j

/-- What a retry decision says about the target of the next attempt. -/
def StepOk (d : Decision) (a b : Exec.Attempt) : Prop :=
  match d with
  | .retrySame _ => b.target = a.target
  | .retryNext _ => b.target = a.target + 1
  | _ => False

/-- Consecutive attempts are linked by the decision taken on the earlier one. -/
def Chained : List Exec.Attempt → List Decision → Prop
  | a :: b :: as, d :: ds => StepOk d a b ∧ Chained (b :: as) ds
  | _, _ => True

structure ExecShape (t : Nat) (plan : List Target) (tr : Trace) : Prop where
  head : tr.attempts = [] ∨ ∃ a as, tr.attempts = a :: as ∧ a.target = t
  range : ∀ a ∈ tr.attempts, t ≤ a.target ∧ a.target < t + plan.length
  chained : Chained tr.attempts tr.decisions

theorem exec_shape {σ : Type} (P : PolicyFn σ) (idem : Bool) (outcomes : Nat → Outcome) :
    ∀ (fuel : Nat) (plan : List Target) (t : Nat) (loc : Loc σ), AllAvail plan →
      ExecShape t plan (exec P idem outcomes fuel plan t loc) := by
  intro fuel
  induction fuel with
  | zero =>
    intro plan t loc _
    cases plan <;> exact ⟨Or.inl (by simp [exec]), by simp [exec], by simp [exec, Chained]⟩
  | succ fuel ih =>
    intro plan t loc hav
    cases plan with
    | nil => exact ⟨Or.inl (by simp [exec]), by simp [exec], by simp [exec, Chained]⟩
    | cons av rest =>
      have h0 : av 0 = true := hav av List.mem_cons_self 0
      unfold exec
      simp only [h0, Bool.true_eq_false, if_false]
      split
      · -- ok
        exact ⟨Or.inr ⟨_, _, rfl, rfl⟩, by simp, by simp [Chained]⟩
      · next e he =>
        let loc' : Loc σ := ⟨loc.k + 1, (P.decide (loc.sess.getD P.init) ⟨e, idem, loc.cl⟩).2.newCl.getD loc.cl,
          some (P.decide (loc.sess.getD P.init) ⟨e, idem, loc.cl⟩).1, some (.attempt e)⟩
        split
        · next c hd =>
          -- retry on the same target
          have r := ih (av.next :: rest) t loc' (allAvail_next hav)
          refine ⟨Or.inr ⟨_, _, rfl, rfl⟩, ?_, ?_⟩
          · intro a ha
            simp only [Trace.push, List.mem_cons] at ha
            rcases ha with rfl | ha
            · simp
            · have := r.range a ha; simpa using this
          · simp only [Trace.push]
            rcases r.head with h | ⟨b, bs, hb, hbt⟩
            · rw [h]; simp [Chained]
            · rw [hb]
              refine ⟨?_, ?_⟩
              · simp [StepOk, hd, hbt]
              · rw [← hb]; exact r.chained
        · next c hd =>
          -- retry on the next target
          have r := ih rest (t + 1) loc' (allAvail_tail hav)
          refine ⟨Or.inr ⟨_, _, rfl, rfl⟩, ?_, ?_⟩
          · intro a ha
            simp only [Trace.push, List.mem_cons] at ha
            rcases ha with rfl | ha
            · simp
            · have := r.range a ha; simp only [List.length_cons]; omega
          · simp only [Trace.push]
            rcases r.head with h | ⟨b, bs, hb, hbt⟩
            · rw [h]; simp [Chained]
            · rw [hb]
              refine ⟨?_, ?_⟩
              · simp [StepOk, hd, hbt]
              · rw [← hb]; exact r.chained
        · exact ⟨Or.inr ⟨_, _, rfl, rfl⟩, by simp, by simp [Chained]⟩
        · exact ⟨Or.inr ⟨_, _, rfl, rfl⟩, by simp, by simp [Chained]⟩


/-- A fetch over a non-empty plan of connected targets sends at least one request. -/
theorem exec_sends {σ : Type} (P : PolicyFn σ) (idem : Bool) (outcomes : Nat → Outcome) (fuel : Nat)
    (av : Target) (rest : List Target) (t : Nat) (loc : Loc σ) (h : av 0 = true) :
    (exec P idem outcomes (fuel + 1) (av :: rest) t loc).attempts ≠ [] := by
  unfold exec
  simp only [h, Bool.true_eq_false, if_false]
  split
  · simp
  · split <;> simp [Trace.push]

theorem allAvail_map (plan : List Nat) : AllAvail (plan.map fun _ => Target.always) := by
  intro av hav j
  simp only [List.mem_map] at hav
  obtain ⟨_, _, rfl⟩ := hav
  rfl

/-- The real execution core on a plan of connected nodes: shape of the trace. -/
theorem run_shape (pol : Policy) (idem : Bool) (cl : Consistency) (plan : List Nat) (outs : Nat → Outcome) :
    ExecShape 0 (plan.map fun _ => Target.always) (Exec.run pol idem cl (plan.map fun _ => Target.always) outs) :=
  exec_shape _ idem outs _ _ 0 _ (allAvail_map plan)

theorem run_sends (pol : Policy) (idem : Bool) (cl : Consistency) (plan : List Nat) (outs : Nat → Outcome)
    (h : plan ≠ []) : (Exec.run pol idem cl (plan.map fun _ => Target.always) outs).attempts ≠ [] := by
  cases plan with
  | nil => exact absurd rfl h
  | cons c rest =>
    simp only [Exec.run, runWith, List.map_cons, List.length_cons, List.length_map]
    have : rest.length + 1 + sameTargetBound pol + 1 = (rest.length + 1 + sameTargetBound pol) + 1 := rfl
    rw [this]
    exact exec_sends _ idem outs _ _ _ 0 _ rfl

/-! ### the plan of a page fetch -/

theorem pagePlan_nodup (coord : Option Nat) (lb : List Nat) (h : lb.Nodup) : (pagePlan coord lb).Nodup := by
  cases coord with
  | none => exact h
  | some c =>
    simp only [pagePlan, List.nodup_cons]
    refine ⟨?_, h.filter _⟩
    intro hm
    have := (List.mem_filter.mp hm).2
    simp at this

theorem pagePlan_head (c : Nat) (lb : List Nat) : (pagePlan (some c) lb).getD 0 0 = c := by
  simp [pagePlan]

/-! ### nodes of the requests of one fetch -/

/-- Consecutive requests of a fetch: after `RetrySameTarget` the same node, after `RetryNextTarget` a
different one. -/
def NodeStep (d : Decision) (x y : Nat) : Prop :=
  match d with
  | .retrySame _ => y = x
  | .retryNext _ => y ≠ x
  | _ => False

def NodesChained : List Nat → List Decision → Prop
  | x :: y :: xs, d :: ds => NodeStep d x y ∧ NodesChained (y :: xs) ds
  | _, _ => True

private theorem getD_ne_of_nodup {plan : List Nat} (h : plan.Nodup) {i j : Nat} (hi : i < plan.length)
    (hj : j < plan.length) (hij : i ≠ j) : plan.getD i 0 ≠ plan.getD j 0 := by
  intro heq
  simp only [List.getD_eq_getElem?_getD, List.getElem?_eq_getElem hi, List.getElem?_eq_getElem hj,
    Option.getD_some] at heq
  have hp := List.pairwise_iff_getElem.mp h
  rcases Nat.lt_trichotomy i j with hlt | he | hgt
  · exact hp i j hi hj hlt heq
  · exact hij he
  · exact hp j i hj hi hgt heq.symm

theorem nodes_chained_of (plan : List Nat) (hnd : plan.Nodup) :
    ∀ (as : List Exec.Attempt) (ds : List Decision), Chained as ds → (∀ a ∈ as, a.target < plan.length) →
      NodesChained (as.map fun a => plan.getD a.target 0) ds := by
  intro as
  induction as with
  | nil => intro ds _ _; simp [NodesChained]
  | cons a as ih =>
    intro ds hc hr
    cases as with
    | nil => simp [NodesChained]
    | cons b bs =>
      cases ds with
      | nil => simp [NodesChained]
      | cons d ds =>
        obtain ⟨h1, h2⟩ := hc
        have ha := hr a List.mem_cons_self
        have hb := hr b (List.mem_cons_of_mem _ List.mem_cons_self)
        refine ⟨?_, ih ds h2 (fun x hx => hr x (List.mem_cons_of_mem _ hx))⟩
        unfold StepOk at h1
        unfold NodeStep
        split at h1
        · show plan.getD b.target 0 = plan.getD a.target 0
          rw [h1]
        · exact getD_ne_of_nodup hnd hb ha (by omega)
        · exact h1

/-- For a real fetch (the execution core run over `pagePlan coord lb` with a duplicate-free load-balancing
plan): the first request goes to the head of the plan; after a same-target retry decision the next
request goes to the same node, after a next-target retry decision to a DIFFERENT node. -/
theorem fetch_nodes (pol : Policy) (idem : Bool) (cl : Consistency) (plan : List Nat) (outs : Nat → Outcome)
    (hnd : plan.Nodup) (hne : plan ≠ []) :
    let f : Fetch := ⟨plan, Exec.run pol idem cl (plan.map fun _ => Target.always) outs⟩
    f.nodes.head? = some (plan.getD 0 0) ∧ NodesChained f.nodes f.trace.decisions := by
  intro f
  have sh := run_shape pol idem cl plan outs
  have hs := run_sends pol idem cl plan outs hne
  refine ⟨?_, ?_⟩
  · rcases sh.head with h | ⟨a, as, ha, hat⟩
    · exact absurd h hs
    · simp [Fetch.nodes, f, ha, hat]
  · refine nodes_chained_of plan hnd _ _ sh.chained ?_
    intro a ha
    have := (sh.range a ha).2
    simpa using this

/-! ### coordinator stability along the fetches of an iteration -/

/-- Every fetch but the last completed, and the first request of the next fetch goes to the node that
completed it. -/
def Stable : List Fetch → Prop
  | f :: g :: r => (∃ c, f.coordinator = some c ∧ g.nodes.head? = some c) ∧ Stable (g :: r)
  | _ => True

theorem fetches_stable (pol : Policy) (idem : Bool) (cl : Consistency) :
    ∀ (pages : List (List Nat × (Nat → Outcome))) (coord : Option Nat),
      Stable (fetches pol idem cl coord pages) := by
  intro pages
  induction pages with
  | nil => intro _; simp [fetches, Stable]
  | cons p rest ih =>
    intro coord
    obtain ⟨lb, outs⟩ := p
    simp only [fetches]
    split
    next c hc =>
      cases rest with
      | nil => simp [fetches, Stable]
      | cons q rest' =>
        obtain ⟨lb', outs'⟩ := q
        have hrec := ih (some c)
        simp only [fetches] at hrec ⊢
        refine ⟨⟨c, hc, ?_⟩, hrec⟩
        have hne : pagePlan (some c) lb' ≠ [] := by simp [pagePlan]
        have sh := run_shape pol idem cl (pagePlan (some c) lb') outs'
        have hs := run_sends pol idem cl (pagePlan (some c) lb') outs' hne
        rcases sh.head with h | ⟨a, as, ha, hat⟩
        · exact absurd h hs
        · show (List.map _ (Exec.run pol idem cl _ outs').attempts).head? = some c
          rw [ha]
          simp [hat, pagePlan]
    next => simp [Stable]

/-- Every fetch of an iteration sends at least one request when no load-balancing plan is empty. -/
theorem fetches_send (pol : Policy) (idem : Bool) (cl : Consistency) :
    ∀ (pages : List (List Nat × (Nat → Outcome))) (coord : Option Nat), (∀ p ∈ pages, p.1 ≠ []) →
      ∀ f ∈ fetches pol idem cl coord pages, f.trace.attempts ≠ [] := by
  intro pages
  induction pages with
  | nil => intro _ _ f hf; simp [fetches] at hf
  | cons p rest ih =>
    intro coord hne f hf
    obtain ⟨lb, outs⟩ := p
    have hlb : lb ≠ [] := hne (lb, outs) List.mem_cons_self
    have hplan : pagePlan coord lb ≠ [] := by
      cases coord <;> simp [pagePlan, hlb]
    simp only [fetches, List.mem_cons] at hf
    rcases hf with rfl | hf
    · exact run_sends pol idem cl _ outs hplan
    · split at hf
      · exact ih _ (fun q hq => hne q (List.mem_cons_of_mem _ hq)) f hf
      · simp at hf

/-! ### the request table: page and node of every request of an iteration -/

/-- Every fetch sent a request and every fetch but the last completed (so the iteration went on). -/
def WF : List Fetch → Prop
  | [] => True
  | [f] => f.trace.attempts ≠ []
  | f :: g :: r => f.trace.attempts ≠ [] ∧ (∃ t, f.trace.final = .completed t) ∧ WF (g :: r)

theorem fetches_wf (pol : Policy) (idem : Bool) (cl : Consistency) :
    ∀ (pages : List (List Nat × (Nat → Outcome))) (coord : Option Nat), (∀ p ∈ pages, p.1 ≠ []) →
      WF (fetches pol idem cl coord pages) := by
  intro pages
  induction pages with
  | nil => intro _ _; simp [fetches, WF]
  | cons p rest ih =>
    intro coord hne
    obtain ⟨lb, outs⟩ := p
    have hlb : lb ≠ [] := hne (lb, outs) List.mem_cons_self
    have hplan : pagePlan coord lb ≠ [] := by cases coord <;> simp [pagePlan, hlb]
    have hs := run_sends pol idem cl _ outs hplan
    have hrest := fun c => ih (some c) (fun q hq => hne q (List.mem_cons_of_mem _ hq))
    simp only [fetches]
    split
    next c hc =>
      have hfin : ∃ t, (Exec.run pol idem cl ((pagePlan coord lb).map fun _ => Target.always) outs).final = .completed t := by
        simp only [Fetch.coordinator] at hc
        split at hc
        · exact ⟨_, by assumption⟩
        · simp at hc
      cases hr : fetches pol idem cl (some c) rest with
      | nil => exact hs
      | cons g r =>
        have := hrest c
        rw [hr] at this
        exact ⟨hs, hfin, this⟩
    next => exact hs

/-- Page index of every request, in order: fetch `j` asks for page `j`, once per attempt. -/
def tablePages : Nat → List Fetch → List Nat
  | _, [] => []
  | j, f :: r => List.replicate f.trace.attempts.length j ++ tablePages (j + 1) r

/-- Node of every request, in order. -/
def tableNodes (fs : List Fetch) : List Nat := (fs.map Fetch.nodes).flatten

theorem tablePages_length (j : Nat) (fs : List Fetch) : (tablePages j fs).length = (tableNodes fs).length := by
  induction fs generalizing j with
  | nil => simp [tablePages, tableNodes]
  | cons f r ih =>
    have := ih (j + 1)
    simp only [tableNodes] at this
    simp [tablePages, tableNodes, Fetch.nodes, this]

private theorem attempts_length (tr : Trace) (h : tr.attempts ≠ []) :
    (attemptsOfTrace tr).length = tr.attempts.length := by
  have : 0 < tr.attempts.length := List.length_pos_iff.mpr h
  simp [attemptsOfTrace]; omega

theorem pageFaults_length (fs : List Fetch) (h : WF fs) :
    (pageFaults (fs.map Fetch.trace)).length = (tableNodes fs).length := by
  induction fs with
  | nil => simp [pageFaults, tableNodes]
  | cons f r ih =>
    have hf : f.trace.attempts ≠ [] := by
      cases r with
      | nil => exact h
      | cons g r' => exact h.1
    have hr : WF r := by
      cases r with
      | nil => simp [WF]
      | cons g r' => exact h.2.2
    have := ih hr
    simp only [pageFaults, tableNodes] at this ⊢
    simp only [List.map_cons, List.flatten_cons, List.length_append, this, attempts_length f.trace hf]
    simp [Fetch.nodes]

/-- The page index in the request table is the number of successful attempts before the request - which is
what the page loop's request log records (`Pager.okBefore`). -/
theorem table_page_is_ok_count (fs : List Fetch) (h : WF fs) (j i : Nat) (hi : i < (tablePages j fs).length) :
    (tablePages j fs)[i] = j + ((pageFaults (fs.map Fetch.trace)).take i).count Pager.Attempt.ok := by
  induction fs generalizing j i with
  | nil => simp [tablePages] at hi
  | cons f r ih =>
    have hf : f.trace.attempts ≠ [] := by
      cases r with
      | nil => exact h
      | cons g r' => exact h.1
    have hr : WF r := by
      cases r with
      | nil => simp [WF]
      | cons g r' => exact h.2.2
    have hn : 0 < f.trace.attempts.length := List.length_pos_iff.mpr hf
    have hlen := attempts_length f.trace hf
    simp only [tablePages] at hi ⊢
    simp only [pageFaults, List.map_cons, List.flatten_cons]
    by_cases hlt : i < f.trace.attempts.length
    · -- inside this fetch: only retried attempts before the request
      rw [List.getElem_append_left (by simpa using hlt)]
      rw [List.take_append_of_le_length (by omega)]
      have : (attemptsOfTrace f.trace).take i = List.replicate i Pager.Attempt.retry := by
        simp only [attemptsOfTrace]
        rw [List.take_append_of_le_length (by simp; omega)]
        simp [List.take_replicate]; omega
      simp [this, List.count_replicate]
    · -- a later fetch: this one completed, exactly one success in it
      have hge : f.trace.attempts.length ≤ i := by omega
      cases r with
      | nil => simp [tablePages] at hi; omega
      | cons g r' =>
        obtain ⟨t, ht⟩ := h.2.1
        rw [List.getElem_append_right (by simpa using hge)]
        have hi' : i - f.trace.attempts.length < (tablePages (j + 1) (g :: r')).length := by
          simp only [List.length_append, List.length_replicate] at hi; omega
        have := ih hr (j + 1) (i - f.trace.attempts.length) hi'
        simp only [List.length_replicate]
        rw [this]
        have hsplit : i = (attemptsOfTrace f.trace).length + (i - f.trace.attempts.length) := by omega
        conv => rhs; rw [hsplit, List.take_length_add_append, List.count_append]
        have hc : (attemptsOfTrace f.trace).count Pager.Attempt.ok = 1 := by
          simp [attemptsOfTrace, ht, lastOf, List.count_append, List.count_replicate]
        simp only [pageFaults, List.map_cons] at *
        omega

/-- Every fetch of an iteration is the execution core run over `pagePlan coord lb` for one of the pages'
load-balancing plans. -/
theorem fetches_mem (pol : Policy) (idem : Bool) (cl : Consistency) :
    ∀ (pages : List (List Nat × (Nat → Outcome))) (coord : Option Nat) (f : Fetch),
      f ∈ fetches pol idem cl coord pages →
      ∃ c lb outs, (lb, outs) ∈ pages ∧
        f = ⟨pagePlan c lb, Exec.run pol idem cl ((pagePlan c lb).map fun _ => Target.always) outs⟩ := by
  intro pages
  induction pages with
  | nil => intro _ f hf; simp [fetches] at hf
  | cons p rest ih =>
    intro coord f hf
    obtain ⟨lb, outs⟩ := p
    simp only [fetches, List.mem_cons] at hf
    rcases hf with rfl | hf
    · exact ⟨coord, lb, outs, List.mem_cons_self, rfl⟩
    · split at hf
      · obtain ⟨c, lb', outs', hm, he⟩ := ih _ f hf
        exact ⟨c, lb', outs', List.mem_cons_of_mem _ hm, he⟩
      · simp at hf

end ScyllaVerif.PagerExec

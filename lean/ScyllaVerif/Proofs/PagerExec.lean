/-
Lemmas about C06's execution-core model (`Model/Exec.lean`) as used by the pager (`Model/PagerExec.lean`):
which target every attempt goes to, that a fetch over a non-empty plan of connected nodes sends a request,
the plan of a page fetch, coordinator stability along the fetches of an iteration. Used by `Props/C07.lean`.
-/
import ScyllaVerif.Model.PagerExec
set_option linter.unusedSimpArgs false
namespace ScyllaVerif.PagerExec
open ScyllaVerif.Retry ScyllaVerif.Exec

/-- Every target of the plan always yields a connection (the harness's clusters: all pools connected). -/
def AllAvail (plan : List Target) : Prop := ∀ av ∈ plan, ∀ j, av j = true

theorem allAvail_tail {av : Target} {rest : List Target} (h : AllAvail (av :: rest)) : AllAvail rest :=
  fun a ha j => h a (List.mem_cons_of_mem _ ha) j

theorem allAvail_next {av : Target} {rest : List Target} (h : AllAvail (av :: rest)) : AllAvail (av.next :: rest) := by
  intro a ha j
  rcases List.mem_cons.mp ha with rfl | ha
  · exact h av (List.mem_cons_self) (j + 1)
  · exact h a (List.mem_cons_of_mem _ ha) j

/-- What a retry decision says about the target of the next attempt. -/
def StepOk (d : Decision) (a b : Exec.Attempt) : Prop :=
  match d with
  | .retrySame _ => b.target = a.target
  | .retryNext _ => b.target = a.target + 1
  | _ => False

/-- Consecutive attempts are linked by the decision taken on the earlier one. -/
def Chained : List Exec.Attempt → List Decision → Prop
  | a :: b :: as, d :: ds => StepOk d a b ∧ Chained (b :: as) ds
  | _, _ => True

structure ExecShape (t : Nat) (plan : List Target) (tr : Trace) : Prop where
  head : tr.attempts = [] ∨ ∃ a as, tr.attempts = a :: as ∧ a.target = t
  range : ∀ a ∈ tr.attempts, t ≤ a.target ∧ a.target < t + plan.length
  chained : Chained tr.attempts tr.decisions

theorem exec_shape {σ : Type} (P : PolicyFn σ) (idem : Bool) (outcomes : Nat → Outcome) :
    ∀ (fuel : Nat) (plan : List Target) (t : Nat) (loc : Loc σ), AllAvail plan →
      ExecShape t plan (exec P idem outcomes fuel plan t loc) := by
  intro fuel
  induction fuel with
  | zero =>
    intro plan t loc _
    cases plan <;> exact ⟨Or.inl (by simp [exec]), by simp [exec], by simp [exec, Chained]⟩
  | succ fuel ih =>
    intro plan t loc hav
    cases plan with
    | nil => exact ⟨Or.inl (by simp [exec]), by simp [exec], by simp [exec, Chained]⟩
    | cons av rest =>
      have h0 : av 0 = true := hav av List.mem_cons_self 0
      unfold exec
      simp only [h0, Bool.true_eq_false, if_false]
      split
      · -- ok
        exact ⟨Or.inr ⟨_, _, rfl, rfl⟩, by simp, by simp [Chained]⟩
      · next e he =>
        let loc' : Loc σ := ⟨loc.k + 1, (P.decide (loc.sess.getD P.init) ⟨e, idem, loc.cl⟩).2.newCl.getD loc.cl,
          some (P.decide (loc.sess.getD P.init) ⟨e, idem, loc.cl⟩).1, some (.attempt e)⟩
        split
        · next c hd =>
          -- retry on the same target
          have r := ih (av.next :: rest) t loc' (allAvail_next hav)
          refine ⟨Or.inr ⟨_, _, rfl, rfl⟩, ?_, ?_⟩
          · intro a ha
            simp only [Trace.push, List.mem_cons] at ha
            rcases ha with rfl | ha
            · simp
            · have := r.range a ha; simpa using this
          · simp only [Trace.push]
            rcases r.head with h | ⟨b, bs, hb, hbt⟩
            · rw [h]; simp [Chained]
            · rw [hb]
              refine ⟨?_, ?_⟩
              · simp [StepOk, hd, hbt]
              · rw [← hb]; exact r.chained
        · next c hd =>
          -- retry on the next target
          have r := ih rest (t + 1) loc' (allAvail_tail hav)
          refine ⟨Or.inr ⟨_, _, rfl, rfl⟩, ?_, ?_⟩
          · intro a ha
            simp only [Trace.push, List.mem_cons] at ha
            rcases ha with rfl | ha
            · simp
            · have := r.range a ha; simp only [List.length_cons]; omega
          · simp only [Trace.push]
            rcases r.head with h | ⟨b, bs, hb, hbt⟩
            · rw [h]; simp [Chained]
            · rw [hb]
              refine ⟨?_, ?_⟩
              · simp [StepOk, hd, hbt]
              · rw [← hb]; exact r.chained
        · exact ⟨Or.inr ⟨_, _, rfl, rfl⟩, by simp, by simp [Chained]⟩
        · exact ⟨Or.inr ⟨_, _, rfl, rfl⟩, by simp, by simp [Chained]⟩


/-- A fetch over a non-empty plan of connected targets sends at least one request. -/
theorem exec_sends {σ : Type} (P : PolicyFn σ) (idem : Bool) (outcomes : Nat → Outcome) (fuel : Nat)
    (av : Target) (rest : List Target) (t : Nat) (loc : Loc σ) (h : av 0 = true) :
    (exec P idem outcomes (fuel + 1) (av :: rest) t loc).attempts ≠ [] := by
  unfold exec
  simp only [h, Bool.true_eq_false, if_false]
  split
  · simp
  · split <;> simp [Trace.push]

theorem allAvail_map (plan : List Nat) (av : Nat → Target) (hav : ∀ n j, av n j = true) :
    AllAvail (plan.map av) := by
  intro t ht j
  simp only [List.mem_map] at ht
  obtain ⟨n, _, rfl⟩ := ht
  exact hav n j

/-! ### targets that may refuse a connection (C06's call-indexed targets): what still holds -/

/-- Along a trace the targets never go back, and strictly advance after a next-target decision. -/
def MonoD : List Exec.Attempt → List Decision → Prop
  | a :: as, d :: ds =>
    (∀ b ∈ as, a.target ≤ b.target ∧ ((∃ c, d = .retryNext c) → a.target < b.target)) ∧ MonoD as ds
  | _, _ => True

structure ExecMono (t : Nat) (plan : List Target) (tr : Trace) : Prop where
  range : ∀ a ∈ tr.attempts, t ≤ a.target ∧ a.target < t + plan.length
  mono : MonoD tr.attempts tr.decisions

theorem exec_mono {σ : Type} (P : PolicyFn σ) (idem : Bool) (outcomes : Nat → Outcome) :
    ∀ (fuel : Nat) (plan : List Target) (t : Nat) (loc : Loc σ),
      ExecMono t plan (exec P idem outcomes fuel plan t loc) := by
  intro fuel
  induction fuel with
  | zero => intro plan t loc; cases plan <;> exact ⟨by simp [exec], by simp [exec, MonoD]⟩
  | succ fuel ih =>
    intro plan t loc
    cases plan with
    | nil => exact ⟨by simp [exec], by simp [exec, MonoD]⟩
    | cons av rest =>
      by_cases h0 : av 0 = true
      case neg =>
        -- no connection: the target is skipped without an attempt
        have h0' : av 0 = false := by simpa using h0
        have r := ih rest (t + 1) { loc with lastErr := some .pool }
        unfold exec
        simp only [h0', if_true]
        refine ⟨?_, r.mono⟩
        intro a ha
        have := r.range a ha
        simp only [List.length_cons]; omega
      case pos =>
        unfold exec
        simp only [h0, Bool.true_eq_false, if_false]
        split
        · exact ⟨by simp, by simp [MonoD]⟩
        · next e he =>
          let loc' : Loc σ := ⟨loc.k + 1, (P.decide (loc.sess.getD P.init) ⟨e, idem, loc.cl⟩).2.newCl.getD loc.cl,
            some (P.decide (loc.sess.getD P.init) ⟨e, idem, loc.cl⟩).1, some (.attempt e)⟩
          split
          · next c hd =>
            have r := ih (av.next :: rest) t loc'
            refine ⟨?_, ?_⟩
            · intro a ha
              simp only [Trace.push, List.mem_cons] at ha
              rcases ha with rfl | ha
              · simp
              · have := r.range a ha; simpa using this
            · simp only [Trace.push, MonoD]
              refine ⟨?_, r.mono⟩
              intro b hb
              have := r.range b hb
              exact ⟨this.1, by simp [hd]⟩
          · next c hd =>
            have r := ih rest (t + 1) loc'
            refine ⟨?_, ?_⟩
            · intro a ha
              simp only [Trace.push, List.mem_cons] at ha
              rcases ha with rfl | ha
              · simp
              · have := r.range a ha; simp only [List.length_cons]; omega
            · simp only [Trace.push, MonoD]
              refine ⟨?_, r.mono⟩
              intro b hb
              have := r.range b hb
              exact ⟨by omega, fun _ => by omega⟩
          · exact ⟨by simp, by simp [MonoD]⟩
          · exact ⟨by simp, by simp [MonoD]⟩

/-- A fetch sends a request as soon as SOME target of the plan yields a connection (the refusing ones before
it are skipped; the fuel of `Exec.run` covers the skips). -/
theorem exec_sends_gen {σ : Type} (P : PolicyFn σ) (idem : Bool) (outcomes : Nat → Outcome) :
    ∀ (plan : List Target) (fuel : Nat) (t : Nat) (loc : Loc σ), (∃ av ∈ plan, av 0 = true) →
      plan.length ≤ fuel → (exec P idem outcomes fuel plan t loc).attempts ≠ [] := by
  intro plan
  induction plan with
  | nil => intro _ _ _ h; simp at h
  | cons av rest ih =>
    intro fuel t loc h hf
    cases fuel with
    | zero => simp at hf
    | succ fuel =>
      by_cases h0 : av 0 = true
      · exact exec_sends P idem outcomes fuel av rest t loc h0
      · have h0' : av 0 = false := by simpa using h0
        have hrest : ∃ a ∈ rest, a 0 = true := by
          obtain ⟨a, ha, hat⟩ := h
          rcases List.mem_cons.mp ha with rfl | ha
          · exact absurd hat h0
          · exact ⟨a, ha, hat⟩
        unfold exec
        simp only [h0', if_true]
        exact ih fuel (t + 1) _ hrest (by simp only [List.length_cons] at hf; omega)

/-- A refusing head of the plan is skipped: the first request goes to the next target (if it yields a
connection). -/
theorem exec_skips_dead_head {σ : Type} (P : PolicyFn σ) (idem : Bool) (outcomes : Nat → Outcome) (fuel : Nat)
    (dead av : Target) (rest : List Target) (t : Nat) (loc : Loc σ) (hd : dead 0 = false) (ha : av 0 = true) :
    ∃ a as, (exec P idem outcomes (fuel + 2) (dead :: av :: rest) t loc).attempts = a :: as ∧ a.target = t + 1 := by
  have h1 : exec P idem outcomes (fuel + 2) (dead :: av :: rest) t loc
      = exec P idem outcomes (fuel + 1) (av :: rest) (t + 1) { loc with lastErr := some .pool } := by
    conv => lhs; unfold exec
    simp [hd]
  rw [h1]
  unfold exec
  simp only [ha, Bool.true_eq_false, if_false]
  split
  · exact ⟨_, _, rfl, rfl⟩
  · split <;> exact ⟨_, _, rfl, rfl⟩

/-- The real execution core on a plan of connected nodes: shape of the trace. -/
theorem run_shape (pol : Policy) (idem : Bool) (cl : Consistency) (plan : List Nat) (av : Nat → Target)
    (hav : ∀ n j, av n j = true) (outs : Nat → Outcome) :
    ExecShape 0 (plan.map av) (Exec.run pol idem cl (plan.map av) outs) :=
  exec_shape _ idem outs _ _ 0 _ (allAvail_map plan av hav)

theorem run_mono (pol : Policy) (idem : Bool) (cl : Consistency) (plan : List Nat) (av : Nat → Target)
    (outs : Nat → Outcome) : ExecMono 0 (plan.map av) (Exec.run pol idem cl (plan.map av) outs) :=
  exec_mono _ idem outs _ _ 0 _

theorem run_sends (pol : Policy) (idem : Bool) (cl : Consistency) (plan : List Nat) (av : Nat → Target)
    (outs : Nat → Outcome) (h : ∃ n ∈ plan, av n 0 = true) :
    (Exec.run pol idem cl (plan.map av) outs).attempts ≠ [] := by
  simp only [Exec.run, runWith]
  refine exec_sends_gen _ idem outs _ _ 0 _ ?_ (by simp; omega)
  obtain ⟨n, hn, ht⟩ := h
  exact ⟨av n, List.mem_map.mpr ⟨n, hn, rfl⟩, ht⟩

theorem pagePlan_has (coord : Option Nat) (lb : List Nat) (n : Nat) (h : n ∈ lb) : n ∈ pagePlan coord lb := by
  cases coord with
  | none => exact h
  | some c =>
    simp only [pagePlan, List.mem_cons, List.mem_filter]
    by_cases hc : n = c
    · exact Or.inl hc
    · exact Or.inr ⟨h, by simpa using hc⟩

/-! ### the plan of a page fetch -/

theorem pagePlan_nodup (coord : Option Nat) (lb : List Nat) (h : lb.Nodup) : (pagePlan coord lb).Nodup := by
  cases coord with
  | none => exact h
  | some c =>
    simp only [pagePlan, List.nodup_cons]
    refine ⟨?_, h.filter _⟩
    intro hm
    have := (List.mem_filter.mp hm).2
    simp at this

theorem pagePlan_head (c : Nat) (lb : List Nat) : (pagePlan (some c) lb).getD 0 0 = c := by
  simp [pagePlan]

/-! ### nodes of the requests of one fetch -/

/-- Consecutive requests of a fetch: after `RetrySameTarget` the same node, after `RetryNextTarget` a
different one. -/
def NodeStep (d : Decision) (x y : Nat) : Prop :=
  match d with
  | .retrySame _ => y = x
  | .retryNext _ => y ≠ x
  | _ => False

def NodesChained : List Nat → List Decision → Prop
  | x :: y :: xs, d :: ds => NodeStep d x y ∧ NodesChained (y :: xs) ds
  | _, _ => True

private theorem getD_ne_of_nodup {plan : List Nat} (h : plan.Nodup) {i j : Nat} (hi : i < plan.length)
    (hj : j < plan.length) (hij : i ≠ j) : plan.getD i 0 ≠ plan.getD j 0 := by
  intro heq
  simp only [List.getD_eq_getElem?_getD, List.getElem?_eq_getElem hi, List.getElem?_eq_getElem hj,
    Option.getD_some] at heq
  have hp := List.pairwise_iff_getElem.mp h
  rcases Nat.lt_trichotomy i j with hlt | he | hgt
  · exact hp i j hi hj hlt heq
  · exact hij he
  · exact hp j i hj hi hgt heq.symm

theorem nodes_chained_of (plan : List Nat) (hnd : plan.Nodup) :
    ∀ (as : List Exec.Attempt) (ds : List Decision), Chained as ds → (∀ a ∈ as, a.target < plan.length) →
      NodesChained (as.map fun a => plan.getD a.target 0) ds := by
  intro as
  induction as with
  | nil => intro ds _ _; simp [NodesChained]
  | cons a as ih =>
    intro ds hc hr
    cases as with
    | nil => simp [NodesChained]
    | cons b bs =>
      cases ds with
      | nil => simp [NodesChained]
      | cons d ds =>
        obtain ⟨h1, h2⟩ := hc
        have ha := hr a List.mem_cons_self
        have hb := hr b (List.mem_cons_of_mem _ List.mem_cons_self)
        refine ⟨?_, ih ds h2 (fun x hx => hr x (List.mem_cons_of_mem _ hx))⟩
        unfold StepOk at h1
        unfold NodeStep
        split at h1
        · show plan.getD b.target 0 = plan.getD a.target 0
          rw [h1]
        · exact getD_ne_of_nodup hnd hb ha (by omega)
        · exact h1

/-- After a next-target decision the node just left is never used again in this fetch. -/
def NodesNoReturn : List Nat → List Decision → Prop
  | x :: xs, d :: ds => ((∃ c, d = Decision.retryNext c) → x ∉ xs) ∧ NodesNoReturn xs ds
  | _, _ => True

theorem nodes_no_return_of (plan : List Nat) (hnd : plan.Nodup) :
    ∀ (as : List Exec.Attempt) (ds : List Decision), MonoD as ds → (∀ a ∈ as, a.target < plan.length) →
      NodesNoReturn (as.map fun a => plan.getD a.target 0) ds := by
  intro as
  induction as with
  | nil => intro ds _ _; simp [NodesNoReturn]
  | cons a as ih =>
    intro ds hm hr
    cases ds with
    | nil => simp [NodesNoReturn]
    | cons d ds =>
      obtain ⟨h1, h2⟩ := hm
      refine ⟨?_, ih ds h2 (fun x hx => hr x (List.mem_cons_of_mem _ hx))⟩
      intro hd hmem
      simp only [List.mem_map] at hmem
      obtain ⟨b, hb, hbe⟩ := hmem
      have hlt := (h1 b hb).2 hd
      exact getD_ne_of_nodup hnd (hr b (List.mem_cons_of_mem _ hb)) (hr a List.mem_cons_self) (by omega) hbe

/-- For a real fetch over a duplicate-free plan, whatever pools refuse a connection: once a next-target
decision has left a node, no later request of this fetch goes to it (the nodes reached by next-target hops
are pairwise different). -/
theorem fetch_no_return (pol : Policy) (idem : Bool) (cl : Consistency) (plan : List Nat) (av : Nat → Target)
    (outs : Nat → Outcome) (hnd : plan.Nodup) :
    let f : Fetch := ⟨plan, Exec.run pol idem cl (plan.map av) outs⟩
    NodesNoReturn f.nodes f.trace.decisions := by
  intro f
  have m := run_mono pol idem cl plan av outs
  refine nodes_no_return_of plan hnd _ _ m.mono ?_
  intro a ha
  have := (m.range a ha).2
  simpa using this

/-- For a real fetch whose pools all yield connections (the execution core run over `pagePlan coord lb`
with a duplicate-free load-balancing plan): the first request goes to the head of the plan; after a
same-target retry decision the next request goes to the same node, after a next-target retry decision to a
DIFFERENT node. -/
theorem fetch_nodes (pol : Policy) (idem : Bool) (cl : Consistency) (plan : List Nat) (av : Nat → Target)
    (hav : ∀ n j, av n j = true) (outs : Nat → Outcome) (hnd : plan.Nodup) (hne : plan ≠ []) :
    let f : Fetch := ⟨plan, Exec.run pol idem cl (plan.map av) outs⟩
    f.nodes.head? = some (plan.getD 0 0) ∧ NodesChained f.nodes f.trace.decisions := by
  intro f
  have sh := run_shape pol idem cl plan av hav outs
  have hs := run_sends pol idem cl plan av outs (by
    cases plan with
    | nil => exact absurd rfl hne
    | cons c r => exact ⟨c, List.mem_cons_self, hav c 0⟩)
  refine ⟨?_, ?_⟩
  · rcases sh.head with h | ⟨a, as, ha, hat⟩
    · exact absurd h hs
    · simp [Fetch.nodes, f, ha, hat]
  · refine nodes_chained_of plan hnd _ _ sh.chained ?_
    intro a ha
    have := (sh.range a ha).2
    simpa using this

/-- The previous coordinator's pool yields no connection (the node died between two pages): it is skipped
without a request and the first request of the fetch goes to the next node of the plan. -/
theorem dead_coordinator_is_skipped (pol : Policy) (idem : Bool) (cl : Consistency) (c n1 : Nat) (rest : List Nat)
    (av : Nat → Target) (outs : Nat → Outcome) (hdead : av c 0 = false) (hlive : av n1 0 = true) :
    let f : Fetch := ⟨c :: n1 :: rest, Exec.run pol idem cl ((c :: n1 :: rest).map av) outs⟩
    f.nodes.head? = some n1 := by
  intro f
  have : ∃ a as, (Exec.run pol idem cl ((c :: n1 :: rest).map av) outs).attempts = a :: as ∧ a.target = 0 + 1 := by
    simp only [Exec.run, runWith, List.map_cons, List.length_cons, List.length_map]
    have hf : rest.length + 1 + 1 + sameTargetBound pol + 1 = (rest.length + sameTargetBound pol + 1) + 2 := by omega
    rw [hf]
    exact exec_skips_dead_head _ idem outs _ _ _ _ 0 _ hdead hlive
  obtain ⟨a, as, ha, hat⟩ := this
  show (List.map _ (Exec.run pol idem cl ((c :: n1 :: rest).map av) outs).attempts).head? = some n1
  rw [ha]
  simp [hat, f]

/-! ### coordinator stability along the fetches of an iteration -/

/-- Every fetch but the last completed, and the first request of the next fetch goes to the node that
completed it. -/
def Stable : List Fetch → Prop
  | f :: g :: r => (∃ c, f.coordinator = some c ∧ g.nodes.head? = some c) ∧ Stable (g :: r)
  | _ => True

theorem fetches_stable (pol : Policy) (idem : Bool) (cl : Consistency) :
    ∀ (pages : List (List Nat × (Nat → Target) × (Nat → Outcome))) (coord : Option Nat),
      (∀ p ∈ pages, ∀ n j, p.2.1 n j = true) → Stable (fetches pol idem cl coord pages) := by
  intro pages
  induction pages with
  | nil => intro _ _; simp [fetches, Stable]
  | cons p rest ih =>
    intro coord hall
    obtain ⟨lb, av, outs⟩ := p
    simp only [fetches]
    split
    next c hc =>
      cases rest with
      | nil => simp [fetches, Stable]
      | cons q rest' =>
        obtain ⟨lb', av', outs'⟩ := q
        have hrec := ih (some c) (fun q hq => hall q (List.mem_cons_of_mem _ hq))
        simp only [fetches] at hrec ⊢
        refine ⟨⟨c, hc, ?_⟩, hrec⟩
        have hav' : ∀ n j, av' n j = true := hall (lb', av', outs') (List.mem_cons_of_mem _ List.mem_cons_self)
        have sh := run_shape pol idem cl (pagePlan (some c) lb') av' hav' outs'
        have hs := run_sends pol idem cl (pagePlan (some c) lb') av' outs' ⟨c, by simp [pagePlan], hav' c 0⟩
        rcases sh.head with h | ⟨a, as, ha, hat⟩
        · exact absurd h hs
        · show (List.map _ (Exec.run pol idem cl _ outs').attempts).head? = some c
          rw [ha]
          simp [hat, pagePlan]
    next => simp [Stable]

/-- Every fetch of an iteration sends at least one request when every load-balancing plan contains a node
whose pool yields a connection. -/
theorem fetches_send (pol : Policy) (idem : Bool) (cl : Consistency) :
    ∀ (pages : List (List Nat × (Nat → Target) × (Nat → Outcome))) (coord : Option Nat),
      (∀ p ∈ pages, ∃ n ∈ p.1, p.2.1 n 0 = true) →
      ∀ f ∈ fetches pol idem cl coord pages, f.trace.attempts ≠ [] := by
  intro pages
  induction pages with
  | nil => intro _ _ f hf; simp [fetches] at hf
  | cons p rest ih =>
    intro coord hne f hf
    obtain ⟨lb, av, outs⟩ := p
    obtain ⟨n, hn, hnt⟩ := hne (lb, av, outs) List.mem_cons_self
    simp only [fetches, List.mem_cons] at hf
    rcases hf with rfl | hf
    · exact run_sends pol idem cl _ av outs ⟨n, pagePlan_has coord lb n hn, hnt⟩
    · split at hf
      · exact ih _ (fun q hq => hne q (List.mem_cons_of_mem _ hq)) f hf
      · simp at hf

/-! ### the request table: page and node of every request of an iteration -/

/-- Every fetch sent a request and every fetch but the last completed (so the iteration went on). -/
def WF : List Fetch → Prop
  | [] => True
  | [f] => f.trace.attempts ≠ []
  | f :: g :: r => f.trace.attempts ≠ [] ∧ (∃ t, f.trace.final = .completed t) ∧ WF (g :: r)

theorem fetches_wf (pol : Policy) (idem : Bool) (cl : Consistency) :
    ∀ (pages : List (List Nat × (Nat → Target) × (Nat → Outcome))) (coord : Option Nat),
      (∀ p ∈ pages, ∃ n ∈ p.1, p.2.1 n 0 = true) → WF (fetches pol idem cl coord pages) := by
  intro pages
  induction pages with
  | nil => intro _ _; simp [fetches, WF]
  | cons p rest ih =>
    intro coord hne
    obtain ⟨lb, av, outs⟩ := p
    obtain ⟨n, hn, hnt⟩ := hne (lb, av, outs) List.mem_cons_self
    have hs := run_sends pol idem cl (pagePlan coord lb) av outs ⟨n, pagePlan_has coord lb n hn, hnt⟩
    have hrest := fun c => ih (some c) (fun q hq => hne q (List.mem_cons_of_mem _ hq))
    simp only [fetches]
    split
    next c hc =>
      have hfin : ∃ t, (Exec.run pol idem cl ((pagePlan coord lb).map av) outs).final = .completed t := by
        simp only [Fetch.coordinator] at hc
        split at hc
        · exact ⟨_, by assumption⟩
        · simp at hc
      cases hr : fetches pol idem cl (some c) rest with
      | nil => exact hs
      | cons g r =>
        have := hrest c
        rw [hr] at this
        exact ⟨hs, hfin, this⟩
    next => exact hs

/-- Page index of every request, in order: fetch `j` asks for page `j`, once per attempt. -/
def tablePages : Nat → List Fetch → List Nat
  | _, [] => []
  | j, f :: r => List.replicate f.trace.attempts.length j ++ tablePages (j + 1) r

/-- Node of every request, in order. -/
def tableNodes (fs : List Fetch) : List Nat := (fs.map Fetch.nodes).flatten

theorem tablePages_length (j : Nat) (fs : List Fetch) : (tablePages j fs).length = (tableNodes fs).length := by
  induction fs generalizing j with
  | nil => simp [tablePages, tableNodes]
  | cons f r ih =>
    have := ih (j + 1)
    simp only [tableNodes] at this
    simp [tablePages, tableNodes, Fetch.nodes, this]

private theorem attempts_length (tr : Trace) (h : tr.attempts ≠ []) :
    (attemptsOfTrace tr).length = tr.attempts.length := by
  have : 0 < tr.attempts.length := List.length_pos_iff.mpr h
  simp [attemptsOfTrace]; omega

theorem pageFaults_length (fs : List Fetch) (h : WF fs) :
    (pageFaults (fs.map Fetch.trace)).length = (tableNodes fs).length := by
  induction fs with
  | nil => simp [pageFaults, tableNodes]
  | cons f r ih =>
    have hf : f.trace.attempts ≠ [] := by
      cases r with
      | nil => exact h
      | cons g r' => exact h.1
    have hr : WF r := by
      cases r with
      | nil => simp [WF]
      | cons g r' => exact h.2.2
    have := ih hr
    simp only [pageFaults, tableNodes] at this ⊢
    simp only [List.map_cons, List.flatten_cons, List.length_append, this, attempts_length f.trace hf]
    simp [Fetch.nodes]

/-- The page index in the request table is the number of successful attempts before the request - which is
what the page loop's request log records (`Pager.okBefore`). -/
theorem table_page_is_ok_count (fs : List Fetch) (h : WF fs) (j i : Nat) (hi : i < (tablePages j fs).length) :
    (tablePages j fs)[i] = j + ((pageFaults (fs.map Fetch.trace)).take i).count Pager.Attempt.ok := by
  induction fs generalizing j i with
  | nil => simp [tablePages] at hi
  | cons f r ih =>
    have hf : f.trace.attempts ≠ [] := by
      cases r with
      | nil => exact h
      | cons g r' => exact h.1
    have hr : WF r := by
      cases r with
      | nil => simp [WF]
      | cons g r' => exact h.2.2
    have hn : 0 < f.trace.attempts.length := List.length_pos_iff.mpr hf
    have hlen := attempts_length f.trace hf
    simp only [tablePages] at hi ⊢
    simp only [pageFaults, List.map_cons, List.flatten_cons]
    by_cases hlt : i < f.trace.attempts.length
    · -- inside this fetch: only retried attempts before the request
      rw [List.getElem_append_left (by simpa using hlt)]
      rw [List.take_append_of_le_length (by omega)]
      have : (attemptsOfTrace f.trace).take i = List.replicate i Pager.Attempt.retry := by
        simp only [attemptsOfTrace]
        rw [List.take_append_of_le_length (by simp; omega)]
        simp [List.take_replicate]; omega
      simp [this, List.count_replicate]
    · -- a later fetch: this one completed, exactly one success in it
      have hge : f.trace.attempts.length ≤ i := by omega
      cases r with
      | nil => simp [tablePages] at hi; omega
      | cons g r' =>
        obtain ⟨t, ht⟩ := h.2.1
        rw [List.getElem_append_right (by simpa using hge)]
        have hi' : i - f.trace.attempts.length < (tablePages (j + 1) (g :: r')).length := by
          simp only [List.length_append, List.length_replicate] at hi; omega
        have := ih hr (j + 1) (i - f.trace.attempts.length) hi'
        simp only [List.length_replicate]
        rw [this]
        have hsplit : i = (attemptsOfTrace f.trace).length + (i - f.trace.attempts.length) := by omega
        conv => rhs; rw [hsplit, List.take_length_add_append, List.count_append]
        have hc : (attemptsOfTrace f.trace).count Pager.Attempt.ok = 1 := by
          simp [attemptsOfTrace, ht, lastOf, List.count_append, List.count_replicate]
        simp only [pageFaults, List.map_cons] at *
        omega

/-- Every fetch of an iteration is the execution core run over `pagePlan coord lb` for one of the pages'
load-balancing plans. -/
theorem fetches_mem (pol : Policy) (idem : Bool) (cl : Consistency) :
    ∀ (pages : List (List Nat × (Nat → Target) × (Nat → Outcome))) (coord : Option Nat) (f : Fetch),
      f ∈ fetches pol idem cl coord pages →
      ∃ c lb av outs, (lb, av, outs) ∈ pages ∧
        f = ⟨pagePlan c lb, Exec.run pol idem cl ((pagePlan c lb).map av) outs⟩ := by
  intro pages
  induction pages with
  | nil => intro _ f hf; simp [fetches] at hf
  | cons p rest ih =>
    intro coord f hf
    obtain ⟨lb, av, outs⟩ := p
    simp only [fetches, List.mem_cons] at hf
    rcases hf with rfl | hf
    · exact ⟨coord, lb, av, outs, List.mem_cons_self, rfl⟩
    · split at hf
      · obtain ⟨c, lb', av', outs', hm, he⟩ := ih _ f hf
        exact ⟨c, lb', av', outs', List.mem_cons_of_mem _ hm, he⟩
      · simp at hf

end ScyllaVerif.PagerExec

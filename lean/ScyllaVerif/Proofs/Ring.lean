import ScyllaVerif.Model.Ring
/-! Helper lemmas about `uniq` (itertools `unique`), ring rotation and `ringRange` (C04, reusable by C05/C12). -/
namespace ScyllaVerif.Proofs.Ring
open ScyllaVerif.Ring

variable {α : Type} [DecidableEq α]

/-! ### `uniqFrom` / `uniq` -/

theorem mem_uniqFrom {seen l : List α} {a : α} : a ∈ uniqFrom seen l ↔ a ∈ l ∧ a ∉ seen := by
  induction l generalizing seen with
  | nil => simp [uniqFrom]
  | cons b l ih =>
    unfold uniqFrom
    split
    · rw [ih]; constructor
      · rintro ⟨h1, h2⟩; exact ⟨List.mem_cons_of_mem _ h1, h2⟩
      · rintro ⟨h1, h2⟩
        rcases List.mem_cons.mp h1 with rfl | h
        · contradiction
        · exact ⟨h, h2⟩
    · rename_i hb
      rw [List.mem_cons, ih]
      constructor
      · rintro (rfl | ⟨h1, h2⟩)
        · exact ⟨List.mem_cons_self, hb⟩
        · exact ⟨List.mem_cons_of_mem _ h1, fun h => h2 (List.mem_cons_of_mem _ h)⟩
      · rintro ⟨h1, h2⟩
        by_cases hab : a = b
        · exact Or.inl hab
        · right
          rcases List.mem_cons.mp h1 with rfl | h
          · exact absurd rfl hab
          · exact ⟨h, fun h' => by rcases List.mem_cons.mp h' with rfl | h''; exact hab rfl; exact h2 h''⟩

theorem mem_uniq {l : List α} {a : α} : a ∈ uniq l ↔ a ∈ l := by
  unfold uniq; rw [mem_uniqFrom]; simp

theorem uniqFrom_sublist (seen l : List α) : (uniqFrom seen l).Sublist l := by
  induction l generalizing seen with
  | nil => simp [uniqFrom]
  | cons b l ih =>
    unfold uniqFrom
    split
    · exact (ih seen).cons _
    · exact (ih (b :: seen)).cons_cons _

theorem uniq_sublist (l : List α) : (uniq l).Sublist l := uniqFrom_sublist [] l

theorem uniqFrom_length_le (seen l : List α) : (uniqFrom seen l).length ≤ l.length :=
  (uniqFrom_sublist seen l).length_le

theorem uniqFrom_nodup (seen l : List α) : (uniqFrom seen l).Nodup := by
  induction l generalizing seen with
  | nil => simp [uniqFrom]
  | cons b l ih =>
    unfold uniqFrom
    split
    · exact ih seen
    · rw [List.nodup_cons]
      refine ⟨?_, ih _⟩
      intro h
      have := (mem_uniqFrom.mp h).2
      exact this List.mem_cons_self

theorem uniq_nodup (l : List α) : (uniq l).Nodup := uniqFrom_nodup [] l

/-- `unique` depends on the set of seen elements only. -/
theorem uniqFrom_congr {s₁ s₂ : List α} (h : ∀ a, a ∈ s₁ ↔ a ∈ s₂) (l : List α) :
    uniqFrom s₁ l = uniqFrom s₂ l := by
  induction l generalizing s₁ s₂ with
  | nil => rfl
  | cons b l ih =>
    unfold uniqFrom
    by_cases hb : b ∈ s₁
    · have hb2 : b ∈ s₂ := (h b).mp hb
      simp only [hb, hb2, if_true]; exact ih h
    · have hb2 : b ∉ s₂ := fun x => hb ((h b).mpr x)
      simp only [hb, hb2, if_false]
      congr 1
      apply ih
      intro a; simp only [List.mem_cons, h a]

/-- Adding an element to the seen-set removes it from the result. -/
theorem uniqFrom_cons_seen (b : α) (seen l : List α) :
    uniqFrom (b :: seen) l = (uniqFrom seen l).filter (fun a => decide (a ≠ b)) := by
  induction l generalizing seen with
  | nil => simp [uniqFrom]
  | cons c l ih =>
    by_cases hc : c ∈ seen
    · have hc2 : c ∈ b :: seen := List.mem_cons_of_mem _ hc
      rw [uniqFrom, uniqFrom, if_pos hc, if_pos hc2]; exact ih seen
    · by_cases hcb : c = b
      · subst hcb
        rw [uniqFrom, uniqFrom, if_neg hc, if_pos List.mem_cons_self]
        rw [List.filter_cons_of_neg (by simp)]
        symm
        apply List.filter_eq_self.mpr
        intro a ha
        have := (mem_uniqFrom.mp ha).2
        simp only [decide_eq_true_eq]
        intro h; subst h; exact this List.mem_cons_self
      · have hc2 : c ∉ b :: seen := by
          intro h; rcases List.mem_cons.mp h with h | h
          · exact hcb h
          · exact hc h
        rw [uniqFrom, uniqFrom, if_neg hc, if_neg hc2]
        rw [List.filter_cons_of_pos (by simpa using hcb)]
        congr 1
        rw [← ih (c :: seen)]
        apply uniqFrom_congr
        intro a; simp only [List.mem_cons]
        constructor
        · rintro (h | h | h)
          · exact Or.inr (Or.inl h)
          · exact Or.inl h
          · exact Or.inr (Or.inr h)
        · rintro (h | h | h)
          · exact Or.inr (Or.inl h)
          · exact Or.inl h
          · exact Or.inr (Or.inr h)

/-- Filtering commutes with `unique`. -/
theorem uniqFrom_filter (p : α → Bool) (seen l : List α) :
    uniqFrom seen (l.filter p) = (uniqFrom seen l).filter p := by
  induction l generalizing seen with
  | nil => simp [uniqFrom]
  | cons b l ih =>
    by_cases hp : p b = true
    · rw [List.filter_cons_of_pos hp]
      by_cases hb : b ∈ seen
      · rw [uniqFrom, uniqFrom, if_pos hb, if_pos hb]; exact ih seen
      · rw [uniqFrom, uniqFrom, if_neg hb, if_neg hb, List.filter_cons_of_pos hp, ih]
    · rw [List.filter_cons_of_neg hp]
      by_cases hb : b ∈ seen
      · conv => rhs; rw [uniqFrom, if_pos hb]
        exact ih seen
      · conv => rhs; rw [uniqFrom, if_neg hb]
        rw [List.filter_cons_of_neg hp, ih seen, uniqFrom_cons_seen, List.filter_filter]
        apply List.filter_congr
        intro a _
        by_cases hab : a = b
        · subst hab; simp [hp]
        · simp [hab]

theorem uniq_filter (p : α → Bool) (l : List α) : uniq (l.filter p) = (uniq l).filter p :=
  uniqFrom_filter p [] l

theorem uniq_length_le (l : List α) : (uniq l).length ≤ l.length := uniqFrom_length_le [] l

/-- The number of distinct elements depends on the set of elements only. -/
theorem uniq_length_congr {l₁ l₂ : List α} (h : ∀ a, a ∈ l₁ ↔ a ∈ l₂) : (uniq l₁).length = (uniq l₂).length := by
  apply List.Perm.length_eq
  rw [List.perm_ext_iff_of_nodup (uniq_nodup _) (uniq_nodup _)]
  intro a; rw [mem_uniq, mem_uniq]; exact h a

theorem uniq_of_nodup {l : List α} (h : l.Nodup) : uniq l = l := by
  suffices ∀ seen : List α, (∀ a, a ∈ l → a ∉ seen) → uniqFrom seen l = l from this [] (by simp)
  induction l with
  | nil => intros; rfl
  | cons b l ih =>
    intro seen hs
    rw [List.nodup_cons] at h
    rw [uniqFrom, if_neg (hs b List.mem_cons_self)]
    congr 1
    apply ih h.2
    intro a ha hm
    rcases List.mem_cons.mp hm with rfl | hm
    · exact h.1 ha
    · exact hs a (List.mem_cons_of_mem _ ha) hm

theorem uniq_idem (l : List α) : uniq (uniq l) = uniq l := uniq_of_nodup (uniq_nodup l)

/-! ### the ring -/

section ring
variable {β : Type}

/-- A ring is sorted by token (what `TokenRing::new` establishes). Duplicate tokens are allowed. -/
def Sorted (r : Ring β) : Prop := r.Pairwise (fun a b => a.1 ≤ b.1)

instance (r : Ring β) : Decidable (Sorted r) := by unfold Sorted; infer_instance

/-- "Clockwise from the token": the members owning a token `≥ tok` in ring order, then the others. -/
def clockwise (r : Ring β) (tok : Int) : Ring β :=
  r.filter (fun e => decide (tok ≤ e.1)) ++ r.filter (fun e => decide (e.1 < tok))

theorem mkRing_sorted (l : List (Int × β)) : Sorted (mkRing l) := by
  unfold Sorted mkRing
  have := List.pairwise_mergeSort (le := fun (a b : Int × β) => decide (a.1 ≤ b.1))
    (by intro a b c h1 h2; simp only [decide_eq_true_eq] at *; omega)
    (by intro a b; simp only [Bool.or_eq_true, decide_eq_true_eq]; omega) l
  exact this.imp (by intro a b h; simpa using h)

theorem mkRing_perm (l : List (Int × β)) : (mkRing l).Perm l := List.mergeSort_perm _ _

theorem mkRing_of_sorted {r : Ring β} (h : Sorted r) : mkRing r = r := by
  unfold mkRing
  apply List.mergeSort_of_pairwise
  exact h.imp (by intro a b h; simpa using h)

theorem Sorted.filter {r : Ring β} (h : Sorted r) (p : Int × β → Bool) : Sorted (r.filter p) :=
  List.Pairwise.sublist List.filter_sublist h

theorem firstGE_map_cons_lt {e : Int × β} {r : Ring β} {tok : Int} (h : e.1 < tok) :
    firstGE ((e :: r).map (·.1)) tok = firstGE (r.map (·.1)) tok + 1 := by
  simp [firstGE, h]

theorem firstGE_map_cons_ge {e : Int × β} {r : Ring β} {tok : Int} (h : tok ≤ e.1) :
    firstGE ((e :: r).map (·.1)) tok = 0 := by
  have : ¬ e.1 < tok := by omega
  simp [firstGE, this]

theorem drop_take_firstGE {r : Ring β} (hs : Sorted r) (tok : Int) :
    r.drop (firstGE (r.map (·.1)) tok) = r.filter (fun e => decide (tok ≤ e.1)) ∧
    r.take (firstGE (r.map (·.1)) tok) = r.filter (fun e => decide (e.1 < tok)) := by
  induction r with
  | nil => simp [firstGE]
  | cons e r ih =>
    have hs' : Sorted r := (List.pairwise_cons.mp hs).2
    have hle : ∀ x ∈ r, e.1 ≤ x.1 := (List.pairwise_cons.mp hs).1
    by_cases h : e.1 < tok
    · rw [firstGE_map_cons_lt h]
      have hn : ¬ tok ≤ e.1 := by omega
      obtain ⟨i1, i2⟩ := ih hs'
      constructor
      · rw [List.drop_succ_cons, i1, List.filter_cons_of_neg (by simpa using hn)]
      · rw [List.take_succ_cons, i2, List.filter_cons_of_pos (by simpa using h)]
    · have hge : tok ≤ e.1 := by omega
      rw [firstGE_map_cons_ge hge]
      constructor
      · rw [List.drop_zero]; symm
        apply List.filter_eq_self.mpr
        intro x hx
        rcases List.mem_cons.mp hx with rfl | hx
        · simpa using hge
        · have := hle x hx; simp only [decide_eq_true_eq]; omega
      · rw [List.take_zero]; symm
        apply List.filter_eq_nil_iff.mpr
        intro x hx
        rcases List.mem_cons.mp hx with rfl | hx
        · simpa using hge
        · have := hle x hx; simp only [decide_eq_true_eq]; omega

/-- On a sorted ring (duplicates allowed) the walk of `ring_range_full` is "clockwise from the token". -/
theorem ringRangeFull_eq_clockwise {r : Ring β} (hs : Sorted r) (tok : Int) :
    ringRangeFull r tok = clockwise r tok := by
  unfold ringRangeFull rotateAt clockwise
  obtain ⟨h1, h2⟩ := drop_take_firstGE hs tok
  rw [h1, h2]

theorem ringRangeFull_perm (r : Ring β) (tok : Int) : (ringRangeFull r tok).Perm r := by
  unfold ringRangeFull rotateAt
  exact List.perm_append_comm.trans (by rw [List.take_append_drop])

theorem ringRange_perm (r : Ring β) (tok : Int) : (ringRange r tok).Perm (r.map (·.2)) :=
  (ringRangeFull_perm r tok).map _

theorem mem_ringRange {r : Ring β} {tok : Int} {b : β} : b ∈ ringRange r tok ↔ b ∈ r.map (·.2) :=
  (ringRange_perm r tok).mem_iff

theorem ringRange_length (r : Ring β) (tok : Int) : (ringRange r tok).length = r.length := by
  rw [(ringRange_perm r tok).length_eq, List.length_map]

theorem clockwise_filter (r : Ring β) (tok : Int) (p : Int × β → Bool) :
    clockwise (r.filter p) tok = (clockwise r tok).filter p := by
  unfold clockwise
  rw [List.filter_append, List.filter_filter, List.filter_filter, List.filter_filter, List.filter_filter]
  congr 1 <;> (apply List.filter_congr; intro x _; exact Bool.and_comm _ _)

/-- The walk over a restricted ring is the restriction of the walk (sorted rings, duplicates allowed):
each datacenter ring is walked consistently with the global ring. -/
theorem ringRangeFull_filter {r : Ring β} (hs : Sorted r) (tok : Int) (p : Int × β → Bool) :
    ringRangeFull (r.filter p) tok = (ringRangeFull r tok).filter p := by
  rw [ringRangeFull_eq_clockwise (hs.filter p), ringRangeFull_eq_clockwise hs, clockwise_filter]

/-- The walk depends only on which members have a token `≥ tok`. -/
theorem clockwise_congr {r : Ring β} {t₁ t₂ : Int} (h : ∀ x ∈ r, (t₁ ≤ x.1 ↔ t₂ ≤ x.1)) :
    clockwise r t₁ = clockwise r t₂ := by
  unfold clockwise
  congr 1 <;> (apply List.filter_congr; intro x hx; have := h x hx; simp only [decide_eq_decide]; omega)

/-- **Snap**: every token has the answer of the ring member the walk starts at. -/
theorem ringRangeFull_snap {r : Ring β} (hs : Sorted r) (tok : Int) (e : Int × β)
    (he : (ringRangeFull r tok).head? = some e) : ringRangeFull r e.1 = ringRangeFull r tok := by
  rw [ringRangeFull_eq_clockwise hs] at he ⊢
  rw [ringRangeFull_eq_clockwise hs]
  by_cases hne : r.filter (fun e => decide (tok ≤ e.1)) = []
  · -- every member is below tok: the walk is the whole ring from its first member
    have hall : ∀ x ∈ r, x.1 < tok := by
      intro x hx
      have := List.filter_eq_nil_iff.mp hne x hx
      simpa using this
    have hr : r.filter (fun e => decide (e.1 < tok)) = r :=
      List.filter_eq_self.mpr (by intro x hx; simpa using hall x hx)
    unfold clockwise at he
    rw [hne, hr, List.nil_append] at he
    cases r with
    | nil => cases he
    | cons a r' =>
      simp only [List.head?_cons, Option.some.injEq] at he
      subst he
      have hle : ∀ x ∈ r', a.1 ≤ x.1 := (List.pairwise_cons.mp hs).1
      have hall' : ∀ x ∈ a :: r', a.1 ≤ x.1 := by
        intro x hx; rcases List.mem_cons.mp hx with rfl | hx
        · omega
        · exact hle x hx
      unfold clockwise
      rw [hne, hr, List.nil_append]
      have h1 : (a :: r').filter (fun e => decide (a.1 ≤ e.1)) = a :: r' :=
        List.filter_eq_self.mpr (by intro x hx; simpa using hall' x hx)
      have h2 : (a :: r').filter (fun e => decide (e.1 < a.1)) = [] :=
        List.filter_eq_nil_iff.mpr (by intro x hx; have := hall' x hx; simp only [decide_eq_true_eq]; omega)
      rw [h1, h2, List.append_nil]
  · apply clockwise_congr
    -- e is the first member with token ≥ tok
    obtain ⟨a, l, hal⟩ := List.exists_cons_of_ne_nil hne
    unfold clockwise at he
    rw [hal, List.cons_append, List.head?_cons, Option.some.injEq] at he
    subst he
    have ha : a ∈ r.filter (fun e => decide (tok ≤ e.1)) := by rw [hal]; exact List.mem_cons_self
    have hta : tok ≤ a.1 := by simpa using (List.mem_filter.mp ha).2
    have hsf : Sorted (r.filter (fun e => decide (tok ≤ e.1))) := hs.filter _
    rw [hal] at hsf
    have hle : ∀ x ∈ l, a.1 ≤ x.1 := (List.pairwise_cons.mp hsf).1
    intro x hx
    constructor
    · intro h; omega
    · intro h
      have hxm : x ∈ a :: l := by rw [← hal]; exact List.mem_filter.mpr ⟨hx, by simpa using h⟩
      rcases List.mem_cons.mp hxm with rfl | hxl
      · omega
      · exact hle x hxl

end ring

end ScyllaVerif.Proofs.Ring

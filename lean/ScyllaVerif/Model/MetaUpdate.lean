/-
Model of `scylla/src/cluster/metadata/update.rs` (C19): the value carried by the merge channel and the
`MetadataUpdate::merge_*` constructors the metadata worker passes to `Sender::modify`.

Abstractions: a `Metadata` / peer list is represented by the *tag* of its topology (the harness builds the peer
list from the tag and reads it back); a refresh reply channel (`oneshot::Sender<Result<(), MetadataError>>`) by the
id of the refresh request it answers; a socket address by a number; client routes by an association list keyed by
`(host id, connection id)` (HashMap semantics: insertion overrides, order irrelevant).

* `mergeMetadata`      ← `MetadataUpdate::merge_metadata` (98-123)
* `mergeClientRoutes`  ← `merge_client_routes_update` (126-153), `PartialMetadataChanges::merge_client_routes_update`
                          (74-79), `ClientRoutesUpdate::merge` (258-265), `ClientRoutes::merge` (metadata/mod.rs:349-370)
* `mergeTopology`      ← `merge_topology_update` (157-177), `merge_peers` (83-85)
* `mergeHint`          ← `merge_up_hint` / `merge_down_hint` (180-191)
-/
namespace ScyllaVerif.MetaUpdate

/-- Key of a client route: (host id, connection id). -/
abbrev RouteKey := Nat × Nat

/-- HashMap insert on an association list: the entry for `k` is replaced. -/
def assocInsert {β : Type} (m : List (Nat × β)) (k : Nat) (v : β) : List (Nat × β) :=
  (m.filter (fun p => p.1 != k)) ++ [(k, v)]

def routeInsert {β : Type} (m : List (RouteKey × β)) (k : RouteKey) (v : β) : List (RouteKey × β) :=
  (m.filter (fun p => p.1 != k)) ++ [(k, v)]

/-- `ClientRoutesUpdate::merge`: entries of `newer` override. -/
def routesUpdateMerge (older newer : List (RouteKey × Option Nat)) : List (RouteKey × Option Nat) :=
  newer.foldl (fun acc e => routeInsert acc e.1 e.2) older

/-- `ClientRoutes::merge`: `Some` inserts/overwrites, `None` removes. -/
def routesApply (routes : List (RouteKey × Nat)) (upd : List (RouteKey × Option Nat)) : List (RouteKey × Nat) :=
  upd.foldl (fun acc e =>
    match e.2 with
    | some r => routeInsert acc e.1 r
    | none => acc.filter (fun p => p.1 != e.1)) routes

/-- A `ClientRoutesUpdate` built by inserting the entries one after the other into the (HashMap-backed) update:
a later entry for the same key replaces the earlier one. -/
def mkRoutesUpdate (entries : List (RouteKey × Option Nat)) : List (RouteKey × Option Nat) :=
  entries.foldl (fun acc e => routeInsert acc e.1 e.2) []

/-- A `ClientRoutes` snapshot built by `Extend<ClientRoute>` (insertion, later wins). -/
def mkRoutes (entries : List (RouteKey × Nat)) : List (RouteKey × Nat) :=
  entries.foldl (fun acc e => routeInsert acc e.1 e.2) []

/-- One node of a peer list: host id, address, datacenter, rack (numbers stand for the values; 0 = unknown dc / rack). -/
structure NodeAttr where
  host : Nat
  addr : Nat
  dc : Nat := 0
  rack : Nat := 0
  deriving Repr, DecidableEq

/-- A topology = the peer list of a fetch. A numeric literal `t` denotes the one-node topology whose node has host
id and address `t` (what the `slot` / tag-based cases hand over). -/
structure Topo where
  nodes : List NodeAttr
  deriving Repr, DecidableEq

def Topo.single (t : Nat) : Topo := ⟨[{ host := t, addr := t }]⟩

instance (n : Nat) : OfNat Topo n := ⟨Topo.single n⟩

/-- `Metadata` as far as the merges look at it: topology tag and (optional) client routes. -/
structure Meta where
  peers : Topo
  /-- identity of the full fetch this metadata came from (ghost: the time that fetch was started; untouched by merges). -/
  stamp : Nat := 0
  clientRoutes : Option (List (RouteKey × Nat)) := none
  deriving Repr, DecidableEq

/-- `PartialMetadataChanges`. -/
structure Partial where
  clientRoutes : Option (List (RouteKey × Option Nat)) := none
  peers : Option Topo := none
  deriving Repr, DecidableEq

/-- `MetadataChanges`. -/
inductive Changes where
  | full (metadata : Meta) (refresh : List Nat)
  | part (p : Partial)
  deriving Repr, DecidableEq

/-- `MetadataUpdate`; `hints`: address ↦ is-UP. -/
structure Update where
  changes : Option Changes := none
  hints : List (Nat × Bool) := []
  deriving Repr, DecidableEq

/-- `slot_mut`: `slot.get_or_insert_with(Self::default)`. -/
def slotMut (slot : Option Update) : Update := slot.getD {}

def mergeMetadata (slot : Option Update) (metadata : Meta) (refresh : Option Nat) : Option Update :=
  let u := slotMut slot
  match u.changes with
  | none | some (.part _) => some { u with changes := some (.full metadata refresh.toList) }
  | some (.full _ rs) =>
    some { u with changes := some (.full metadata (match refresh with | some r => rs ++ [r] | none => rs)) }

def mergeClientRoutes (slot : Option Update) (upd : List (RouteKey × Option Nat)) : Option Update :=
  let u := slotMut slot
  match u.changes with
  | none => some { u with changes := some (.part { clientRoutes := some upd }) }
  | some (.part p) =>
    some { u with changes := some (.part { p with clientRoutes :=
      match p.clientRoutes with
      | none => some upd
      | some existing => some (routesUpdateMerge existing upd) }) }
  | some (.full m rs) =>
    match m.clientRoutes with
    | none => some u                                            -- warn!, return
    | some routes => some { u with changes := some (.full { m with clientRoutes := some (routesApply routes upd) } rs) }

def mergeTopology (slot : Option Update) (peers : Topo) : Option Update :=
  let u := slotMut slot
  match u.changes with
  | none => some { u with changes := some (.part { peers := some peers }) }
  | some (.part p) => some { u with changes := some (.part { p with peers := some peers }) }
  | some (.full m rs) => some { u with changes := some (.full { m with peers := peers } rs) }

def mergeHint (slot : Option Update) (addr : Nat) (up : Bool) : Option Update :=
  let u := slotMut slot
  some { u with hints := assocInsert u.hints addr up }

/-- The merge operations (what the metadata worker sends). -/
inductive Op where
  | metadata (m : Meta) (refresh : Option Nat)
  | clientRoutes (upd : List (RouteKey × Option Nat))
  | topology (peers : Topo)
  | hint (addr : Nat) (up : Bool)
  deriving Repr

def apply (slot : Option Update) : Op → Option Update
  | .metadata m r => mergeMetadata slot m r
  | .clientRoutes u => mergeClientRoutes slot u
  | .topology p => mergeTopology slot p
  | .hint a up => mergeHint slot a up

def applyAll (slot : Option Update) (ops : List Op) : Option Update := ops.foldl apply slot

/-! ### Observations -/

/-- Ids of the refresh requests whose reply channels the slot holds, in order. -/
def refreshIds : Option Update → List Nat
  | some { changes := some (.full _ rs), .. } => rs
  | _ => []

/-- Topology the consumer will apply when it takes the slot. -/
def peersTag : Option Update → Option Topo
  | some { changes := some (.full m _), .. } => some m.peers
  | some { changes := some (.part p), .. } => p.peers
  | _ => none

def kind : Option Update → String
  | some { changes := some (.full _ _), .. } => "full"
  | some { changes := some (.part _), .. } => "partial"
  | _ => "none"

def hintsOf : Option Update → List (Nat × Bool)
  | some u => u.hints
  | none => []

/-- Client routes the consumer finds: pending partial update (`none` port = removal), or the full snapshot;
outer `none` = no client-routes information. -/
def routesOf : Option Update → Option (List (RouteKey × Option Nat))
  | some { changes := some (.full m _), .. } => m.clientRoutes.map (fun rs => rs.map fun e => (e.1, some e.2))
  | some { changes := some (.part p), .. } => p.clientRoutes
  | _ => none

/-- The identity (`stamp`) of the full fetch whose metadata the slot's update carries, if it carries one. -/
def fullStamp : Option Update → Option Nat
  | some { changes := some (.full m _), .. } => some m.stamp
  | _ => none

/-- The refresh id an operation attaches. -/
def Op.refresh : Op → List Nat
  | .metadata _ (some r) => [r]
  | _ => []

/-- The topology an operation carries. -/
def Op.topo : Op → Option Topo
  | .metadata m _ => some m.peers
  | .topology p => some p
  | _ => none

/-- The topology of the last topology-carrying operation. -/
def lastTopo : List Op → Option Topo
  | [] => none
  | op :: rest =>
    match lastTopo rest with
    | some t => some t
    | none => op.topo

end ScyllaVerif.MetaUpdate

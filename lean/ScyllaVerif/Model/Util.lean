/-
Shared helpers for the line protocol (parsing / printing).  Import-free (core Lean only) so that the
`modeldriver` executable links.
-/
namespace ScyllaVerif.Util

def hexDigit (n : Nat) : Char :=
  if n < 10 then Char.ofNat (48 + n) else Char.ofNat (87 + n)

def hexByte (b : UInt8) : String :=
  String.ofList [hexDigit (b.toNat / 16), hexDigit (b.toNat % 16)]

def toHex (bs : List UInt8) : String :=
  if bs.isEmpty then "-" else String.join (bs.map hexByte)

def hexVal (c : Char) : Option Nat :=
  if '0' ≤ c ∧ c ≤ '9' then some (c.toNat - 48)
  else if 'a' ≤ c ∧ c ≤ 'f' then some (c.toNat - 87)
  else if 'A' ≤ c ∧ c ≤ 'F' then some (c.toNat - 55)
  else none

def parseHexAux : List Char → List UInt8 → Option (List UInt8)
  | [], acc => some acc.reverse
  | [_], _ => none
  | a :: b :: rest, acc =>
    match hexVal a, hexVal b with
    | some x, some y => parseHexAux rest (UInt8.ofNat (16 * x + y) :: acc)
    | _, _ => none

/-- `-` denotes the empty byte string. -/
def parseHex (s : String) : Option (List UInt8) :=
  if s == "-" then some [] else parseHexAux s.toList []

def words (line : String) : List String :=
  (line.trimAscii.toString.splitOn " ").filter (· ≠ "")

def natList (xs : List Nat) : String :=
  if xs.isEmpty then "-" else ",".intercalate (xs.map toString)

def parseNatList (s : String) : Option (List Nat) :=
  if s == "-" then some [] else (s.splitOn ",").mapM String.toNat?

def parseIntList (s : String) : Option (List Int) :=
  if s == "-" then some [] else (s.splitOn ",").mapM String.toInt?

end ScyllaVerif.Util

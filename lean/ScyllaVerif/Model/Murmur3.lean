/-
Model of `scylla/src/routing/partitioner.rs` (C03) and of `Token::new` (`routing/mod.rs:38-43`).

`Wrapping<i64>` arithmetic is modelled on `UInt64`: wrapping `*`, `+`, `^`, `<<` have the same bit patterns on
`i64` and `u64`, and every right shift in the Rust is performed after an explicit `as u64` cast (logical shift).

* `hash16`        ← `Murmur3PartitionerHasher::hash_16_bytes` (169-187)
* `fetch16`       ← `fetch_16_bytes_from_buf` (189-193): two little-endian `i64`
* `rotl64`/`fmix` ← 195-209
* `Hasher`/`init` ← the struct (156-161) and `Murmur3Partitioner::build_hasher` (145-152); `buf` is the 16-byte array,
                    stale bytes included
* `write`         ← `PartitionerHasher::write` (226-267): the three phases, path-expanded (see the comment there)
* `finish`        ← `finish` (269-313): sign-extended tail bytes (`buf[i] as i8 as i64`), `Token::new` normalisation
* `murmur3Spec`   — Cassandra's `MurmurHash.hash3_x64_128(key, 0, length, seed = 0)[0]` in its one-shot form (block loop
                    over `length >> 4` blocks, `switch (length & 15)` tail with signed bytes, final mix), followed by the
                    server's token normalisation `Long.MIN_VALUE ↦ Long.MAX_VALUE`
* `Cdc*`          ← `CDCPartitionerHasher` (316-381); `cdcRust` = what it computes, `cdcSpec` = the server's rule
* `Java.*`        — Cassandra's Java source transliterated statement by statement (independent definitions)
* `partitionerFromStr` ← `PartitionerName::from_str` (36-46)
-/
namespace ScyllaVerif.Murmur3

/-- `Token::new`: `i64::MIN` is not a token; it is replaced by `i64::MAX`. -/
def tokenNew (v : Int64) : Int64 := if v = Int64.minValue then Int64.maxValue else v

def c1 : UInt64 := 0x87c37b91114253d5
def c2 : UInt64 := 0x4cf5ad432745937f

/- Note: the definitions carrying 64-bit literals are `@[irreducible]`: the elaborator's unifier otherwise runs out of
recursion depth when it meets them while generating equation lemmas (the kernel and the compiler are unaffected). -/

/-- `rotl64(v, n) = (v << n) | (v as u64 >> (64 - n))`, used with `n ∈ {27, 31, 33}`. -/
def rotl64 (v : UInt64) (n : UInt64) : UInt64 := (v <<< n) ||| (v >>> (64 - n))

@[irreducible] def fmix (k : UInt64) : UInt64 :=
  let k := k ^^^ (k >>> 33)
  let k := k * 0xff51afd7ed558ccd
  let k := k ^^^ (k >>> 33)
  let k := k * 0xc4ceb9fe1a85ec53
  k ^^^ (k >>> 33)

/-- `k1 *= C1; k1 = rotl64(k1, 31); k1 *= C2` -/
@[irreducible] def mixK1 (k1 : UInt64) : UInt64 := rotl64 (k1 * c1) 31 * c2
/-- `k2 *= C2; k2 = rotl64(k2, 33); k2 *= C1` -/
@[irreducible] def mixK2 (k2 : UInt64) : UInt64 := rotl64 (k2 * c2) 33 * c1

/-- The running pair `(h1, h2)`. -/
abbrev St := UInt64 × UInt64

/-- `hash_16_bytes`. -/
@[irreducible] def hash16 (h : St) (k : UInt64 × UInt64) : St :=
  let h1 := h.1 ^^^ mixK1 k.1
  let h1 := rotl64 h1 27
  let h1 := h1 + h.2
  let h1 := h1 * 5 + 0x52dce729
  let h2 := h.2 ^^^ mixK2 k.2
  let h2 := rotl64 h2 31
  let h2 := h2 + h1
  let h2 := h2 * 5 + 0x38495ab5
  (h1, h2)

/-- Little-endian `u64` of the first 8 bytes (`Buf::get_i64_le`); missing bytes read as 0 (never happens). -/
def le64 (bs : List UInt8) : UInt64 :=
  (List.range 8).foldl (fun acc i => acc ||| ((bs.getD i 0).toUInt64 <<< (UInt64.ofNat (8 * i)))) 0

/-- Big-endian `u64` of the first 8 bytes (`Buf::get_i64`). -/
def be64 (bs : List UInt8) : UInt64 :=
  (List.range 8).foldl (fun acc i => (acc <<< 8) ||| (bs.getD i 0).toUInt64) 0

/-- `fetch_16_bytes_from_buf`: `(get_i64_le, get_i64_le)` of the first 16 bytes. -/
def fetch16 (bs : List UInt8) : UInt64 × UInt64 := (le64 bs, le64 (bs.drop 8))

/-- `b as i8 as i64` (sign extension) — Cassandra's signed-byte quirk. -/
def sext (b : UInt8) : UInt64 := b.toInt8.toInt64.toUInt64

/-- `for i in (lo..hi).rev() { k ^= (buf[i] as i8 as i64) << ((i - lo) * 8) }` starting from `k = 0`. -/
def tailXor (buf : List UInt8) (lo hi : Nat) : UInt64 :=
  ((List.range (hi - lo)).reverse).foldl
    (fun k j => k ^^^ (sext (buf.getD (lo + j) 0) <<< UInt64.ofNat (j * 8))) 0

/-- The common tail of `finish` / of the Java code after the `switch`:
`h1 ^= len; h2 ^= len; h1 += h2; h2 += h1; h1 = fmix(h1); h2 = fmix(h2); h1 += h2; h2 += h1;` result `h1`
(`(((h2 as i128) << 64) | h1 as i128) as i64` keeps the low 64 bits, i.e. `h1`). -/
def finalMix (h1 h2 : UInt64) (len : Nat) : UInt64 :=
  let h1 := h1 ^^^ UInt64.ofNat len
  let h2 := h2 ^^^ UInt64.ofNat len
  let h1 := h1 + h2
  let h2 := h2 + h1
  let h1 := fmix h1
  let h2 := fmix h2
  h1 + h2

/-- The tail handling shared by `finish` (reading the internal buffer) and the Java `switch` (reading the key):
`rem` = number of tail bytes (`< 16`), read from `bytes[0..rem)`. -/
def tailAndFinal (h : St) (bytes : List UInt8) (rem len : Nat) : UInt64 :=
  let h2 := if rem > 8 then h.2 ^^^ mixK2 (tailXor bytes 8 rem) else h.2
  let h1 := if rem > 0 then h.1 ^^^ mixK1 (tailXor bytes 0 (min 8 rem)) else h.1
  finalMix h1 h2 len

/-! ### Cassandra's one-shot form (the specification) -/

/-- The block loop `for (i = 0; i < nblocks; i++)`: `n` blocks of 16 bytes from the front of `bs`. -/
def blocks (h : St) (bs : List UInt8) : Nat → St
  | 0 => h
  | n + 1 => blocks (hash16 h (fetch16 bs)) (bs.drop 16) n

/-- `MurmurHash.hash3_x64_128(key, 0, length, 0)[0]`, before token normalisation. -/
def murmur3Raw (bs : List UInt8) : UInt64 :=
  let nblocks := bs.length / 16
  let h := blocks (0, 0) bs nblocks
  tailAndFinal h (bs.drop (16 * nblocks)) (bs.length % 16) bs.length

/-- The server-side token of a serialized partition key: Murmur3 then `MIN ↦ MAX`. -/
def murmur3Spec (bs : List UInt8) : Int64 := tokenNew (murmur3Raw bs).toInt64

/-! ### Cassandra's Java source, transliterated statement by statement (independent of the definitions above)

`org.apache.cassandra.utils.MurmurHash.hash3_x64_128(ByteBuffer key, int offset, int length, long seed)` with
`offset = 0`, `seed = 0`, and `Murmur3Partitioner.getToken`. Nothing here refers to `hash16`, `fetch16`, `le64`, `sext`,
`tailXor`, `mixK1/2`, `fmix`, `finalMix` or `tailAndFinal`; `Props/C03.lean` proves the two formulations equal for every
byte string. A Java `byte` is represented by its bit pattern (`UInt8`), a Java `long` by its bit pattern (`UInt64`):
`+`, `*`, `^`, `<<` agree on bit patterns, `>>>` is the logical shift. -/
namespace Java

/-- `(long) b` for a Java `byte b`: bytes are signed, `0x80..0xff` denote `-128..-1`. -/
def toLong (b : UInt8) : UInt64 :=
  if b.toNat < 128 then UInt64.ofNat b.toNat else UInt64.ofNat b.toNat + 0xffffffffffffff00

/-- `key.get(i)` -/
def get (key : List UInt8) (i : Nat) : UInt8 := key.getD i 0

/-- `getblock(key, offset, index)`:
```java
int i_8 = index << 3;
int blockOffset = offset + i_8;
return ((long) key.get(blockOffset + 0) & 0xff) + (((long) key.get(blockOffset + 1) & 0xff) << 8) + ...
       + (((long) key.get(blockOffset + 7) & 0xff) << 56);
``` -/
def getblock (key : List UInt8) (offset index : Nat) : UInt64 :=
  let i_8 := index <<< 3
  let blockOffset := offset + i_8
  (toLong (get key (blockOffset + 0)) &&& (0xff : UInt64)) + ((toLong (get key (blockOffset + 1)) &&& (0xff : UInt64)) <<< 8) +
  ((toLong (get key (blockOffset + 2)) &&& (0xff : UInt64)) <<< 16) + ((toLong (get key (blockOffset + 3)) &&& (0xff : UInt64)) <<< 24) +
  ((toLong (get key (blockOffset + 4)) &&& (0xff : UInt64)) <<< 32) + ((toLong (get key (blockOffset + 5)) &&& (0xff : UInt64)) <<< 40) +
  ((toLong (get key (blockOffset + 6)) &&& (0xff : UInt64)) <<< 48) + ((toLong (get key (blockOffset + 7)) &&& (0xff : UInt64)) <<< 56)

/-- `rotl64(v, n) = (v << n) | (v >>> (64 - n))` -/
def rotl64 (v : UInt64) (n : UInt64) : UInt64 := (v <<< n) ||| (v >>> (64 - n))

/-- `fmix(k)`: `k ^= k >>> 33; k *= 0xff51afd7ed558ccdL; k ^= k >>> 33; k *= 0xc4ceb9fe1a85ec53L; k ^= k >>> 33;` -/
@[irreducible] def fmix (k : UInt64) : UInt64 :=
  let k := k ^^^ (k >>> 33)
  let k := k * 0xff51afd7ed558ccd
  let k := k ^^^ (k >>> 33)
  let k := k * 0xc4ceb9fe1a85ec53
  let k := k ^^^ (k >>> 33)
  k

def c1 : UInt64 := 0x87c37b91114253d5
def c2 : UInt64 := 0x4cf5ad432745937f

/-- The body of the block loop:
```java
k1 *= c1; k1 = rotl64(k1,31); k1 *= c2; h1 ^= k1;
h1 = rotl64(h1,27); h1 += h2; h1 = h1*5+0x52dce729;
k2 *= c2; k2  = rotl64(k2,33); k2 *= c1; h2 ^= k2;
h2 = rotl64(h2,31); h2 += h1; h2 = h2*5+0x38495ab5;
``` -/
@[irreducible] def loopBody (h : UInt64 × UInt64) (k1 k2 : UInt64) : UInt64 × UInt64 :=
  let h1 := h.1
  let h2 := h.2
  let k1 := k1 * c1
  let k1 := rotl64 k1 31
  let k1 := k1 * c2
  let h1 := h1 ^^^ k1
  let h1 := rotl64 h1 27
  let h1 := h1 + h2
  let h1 := h1 * 5 + 0x52dce729
  let k2 := k2 * c2
  let k2 := rotl64 k2 33
  let k2 := k2 * c1
  let h2 := h2 ^^^ k2
  let h2 := rotl64 h2 31
  let h2 := h2 + h1
  let h2 := h2 * 5 + 0x38495ab5
  (h1, h2)

/-- The tail `switch(length & 15)` with its fall-through: `case n` is entered for every `n ≤ length & 15`.
```java
case 15: k2 ^= ((long) key.get(offset+14)) << 48;
case 14: k2 ^= ((long) key.get(offset+13)) << 40;
case 13: k2 ^= ((long) key.get(offset+12)) << 32;
case 12: k2 ^= ((long) key.get(offset+11)) << 24;
case 11: k2 ^= ((long) key.get(offset+10)) << 16;
case 10: k2 ^= ((long) key.get(offset+9)) << 8;
case  9: k2 ^= ((long) key.get(offset+8)) << 0;
         k2 *= c2; k2  = rotl64(k2,33); k2 *= c1; h2 ^= k2;
case  8: k1 ^= ((long) key.get(offset+7)) << 56;
 ...
case  1: k1 ^= ((long) key.get(offset));
         k1 *= c1; k1  = rotl64(k1,31); k1 *= c2; h1 ^= k1;
``` -/
def tailSwitch (key : List UInt8) (offset : Nat) (sw : Nat) (h1 h2 : UInt64) : UInt64 × UInt64 :=
  let k1 : UInt64 := 0
  let k2 : UInt64 := 0
  let k2 := if 15 ≤ sw then k2 ^^^ (toLong (get key (offset + 14)) <<< 48) else k2
  let k2 := if 14 ≤ sw then k2 ^^^ (toLong (get key (offset + 13)) <<< 40) else k2
  let k2 := if 13 ≤ sw then k2 ^^^ (toLong (get key (offset + 12)) <<< 32) else k2
  let k2 := if 12 ≤ sw then k2 ^^^ (toLong (get key (offset + 11)) <<< 24) else k2
  let k2 := if 11 ≤ sw then k2 ^^^ (toLong (get key (offset + 10)) <<< 16) else k2
  let k2 := if 10 ≤ sw then k2 ^^^ (toLong (get key (offset + 9)) <<< 8) else k2
  let k2 := if 9 ≤ sw then k2 ^^^ (toLong (get key (offset + 8)) <<< 0) else k2
  let h2 := if 9 ≤ sw then h2 ^^^ (rotl64 (k2 * c2) 33 * c1) else h2
  let k1 := if 8 ≤ sw then k1 ^^^ (toLong (get key (offset + 7)) <<< 56) else k1
  let k1 := if 7 ≤ sw then k1 ^^^ (toLong (get key (offset + 6)) <<< 48) else k1
  let k1 := if 6 ≤ sw then k1 ^^^ (toLong (get key (offset + 5)) <<< 40) else k1
  let k1 := if 5 ≤ sw then k1 ^^^ (toLong (get key (offset + 4)) <<< 32) else k1
  let k1 := if 4 ≤ sw then k1 ^^^ (toLong (get key (offset + 3)) <<< 24) else k1
  let k1 := if 3 ≤ sw then k1 ^^^ (toLong (get key (offset + 2)) <<< 16) else k1
  let k1 := if 2 ≤ sw then k1 ^^^ (toLong (get key (offset + 1)) <<< 8) else k1
  let k1 := if 1 ≤ sw then k1 ^^^ toLong (get key offset) else k1
  let h1 := if 1 ≤ sw then h1 ^^^ (rotl64 (k1 * c1) 31 * c2) else h1
  (h1, h2)

/-- `hash3_x64_128(key, 0, key.remaining(), 0)`: the pair `{h1, h2}`. -/
def hash3_x64_128 (key : List UInt8) : UInt64 × UInt64 :=
  let length := key.length
  let nblocks := length >>> 4
  -- for (int i = 0; i < nblocks; i++) { k1 = getblock(key, offset, i*2+0); k2 = getblock(key, offset, i*2+1); ... }
  let h := (List.range nblocks).foldl
    (fun h i => loopBody h (getblock key 0 (i * 2 + 0)) (getblock key 0 (i * 2 + 1))) ((0 : UInt64), (0 : UInt64))
  -- offset += nblocks * 16;
  let offset := nblocks * 16
  let h := tailSwitch key offset (length &&& 15) h.1 h.2
  -- h1 ^= length; h2 ^= length; h1 += h2; h2 += h1; h1 = fmix(h1); h2 = fmix(h2); h1 += h2; h2 += h1;
  let h1 := h.1 ^^^ UInt64.ofNat length
  let h2 := h.2 ^^^ UInt64.ofNat length
  let h1 := h1 + h2
  let h2 := h2 + h1
  let h1 := fmix h1
  let h2 := fmix h2
  let h1 := h1 + h2
  let h2 := h2 + h1
  (h1, h2)

/-- `Murmur3Partitioner.getToken(key)`:
```java
if (key.remaining() == 0) return MINIMUM;              // new LongToken(Long.MIN_VALUE)
long[] hash = getHash(key);                             // MurmurHash.hash3_x64_128(key, key.position(), key.remaining(), 0)
return new LongToken(normalize(hash[0]));               // v == Long.MIN_VALUE ? Long.MAX_VALUE : v
```
(ScyllaDB's `murmur3_partitioner::get_token` does the same: minimum token for an empty key.) -/
def getToken (key : List UInt8) : Int64 :=
  if key.length = 0 then Int64.minValue
  else
    let v := (hash3_x64_128 key).1.toInt64
    if v = Int64.minValue then Int64.maxValue else v

end Java

/-! ### The driver's streaming hasher -/

structure Hasher where
  totalLen : Nat
  /-- the `[u8; 16]` array -/
  buf : List UInt8
  h1 : UInt64
  h2 : UInt64
  deriving Repr

def init : Hasher := ⟨0, List.replicate 16 0, 0, 0⟩

/-- `buf[off .. off + src.len()].copy_from_slice(src)`. -/
def copyInto (buf : List UInt8) (off : Nat) (src : List UInt8) : List UInt8 :=
  buf.take off ++ src ++ buf.drop (off + src.length)

/-- Second phase: `while pk_part.len() >= 16 { hash_16_bytes(fetch_16_bytes_from_buf(&mut pk_part)) }`.
Returns the state and the unconsumed rest. -/
def phase2 (h : St) (pk : List UInt8) : St × List UInt8 :=
  if 16 ≤ pk.length then phase2 (hash16 h (fetch16 pk)) (pk.drop 16) else (h, pk)
termination_by pk.length
decreasing_by simp only [List.length_drop]; omega

/-- `write`, with the three phases of the Rust written out per path:
* buffer non-empty and fillable → phase 1 (fill, hash the buffer, `buf_len = 0`), then phase 2, then phase 3;
* buffer empty → phase 2, phase 3;
* buffer non-empty and not fillable → phase 3 only. -/
def write (s : Hasher) (pk : List UInt8) : Hasher :=
  let bufLen := s.totalLen % 16
  let totalLen := s.totalLen + pk.length
  if 0 < bufLen ∧ 16 - bufLen ≤ pk.length then
    let toWrite := min (16 - bufLen) pk.length
    let buf := copyInto s.buf bufLen (pk.take toWrite)
    let h := hash16 (s.h1, s.h2) (fetch16 buf)
    let r := phase2 h (pk.drop toWrite)
    ⟨totalLen, copyInto buf 0 r.2, r.1.1, r.1.2⟩
  else if bufLen = 0 then
    let r := phase2 (s.h1, s.h2) pk
    ⟨totalLen, copyInto s.buf 0 r.2, r.1.1, r.1.2⟩
  else
    ⟨totalLen, copyInto s.buf bufLen pk, s.h1, s.h2⟩

/-- `finish` before `Token::new`. -/
def finishRaw (s : Hasher) : UInt64 :=
  tailAndFinal (s.h1, s.h2) s.buf (s.totalLen % 16) s.totalLen

/-- `finish`: `Token::new(h1)`. -/
def finish (s : Hasher) : Int64 := tokenNew (finishRaw s).toInt64

/-- `Partitioner::hash_one`. -/
def hashOne (bs : List UInt8) : Int64 := finish (write init bs)

/-! ### CDC partitioner -/

inductive CdcState where
  | feeding (len : Nat) (buf : List UInt8)
  | computed (tok : Int64)
  deriving Repr

def cdcInit : CdcState := .feeding 0 (List.replicate 8 0)

/-- `Token::INVALID` -/
def tokenInvalid : Int64 := Int64.minValue

def cdcWrite : CdcState → List UInt8 → CdcState
  | .feeding len buf, pk =>
    let copied := min pk.length (8 - len)
    let buf := copyInto buf len (pk.take copied)
    let len := len + copied
    if len = 8 then .computed (tokenNew (be64 buf).toInt64) else .feeding len buf
  | .computed t, _ => .computed t

def cdcFinish : CdcState → Int64
  | .feeding _ _ => tokenInvalid
  | .computed t => t

/-- What the driver's CDC hasher computes, as a function of all the bytes written: the first 8 bytes as a
big-endian `i64` (normalised); `Token::INVALID` (`i64::MIN`) when fewer than 8 bytes were written. -/
def cdcRust (bs : List UInt8) : Int64 :=
  if bs.length < 8 then tokenInvalid else tokenNew (be64 bs).toInt64

/-- The server's rule — ScyllaDB `cdc/cdc_partitioner.cc`, `cdc_partitioner::get_token`:
```cpp
if (key.size() != 2 * sizeof(int64_t)) return dht::minimum_token();        // key must be exactly 16 bytes
return dht::token(stream_id::token_from_bytes(key));                       // first 8 bytes, big-endian int64
```
(`dht::token`'s constructor normalises `INT64_MIN` to `INT64_MAX`; `minimum_token` reads as `i64::MIN`.)
CDC log tables have the single partition-key column `cdc$stream_id`, always a 16-byte blob. -/
def cdcSpec (bs : List UInt8) : Int64 :=
  if bs.length = 16 then tokenNew (be64 bs).toInt64 else Int64.minValue

/-! ### partitioner selection by name -/

inductive PartitionerName where
  | murmur3
  | cdc
  deriving Repr, DecidableEq

/-- The UTF-8 bytes of `"Murmur3Partitioner"`. -/
def murmur3Suffix : List UInt8 :=
  [0x4d, 0x75, 0x72, 0x6d, 0x75, 0x72, 0x33, 0x50, 0x61, 0x72, 0x74, 0x69, 0x74, 0x69, 0x6f, 0x6e, 0x65, 0x72]
/-- The UTF-8 bytes of `"CDCPartitioner"`. -/
def cdcSuffix : List UInt8 :=
  [0x43, 0x44, 0x43, 0x50, 0x61, 0x72, 0x74, 0x69, 0x74, 0x69, 0x6f, 0x6e, 0x65, 0x72]

/-- `PartitionerName::from_str` (`partitioner.rs:36-46`) on the UTF-8 bytes of the name: `str::ends_with` is a byte
suffix test; Murmur3 is tested first. -/
def partitionerFromStr (name : List UInt8) : Option PartitionerName :=
  if murmur3Suffix.isSuffixOf name then some .murmur3
  else if cdcSuffix.isSuffixOf name then some .cdc
  else none

/-- `name.and_then(PartitionerName::from_str).unwrap_or_default()` (`session.rs:1708-1712`, `cluster/state.rs:479-483`):
no name or an unknown name selects the default, Murmur3. -/
def selectPartitioner (name : Option (List UInt8)) : PartitionerName :=
  match name with
  | none => .murmur3
  | some s => (partitionerFromStr s).getD .murmur3

/-! ### which partitioner a prepared statement gets (`Session::prepare`, `session.rs:1706-1729`) -/

/-- `cluster_state.keyspaces[ks].tables[t].partitioner`: the metadata snapshot the session holds when the statement
is prepared. Keyspace name ↦ (table name ↦ `Table::partitioner : Option<String>`), names as UTF-8 bytes. -/
abbrev SchemaSnapshot := List (List UInt8 × List (List UInt8 × Option (List UInt8)))

/-- `Session::extract_partitioner_name` (1717-1729): `get_table_spec()?` (the table of the first bind marker, `None`
for a statement without bind markers), `keyspaces.get(ks)?`, `tables.get(table)?`, `.partitioner.as_deref()`. -/
def extractPartitionerName (tableSpec : Option (List UInt8 × List UInt8)) (schema : SchemaSnapshot) :
    Option (List UInt8) :=
  match tableSpec with
  | none => none
  | some (ks, table) =>
    match schema.lookup ks with
    | none => none
    | some tables =>
      match tables.lookup table with
      | none => none
      | some partitioner => partitioner

/-- `prepared.set_partitioner_name(extract_partitioner_name(..).and_then(from_str).unwrap_or_default())`. -/
def preparedPartitioner (tableSpec : Option (List UInt8 × List UInt8)) (schema : SchemaSnapshot) : PartitionerName :=
  selectPartitioner (extractPartitionerName tableSpec schema)

end ScyllaVerif.Murmur3

import ScyllaVerif.Model.Retry
/-
The request execution fiber: `RequestExecutionParams::run_request_speculative_fiber`
(`scylla/src/client/execution.rs:519-644`) as driven by `run_request_no_side_effects` (`:403-514`) when no
speculative policy applies (one fiber; `None` ⇒ `RequestError::EmptyPlan`).  Import-free.

  'targets_in_plan: for target in request_plan {
      'same_target_retries: loop {
          get_connection()  -- Err ⇒ last_error = pool error; continue 'targets_in_plan   (nothing is sent)
          run_request_once(connection, current_consistency)                  -- ONE ATTEMPT
          Ok  ⇒ return Completed
          Err ⇒ decision = retry_session().decide_should_retry(error, is_idempotent, current_consistency)
                last_error = error
                RetrySameTarget(cl) ⇒ current_consistency = cl.unwrap_or(current); continue 'same_target_retries
                RetryNextTarget(cl) ⇒ current_consistency = cl.unwrap_or(current); continue 'targets_in_plan
                DontRetry           ⇒ break 'targets_in_plan
                IgnoreWriteError    ⇒ return IgnoredWriteError
      } }
  last_error.map(Err)                                                         -- None ⇒ EmptyPlan

The plan is a list of targets; a target is a connection oracle `Nat → Bool` indexed by the `get_connection()`
call on that target (`avail j` = the j-th call yields a connection): `get_connection` is called again in every
iteration of the inner loop (`:536`), so a target can stop yielding connections between two same-target attempts.
The server / network is the oracle `outcomes : Nat → Outcome` (what the k-th attempt returns).  The unbounded
`loop` is modelled with a fuel that every loop iteration consumes; `Props/C06.lean` proves that the fuel used by
`run` is never exhausted (and that any larger fuel gives the same trace).
-/
namespace ScyllaVerif.Exec
open ScyllaVerif.Retry

/-- What one `run_request_once` call returns. -/
inductive Outcome where
  | ok
  | fail (e : Err)
  deriving DecidableEq, Repr, Inhabited

/-- A target of the plan: whether its `j`-th `get_connection()` call (j = 0, 1, …) yields a connection. -/
abbrev Target := Nat → Bool

/-- A target whose pool always / never yields a connection; one that yields it for the first `n` calls only. -/
def Target.always : Target := fun _ => true
def Target.never : Target := fun _ => false
def Target.upTo (n : Nat) : Target := fun j => decide (j < n)

/-- The target as seen after one more `get_connection()` call. -/
def Target.next (av : Target) : Target := fun j => av (j + 1)

/-- One call of `run_request_once`: plan index of the target and the consistency it was sent with. -/
structure Attempt where
  target : Nat
  cl : Consistency
  deriving DecidableEq, Repr, Inhabited

/-- `last_error` (`execution.rs:529`): a pool error (`:544`) or the error of the last attempt (`:619`). -/
inductive LastErr where
  | pool
  | attempt (e : Err)
  deriving DecidableEq, Repr, Inhabited

/-- How the fiber ended.  `stopped` (after `DontRetry`, `break 'targets_in_plan`) and `exhausted` (the plan
iterator ended) both return `last_error.map(Err)` in the Rust code (`exhausted none` = `EmptyPlan`); the model
keeps them apart so that theorems can speak about "the plan ran out". -/
inductive Final where
  | completed (target : Nat)
  | ignored (target : Nat)
  | stopped (e : Err)
  | exhausted (last : Option LastErr)
  | outOfFuel
  deriving DecidableEq, Repr, Inhabited

/-- The fiber ended because the plan ran out (as opposed to success, `DontRetry`, `IgnoreWriteError`). -/
def Final.planRanOut : Final → Bool
  | .exhausted _ => true
  | _ => false

/-- A retry policy as the fiber sees it: `new_session()` and `decide_should_retry` (any `RetryPolicy`
implementation, with session state `σ`). -/
structure PolicyFn (σ : Type) where
  init : σ
  decide : σ → ReqInfo → σ × Decision

/-- The three built-in policies. -/
abbrev builtin (pol : Policy) : PolicyFn Sess := ⟨Sess.init, decideRetry pol⟩

/-- A test policy that answers the `i`-th consultation with the `i`-th scripted decision (`DontRetry` when the
script is over).  Used by the correspondence check to drive every arm of the loop with every consistency,
independently of what the built-in policies happen to answer. -/
def scripted (ds : List Decision) : PolicyFn Nat := ⟨0, fun i _ => (i + 1, ds.getD i .dontRetry)⟩

/-- Loop variables of the fiber. -/
structure Loc (σ : Type) where
  /-- number of `run_request_once` calls made so far (index of the next outcome) -/
  k : Nat
  /-- `current_consistency` -/
  cl : Consistency
  /-- `context.retry_session`: created lazily by the first `retry_session()` call (`:317-322`) -/
  sess : Option σ
  /-- `last_error` -/
  lastErr : Option LastErr

/-- Everything observable about one fiber. -/
structure Trace where
  /-- the attempts, in order (attempt `i` received `outcomes (k₀ + i)`) -/
  attempts : List Attempt
  /-- the decisions the retry session returned, in order (one per failed attempt) -/
  decisions : List Decision
  final : Final
  /-- number of `retry_policy.new_session()` calls -/
  newSessions : Nat
  deriving DecidableEq, Repr, Inhabited

/-- Prepend a failed attempt and the decision taken on it. -/
def Trace.push (tr : Trace) (a : Attempt) (d : Decision) (created : Nat) : Trace :=
  ⟨a :: tr.attempts, d :: tr.decisions, tr.final, created + tr.newSessions⟩

/-- The fiber loop.  `plan` = the targets not yet consumed (head = the current target), `t` = plan index of
the head.  Every iteration of either loop consumes one unit of fuel. -/
def exec {σ : Type} (P : PolicyFn σ) (idem : Bool) (outcomes : Nat → Outcome) :
    Nat → List Target → Nat → Loc σ → Trace
  | _, [], _, loc => ⟨[], [], .exhausted loc.lastErr, 0⟩            -- :643 `last_error.map(Result::Err)`
  | 0, _ :: _, _, _ => ⟨[], [], .outOfFuel, 0⟩
  | fuel + 1, av :: rest, t, loc =>
    if av 0 = false then                                             -- :536-547 choosing a connection failed
      exec P idem outcomes fuel rest (t + 1) { loc with lastErr := some .pool }
    else
    let a : Attempt := ⟨t, loc.cl⟩                                   -- :566-569 run_request_once
    match outcomes loc.k with
    | .ok => ⟨[a], [], .completed t, 0⟩                              -- :573-586
    | .fail e =>
      let created := if loc.sess.isSome then 0 else 1                -- :317-322 get_or_insert_with
      let r := P.decide (loc.sess.getD P.init) ⟨e, idem, loc.cl⟩       -- :605-611
      let loc' : Loc σ := ⟨loc.k + 1, r.2.newCl.getD loc.cl, some r.1, some (.attempt e)⟩
      match r.2 with
      | .retrySame _ =>                                              -- :622-626
        (exec P idem outcomes fuel (av.next :: rest) t loc').push a r.2 created   -- get_connection again
      | .retryNext _ =>                                              -- :627-631
        (exec P idem outcomes fuel rest (t + 1) loc').push a r.2 created
      | .dontRetry => ⟨[a], [.dontRetry], .stopped e, created⟩       -- :632 then :643
      | .ignoreWrite => ⟨[a], [.ignoreWrite], .ignored t, created⟩   -- :633-638

/-- Initial loop variables (`:529-530`; `retry_session: None` at `:446/:474`). -/
def Loc.init {σ : Type} (cl0 : Consistency) : Loc σ := ⟨0, cl0, none, none⟩

/-- One request without speculative execution, any retry policy: a single fiber over the whole plan, given
`fuel` loop iterations. -/
def runWith {σ : Type} (P : PolicyFn σ) (idem : Bool) (cl0 : Consistency) (plan : List Target)
    (outcomes : Nat → Outcome) (fuel : Nat) : Trace :=
  exec P idem outcomes fuel plan 0 (Loc.init cl0)

/-- One request with a built-in policy.  The fuel is proved sufficient (`Props.C06.loop_terminates`,
`fuel_irrelevant`). -/
def run (pol : Policy) (idem : Bool) (cl0 : Consistency) (plan : List Target) (outcomes : Nat → Outcome) : Trace :=
  runWith (builtin pol) idem cl0 plan outcomes (plan.length + sameTargetBound pol + 1)

/-! ### several fibers sharing one plan iterator (speculative execution)

`run_request_no_side_effects` (`execution.rs:420-461`), for an idempotent request with a speculative execution
policy, wraps the plan in `SharedPlan { iter: Mutex<I> }` and lets `speculative_execution::execute` start up to
`1 + max_retry_count` instances of `run_request_speculative_fiber`, each with `retry_session: None` (its OWN lazily
created retry session, `:446`) and its own `current_consistency` / `last_error`, all pulling targets from the
one shared iterator (`for target in request_plan` calls `SharedPlan::next`, which locks the mutex: each target
goes to exactly one fiber).  The fibers run interleaved at `.await` points; a fiber that is cancelled (another
one won) or not yet launched simply takes no further step.  This section models that as a small-step system:
one `Fiber.step` = one iteration of the fiber's inner loop (pulling the next target first when it holds none),
and a *schedule* (any list of fiber indices, any length) decides who moves.  `outcomes i k` = what the `k`-th
attempt of fiber `i` returns. -/

/-- A fiber between two iterations of its loop. -/
structure Fiber (σ : Type) where
  /-- the target it is working on: plan index and connection oracle (as seen from now); `none` = it will pull -/
  cur : Option (Nat × Target)
  /-- its own loop variables (`k` = attempts made by this fiber) -/
  loc : Loc σ
  /-- it returned (success, `DontRetry`, `IgnoreWriteError`, or the shared plan was exhausted) -/
  done : Bool
  /-- the attempts it made, latest first -/
  log : List Attempt

/-- A fiber that has just been created (`execution.rs:529-530`, `retry_session: None`). -/
def Fiber.fresh {σ : Type} (cl0 : Consistency) : Fiber σ := ⟨none, Loc.init cl0, false, []⟩

/-- The shared iterator: remaining targets and the plan index of the first of them. -/
structure SharedPlan where
  rest : List Target
  next : Nat

/-- One loop iteration of one fiber (same body as `exec`). -/
def Fiber.step {σ : Type} (P : PolicyFn σ) (idem : Bool) (outcomes : Nat → Outcome)
    (f : Fiber σ) (sp : SharedPlan) : Fiber σ × SharedPlan :=
  if f.done then (f, sp) else
  match f.cur with
  | none =>
    match sp.rest with
    | [] => ({ f with done := true }, sp)                             -- `for` ends: `last_error.map(Err)`
    | av :: rest => ({ f with cur := some (sp.next, av) }, ⟨rest, sp.next + 1⟩)   -- `SharedPlan::next`
  | some (t, av) =>
    if av 0 = false then                                              -- :536-547
      ({ f with cur := none, loc := { f.loc with lastErr := some .pool } }, sp)
    else
      let a : Attempt := ⟨t, f.loc.cl⟩
      match outcomes f.loc.k with
      | .ok => ({ f with done := true, log := a :: f.log, loc := { f.loc with k := f.loc.k + 1 } }, sp)
      | .fail e =>
        let r := P.decide (f.loc.sess.getD P.init) ⟨e, idem, f.loc.cl⟩
        let loc' : Loc σ := ⟨f.loc.k + 1, r.2.newCl.getD f.loc.cl, some r.1, some (.attempt e)⟩
        match r.2 with
        | .retrySame _ => (⟨some (t, av.next), loc', false, a :: f.log⟩, sp)
        | .retryNext _ => (⟨none, loc', false, a :: f.log⟩, sp)
        | .dontRetry => (⟨some (t, av), loc', true, a :: f.log⟩, sp)
        | .ignoreWrite => (⟨some (t, av), loc', true, a :: f.log⟩, sp)

/-- The `i`-th fiber of the list takes one step (`outcomes i` = the outcomes of its attempts). -/
def stepAt {σ : Type} (P : PolicyFn σ) (idem : Bool) (outcomes : Nat → Nat → Outcome) :
    Nat → Nat → List (Fiber σ) → SharedPlan → List (Fiber σ) × SharedPlan
  | _, _, [], sp => ([], sp)
  | id, 0, f :: fs, sp => let r := f.step P idem (outcomes id) sp; (r.1 :: fs, r.2)
  | id, i + 1, f :: fs, sp => let r := stepAt P idem outcomes (id + 1) i fs sp; (f :: r.1, r.2)

/-- Run a schedule: `sched` = which fiber moves next, in order. -/
def runSched {σ : Type} (P : PolicyFn σ) (idem : Bool) (outcomes : Nat → Nat → Outcome) :
    List Nat → List (Fiber σ) × SharedPlan → List (Fiber σ) × SharedPlan
  | [], st => st
  | i :: sched, st => let r := stepAt P idem outcomes 0 i st.1 st.2; runSched P idem outcomes sched r

/-- Total number of `run_request_once` calls made by all fibers. -/
def totalAttempts {σ : Type} (fs : List (Fiber σ)) : Nat := (fs.map (fun f => f.log.length)).sum

end ScyllaVerif.Exec

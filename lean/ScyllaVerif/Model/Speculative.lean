/-!
Model of the speculative-execution driver loop (C13).

Rust anchors (working tree of /repo):
* `scylla/src/policies/speculative_execution.rs:108-155`  `can_be_ignored`
* `scylla-cql-core/src/frame/response/error.rs:451-488`   `DbError::can_speculative_retry`
* `scylla/src/policies/speculative_execution.rs:165-218`  `execute` (the `select!` loop)
* `scylla/src/client/execution.rs:71-86`                  `SharedPlan` (one mutex-guarded iterator)
* `scylla/src/client/execution.rs:417-484`                the idempotence gate
* `scylla/src/client/execution.rs:486-501`                the client-side request timeout around the whole runner
* `scylla/src/client/execution.rs:519-644`                a fiber, seen from outside: it pops targets from
  the (shared) plan, has at most one attempt outstanding at a time, and completes with
  `Option<Result<_, RequestError>>` (`None` = it never got a target).

Import-free (core Lean only): linked into `md_C13`.
-/
namespace ScyllaVerif.Speculative

/-! ### The error universe and the `can_be_ignored` classification -/

/-- `OperationType` (`error.rs:161-165`). -/
inductive OpType
  | read | write | other (code : Nat)
  deriving DecidableEq, Repr, Inhabited

/-- `DbError` variants with their payloads (`error.rs:242-420`).  Consistencies and write types are carried by
name; no classification looks at any payload (every arm is `{ .. }`), which is a theorem, not a convention. -/
inductive DbErr
  | syntaxError | invalid
  | alreadyExists (keyspace table : String)
  | functionFailure (keyspace function : String) (argTypes : List String)
  | authenticationError | unauthorized | configError
  | unavailable (consistency : String) (required alive : Int)
  | overloaded | isBootstrapping | truncateError
  | readTimeout (consistency : String) (received required : Int) (dataPresent : Bool)
  | writeTimeout (consistency : String) (received required : Int) (writeType : String)
  | readFailure (consistency : String) (received required numfailures : Int) (dataPresent : Bool)
  | writeFailure (consistency : String) (received required numfailures : Int) (writeType : String)
  | unprepared (statementId : List UInt8)
  | serverError | protocolError
  | rateLimitReached (opType : OpType) (rejectedByCoordinator : Bool)
  | other (code : Int)
  deriving DecidableEq, Repr, Inhabited

/-- The variant of a `DbError`, payload forgotten. -/
inductive DbKind
  | syntaxError | invalid | alreadyExists | functionFailure | authenticationError | unauthorized
  | configError | unavailable | overloaded | isBootstrapping | truncateError | readTimeout
  | writeTimeout | readFailure | writeFailure | unprepared | serverError | protocolError
  | rateLimitReached | other
  deriving DecidableEq, Repr, Inhabited

def DbErr.kind : DbErr → DbKind
  | .syntaxError => .syntaxError | .invalid => .invalid | .alreadyExists .. => .alreadyExists
  | .functionFailure .. => .functionFailure | .authenticationError => .authenticationError
  | .unauthorized => .unauthorized | .configError => .configError | .unavailable .. => .unavailable
  | .overloaded => .overloaded | .isBootstrapping => .isBootstrapping | .truncateError => .truncateError
  | .readTimeout .. => .readTimeout | .writeTimeout .. => .writeTimeout | .readFailure .. => .readFailure
  | .writeFailure .. => .writeFailure | .unprepared .. => .unprepared | .serverError => .serverError
  | .protocolError => .protocolError | .rateLimitReached .. => .rateLimitReached | .other .. => .other

/-- `BrokenConnectionErrorKind` (`errors.rs:822-859`), the reasons a `BrokenConnectionError` wraps. -/
inductive BrokenKind
  | keepaliveTimeout | keepaliveRequestError | frameHeaderParseError (sub : String) | cqlEventHandlingError
  | unexpectedStreamId (id : Int) | writeError (ioKind : String) | tooManyOrphanedStreamIds (n : Nat) | channelError
  deriving DecidableEq, Repr, Inhabited

/-- `RequestAttemptError` variants (`errors.rs:955-1023`); nested parse / serialisation errors by variant name. -/
inductive AttemptErr
  | serializationError
  | cqlRequestSerialization (sub : String)
  | unableToAllocStreamId
  | brokenConnectionError (kind : BrokenKind)
  | bodyExtensionsParseError (sub : String)
  | cqlResultParseError (sub : String)
  | cqlErrorParseError (sub : String)
  | dbError (e : DbErr) (msg : String)
  | unexpectedResponse (kind : String)
  | repreparedIdChanged | repreparedIdMissingInBatch | nonfinishedPagingState
  deriving DecidableEq, Repr, Inhabited

/-- `ConnectionPoolError` (`errors.rs:553-568`). -/
inductive PoolErr
  | broken | initializing | nodeDisabledByHostFilter
  deriving DecidableEq, Repr, Inhabited

/-- `RequestError` variants (`errors.rs:907-931`). -/
inductive ReqErr
  | emptyPlan
  | connectionPoolError (e : PoolErr)
  | requestTimeout (ms : Nat)
  | lastAttemptError (e : AttemptErr)
  deriving DecidableEq, Repr, Inhabited

/-- `Result<T, RequestError>`. -/
inductive Res (α : Type)
  | ok (a : α)
  | err (e : ReqErr)
  deriving DecidableEq, Repr

/-- `DbError::can_speculative_retry` (`error.rs:451-488`), arm by arm (`{ .. }` = `..`). -/
def DbErr.canSpeculativeRetry : DbErr → Bool
  | .syntaxError | .invalid | .alreadyExists .. | .unauthorized | .protocolError => false
  | .authenticationError | .other _ => false
  | .functionFailure .. => false
  | .configError | .truncateError => false
  | .unavailable .. | .overloaded | .isBootstrapping | .readTimeout .. | .writeTimeout .. | .readFailure ..
  | .writeFailure .. | .unprepared .. | .serverError | .rateLimitReached .. => true

/-- The `LastAttemptError(e)` arm of `can_be_ignored` (`speculative_execution.rs:128-152`). -/
def AttemptErr.canBeIgnored : AttemptErr → Bool
  | .serializationError | .cqlRequestSerialization _ | .bodyExtensionsParseError _ | .cqlResultParseError _
  | .cqlErrorParseError _ | .unexpectedResponse _ | .repreparedIdChanged | .repreparedIdMissingInBatch
  | .nonfinishedPagingState => false
  | .brokenConnectionError _ | .unableToAllocStreamId => true
  | .dbError e _ => e.canSpeculativeRetry

/-- The `Err(e)` arm of `can_be_ignored` (`speculative_execution.rs:115-153`). -/
def ReqErr.canBeIgnored : ReqErr → Bool
  | .emptyPlan => false
  | .requestTimeout _ => false
  | .connectionPoolError _ => true
  | .lastAttemptError e => e.canBeIgnored

/-- `can_be_ignored` (`speculative_execution.rs:108-155`). -/
def canBeIgnored {α : Type} : Res α → Bool
  | .ok _ => false
  | .err e => e.canBeIgnored

/-! ### The state machine of `execute` together with the fibers' view of the shared plan -/

/-- State of one logical request.  `α` = payload of a success, `τ` = plan targets.
`handed` and `attempts` describe what the fibers did with the shared plan; `execute` itself never looks
at them. -/
structure St (α τ : Type) where
  /-- `retries_remaining` (`:173`). -/
  retriesRemaining : Nat
  /-- ids of the fibers inside `async_tasks` (`:176`); the id of a fiber is the number of generator calls before it. -/
  running : List Nat
  /-- the fused `sleep` (`:182`) has not terminated (it terminates when it fires without being re-set). -/
  sleepArmed : Bool
  /-- `last_error` (`:185`). -/
  lastError : Option (Res α)
  /-- number of `query_runner_generator` calls so far. -/
  started : Nat
  /-- what is left in the `SharedPlan` iterator (`execution.rs:73-86`). -/
  plan : List τ
  /-- ghost: every `(fiber, target)` handed out by `SharedPlan::next`, most recent first. -/
  handed : List (Nat × τ)
  /-- attempts currently on the wire: `(fiber, target)`. -/
  attempts : List (Nat × τ)
  /-- `self.request_timeout` in ms (`execution.rs:486-487`): if set, the runner is wrapped in `tokio::time::timeout`. -/
  deadlineMs : Option Nat
  /-- what the call (`runner` under the optional timeout) returned. -/
  returned : Option (Res α)
  deriving Repr

/-- Outcome of a fiber: `Option<Result<T, RequestError>>`; `none` = the plan was exhausted before the
fiber got a single target (`execution.rs:643`). -/
abbrev Outcome (α : Type) := Option (Res α)

inductive Event (α : Type)
  /-- the `_ = &mut sleep` branch of `select!` is taken (`:188-196`). -/
  | timerFires
  /-- fiber `i` calls `SharedPlan::next` (`execution.rs:532`). -/
  | pop (i : Nat)
  /-- fiber `i` sends an attempt to the target it holds (`execution.rs:567`; also a same-target retry). -/
  | send (i : Nat)
  /-- the attempt of fiber `i` finished (`execution.rs:569`). -/
  | attemptDone (i : Nat)
  /-- the `res = async_tasks.select_next_some()` branch is taken with fiber `i`'s output (`:197-215`). -/
  | complete (i : Nat) (o : Outcome α)
  /-- the client-side timeout elapses: `tokio::time::timeout(timeout, runner)` yields `Elapsed`, the runner (with
  every fiber) is dropped and the call returns `RequestError::RequestTimeout` (`execution.rs:487-499`). -/
  | deadline
  deriving Repr

/-- `execute` was entered for an idempotent request with a policy: `retries_remaining = max_retry_count`,
one fiber pushed, timer armed (`:173-185`). -/
def initSpec {α τ : Type} (maxRetry : Nat) (dl : Option Nat) (plan : List τ) : St α τ :=
  { retriesRemaining := maxRetry, running := [0], sleepArmed := true, lastError := none, started := 1,
    plan := plan, handed := [], attempts := [], deadlineMs := dl, returned := none }

/-- The `_ =>` arm of the gate (`execution.rs:462-482`): exactly one fiber, no timer;
`.await.unwrap_or(Err(EmptyPlan))` is what `complete` does with `retriesRemaining = 0`. -/
def initSingle {α τ : Type} (dl : Option Nat) (plan : List τ) : St α τ :=
  { retriesRemaining := 0, running := [0], sleepArmed := false, lastError := none, started := 1,
    plan := plan, handed := [], attempts := [], deadlineMs := dl, returned := none }

/-- The idempotence gate (`execution.rs:418-420`):
`Some((metrics, Some(speculative))) if self.is_idempotent` ⇒ the speculative machine, else one fiber. -/
def init {α τ : Type} (idempotent : Bool) (policyMaxRetry : Option Nat) (dl : Option Nat) (plan : List τ) : St α τ :=
  match policyMaxRetry with
  | some m => if idempotent then initSpec m dl plan else initSingle dl plan
  | none => initSingle dl plan

/-- The target fiber `i` currently holds = the last one `SharedPlan::next` gave it. -/
def currentTarget {τ : Type} (handed : List (Nat × τ)) (i : Nat) : Option τ :=
  (handed.find? (fun p => p.1 == i)).map (·.2)

def hasAttempt {τ : Type} (attempts : List (Nat × τ)) (i : Nat) : Bool :=
  attempts.any (fun p => p.1 == i)

/-- The tail of the `select_next_some` branch (`:210-214`). -/
def checkDone {α τ : Type} (s : St α τ) : St α τ :=
  if s.running.isEmpty && s.retriesRemaining == 0 then
    { s with returned := some (s.lastError.getD (.err .emptyPlan)) }
  else s

/-- One event.  Events that cannot happen in the current state (a completion of a fiber that is not running,
the timer branch after the fused sleep terminated, anything after the return) leave the state unchanged, so
every list of events is a schedule. -/
def step {α τ : Type} (s : St α τ) (e : Event α) : St α τ :=
  match s.returned with
  | some _ => s
  | none =>
    match e with
    | .timerFires =>
      if !s.sleepArmed then s
      else if s.retriesRemaining > 0 then
        -- push a new fiber, decrement, re-arm (`:189-195`)
        { s with running := s.running ++ [s.started], started := s.started + 1,
                 retriesRemaining := s.retriesRemaining - 1 }
      else
        -- the sleep completed and is not re-set: `Fuse` reports terminated, `select!` skips it from now on
        { s with sleepArmed := false }
    | .pop i =>
      if !s.running.contains i then s
      else match s.plan with
        | [] => s
        | t :: rest => { s with plan := rest, handed := (i, t) :: s.handed }
    | .send i =>
      -- NOT guarded by "fiber `i` has no attempt outstanding": that a fiber is sequential is a property of the
      -- schedule (`Props.C13.Sequential`), discharged for the retry loop of C06, not built into the machine
      if !s.running.contains i then s
      else match currentTarget s.handed i with
        | none => s
        | some t => { s with attempts := (i, t) :: s.attempts }
    | .attemptDone i =>
      { s with attempts := s.attempts.filter (fun p => p.1 != i) }
    | .complete i o =>
      if !s.running.contains i then s
      else
        -- the fiber's future is gone from `async_tasks`, and with it its outstanding attempt
        let s := { s with running := s.running.erase i, attempts := s.attempts.filter (fun p => p.1 != i) }
        match o with
        | some r =>
          if !canBeIgnored r then
            -- `return r` (`:199-200`): `async_tasks` is dropped, every other fiber is cancelled
            { s with returned := some r, running := [], attempts := [] }
          else checkDone { s with lastError := some r }
        | none => checkDone { s with retriesRemaining := 0 }
    | .deadline =>
      match s.deadlineMs with
      | none => s
      | some ms => { s with returned := some (.err (.requestTimeout ms)), running := [], attempts := [] }

def run {α τ : Type} (s : St α τ) (evs : List (Event α)) : St α τ := evs.foldl step s

/-- The events `select!` can take in `s` (the fibers' internal events are not `select!` branches). -/
def coreEnabled {α τ : Type} (s : St α τ) : Event α → Bool
  | .timerFires => s.returned.isNone && s.sleepArmed
  | .complete i _ => s.returned.isNone && s.running.contains i
  | _ => false

/-- Termination budgetMeasure: strictly decreased by every enabled `select!` branch (until the return). -/
def budgetMeasure {α τ : Type} (s : St α τ) : Nat :=
  match s.returned with
  | some _ => 0
  | none => 1 + 2 * s.running.length + 3 * s.retriesRemaining + (if s.sleepArmed then 1 else 0)

/-- The result (if any) that the `select_next_some` branch consumes when `e` happens in `s`. -/
def consumedBy {α τ : Type} (s : St α τ) : Event α → Option (Res α)
  | .complete i (some r) => if s.returned.isNone && s.running.contains i then some r else none
  | _ => none

/-- The results consumed by the `select_next_some` branch, in schedule order. -/
def consumed {α τ : Type} (s : St α τ) : List (Event α) → List (Res α)
  | [] => []
  | e :: es => (consumedBy s e).toList ++ consumed (step s e) es

/-! ### what reaches the gate from the session APIs (`session.rs:1047-1059`, `execution.rs:121-159`, `pager.rs:146-171`) -/

/-- The configuration a session API hands to `RequestExecutionParams::new_for_session_apis` / `PagingExecutor::new`:
the `StatementConfig` of the statement itself — for a BATCH that of the batch (`&batch.config`, `session.rs:1052-1053`),
its member statements have their own configs, which are never consulted — and the two execution profiles in play. -/
structure Submitted where
  /-- `config.is_idempotent` of the statement / of the batch -/
  isIdempotent : Bool
  /-- `is_idempotent` of the member statements of a batch (`[]` for a single statement) -/
  members : List Bool
  /-- the profile behind the statement's / batch's execution-profile handle, if it has one: its speculative policy's
  `max_retry_count` (`none` = that profile has no policy) -/
  ownProfile : Option (Option Nat)
  /-- the session's default profile, likewise -/
  sessionDefault : Option Nat

/-- `is_idempotent` of `RequestExecutionParams` (`execution.rs:128`): the statement's / batch's own flag. -/
def Submitted.gateIdempotent (r : Submitted) : Bool := r.isIdempotent

/-- The speculative policy (`execution.rs:147`, `pager.rs:148-171`, `session.rs:1047-1050`): that of the CHOSEN
profile — the statement's handle if it has one, else the session default. -/
def Submitted.gatePolicy (r : Submitted) : Option Nat :=
  match r.ownProfile with
  | some p => p
  | none => r.sessionDefault

/-- The machine a submitted request runs on. -/
def Submitted.start {α τ : Type} (r : Submitted) (dl : Option Nat) (plan : List τ) : St α τ :=
  init r.gateIdempotent r.gatePolicy dl plan

/-! ### `load_balancing::Plan` over an arbitrary policy (`plan.rs:110-169`) -/

/-- What a policy yields: a node and possibly a shard (`(NodeRef, Option<Shard>)`). -/
abbrev RawTarget := Nat × Option Nat

/-- The entries `Plan` takes from a policy, before shards are filled in (`plan.rs:113-168`): the picked target, then
the fallback with every entry EQUAL (node and `Option<Shard>`) to the picked one skipped; if `pick` returns `None`,
the first fallback entry plays the role of the picked one. -/
def lbRaw (pick : Option RawTarget) (fallback : List RawTarget) : List RawTarget :=
  match pick with
  | some p => p :: fallback.filter (fun t => t != p)
  | none =>
    match fallback with
    | [] => []
    | f :: rest => f :: rest.filter (fun t => t != f)

/-- `with_random_shard_if_unknown` (`plan.rs:94-107`) along a plan: an entry without a shard gets the next random
shard (`ρ`; the real code draws it below the node's shard count). -/
def resolveAll : List RawTarget → List Nat → List (Nat × Nat)
  | [], _ => []
  | (n, some s) :: rest, ρ => (n, s) :: resolveAll rest ρ
  | (n, none) :: rest, r :: ρ => (n, r) :: resolveAll rest ρ
  | (n, none) :: rest, [] => (n, 0) :: resolveAll rest []

/-- `SingleTargetLoadBalancingPolicy` (`single_target.rs:62-100`): `pick` is the configured node (if it is found in
the cluster metadata) with the configured shard, `fallback` is empty. -/
def singleTargetPick (found : Bool) (node : Nat) (shard : Option Nat) : Option RawTarget :=
  if found then some (node, shard) else none
def singleTargetFallback : List RawTarget := []

/-- Executable form of `Props.C13.rawSame`: two entries a policy yields are the same target. -/
def rawSameB (sharded : Nat → Bool) (a b : RawTarget) : Bool :=
  a.1 == b.1 && (!sharded a.1 || a.2.isNone || b.2.isNone || a.2 == b.2)

def pairwiseB {β : Type} (r : β → β → Bool) : List β → Bool
  | [] => true
  | x :: xs => xs.all (fun y => r x y) && pairwiseB r xs

/-- A policy's first choice: the picked entry, or (`pick = None`) the first fallback entry. -/
def policyHead (pick : Option RawTarget) (fallback : List RawTarget) : Option RawTarget :=
  match pick with
  | some p => some p
  | none => fallback.head?

/-- The fallback entries after the first choice, without the exact copies of it (which `Plan` skips). -/
def policyKept (pick : Option RawTarget) (fallback : List RawTarget) : List RawTarget :=
  (match pick with
   | some _ => fallback
   | none => fallback.tail).filter (fun t => some t != policyHead pick fallback)

/-- Executable form of `Props.C13.PolicyDistinct` (proved equivalent: `policyDistinctB_iff`). -/
def policyDistinctB (sharded : Nat → Bool) (pick : Option RawTarget) (fallback : List RawTarget) : Bool :=
  pairwiseB (fun a b => !rawSameB sharded a b) (policyKept pick fallback) &&
  (match policyHead pick fallback with
   | none => true
   | some h => (policyKept pick fallback).all (fun f => !rawSameB sharded h f))

/-! ### the plan of a page fetch (`pager.rs:337-365`) -/

/-- A target as `load_balancing::Plan` yields it: `(node, shard)`. -/
abbrev PlanTarget := Nat × Nat

/-- `PagingExecutor::fetch_one_page` (`pager.rs:337-365`): the plan of a page fetch is the stable coordinator of the
previous page (if any; `coordinator.shard().unwrap_or(2137)` — an unsharded coordinator has no shard and gets a
placeholder) followed by the load-balancing plan from which that coordinator is filtered out: a target is dropped iff
it is on the coordinator's node and (the coordinator is unsharded or the shard is the coordinator's). -/
def pagerPlan (coord : Option (Nat × Option Nat)) (lbPlan : List PlanTarget) : List PlanTarget :=
  match coord with
  | none => lbPlan
  | some (cn, cs) =>
    (cn, cs.getD 2137) ::
      lbPlan.filter (fun t => !(t.1 == cn && (match cs with | none => true | some lastShard => lastShard == t.2)))

/-- The target an attempt really goes to: on an unsharded node the shard is ignored (`connection_for_shard`). -/
def canonTarget (sharded : Nat → Bool) (t : PlanTarget) : PlanTarget := (t.1, if sharded t.1 then t.2 else 0)

/-- `e` is the client-side timeout taking effect in `s`. -/
def deadlineBy {α τ : Type} (s : St α τ) : Event α → Bool
  | .deadline => s.returned.isNone && s.deadlineMs.isSome
  | _ => false

/-- The client-side timeout took effect somewhere in the schedule. -/
def deadlineHit {α τ : Type} (s : St α τ) : List (Event α) → Bool
  | [] => false
  | e :: es => deadlineBy s e || deadlineHit (step s e) es

/-! ### per-fiber sequentiality as a property of the schedule -/

/-- Phase of every fiber (`true` = an attempt is outstanding) after one more event. -/
def phaseStep {α : Type} (ph : Nat → Bool) : Event α → Nat → Bool
  | .send i => fun j => if j = i then true else ph j
  | .attemptDone i => fun j => if j = i then false else ph j
  | .complete i _ => fun j => if j = i then false else ph j
  | _ => ph

/-- No fiber sends an attempt while its previous attempt is still outstanding. -/
def sequential {α : Type} (ph : Nat → Bool) : List (Event α) → Bool
  | [] => true
  | e :: es => (match e with | .send i => !ph i | _ => true) && sequential (phaseStep ph e) es

end ScyllaVerif.Speculative

/-!
# C14 — prepared statements: transparent re-preparation and faithful result-metadata handling

Executable model (import-free) of

* `scylla/src/network/connection.rs`
    - `reprepare` 695-743 (id check, `id().is_none()` early return, non-destructive update rule),
    - `handle_result_metadata_new_id` 938-972,
    - `calculate_cached_metadata_params` 974-1044 (zero-column rule, empty id),
    - `execute_raw_with_consistency` 1046-1148 (send → UNPREPARED → reprepare → re-send ONCE),
    - `batch_with_consistency` 1177-1246 (the `loop { … continue }` around BATCH),
* `scylla/src/statement/prepared.rs` 199-280, 567-579 (`PreparedStatementSharedData`: immutable `id`, `statement`,
  `initial_result_metadata`; `current_result_metadata : ArcSwap`, shared by all clones),
* `scylla-cql/src/frame/response/result.rs` 758-805 (`deser_result_metadata`), 810-852, 901-958
  (`deserialize_metadata`: server metadata if present, else the cached one, else `mock_empty`), 1015-1053.

The driver side is a small-step transition system: every *caller* is a program counter (`Pc`) plus at most one
message in flight (`Wire`); the atomic steps are

* `start`   — a caller builds a request (ONE load of the shared current result metadata) and sends it,
* `serve`   — the node consumes the request and produces its response (the abstract server, see below),
* `recv`    — the caller receives the response, handles it (load + possibly store of the shared metadata) and
              either finishes or sends its next request,
* `event`   — something happens on a node (eviction, schema change, id change, …).

Any number of callers, nodes and statement objects (`Nat`-indexed); a schedule is a list of steps.

## The abstract server is an ASSUMPTION about ScyllaDB (not about the driver)

`Node`, `serve` and `applyEvent` say how a node behaves: it keeps a cache `prepared : id ⇀ statement`, per statement
the id it would assign at PREPARE and its current result metadata `(mid, cols)`; on EXECUTE of an unknown id it
answers UNPREPARED; otherwise it sends rows encoded under its CURRENT columns and
  - with the metadata-id extension: metadata + new id iff the presented id differs from its current id,
  - else NO_METADATA iff the request said skip_metadata,
  - else the metadata without an id.
Everything proved about the *driver* (Props/C14.lean, part A) is independent of this; the end-to-end statements
("cached metadata = the columns the rows were encoded under", "an eviction is transparent") use it as an explicit
hypothesis (part B). `Ov` are one-shot BYZANTINE answers (outside the assumption: `NodeOK` demands none is pending);
they exist to drive the driver's error branches against the real code.

Unmodelled (not driven either): `Session::prepare` on all nodes, `CachingSession`, `prepare_batch` for
`BatchStatement::Query` with values (connection.rs:1248-1294), tracing, tablets payload.
-/
namespace ScyllaVerif.Prepared

/-- result-metadata ids: opaque byte strings (ASCII in the harness); the EMPTY string is the empty id the driver
presents when it has none (connection.rs:1015, 1036) -/
abbrev Id := String

/-- statement ids: what the node hands out at PREPARE. A node derives the id from the EXACT bytes of the query string
(md5 in ScyllaDB/Cassandra; here the injective "hash" is the string itself) plus a version that the byzantine
`idChange` event bumps. The driver only compares ids for equality. -/
structure SId where
  text : String
  ver : Nat
deriving DecidableEq, Repr

inductive Ty | int | text
deriving DecidableEq, Repr

structure Col where
  name : String
  ty : Ty
deriving DecidableEq, Repr

/-- result.rs:108 `ResultMetadata { id, col_count, col_specs }` -/
structure RMeta where
  id : Option Id
  colCount : Nat
  cols : List Col
deriving DecidableEq, Repr

/-- `ResultMetadata::mock_empty` -/
def RMeta.empty : RMeta := ⟨none, 0, []⟩

/-! ## wire -/

inductive Cell | int (n : Nat) | text (s : String)
deriving DecidableEq, Repr

/-- rows as sent: a count and the flat sequence of (length-prefixed) cells -/
structure RawRows where
  count : Nat
  cells : List Cell
deriving DecidableEq, Repr

structure ExecReq where
  id : SId
  /-- result metadata id: present iff the connection negotiated the extension -/
  mid : Option Id
  skip : Bool
  /-- the complete list of bound values -/
  values : List Nat
  cl : Nat
  /-- serial consistency -/
  scl : Option Nat
  ts : Option Int
  pageSize : Option Nat
  ps : Option String
deriving DecidableEq, Repr

structure BatchReq where
  /-- (statement id, bound values) per statement, in order -/
  stmts : List (SId × List Nat)
  cl : Nat
  scl : Option Nat
  ts : Option Int
deriving DecidableEq, Repr

inductive Req
  | prepare (text : String)
  | execute (r : ExecReq)
  | batch (r : BatchReq)
deriving DecidableEq, Repr

/-- RESULT/Rows as on the wire -/
structure RowsResp where
  /-- flag 0x0004 -/
  noMeta : Bool
  /-- flag 0x0008 + the id (only legal on a connection with the extension) -/
  newId : Option Id
  colCount : Nat
  /-- `[]` when `noMeta` -/
  cols : List Col
  more : Option String
  rows : RawRows
deriving DecidableEq, Repr

/-- RESULT/Prepared as on the wire (`mid` present iff the connection has the extension) -/
structure PrepResp where
  id : SId
  mid : Option Id
  noMeta : Bool
  colCount : Nat
  cols : List Col
deriving DecidableEq, Repr

inductive Resp
  /-- ERROR 0x2500 with the statement id -/
  | unprepared (id : SId)
  /-- any other ERROR: `code ≠ 0x2500` (0x2500 on the wire IS `unprepared`; theorems carry this side condition) -/
  | error (code : Nat)
  | void
  | rows (r : RowsResp)
  | prepared (p : PrepResp)
deriving DecidableEq, Repr

/-! ## driver: pure pieces -/

/-- result.rs:1015-1053 `deser_prepared` + 758-805: the result metadata a PREPARED response announces -/
def prepMeta (p : PrepResp) : RMeta :=
  { id := p.mid, colCount := p.colCount, cols := if p.noMeta then [] else p.cols }

/-- connection.rs:974-1044 -/
structure CParams where
  skip : Bool
  cached : Option RMeta
  mid : Option Id
deriving DecidableEq, Repr

def cachedParams (hasExt useCached : Bool) (m : RMeta) : CParams :=
  let skip := if m.colCount == 0 then false else (useCached || hasExt)
  let cached := if skip then some m else none
  let mid : Option Id :=
    match cached, hasExt with
    | some c, true => some (c.id.getD "")
    | _, false => none
    | none, true => some ""
  { skip, cached, mid }

/-- result.rs:767, 820: `metadata_changed = features.scylla_metadata_id_supported && (flags & 0x0008 != 0)`: the
flag is honoured only on a connection with the extension. (On a connection WITHOUT it a set flag would leave the id
bytes unparsed in the stream; that garbage is not modelled - a node without the extension never sets the flag,
`Props.C14.serve_noext`.) -/
def newIdSeen (ext : Bool) (r : RowsResp) : Option Id := if ext then r.newId else none

/-- result.rs:822-825: flag combination NO_METADATA + METADATA_CHANGED is a parse error -/
def rowsMalformed (ext : Bool) (r : RowsResp) : Bool := r.noMeta && (newIdSeen ext r).isSome

/-- result.rs:901-945 `deserialize_metadata`: which metadata the rows are decoded with -/
def metaUsed (ext : Bool) (cached : Option RMeta) (r : RowsResp) : RMeta :=
  if r.noMeta then
    match cached with
    | some c => c
    | none => RMeta.empty
  else { id := newIdSeen ext r, colCount := r.colCount, cols := r.cols }

/-- connection.rs:938-972 (`mu` = metadata of the response as decoded, i.e. `metaUsed`) -/
def handleNewId (cur mu : RMeta) : RMeta :=
  match mu.id with
  | none => cur
  | some _ =>
    let updated := mu.id != cur.id
    let sameIdButNonEmpty := !updated && cur.colCount == 0 && mu.colCount != 0
    if updated || sameIdButNonEmpty then mu else cur

inductive RepErr | idChanged
deriving DecidableEq, Repr

/-- connection.rs:695-743 after `prepare_raw` succeeded with `p`: new current metadata or the id error -/
def reprepare (stmtId : SId) (cur : RMeta) (p : PrepResp) : Except RepErr RMeta :=
  if p.id != stmtId then .error .idChanged
  else
    let m := prepMeta p
    if m.id.isNone then .ok cur
    else
      let nonDestructive := cur.colCount == 0 || m.colCount != 0
      if !nonDestructive then .ok cur
      else if cur.id != m.id then .ok m else .ok cur

/-! ## typed decoding of the rows (only as much as makes a wrong column set observable) -/

inductive Val | int (n : Nat) | text (hex : String)
deriving DecidableEq, Repr

def hexDigit (n : Nat) : Char :=
  if n < 10 then Char.ofNat (48 + n) else Char.ofNat (87 + n)

def hexByte (b : Nat) : String := String.ofList [hexDigit (b / 16 % 16), hexDigit (b % 16)]

def be4 (n : Nat) : List Nat := [n / 16777216 % 256, n / 65536 % 256, n / 256 % 256, n % 256]

def hexOfString (s : String) : String := String.join (s.toUTF8.toList.map (fun b => hexByte b.toNat))

/-- int: exactly 4 bytes (the server's text cells are never 4 bytes long); text: any valid UTF-8 -/
def decodeCell : Ty → Cell → Option Val
  | .int, .int n => some (.int n)
  | .int, .text _ => none
  | .text, .text s => some (.text (hexOfString s))
  | .text, .int n =>
    if (be4 n).all (· < 128) then some (.text (String.join ((be4 n).map hexByte))) else none

def decodeRow : List Col → List Cell → Option (List Val × List Cell)
  | [], cells => some ([], cells)
  | _ :: _, [] => none
  | c :: cs, x :: xs =>
    match decodeCell c.ty x, decodeRow cs xs with
    | some v, some (vs, rest) => some (v :: vs, rest)
    | _, _ => none

def decodeRows (cols : List Col) : Nat → List Cell → Option (List (List Val))
  | 0, _ => some []
  | n + 1, cells =>
    match decodeRow cols cells with
    | none => none
    | some (r, rest) =>
      match decodeRows cols n rest with
      | none => none
      | some rs => some (r :: rs)

/-! ## driver: what a caller gets back -/

inductive Outcome
  | rows (usedMeta : RMeta) (decoded : Option (List (List Val))) (more : Option String)
  | void
  | prepared
  | dbError (code : Nat)
  | repreparedIdChanged
  | repreparedIdMissingInBatch
  | unexpectedResponse
  | parseError
deriving DecidableEq, Repr

def unpreparedCode : Nat := 0x2500

/-- the final response of an execution as the caller sees it (connection_verif.rs `unpack`) -/
def execOutcome (ext : Bool) (cached : Option RMeta) : Resp → Outcome
  | .rows r =>
    if rowsMalformed ext r then .parseError
    else let m := metaUsed ext cached r; .rows m (decodeRows m.cols r.rows.count r.rows.cells) r.more
  | .void => .void
  | .prepared _ => .void
  | .error c => .dbError c
  | .unprepared _ => .dbError unpreparedCode

/-! ## driver: shared statement objects and callers -/

/-- prepared.rs:211-219 `PreparedStatementSharedData` (what all clones of one PreparedStatement share) -/
structure Stmt where
  text : String
  id : SId
  cur : RMeta
  initial : RMeta
deriving DecidableEq, Repr

structure ExecOp where
  /-- the statement object (heap index) the caller's handle points to -/
  obj : Nat
  node : Nat
  useCached : Bool
  cl : Nat
  scl : Option Nat
  /-- the timestamp of the request: the statement's own, else one drawn from the connection's generator when the
  request was first built (connection.rs:1055-1063) -/
  ts : Option Int
  pageSize : Option Nat
  ps : Option String
  values : List Nat
deriving DecidableEq, Repr

structure BatchOp where
  node : Nat
  cl : Nat
  scl : Option Nat
  ts : Option Int
  /-- (statement object, bound values) -/
  items : List (Nat × List Nat)
deriving DecidableEq, Repr

inductive Pc
  | idle
  /-- `Connection::prepare` for statement slot `slot` sent -/
  | fresh (slot node : Nat) (text : String)
  /-- first EXECUTE sent; `cached` = `cached_metadata_params.cached_metadata` of that request -/
  | exec1 (op : ExecOp) (cached : Option RMeta)
  | execPrep (op : ExecOp)
  | exec2 (op : ExecOp) (cached : Option RMeta)
  | batch (op : BatchOp) (frame : BatchReq)
  | batchPrep (op : BatchOp) (frame : BatchReq) (obj : Nat)
deriving DecidableEq, Repr

inductive Wire
  | none
  | req (node : Nat) (r : Req)
  | resp (r : Resp)
deriving DecidableEq, Repr

structure Caller where
  pc : Pc
  wire : Wire
deriving DecidableEq, Repr

/-! ## the abstract server (ASSUMPTION, see the header) -/

structure SMeta where
  mid : Id
  cols : List Col
deriving DecidableEq, Repr

/-- how PREPARED announces the result metadata of a statement:
`normal`: id + columns; `late`: the real id but NO_METADATA (ScyllaDB's `LIST ROLES OF`);
`late0`: the id of the empty metadata and NO_METADATA (Cassandra-like) -/
inductive Kind | normal | late | late0
deriving DecidableEq, Repr

structure SrvStmt where
  /-- version of the statement id the node assigns at PREPARE (`idChange` bumps it) -/
  idv : Nat
  smeta : SMeta
  kind : Kind
  prepFail : Bool
deriving DecidableEq, Repr

/-- one-shot byzantine answers (outside the server assumption; they drive the driver's error branches) -/
inductive Ov
  /-- next PREPARE answered RESULT/Void -/
  | prepVoid
  /-- next PREPARE answered with NO_METADATA but the real column count -/
  | prepCount
  /-- next EXECUTE of a known id answered ERROR 0x1001 / RESULT/Void -/
  | execError
  | execVoid
  /-- … answered with NO_METADATA and METADATA_CHANGED both set (only on a connection with the extension) -/
  | malformed
  /-- … answered with metadata (no id) although skip was requested -/
  | forceMeta
  /-- … answered with NO_METADATA although metadata was due -/
  | forceNoMeta
deriving DecidableEq, Repr

structure Node where
  ext : Bool
  /-- connections to this node were opened with a timestamp generator -/
  gen : Bool
  /-- the prepared-statement cache: the ids currently known (an id names its statement) -/
  prepared : List SId
  st : Nat → SrvStmt
  /-- byzantine: UNPREPARED names an id nobody asked about -/
  liar : Bool
  /-- byzantine: pending one-shot answer -/
  ov : Option Ov

/-- the statement universe of the harness: statement number `s < 8` written in one of 8 ways (`tv`): plain, leading /
trailing / surrounding whitespace and newlines, trailing semicolon, mixed case with inner double whitespace,
non-ASCII. The text is what the caller passes to `prepare()`; every byte of it matters for the id. -/
def textV (s tv : Nat) : String :=
  match tv with
  | 1 => s!" q{s}"
  | 2 => s!"q{s}\n"
  | 3 => s!"\n  q{s}\t \n"
  | 4 => s!"q{s};"
  | 5 => s!"Q{s} WHERE x = 'A  b'"
  | 6 => s!"q{s} /* żółć ☃ */"
  | 7 => s!"  q{s} -- ü \n;"
  | _ => s!"q{s}"

def textOf (s : Nat) : String := textV s 0
def emptyMid : Id := "mE"
def bogusId : SId := ⟨"bogus", 0⟩

def isWs (c : Char) : Bool := c == ' ' || c == '\n' || c == '\t' || c == '\r'

/-- what a node's parser ignores: surrounding whitespace (so a trimmed query string is the SAME statement - with a
DIFFERENT id) -/
def trimWs (s : String) : String :=
  String.ofList ((s.toList.dropWhile isWs).reverse.dropWhile isWs).reverse

def matchesStmt (t : String) (s : Nat) : Nat → Bool
  | 0 => false
  | tv + 1 => trimWs (textV s tv) == t || matchesStmt t s tv

def stmtOfTextAux (t : String) : Nat → Option Nat
  | 0 => none
  | n + 1 => if matchesStmt t n 8 then some n else stmtOfTextAux t n

/-- which statement a query string is (by its trimmed form), if any -/
def stmtOfText (t : String) : Option Nat := stmtOfTextAux (trimWs t) 8

/-- the id a node assigns: a function of the exact query string -/
def idOf (text : String) (idv : Nat) : SId := ⟨text, idv⟩

def lookupId (id : SId) (prepared : List SId) : Option Nat :=
  if prepared.contains id then stmtOfText id.text else none

def rowCells (cols : List Col) (v row : Nat) : Nat → List Cell
  | j =>
    match cols with
    | [] => []
    | c :: cs =>
      (match c.ty with
       | .int => Cell.int (v * 100 + row * 10 + j)
       | .text => Cell.text s!"s{v}r{row}c{j}") :: rowCells cs v row (j + 1)

def pageOf : Option String → Nat
  | some "p1" => 1
  | some "p2" => 2
  | _ => 0

/-- the rows a node sends for one EXECUTE: unpaged = rows 0,1; paged = one row per page, three pages -/
def genRows (cols : List Col) (v : Nat) (pageSize : Option Nat) (ps : Option String) : RawRows × Option String :=
  match pageSize with
  | none => (⟨2, rowCells cols v 0 0 ++ rowCells cols v 1 0⟩, none)
  | some _ =>
    let i := pageOf ps
    (⟨1, rowCells cols v i 0⟩, if i < 2 then some s!"p{i + 1}" else none)

def announcedMid (k : Kind) (m : SMeta) : Id :=
  match k with
  | .late0 => emptyMid
  | _ => m.mid

def firstUnknown (prepared : List SId) : List (SId × List Nat) → Option SId
  | [] => none
  | (id, _) :: rest => if prepared.contains id then firstUnknown prepared rest else some id

def isExecOv : Option Ov → Bool
  | some .execError | some .execVoid | some .malformed | some .forceMeta | some .forceNoMeta => true
  | _ => false

def serve (n : Node) : Req → Node × Resp
  | .prepare text =>
    match stmtOfText text with
    | none => (n, .error 0x2000)
    | some s =>
      let ss := n.st s
      if ss.prepFail then (n, .error 0x2200)
      else if n.ov == some .prepVoid then ({ n with ov := none }, .void)
      else
        let id := idOf text ss.idv
        let count := n.ov == some .prepCount
        let n' := { n with prepared := id :: n.prepared, ov := if count then none else n.ov }
        let normal := ss.kind == .normal && !count
        (n', .prepared { id, mid := if n.ext then some (announcedMid ss.kind ss.smeta) else none,
                         noMeta := !normal,
                         colCount := if normal || count then ss.smeta.cols.length else 0,
                         cols := if normal then ss.smeta.cols else [] })
  | .execute r =>
    match lookupId r.id n.prepared with
    | none => (n, .unprepared (if n.liar then bogusId else r.id))
    | some s =>
      let n' := if isExecOv n.ov then { n with ov := none } else n
      if n.ov == some .execError then (n', .error 0x1001)
      else if n.ov == some .execVoid then (n', .void)
      else
      let m := (n.st s).smeta
      let changed := n.ext && r.mid != some m.mid
      let (raw, more) := genRows m.cols (r.values.headD 0) r.pageSize r.ps
      if n.ov == some .malformed && n.ext then
        (n', .rows { noMeta := true, newId := some m.mid, colCount := m.cols.length, cols := [], more, rows := raw })
      else if n.ov == some .forceNoMeta then
        (n', .rows { noMeta := true, newId := none, colCount := m.cols.length, cols := [], more, rows := raw })
      else if changed then
        (n', .rows { noMeta := false, newId := some m.mid, colCount := m.cols.length, cols := m.cols, more, rows := raw })
      else if r.skip && !(n.ov == some .forceMeta) then
        (n', .rows { noMeta := true, newId := none, colCount := m.cols.length, cols := [], more, rows := raw })
      else
        (n', .rows { noMeta := false, newId := none, colCount := m.cols.length, cols := m.cols, more, rows := raw })
  | .batch b =>
    match firstUnknown n.prepared b.stmts with
    | some id => (n, .unprepared (if n.liar then bogusId else id))
    | none => (n, .void)

inductive Event
  | evict (s : Nat)
  | schemaChange (s : Nat) (m : SMeta)
  | idChange (s : Nat)
  | prepFail (s : Nat) (on : Bool)
  | liar (on : Bool)
  | override (o : Ov)
deriving DecidableEq, Repr

def setSt (f : Nat → SrvStmt) (s : Nat) (v : SrvStmt) : Nat → SrvStmt := fun i => if i = s then v else f i

def applyEvent (n : Node) : Event → Node
  | .evict s => { n with prepared := n.prepared.filter (fun e => stmtOfText e.text != some s) }
  | .schemaChange s m => { n with st := setSt n.st s { n.st s with smeta := m } }
  | .idChange s => { n with st := setSt n.st s { n.st s with idv := (n.st s).idv + 1 } }
  | .prepFail s on => { n with st := setSt n.st s { n.st s with prepFail := on } }
  | .liar on => { n with liar := on }
  | .override o => { n with ov := some o }

/-! ## global state and steps -/

structure State where
  /-- heap of statement objects (`Arc<PreparedStatementSharedData>`) -/
  objs : Nat → Stmt
  nObjs : Nat
  /-- the harness's variable "current PreparedStatement for statement number s" -/
  slot : Nat → Option Nat
  node : Nat → Node
  caller : Nat → Caller
  /-- draws made so far from the (shared, scripted) timestamp generator: the k-th draw is `1000000 + k` -/
  tsCtr : Nat

def upd {α : Type} (f : Nat → α) (k : Nat) (v : α) : Nat → α := fun i => if i = k then v else f i

/-- what a step shows to the outside -/
inductive Obs
  | invalid
  | sent (node : Nat) (r : Req)
  | served (r : Resp)
  | done (o : Outcome)
  | event
deriving DecidableEq, Repr

/-- an execution as requested by the harness: statement SLOT instead of object -/
structure ExecArgs where
  slot : Nat
  node : Nat
  useCached : Bool
  cl : Nat
  scl : Option Nat
  /-- the statement's own timestamp (`set_timestamp`) -/
  ts : Option Int
  pageSize : Option Nat
  ps : Option String
  values : List Nat
deriving DecidableEq, Repr

structure BatchArgs where
  node : Nat
  cl : Nat
  scl : Option Nat
  ts : Option Int
  /-- (statement slot, values) -/
  items : List (Nat × List Nat)
deriving DecidableEq, Repr

inductive Op
  /-- `Connection::prepare(Statement::new(text))`; the result becomes the harness's statement number `slot` -/
  | prepare (slot node : Nat) (text : String)
  | execute (a : ExecArgs)
  | batch (a : BatchArgs)
deriving DecidableEq, Repr

/-- connection.rs:1065-1081: the EXECUTE frame of a statement object under given cached-metadata parameters -/
def execFrame (s : Stmt) (op : ExecOp) (cp : CParams) : ExecReq :=
  { id := s.id, mid := cp.mid, skip := cp.skip, values := op.values, cl := op.cl, scl := op.scl, ts := op.ts,
    pageSize := op.pageSize, ps := op.ps }

/-- connection.rs:1055-1063, 1195-1201: `statement.get_timestamp().or_else(|| generator.next_timestamp())`:
the statement's own timestamp wins and then the generator is NOT consulted -/
def drawTs (st : State) (node : Nat) (own : Option Int) : Option Int × Nat :=
  match own with
  | some t => (some t, st.tsCtr)
  | none => if (st.node node).gen then (some (Int.ofNat (1000000 + st.tsCtr)), st.tsCtr + 1) else (none, st.tsCtr)

def setCaller (st : State) (k : Nat) (c : Caller) : State := { st with caller := upd st.caller k c }

def setCur (st : State) (o : Nat) (m : RMeta) : State :=
  { st with objs := upd st.objs o { st.objs o with cur := m } }

def resolveItems (slot : Nat → Option Nat) : List (Nat × List Nat) → Option (List (Nat × List Nat))
  | [] => some []
  | (s, v) :: rest =>
    match slot s, resolveItems slot rest with
    | some o, some r => some ((o, v) :: r)
    | _, _ => none

/-- caller `k` (idle) starts an operation: builds the first request and sends it -/
def start (st : State) (k : Nat) (op : Op) : State × Obs :=
  match (st.caller k).pc, (st.caller k).wire with
  | .idle, .none =>
    match op with
    | .prepare slot node text =>
      let r := Req.prepare text
      (setCaller st k ⟨.fresh slot node text, .req node r⟩, .sent node r)
    | .execute a =>
      match st.slot a.slot with
      | none => (st, .invalid)
      | some o =>
        let s := st.objs o
        let (ts, ctr) := drawTs st a.node a.ts
        let eop : ExecOp := { obj := o, node := a.node, useCached := a.useCached, cl := a.cl, scl := a.scl, ts := ts,
                              pageSize := a.pageSize, ps := a.ps, values := a.values }
        let cp := cachedParams (st.node a.node).ext a.useCached s.cur
        let r := Req.execute (execFrame s eop cp)
        (setCaller { st with tsCtr := ctr } k ⟨.exec1 eop cp.cached, .req a.node r⟩, .sent a.node r)
    | .batch a =>
      match resolveItems st.slot a.items with
      | none => (st, .invalid)
      | some items =>
        let (ts, ctr) := drawTs st a.node a.ts
        let frame : BatchReq := { stmts := items.map (fun (o, v) => ((st.objs o).id, v)), cl := a.cl, scl := a.scl, ts := ts }
        let r := Req.batch frame
        (setCaller { st with tsCtr := ctr } k ⟨.batch ⟨a.node, a.cl, a.scl, ts, items⟩ frame, .req a.node r⟩, .sent a.node r)
  | _, _ => (st, .invalid)

/-- the node the request is addressed to consumes it and answers -/
def serveStep (st : State) (k : Nat) : State × Obs :=
  match (st.caller k).wire with
  | .req n r =>
    let (n', resp) := serve (st.node n) r
    ({ st with node := upd st.node n n', caller := upd st.caller k { st.caller k with wire := .resp resp } }, .served resp)
  | _ => (st, .invalid)

def finish (st : State) (k : Nat) (o : Outcome) : State × Obs :=
  (setCaller st k ⟨.idle, .none⟩, .done o)

def send (st : State) (k : Nat) (pc : Pc) (node : Nat) (r : Req) : State × Obs :=
  (setCaller st k ⟨pc, .req node r⟩, .sent node r)

/-- batch: the statement the UNPREPARED id belongs to (`find_map` over the batch's statements) -/
def findInBatch (objs : Nat → Stmt) (id : SId) : List (Nat × List Nat) → Option Nat
  | [] => none
  | (o, _) :: rest => if (objs o).id == id then some o else findInBatch objs id rest

/-- `handle_result_metadata_new_id` applied to a response (only Rows responses matter) -/
def handleResp (st : State) (ext : Bool) (o : Nat) (cached : Option RMeta) : Resp → State
  | .rows r => if rowsMalformed ext r then st else setCur st o (handleNewId (st.objs o).cur (metaUsed ext cached r))
  | _ => st

/-- caller `k` receives the response in flight to it and reacts -/
def recv (st : State) (k : Nat) : State × Obs :=
  match (st.caller k).wire with
  | .resp resp =>
    match (st.caller k).pc with
    | .idle => (st, .invalid)
    | .fresh slot _ text =>
      match resp with
      | .prepared p =>
        let m := prepMeta p
        let o := st.nObjs
        let st' := { st with objs := upd st.objs o ⟨text, p.id, m, m⟩, nObjs := o + 1, slot := upd st.slot slot (some o) }
        finish st' k .prepared
      | .error c => finish st k (.dbError c)
      | .unprepared _ => finish st k (.dbError unpreparedCode)
      | _ => finish st k .unexpectedResponse
    | .exec1 op cached =>
      -- connection.rs:1100 (before looking at the response kind)
      let ext := (st.node op.node).ext
      let st1 := handleResp st ext op.obj cached resp
      match resp with
      | .unprepared _ =>
        -- connection.rs:1112 `reprepare(prepared_statement.get_statement(), ..)`
        send st1 k (.execPrep op) op.node (.prepare (st1.objs op.obj).text)
      | r => finish st1 k (execOutcome ext cached r)
    | .execPrep op =>
      match resp with
      | .prepared p =>
        let s := st.objs op.obj
        match reprepare s.id s.cur p with
        | .error _ => finish st k .repreparedIdChanged
        | .ok m =>
          let st1 := setCur st op.obj m
          let s1 := st1.objs op.obj
          -- connection.rs:1115-1117: metadata re-read, parameters recomputed
          let cp := cachedParams (st.node op.node).ext op.useCached s1.cur
          send st1 k (.exec2 op cp.cached) op.node (.execute (execFrame s1 op cp))
      | .error c => finish st k (.dbError c)
      | .unprepared _ => finish st k (.dbError unpreparedCode)
      | _ => finish st k .unexpectedResponse
    | .exec2 op cached =>
      let ext := (st.node op.node).ext
      let st1 := handleResp st ext op.obj cached resp
      finish st1 k (execOutcome ext cached resp)
    | .batch op frame =>
      match resp with
      | .unprepared id =>
        match findInBatch st.objs id op.items with
        | some o => send st k (.batchPrep op frame o) op.node (.prepare (st.objs o).text)
        | none => finish st k .repreparedIdMissingInBatch
      | .error c => finish st k (.dbError c)
      | _ => finish st k .void
    | .batchPrep op frame o =>
      match resp with
      | .prepared p =>
        let s := st.objs o
        match reprepare s.id s.cur p with
        | .error _ => finish st k .repreparedIdChanged
        | .ok m => send (setCur st o m) k (.batch op frame) op.node (.batch frame)
      | .error c => finish st k (.dbError c)
      | .unprepared _ => finish st k (.dbError unpreparedCode)
      | _ => finish st k .unexpectedResponse
  | _ => (st, .invalid)

def eventStep (st : State) (n : Nat) (e : Event) : State × Obs :=
  ({ st with node := upd st.node n (applyEvent (st.node n) e) }, .event)

inductive Step
  | start (k : Nat) (op : Op)
  | serve (k : Nat)
  | recv (k : Nat)
  | event (n : Nat) (e : Event)
deriving DecidableEq, Repr

def step (st : State) : Step → State × Obs
  | .start k op => start st k op
  | .serve k => serveStep st k
  | .recv k => recv st k
  | .event n e => eventStep st n e

def run (st : State) : List Step → State × List Obs
  | [] => (st, [])
  | x :: xs =>
    let (st1, o) := step st x
    let (st2, os) := run st1 xs
    (st2, o :: os)

/-- the states of `run` (for stating invariants) -/
def exec (st : State) : List Step → State
  | [] => st
  | x :: xs => exec (step st x).1 xs

end ScyllaVerif.Prepared

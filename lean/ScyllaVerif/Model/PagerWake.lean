import ScyllaVerif.Model.Pager
/-!
C07: wake-ups of the consumer task, explicitly (`QueryPager::poll_fill_page` / `poll_next_page`,
pager.rs 750-791, on top of `tokio::sync::mpsc::Receiver::poll_recv`).

`Model/Pager.lean` lets a poll happen at any time (every schedule `List Op`), which is the right
over-approximation for the safety theorems. Whether the consumer task is ever polled AGAIN after a poll
returned `Pending` is a separate question: a task that returned `Pending` runs again only if somebody wakes
it. This file adds that layer:

* `woken`: the consumer task is runnable. A poll happens only then.
* `registered`: the receiver's waker sits in the channel. `poll_recv` registers it exactly when it
  returns `Pending` (channel empty, sender alive); a later `send` or the drop of the `Sender` wakes a
  registered receiver once. A `poll_recv` that returned `Ready` registers nothing.
* `poll_fill_page`, after receiving an EMPTY page, returns `Pending` although `poll_recv` was `Ready`:
  nobody is registered to wake the task, so it wakes itself first (`cx.waker().wake_by_ref()`, line 761).
  `selfWake` is that line: with `selfWake = false` the model exhibits the lost wake-up.

The `St` component evolves by the step functions of `Model/Pager.lean` (a gated poll is a stutter), so
every theorem proved for all schedules there holds for the wake-aware executions as well.
-/
namespace ScyllaVerif.PagerWake
open ScyllaVerif.Pager

structure W where
  s : St
  woken : Bool
  registered : Bool
  deriving Repr

/-- The caller's task runs the constructor and then its consuming loop: runnable from the start. -/
def initW (pages : List Page) (faults : List Attempt) : W := ⟨init pages faults, true, false⟩

/-- Producer step. A successful `send` (channel none -> some) and the drop of the `Sender` (the task
returns) notify the receiver: a registered waker is woken and taken out. -/
def stepProdW (x : W) : W :=
  let s' := stepProd x.s
  let notifies := (x.s.chan.isNone && s'.chan.isSome) || (x.s.pc != .done && s'.pc == .done)
  if notifies && x.registered then ⟨s', true, false⟩ else ⟨s', x.woken, x.registered⟩

/-- One poll of the row stream by the consumer task - only if the task is runnable. -/
def stepPollW (selfWake : Bool) (x : W) : W :=
  if !x.woken || x.s.rx != .alive then x
  else
    let s' := stepPoll x.s
    if s'.ended && !x.s.ended then ⟨s', false, false⟩          -- Ready(None): the consuming loop is over
    else if s'.delivered.length != x.s.delivered.length || s'.errs.length != x.s.errs.length then
      ⟨s', true, false⟩                                        -- Ready(Some(..)): the loop calls next() again
    else if s'.taken != x.s.taken then
      ⟨s', selfWake, false⟩                                    -- empty page: Pending; poll_recv was Ready - nothing registered
    else if x.s.ended then ⟨s', false, false⟩
    else ⟨s', false, true⟩                                     -- poll_recv returned Pending: waker registered

def stepDropW (x : W) : W :=
  match x.s.rx with
  | .alive => ⟨stepDrop x.s, false, false⟩
  | _ => x

def stepW (selfWake : Bool) (x : W) : Op → W
  | .prod => stepProdW x
  | .poll => stepPollW selfWake x
  | .drop => stepDropW x

def runW (selfWake : Bool) (x : W) (ops : List Op) : W := ops.foldl (stepW selfWake) x

/-- Round robin, wake-aware. -/
def runEagerW (selfWake : Bool) : Nat → W → W
  | 0, x => x
  | n + 1, x =>
    if x.s.ended || x.s.ctorErr.isSome then x else runEagerW selfWake n (stepPollW selfWake (stepProdW x))

end ScyllaVerif.PagerWake

import ScyllaVerif.Model.Carrier
import ScyllaVerif.Model.Row
/-
Row-level binding (C17): `SerializeRow` for Rust tuples, slices / `Vec<T>` and by-name maps, through
`SerializedValues::from_serializable`, and `SerializedValues::new_from_frame`.  Core Lean only.

* `bindCells`   ← the `serialize_column(..)?` sequence (`serialize/row.rs:124-136`): `make_cell_writer` (count + 1,
  BEFORE the value is written), the value's serializer, the error wrapped in `ColumnSerializationFailed{name}`.
* `serializeRow (.seq vs)`   ← `impl_serialize_row_for_slice!` (138-164), `impl_tuple!` (269-305),
  `impl_serialize_row_for_unit!` (85-117): column count first (`WrongColumnCount`, nothing written), then the
  columns in order.
* `serializeRow (.byName m)` ← `impl_serialize_row_for_map!` (190-236): for every bind marker the value of that
  name (`ValueMissingForColumn`), afterwards the keys that no marker used (`NoColumnWithName`, the
  lexicographically smallest, raised AFTER every column was written).  Map keys are distinct.
* `fromSerializable` ← `from_serializable` → `from_closure` (520-549): fresh writer, the row's `serialize`, the
  `usize → u16` conversion of the count.  On any error there is no `SerializedValues` at all.
* `newFromFrame` ← `new_from_frame` (624-637): `[short n]`, then `n` `[value]`s read with `read_value`, the bytes
  consumed are copied; the rest of the buffer is returned.
-/
namespace ScyllaVerif.C17Bind
open ScyllaVerif.Vint ScyllaVerif.Cql ScyllaVerif.Carrier ScyllaVerif.Row

structure Col where
  name : String
  ty : CqlTy
  deriving Repr, Inhabited

inductive BindErr where
  | wrongColumnCount
  | valueMissingForColumn (name : String)
  | noColumnWithName (name : String)
  | column (name : String) (e : SerErr)
  | tooManyValues
  deriving Repr, DecidableEq, Inhabited

/-- A Rust row value: positional (tuple, slice, `Vec`) or by name (`HashMap` / `BTreeMap` keyed by column name). -/
inductive RowVal where
  | seq (vs : List RVal)
  | byName (m : List (String × RVal))
  /-- a `#[derive(SerializeRow)]` struct of the default (by-name) flavor without attributes: its fields in
  DECLARATION order -/
  | derived (fields : List (String × RVal))
  deriving Repr, Inhabited

/-- `serialize_column(v, col, writer)?` for each pair, in order. -/
def bindCells : List (Col × RVal) → RW → RW × Option BindErr
  | [], w => (w, none)
  | (c, v) :: rest, w =>
    match w.makeCell (ser c.ty v true) with
    | (w', some e) => (w', some (.column c.name e))
    | (w', none) => bindCells rest w'

def lookupName (n : String) : List (String × RVal) → Option RVal
  | [] => none
  | (k, v) :: r => if k = n then some v else lookupName n r

/-- The by-name loop: every bind marker in order, looked up by its name. -/
def bindByName (m : List (String × RVal)) : List Col → RW → RW × Option BindErr
  | [], w => (w, none)
  | c :: rest, w =>
    match lookupName c.name m with
    | none => (w, some (.valueMissingForColumn c.name))
    | some v =>
      match w.makeCell (ser c.ty v true) with
      | (w', some e) => (w', some (.column c.name e))
      | (w', none) => bindByName m rest w'

/-- `iter().min()` on strings. -/
def minName : List String → Option String
  | [] => none
  | a :: r => match minName r with
    | none => some a
    | some b => if a < b then some a else some b

/-! #### derived by-name structs: `ByName::serialize` (scylla-cql-core/src/_macro_internal.rs:198-231) over the
generated partial struct (scylla-macros/src/serialize/row.rs:262-376, no flattened field): one `visited` flag per field
and `remaining_count`, initially the number of fields. -/

structure Partial where
  visited : List Bool
  remaining : Nat
  deriving Repr, Inhabited

/-- the `match spec.name()` of the generated `serialize_field`: the arm of the FIRST field of that name. -/
def fieldIdx (n : String) : List (String × RVal) → Nat → Option (Nat × RVal)
  | [], _ => none
  | (k, v) :: r, i => if k = n then some (i, v) else fieldIdx n r (i + 1)

/-- `if !self.visited_i { self.visited_i = true; self.remaining_count -= 1; }` -/
def Partial.visit (p : Partial) (i : Nat) : Partial :=
  if p.visited.getD i false then p else ⟨p.visited.set i true, p.remaining - 1⟩

/-- The loop of `ByName::serialize`: every bind marker in order; `NotUsed` (no arm) = `ValueMissingForColumn`. -/
def derivedLoop (fs : List (String × RVal)) : List Col → Partial → RW → RW × Partial × Option BindErr
  | [], p, w => (w, p, none)
  | c :: rest, p, w =>
    match fieldIdx c.name fs 0 with
    | none => (w, p, some (.valueMissingForColumn c.name))
    | some (i, v) =>
      match w.makeCell (ser c.ty v true) with
      | (w', some e) => (w', p, some (.column c.name e))
      | (w', none) => derivedLoop fs rest (p.visit i) w'

/-- the `#(if !self.visited_i { return Err(NoColumnWithName{field_i}) })*` chain: DECLARATION order. -/
def firstUnvisited : List (String × RVal) → List Bool → Option String
  | (k, _) :: fs, b :: bs => if b then firstUnvisited fs bs else some k
  | _, _ => none

/-- the generated `check_missing`: the shortcut on `remaining_count == 0` first. -/
def checkMissing (fs : List (String × RVal)) (p : Partial) : Option BindErr :=
  if p.remaining == 0 then none
  else (firstUnvisited fs p.visited).map BindErr.noColumnWithName

/-- `<R as SerializeRow>::serialize(ctx, writer)`. -/
def serializeRow (rv : RowVal) (cols : List Col) (w : RW) : RW × Option BindErr :=
  match rv with
  | .seq vs =>
    if cols.length ≠ vs.length then (w, some .wrongColumnCount)
    else bindCells (cols.zip vs) w
  | .byName m =>
    match bindByName m cols w with
    | (w', some e) => (w', some e)
    | (w', none) =>
      match minName ((m.map (·.1)).filter (fun k => !(cols.any (fun c => c.name == k)))) with
      | some k => (w', some (.noColumnWithName k))
      | none => (w', none)
  | .derived fs =>
    match derivedLoop fs cols ⟨List.replicate fs.length false, fs.length⟩ w with
    | (w', _, some e) => (w', some e)
    | (w', p, none) => (w', checkMissing fs p)

/-- `SerializedValues::from_serializable(ctx, row)`. -/
def fromSerializable (rv : RowVal) (cols : List Col) : Except BindErr SV :=
  match serializeRow rv cols RW.new with
  | (_, some e) => .error e
  | (w, none) =>
    match w.finish with
    | none => .error .tooManyValues
    | some sv => .ok sv

/-! ### batches (`scylla-cql/src/serialize/raw_batch.rs:131-170`, `frame/request/batch.rs:82-135`)

`RawBatchValuesAdapter` pairs the value lists with one `RowSerializationContext` PER STATEMENT (`contexts.next()` in
`serialize_next` / `skip_next`); `Batch::do_serialize` gives every statement its own `RowWriter` on the request buffer,
converts its count to `u16` (`TooManyValues`), refuses fewer value lists than statements (`serialize_next` = `None`) and,
after the last statement, more value lists than statements (`skip_next` = `Some`).  On any error the request is not built. -/

inductive BatchErr where
  | countsMismatch
  | stmt (idx : Nat) (e : BindErr)
  deriving Repr, DecidableEq, Inhabited

/-- The value lists of a batch bound statement by statement, each against ITS OWN statement's bind markers. -/
def bindBatch : List (List Col) → List (List RVal) → Nat → Except BatchErr (List SV)
  | [], [], _ => .ok []
  | [], _ :: _, _ => .error .countsMismatch
  | _ :: _, [], _ => .error .countsMismatch
  | cols :: ss, vs :: rs, i =>
    match fromSerializable (.seq vs) cols with
    | .error e => .error (.stmt i e)
    | .ok sv =>
      match bindBatch ss rs (i + 1) with
      | .error e => .error e
      | .ok svs => .ok (sv :: svs)

/-! ### `Session::batch`: the second implementation of batch binding (`scylla/src/client/session.rs:1031-1090`,
`scylla/src/statement/batch.rs:300-400`, `scylla/src/network/connection.rs:1177-1210, 1248-1300`)

`Session::batch` calls `peek_first_token(values, batch.statements.first())`: iff THE FIRST statement is prepared, value
list #0 is serialized against ITS bind markers through `from_closure` (type check, `u16` conversion) and the
`SerializedValues` is cached (`BatchValuesFirstSerialized`).  Per attempt `Connection::batch_with_consistency` prepares
the unprepared statements that have values (`prepare_batch`), builds one context per statement (the empty context for an
unprepared statement without values) and serializes through `RawBatchValuesAdapter`: for statement #0 the cached bytes
are APPENDED VERBATIM, unchecked (`append_serialize_row` + `rest.skip_next()`), every other list is checked against its
own statement in `serialize_next`. -/

inductive BStmt where
  | prepared (cols : List Col)
  /-- an unprepared statement; `cols` = the bind markers the server reports when it is prepared last-minute -/
  | query (cols : List Col)
  deriving Repr, Inhabited

/-- The context statement `s` gets in an attempt, given its value list. -/
def BStmt.ctx : BStmt → List RVal → List Col
  | .prepared cols, _ => cols
  | .query cols, vs => if vs.isEmpty then [] else cols

/-- `peek_first_token(values, statements.first())`: the cached first value list, if any. -/
def peekFirst : List BStmt → List (List RVal) → Except BatchErr (Option SV)
  | .prepared cols :: _, vs :: _ =>
    match fromSerializable (.seq vs) cols with
    | .error e => .error (.stmt 0 e)
    | .ok sv => .ok (some sv)
  | _, _ => .ok none

/-- The contexts of an attempt: statement by statement, paired with the value lists as far as they go. -/
def attemptCtxs : List BStmt → List (List RVal) → List (List Col)
  | [], _ => []
  | s :: ss, [] => s.ctx [] :: attemptCtxs ss []
  | s :: ss, vs :: rs => s.ctx vs :: attemptCtxs ss rs

/-- `Session::batch` up to the frame: the cells sent per statement, or the error (then NO frame is sent). -/
def sessionBatch (stmts : List BStmt) (rows : List (List RVal)) : Except BatchErr (List SV) :=
  match peekFirst stmts rows with
  | .error e => .error e
  | .ok first =>
    match first, attemptCtxs stmts rows, rows with
    | some sv, _ :: cs, _ :: rs =>
      match bindBatch cs rs 1 with
      | .error e => .error e
      | .ok svs => .ok (sv :: svs)
    | _, cs, rs => bindBatch cs rs 0

/-! ### `new_from_frame` -/

/-- `n` successive `read_value`s; the unread rest. -/
def readValues : Nat → Bytes → Option Bytes
  | 0, bs => some bs
  | n + 1, bs =>
    match readValue bs with
    | none => none
    | some (_, rest) => readValues n rest

/-- `SerializedValues::new_from_frame(&mut buf)`: the values and what is left of the buffer. -/
def newFromFrame (buf : Bytes) : Option (SV × Bytes) :=
  match buf with
  | a :: b :: body =>
    let n := beNat [a, b]
    match readValues n body with
    | none => none
    | some rest => some (⟨body.take (body.length - rest.length), n⟩, rest)
  | _ => none

end ScyllaVerif.C17Bind

import ScyllaVerif.Model.Vint
/-
Model of `SerializedValues` (C17) — `scylla-cql-core/src/serialize/row.rs:500-666`.  Core Lean only.

* `SV`          ← `SerializedValues { serialized_values: Vec<u8>, element_count: u16 }` (500-505).
* `addValueWith`← `add_value` (594-615) for an ABSTRACT per-value serializer `f : Bytes → Bytes × Option ε`: the
  serializer gets the whole buffer (`CellWriter::new(&mut self.serialized_values)`), returns the buffer as it left
  it — also when it failed, possibly with a partially written value at the end — and an optional error; the
  `u16::MAX` guard comes first; on error `resize(len_before, 0)`; on success `element_count += 1`.
* `resize`      ← `Vec::resize(n, 0)` (truncate, or pad with zeros if the vector were shorter).
* `parseCells`  ← `SerializedValuesIterator` (649-661) over `types::read_value` (`frame/types.rs`): `[int n]`,
  `n = -1` null, `n = -2` unset, `n ≥ 0` followed by `n` bytes, anything else / a short buffer = the
  `expect("badly encoded value")` panic (`none`).
* `fromClosureCount` ← the `value_count().try_into()` of `from_closure` (528-549) over `RowWriter`
  (`writers.rs:19-55`: `make_cell_writer` increments the count BEFORE the value is written).
-/
namespace ScyllaVerif.Row
open ScyllaVerif.Vint

structure SV where
  bytes : Bytes
  count : Nat
  deriving Repr, DecidableEq, Inhabited

def SV.empty : SV := ⟨[], 0⟩

def u16Max : Nat := 65535

/-- `Vec::resize(n, 0)`. -/
def resize (b : Bytes) (n : Nat) : Bytes := b.take n ++ List.replicate (n - b.length) 0

inductive AddErr (ε : Type) where
  | tooManyValues
  | ser (e : ε)
  deriving Repr, DecidableEq

/-- `SerializedValues::add_value`. -/
def addValueWith {ε : Type} (f : Bytes → Bytes × Option ε) (sv : SV) : SV × Option (AddErr ε) :=
  if sv.count = u16Max then (sv, some .tooManyValues)
  else
    let lenBefore := sv.bytes.length
    match f sv.bytes with
    | (b, some e) => ({ sv with bytes := resize b lenBefore }, some (.ser e))
    | (b, none) => ({ bytes := b, count := sv.count + 1 }, none)

/-- A sequence of `add_value` calls, results dropped (`let _ = sv.add_value(..)`). -/
def addAll {ε : Type} (fs : List (Bytes → Bytes × Option ε)) (sv : SV) : SV :=
  fs.foldl (fun s f => (addValueWith f s).1) sv

def nullCell : Bytes := [0xff, 0xff, 0xff, 0xff]

/-- `n` successive `add_value(&None::<T>, _)` calls in closed form (used by the driver for the 65535-value
cases; `Props.C17.fillNulls_eq` proves it equal to `n` applications of `addValueWith`). -/
def fillNulls (n : Nat) (sv : SV) : SV :=
  let k := min n (u16Max - sv.count)
  { bytes := sv.bytes ++ (List.replicate k nullCell).flatten, count := sv.count + k }

/-- One raw value as `SerializedValues::iter()` yields it. -/
inductive RawCell where
  | null | unset | value (b : Bytes)
  deriving Repr, DecidableEq, Inhabited

/-- `types::read_value`: `None` where the Rust code returns an error (and `iter()` panics). -/
def readValue (bs : Bytes) : Option (RawCell × Bytes) :=
  match bs with
  | a :: b :: c :: d :: rest =>
    let n := beNat [a, b, c, d]
    if n = 4294967295 then some (.null, rest)
    else if n = 4294967294 then some (.unset, rest)
    else if n ≥ 2147483648 then none
    else
      let body := rest.take n
      if body.length < n then none else some (.value body, rest.drop n)
  | _ => none

/-- `iter().collect()`; fuel = buffer length + 1 (every cell consumes at least 4 bytes). -/
def parseCellsFuel : Nat → Bytes → Option (List RawCell)
  | 0, _ => none
  | fuel + 1, bs =>
    if bs.isEmpty then some []
    else
      match readValue bs with
      | none => none
      | some (c, rest) =>
        match parseCellsFuel fuel rest with
        | none => none
        | some cs => some (c :: cs)

def parseCells (bs : Bytes) : Option (List RawCell) := parseCellsFuel (bs.length + 1) bs

/-- `RowWriter` after `n` `make_cell_writer` calls, then `from_closure`'s `u16` conversion. -/
def fromClosureCount (n : Nat) : Option Nat := if n ≤ u16Max then some n else none

end ScyllaVerif.Row

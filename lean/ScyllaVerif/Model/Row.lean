import ScyllaVerif.Model.Vint
/-
Model of `SerializedValues` (C17) — `scylla-cql-core/src/serialize/row.rs:500-666`.  Core Lean only.

* `SV`          ← `SerializedValues { serialized_values: Vec<u8>, element_count: u16 }` (500-505).
* `addValueWith`← `add_value` (594-615) for an ABSTRACT per-value serializer `f : Bytes → Bytes × Option ε`: the
  serializer gets the whole buffer (`CellWriter::new(&mut self.serialized_values)`), returns the buffer as it left
  it — also when it failed, possibly with a partially written value at the end — and an optional error; the
  `u16::MAX` guard comes first; on error `resize(len_before, 0)`; on success `element_count += 1`.
* `resize`      ← `Vec::resize(n, 0)` (truncate, or pad with zeros if the vector were shorter).
* `parseCells`  ← `SerializedValuesIterator` (649-661) over `types::read_value` (`frame/types.rs`): `[int n]`,
  `n = -1` null, `n = -2` unset, `n ≥ 0` followed by `n` bytes, anything else / a short buffer = the
  `expect("badly encoded value")` panic (`none`).
* `fromClosureCount` ← the `value_count().try_into()` of `from_closure` (528-549) over `RowWriter`
  (`writers.rs:19-55`: `make_cell_writer` increments the count BEFORE the value is written).
-/
namespace ScyllaVerif.Row
open ScyllaVerif.Vint

structure SV where
  bytes : Bytes
  count : Nat
  deriving Repr, DecidableEq, Inhabited

def SV.empty : SV := ⟨[], 0⟩

def u16Max : Nat := 65535

/-- `Vec::resize(n, 0)`. -/
def resize (b : Bytes) (n : Nat) : Bytes := b.take n ++ List.replicate (n - b.length) 0

inductive AddErr (ε : Type) where
  | tooManyValues
  | ser (e : ε)
  deriving Repr, DecidableEq

/-- `SerializedValues::add_value`. -/
def addValueWith {ε : Type} (f : Bytes → Bytes × Option ε) (sv : SV) : SV × Option (AddErr ε) :=
  if sv.count = u16Max then (sv, some .tooManyValues)
  else
    let lenBefore := sv.bytes.length
    match f sv.bytes with
    | (b, some e) => ({ sv with bytes := resize b lenBefore }, some (.ser e))
    | (b, none) => ({ bytes := b, count := sv.count + 1 }, none)

/-- A sequence of `add_value` calls, results dropped (`let _ = sv.add_value(..)`). -/
def addAll {ε : Type} (fs : List (Bytes → Bytes × Option ε)) (sv : SV) : SV :=
  fs.foldl (fun s f => (addValueWith f s).1) sv

def nullCell : Bytes := [0xff, 0xff, 0xff, 0xff]

/-- `n` successive `add_value(&None::<T>, _)` calls in closed form (used by the driver for the 65535-value
cases; `Props.C17.fillNulls_eq` proves it equal to `n` applications of `addValueWith`). -/
def fillNulls (n : Nat) (sv : SV) : SV :=
  let k := min n (u16Max - sv.count)
  { bytes := sv.bytes ++ (List.replicate k nullCell).flatten, count := sv.count + k }

/-- One raw value as `SerializedValues::iter()` yields it. -/
inductive RawCell where
  | null | unset | value (b : Bytes)
  deriving Repr, DecidableEq, Inhabited

/-- `types::read_value`: `None` where the Rust code returns an error (and `iter()` panics). -/
def readValue (bs : Bytes) : Option (RawCell × Bytes) :=
  match bs with
  | a :: b :: c :: d :: rest =>
    let n := beNat [a, b, c, d]
    if n = 4294967295 then some (.null, rest)
    else if n = 4294967294 then some (.unset, rest)
    else if n ≥ 2147483648 then none
    else
      let body := rest.take n
      if body.length < n then none else some (.value body, rest.drop n)
  | _ => none

/-- `iter().collect()`; fuel = buffer length + 1 (every cell consumes at least 4 bytes). -/
def parseCellsFuel : Nat → Bytes → Option (List RawCell)
  | 0, _ => none
  | fuel + 1, bs =>
    if bs.isEmpty then some []
    else
      match readValue bs with
      | none => none
      | some (c, rest) =>
        match parseCellsFuel fuel rest with
        | none => none
        | some cs => some (c :: cs)

def parseCells (bs : Bytes) : Option (List RawCell) := parseCellsFuel (bs.length + 1) bs

/-- `RowWriter` after `n` `make_cell_writer` calls, then `from_closure`'s `u16` conversion. -/
def fromClosureCount (n : Nat) : Option Nat := if n ≤ u16Max then some n else none

/-! ### `RowWriter` (`writers.rs:11-55`) and `SerializedValues::from_closure` / `from_serializable` (`row.rs:520-549`)

`value_count` is a `usize` in the Rust code: it is NOT bounded by `u16::MAX` while the row is being written
("the protocol allows at most u16::MAX … but the writer's interface allows more to be written"), so it is an
unbounded `Nat` here; the only bound is the explicit conversion at the end of `from_closure`. -/

structure RW where
  buf : Bytes
  count : Nat
  deriving Repr, DecidableEq, Inhabited

/-- `RowWriter::new(&mut Vec::new())`. -/
def RW.new : RW := ⟨[], 0⟩

/-- `make_cell_writer()` followed by the value's serializer `f` on the same buffer: the count is incremented
BEFORE the value is written, whether or not `f` then succeeds. -/
def RW.makeCell {ε : Type} (w : RW) (f : Bytes → Bytes × Option ε) : RW × Option ε :=
  match f w.buf with
  | (b, e) => (⟨b, w.count + 1⟩, e)

/-- `append_serialize_row(&sv)`. -/
def RW.appendRow (w : RW) (sv : SV) : RW := ⟨w.buf ++ sv.bytes, w.count + sv.count⟩

/-- Several successfully written cells in closed form (used by the driver for rows of ~70000 values;
`Props.C17.writeCells_eq` proves it equal to one `makeCell` per cell). -/
def RW.writeCells (w : RW) (cells : List Bytes) : RW := ⟨w.buf ++ cells.flatten, w.count + cells.length⟩

/-- The tail of `from_closure`: `writer.value_count().try_into::<u16>()`, else `TooManyValues` (`none`). -/
def RW.finish (w : RW) : Option SV := if w.count ≤ u16Max then some ⟨w.buf, w.count⟩ else none

/-- What a `SerializeRow::serialize` body does to the writer: cells through `make_cell_writer`, whole rows
through `append_serialize_row`. -/
inductive WOp (ε : Type) where
  | cell (f : Bytes → Bytes × Option ε)
  | append (sv : SV)

/-- The body of the closure: the operations in order, stopping at the first failing value (`?`). -/
def runW {ε : Type} : List (WOp ε) → RW → RW × Option ε
  | [], w => (w, none)
  | .cell f :: ops, w =>
    match w.makeCell f with
    | (w', some e) => (w', some e)
    | (w', none) => runW ops w'
  | .append sv :: ops, w => runW ops (w.appendRow sv)

/-- Number of values an operation binds. -/
def WOp.values {ε : Type} : WOp ε → Nat
  | .cell _ => 1
  | .append sv => sv.count

def totalValues {ε : Type} (ops : List (WOp ε)) : Nat := (ops.map WOp.values).sum

/-- `SerializedValues::from_closure` / `from_serializable`: run the body on a fresh writer; a failing value
aborts; otherwise the `usize → u16` conversion of the count decides between the result and `TooManyValues`. -/
def fromClosure {ε : Type} (ops : List (WOp ε)) : Except (AddErr ε) SV :=
  match runW ops RW.new with
  | (_, some e) => .error (.ser e)
  | (w, none) =>
    match w.finish with
    | none => .error .tooManyValues
    | some sv => .ok sv

end ScyllaVerif.Row

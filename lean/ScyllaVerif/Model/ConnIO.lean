/-
The connection model joined to the byte stream and to the clock (C10):

* `reader`  ← `connection.rs` `reader` (1621-1685) over `read_response_frame`: the bytes received so far are
  consumed frame by frame; a frame on a negative stream is ignored (`-1` = event, no event sender here; `< -1`
  reserved); a frame on stream `s ≥ 0` is looked up — the answer of the outstanding request on `s`, or an
  unsolicited frame; a bad header ends the router; a cut header / body — or NO byte at all, i.e. EOF exactly on
  a frame boundary — ends the router as soon as the peer has closed (`read_exact` / `read_buf` fail:
  `FrameHeaderParseError`), and otherwise waits for more bytes.
* `kaTurn`  ← `keepaliver` (1801-1878) under an explicit clock (ms): `interval.tick()` with
  `MissedTickBehavior::Delay`, the keep-alive request is an ordinary `send_request`, `tokio::time::timeout`
  around it, the hint arm (`keepalive_hint.notified()` → `interval.reset()` → probe now).
-/
import ScyllaVerif.Model.StreamMap
import ScyllaVerif.Model.Conn
import ScyllaVerif.Model.FrameStream

namespace ScyllaVerif.ConnIO
open ScyllaVerif.StreamMap ScyllaVerif.Conn ScyllaVerif.FrameStream

/-- What the reader does with one whole frame. -/
def deliverFrame (c : Conn) (f : Frame) : Conn :=
  if f.stream < 0 then c
  else
    let s := f.stream.toNat
    match c.server.findIdx? (fun p => p.1 == s) with
    | some i => step c (.respond i)
    | none => step c (.unsolicited s)

/-- The reader can read no further whole frame: what the rest of the bytes means. -/
def readerStop (c : Conn) (r : ReadRes) (eof : Bool) : Conn :=
  match r with
  | .frame _ _ => c
  | .bad _ => step c (.break_ .frameHeaderParseError)
  | .empty | .cutInHeader _ | .cutInBody _ _ =>
    if eof then step c (.break_ .frameHeaderParseError) else c

/-- The reader loop on the bytes received so far (`eof` = the peer has closed after them).
Returns the connection and the bytes that stay buffered. -/
def reader (c : Conn) (inbuf : List UInt8) (eof : Bool) : Conn × List UInt8 :=
  if c.broken then (c, inbuf) else
  match h : readFrame inbuf with
  | .frame f rest =>
    have : rest.length < inbuf.length := readFrame_rest_lt h
    reader (deliverFrame c f) rest eof
  | r => (readerStop c r eof, inbuf)
termination_by inbuf.length

/-! ### the wire: response bytes arrive in arbitrary chunks, interleaved with everything else

`read_response_frame` keeps the 9 header bytes and the partly read body in the locals of its future; `reader` awaits
that future to completion and does nothing else meanwhile (`reader` 1621-1685: one `.await` on the read, then the
lookup). So a PARTLY RECEIVED FRAME SURVIVES every other event of the connection — cancellations, orphan notices,
writes, keep-alive turns. This is an assumption about the structure of `reader` (the read is never raced against
another future and dropped: `read_response_frame` is not cancellation safe); it sits exactly here: `wstep (.conn e)`
leaves `inbuf` alone. `Props.C10.wire_is_frame_aligned` is what follows from it. -/

structure Wire where
  c : Conn
  inbuf : List UInt8 := []       -- received, not yet consumed as whole frames
  eof : Bool := false
  received : List UInt8 := []    -- ghost: every byte received so far

inductive WEv where
  | bytes (bs : List UInt8)      -- one chunk (a TCP segment, a part of a frame, several frames) arrives
  | close                        -- the peer closes
  | conn (e : Ev)                -- any event of the connection (caller, writer, orphaner, …)

def wstep (w : Wire) : WEv → Wire
  | .bytes bs =>
    if w.eof then w else
    let r := reader w.c (w.inbuf ++ bs) false
    { w with c := r.1, inbuf := r.2, received := w.received ++ bs }
  | .close =>
    if w.eof then w else
    let r := reader w.c w.inbuf true
    { w with c := r.1, inbuf := r.2, eof := true }
  | .conn e => { w with c := step w.c e }

def wrun (w : Wire) (evs : List WEv) : Wire := evs.foldl wstep w

/-! ### with an event sender registered (`config.event_sender = Some(..)`; the control connection) -/

/-- The event channel as the reader sees it (`mpsc::Sender<Event>`; the production control connection's has capacity
32, `cluster/metadata/cc_establisher.rs:409` `make_control_connection`, extracted as
`Generated.controlEventChannelCapacity`): the receiver may be gone, and there may be no free slot. -/
structure EvChan where
  closed : Bool := false     -- the receiver was dropped: `event_sender.send(..)` fails (`SendError`)
  room : Nat                 -- free slots; `send(..).await` blocks while there is none
  deriving Repr, DecidableEq

/-- A frame on stream `-1` is handed to `handle_event` (1880-1930): `parse_response` must yield `Response::Event`
(`eventOk`: the EVENT opcode and a body that deserializes as an event), else the router ends with
`CqlEventHandlingError`; a well-formed event is then SENT on the event channel (`event_sender.send(event).await`,
1920-1923): receiver gone → `CqlEventHandlingError::SendError`, the router ends; no free slot → the reader BLOCKS
there (`none`: nothing else is read on this connection until the consumer makes room); otherwise the event is
forwarded and the request path is not touched. Other streams as without an event sender. -/
def deliverFrameEv (eventOk : Frame → Bool) (ch : EvChan) (c : Conn) (f : Frame) : Option (Conn × EvChan) :=
  if f.stream = -1 then
    if c.broken then some (c, ch)
    else if !eventOk f then some (step c (.break_ .cqlEventHandlingError), ch)
    else if ch.closed then some (step c (.break_ .cqlEventHandlingError), ch)
    else if ch.room = 0 then none
    else some (c, { ch with room := ch.room - 1 })
  else some (deliverFrame c f, ch)

/-- `reader` for a connection with an event sender. Returns the connection, the bytes that stay buffered (from the
frame the reader is blocked on, if it is blocked) and the event channel. -/
def readerEv (eventOk : Frame → Bool) (ch : EvChan) (c : Conn) (inbuf : List UInt8) (eof : Bool) :
    Conn × List UInt8 × EvChan :=
  if c.broken then (c, inbuf, ch) else
  match h : readFrame inbuf with
  | .frame f rest =>
    have : rest.length < inbuf.length := readFrame_rest_lt h
    match deliverFrameEv eventOk ch c f with
    | none => (c, inbuf, ch)
    | some (c', ch') => readerEv eventOk ch' c' rest eof
  | r => (readerStop c r eof, inbuf, ch)
termination_by inbuf.length

/-- BYTES: the frame the reader hands to request `r` when the whole frames `fs` arrive in state `c` — the first
frame on the stream that carries `r` (a second frame on that stream would be unsolicited). The model's
`Outcome.frame r` names the request; this function names the bytes (`Props.C10.delivered_frame_was_sent`). -/
def answerOf (c : Conn) (fs : List Frame) (r : Nat) : Option Frame :=
  fs.find? (fun f => decide (0 ≤ f.stream) && c.server.contains (f.stream.toNat, r))

/-! ### the keepaliver -/

structure KaSt where
  c : Conn
  interval : Nat
  timeout : Nat
  clock : Nat := 0
  next : Nat                     -- when `interval.tick()` completes next
  pending : Option (Nat × Nat) := none   -- (request id, deadline) of the keep-alive request in flight
  hint : Bool := false           -- the stored permit of `keepalive_hint` (`Connection::trigger_keepalive`, called by
                                 -- the pool on a STATUS_CHANGE DOWN event; `Notify::notify_one` stores ONE permit)
  full : Bool := false           -- the submit channel has no free slot right now (the keep-alive request parks)
  preferTick : Bool := false     -- `select!` picks among READY arms at random: when a tick is due AND a hint is
                                 -- stored, this is the draw (true = the tick arm; the hint stays for the next round)

/-- One turn of the keepaliver task. -/
def kaTurn (k : KaSt) : KaSt :=
  if k.c.broken then k else
  match k.pending with
  | some (r, deadline) =>
    match getCaller k.c.callers r with
    | some (.delivered (.frame _)) => { k with c := step k.c (.recv r), pending := none }
    | some (.delivered (.err _)) =>
      -- `KeepaliveRequestError`
      { k with c := step (step k.c (.recv r)) (.break_ .keepaliveRequestError), pending := none }
    | _ =>
      if k.clock ≥ deadline then
        -- `tokio::time::timeout` fires: the request future is dropped, the router ends
        { k with c := step (step k.c (.cancel r)) (.break_ .keepaliveTimeout), pending := none }
      else k
  | none =>
    -- the keep-alive request is an ordinary `send_request`: it takes a slot of the submit channel, or parks
    let submitEv : Ev := if k.full then .submitFull else .submit
    if k.hint && !(k.preferTick && decide (k.clock ≥ k.next)) then
      -- `select!`: the hint arm — `interval.reset()`: the next periodic probe is a full interval away — and a probe
      -- is issued at once. (If a tick is due at the same time `select!` picks one of the two ready arms at random —
      -- `preferTick` —; the hint then stays stored and is consumed by the next iteration.)
      { k with c := step k.c submitEv, pending := some (k.c.nextReq, k.clock + k.timeout),
               next := k.clock + k.interval, hint := false }
    else if k.clock ≥ k.next then
      let r := k.c.nextReq
      -- `MissedTickBehavior::Delay`: a tick more than 5 ms late re-bases the schedule
      let next := if k.clock > k.next + 5 then k.clock + k.interval else k.next + k.interval
      { k with c := step k.c submitEv, pending := some (r, k.clock + k.timeout), next := next }
    else k

end ScyllaVerif.ConnIO

import ScyllaVerif.Model.Vint
import ScyllaVerif.Model.Cql
/-
Model of the CQL value codec (C01).  Core Lean only.

Encoder, implementation side (`encImpl`): a transcription of
  * `scylla-cql-core/src/serialize/writers.rs` — `CellWriter::{set_null,set_unset,set_value}` (103-133),
    `CellValueBuilder::{new,append_bytes,make_sub_writer,make_sub_writer_without_size,finish}` (164-218):
    the builder pushes the `-3` placeholder, children append to the same buffer, `finish` back-patches the
    length; with `write_size = false` (vector elements) neither placeholder nor length is written and
    `set_null` / `set_unset` still write their 4 bytes (finding C01-F2);
  * `scylla-cql-core/src/serialize/value.rs` — `serialize_cql_value` (623-706) and the `SerializeValue`
    impls it delegates to (93-402), `serialize_udt` (750-818), `serialize_tuple_like` (820-845),
    `serialize_sequence` (932-981), `serialize_vector` + the constant / variable length element writers
    (995-1100), `serialize_mapping` (1102-1150).
Encoder, specification side (`encSpec`): the CQL v4 `[bytes]` encoding written directly (no buffer, no
placeholder): `length ++ content`.
Decoder (`decVal` / `decCell`): `scylla-cql-core/src/deserialize/value.rs` — `CqlValue::deserialize`
(67-248), the strict native impls (296-800), `ListlikeIterator`, `VectorIterator`, `MapIterator`
(923-1593), `UdtIterator` (1748-1864), `FixedLengthBytesSequenceIterator` / `BytesSequenceIterator`
(2014-2092), `FrameSlice::{read_cql_bytes,read_n_bytes}` (`frame_slice.rs:151-195`),
`types::{read_int,read_int_length,read_bytes_opt,read_raw_bytes}` (`frame/types.rs:174-218`).
`pad` / `wfVal`: the normal form a value comes back in, and the decidable domain of the round trip.

Errors are *kinds* (the innermost kind of the Rust error chain).
-/
namespace ScyllaVerif.Codec
open ScyllaVerif.Vint ScyllaVerif.Cql

/-- Serialization error kinds (`BuiltinTypeCheckErrorKind` / `BuiltinSerializationErrorKind` leaves).
`bareNullInVector` is produced by `encSpec` only: a null / unset vector element has no encoding. -/
inductive SerErr where
  | mismatchedType | notEmptyable | notSetOrList | notMap | notTuple | wrongElementCount
  | notUdt | nameMismatch | noSuchFieldInUdt | sizeOverflow | tooManyElements | invalidNumberOfElements
  | bareNullInVector
  deriving Repr, DecidableEq, Inhabited

/-- Deserialization error kinds (`BuiltinDeserializationErrorKind` leaves). -/
inductive DeErr where
  | expectedNonNull | byteLengthMismatch | expectedAscii | invalidUtf8 | badDecimalScale | badDate
  | valueOverflow | badInetLength | rawCqlBytesReadError | lengthDeserializationFailed
  deriving Repr, DecidableEq, Inhabited

/-- `i32::MAX`, the largest cell / collection size. -/
def i32Max : Nat := 2147483647

/-- `i32::to_be_bytes` of a non-negative length. -/
def be32 (n : Nat) : Bytes := beBytes 4 n

/-! ### `CellWriter` / `CellValueBuilder` (writers.rs) -/

def nullBytes : Bytes := [0xff, 0xff, 0xff, 0xff]
def unsetBytes : Bytes := [0xff, 0xff, 0xff, 0xfe]
def placeholder : Bytes := [0xff, 0xff, 0xff, 0xfd]

/-- `CellWriter::set_null`: `-1i32`, whatever `write_size` is. -/
def setNull (buf : Bytes) : Bytes := buf ++ nullBytes
/-- `CellWriter::set_unset`: `-2i32`, whatever `write_size` is. -/
def setUnset (buf : Bytes) : Bytes := buf ++ unsetBytes

/-- `CellWriter::set_value`: the `usize → i32` conversion of the length is checked even when the size
is not written. -/
def setValue (ws : Bool) (contents buf : Bytes) : Except SerErr Bytes :=
  if contents.length > i32Max then .error .sizeOverflow
  else if ws then .ok (buf ++ be32 contents.length ++ contents)
  else .ok (buf ++ contents)

/-- `CellValueBuilder::new`: remember the start, push the `-3` placeholder when the size is written. -/
def builderNew (ws : Bool) (buf : Bytes) : Bytes := if ws then buf ++ placeholder else buf

/-- `CellValueBuilder::finish`: back-patch `buf[start .. start+4]` with the length of what follows. -/
def builderFinish (ws : Bool) (start : Nat) (buf : Bytes) : Except SerErr Bytes :=
  if ws then
    let len := buf.length - start - 4
    if len > i32Max then .error .sizeOverflow
    else .ok (buf.take start ++ be32 len ++ buf.drop (start + 4))
  else .ok buf

/-! ### views of a value -/

/-- How `serialize_cql_value` dispatches on the value: scalars carry the natives their
`exact_type_check!` accepts, their content bytes and whether they are written through a builder
(`CqlDecimal`) or `set_value`. -/
inductive View where
  | null | unset | empty
  | scalar (accepted : List NativeTy) (body : Bytes) (viaBuilder : Bool)
  | seq (vs : List CqlVal)
  | map (kvs : List (CqlVal × CqlVal))
  | tuple (fs : List CqlVal)
  | udt (ks name : String) (fs : List (String × CqlVal))

def viewOf : CqlVal → View
  | .null => .null
  | .unset => .unset
  | .empty => .empty
  | .ascii s => .scalar [.ascii, .text] s false
  | .text s => .scalar [.ascii, .text] s false
  | .blob b => .scalar [.blob] b false
  | .boolean b => .scalar [.boolean] [if b then 1 else 0] false
  | .tinyint x => .scalar [.tinyint] (beBytes 1 x.toNat) false
  | .smallint x => .scalar [.smallint] (beBytes 2 x.toNat) false
  | .int x => .scalar [.int] (beBytes 4 x.toNat) false
  | .bigint x => .scalar [.bigint] (beBytes 8 x.toNat) false
  | .counter x => .scalar [.counter] (beBytes 8 x.toNat) false
  | .float x => .scalar [.float] (beBytes 4 x.toNat) false
  | .double x => .scalar [.double] (beBytes 8 x.toNat) false
  | .date x => .scalar [.date] (beBytes 4 x.toNat) false
  | .time x => .scalar [.time] (beBytes 8 x.toNat) false
  | .timestamp x => .scalar [.timestamp] (beBytes 8 x.toNat) false
  | .timeuuid x => .scalar [.timeuuid] (beBytes 16 x.toNat) false
  | .uuid x => .scalar [.uuid] (beBytes 16 x.toNat) false
  | .inet4 a => .scalar [.inet] (beBytes 4 a.toNat) false
  | .inet6 a => .scalar [.inet] (beBytes 16 a.toNat) false
  | .varint b => .scalar [.varint] b false
  | .decimal scale b => .scalar [.decimal] (beBytes 4 scale.toNat ++ b) true
  | .duration m d n =>
    .scalar [.duration] (vintEnc (m.signExtend 64) ++ vintEnc (d.signExtend 64) ++ vintEnc n) false
  | .list vs => .seq vs
  | .set vs => .seq vs
  | .vector vs => .seq vs
  | .map kvs => .map kvs
  | .tuple fs => .tuple fs
  | .udt ks name fs => .udt ks name fs

/-- `HashMap::from_iter` followed by `get`: the *last* entry with that name wins. -/
def lookupLast (n : String) : List (String × CqlVal) → Option CqlVal
  | [] => none
  | (m, v) :: r =>
    match lookupLast n r with
    | some x => some x
    | none => if m = n then some v else none

/-- `HashMap::remove`. -/
def removeName (n : String) (fs : List (String × CqlVal)) : List (String × CqlVal) :=
  fs.filter (fun p => p.1 ≠ n)

/-! ### encoder: implementation (buffer threading, placeholder, back-patch) -/

/-- Sequential `?`-loop over elements appending to one buffer. -/
def foldEnc {α : Type} (f : α → Bytes → Except SerErr Bytes) : List α → Bytes → Except SerErr Bytes
  | [], buf => .ok buf
  | v :: vs, buf =>
    match f v buf with
    | .error e => .error e
    | .ok b => foldEnc f vs b

/-- One map entry: key cell then value cell into the same buffer (`serialize_mapping` loop body). -/
def pairImpl {α β : Type} (fk : α → Bytes → Except SerErr Bytes) (fv : β → Bytes → Except SerErr Bytes)
    (kv : α × β) (b : Bytes) : Except SerErr Bytes :=
  match fk kv.1 b with
  | .error e => .error e
  | .ok b1 => fv kv.2 b1

/-- `serialize_next_variable_length_elem`: the element goes to a fresh buffer (without size), then
`unsigned vint length ++ bytes` is appended. -/
def varElemImpl {α : Type} (f : α → Bytes → Except SerErr Bytes) (v : α) (b : Bytes) : Except SerErr Bytes :=
  match f v [] with
  | .error e => .error e
  | .ok eb => .ok (b ++ uvintEnc (BitVec.ofNat 64 eb.length) ++ eb)

/-- A scalar: `exact_type_check!`, then `set_value` (or builder + `finish` for decimals). -/
def encScalarImpl (accepted : List NativeTy) (body : Bytes) (viaBuilder : Bool) (t : CqlTy) (ws : Bool)
    (buf : Bytes) : Except SerErr Bytes :=
  match t with
  | .native n =>
    if accepted.contains n then
      if viaBuilder then builderFinish ws buf.length (builderNew ws buf ++ body)
      else setValue ws body buf
    else .error .mismatchedType
  | _ => .error .mismatchedType

mutual
/-- `<CqlValue as SerializeValue>::serialize` / `serialize_cql_value`, plus `Option::None` ↦ `set_null`
and `Unset` ↦ `set_unset`.  `ws` is the writer's `write_size`. -/
def encImpl : CqlTy → CqlVal → Bool → Bytes → Except SerErr Bytes
  | t, v, ws, buf =>
    match viewOf v with
    | .null => .ok (setNull buf)
    | .unset => .ok (setUnset buf)
    | .empty => if t.supportsEmpty then setValue ws [] buf else .error .notEmptyable
    | .scalar acc body viaB => encScalarImpl acc body viaB t ws buf
    | .seq vs =>
      -- `Vec<CqlValue>::serialize`: list | set → serialize_sequence, vector → serialize_vector
      match t with
      | .list elt | .set elt =>
        let start := buf.length
        let b0 := builderNew ws buf
        if vs.length > i32Max then .error .tooManyElements
        else
          match foldEnc (fun v b => encImpl elt v true b) vs (b0 ++ be32 vs.length) with
          | .error e => .error e
          | .ok b => builderFinish ws start b
      | .vector elt dim =>
        if vs.length ≠ dim then .error .invalidNumberOfElements
        else
          let start := buf.length
          let b0 := builderNew ws buf
          match elt.sizeForVector with
          | some _ =>
            match foldEnc (fun v b => encImpl elt v false b) vs b0 with
            | .error e => .error e
            | .ok b => builderFinish ws start b
          | none =>
            match foldEnc (varElemImpl (fun v b => encImpl elt v false b)) vs b0 with
            | .error e => .error e
            | .ok b => builderFinish ws start b
      | _ => .error .notSetOrList
    | .map kvs =>
      match t with
      | .map kt vt =>
        let start := buf.length
        let b0 := builderNew ws buf
        if kvs.length > i32Max then .error .tooManyElements
        else
          match foldEnc (pairImpl (fun k b => encImpl kt k true b) (fun v b => encImpl vt v true b)) kvs
              (b0 ++ be32 kvs.length) with
          | .error e => .error e
          | .ok b => builderFinish ws start b
      | _ => .error .notMap
    | .tuple fs =>
      match t with
      | .tuple ts =>
        if ts.length < fs.length then .error .wrongElementCount
        else
          let start := buf.length
          match encTupleImpl ts fs (builderNew ws buf) with
          | .error e => .error e
          | .ok b => builderFinish ws start b
      | _ => .error .notTuple
    | .udt ks name fs =>
      match t with
      | .udt dks dname fields =>
        if ks ≠ dks || name ≠ dname then .error .nameMismatch
        else
          let start := buf.length
          match encUdtImpl fields fs (builderNew ws buf) with
          | .error e => .error e
          | .ok (b, leftover) =>
            if !leftover.isEmpty then .error .noSuchFieldInUdt
            else builderFinish ws start b
      | _ => .error .notUdt
/-- `serialize_tuple_like`: `field_values.zip(field_types)`. -/
def encTupleImpl : List CqlTy → List CqlVal → Bytes → Except SerErr Bytes
  | t :: ts, f :: fs, buf =>
    match encImpl t f true buf with
    | .error e => .error e
    | .ok b => encTupleImpl ts fs b
  | _, _, buf => .ok buf
/-- The field loop of `serialize_udt`: fields in *type* order, value looked up (and removed) by name,
missing ⇒ null.  Returns the buffer and the entries left in the map. -/
def encUdtImpl : List (String × CqlTy) → List (String × CqlVal) → Bytes →
    Except SerErr (Bytes × List (String × CqlVal))
  | [], m, buf => .ok (buf, m)
  | (n, t) :: rest, m, buf =>
    match lookupLast n m with
    | none => encUdtImpl rest m (setNull buf)
    | some v =>
      match encImpl t v true buf with
      | .error e => .error e
      | .ok b => encUdtImpl rest (removeName n m) b
end

/-! ### encoder: specification (CQL v4 §6: `[bytes]` = length ++ content) -/

/-- A `[bytes]` frame around `body` (or the bare body for a fixed/variable width vector element). -/
def frame (ws : Bool) (body : Bytes) : Except SerErr Bytes :=
  if ws then (if body.length > i32Max then .error .sizeOverflow else .ok (be32 body.length ++ body))
  else .ok body

/-- Like `frame`, for values written by `set_value` (length checked even when unframed). -/
def frameChecked (ws : Bool) (body : Bytes) : Except SerErr Bytes :=
  if body.length > i32Max then .error .sizeOverflow
  else if ws then .ok (be32 body.length ++ body) else .ok body

/-- Concatenation of the encodings of the elements (first error wins). -/
def concatEnc {α : Type} (g : α → Except SerErr Bytes) : List α → Except SerErr Bytes
  | [] => .ok []
  | v :: vs =>
    match g v with
    | .error e => .error e
    | .ok b =>
      match concatEnc g vs with
      | .error e => .error e
      | .ok r => .ok (b ++ r)

/-- One map entry: key cell ++ value cell. -/
def pairSpec (gk gv : CqlVal → Except SerErr Bytes) (kv : CqlVal × CqlVal) : Except SerErr Bytes :=
  match gk kv.1 with
  | .error e => .error e
  | .ok kb =>
    match gv kv.2 with
    | .error e => .error e
    | .ok vb => .ok (kb ++ vb)

/-- A variable-width vector element: unsigned vint length ++ content. -/
def varElemSpec (g : CqlVal → Except SerErr Bytes) (v : CqlVal) : Except SerErr Bytes :=
  match g v with
  | .error e => .error e
  | .ok eb => .ok (uvintEnc (BitVec.ofNat 64 eb.length) ++ eb)

def encScalarSpec (accepted : List NativeTy) (body : Bytes) (viaBuilder : Bool) (t : CqlTy) (ws : Bool) :
    Except SerErr Bytes :=
  match t with
  | .native n =>
    if accepted.contains n then (if viaBuilder then frame ws body else frameChecked ws body)
    else .error .mismatchedType
  | _ => .error .mismatchedType

mutual
/-- The protocol encoding of `v` at type `t`: with `ws` the `[bytes]` cell (null `-1`, unset `-2`,
otherwise length ++ content), without `ws` the bare content as it appears inside a vector — where
null / unset have no encoding (`bareNullInVector`). -/
def encSpec : CqlTy → CqlVal → Bool → Except SerErr Bytes
  | t, v, ws =>
    match viewOf v with
    | .null => if ws then .ok nullBytes else .error .bareNullInVector
    | .unset => if ws then .ok unsetBytes else .error .bareNullInVector
    | .empty => if t.supportsEmpty then frameChecked ws [] else .error .notEmptyable
    | .scalar acc body viaB => encScalarSpec acc body viaB t ws
    | .seq vs =>
      match t with
      | .list elt | .set elt =>
        if vs.length > i32Max then .error .tooManyElements
        else
          match concatEnc (fun v => encSpec elt v true) vs with
          | .error e => .error e
          | .ok cells => frame ws (be32 vs.length ++ cells)
      | .vector elt dim =>
        if vs.length ≠ dim then .error .invalidNumberOfElements
        else
          match elt.sizeForVector with
          | some _ =>
            match concatEnc (fun v => encSpec elt v false) vs with
            | .error e => .error e
            | .ok cells => frame ws cells
          | none =>
            match concatEnc (varElemSpec (fun v => encSpec elt v false)) vs with
            | .error e => .error e
            | .ok cells => frame ws cells
      | _ => .error .notSetOrList
    | .map kvs =>
      match t with
      | .map kt vt =>
        if kvs.length > i32Max then .error .tooManyElements
        else
          match concatEnc (pairSpec (fun k => encSpec kt k true) (fun v => encSpec vt v true)) kvs with
          | .error e => .error e
          | .ok cells => frame ws (be32 kvs.length ++ cells)
      | _ => .error .notMap
    | .tuple fs =>
      match t with
      | .tuple ts =>
        if ts.length < fs.length then .error .wrongElementCount
        else
          match encTupleSpec ts fs with
          | .error e => .error e
          | .ok cells => frame ws cells
      | _ => .error .notTuple
    | .udt ks name fs =>
      match t with
      | .udt dks dname fields =>
        if ks ≠ dks || name ≠ dname then .error .nameMismatch
        else
          match encUdtSpec fields fs with
          | .error e => .error e
          | .ok (cells, leftover) =>
            if !leftover.isEmpty then .error .noSuchFieldInUdt
            else frame ws cells
      | _ => .error .notUdt
def encTupleSpec : List CqlTy → List CqlVal → Except SerErr Bytes
  | t :: ts, f :: fs =>
    match encSpec t f true with
    | .error e => .error e
    | .ok c =>
      match encTupleSpec ts fs with
      | .error e => .error e
      | .ok r => .ok (c ++ r)
  | _, _ => .ok []
def encUdtSpec : List (String × CqlTy) → List (String × CqlVal) →
    Except SerErr (Bytes × List (String × CqlVal))
  | [], m => .ok ([], m)
  | (n, t) :: rest, m =>
    match lookupLast n m with
    | none =>
      match encUdtSpec rest m with
      | .error e => .error e
      | .ok (r, l) => .ok (nullBytes ++ r, l)
    | some v =>
      match encSpec t v true with
      | .error e => .error e
      | .ok c =>
        match encUdtSpec rest (removeName n m) with
        | .error e => .error e
        | .ok (r, l) => .ok (c ++ r, l)
end

/-! ### decoder -/

/-- `types::read_bytes_opt` on a slice: `[int n][n bytes]`, any negative `n` ⇒ `None`. -/
def readCqlBytes (bs : Bytes) : Except DeErr (Option Bytes × Bytes) :=
  if bs.length < 4 then .error .rawCqlBytesReadError
  else
    let len := beNat (bs.take 4)
    let rest := bs.drop 4
    if len > i32Max then .ok (none, rest)
    else if rest.length < len then .error .rawCqlBytesReadError
    else .ok (some (rest.take len), rest.drop len)

/-- `types::read_int_length`: a non-negative `i32`. -/
def readCount (bs : Bytes) : Except DeErr (Nat × Bytes) :=
  if bs.length < 4 then .error .lengthDeserializationFailed
  else
    let n := beNat (bs.take 4)
    if n > i32Max then .error .lengthDeserializationFailed else .ok (n, bs.drop 4)

/-- `i32::try_from(x : i64)` succeeds. -/
def fitsI32 (x : BitVec 64) : Bool := (x.setWidth 32).signExtend 64 == x

def fixed (n : Nat) (bs : Bytes) (k : Nat → CqlVal) : Except DeErr CqlVal :=
  if bs.length = n then .ok (k (beNat bs)) else .error .byteLengthMismatch

/-- The strict native impls (`deserialize/value.rs:296-800`) on a non-null slice; `u` is UTF-8 validity. -/
def decNative (u : Bytes → Bool) (n : NativeTy) (bs : Bytes) : Except DeErr CqlVal :=
  match n with
  | .ascii =>
    if !bs.all (fun b => b < 128) then .error .expectedAscii
    else if !u bs then .error .invalidUtf8 else .ok (.ascii bs)
  | .text => if !u bs then .error .invalidUtf8 else .ok (.text bs)
  | .blob => .ok (.blob bs)
  | .boolean => if bs.length = 1 then .ok (.boolean (beNat bs != 0)) else .error .byteLengthMismatch
  | .tinyint => fixed 1 bs (fun x => .tinyint (BitVec.ofNat 8 x))
  | .smallint => fixed 2 bs (fun x => .smallint (BitVec.ofNat 16 x))
  | .int => fixed 4 bs (fun x => .int (BitVec.ofNat 32 x))
  | .bigint => fixed 8 bs (fun x => .bigint (BitVec.ofNat 64 x))
  | .counter => fixed 8 bs (fun x => .counter (BitVec.ofNat 64 x))
  | .float => fixed 4 bs (fun x => .float (BitVec.ofNat 32 x))
  | .double => fixed 8 bs (fun x => .double (BitVec.ofNat 64 x))
  | .date => fixed 4 bs (fun x => .date (BitVec.ofNat 32 x))
  | .timestamp => fixed 8 bs (fun x => .timestamp (BitVec.ofNat 64 x))
  | .time =>
    if bs.length = 8 then
      -- `(0..=86399999999999).contains(&nanoseconds)` on the `i64`
      if beNat bs ≤ 86399999999999 then .ok (.time (BitVec.ofNat 64 (beNat bs))) else .error .valueOverflow
    else .error .byteLengthMismatch
  | .timeuuid => fixed 16 bs (fun x => .timeuuid (BitVec.ofNat 128 x))
  | .uuid => fixed 16 bs (fun x => .uuid (BitVec.ofNat 128 x))
  | .inet =>
    if bs.length = 4 then .ok (.inet4 (BitVec.ofNat 32 (beNat bs)))
    else if bs.length = 16 then .ok (.inet6 (BitVec.ofNat 128 (beNat bs)))
    else .error .badInetLength
  | .varint => .ok (.varint bs)
  | .decimal =>
    if bs.length < 4 then .error .badDecimalScale
    else .ok (.decimal (BitVec.ofNat 32 (beNat (bs.take 4))) (bs.drop 4))
  | .duration =>
    match vintDec bs with
    | .error _ => .error .badDate
    | .ok (m, r1) =>
      if !fitsI32 m then .error .valueOverflow
      else
        match vintDec r1 with
        | .error _ => .error .badDate
        | .ok (d, r2) =>
          if !fitsI32 d then .error .valueOverflow
          else
            match vintDec r2 with
            | .error _ => .error .badDate
            | .ok (ns, _) => .ok (.duration (m.setWidth 32) (d.setWidth 32) ns)

/-- `FixedLengthBytesSequenceIterator` + element `deserialize` for `n` elements (lists, sets);
a null element is `ExpectedNonNull` (elements are `CqlValue`, not `Option`). -/
def decSeq (f : Bytes → Except DeErr CqlVal) : Nat → Bytes → Except DeErr (List CqlVal)
  | 0, _ => .ok []
  | n + 1, bs =>
    match readCqlBytes bs with
    | .error e => .error e
    | .ok (none, _) => .error .expectedNonNull
    | .ok (some b, rest) =>
      match f b with
      | .error e => .error e
      | .ok v =>
        match decSeq f n rest with
        | .error e => .error e
        | .ok vs => .ok (v :: vs)

/-- `MapIterator::next`: both raw items are read first, then key and value are deserialized. -/
def decMap (fk fv : Bytes → Except DeErr CqlVal) : Nat → Bytes → Except DeErr (List (CqlVal × CqlVal))
  | 0, _ => .ok []
  | n + 1, bs =>
    match readCqlBytes bs with
    | .error e => .error e
    | .ok (rk, rest1) =>
      match readCqlBytes rest1 with
      | .error e => .error e
      | .ok (rv, rest2) =>
        match rk with
        | none => .error .expectedNonNull
        | some kb =>
          match fk kb with
          | .error e => .error e
          | .ok k =>
            match rv with
            | none => .error .expectedNonNull
            | some vb =>
              match fv vb with
              | .error e => .error e
              | .ok v =>
                match decMap fk fv n rest2 with
                | .error e => .error e
                | .ok r => .ok ((k, v) :: r)

/-- `FrameSlice::read_n_bytes`: `Ok(None)` on an empty slice unless `count = 0` (reading zero bytes always
yields an empty subslice — /repo commit 808d80c, finding C01-F8). -/
def readN (count : Nat) (bs : Bytes) : Except DeErr (Option Bytes × Bytes) :=
  if bs.isEmpty && count != 0 then .ok (none, bs)
  else if bs.length < count then .error .rawCqlBytesReadError
  else .ok (some (bs.take count), bs.drop count)

/-- `VectorIterator::next_constant_length_elem`, `remaining` times. -/
def decVecFixed (f : Bytes → Except DeErr CqlVal) (size : Nat) : Nat → Bytes → Except DeErr (List CqlVal)
  | 0, _ => .ok []
  | n + 1, bs =>
    match readN size bs with
    | .error e => .error e
    | .ok (none, _) => .error .expectedNonNull
    | .ok (some b, rest) =>
      match f b with
      | .error e => .error e
      | .ok v =>
        match decVecFixed f size n rest with
        | .error e => .error e
        | .ok vs => .ok (v :: vs)

/-- `VectorIterator::next_variable_length_elem`, `remaining` times. -/
def decVecVar (f : Bytes → Except DeErr CqlVal) : Nat → Bytes → Except DeErr (List CqlVal)
  | 0, _ => .ok []
  | n + 1, bs =>
    match uvintDec bs with
    | .error _ => .error .rawCqlBytesReadError
    | .ok (size, r0) =>
      match readN size.toNat r0 with
      | .error e => .error e
      | .ok (none, _) => .error .expectedNonNull
      | .ok (some b, rest) =>
        match f b with
        | .error e => .error e
        | .ok v =>
          match decVecVar f n rest with
          | .error e => .error e
          | .ok vs => .ok (v :: vs)

mutual
/-- `CqlValue::deserialize` on a non-null slice. -/
def decVal (u : Bytes → Bool) : CqlTy → Bytes → Except DeErr CqlVal
  | t, bs =>
    if bs.isEmpty && !t.isStringLike then .ok .empty
    else
      match t with
      | .native n => decNative u n bs
      | .list elt =>
        match readCount bs with
        | .error e => .error e
        | .ok (n, rest) =>
          match decSeq (fun b => decVal u elt b) n rest with
          | .error e => .error e
          | .ok vs => .ok (.list vs)
      | .set elt =>
        match readCount bs with
        | .error e => .error e
        | .ok (n, rest) =>
          match decSeq (fun b => decVal u elt b) n rest with
          | .error e => .error e
          | .ok vs => .ok (.set vs)
      | .map kt vt =>
        match readCount bs with
        | .error e => .error e
        | .ok (n, rest) =>
          match decMap (fun b => decVal u kt b) (fun b => decVal u vt b) n rest with
          | .error e => .error e
          | .ok kvs => .ok (.map kvs)
      | .vector elt dim =>
        match elt.sizeForVector with
        | some size =>
          match decVecFixed (fun b => decVal u elt b) size dim bs with
          | .error e => .error e
          | .ok vs => .ok (.vector vs)
        | none =>
          match decVecVar (fun b => decVal u elt b) dim bs with
          | .error e => .error e
          | .ok vs => .ok (.vector vs)
      | .tuple ts =>
        match decTuple u ts bs with
        | .error e => .error e
        | .ok fs => .ok (.tuple fs)
      | .udt ks name fields =>
        match decUdt u fields bs with
        | .error e => .error e
        | .ok fs => .ok (.udt ks name fs)
/-- Tuple fields: "no bytes left ⇒ null", else `read_cql_bytes` and `Option<CqlValue>`. -/
def decTuple (u : Bytes → Bool) : List CqlTy → Bytes → Except DeErr (List CqlVal)
  | [], _ => .ok []
  | t :: ts, bs =>
    if bs.isEmpty then
      match decTuple u ts bs with
      | .error e => .error e
      | .ok r => .ok (.null :: r)
    else
      match readCqlBytes bs with
      | .error e => .error e
      | .ok (none, rest) =>
        match decTuple u ts rest with
        | .error e => .error e
        | .ok r => .ok (.null :: r)
      | .ok (some b, rest) =>
        match decVal u t b with
        | .error e => .error e
        | .ok v =>
          match decTuple u ts rest with
          | .error e => .error e
          | .ok r => .ok (v :: r)
/-- `UdtIterator` (`BytesSequenceIterator`: stops when the slice is empty ⇒ missing ⇒ null). -/
def decUdt (u : Bytes → Bool) : List (String × CqlTy) → Bytes → Except DeErr (List (String × CqlVal))
  | [], _ => .ok []
  | (n, t) :: rest, bs =>
    if bs.isEmpty then
      match decUdt u rest bs with
      | .error e => .error e
      | .ok r => .ok ((n, .null) :: r)
    else
      match readCqlBytes bs with
      | .error e => .error e
      | .ok (none, tail) =>
        match decUdt u rest tail with
        | .error e => .error e
        | .ok r => .ok ((n, .null) :: r)
      | .ok (some b, tail) =>
        match decVal u t b with
        | .error e => .error e
        | .ok v =>
          match decUdt u rest tail with
          | .error e => .error e
          | .ok r => .ok ((n, v) :: r)
end

/-- `Option<CqlValue>::deserialize`: a null cell is `null`. -/
def decCell (u : Bytes → Bool) (t : CqlTy) : Option Bytes → Except DeErr CqlVal
  | none => .ok .null
  | some b => decVal u t b

/-- Parse one serialized cell (`[bytes]`) as the server / `RawValue` reader does and decode it. -/
def decBytes (u : Bytes → Bool) (t : CqlTy) (cell : Bytes) : Except DeErr CqlVal :=
  match readCqlBytes cell with
  | .error e => .error e
  | .ok (c, _) => decCell u t c

/-! ### normal form and domain of the round trip -/

/-- The field value the serializer uses for a UDT type field: last entry with that name, else null. -/
def lookupOrNull (n : String) (m : List (String × CqlVal)) : CqlVal :=
  match lookupLast n m with
  | some v => v
  | none => .null

mutual
/-- The value a well-formed `v` comes back as: short tuples / UDTs padded with nulls, UDT fields in type
order, the *empty* value of ascii / text / blob is the empty string (the same zero-length cell). -/
def pad : CqlTy → CqlVal → CqlVal
  | t, v =>
    match t with
    | .native .ascii => match v with | .empty => .ascii [] | _ => v
    | .native .text => match v with | .empty => .text [] | _ => v
    | .native .blob => match v with | .empty => .blob [] | _ => v
    | .native _ => v
    | .list elt => match v with | .list vs => .list (vs.map (fun x => pad elt x)) | _ => v
    | .set elt => match v with | .set vs => .set (vs.map (fun x => pad elt x)) | _ => v
    | .vector elt _ => match v with | .vector vs => .vector (vs.map (fun x => pad elt x)) | _ => v
    | .map kt vt => match v with
      | .map kvs => .map (kvs.map (fun kv => (pad kt kv.1, pad vt kv.2)))
      | _ => v
    | .tuple ts => match v with | .tuple fs => .tuple (padTuple ts fs) | _ => v
    | .udt ks name fields => match v with | .udt _ _ m => .udt ks name (padUdt fields m) | _ => v
def padTuple : List CqlTy → List CqlVal → List CqlVal
  | [], _ => []
  | _ :: ts, [] => .null :: padTuple ts []
  | t :: ts, f :: fs => pad t f :: padTuple ts fs
def padUdt : List (String × CqlTy) → List (String × CqlVal) → List (String × CqlVal)
  | [], _ => []
  | (n, t) :: rest, m => (n, pad t (lookupOrNull n m)) :: padUdt rest m
end

def isNullVal : CqlVal → Bool
  | .null => true
  | _ => false

def isEmptyVal : CqlVal → Bool
  | .empty => true
  | _ => false

/-- Values whose content is zero bytes long (within the domain): `empty` and the empty string / blob. -/
def zeroLenBody : CqlVal → Bool
  | .empty => true
  | .ascii [] => true
  | .text [] => true
  | .blob [] => true
  | _ => false

/-- Natives: the constructor is the type's, text is UTF-8 (`u`), ascii is ASCII, `time` is within a day,
a varint has at least one byte. -/
def wfNative (u : Bytes → Bool) : NativeTy → CqlVal → Bool
  | .ascii, .ascii s => s.all (fun b => b < 128) && u s
  | .text, .text s => u s
  | .blob, .blob _ => true
  | .boolean, .boolean _ => true
  | .tinyint, .tinyint _ => true
  | .smallint, .smallint _ => true
  | .int, .int _ => true
  | .bigint, .bigint _ => true
  | .counter, .counter _ => true
  | .float, .float _ => true
  | .double, .double _ => true
  | .date, .date _ => true
  | .time, .time x => x.toNat ≤ 86399999999999
  | .timestamp, .timestamp _ => true
  | .timeuuid, .timeuuid _ => true
  | .uuid, .uuid _ => true
  | .inet, .inet4 _ => true
  | .inet, .inet6 _ => true
  | .varint, .varint b => !b.isEmpty
  | .decimal, .decimal _ _ => true
  | .duration, .duration _ _ _ => true
  | _, _ => false

mutual
/-- Decidable well-formedness of a non-null value at a type: the domain of `roundtrip`.  Besides "has the
shape of the type" it excludes the three shapes on which the current code does not round-trip
(C01-F1: zero-field tuple value; C01-F2: null / unset vector element — nulls are only allowed by `wfCell`;
C01-F9: `empty` element of a fixed-width vector)
and degenerate types (zero-field tuple / UDT, zero-dimension vector). -/
def wfVal (u : Bytes → Bool) : CqlTy → CqlVal → Bool
  | t, v =>
    match v with
    | .null => false
    | .unset => false
    | .empty => t.supportsEmpty && (!t.isStringLike || u [])
    | _ =>
      match t with
      | .native n => wfNative u n v
      | .list elt => match v with | .list vs => vs.all (fun x => wfVal u elt x) | _ => false
      | .set elt => match v with | .set vs => vs.all (fun x => wfVal u elt x) | _ => false
      | .map kt vt => match v with
        | .map kvs => kvs.all (fun kv => wfVal u kt kv.1 && wfVal u vt kv.2)
        | _ => false
      | .vector elt dim => match v with
        | .vector vs =>
          vs.length == dim && decide (0 < dim) && vs.all (fun x => wfVal u elt x) &&
            (match elt.sizeForVector with
             | some _ => vs.all (fun x => !isEmptyVal x)
             | none => true)
        | _ => false
      | .tuple ts => match v with
        | .tuple fs => !fs.isEmpty && decide (fs.length ≤ ts.length) && wfTuple u ts fs
        | _ => false
      | .udt ks name fields => match v with
        | .udt vks vname m =>
          vks == ks && vname == name && !fields.isEmpty && decide ((fields.map (·.1)).Nodup) &&
            m.all (fun p => fields.any (fun f => f.1 == p.1)) && wfUdt u fields m
        | _ => false
def wfTuple (u : Bytes → Bool) : List CqlTy → List CqlVal → Bool
  | t :: ts, f :: fs => (isNullVal f || wfVal u t f) && wfTuple u ts fs
  | _, _ => true
def wfUdt (u : Bytes → Bool) : List (String × CqlTy) → List (String × CqlVal) → Bool
  | [], _ => true
  | (n, t) :: rest, m => (isNullVal (lookupOrNull n m) || wfVal u t (lookupOrNull n m)) && wfUdt u rest m
end

/-- Well-formedness at a nullable position (top level, tuple / UDT field). -/
def wfCell (u : Bytes → Bool) (t : CqlTy) (v : CqlVal) : Bool := isNullVal v || wfVal u t v

end ScyllaVerif.Codec

/-
Model of `MonotonicTimestampGenerator` (C18) ← `scylla/src/policies/timestamp_generator.rs:96-157`
and of the timestamp choice in `connection.rs` (`statement.get_timestamp().or_else(generator)`,
lines 890-896, 1055-1063, 1195-1201).

* `computeNext last clock`  ← `compute_next`: `clock = some u` is a successful `SystemTime::now()` reading
  already converted with `as_micros() as i64`; `none` is a reading before the UNIX epoch.
* `next_timestamp` is the CAS loop `load; compute_next; compare_exchange`; under sequential consistency of the
  three `SeqCst` operations every thread's iteration is the three atomic steps `load`, `compute`, `cas` below.
  The clock is an arbitrary input of every `compute` step (it may stall, repeat, jump backwards, be pre-epoch).
-/
namespace ScyllaVerif.Timestamp

def computeNext (last : Int) (clock : Option Int) : Int :=
  match clock with
  | some u => if u > last then u else last + 1
  | none => last + 1

/-- `Duration::as_micros() as i64` for a `u64` number of microseconds (wraps above `i64::MAX`). -/
def microsAsI64 (us : Nat) : Int :=
  let m : Nat := us % 2 ^ 64
  if m < 2 ^ 63 then Int.ofNat m else Int.ofNat m - 2 ^ 64

inductive Pc where
  | idle                       -- not inside `next_timestamp`, or at the top of the loop
  | loaded (l : Int)           -- `let last = self.last.load()` done
  | computed (l c : Int)       -- `let cur = self.compute_next(last)` done
  deriving Repr, DecidableEq

inductive Ev where
  | load (t : Nat)
  | compute (t : Nat) (clock : Option Int)
  | cas (t : Nat)
  deriving Repr, DecidableEq

structure St where
  last : Int                     -- the shared `AtomicI64`
  pcs : Nat → Pc                 -- program counter of every thread
  log : List (Nat × Int)         -- (thread, value) of every successful CAS = every returned timestamp, oldest first

def St.init : St := ⟨0, fun _ => .idle, []⟩

def setPc (pcs : Nat → Pc) (t : Nat) (pc : Pc) : Nat → Pc := fun t' => if t' = t then pc else pcs t'

def step (s : St) : Ev → St
  | .load t =>
    match s.pcs t with
    | .idle => { s with pcs := setPc s.pcs t (.loaded s.last) }
    | _ => s
  | .compute t clock =>
    match s.pcs t with
    | .loaded l => { s with pcs := setPc s.pcs t (.computed l (computeNext l clock)) }
    | _ => s
  | .cas t =>
    match s.pcs t with
    | .computed l c =>
      if s.last = l then
        -- success: `cur` is installed and returned
        { last := c, pcs := setPc s.pcs t .idle, log := s.log ++ [(t, c)] }
      else
        -- failure: go round the loop again
        { s with pcs := setPc s.pcs t .idle }
    | _ => s

def run (s : St) (evs : List Ev) : St := evs.foldl step s

/-- The timestamp put on the wire: an explicit statement timestamp wins, else the generator (if any). -/
def pickTimestamp (stmtTs : Option Int) (gen : Option (Unit → Int)) : Option Int :=
  match stmtTs with
  | some t => some t
  | none => gen.map (fun g => g ())

/-- The EXECUTE frames one `Connection::execute_raw_with_consistency` call writes (connection.rs:1046-1148), as the
timestamps they carry: the timestamp is picked ONCE, before the first frame; when the node answers UNPREPARED the
statement is re-prepared and the frame is RE-SENT with `..execute_frame.parameters`, i.e. with the very same
timestamp. `unprepared` = the node refused the first frame. -/
def executeFrames (stmtTs : Option Int) (gen : Option (Unit → Int)) (unprepared : Bool) : List (Option Int) :=
  let ts := pickTimestamp stmtTs gen
  if unprepared then [ts, ts] else [ts]

/-- The BATCH frames one `Connection::batch_with_consistency` call writes (connection.rs:1195-1245): the timestamp
is picked ONCE before the `loop`, the frame value `batch_frame` is built once, and every round of the re-prepare loop
(`continue` after an UNPREPARED naming one of the batch's statements) sends that same frame again; `resends` = the
number of rounds the node refused (the loop itself is unbounded: it ends when the node stops evicting). -/
def batchFrames (batchTs : Option Int) (gen : Option (Unit → Int)) (resends : Nat) : List (Option Int) :=
  List.replicate (resends + 1) (pickTimestamp batchTs gen)

/-- The single QUERY frame of `Connection::query_raw_with_consistency` (connection.rs:886-900): no re-send path. -/
def queryFrames (stmtTs : Option Int) (gen : Option (Unit → Int)) : List (Option Int) :=
  [pickTimestamp stmtTs gen]

/-! ### sequential runs under a scripted clock (what the harness observes on one thread) -/

/-- The scripted clock of `verif_hooks::clock`: each reading pops the next entry; when the script is
exhausted the last entry keeps being returned (`none` if there never was one). -/
def readClock (script : List (Option Nat)) (lastEntry : Option Nat) : Option Nat × List (Option Nat) :=
  match script with
  | [] => (lastEntry, [])
  | e :: rest => (e, rest)

/-- `calls` consecutive `next_timestamp()` calls on one thread (each CAS succeeds). -/
def seqRun : Nat → Int → List (Option Nat) → Option Nat → List Int
  | 0, _, _, _ => []
  | n + 1, last, script, lastEntry =>
    let (r, rest) := readClock script lastEntry
    let v := computeNext last (r.map microsAsI64)
    v :: seqRun n v rest r

end ScyllaVerif.Timestamp

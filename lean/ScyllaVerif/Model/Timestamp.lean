/-
Model of `MonotonicTimestampGenerator` (C18) ← `scylla/src/policies/timestamp_generator.rs:96-157`
and of the timestamp choice in `connection.rs` (`statement.get_timestamp().or_else(generator)`,
lines 890-896, 1055-1063, 1195-1201).

* `computeNext last clock`  ← `compute_next`: `clock = some u` is a successful `SystemTime::now()` reading
  already converted with `as_micros() as i64`; `none` is a reading before the UNIX epoch.
* `next_timestamp` is the CAS loop `load; compute_next; compare_exchange`; under sequential consistency of the
  three `SeqCst` operations every thread's iteration is the three atomic steps `load`, `compute`, `cas` below.
  The clock is an arbitrary input of every `compute` step (it may stall, repeat, jump backwards, be pre-epoch).
* `computeNextW` ← `compute_next` in full (lines 99-137), i.e. with the warning arm: configuration, `Mutex<Instant>`,
  `Instant::now()`, `checked_add(..).unwrap()`; `stepW` / `runW` = the CAS loop with that state alongside.
* `pickTimestampSt` / `framesSt`: the timestamp choice with the generator as a state machine.
-/
namespace ScyllaVerif.Timestamp

def computeNext (last : Int) (clock : Option Int) : Int :=
  match clock with
  | some u => if u > last then u else last + 1
  | none => last + 1

/-- `Duration::as_micros() as i64` for a `u64` number of microseconds (wraps above `i64::MAX`). -/
def microsAsI64 (us : Nat) : Int :=
  let m : Nat := us % 2 ^ 64
  if m < 2 ^ 63 then Int.ofNat m else Int.ofNat m - 2 ^ 64

inductive Pc where
  | idle                       -- not inside `next_timestamp`, or at the top of the loop
  | loaded (l : Int)           -- `let last = self.last.load()` done
  | computed (l c : Int)       -- `let cur = self.compute_next(last)` done
  deriving Repr, DecidableEq

inductive Ev where
  | load (t : Nat)
  | compute (t : Nat) (clock : Option Int)
  | cas (t : Nat)
  deriving Repr, DecidableEq

structure St where
  last : Int                     -- the shared `AtomicI64`
  pcs : Nat → Pc                 -- program counter of every thread
  log : List (Nat × Int)         -- (thread, value) of every successful CAS = every returned timestamp, oldest first

def St.init : St := ⟨0, fun _ => .idle, []⟩

def setPc (pcs : Nat → Pc) (t : Nat) (pc : Pc) : Nat → Pc := fun t' => if t' = t then pc else pcs t'

def step (s : St) : Ev → St
  | .load t =>
    match s.pcs t with
    | .idle => { s with pcs := setPc s.pcs t (.loaded s.last) }
    | _ => s
  | .compute t clock =>
    match s.pcs t with
    | .loaded l => { s with pcs := setPc s.pcs t (.computed l (computeNext l clock)) }
    | _ => s
  | .cas t =>
    match s.pcs t with
    | .computed l c =>
      if s.last = l then
        -- success: `cur` is installed and returned
        { last := c, pcs := setPc s.pcs t .idle, log := s.log ++ [(t, c)] }
      else
        -- failure: go round the loop again
        { s with pcs := setPc s.pcs t .idle }
    | _ => s

def run (s : St) (evs : List Ev) : St := evs.foldl step s

/-- The timestamp put on the wire: an explicit statement timestamp wins, else the generator (if any). -/
def pickTimestamp (stmtTs : Option Int) (gen : Option (Unit → Int)) : Option Int :=
  match stmtTs with
  | some t => some t
  | none => gen.map (fun g => g ())

/-- The EXECUTE frames one `Connection::execute_raw_with_consistency` call writes (connection.rs:1046-1148), as the
timestamps they carry: the timestamp is picked ONCE, before the first frame; when the node answers UNPREPARED the
statement is re-prepared and the frame is RE-SENT with `..execute_frame.parameters`, i.e. with the very same
timestamp. `unprepared` = the node refused the first frame. -/
def executeFrames (stmtTs : Option Int) (gen : Option (Unit → Int)) (unprepared : Bool) : List (Option Int) :=
  let ts := pickTimestamp stmtTs gen
  if unprepared then [ts, ts] else [ts]

/-- The BATCH frames one `Connection::batch_with_consistency` call writes (connection.rs:1195-1245): the timestamp
is picked ONCE before the `loop`, the frame value `batch_frame` is built once, and every round of the re-prepare loop
(`continue` after an UNPREPARED naming one of the batch's statements) sends that same frame again; `resends` = the
number of rounds the node refused (the loop itself is unbounded: it ends when the node stops evicting). -/
def batchFrames (batchTs : Option Int) (gen : Option (Unit → Int)) (resends : Nat) : List (Option Int) :=
  List.replicate (resends + 1) (pickTimestamp batchTs gen)

/-- The single QUERY frame of `Connection::query_raw_with_consistency` (connection.rs:886-900): no re-send path. -/
def queryFrames (stmtTs : Option Int) (gen : Option (Unit → Int)) : List (Option Int) :=
  [pickTimestamp stmtTs gen]

/-! ### sequential runs under a scripted clock (what the harness observes on one thread) -/

/-- The scripted clock of `verif_hooks::clock`: each reading pops the next entry; when the script is
exhausted the last entry keeps being returned (`none` if there never was one). -/
def readClock (script : List (Option Nat)) (lastEntry : Option Nat) : Option Nat × List (Option Nat) :=
  match script with
  | [] => (lastEntry, [])
  | e :: rest => (e, rest)

/-- `calls` consecutive `next_timestamp()` calls on one thread (each CAS succeeds). -/
def seqRun : Nat → Int → List (Option Nat) → Option Nat → List Int
  | 0, _, _, _ => []
  | n + 1, last, script, lastEntry =>
    let (r, rest) := readClock script lastEntry
    let v := computeNext last (r.map microsAsI64)
    v :: seqRun n v rest r

/-! ### the warning arm of `compute_next` (timestamp_generator.rs:109-130)

`compute_next` with everything it touches besides `last`: the optional warnings configuration, the
`Mutex<Instant>` of the last warning, and the reading of the MONOTONIC clock (`Instant::now()`, line 114) taken
inside the critical section. Instants and durations are natural numbers of nanoseconds. -/

/-- `MonotonicTimestampGeneratorWarningsCfg` as the code uses it: `warning_threshold.as_micros() as i64`
(line 111: it is NEGATIVE for thresholds of 2^63 µs and more) and `warning_interval` in nanoseconds. -/
structure WarnCfg where
  thresholdUs : Int
  intervalNs : Nat
  deriving Repr, DecidableEq

/-- `last_warning : Mutex<Instant>`: the stored instant and the poison flag of the mutex. -/
structure WarnSt where
  lastWarnNs : Nat
  poisoned : Bool
  deriving Repr, DecidableEq

/-- Which `warn!` a call of `compute_next` emitted. -/
inductive Warned where
  | no
  | skew     -- line 119 "Clock skew detected. The current time (..) was .. microseconds behind .."
  | epoch    -- line 133 "The current time was behind UNIX epoch."
  deriving Repr, DecidableEq

/-- `Instant::checked_add(Duration)` (std, unix `Timespec { tv_sec : i64, tv_nsec }`): `None` exactly when the
seconds of the sum leave `i64`. -/
def instantCheckedAdd (instNs durNs : Nat) : Option Nat :=
  if (instNs + durNs) / 1000000000 < 2 ^ 63 then some (instNs + durNs) else none

/-- `compute_next(last)` (lines 99-137) in full. `none` in the first component = the call PANICS:
`self.last_warning.lock().unwrap()` on a poisoned mutex (line 113), or `checked_add(..).unwrap()` (line 115) -
the latter while the guard is alive, so the unwinding poisons the mutex. `now` = `Instant::now()` of line 114. -/
def computeNextW (cfg : Option WarnCfg) (last : Int) (clock : Option Int) (w : WarnSt) (now : Nat) :
    Option (Int × Warned) × WarnSt :=
  match clock with
  | none => (some (last + 1, .epoch), w)
  | some u =>
    if u > last then (some (u, .no), w)
    else match cfg with
      | none => (some (last + 1, .no), w)
      | some c =>
        if last - u > c.thresholdUs then
          if w.poisoned then (none, w)
          else match instantCheckedAdd w.lastWarnNs c.intervalNs with
            | none => (none, { w with poisoned := true })
            | some due =>
              if now ≥ due then (some (last + 1, .skew), { w with lastWarnNs := now })
              else (some (last + 1, .no), w)
        else (some (last + 1, .no), w)

/-- The CAS loop with the warning state alongside (`core` is the machine of the theorems above; the critical
section touches only `last_warning`, so it is part of the atomic `compute` step). `panics` counts calls that
unwound out of `next_timestamp` (they return nothing and leave `last` alone). -/
structure StW where
  core : St
  warn : WarnSt
  panics : Nat

inductive EvW where
  | load (t : Nat)
  | compute (t : Nat) (clock : Option Int) (now : Nat)
  | cas (t : Nat)
  deriving Repr, DecidableEq

def EvW.erase : EvW → Ev
  | .load t => .load t
  | .compute t clock _ => .compute t clock
  | .cas t => .cas t

def stepW (cfg : Option WarnCfg) (s : StW) : EvW → StW
  | .load t => { s with core := step s.core (.load t) }
  | .cas t => { s with core := step s.core (.cas t) }
  | .compute t clock now =>
    match s.core.pcs t with
    | .loaded l =>
      match computeNextW cfg l clock s.warn now with
      | (some (v, _), w') => { s with core := { s.core with pcs := setPc s.core.pcs t (.computed l v) }, warn := w' }
      | (none, w') => { core := { s.core with pcs := setPc s.core.pcs t .idle }, warn := w', panics := s.panics + 1 }
    | _ => s

def runW (cfg : Option WarnCfg) (s : StW) (evs : List EvW) : StW := evs.foldl (stepW cfg) s

/-- `calls` consecutive `next_timestamp()` calls on one thread of a warning-configured generator under the
scripted clock; `nowOf lw` = the monotonic-clock reading taken when the stored instant is `lw`.
Per call: `some (value, warning emitted)` or `none` = the call panicked (`last` unchanged, the reading consumed). -/
def seqRunW (cfg : Option WarnCfg) (nowOf : Nat → Nat) :
    Nat → Int → List (Option Nat) → Option Nat → WarnSt → List (Option (Int × Warned))
  | 0, _, _, _, _ => []
  | n + 1, last, script, lastEntry, w =>
    let (r, rest) := readClock script lastEntry
    match computeNextW cfg last (r.map microsAsI64) w (nowOf w.lastWarnNs) with
    | (some (v, wd), w') => some (v, wd) :: seqRunW cfg nowOf n v rest r w'
    | (none, w') => none :: seqRunW cfg nowOf n last rest r w'

/-- `seqt` cases: the same calls under a PAUSED tokio clock (`tokio::time::Instant::now()` stands still; the generator
uses tokio's `Instant`, timestamp_generator.rs:12): before call k the clock is advanced by `advs[k]` ns. Instants
are ns since the generator was created (`last_warning` starts there: `WarnSt.lastWarnNs = 0`, `now = 0`). -/
def seqRunT (cfg : Option WarnCfg) :
    List Nat → Int → List (Option Nat) → Option Nat → WarnSt → Nat → List (Option (Int × Warned))
  | [], _, _, _, _, _ => []
  | a :: advs, last, script, lastEntry, w, now =>
    let (r, rest) := readClock script lastEntry
    match computeNextW cfg last (r.map microsAsI64) w (now + a) with
    | (some (v, wd), w') => some (v, wd) :: seqRunT cfg advs v rest r w' (now + a)
    | (none, w') => none :: seqRunT cfg advs last rest r w' (now + a)

/-! ### the timestamp choice with the generator as a STATE (so that "not consulted" can be said) -/

/-- `statement.get_timestamp().or_else(|| generator.next_timestamp())` with a stateful generator
`g : σ → Int × σ`: the second component is the generator's state afterwards. -/
def pickTimestampSt {σ : Type} (stmtTs : Option Int) (gen : Option (σ → Int × σ)) (s : σ) : Option Int × σ :=
  match stmtTs with
  | some t => (some t, s)
  | none =>
    match gen with
    | some g => (some (g s).1, (g s).2)
    | none => (none, s)

/-- A statement sent `resends + 1` times by ONE call (`*_with_consistency`): one pick, then the frames. -/
def framesSt {σ : Type} (stmtTs : Option Int) (gen : Option (σ → Int × σ)) (s : σ) (resends : Nat) :
    List (Option Int) × σ :=
  let p := pickTimestampSt stmtTs gen s
  (List.replicate (resends + 1) p.1, p.2)

/-! ### the statement-API layer, as far as the timestamp goes

`StatementConfig.timestamp` (statement/mod.rs:36) and the setters / getters / constructors / copies of the three
statement kinds through which a caller's timestamp reaches `*_with_consistency`: `Statement`
(unprepared.rs:128-135), `PreparedStatement` (prepared.rs:524-531), `Batch` of every `BatchType`
(batch.rs:38-74, 148-155). Everything else in the configuration is abstracted away. -/

inductive BatchType where
  | logged | unlogged | counter
  deriving Repr, DecidableEq

/-- `StatementConfig` (only the field C18 speaks about). `Default` = no timestamp. -/
structure StmtCfg where
  timestamp : Option Int := none
  deriving Repr, DecidableEq

structure StatementM where          -- `Statement`
  cfg : StmtCfg := {}
  deriving Repr, DecidableEq

structure PreparedM where           -- `PreparedStatement` (a handle: shared data + its own config)
  cfg : StmtCfg := {}
  deriving Repr, DecidableEq

inductive BatchStmtM where          -- `BatchStatement`
  | query (s : StatementM)
  | prepared (p : PreparedM)
  deriving Repr, DecidableEq

structure BatchM where              -- `Batch`
  ty : BatchType := .logged
  cfg : StmtCfg := {}
  stmts : List BatchStmtM := []
  deriving Repr, DecidableEq

def StatementM.new : StatementM := {}
def StatementM.setTimestamp (s : StatementM) (t : Option Int) : StatementM := { s with cfg := { s.cfg with timestamp := t } }
def StatementM.getTimestamp (s : StatementM) : Option Int := s.cfg.timestamp

def PreparedM.setTimestamp (p : PreparedM) (t : Option Int) : PreparedM := { p with cfg := { p.cfg with timestamp := t } }
def PreparedM.getTimestamp (p : PreparedM) : Option Int := p.cfg.timestamp

/-- `Connection::prepare(&statement)` (connection.rs: `PreparedStatement::new(.., statement.config.clone())`) and
`Session::prepare`: the prepared statement inherits the statement's configuration. -/
def StatementM.prepare (s : StatementM) : PreparedM := { cfg := s.cfg }

/-- `UnconfiguredPreparedStatement::make_configured_handle(query.config, ..)` (prepared.rs:704-716): a CachingSession
cache HIT (or miss) hands out a handle whose configuration is that of the CURRENT call's statement, whatever the
statement that populated the cache carried. -/
def cachedHandle (_cachedFrom : StatementM) (current : StatementM) : PreparedM := { cfg := current.cfg }

def BatchM.new (ty : BatchType) : BatchM := { ty := ty }                                        -- batch.rs:38-43
def BatchM.newWithStatements (ty : BatchType) (stmts : List BatchStmtM) : BatchM := { ty := ty, stmts := stmts }  -- 63-69
/-- `Batch::new_from` (batch.rs:45-53): type and configuration of the given batch, no statements. -/
def BatchM.newFrom (b : BatchM) : BatchM := { ty := b.ty, cfg := b.cfg }
def BatchM.append (b : BatchM) (s : BatchStmtM) : BatchM := { b with stmts := b.stmts ++ [s] }
def BatchM.setTimestamp (b : BatchM) (t : Option Int) : BatchM := { b with cfg := { b.cfg with timestamp := t } }  -- 148-150
def BatchM.getTimestamp (b : BatchM) : Option Int := b.cfg.timestamp                                            -- 153-155

/-- `Connection::prepare_batch` (connection.rs:1248-1290): when some unprepared statement has values (`needs`), a
NEW batch is built with `Batch::new_from(init_batch)` and every statement appended again (the ones with values
prepared with a FRESH `Statement::new(text)`, i.e. default configuration); otherwise the batch is used as it is. -/
def connPrepareBatch (b : BatchM) (needs : BatchStmtM → Bool) : BatchM :=
  if b.stmts.any needs then
    b.stmts.foldl (fun acc st => acc.append (if needs st then .prepared (StatementM.prepare StatementM.new) else st)) b.newFrom
  else b

/-- `Session::prepare_batch` / `CachingSession::prepare_batch` (session.rs:1945-1963, caching_session.rs): a CLONE of
the batch whose unprepared statements are replaced by prepared ones. -/
def sessionPrepareBatch (b : BatchM) : BatchM :=
  { b with stmts := b.stmts.map fun
      | .query s => .prepared s.prepare
      | st => st }

/-- The BATCH frames of `batch_with_consistency(init_batch, ..)`: `prepare_batch`, then `batch.get_timestamp()
.or_else(generator)` once, then the frames. -/
def batchCallFrames (b : BatchM) (needs : BatchStmtM → Bool) (gen : Option (Unit → Int)) (resends : Nat) : List (Option Int) :=
  batchFrames (connPrepareBatch b needs).getTimestamp gen resends

/-- The EXECUTE frames of `Session::query_*` with values: `connection.prepare(statement)`, then
`execute_raw_with_consistency(&prepared, ..)`. -/
def queryWithValuesFrames (s : StatementM) (gen : Option (Unit → Int)) (unprepared : Bool) : List (Option Int) :=
  executeFrames s.prepare.getTimestamp gen unprepared

/-- One operation of the `api` cases on a `Statement` / `Batch` value. -/
inductive ApiOp where
  | set (t : Option Int)
  | get
  | clone           -- continue on the clone
  | append          -- `append_statement` (Batch only; a no-op on a Statement)
  deriving Repr, DecidableEq

/-- runs the operations on a statement; the result is what the `get`s returned -/
def apiRunStatement : StatementM → List ApiOp → List (Option Int)
  | _, [] => []
  | s, .set t :: rest => apiRunStatement (s.setTimestamp t) rest
  | s, .get :: rest => s.getTimestamp :: apiRunStatement s rest
  | s, .clone :: rest => apiRunStatement s rest
  | s, .append :: rest => apiRunStatement s rest

def apiRunBatch : BatchM → List ApiOp → List (Option Int)
  | _, [] => []
  | b, .set t :: rest => apiRunBatch (b.setTimestamp t) rest
  | b, .get :: rest => b.getTimestamp :: apiRunBatch b rest
  | b, .clone :: rest => apiRunBatch b rest
  | b, .append :: rest => apiRunBatch (b.append (.query StatementM.new)) rest

/-! ### paged executions: ONE `*_with_consistency` call PER PAGE

A paged execution (`Session::query_single_page` / `execute_single_page` called in a loop with the paging state the
previous answer returned, or resumed later from a SAVED state; the pagers of pager.rs:583, 897, 1058, which call
`query_raw_with_consistency` / `execute_raw_with_consistency` once per page) is a sequence of calls of the same
connection-level function, each with the statement's configuration and the paging state of its page
(connection.rs:880-912 QUERY, 1046-1148 EXECUTE). The paging state is an ARGUMENT of every call and is only copied
into the frame (`paging_state,` in `QueryParameters`): the timestamp is chosen exactly as for a first page. -/

/-- What one QUERY / EXECUTE frame of a page request carries, as far as C18 and the continuation go:
`paging = none` is `PagingState::start()`, `some k` a state the server handed out earlier. -/
structure PageFrame where
  timestamp : Option Int
  paging : Option Nat
  deriving Repr, DecidableEq

/-- The frames of ONE page call (`query_raw_with_consistency` / `execute_raw_with_consistency` with the given
paging state): one pick (`statement.get_timestamp().or_else(generator)`), then `resends + 1` frames (EXECUTE: the
frame re-sent after UNPREPARED reuses `..execute_frame.parameters`, paging state included; QUERY: `resends = 0`). -/
def pageCallSt {σ : Type} (stmtTs : Option Int) (gen : Option (σ → Int × σ)) (s : σ) (paging : Option Nat)
    (resends : Nat) : List PageFrame × σ :=
  let p := framesSt stmtTs gen s resends
  (p.1.map (fun t => { timestamp := t, paging := paging }), p.2)

/-- A whole paged execution: the calls one after another, `pages` = per call (paging state sent, re-sends). -/
def pagedFramesSt {σ : Type} (stmtTs : Option Int) (gen : Option (σ → Int × σ)) :
    σ → List (Option Nat × Nat) → List PageFrame × σ
  | s, [] => ([], s)
  | s, (pg, resends) :: rest =>
    let p := pageCallSt stmtTs gen s pg resends
    let r := pagedFramesSt stmtTs gen p.2 rest
    (p.1 ++ r.1, r.2)

/-- The counting generator of the harness (`ScriptedGenerator`: hands out `next`, then `next += step`, and counts
its calls): state = (next, calls so far). -/
def ctrGen (step : Int) : Int × Nat → Int × (Int × Nat) := fun s => (s.1, (s.1 + step, s.2 + 1))

/-- The `page` cases: executions one after another on ONE connection; per execution the statement's timestamp and
its pages. Result per execution: its frames and how many times the generator was asked during it. -/
def pagedExecs (gen : Option (Int × Nat → Int × (Int × Nat))) :
    Int × Nat → List (Option Int × List (Option Nat × Nat)) → List (List PageFrame × Nat)
  | _, [] => []
  | s, (ts, pages) :: rest =>
    let r := pagedFramesSt ts gen s pages
    (r.1, r.2.2 - s.2) :: pagedExecs gen r.2 rest

/-- The batch frames as a function of the WHOLE batch value, inner statements included (connection.rs:1201 reads
`batch.get_timestamp()` only: a timestamp set on a `Statement` / `PreparedStatement` appended to a batch is NOT
consulted - the BATCH frame has one timestamp field). -/
def BatchStmtM.setTimestamp (st : BatchStmtM) (t : Option Int) : BatchStmtM :=
  match st with
  | .query s => .query (s.setTimestamp t)
  | .prepared p => .prepared (p.setTimestamp t)

end ScyllaVerif.Timestamp

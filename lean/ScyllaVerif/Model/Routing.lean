import ScyllaVerif.Model.Ring
import ScyllaVerif.Model.Replicas
import ScyllaVerif.Model.Plan
import ScyllaVerif.Model.Sharding
import ScyllaVerif.Model.Tablets
import ScyllaVerif.Model.TabletsRefresh
import ScyllaVerif.Model.PartitionKey
/-
Model of the route of a token-aware request (C12): a COMPOSITION of the C03 / C04 / C05 / C11 / C15 models plus the two
pieces that exist only here - the policy over a *tablet* replica set and the per-node connection pool.

* `SharderM`, `computedShard`     ← `Sharder`, `with_computed_shard` (`routing/locator/mod.rs:274-280`): the shard of the
                                    token under the TARGET node's own sharder, 0 for a node without one.
* `RCluster`, `toCluster`         ← what a request reads of `ClusterState`: the C05 `Cluster` (ring locator, keyspace
                                    strategies, `is_enabled` / `is_connected`) + `Node::sharder()` per host id +
                                    `known_nodes` (`peers`) + `locator.tablets` (`tables`, one C15 tablet list per table).
* `translator`, `resolve`         ← `replica_translator` of `ClusterState::update_tablets` (`cluster/state.rs:647-675`): a
                                    tablet replica is the known `Node` with that host id (C15's `Node` keeps host id and
                                    datacenter name; rack / liveness are read from the known node again).
* `tabletReplicas`                ← the tablet branch of `ReplicaLocator::replicas_for_token` (`locator/mod.rs:111-124`):
                                    `dc_replicas_for_token` / `replicas_for_token` of the C15 model, `&[]` when no tablet
                                    covers the token.  `ReplicaSetInner::PlainSharded`: `len`, `choose`, iteration and the
                                    "ordered" view are all that one slice, every replica carrying the TABLET's shard.
* `toPeer`, `StateOp`, `RState.{init, step, run}`
                                  ← histories of tablet feedback and metadata refreshes, run on C15's refresh model
                                    `Model/TabletsRefresh.lean` (`ClusterState::{calculate_new_topology,
                                    perform_tablets_maintenance, update_tablets}`, `cluster/state.rs:275-341, 375-405,
                                    647-675`): which `Node` objects survive a refresh, which host ids count as removed /
                                    re-created, the re-resolution of unknown tablet replicas.
* `filteredT` … `planT`           ← `DefaultPolicy::{filtered_replicas, pick_first_replica, pick_random_replica,
                                    maybe_shuffled_replicas, pick, fallback}` (`default.rs:145-541, 664-838`) on a
                                    `PlainSharded` set.  The token-unaware steps / groups are literally those of the C05
                                    model (`pickSteps` / `fallbackGroups` of the same request without token, first three
                                    entries dropped).
* `PreparedM`, `ExecM`, `sessionRoutingInfo`, `sessionFirstAttempt`
                                  ← `Session::execute` (`session.rs:1775-1816`) and, as `pagerRoutingInfo`, the two further copies of
                                    the literal in `execute_iter` (`pager.rs:949-966` first page, `1017-1049` pages 2+): token (C03 model), table spec, LWT flag,
                                    consistency, location preference → `RoutingInfo` → plan → first attempt.
* `routePlan`                     ← `Plan::new(policy, routing_info, cluster)` (`session.rs:2165-2173`): tablets first
                                    (`tablets_for_table(table_spec)` is `Some` - also with an EMPTY tablet list: the table
                                    is then known to be tablet-based and the ring is never consulted), else the C05 `plan`.
* `firstAttempt`                  ← first `Plan::next` + `with_random_shard_if_unknown` (`plan.rs:94-108`) →
                                    `NodeAttemptTarget::new(node, shard)` → `node.connection_for_shard(shard)`
                                    (`execution.rs:207-224`, `node.rs:216-221`).
* `chooseConn`, `swapRemoveAt`, `tryShards`, `connectionForShard`
                                  ← `choose_random_connection_from_slice`, `Vec::swap_remove`, the `while` loop of
                                    `connection_for_shard_helper`, `connection_for_shard` (`connection_pool.rs:320-410,
                                    455-472`).  `none` = the Rust panics (`.unwrap()` on an empty unsharded pool,
                                    `unreachable!`): proved unreachable for a pool the refiller published.
* `Refiller`, `handleReady`, `removeConn`, `publish`, `step`
                                  ← `PoolRefiller::{new, handle_ready_connection (Ok arm, keyspace already set),
                                    maybe_reshard, update_shared_conns, remove_connection, excess_connection_limit}` and
                                    the `is_full → clear excess` of `run` (`connection_pool.rs:577-621, 665-679, 912-1035,
                                    1098-1153, 1218-1280, 1366-1379`).  Connection opening (ports, back-off, the
                                    advanced-shard-awareness block) decides WHICH connections arrive and is an input here.

All random choices are explicit arguments (`RhoPick`, `RhoFb`, the shard draw of `firstAttempt`, `PoolRho`).
-/
namespace ScyllaVerif.Routing
open ScyllaVerif.Ring ScyllaVerif.Replicas ScyllaVerif.Plan

/-! ### sharders -/

/-- `Sharder { nr_shards, msb_ignore }`. `nr_shards` is a `NonZeroU16` in the Rust: the values the code can hold are
those with `SharderM.Valid`. -/
structure SharderM where
  nr : Nat
  msb : UInt8
  deriving DecidableEq, Repr

/-- `ShardCount = NonZeroU16`. -/
def SharderM.Valid (s : SharderM) : Prop := 0 < s.nr ∧ s.nr ≤ 65535

/-- `with_computed_shard`: `node.sharder().map(|s| s.shard_of(token)).unwrap_or(0)`. -/
def computedShard (sh : Option SharderM) (tok : Int) : Nat :=
  match sh with
  | some s => Sharding.shardOfImpl s.nr s.msb (Int64.ofInt tok)
  | none => 0

/-! ### the cluster a request is routed on -/

/-- What routing reads of `ClusterState`. -/
structure RCluster where
  loc : Locator
  keyspaces : List Strategy
  disabled : List Nat
  down : List Nat
  /-- `Node::sharder()` by host id (`None`: no pool, pool not ready, or a node without shards). -/
  sharder : Nat → Option SharderM
  /-- `known_nodes`. -/
  peers : List Node
  /-- `locator.tablets`: table `(k<i>, t<j>)` ↦ its tablet list (present = the table is tablet-based). -/
  tables : List ((Nat × Nat) × List Tablets.Tablet)

/-- The C05 view of the cluster for a request with this token (`sh` = `with_computed_shard` for that token). -/
def RCluster.toCluster (rc : RCluster) (tok : Option Int) : Cluster :=
  { loc := rc.loc, keyspaces := rc.keyspaces, disabled := rc.disabled, down := rc.down
    sh := fun id => computedShard (rc.sharder id) (tok.getD 0) }

/-- `RoutingInfo` with the table name: `table = TableSpec(k<rq.table>, t<tbl>)`. -/
structure RRequest where
  rq : Request
  tbl : Nat
  deriving Repr

/-- Datacenter name on the Rust side of the case syntax (`topology.rs::dc_name`). -/
def dcName (d : Nat) : String := "dc" ++ Nat.repr d

/-- The C15 view of a known node. -/
def toTNode (n : Node) : Tablets.Node := ⟨n.id, n.dc.map dcName, 0⟩

/-- `replica_translator`: `known_nodes.get(&uuid)`. -/
def translator (peers : List Node) (id : Nat) : Option Tablets.Node :=
  (peers.find? (fun n => n.id == id)).map toTNode

/-- The `Arc<Node>` of a tablet replica: the known node with that host id. -/
def resolve (peers : List Node) (r : Tablets.Rep) : Option (Node × Nat) :=
  (peers.find? (fun n => n.id == r.1.hostId)).map (fun n => (n, r.2))

/-- A replica with its shard: `(NodeRef, Shard)`. -/
abbrev SRep := Node × Nat

/-- `tablets_for_table(table_spec)`. -/
def tabletsOf (rc : RCluster) (r : RRequest) : Option (List Tablets.Tablet) :=
  match r.rq.table with
  | some ks => Tablets.alGet (ks, r.tbl) rc.tables
  | none => none

/-- The tablet branch of `replicas_for_token`: the covering tablet's replicas (of one datacenter), `&[]` if none. -/
def tabletReplicas (rc : RCluster) (xs : List Tablets.Tablet) (tok : Int) (dc : Option Nat) : List SRep :=
  ((match dc with
    | some d => Tablets.dcReplicasForToken xs tok (dcName d)
    | none => Tablets.replicasForToken xs tok).getD []).filterMap (resolve rc.peers)

/-! ### metadata refreshes: what happens to the tablet map when the topology changes

The refresh itself (`ClusterState::{calculate_new_topology, perform_tablets_maintenance, update_tablets}`) is C15's model
`Model/TabletsRefresh.lean` (`CState`, `refresh`, `learn`); here it is only fed with the peers of the routing model. -/

/-- Rack name on the Rust side of the case syntax (`topology.rs::rack_name`). -/
def rackName (r : Nat) : String := "r" ++ Nat.repr r

/-- A peer of the routing model - node, address, verdict of the host filter - as a `system.peers` row. (In the
correspondence run the nodes are pool-less hook nodes: rejected by the host filter in `R` histories, `accepted = false`,
accepted in `G` / `H` histories, `accepted = true`; the theorems are about any verdicts, i.e. also the
`(true, Some(node))` arms of `calculate_new_topology` that ordinary nodes take.)
The keyspace metadata `keyspaces` handed to `RState.step` is ONE list for the whole history: keyspaces dropped, failing
to parse (`resolve_metadata_keyspaces`) or changing between refreshes are not modelled here (C15 models them). -/
def toPeer (p : (Node × Nat) × Bool) : TabletsRefresh.Peer :=
  ⟨p.1.1.id, p.1.1.dc.map dcName, p.1.1.rack.map rackName, p.1.2, p.2⟩

/-- What happens to the cluster state between two requests, as far as routing is concerned. -/
inductive StateOp where
  /-- tablet feedback: one tablet of table `spec` (`(keyspace, table)` names) -/
  | learn (spec : String × String) (first last : Int) (raw : List (Nat × Nat))
  /-- a metadata refresh (`ClusterState::new_updated`) to these peers `((node, address), accepted by the host filter)` -/
  | refresh (peers : List ((Node × Nat) × Bool))

/-- The routing-relevant state: `known_nodes` and `locator.tablets` (C15's `CState`). -/
abbrev RState := TabletsRefresh.CState

/-- `ClusterState::new`: a refresh from the empty state (every peer gets a fresh `Node`; maintenance on an empty tablet
map creates the entries of the tables of tablet-based keyspaces). -/
def RState.init (keyspaces : List (String × Bool × List String)) (peers : List ((Node × Nat) × Bool)) : RState :=
  TabletsRefresh.refresh TabletsRefresh.CState.init (peers.map toPeer) keyspaces

def RState.step (keyspaces : List (String × Bool × List String)) (st : RState) : StateOp → RState
  | .learn spec first last raw => (TabletsRefresh.learn st spec first last raw).1
  | .refresh peers => TabletsRefresh.refresh st (peers.map toPeer) keyspaces

def RState.run (keyspaces : List (String × Bool × List String)) (st : RState) (ops : List StateOp) : RState :=
  ops.foldl (RState.step keyspaces) st

/-- Keyspace / table names on the Rust side of the case syntax. -/
def ksName (i : Nat) : String := "k" ++ Nat.repr i
def tblName (j : Nat) : String := "t" ++ Nat.repr j

/-- **The routing cluster of a state**: ring locator, keyspaces, liveness, sharders and peers as given (`base`, whose
`peers` are the nodes of the state's last refresh), the tablet map = the state's, for the tables `(k<i>, t<j>)` the
cluster knows of. -/
def RCluster.ofState (base : RCluster) (st : RState) (declared : List (Nat × Nat)) : RCluster :=
  { base with
    tables := declared.filterMap (fun d =>
      (Tablets.alGet (ksName d.1, tblName d.2) st.info.tables).map (fun t => (d, t.tablets))) }

/-! ### the default policy on a `PlainSharded` replica set -/

/-- `make_sharded_rack_predicate(is_alive / pick_predicate, criteria)`. -/
def predT (cl : Cluster) (crit : Pref) (r : SRep) : Bool := cl.alive r.1 && rackOk crit r.1

/-- `filtered_replicas` (both orders: iteration and "ordered" view of `PlainSharded` are the slice itself). -/
def filteredT (cl : Cluster) (V : Option Nat → List SRep) (crit : Pref) : List SRep :=
  (V crit.datacenter).filter (predT cl crit)

/-- `(node, Some(shard))` with the replica's own (tablet) shard. -/
def targetT (r : SRep) : Target := (r.1, some r.2)

/-- `PickedReplica`. -/
inductive PickedT where
  | computed (r : SRep)
  | toBeComputedInFallback
  deriving Repr

/-- `pick_first_replica`. -/
def pickFirstT (cl : Cluster) (V : Option Nat → List SRep) (crit : Pref) : Option PickedT :=
  match crit with
  | .any => ((V none).head?).map (fun p => if cl.alive p.1 then .computed p else .toBeComputedInFallback)
  | _ => ((filteredT cl V crit).head?).map .computed

/-- `ReplicaSet::choose_filtered` on `PlainSharded(l)`: `i`, `j` = the two random draws. -/
def chooseFilteredT (l : List SRep) (pred : SRep → Bool) (i j : Nat) : Option SRep :=
  if l.length = 0 then none
  else match l[i % l.length]? with
    | none => none
    | some happy =>
      if pred happy then some happy
      else
        let cands := l.filter pred
        cands[j % cands.length]?

/-- `pick_replica`. -/
def pickReplicaT (cl : Cluster) (V : Option Nat → List SRep) (crit : Pref) (lwt : Bool) (i j : Nat) : Option PickedT :=
  if lwt then pickFirstT cl V crit
  else (chooseFilteredT (V crit.datacenter) (predT cl crit) i j).map .computed

def retPickedT : PickedT → Option Target
  | .computed r => some (targetT r)
  | .toBeComputedInFallback => none

/-- `maybe_shuffled_replicas(..).map(|(node, shard)| (node, Some(shard)))`. -/
def replicaTargetsT (cl : Cluster) (V : Option Nat → List SRep) (crit : Pref) (lwt : Bool) (shuf : List Nat) : List Target :=
  (if lwt then filteredT cl V crit else shuffleWith shuf (filteredT cl V crit)).map targetT

/-- The request as the token-unaware part of the policy sees it. -/
def rqNoToken (rq : Request) : Request := { rq with token := none }

/-- The three token-aware steps of `pick`. -/
def replicaStepsT (cl : Cluster) (cfg : Config) (rq : Request) (V : Option Nat → List SRep) (ρ : RhoPick) :
    List (Option (Option Target)) :=
  let pref := preference cfg rq
  let lwt := rq.routeAsLwt
  let fp := failoverPossible cfg rq
  [ (match pref with
      | .dcRack d r => (pickReplicaT cl V (.dcRack d r) lwt ρ.rackI ρ.rackJ).map retPickedT
      | _ => none),
    (match pref.datacenter with
      | some d => (pickReplicaT cl V (.dc d) lwt ρ.dcI ρ.dcJ).map retPickedT
      | none => none),
    (if pref.datacenter.isNone || fp then (pickReplicaT cl V .any lwt ρ.anyI ρ.anyJ).map retPickedT else none) ]

/-- `if let (Some(ts), Some(table_spec)) = (&routing_info.token_with_strategy, query.table)`. -/
def tokenAware (cl : Cluster) (cfg : Config) (rq : Request) : Bool := (tokenWithStrategy cl cfg rq).isSome

/-- `DefaultPolicy::pick` for a table with tablets. -/
def pickT (cl : Cluster) (cfg : Config) (rq : Request) (V : Option Nat → List SRep) (ρ : RhoPick) : Option Target :=
  (firstReturn ((if tokenAware cl cfg rq then replicaStepsT cl cfg rq V ρ else []) ++
    (pickSteps cl cfg (rqNoToken rq) ρ).drop 3)).getD none

/-- The three replica groups of `fallback`. -/
def replicaGroupsT (cl : Cluster) (cfg : Config) (rq : Request) (V : Option Nat → List SRep) (ρ : RhoFb) :
    List (List Target) :=
  let pref := preference cfg rq
  let lwt := rq.routeAsLwt
  let fp := failoverPossible cfg rq
  [ (match pref with
      | .dcRack d r => replicaTargetsT cl V (.dcRack d r) lwt ρ.shufRack
      | _ => []),
    (match pref.datacenter with
      | some d => replicaTargetsT cl V (.dc d) lwt ρ.shufDc
      | none => []),
    (if pref.datacenter.isNone || fp then replicaTargetsT cl V .any lwt ρ.shufAny else []) ]

/-- `DefaultPolicy::fallback` for a table with tablets, collected. -/
def fallbackT (cl : Cluster) (cfg : Config) (rq : Request) (V : Option Nat → List SRep) (ρ : RhoFb) : List Target :=
  uniqueBy (((if tokenAware cl cfg rq then replicaGroupsT cl cfg rq V ρ else []) ++
    (fallbackGroups cl cfg (rqNoToken rq) ρ).drop 3).flatten)

/-- `Plan` for a table with tablets. -/
def planT (cl : Cluster) (cfg : Config) (rq : Request) (V : Option Nat → List SRep) (ρp : RhoPick) (ρf : RhoFb) :
    List Target :=
  planOf (pickT cl cfg rq V ρp) (fallbackT cl cfg rq V ρf)

/-! ### the route -/

/-- The plan of a request: the tablet map decides when the table has one, the ring otherwise. -/
def routePlan (rc : RCluster) (cfg : Config) (r : RRequest) (ρp : RhoPick) (ρf : RhoFb) : List Target :=
  let cl := rc.toCluster r.rq.token
  match tabletsOf rc r with
  | some xs => planT cl cfg r.rq (tabletReplicas rc xs (r.rq.token.getD 0)) ρp ρf
  | none => plan cl cfg r.rq ρp ρf

/-! ### the Session glue: from a prepared statement and bound values to the `RoutingInfo` -/

/-- What `Session::execute` reads of the `PreparedStatement` (`session.rs:1775-1816`): the partition-key marker
indexes (`get_variable_pk_indexes`), the partitioner chosen at prepare time (`get_partitioner_name`: CDC or Murmur3),
the table spec of the first bind marker (`get_table_spec`: keyspace `k<i>`, table `t<j>`), `is_confirmed_lwt`. -/
structure PreparedM where
  pk : List PartitionKey.PkIndex
  cdc : Bool
  table : Option (Nat × Nat)
  lwt : Bool
  deriving Repr

/-- What it takes from the execution profile and the session: consistency and `node_location_preference`. -/
structure ExecM where
  consistency : Consistency
  pref : Pref
  deriving Repr

/-- What the routing reads of the statement's own `StatementConfig` (`statement/mod.rs`): the consistency set through
`PreparedStatement::set_consistency` / `Batch::set_consistency`, `None` when never set. -/
structure StmtConfigM where
  consistency : Option Consistency
  deriving Repr

/-- The executor's consistency: `statement_config.consistency.unwrap_or(execution_profile.consistency)`. The code has
this line TWICE: `RequestExecutionParams::new_for_session_apis` (`execution.rs:129-131`, used by `Session::execute` and
`Session::batch`) and `PagingExecutor::new` (`pager.rs:177-179`, used by `Session::execute_iter` for every page); both
feed the `consistency` field of the `RoutingInfo` literals. One definition here - that the two sites agree is driven by
the `e2e route lwt=1 lvia=s` cases (api=u / api=b vs api=i, pages=2). The location preference is the session's. -/
def effectiveExec (sc : StmtConfigM) (profile : ExecM) : ExecM :=
  { profile with consistency := sc.consistency.getD profile.consistency }

/-- `Session::execute`, up to `RoutingInfo { consistency, serial_consistency, token, table, is_confirmed_lwt,
node_location_preference }`: the token is `extract_partition_key_and_calculate_token(partitioner, values)` (the C03
model; `None` for a statement without partition-key markers); an extraction / encoding error makes `execute` return
before anything is sent. -/
def sessionRoutingInfo (p : PreparedM) (values : List PartitionKey.RawValue) (ex : ExecM) :
    Except PartitionKey.TokenErr RRequest :=
  match PartitionKey.boundCalculateToken p.cdc p.pk values with
  | .error e => .error e
  | .ok tok =>
    .ok ⟨⟨ex.consistency, tok.map Int64.toInt, p.table.map (·.1), p.lwt, ex.pref⟩, (p.table.map (·.2)).getD 0⟩

/-- `NodeAttemptTarget { node, shard }`. -/
structure Attempt where
  node : Node
  shard : Nat
  deriving Repr, DecidableEq

/-- First `Plan::next()`: the head of the plan, a missing shard replaced by `random_range(0..nr_shards)` (`draw`). -/
def firstAttempt (rc : RCluster) (plan : List Target) (draw : Nat) : Option Attempt :=
  plan.head?.map (fun t => ⟨t.1, t.2.getD (draw % ((rc.sharder t.1.id).map (·.nr)).getD 1)⟩)

/-- The prepared-statement `RoutingInfo` literal exists THREE times in the code: `Session::execute` (`session.rs:1809-1816`,
`sessionRoutingInfo` above), `Session::execute_iter` → `QueryPager::new_for_prepared_statement` for the FIRST page
(`pager.rs:949-966`) and the pager's worker for pages 2+ (`pager.rs:1017-1049`: it CAPTURES the `token` computed for the first page and only
re-extracts the partition key, for tracing; table spec, LWT flag and preference are read again). All three
take the same six fields from the same sources (`extract_partition_key_and_calculate_token`, `get_table_spec`,
`is_confirmed_lwt`, the executor's consistencies, the session's `node_location_preference`); a token error makes the
pager fail (`NextPageError::PartitionKeyError`). This definition is the pager's copy written out again; that it equals
`sessionRoutingInfo` is definitional (an `example` in Props/C12.lean) and says nothing about `/repo` - the tie of the
three literals to the code is the `e2e route` family (api=u, api=i, pages=2). -/
def pagerRoutingInfo (p : PreparedM) (values : List PartitionKey.RawValue) (ex : ExecM) :
    Except PartitionKey.TokenErr RRequest :=
  match PartitionKey.boundCalculateToken p.cdc p.pk values with
  | .error e => .error e
  | .ok token =>
    .ok { rq := { consistency := ex.consistency, token := token.map Int64.toInt, table := p.table.map (·.1),
                  confirmedLwt := p.lwt, pref := ex.pref },
          tbl := (p.table.map (·.2)).getD 0 }

/-- The first attempt of `Session::execute(prepared, values)`: routing info, `Plan::new`, first target, shard fill-in.
`none` = nothing is sent (token error, or an empty plan). -/
def sessionFirstAttempt (rc : RCluster) (cfg : Config) (p : PreparedM) (values : List PartitionKey.RawValue) (ex : ExecM)
    (ρp : RhoPick) (ρf : RhoFb) (draw : Nat) : Option Attempt :=
  match sessionRoutingInfo p values ex with
  | .error _ => none
  | .ok r => firstAttempt rc (routePlan rc cfg r ρp ρf) draw

/-- One statement of a `Batch` as `Session::batch` looks at it: only the FIRST statement matters for routing. -/
inductive BatchStmtM where
  | unprepared
  | prepared (p : PreparedM)
  deriving Repr

/-- `Session::batch`, up to its `RoutingInfo` literal (a FOURTH token-carrying literal, `session.rs:1062-1080` with
`batch_values::peek_first_token`, `batch.rs:308-342`): the token is that of the FIRST statement under the FIRST row of
values - computed only when that statement is prepared and the values iterator yields a row (`firstValues = some _`,
`did_write`); the table spec is the first statement's when it is prepared; `is_confirmed_lwt` is always `false`; the
consistency and the location preference are the profile's / the session's as for `execute`. An extraction error makes
`batch` return before anything is sent. -/
def batchRoutingInfo (stmts : List BatchStmtM) (firstValues : Option (List PartitionKey.RawValue)) (ex : ExecM) :
    Except PartitionKey.TokenErr RRequest :=
  match stmts.head? with
  | some (.prepared p) =>
    match firstValues with
    | some values =>
      match PartitionKey.boundCalculateToken p.cdc p.pk values with
      | .error e => .error e
      | .ok tok =>
        .ok ⟨⟨ex.consistency, tok.map Int64.toInt, p.table.map (·.1), false, ex.pref⟩, (p.table.map (·.2)).getD 0⟩
    | none => .ok ⟨⟨ex.consistency, none, p.table.map (·.1), false, ex.pref⟩, (p.table.map (·.2)).getD 0⟩
  | _ => .ok ⟨⟨ex.consistency, none, none, false, ex.pref⟩, 0⟩

/-- The first attempt of `Session::batch`. -/
def batchFirstAttempt (rc : RCluster) (cfg : Config) (stmts : List BatchStmtM)
    (firstValues : Option (List PartitionKey.RawValue)) (ex : ExecM) (ρp : RhoPick) (ρf : RhoFb) (draw : Nat) :
    Option Attempt :=
  match batchRoutingInfo stmts firstValues ex with
  | .error _ => none
  | .ok r => firstAttempt rc (routePlan rc cfg r ρp ρf) draw

/-! ### the per-node connection pool -/

/-- `ShardInfo` of a connection (what the server's SUPPORTED said). -/
structure ShardInfoM where
  shard : Nat
  nr : Nat
  msb : UInt8
  deriving DecidableEq, Repr

/-- A connection: its identity (`Arc` pointer) and the shard info the server reported for it. -/
structure Conn where
  id : Nat
  info : Option ShardInfoM
  deriving DecidableEq, Repr

/-- `shard_info.map_or(0, |s| s.shard)`. -/
def shardIdOf (c : Conn) : Nat := match c.info with
  | some i => i.shard
  | none => 0

/-- `shard_info.map(|s| s.get_sharder())`. -/
def sharderOf (c : Conn) : Option SharderM := c.info.map (fun i => ⟨i.nr, i.msb⟩)

/-- `PoolConnections`. -/
inductive PoolConns where
  | notSharded (conns : List Conn)
  | sharded (s : SharderM) (buckets : List (List Conn))
  deriving Repr

/-- `Node::sharder()` = `NodeConnectionPool::sharder()` (`cluster/node.rs:210-212`, `connection_pool.rs:312-318`): the
sharder of the pool the node's refiller last published; `None` while the pool is initializing / broken or for a node
without shards. -/
def nodeSharder : Option PoolConns → Option SharderM
  | some (.sharded s _) => some s
  | _ => none

/-- `choose_random_connection_from_slice` (`idx = random_range(0..len)` as `r % len`; one element: that one). -/
def chooseConn (v : List Conn) (r : Nat) : Option Conn :=
  if v.isEmpty then none else v[r % v.length]?

/-- `Vec::swap_remove(idx)` (the remaining vector): the last element takes the place of the removed one. -/
def swapRemoveAt {α : Type} (l : List α) (idx : Nat) : List α :=
  match l.getLast? with
  | none => []
  | some last => (l.set idx last).dropLast

/-- The `while !shards_to_try.is_empty()` loop: iteration `k` draws `ρ k = (index into shards_to_try, index into the
bucket)`.  `fuel` = `shards_to_try.len()` (one shard is removed per iteration).  `none` = a Rust panic: `unreachable!`,
or the index `shard_conns[shard]` out of bounds when the bucket vector is shorter than `nr_shards` (excluded for a
published pool: `PoolOk`). -/
def tryShards (buckets : List (List Conn)) (ρ : Nat → Nat × Nat) : Nat → Nat → List Nat → Option Conn
  | 0, _, _ => none
  | fuel + 1, k, toTry =>
    if toTry.isEmpty then none
    else
      let idx := (ρ k).1 % toTry.length
      let shard := toTry.getD idx 0
      match buckets[shard]? with
      | none => none                       -- `shard_conns[shard as usize]` out of bounds: a panic
      | some bucket =>
        match chooseConn bucket (ρ k).2 with
        | some c => some c
        | none => tryShards buckets ρ fuel (k + 1) (swapRemoveAt toTry idx)

/-- Random choices of one `connection_for_shard` call. -/
structure PoolRho where
  first : Nat
  tries : Nat → Nat × Nat

/-- `NodeConnectionPool::connection_for_shard` on a `Ready` pool (`none` = a Rust panic). -/
def connectionForShard (p : PoolConns) (shard : Nat) (ρ : PoolRho) : Option Conn :=
  match p with
  | .notSharded conns => chooseConn conns ρ.first
  | .sharded s buckets =>
    -- `shard.try_into::<u16>().unwrap_or(0)`
    let shard := if shard < 65536 then shard else 0
    match (buckets[shard]?).bind (fun b => chooseConn b ρ.first) with
    | some c => some c
    | none => tryShards buckets ρ.tries s.nr 0 (List.range s.nr)

/-- `PoolSize`. -/
inductive PoolSize where
  | perHost (k : Nat)
  | perShard (k : Nat)
  deriving Repr, DecidableEq

/-- The state of `PoolRefiller` that decides where connections are filed. `shared = none`: `Initializing` / `Broken`. -/
structure Refiller where
  size : PoolSize
  sharder : Option SharderM
  conns : List (List Conn)
  excess : List Conn
  shared : Option PoolConns
  deriving Repr

/-- `PoolRefiller::new`: "we assume the node does not have any shards". -/
def Refiller.init (size : PoolSize) : Refiller := ⟨size, none, [[]], [], none⟩

def Refiller.activeCount (rf : Refiller) : Nat := (rf.conns.map List.length).sum

def Refiller.isEmpty (rf : Refiller) : Bool := rf.conns.all List.isEmpty

/-- `is_full`. -/
def Refiller.isFull (rf : Refiller) : Bool :=
  match rf.size with
  | .perHost k => decide (k ≤ rf.activeCount)
  | .perShard k => rf.conns.all (fun b => decide (k ≤ b.length))

/-- `excess_connection_limit`. -/
def Refiller.excessLimit (rf : Refiller) : Nat :=
  match rf.size with
  | .perShard _ => 10 * (match rf.sharder with | some s => s.nr | none => 1)
  | .perHost _ => 0

/-- `maybe_reshard`. -/
def Refiller.maybeReshard (rf : Refiller) (new : Option SharderM) : Refiller :=
  if rf.sharder = new then rf
  else { rf with sharder := new, conns := List.replicate (match new with | some s => s.nr | none => 1) [], excess := [] }

/-- `update_shared_conns`. -/
def Refiller.publish (rf : Refiller) : Refiller :=
  if rf.isEmpty then { rf with shared := none }
  else match rf.sharder with
    | some s => { rf with shared := some (.sharded s rf.conns) }
    | none => { rf with shared := some (.notSharded (rf.conns.getD 0 [])) }

/-- "Decide if the connection can be accepted, according to the pool filling strategy" (`bucket` = `self.conns[shard_id]`). -/
def Refiller.canAccept (rf : Refiller) (bucket : List Conn) : Bool :=
  match rf.size with
  | .perHost k => decide (rf.activeCount < k)
  | .perShard k => decide (bucket.length < k)

/-- `handle_ready_connection`, arm `Ok((connection, _))` with the keyspace already right. `requested` = the connection
was opened through the shard-aware port for a particular shard. `none` = `self.conns[shard_id]` out of bounds (a panic;
excluded by `ShardInfo::new`, which rejects `shard >= nr_shards`). -/
def Refiller.handleReady (rf : Refiller) (c : Conn) (requested : Bool) : Option Refiller :=
  let rf1 := rf.maybeReshard (sharderOf c)
  let sid := shardIdOf c
  match rf1.conns[sid]? with
  | none => none
  | some bucket =>
    if rf1.canAccept bucket then some ({ rf1 with conns := rf1.conns.set sid (bucket ++ [c]) }).publish
    else if requested then some rf1
    else
      let ex := rf1.excess ++ [c]
      some { rf1 with excess := if ex.length > rf1.excessLimit then [] else ex }

/-- `remove_connection`: from the bucket of the shard the connection reports, else from the excess connections. -/
def Refiller.removeConn (rf : Refiller) (c : Conn) : Refiller :=
  let sid := shardIdOf c
  match (rf.conns[sid]?).bind (fun b => (b.findIdx? (fun o => o.id == c.id)).map (fun i => swapRemoveAt b i)) with
  | some b' => ({ rf with conns := rf.conns.set sid b' }).publish
  | none =>
    match rf.excess.findIdx? (fun o => o.id == c.id) with
    | some i => { rf with excess := swapRemoveAt rf.excess i }
    | none => rf

/-- Events of the refiller's `select!` loop that touch the buckets. -/
inductive PoolEvt where
  | ready (c : Conn) (requested : Bool)
  | broken (c : Conn)
  deriving Repr

/-- One turn of `PoolRefiller::run` (`none` = panic). -/
def Refiller.step (rf : Refiller) : PoolEvt → Option Refiller
  | .ready c requested =>
    (rf.handleReady c requested).map (fun rf' => if rf'.isFull then { rf' with excess := [] } else rf')
  | .broken c => some (rf.removeConn c)

/-- Run a sequence of events. -/
def Refiller.run (rf : Refiller) : List PoolEvt → Option Refiller
  | [] => some rf
  | e :: es => match rf.step e with
    | none => none
    | some rf' => rf'.run es

end ScyllaVerif.Routing

/-!
# C14 — the layers above one connection: batch preparation, the caching session, preparation on all nodes

Executable model (import-free) of

* `scylla/src/network/connection.rs` 1248-1294 `Connection::prepare_batch`: before a BATCH is sent, every UNPREPARED
  statement of it that is bound to a non-empty value list is prepared on this connection and replaced by the prepared
  statement; the batch is REBUILT (`Batch::new_from` copies type + config, then the statements are appended one by one);
* `scylla/src/client/caching_session.rs` 102-245: `add_prepared_statement_owned` (cache hit: a handle configured with
  the query's own config / page size; miss: `Session::prepare`, evict `while max_capacity <= len`, insert),
  `prepare_batch` (clone the batch, replace every `Query` by the cached/prepared statement), `batch`, `execute_unpaged`;
* `scylla/src/client/session.rs` 1623-1715 `prepare_nongeneric` / `prepare_on_all`: the statement is prepared on one
  connection to every node; the first success supplies the statement, every other success must carry the SAME id
  (`PreparedStatementIdsMismatch` otherwise); if that attempt fails, once more on a connection to every shard.

What cannot be known here is an explicit argument: the order in which a `HashSet` is iterated (`order`), which cache
entry `DashMap::iter().next()` yields (`pick`), what a node answers (`prep`, `results`).
-/
namespace ScyllaVerif.PreparedSession

/-- the part of `StatementConfig` a caller sets and the wire shows -/
structure Cfg where
  cl : Option Nat
  scl : Option Nat
  ts : Option Int
  idem : Bool
deriving DecidableEq, Repr

def Cfg.default : Cfg := ⟨none, none, none, false⟩

/-- `Statement` -/
structure Query where
  text : String
  cfg : Cfg
  page : Nat
deriving DecidableEq, Repr

/-- a `PreparedStatement` handle -/
structure PStmt where
  id : String
  text : String
  cfg : Cfg
  page : Nat
  useCached : Bool
deriving DecidableEq, Repr

inductive BStmt
  | query (q : Query)
  | prepared (p : PStmt)
deriving DecidableEq, Repr

structure Batch where
  ty : Nat
  cfg : Cfg
  stmts : List BStmt
deriving DecidableEq, Repr

/-! ## connection.rs:1248-1294 `prepare_batch` -/

/-- the texts of the unprepared statements that carry values, in statement order (with repetitions): the loop over
`init_batch.statements` with `values_iter.is_empty_next()` / `skip_next()`; once the value iterator is exhausted
`is_empty_next` is `None`, which is not `Some(false)` -/
def wantsPrepare : List BStmt → List (List Nat) → List String
  | [], _ => []
  | .query _ :: rest, [] => wantsPrepare rest []
  | .query q :: rest, v :: vs => (if v.isEmpty then [] else [q.text]) ++ wantsPrepare rest vs
  | .prepared _ :: rest, vs => wantsPrepare rest vs.tail

/-- `for query in &to_prepare { self.prepare(..).await? }`: in the set's iteration order, stopping at the first
failure. Result: the id per text, and the PREPARE texts actually sent. -/
def prepareAll (prep : String → Except Nat String) : List String → Except (Nat × List String) (List (String × String))
  | [] => .ok []
  | t :: rest =>
    match prep t with
    | .error e => .error (e, [t])
    | .ok id =>
      match prepareAll prep rest with
      | .error (e, sent) => .error (e, t :: sent)
      | .ok m => .ok ((t, id) :: m)

def lookup (t : String) : List (String × String) → Option String
  | [] => none
  | (k, v) :: rest => if k == t then some v else lookup t rest

/-- the prepared statement that replaces an unprepared one: `self.prepare(&Statement::new(text))` - default config -/
def freshHandle (text id : String) : PStmt := ⟨id, text, Cfg.default, 5000, false⟩

def replaceStmt (m : List (String × String)) : BStmt → BStmt
  | .query q =>
    match lookup q.text m with
    | some id => .prepared (freshHandle q.text id)
    | none => .query q
  | .prepared p => .prepared p

/-- `order` = the iteration order of the `HashSet` of texts. Result: the batch handed on, and the PREPARE texts sent. -/
def connPrepareBatch (prep : String → Except Nat String) (order : List String) (b : Batch) (vals : List (List Nat)) :
    Except (Nat × List String) (Batch × List String) :=
  if (wantsPrepare b.stmts vals).isEmpty then .ok (b, [])
  else
    match prepareAll prep order with
    | .error e => .error e
    | .ok m => .ok ({ ty := b.ty, cfg := b.cfg, stmts := b.stmts.map (replaceStmt m) }, order)

/-- one statement of a BATCH frame: kind 0 = query string, kind 1 = prepared id; each with its value list -/
inductive FStmt
  | byText (text : String) (vals : List Nat)
  | byId (id : String) (vals : List Nat)
deriving DecidableEq, Repr

/-- batch.rs: statements zipped with the caller's value lists, in order -/
def frameStmts : List BStmt → List (List Nat) → List FStmt
  | [], _ => []
  | s :: rest, vs =>
    (match s with
     | .query q => FStmt.byText q.text (vs.headD [])
     | .prepared p => FStmt.byId p.id (vs.headD [])) :: frameStmts rest vs.tail

/-- connection.rs:1225-1230 (`find_map` over the statements of the batch that is being sent - the REBUILT one): the
prepared statement an UNPREPARED id belongs to -/
def findPrepared (id : String) : List BStmt → Option PStmt
  | [] => none
  | .prepared p :: rest => if p.id == id then some p else findPrepared id rest
  | .query _ :: rest => findPrepared id rest

/-- the loop of connection.rs:1212-1245 on the batch handed on: for every UNPREPARED answer (`script` = the ids named,
one per BATCH frame sent) the text that is re-prepared; an id no statement of the batch has ends it
(`RepreparedIdMissingInBatch`, `none`) -/
def batchRounds (b : Batch) : List String → List (Option String)
  | [] => []
  | id :: rest =>
    match findPrepared id b.stmts with
    | some p => some p.text :: batchRounds b rest
    | none => [none]

/-! ## caching_session.rs -/

abbrev Cache := List (String × PStmt)

def cacheGet (t : String) : Cache → Option PStmt
  | [] => none
  | (k, v) :: rest => if k == t then some v else cacheGet t rest

def cacheRemove (t : String) (c : Cache) : Cache := c.filter (fun e => e.1 != t)

/-- `while self.max_capacity <= self.cache.len() { remove(iter().next()) }`; `pick` = which present key the map's
iterator yields first (arbitrary). `fuel` = the cache length (the loop removes one entry per round). -/
def evictLoop (cap : Nat) (pick : Cache → String) : Nat → Cache → Cache
  | 0, c => c
  | fuel + 1, c => if cap ≤ c.length then evictLoop cap pick fuel (cacheRemove (pick c) c) else c

/-- `DashMap::insert`: replaces an entry with the same key -/
def cacheInsert (t : String) (v : PStmt) (c : Cache) : Cache := (t, v) :: cacheRemove t c

/-- caching_session.rs:216-239: what happens to the cache after `Session::prepare` returned `stmt` for a missed text -/
def cacheAdd (cap : Nat) (pick : Cache → String) (c : Cache) (stmt : PStmt) : Cache :=
  cacheInsert stmt.text stmt (evictLoop cap pick c.length c)

/-- caching_session.rs:199-245. `prep` = `Session::prepare` (which hands the query's config and page size on).
Returns the handle, the new cache, and whether the cluster was asked. -/
def addPrepared (cap : Nat) (useCached : Bool) (prep : String → Except Nat String) (pick : Cache → String)
    (cache : Cache) (q : Query) : Except Nat (PStmt × Cache × Bool) :=
  match cacheGet q.text cache with
  | some raw => .ok ({ raw with cfg := q.cfg, page := q.page, useCached := useCached }, cache, false)
  | none =>
    match prep q.text with
    | .error e => .error e
    | .ok id =>
      let stmt : PStmt := ⟨id, q.text, q.cfg, q.page, useCached⟩
      .ok (stmt, cacheAdd cap pick cache stmt, true)

/-- caching_session.rs:170-187 `prepare_batch`: `try_join_all` over the statements = the unprepared statements are
CONCURRENT callers of `add_prepared_statement` on the one cache (Model/PreparedCacheConc.lean). This function is the
schedule of ONE poll pass: every future is polled in statement order up to its first await, so every unprepared
statement is looked up in the cache as it was when the call started: a hit completes at once, a miss asks the cluster
(two statements with the same uncached text both do). Other schedules occur (a preparation that completes before a
later statement is first polled turns that statement's lookup into a hit - seen on a multi-thread runtime); the RESULT
batch is the same in all of them (`cachingBatch_spec`, `C14CacheConc.handles_are_announced`), the number of PREPAREs is
not. This is the per-statement outcome; `try_join_all` fails with an error if any preparation fails. -/
def resolveStmt (useCached : Bool) (prep : String → Except Nat String) (cache : Cache) : BStmt → Except Nat BStmt
  | .prepared p => .ok (.prepared p)
  | .query q =>
    match cacheGet q.text cache with
    | some raw => .ok (.prepared { raw with cfg := q.cfg, page := q.page, useCached := useCached })
    | none =>
      match prep q.text with
      | .error e => .error e
      | .ok id => .ok (.prepared ⟨id, q.text, q.cfg, q.page, useCached⟩)

def resolveAll (useCached : Bool) (prep : String → Except Nat String) (cache : Cache) : List BStmt → Except Nat (List BStmt)
  | [] => .ok []
  | s :: rest =>
    match resolveStmt useCached prep cache s, resolveAll useCached prep cache rest with
    | .ok s', .ok r => .ok (s' :: r)
    | .error e, _ => .error e
    | _, .error e => .error e

/-- the statements the cluster is asked about: the unprepared ones whose text is not cached, in statement order -/
def missed (cache : Cache) : List BStmt → List Query
  | [] => []
  | .query q :: rest => (if (cacheGet q.text cache).isSome then [] else [q]) ++ missed cache rest
  | .prepared _ :: rest => missed cache rest

/-- the misses are added to the cache in the order in which their preparations COMPLETE (`done`: any order) -/
def cacheAddAll (cap : Nat) (pick : Cache → String) : Cache → List PStmt → Cache
  | c, [] => c
  | c, s :: rest => cacheAddAll cap pick (cacheAdd cap pick c s) rest

def allPrepared (b : Batch) : Bool := b.stmts.all (fun s => match s with | .prepared _ => true | .query _ => false)

/-- caching_session.rs:143-161 `batch`: the batch handed to `Session::batch`, and the texts the cluster is asked about -/
def cachingBatch (useCached : Bool) (prep : String → Except Nat String) (cache : Cache) (b : Batch) :
    Except Nat (Batch × List String) :=
  if allPrepared b then .ok (b, [])
  else
    match resolveAll useCached prep cache b.stmts with
    | .error e => .error e
    | .ok r => .ok ({ b with stmts := r }, (missed cache b.stmts).map (·.text))

/-! ## session.rs:1659-1715 `prepare_on_all`, 1623-1651 `prepare_nongeneric` -/

inductive PErr
  | allAttemptsFailed (first : Nat)
  | idsMismatch
  /-- no working connection (the iterator could not be built) -/
  | noConnections
deriving DecidableEq, Repr

/-- the rest of the results after the first success (`find_or_first(is_ok)` leaves the iterator there) -/
def afterFirstOk : List (Except Nat String) → Option (String × List (Except Nat String))
  | [] => none
  | .ok id :: rest => some (id, rest)
  | .error _ :: rest => afterFirstOk rest

def allSame (id : String) : List (Except Nat String) → Bool
  | [] => true
  | .ok id' :: rest => id' == id && allSame id rest
  | .error _ :: rest => allSame id rest

/-- `results` = what `join_all` of `prepare_raw` on the chosen connections returned, in connection order (non-empty) -/
def prepareOnAll (results : List (Except Nat String)) : Except PErr String :=
  match afterFirstOk results with
  | some (id, rest) => if allSame id rest then .ok id else .error .idsMismatch
  | none =>
    match results with
    | .error e :: _ => .error (.allAttemptsFailed e)
    | _ => .error .noConnections

/-- first on one connection per node; if that did not yield a statement, once more on a connection per shard.
`iter_working_connections_to_nodes()?` / `…_to_shards()?` (session.rs:1630, 1646): with no working connection the call
returns the pool error AT ONCE (an empty list here), before anything is sent. -/
def prepareNongeneric (perNode perShard : List (Except Nat String)) : Except PErr String :=
  if perNode.isEmpty then .error .noConnections
  else
    match prepareOnAll perNode with
    | .ok id => .ok id
    | .error _ => if perShard.isEmpty then .error .noConnections else prepareOnAll perShard

/-! ## session.rs:1945-1963 `Session::prepare_batch`

`try_join_all` over `statements.iter_mut()`: every UNPREPARED statement is prepared ON ITS OWN by `prepare_nongeneric`
(no deduplication: the same text twice = two preparations, each on every node) and replaced IN PLACE by the statement
made from ITS OWN text and config (`*statement = …` through the `&mut` of that position: the completion order cannot
move a result to another position); prepared statements stay. If any preparation fails the call fails with the error
of one of the failing statements (the one `try_join_all` sees first: any). -/

def sessionPrepareStmt (prep : String → Except PErr String) : BStmt → Except PErr BStmt
  | .prepared p => .ok (.prepared p)
  | .query q =>
    match prep q.text with
    | .error e => .error e
    | .ok id => .ok (.prepared ⟨id, q.text, q.cfg, q.page, false⟩)

/-- (the statements that could be prepared, in order; the errors of those that could not, in order) -/
def sessionPrepareAll (prep : String → Except PErr String) : List BStmt → List BStmt × List PErr
  | [] => ([], [])
  | s :: rest =>
    match sessionPrepareStmt prep s with
    | .ok s' => (s' :: (sessionPrepareAll prep rest).1, (sessionPrepareAll prep rest).2)
    | .error e => ((sessionPrepareAll prep rest).1, e :: (sessionPrepareAll prep rest).2)

/-- `.error es`: the call fails with one of `es` (non-empty) -/
def sessionPrepareBatch (prep : String → Except PErr String) (b : Batch) : Except (List PErr) Batch :=
  match sessionPrepareAll prep b.stmts with
  | (r, []) => .ok { b with stmts := r }
  | (_, e :: es) => .error (e :: es)

/-- the texts the cluster is asked about: every unprepared statement, with repetitions, in statement order -/
def sessionPrepareAsked : List BStmt → List String
  | [] => []
  | .query q :: rest => q.text :: sessionPrepareAsked rest
  | .prepared _ :: rest => sessionPrepareAsked rest

end ScyllaVerif.PreparedSession

/-
The reconnect policies that pace a pool's refill attempts (C10: "the session keeps working through re-established
connections") ← `scylla/src/policies/reconnect.rs`: `HostExponentialReconnectPolicy` (26-66: the session of
`ExponentialReconnectPolicy`), `ConstantReconnectPolicy` (150-218).

Durations are `Nat` nanoseconds; `Duration::MAX` = `u64::MAX` s + 999 999 999 ns. The jitter multiplier (an `f64`
drawn from the configured range) is a rational in parts per million; `Duration::mul_f64` PANICS when the product does
not fit a `Duration` (`none` here). The f64 rounding of `mul_f64` is not modelled (the differential check compares up
to a relative error of 10⁻⁹).
-/
namespace ScyllaVerif.PoolReconnect

/-- `Duration::MAX` in ns. -/
def durMax : Nat := 18446744073709551615 * 1000000000 + 999999999

/-- `Duration::mul_f64(j)` for `j = ppm / 10⁶ ≥ 0`: `none` = panic (the result does not fit). -/
def mulJ (d ppm : Nat) : Option Nat :=
  let r := d * ppm / 1000000
  if r ≤ durMax then some r else none

/-- `Ord::clamp`. -/
def clamp (x lo hi : Nat) : Nat := if x < lo then lo else if x > hi then hi else x

/-- `Duration::saturating_mul(2)`. -/
def satDouble (d : Nat) : Nat := if 2 * d ≤ durMax then 2 * d else durMax

structure ExpCfg where
  min : Nat
  max : Nat
  jlo : Nat      -- jitter range, parts per million
  jhi : Nat
  deriving Repr, DecidableEq

/-- The configuration the builders accept (`with_backoff_limits`: `min <= max`; `with_jitter_range`: not empty), and
whose largest jittered delay fits a `Duration` (true of every configuration with `max` below ~ 10¹¹ years / jitter). -/
def ExpCfg.ok (c : ExpCfg) : Prop :=
  c.min ≤ c.max ∧ c.max ≤ durMax ∧ c.jlo ≤ c.jhi ∧ c.max * c.jhi / 1000000 ≤ durMax

/-- `new_session`: `current_delay = min_fill_backoff`. -/
def expInit (c : ExpCfg) : Nat := c.min

/-- `get_delay` with the drawn multiplier. -/
def expGetDelay (c : ExpCfg) (cur ppm : Nat) : Option Nat := (mulJ cur ppm).map (fun d => clamp d c.min c.max)

/-- `on_fill_error`: `min(max_fill_backoff, current_delay.saturating_mul(2))`. -/
def expOnError (c : ExpCfg) (cur : Nat) : Nat := Nat.min c.max (satDouble cur)

/-- `on_successful_fill`. -/
def expOnSuccess (c : ExpCfg) (_cur : Nat) : Nat := c.min

inductive Fill where
  | error
  | success
  deriving Repr, DecidableEq

def expStep (c : ExpCfg) (cur : Nat) : Fill → Nat
  | .error => expOnError c cur
  | .success => expOnSuccess c cur

def expRun (c : ExpCfg) (hist : List Fill) : Nat := hist.foldl (expStep c) (expInit c)

/-- `on_fill_error` WITHOUT the cap (documentation of the defect this layer guards against): the state doubles
until it saturates at `Duration::MAX`. -/
def expOnErrorUncapped (cur : Nat) : Nat := satDouble cur

/-- `ConstantReconnectPolicy`: no state; `get_delay = delay.mul_f64(jitter)` (not clamped). -/
def constGetDelay (delay ppm : Nat) : Option Nat := mulJ delay ppm

end ScyllaVerif.PoolReconnect

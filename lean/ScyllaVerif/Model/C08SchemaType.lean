import ScyllaVerif.Model.TypeParser
/-
C08 — model of the THIRD parser of server-supplied type descriptions: `map_string_to_cql_type` /
`parse_cql_type_nested` (`scylla/src/cluster/metadata/fetching.rs`, after fix 7c5e882: nesting limit
`MAX_CQL_TYPE_NESTING_DEPTH = 128`), which reads the `type` text column of the `system_schema` rows (schema fetch
is on by default), built on `ParserState` (`scylla-cql/src/utils/parse.rs`).

As for the custom type strings (`Model/TypeParser.lean`) the parser state is the list of the remaining Unicode
scalars (`Str`), the class of the non-ASCII ones (`char::is_alphanumeric`, `char::is_whitespace`) is a parameter.

* The Rust `depth` argument is `TOP_FUEL - fuel` with `TOP_FUEL = MAX_CQL_TYPE_NESTING_DEPTH + 1`; `depth > MAX` ⇔
  `fuel = 0`.  `parseTy` recurses structurally on `fuel`: the recursion depth of a parse, successful or not, is at
  most `TOP_FUEL` by construction.
* `tuple<…>` is a `parse_while` loop: the model gives it a termination fuel (remaining scalars + 1) with the
  model-only error `SErr.fuel`, proved unreachable (`Proofs/C08SchemaNP.lean`).
* The partial operations of this code are the two slice expressions of `ParserState::take_while`
  (`&self.s[idx..]`, `&self.s[..idx]`, `idx` from `str::find`): modelled with their panic when `idx` exceeds the
  length (that `idx` is a scalar boundary is structural here).  `digits.parse::<u16>()`,
  `calculate_position` (`checked_sub`, `get`) return errors / `None`.
-/
namespace ScyllaVerif.C08S
open ScyllaVerif ScyllaVerif.C08

def MAX_CQL_TYPE_NESTING_DEPTH : Nat := 128
def TOP_FUEL : Nat := MAX_CQL_TYPE_NESTING_DEPTH + 1

/-- `PreColumnType` (fetching.rs:60-77) with `PreCollectionType` inlined. -/
inductive PreTy where
  | native (n : Native)
  | list (frozen : Bool) (t : PreTy)
  | set (frozen : Bool) (t : PreTy)
  | map (frozen : Bool) (k v : PreTy)
  | tuple (ts : List PreTy)
  | vector (t : PreTy) (dim : Nat)
  | udt (frozen : Bool) (name : Bytes)
  deriving Repr

/-- `ParseError { remaining, cause }` (the cause already in the harness's canonical spelling), a panic of the Rust
code, or the model's own loop fuel. -/
inductive SErr where
  | perr (remaining : Nat) (cause : String)
  | panic (site : String)
  | fuel (what : String)
  deriving Repr

abbrev SRes (α : Type) := Except SErr α

/-- `ParserState::take_while`: `idx = find(!pred).unwrap_or(len)`, then the two slices. -/
def takeWhileP (p : CU → Bool) (s : Str) : SRes (Str × Str) :=
  let idx := (s.takeWhile p).length
  if idx > s.length then .error (.panic "&self.s[idx..]")
  else .ok (s.take idx, s.drop idx)

/-- `skip_white`. -/
def skipWhiteP (s : Str) : SRes Str :=
  match takeWhileP CU.isWhite s with
  | .ok (_, r) => .ok r
  | .error e => .error e

/-- `str::strip_prefix` with an ASCII literal. -/
def stripLit : Bytes → Str → Option Str
  | [], s => some s
  | _ :: _, [] => none
  | c :: cs, u :: rest => if u.bytes = [c] then stripLit cs rest else none

/-- `accept(part)`: `Err(Expected(part))` at the current position. -/
def acceptP (lit : String) (s : Str) : SRes Str :=
  match stripLit (asciiBytes lit) s with
  | some r => .ok r
  | none => .error (.perr s.length ("expected_\"" ++ lit ++ "\""))

/-- `c.is_alphanumeric() || c == '_'` -/
def isNativeCh (u : CU) : Bool :=
  match u.bytes with
  | [b] => isAlpha b ∨ isDigit b ∨ b = 0x5F
  | _ => u.cls == .alnum

/-- `c.is_alphanumeric() || c == '.' || c == '_' || c == '$'` -/
def isUdtCh (u : CU) : Bool :=
  match u.bytes with
  | [b] => isAlpha b ∨ isDigit b ∨ b = 0x2E ∨ b = 0x5F ∨ b = 0x24
  | _ => u.cls == .alnum

/-- The table of `parse_native_type` (fetching.rs), in source order. -/
def nativeTable : List (String × Native) :=
  [("ascii", .ascii), ("boolean", .boolean), ("blob", .blob), ("counter", .counter), ("date", .date),
   ("decimal", .decimal), ("double", .double), ("duration", .duration), ("float", .float), ("int", .int),
   ("bigint", .bigint), ("text", .text), ("timestamp", .timestamp), ("inet", .inet), ("smallint", .smallint),
   ("tinyint", .tinyint), ("time", .time), ("timeuuid", .timeuuid), ("uuid", .uuid), ("varint", .varint)]

def nativeOfTok (tok : Bytes) : Option Native :=
  (nativeTable.find? (fun p => asciiBytes p.1 == tok)).map (·.2)

/-- `parse_native_type`; its error is never shown (the caller falls through to the UDT arm). -/
def parseNative (s : Str) : SRes (Option (Native × Str)) :=
  match takeWhileP isNativeCh s with
  | .error e => .error e
  | .ok (tok, r) =>
    match nativeOfTok (bytesOf tok) with
    | some n => .ok (some (n, r))
    | none => .ok none

/-- `parse_user_defined_type`. -/
def parseUdt (s : Str) : SRes (Option (Bytes × Str)) :=
  match takeWhileP isUdtCh s with
  | .error e => .error e
  | .ok (tok, r) => if tok.isEmpty then .ok none else .ok (some (bytesOf tok, r))

def digitsVal (ds : Str) : Nat :=
  ds.foldl (fun acc u => 10 * acc + (match u.bytes with | [b] => b.toNat - 0x30 | _ => 0)) 0

/-- `parse_u16`: the digits, `str::parse::<u16>` (empty or above 65535 is the error, reported AFTER the digits). -/
def parseU16 (s : Str) : SRes (Nat × Str) :=
  match takeWhileP CU.isDigit s with
  | .error e => .error e
  | .ok (ds, r) =>
    if ds.isEmpty ∨ digitsVal ds > 65535 then .error (.perr r.length "Expected_16-bit_unsigned_integer")
    else .ok (digitsVal ds, r)

/-- `freeze_type`. -/
def freeze : PreTy → PreTy
  | .list _ t => .list true t
  | .set _ t => .set true t
  | .map _ k v => .map true k v
  | .udt _ n => .udt true n
  | other => other

/-- The `parse_while` loop of the `tuple<` arm around the element parser `p`. -/
def tupleLoop (p : Str → SRes (PreTy × Str)) : Nat → Str → List PreTy → SRes (List PreTy × Str)
  | 0, _, _ => .error (.fuel "tuple")
  | lf + 1, s, acc =>
    match p s with
    | .error e => .error e
    | .ok (t, s1) =>
      match stripLit (asciiBytes ",") s1 with
      | some s2 =>
        match skipWhiteP s2 with
        | .error e => .error e
        | .ok s3 => tupleLoop p lf s3 (acc ++ [t])
      | none =>
        match stripLit (asciiBytes ">") s1 with
        | some s2 => .ok (acc ++ [t], s2)
        | none => .error (.perr s1.length "expected_\",\"_or_\">\"")

/-- one inner type then `>` -/
def oneParam (p : Str → SRes (PreTy × Str)) (s : Str) : SRes (PreTy × Str) :=
  match p s with
  | .error e => .error e
  | .ok (t, s1) =>
    match acceptP ">" s1 with
    | .error e => .error e
    | .ok s2 => .ok (t, s2)

/-- the `map<` arm after the keyword -/
def mapParams (p : Str → SRes (PreTy × Str)) (s : Str) : SRes (PreTy × Str) :=
  match p s with
  | .error e => .error e
  | .ok (k, s1) =>
    match acceptP "," s1 with
    | .error e => .error e
    | .ok s2 =>
      match skipWhiteP s2 with
      | .error e => .error e
      | .ok s3 =>
        match p s3 with
        | .error e => .error e
        | .ok (v, s4) =>
          match acceptP ">" s4 with
          | .error e => .error e
          | .ok s5 => .ok (.map false k v, s5)

/-- the `vector<` arm after the keyword -/
def vectorParams (p : Str → SRes (PreTy × Str)) (s : Str) : SRes (PreTy × Str) :=
  match p s with
  | .error e => .error e
  | .ok (t, s1) =>
    match skipWhiteP s1 with
    | .error e => .error e
    | .ok s2 =>
      match acceptP "," s2 with
      | .error e => .error e
      | .ok s3 =>
        match skipWhiteP s3 with
        | .error e => .error e
        | .ok s4 =>
          match parseU16 s4 with
          | .error e => .error e
          | .ok (dim, s5) =>
            match skipWhiteP s5 with
            | .error e => .error e
            | .ok s6 =>
              match acceptP ">" s6 with
              | .error e => .error e
              | .ok s7 => .ok (.vector t dim, s7)

/-- the two last arms: a native name, else a UDT name, else `invalid cql type` -/
def leafTy (s : Str) : SRes (PreTy × Str) :=
  match parseNative s with
  | .error e => .error e
  | .ok (some (n, r)) => .ok (.native n, r)
  | .ok none =>
    match parseUdt s with
    | .error e => .error e
    | .ok (some (name, r)) => .ok (.udt false name, r)
    | .ok none => .error (.perr s.length "invalid_cql_type")

def mapFst (f : PreTy → PreTy) : SRes (PreTy × Str) → SRes (PreTy × Str)
  | .ok (t, s) => .ok (f t, s)
  | .error e => .error e

/-- `parse_cql_type_nested(p, depth)` with `fuel = TOP_FUEL - depth`. -/
def parseTy : Nat → Str → SRes (PreTy × Str)
  | 0, s => .error (.perr s.length "type_nested_too_deeply")
  | fuel + 1, s =>
    match stripLit (asciiBytes "frozen<") s with
    | some s1 => mapFst freeze (oneParam (parseTy fuel) s1)
    | none =>
    match stripLit (asciiBytes "map<") s with
    | some s1 => mapParams (parseTy fuel) s1
    | none =>
    match stripLit (asciiBytes "list<") s with
    | some s1 => mapFst (.list false) (oneParam (parseTy fuel) s1)
    | none =>
    match stripLit (asciiBytes "set<") s with
    | some s1 => mapFst (.set false) (oneParam (parseTy fuel) s1)
    | none =>
    match stripLit (asciiBytes "tuple<") s with
    | some s1 =>
      (match tupleLoop (parseTy fuel) (s1.length + 1) s1 [] with
       | .ok (ts, r) => .ok (.tuple ts, r)
       | .error e => .error e)
    | none =>
    match stripLit (asciiBytes "vector<") s with
    | some s1 => vectorParams (parseTy fuel) s1
    | none => leafTy s

/-- `map_string_to_cql_type` on the scalars of the string: the type, or (`remaining`, cause). -/
def mapStringS (s : Str) : SRes PreTy :=
  match parseTy TOP_FUEL s with
  | .error e => .error e
  | .ok (t, r) => if r.isEmpty then .ok t else .error (.perr r.length "leftover_characters")

def mapString (uni : List (Bytes × UCls)) (bs : Bytes) : SRes PreTy := mapStringS (toStr uni bs)

mutual
/-- nesting of a parsed type (a leaf counts 1) -/
def nestPre : PreTy → Nat
  | .native _ => 1
  | .udt _ _ => 1
  | .list _ t => nestPre t + 1
  | .set _ t => nestPre t + 1
  | .map _ k v => max (nestPre k) (nestPre v) + 1
  | .vector t _ => nestPre t + 1
  | .tuple ts => nestPreL ts + 1
def nestPreL : List PreTy → Nat
  | [] => 0
  | t :: ts => max (nestPre t) (nestPreL ts)
end

end ScyllaVerif.C08S

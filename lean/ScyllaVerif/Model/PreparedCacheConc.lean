/-!
# C14 — concurrent callers of one `CachingSession`

Executable small-step model (import-free) of `caching_session.rs:199-245` `add_prepared_statement_owned` run by several
callers at once on ONE cache (`DashMap<String, UnconfiguredPreparedStatement>`). Every access to the map is one atomic
step (DashMap shard locks; `len()`, `iter().next()`, `remove`, `insert`, `get` are SEPARATE steps); between two
accesses of one caller any steps of other callers may happen:

    get(text)                       -- hit: return a handle on the cached statement's shared metadata cell; miss: ↓
    Session::prepare(text).await    -- the cluster answers with an id; a NEW statement object (new metadata cell) is made
    loop: if max_capacity <= len    -- `while self.max_capacity <= self.cache.len()`
            key = iter().next()     --   some key of the map, or none if it is empty
            remove(key)             --   (the key may be gone by now: no-op)
    insert(text, raw)               -- replaces an entry with the same text
    return the new statement

`cell` = identity of the `Arc<PreparedStatementSharedData>`: handles with the same cell share the current result
metadata (a METADATA_CHANGED seen through one is what the next execution through the other presents); handles with
different cells do not.
-/
namespace ScyllaVerif.PreparedCacheConc

structure Entry where
  text : String
  id : String
  /-- which statement object (metadata cell) -/
  cell : Nat
deriving DecidableEq, Repr

abbrev Cache := List Entry

def cacheGet (t : String) : Cache → Option Entry
  | [] => none
  | e :: rest => if e.text == t then some e else cacheGet t rest

def cacheRemove (t : String) (c : Cache) : Cache := c.filter (fun e => e.text != t)

def cacheInsert (e : Entry) (c : Cache) : Cache := e :: cacheRemove e.text c

inductive Pc
  | idle
  /-- about to `cache.get` -/
  | lookup (text : String)
  /-- `Session::prepare` in flight -/
  | preparing (text : String)
  /-- at the `while` condition (about to read `cache.len()`), holding the freshly prepared statement -/
  | loopHead (e : Entry)
  /-- the condition held; about to call `iter().next()` - the map may have changed since `len()` was read -/
  | picking (e : Entry)
  /-- `iter().next()` yielded this key; about to `remove` it -/
  | removing (e : Entry) (victim : String)
  /-- left the loop; about to `insert` -/
  | inserting (e : Entry)
  /-- returned this handle -/
  | done (e : Entry) (missed : Bool)
  /-- the preparation failed -/
  | failed (code : Nat)
deriving DecidableEq, Repr

structure State where
  cache : Cache
  pc : Nat → Pc
  nextCell : Nat

def upd (f : Nat → Pc) (k : Nat) (v : Pc) : Nat → Pc := fun i => if i = k then v else f i

/-- one atomic step of caller `k`. `prep` = what `Session::prepare` returns for a text; `choice` = which entry
`iter().next()` yields (index into the map, arbitrary).

DECLARED LIMIT: `prep` is one function for the whole run - a cluster whose answer for a text changes WHILE several
callers are inside `add_prepared_statement` (a node starting to refuse, or to answer another id, between two
concurrent preparations) is not expressible; the harness changes node behaviour only between operations. -/
def step (cap : Nat) (prep : String → Except Nat String) (st : State) (k : Nat) (choice : Nat) : State :=
  match st.pc k with
  | .lookup t =>
    match cacheGet t st.cache with
    | some e => { st with pc := upd st.pc k (.done e false) }
    | none => { st with pc := upd st.pc k (.preparing t) }
  | .preparing t =>
    match prep t with
    | .error c => { st with pc := upd st.pc k (.failed c) }
    | .ok id => { st with pc := upd st.pc k (.loopHead ⟨t, id, st.nextCell⟩), nextCell := st.nextCell + 1 }
  | .loopHead e =>
    if cap ≤ st.cache.length then { st with pc := upd st.pc k (.picking e) }
    else { st with pc := upd st.pc k (.inserting e) }
  | .picking e =>
    -- whatever the map holds NOW (another caller may have brought it below the capacity: over-eviction; or emptied it)
    match st.cache[choice % st.cache.length]? with
    | some v => { st with pc := upd st.pc k (.removing e v.text) }
    | none => { st with pc := upd st.pc k (.loopHead e) }
  | .removing e v => { st with cache := cacheRemove v st.cache, pc := upd st.pc k (.loopHead e) }
  | .inserting e => { st with cache := cacheInsert e st.cache, pc := upd st.pc k (.done e true) }
  | _ => st

/-- caller `k` (idle or finished) starts `add_prepared_statement(text)` -/
def begin (st : State) (k : Nat) (text : String) : State :=
  match st.pc k with
  | .idle | .done _ _ | .failed _ => { st with pc := upd st.pc k (.lookup text) }
  | _ => st

inductive Ev
  | begin (k : Nat) (text : String)
  | step (k : Nat) (choice : Nat)
deriving DecidableEq, Repr

def apply (cap : Nat) (prep : String → Except Nat String) (st : State) : Ev → State
  | .begin k t => begin st k t
  | .step k c => step cap prep st k c

def run (cap : Nat) (prep : String → Except Nat String) (st : State) : List Ev → State
  | [] => st
  | e :: es => run cap prep (apply cap prep st e) es

/-! ## the statement objects' current result metadata (connections with the metadata-id extension)

`cells c` = the version of the result metadata the statement object `c` currently holds (`ArcSwap` in
`PreparedStatementSharedData`, read once per request: `prepared.rs:567-579`). An execution through ANY handle on the
object presents that version's id; a node whose current version differs answers METADATA_CHANGED with its own
(assumption on the server, as in Model/Prepared.lean), and `handle_result_metadata_new_id` (`connection.rs:938-972`)
stores it in the object - visible to every handle on the same cell, to no handle on another. -/

abbrev Cells := Nat → Nat

/-- one execution through a handle on `cell` against a node whose current version is `srv`:
(version presented, did the node answer METADATA_CHANGED, the cells afterwards) -/
def execThrough (cells : Cells) (cell srv : Nat) : Nat × Bool × Cells :=
  (cells cell, cells cell != srv, fun c => if c = cell then (if cells cell != srv then srv else cells c) else cells c)

/-- a statement object made by a preparation holds the version the PREPARED response announced -/
def newCell (cells : Cells) (cell srv : Nat) : Cells := fun c => if c = cell then srv else cells c

end ScyllaVerif.PreparedCacheConc

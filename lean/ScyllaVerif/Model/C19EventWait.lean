/-
C19: `ControlConnectionEvents::wait_for_event` (scylla/src/cluster/control_connection.rs:111-114, 224-260) - the first
link of the hand-off chain connection reader → metadata worker → cluster worker. `MetadataWorker::work_on_cc`
(metadata/worker.rs:722) and `fetch_on_candidate` (:464) await it ONLY as one arm of a `select!` and start it anew on
every loop iteration, so the future is dropped (cancelled) whenever another arm wins: it must be cancel-safe.

* `Conn`        ← `ControlConnectionEvents { error_channel, events_channel }`: the events queued in the bounded mpsc
                  channel (oldest first) and the state of the error oneshot.
* `push`        ← the connection's reader task delivering a server event (`try_send`; refused when the channel is full).
* `breakConn` / `dropErrSender` ← the connection reporting its failure / its error sender dropped without a message.
* `poll pickErr`← ONE poll of a `wait_for_event()` future, fresh or already polled before - the model makes NO
                  difference, which is the point: the code is a `select!` over `events_channel.recv()` (takes a value out
                  of the channel only at the poll that returns it) and `&mut self.error_channel`; the future owns nothing
                  between polls. `pickErr` is `select!`'s random choice when both arms are ready.
                  `Some(event)` ready → `ServerEvent`; error ready → `Broken` (a message) / `Shutdown` (sender dropped).
* `cancel`      ← dropping the future: the identity on `Conn`.
`delivered` / `accepted` are ghost logs: what polls returned, what the channel accepted.
-/
namespace ScyllaVerif.C19EventWait

inductive ErrSt where
  | idle | broken | senderDropped | consumed
  deriving DecidableEq, Repr

inductive Out where
  | pending
  | event (e : Nat)
  | broken
  | shutdown
  deriving DecidableEq, Repr

structure Conn where
  cap : Nat
  queue : List Nat := []
  err : ErrSt := .idle
  accepted : List Nat := []
  delivered : List Nat := []
  deriving Repr

inductive Op where
  | push (e : Nat)
  | breakConn
  | dropErrSender
  | poll (pickErr : Bool)
  | cancel
  deriving DecidableEq, Repr

def errReady (c : Conn) : Bool := c.err == .broken || c.err == .senderDropped

def errOut (c : Conn) : Out := if c.err == .broken then .broken else .shutdown

/-- One poll of `wait_for_event()`: the new state and what the poll returned. -/
def poll (c : Conn) (pickErr : Bool) : Conn × Out :=
  match c.queue with
  | e :: rest =>
    if errReady c && pickErr then ({ c with err := .consumed }, errOut c)
    else ({ c with queue := rest, delivered := c.delivered ++ [e] }, .event e)
  | [] =>
    if errReady c then ({ c with err := .consumed }, errOut c) else (c, .pending)

def step (c : Conn) : Op → Conn
  | .push e => if c.queue.length < c.cap then { c with queue := c.queue ++ [e], accepted := c.accepted ++ [e] } else c
  | .breakConn => if c.err == .idle then { c with err := .broken } else c
  | .dropErrSender => if c.err == .idle then { c with err := .senderDropped } else c
  | .poll pickErr => (poll c pickErr).1
  | .cancel => c

def run (c : Conn) (ops : List Op) : Conn := ops.foldl step c

end ScyllaVerif.C19EventWait

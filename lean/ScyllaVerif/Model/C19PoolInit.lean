/-
Model of how a node's connection pool leaves its `Initializing` state (C19: `apply_metadata_update` awaits
`wait_until_all_pools_are_initialized()` before it publishes the new `ClusterState` and answers the refresh requests,
cluster/worker.rs:466-476 - a pool that never leaves `Initializing` stops the hand-off for good).

* `Shared`      ← `MaybePoolConnections::{Initializing, Ready, Broken}` in `shared_conns` (connection_pool.rs:112-125).
* refiller      ← `PoolRefiller` (556-): `conns` (number of connections held), `inFlight` = `ready_connections.len()`
                  (`is_filling`, 743-745: connection attempts AND keyspace settings under way), `epoch` = number of
                  `pool_updated_notify.notify_waiters()` calls.
  - `startFilling k` ← `start_filling` (803-859): an EMPTY pool opens exactly one connection on the regular port;
                       otherwise `k` attempts are started.
  - `connFail`       ← `handle_ready_connection`, `Err(Connection)` on the regular port (880-898): if this fill has nothing
                       left in flight and the pool is empty, the error is reported (`update_shared_conns(Some(err))`).
  - `shardPortFail`  ← the same on the shard-aware port (865-879): retried at once on the regular port, nothing reported.
  - `connOkNeedsKeyspace` ← the connection is up but must `USE` the keyspace first (914-929): stays in flight.
  - `keyspaceFail`   ← `Err(Keyspace)` (900-911): like `connFail`.
  - `connOkAccept`   ← accepted into the pool (968-993): `update_shared_conns(None)`. An empty pool accepts any connection
                       (the targets are `NonZeroUsize`).
  - `connOkExcess`   ← not accepted (994-): dropped; only possible when the pool is not empty.
  - `connDies`       ← `remove_connection` (1218-1262): the pool is republished (`Broken` if that was the last one).
  - `updateShared`   ← `update_shared_conns` (1128-1153): swap `shared_conns`, then `notify_waiters()`.
* waiter        ← `NodeConnectionPool::wait_until_initialized` (433-442): create `notified()` (which remembers the number
                  of `notify_waiters` calls so far), load `shared_conns`, and only if it is `Initializing` await the
                  notification. tokio: `notify_waiters` completes every `Notified` future created before the call.
-/
namespace ScyllaVerif.C19PoolInit

inductive Shared where
  | initializing | ready | broken
  deriving DecidableEq, Repr

/-- `wait_until_initialized`. -/
inductive WPc where
  | idle                      -- not called (yet)
  | created (epoch0 : Nat)    -- `notified()` created, about to load `shared_conns`
  | awaiting (epoch0 : Nat)   -- loaded `Initializing`, awaiting the notification
  | done
  deriving DecidableEq, Repr

structure Pool where
  shared : Shared := .initializing
  conns : Nat := 0
  inFlight : Nat := 0
  /-- the refiller task has run `start_filling` at least once (it does so at once when it is spawned). -/
  started : Bool := false
  epoch : Nat := 0
  waiter : WPc := .idle
  deriving DecidableEq, Repr

def updateShared (p : Pool) : Pool :=
  { p with shared := if p.conns = 0 then .broken else .ready, epoch := p.epoch + 1 }

/-- The failure report of `handle_ready_connection`: `if !self.is_filling() && self.is_empty()`. -/
def reportIfDrained (p : Pool) : Pool :=
  if p.inFlight = 0 ∧ p.conns = 0 then updateShared p else p

inductive Ev where
  | startFilling (k : Nat)
  | connFail
  | shardPortFail
  | connOkNeedsKeyspace
  | keyspaceFail
  | connOkAccept
  | connOkExcess
  | connDies
  | waitCall          -- `wait_until_initialized` is called: `notified()` created
  | waitLoad          -- it loads `shared_conns`
  | waitPoll          -- its `notified.await` is polled
  deriving DecidableEq, Repr

def step (p : Pool) : Ev → Pool
  | .startFilling k =>
    if p.inFlight ≠ 0 then p
    else if p.conns = 0 then { p with inFlight := 1, started := true }
    else { p with inFlight := k, started := true }
  | .connFail =>
    if p.inFlight = 0 then p else reportIfDrained { p with inFlight := p.inFlight - 1 }
  | .shardPortFail => p                         -- the attempt is replaced by one on the regular port
  | .connOkNeedsKeyspace => p                   -- the connection moves on to `USE`: still in `ready_connections`
  | .keyspaceFail =>
    if p.inFlight = 0 then p else reportIfDrained { p with inFlight := p.inFlight - 1 }
  | .connOkAccept =>
    if p.inFlight = 0 then p else updateShared { p with inFlight := p.inFlight - 1, conns := p.conns + 1 }
  | .connOkExcess =>
    if p.inFlight = 0 ∨ p.conns = 0 then p else { p with inFlight := p.inFlight - 1 }
  | .connDies =>
    if p.conns = 0 then p else updateShared { p with conns := p.conns - 1 }
  | .waitCall =>
    match p.waiter with
    | .idle => { p with waiter := .created p.epoch }
    | _ => p
  | .waitLoad =>
    match p.waiter with
    | .created e => if p.shared = .initializing then { p with waiter := .awaiting e } else { p with waiter := .done }
    | _ => p
  | .waitPoll =>
    match p.waiter with
    | .awaiting e => if p.epoch > e then { p with waiter := .done } else p
    | _ => p

def run (p : Pool) (evs : List Ev) : Pool := evs.foldl step p

/-- Can `wait_until_initialized` still make a step that completes it? -/
def waiterCanFinish (p : Pool) : Bool :=
  match p.waiter with
  | .idle => false
  | .created _ => p.shared != .initializing
  | .awaiting e => p.epoch > e
  | .done => true

end ScyllaVerif.C19PoolInit

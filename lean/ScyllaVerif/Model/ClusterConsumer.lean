import ScyllaVerif.Model.MetaUpdate
import ScyllaVerif.Model.C19PoolInit
/-
Model of what the cluster worker does with a `MetadataUpdate` it received from the merge channel (C19: "the published
state reflects the latest fetched topology"; nothing merged in by the producer is discarded by the consumer).

* `handleClientRoutes` ← `ClusterWorker::handle_client_route_update` (cluster/worker.rs:482-513): with a subscriber
                          configured, a full update hands `metadata.client_routes.take()` to `replace_client_routes`, a
                          partial one hands `client_routes_updates.take()` to `merge_client_routes_update`; ONLY that field is
                          taken - `peers` of the partial update stays. Without a subscriber nothing is touched.
* `consume`            ← `ClusterWorker::apply_metadata_update` (392-477): client routes first (396); DOWN hints on the
                          current state (404-408); then by `metadata_changes` (420-450): `Full` → `new_updated(metadata)`,
                          `Partial{peers: Some}` → `new_with_updated_topology(peers)`, otherwise nothing to publish; UP hints on
                          the new (or, if none, the current) state (454-458); the new state is published
                          (`update_cluster_state`, 470) and then EVERY reply channel of a full update is answered (473-476).
* `Pipe` / `pstep`     ← the producer's merges into the slot interleaved with the consumer's `recv` + `consume`.

Abstractions: a `ClusterState` is represented by the topology tag its `known_nodes` were built from; what the subscriber
is given is kept as a log; hint processing is kept as the list of (address, up) pairs handed to the pool triggers.
-/
namespace ScyllaVerif.ClusterConsumer
open ScyllaVerif.MetaUpdate

/-- What `handle_client_route_update` hands to the `ClientRoutesSubscriber`. -/
inductive Delivery where
  | replace (routes : List (RouteKey × Nat))
  | mergeUpd (upd : List (RouteKey × Option Nat))
  deriving Repr, DecidableEq

/-- A node as a view of the published state shows it: its attributes and the host filter's verdict. -/
structure NodeView where
  attr : NodeAttr
  enabled : Bool
  deriving Repr, DecidableEq

/-- The views of a `ClusterState` onto its topology (cluster/state.rs): `all_nodes` (`get_nodes_info()`, 441),
`known_nodes` (`get_node_by_host_id`, 446; tablets; the next topology calculation) and the token ring of the locator.
`ClusterState::new` / `new_updated` / `new_with_updated_topology` (172-273) build ALL of them from the one
`new_known_nodes` that `calculate_new_topology` (275-341) produced from the peer list. -/
structure Views where
  allNodes : List NodeView := []
  knownNodes : List NodeView := []
  ring : List NodeView := []
  deriving Repr, DecidableEq

/-- The host filter of the rig: 0 = reject all, 1 = none, 2 = reject the peers whose rack is 9. -/
def accepts (filter : Nat) (n : NodeAttr) : Bool :=
  if filter = 0 then false else if filter = 2 then n.rack != 9 else true

/-- `calculate_new_topology`: one `Node` per peer, enabled iff the host filter accepts the peer. -/
def nodesOf (filter : Nat) (t : Topo) : List NodeView :=
  t.nodes.map fun n => { attr := n, enabled := accepts filter n }

/-- The state built from a peer list: every view is filled from the same node list (state.rs:228-233, 263-267). -/
def viewsOf (filter : Nat) (t : Topo) : Views :=
  { allNodes := nodesOf filter t, knownNodes := nodesOf filter t, ring := nodesOf filter t }

structure Consumer where
  hasSubscriber : Bool
  /-- topology (peer list) the published `ClusterState` was built from. -/
  published : Topo
  /-- host filter mode (see `accepts`). -/
  filter : Nat := 0
  /-- the views of the published state. -/
  views : Views := {}
  /-- `stamp` of the full fetch whose metadata the published state was last built from (`none`: the initial state). -/
  publishedStamp : Option Nat := none
  /-- number of tablet batches applied by the tablets branch (cluster/worker.rs:295-324). -/
  tabletBatches : Nat := 0
  /-- number of `update_cluster_state` calls. -/
  publications : Nat := 0
  delivered : List Delivery := []
  /-- status hints processed: (address, is-UP). -/
  hintsApplied : List (Nat × Bool) := []
  /-- refresh requests answered `Ok`. -/
  answered : List Nat := []
  deriving Repr

/-- `handle_client_route_update`: returns the update as `apply_metadata_update` goes on to see it. -/
def handleClientRoutes (c : Consumer) (u : Update) : Consumer × Update :=
  if !c.hasSubscriber then (c, u) else
  match u.changes with
  | none => (c, u)
  | some (.full m rs) =>
    match m.clientRoutes with
    | some r => ({ c with delivered := c.delivered ++ [.replace r] },
                 { u with changes := some (.full { m with clientRoutes := none } rs) })
    | none => (c, u)
  | some (.part p) =>
    match p.clientRoutes with
    | some upd => ({ c with delivered := c.delivered ++ [.mergeUpd upd] },
                   { u with changes := some (.part { p with clientRoutes := none }) })
    | none => (c, u)

/-- `apply_metadata_update`. -/
def consume (c : Consumer) (u : Update) : Consumer :=
  let (c1, u1) := handleClientRoutes c u
  let downs := u1.hints.filter (fun h => !h.2)
  let ups := u1.hints.filter (fun h => h.2)
  let c2 := { c1 with hintsApplied := c1.hintsApplied ++ downs }
  match u1.changes with
  | some (.full m rs) =>
    { c2 with hintsApplied := c2.hintsApplied ++ ups, published := m.peers, views := viewsOf c2.filter m.peers,
              publishedStamp := some m.stamp, publications := c2.publications + 1, answered := c2.answered ++ rs }
  | some (.part { peers := some p, .. }) =>
    { c2 with hintsApplied := c2.hintsApplied ++ ups, published := p, views := viewsOf c2.filter p,
              publications := c2.publications + 1 }
  | _ => { c2 with hintsApplied := c2.hintsApplied ++ ups }

/-- `wait_until_all_pools_are_initialized` (cluster/state.rs:94-98, awaited at cluster/worker.rs:466-468 BEFORE the new
state is published and the reply channels are answered): the handler goes on only when no pool of the new state's nodes
is `Initializing` any more. -/
def poolsInitialized (pools : List C19PoolInit.Pool) : Bool :=
  pools.all (fun p => p.shared != .initializing)

/-- `apply_metadata_update` with the pools of the new state's enabled nodes: `none` = still parked at
`wait_until_all_pools_are_initialized` (nothing published, nothing answered, `recv` not called again). -/
def consumeWaiting (c : Consumer) (u : Update) (pools : List C19PoolInit.Pool) : Option Consumer :=
  match peersTag (some u) with
  | some _ => if poolsInitialized pools then some (consume c u) else none
  | none => some (consume c u)          -- nothing to publish: the pools are not waited for

/-- The tablets branch of `ClusterWorker::work` (cluster/worker.rs:295-324): load the CURRENT state, clone it, apply the
tablets, store it - the topology views are those of the state it loaded. -/
def applyTablets (c : Consumer) : Consumer :=
  { c with tabletBatches := c.tabletBatches + 1, publications := c.publications + 1 }

/-- The consumer the rig starts with: initial topology `t0`, its state built by `ClusterState::new`. -/
def Consumer.start (sub : Bool) (filter : Nat) (t0 : Topo) : Consumer :=
  { hasSubscriber := sub, published := t0, filter := filter, views := viewsOf filter t0 }

/-- The pools of the state built from topology `t` (`calculate_new_topology`, state.rs:291-331): an enabled node that was
enabled before with the same dc and rack keeps its `Node` - or, if only its address changed, a new `Node` that inherits
the pool (`inherit_with_ip_changed`) - so its pool is KEPT; every other enabled node gets a brand-new pool (`fresh addr`);
a disabled node has none. Entries: host ↦ (dc, rack, pool). -/
def poolsFor (filter : Nat) (old : List (Nat × Nat × Nat × C19PoolInit.Pool)) (fresh : Nat → C19PoolInit.Pool)
    (t : Topo) : List (Nat × Nat × Nat × C19PoolInit.Pool) :=
  t.nodes.filterMap fun n =>
    if accepts filter n then
      match old.find? (fun p => p.1 == n.host) with
      | some (h, d, r, pool) =>
        if d == n.dc && r == n.rack then some (h, d, r, pool) else some (n.host, n.dc, n.rack, fresh n.addr)
      | none => some (n.host, n.dc, n.rack, fresh n.addr)
    else none

/-- Producer → slot → consumer. -/
structure Pipe where
  slot : Option Update := none
  cons : Consumer
  deriving Repr

inductive PEv where
  | merge (op : Op)     -- `Sender::modify(|slot| MetadataUpdate::merge_*(slot, ..))`
  | take                -- `recv()` returned the slot's update and `apply_metadata_update` ran
  | tablets             -- the tablets branch ran (a batch of tablets arrived from some response)
  deriving Repr

def pstep (s : Pipe) : PEv → Pipe
  | .merge op => { s with slot := apply s.slot op }
  | .take =>
    match s.slot with
    | none => s
    | some u => { slot := none, cons := consume s.cons u }
  | .tablets => { s with cons := applyTablets s.cons }

def prun (s : Pipe) (evs : List PEv) : Pipe := evs.foldl pstep s

/-- The merge operations of a history, in order. -/
def mergesOf : List PEv → List Op
  | [] => []
  | .merge op :: rest => op :: mergesOf rest
  | .take :: rest => mergesOf rest
  | .tablets :: rest => mergesOf rest

/-- The topology a reader of the published state sees once the consumer has caught up: the slot's, if it carries
one, else the published one. -/
def effectiveTopology (s : Pipe) : Topo :=
  match peersTag s.slot with
  | some t => t
  | none => s.cons.published

end ScyllaVerif.ClusterConsumer

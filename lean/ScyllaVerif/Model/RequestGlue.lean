import ScyllaVerif.Model.Request
/-
C09, connection-level glue: how `scylla/src/network/connection.rs` turns *what the caller configured on a statement*
into the protocol-level request record that `Model/Request.lean` then encodes.

* `determineConsistency`   ← `StatementConfig::determine_consistency` (`statement/mod.rs:49-51`).
* `requestTimestamp`       ← `statement.get_timestamp().or_else(get_timestamp_from_gen)` (`connection.rs:889-895,
                              1054-1062, 1195-1201`); the generator's next value is an explicit argument.
* `queryRequest`           ← `Connection::query_raw_with_consistency` (`connection.rs:881-917`): no values, `skip_metadata: false`.
* `cachedMetadataParams`   ← `Connection::calculate_cached_metadata_params` (`connection.rs:975-1042`).
* `executeRequest`         ← `Connection::execute_raw_with_consistency` (`connection.rs:1044-1091`).
* `prepareBatch`, `batchRequestBody` ← `Connection::prepare_batch` (`connection.rs:1252-1300`) and
                              `Connection::batch_with_consistency` (`connection.rs:1177-1210`): unprepared statements that
                              carry values are prepared first; contexts come from the statements.
* `pagerRequests`          ← `Connection::execute_iter` → `SingleConnectionPagingExecutor` (`client/pager.rs`): one EXECUTE
                              per page with the statement's page size and the paging state of the previous response.
* `startupOptions`         ← `open_connection` (`connection.rs:2128-2160`), `ProtocolFeatures::add_startup_options`
                              (`scylla-cql-core/src/frame/protocol_features.rs:102-120`), `SelfIdentity::add_startup_options`
                              (`connection.rs:236-274`, default identity).

The tracing flag of the frame is `statement.config.tracing` (`send_request(.., statement.config.tracing, ..)`).
Import-free apart from the C09 model files.
-/
namespace ScyllaVerif.RequestGlue
open ScyllaVerif.Wire ScyllaVerif.Request
open ScyllaVerif.ReqParse (Consistency SerialConsistency BatchType RawVal)

/-- The part of `StatementConfig` that reaches the wire. `serialConsistency`: `Option<Option<SerialConsistency>>` —
`none` = not set on the statement, `some none` = explicitly no serial consistency. -/
structure StmtConfig where
  consistency : Option Consistency
  serialConsistency : Option (Option SerialConsistency)
  timestamp : Option Int64
  tracing : Bool
  deriving Repr, DecidableEq

/-- What the connection contributes: `config.default_consistency`, the value the configured `TimestampGenerator` would
return for this request (`none` = no generator configured), whether SCYLLA_USE_METADATA_ID was negotiated. -/
structure ConnCtx where
  defaultConsistency : Consistency
  genTimestamp : Option Int64
  metadataIdExt : Bool
  deriving Repr, DecidableEq

def determineConsistency (cfg : StmtConfig) (conn : ConnCtx) : Consistency :=
  cfg.consistency.getD conn.defaultConsistency

def requestTimestamp (cfg : StmtConfig) (conn : ConnCtx) : Option Int64 :=
  match cfg.timestamp with
  | some t => some t
  | none => conn.genTimestamp

/-- `serial_consistency.flatten()`. -/
def requestSerial (cfg : StmtConfig) : Option SerialConsistency := cfg.serialConsistency.join

/-- `query_raw_with_consistency`: the QUERY record of an unprepared statement. -/
def queryRequest (text : Bytes) (cfg : StmtConfig) (conn : ConnCtx) (pageSize : Option Int32)
    (pagingState : Option Bytes) : Req :=
  .query text
    { consistency := determineConsistency cfg conn
      serialConsistency := requestSerial cfg
      timestamp := requestTimestamp cfg conn
      pageSize := pageSize
      pagingState := pagingState
      skipMetadata := false
      values := [] }

/-- What the driver knows about a prepared statement when it executes it. -/
structure PreparedInfo where
  id : Bytes
  /-- `col_count` of the current result metadata -/
  resultColCount : Nat
  /-- id of the current result metadata (`None` when prepared without the extension) -/
  resultMetadataId : Option Bytes
  useCachedResultMetadata : Bool
  deriving Repr, DecidableEq

/-- `calculate_cached_metadata_params`: `(skip_metadata, result_metadata_id)`. -/
def cachedMetadataParams (p : PreparedInfo) (ext : Bool) : Bool × Option Bytes :=
  let skip := if p.resultColCount = 0 then false else (p.useCachedResultMetadata || ext)
  let mid : Option Bytes :=
    if ext then
      (if skip then some (p.resultMetadataId.getD []) else some [])
    else none
  (skip, mid)

/-- `execute_raw_with_consistency`: the EXECUTE record. -/
def executeRequest (p : PreparedInfo) (values : List RawVal) (cfg : StmtConfig) (conn : ConnCtx)
    (pageSize : Option Int32) (pagingState : Option Bytes) : Req :=
  let cm := cachedMetadataParams p conn.metadataIdExt
  .execute p.id cm.2
    { consistency := determineConsistency cfg conn
      serialConsistency := requestSerial cfg
      timestamp := requestTimestamp cfg conn
      pageSize := pageSize
      pagingState := pagingState
      skipMetadata := cm.1
      values := values }

/-- A statement of a `Batch` as the caller built it. -/
inductive GlueStmt where
  | unprepared (text : Bytes)
  /-- a `PreparedStatement`: its id and the number of bind markers (columns of its prepared metadata) -/
  | prepared (id : Bytes) (cols : Nat)
  deriving Repr, DecidableEq

/-- The texts `prepare_batch` collects into `to_prepare` (a `HashSet`: each text once, PREPAREs sent in arbitrary
order): unprepared statements whose value row exists and is non-empty (`is_empty_next() == Some(false)`). -/
def textsToPrepare : List GlueStmt → List (List RawVal) → List Bytes
  | [], _ => []
  | _ :: _, [] => []
  | .unprepared t :: ss, row :: rows =>
    if row.isEmpty then textsToPrepare ss rows else t :: textsToPrepare ss rows
  | .prepared _ _ :: ss, _ :: rows => textsToPrepare ss rows

/-- `prepare_batch`: every unprepared statement whose *text* is in `to_prepare` is replaced by the statement prepared on
this connection (`server text = (id, number of bind markers)` is the server's PREPARED answer) — also an occurrence of
that text which itself has no values. -/
def prepareBatch (server : Bytes → Bytes × Nat) (stmts : List GlueStmt) (rows : List (List RawVal)) : List GlueStmt :=
  let tp := textsToPrepare stmts rows
  stmts.map (fun s =>
    match s with
    | .unprepared t => if tp.contains t then .prepared (server t).1 (server t).2 else .unprepared t
    | .prepared i c => .prepared i c)

/-- Statement + context columns handed to the frame-level `Batch` (`RowSerializationContext::empty()` for unprepared). -/
def stmtWithCtx : GlueStmt → BatchStmt × Nat
  | .unprepared t => (.query t, 0)
  | .prepared i c => (.prepared i, c)

/-- `batch_with_consistency`: the BATCH body. -/
def batchRequestBody (server : Bytes → Bytes × Nat) (ty : BatchType) (stmts : List GlueStmt) (rows : List (List RawVal))
    (cfg : StmtConfig) (conn : ConnCtx) : Except Err Bytes :=
  encodeBatchA ty ((prepareBatch server stmts rows).map stmtWithCtx) rows (determineConsistency cfg conn)
    (requestSerial cfg) (requestTimestamp cfg conn)

/-- `execute_iter`: the EXECUTE records of a paged iteration when the server answered the pages with the paging states
`states` (`none` in the list cannot occur: iteration stops at the first response without a paging state). -/
def pagerRequests (p : PreparedInfo) (values : List RawVal) (cfg : StmtConfig) (conn : ConnCtx) (pageSize : Int32)
    (states : List Bytes) : List Req :=
  (none :: states.map some).map (fun st => executeRequest p values cfg conn (some pageSize) st)

/-! ### STARTUP -/

/-- What `open_connection` learned from SUPPORTED (`ProtocolFeatures::parse_from_supported` + the COMPRESSION list). -/
structure Negotiated where
  rateLimitError : Bool            -- SCYLLA_RATE_LIMIT_ERROR with a parsable ERROR_CODE
  lwtMask : Option Nat             -- SCYLLA_LWT_ADD_METADATA_MARK with a parsable mask
  tabletsV1 : Bool
  metadataId : Bool
  /-- does SUPPORTED's COMPRESSION list contain the configured algorithm's name? -/
  compressionSupported : Bool
  deriving Repr, DecidableEq

def ascii (s : String) : Bytes := s.toUTF8.toList

/-- `Compression::as_str`. -/
def compressionName : Compression → Bytes
  | .lz4 => ascii "lz4"
  | .snappy => ascii "snappy"

/-- The STARTUP options map (as a list of entries; the order on the wire is the `HashMap`'s).  Keys and advertised
values are the constants re-extracted from the source (`Generated.startup_*`). -/
def startupOptions (n : Negotiated) (configured : Option Compression) : List (Bytes × Bytes) :=
  (if n.rateLimitError then [(Generated.startup_key_RATE_LIMIT_ERROR, [])] else []) ++
  (match n.lwtMask with
   | some m => [(Generated.startup_key_LWT_MARK, Generated.startup_LWT_MASK_field ++ ascii ("=" ++ toString m))]
   | none => []) ++
  (if n.tabletsV1 then [(Generated.startup_key_TABLETS_ROUTING_V1, [])] else []) ++
  (if n.metadataId then [(Generated.startup_key_USE_METADATA_ID, [])] else []) ++
  [(Generated.startup_key_CQL_VERSION, Generated.startup_CQL_VERSION_value),
   (Generated.startup_key_DRIVER_NAME, Generated.startup_DRIVER_NAME_value),
   (Generated.startup_key_DRIVER_VERSION, Generated.startup_DRIVER_VERSION_value)] ++
  (match configured with
   | some c => if n.compressionSupported then [(Generated.startup_key_COMPRESSION, compressionName c)] else []
   | none => [])

/-- The compression actually used after STARTUP: the configured one if the server supports it, else none. -/
def effectiveCompression (n : Negotiated) (configured : Option Compression) : Option Compression :=
  match configured with
  | some c => if n.compressionSupported then some c else none
  | none => none

end ScyllaVerif.RequestGlue

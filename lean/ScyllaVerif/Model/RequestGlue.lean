import ScyllaVerif.Model.Request
/-
C09, connection-level glue: how `scylla/src/network/connection.rs` turns *what the caller configured on a statement*
into the protocol-level request record that `Model/Request.lean` then encodes.

* `determineConsistency`   ← `StatementConfig::determine_consistency` (`statement/mod.rs:49-51`), used by the connection
                              itself only in `execute_iter` (and internal queries); for the `*_with_consistency` methods
                              consistency and serial consistency are arguments, decided by the `Session` layer
                              (`sessionConsistency` / `sessionSerial` ← `client/execution.rs:120-155`, `client/pager.rs:176-182`).
* `requestTimestamp`       ← `statement.get_timestamp().or_else(get_timestamp_from_gen)` (`connection.rs:889-895,
                              1054-1062, 1195-1201`); the generator's next value is an explicit argument.
* `queryRequest`           ← `Connection::query_raw_with_consistency` (`connection.rs:881-917`): no values, `skip_metadata: false`.
* `cachedMetadataParams`   ← `Connection::calculate_cached_metadata_params` (`connection.rs:975-1042`).
* `executeRequest`         ← `Connection::execute_raw_with_consistency` (`connection.rs:1044-1091`).
* `prepareBatch`, `batchRequestBody` ← `Connection::prepare_batch` (`connection.rs:1252-1300`) and
                              `Connection::batch_with_consistency` (`connection.rs:1177-1210`): unprepared statements that
                              carry values are prepared first; contexts come from the statements.
* `pagerRequests`          ← `Connection::execute_iter` → `SingleConnectionPagingExecutor` (`client/pager.rs`): one EXECUTE
                              per page with the statement's page size and the paging state of the previous response.
* `startupOptions`         ← `open_connection` (`connection.rs:2128-2160`), `ProtocolFeatures::add_startup_options`
                              (`scylla-cql-core/src/frame/protocol_features.rs:102-120`), `SelfIdentity::add_startup_options`
                              (`connection.rs:236-274`, default identity).

The tracing flag of the frame is `statement.config.tracing` (`send_request(.., statement.config.tracing, ..)`).
Import-free apart from the C09 model files.
-/
namespace ScyllaVerif.RequestGlue
open ScyllaVerif.Wire ScyllaVerif.Request
open ScyllaVerif.ReqParse (Consistency SerialConsistency BatchType RawVal)

/-- The part of `StatementConfig` that reaches the wire. `serialConsistency`: `Option<Option<SerialConsistency>>` —
`none` = not set on the statement, `some none` = explicitly no serial consistency. -/
structure StmtConfig where
  consistency : Option Consistency
  serialConsistency : Option (Option SerialConsistency)
  timestamp : Option Int64
  tracing : Bool
  deriving Repr, DecidableEq

/-- What the connection contributes: `config.default_consistency`, the value the configured `TimestampGenerator` would
return for this request (`none` = no generator configured), whether SCYLLA_USE_METADATA_ID was negotiated. -/
structure ConnCtx where
  defaultConsistency : Consistency
  genTimestamp : Option Int64
  metadataIdExt : Bool
  deriving Repr, DecidableEq

def determineConsistency (cfg : StmtConfig) (conn : ConnCtx) : Consistency :=
  cfg.consistency.getD conn.defaultConsistency

def requestTimestamp (cfg : StmtConfig) (conn : ConnCtx) : Option Int64 :=
  match cfg.timestamp with
  | some t => some t
  | none => conn.genTimestamp

/-- `serial_consistency.flatten()`. -/
def requestSerial (cfg : StmtConfig) : Option SerialConsistency := cfg.serialConsistency.join

/-- `query_raw_with_consistency(statement, consistency, serial_consistency, page_size, paging_state)`: the QUERY record
of an unprepared statement.  Consistency and serial consistency are ARGUMENTS of the connection method (decided by the
caller: `Session`, see `sessionQuery` below); the timestamp and the tracing flag come from the statement. -/
def queryRequest (text : Bytes) (cons : Consistency) (serial : Option SerialConsistency) (cfg : StmtConfig)
    (conn : ConnCtx) (pageSize : Option Int32) (pagingState : Option Bytes) : Req :=
  .query text
    { consistency := cons
      serialConsistency := serial
      timestamp := requestTimestamp cfg conn
      pageSize := pageSize
      pagingState := pagingState
      skipMetadata := false
      values := [] }

/-- What the driver knows about a prepared statement when it executes it. -/
structure PreparedInfo where
  id : Bytes
  /-- `col_count` of the current result metadata -/
  resultColCount : Nat
  /-- id of the current result metadata (`None` when prepared without the extension) -/
  resultMetadataId : Option Bytes
  useCachedResultMetadata : Bool
  deriving Repr, DecidableEq

/-- `calculate_cached_metadata_params`: `(skip_metadata, result_metadata_id)`. -/
def cachedMetadataParams (p : PreparedInfo) (ext : Bool) : Bool × Option Bytes :=
  let skip := if p.resultColCount = 0 then false else (p.useCachedResultMetadata || ext)
  let mid : Option Bytes :=
    if ext then
      (if skip then some (p.resultMetadataId.getD []) else some [])
    else none
  (skip, mid)

/-- `execute_raw_with_consistency(prepared, values, consistency, serial_consistency, page_size, paging_state)`: the
EXECUTE record (consistency / serial consistency are arguments, as for QUERY). -/
def executeRequest (p : PreparedInfo) (values : List RawVal) (cons : Consistency) (serial : Option SerialConsistency)
    (cfg : StmtConfig) (conn : ConnCtx) (pageSize : Option Int32) (pagingState : Option Bytes) : Req :=
  let cm := cachedMetadataParams p conn.metadataIdExt
  .execute p.id cm.2
    { consistency := cons
      serialConsistency := serial
      timestamp := requestTimestamp cfg conn
      pageSize := pageSize
      pagingState := pagingState
      skipMetadata := cm.1
      values := values }

/-- A statement of a `Batch` as the caller built it. -/
inductive GlueStmt where
  | unprepared (text : Bytes)
  /-- a `PreparedStatement`: its id and the number of bind markers (columns of its prepared metadata) -/
  | prepared (id : Bytes) (cols : Nat)
  deriving Repr, DecidableEq

/-- The texts `prepare_batch` collects into `to_prepare` (a `HashSet`: each text once, PREPAREs sent in arbitrary
order): unprepared statements whose value row exists and is non-empty (`is_empty_next() == Some(false)`). -/
def textsToPrepare : List GlueStmt → List (List RawVal) → List Bytes
  | [], _ => []
  | _ :: _, [] => []
  | .unprepared t :: ss, row :: rows =>
    if row.isEmpty then textsToPrepare ss rows else t :: textsToPrepare ss rows
  | .prepared _ _ :: ss, _ :: rows => textsToPrepare ss rows

/-- `prepare_batch`: every unprepared statement whose *text* is in `to_prepare` is replaced by the statement prepared on
this connection (`server text = (id, number of bind markers)` is the server's PREPARED answer) — also an occurrence of
that text which itself has no values. -/
def prepareBatch (server : Bytes → Bytes × Nat) (stmts : List GlueStmt) (rows : List (List RawVal)) : List GlueStmt :=
  let tp := textsToPrepare stmts rows
  stmts.map (fun s =>
    match s with
    | .unprepared t => if tp.contains t then .prepared (server t).1 (server t).2 else .unprepared t
    | .prepared i c => .prepared i c)

/-- Statement + context columns handed to the frame-level `Batch` (`RowSerializationContext::empty()` for unprepared). -/
def stmtWithCtx : GlueStmt → BatchStmt × Nat
  | .unprepared t => (.query t, 0)
  | .prepared i c => (.prepared i, c)

/-- `batch_with_consistency(batch, values, consistency, serial_consistency)`: the BATCH body. -/
def batchRequestBody (server : Bytes → Bytes × Nat) (ty : BatchType) (stmts : List GlueStmt) (rows : List (List RawVal))
    (cons : Consistency) (serial : Option SerialConsistency) (cfg : StmtConfig) (conn : ConnCtx) : Except Err Bytes :=
  encodeBatchA ty ((prepareBatch server stmts rows).map stmtWithCtx) rows cons serial (requestTimestamp cfg conn)

/-- `Connection::execute_iter` (`connection.rs:1156-1175`, the single-connection pager): here the connection itself
decides — `determine_consistency(config.default_consistency)` and `serial_consistency.flatten()` — and sends one EXECUTE
per page with the statement's page size and the paging state of the previous response (`states`). -/
def pagerRequests (p : PreparedInfo) (values : List RawVal) (cfg : StmtConfig) (conn : ConnCtx) (pageSize : Int32)
    (states : List Bytes) : List Req :=
  (none :: states.map some).map (fun st =>
    executeRequest p values (determineConsistency cfg conn) (requestSerial cfg) cfg conn (some pageSize) st)

/-! ### the `Session` layer: who decides consistency, serial consistency and page size

`RequestExecutionParams::new_for_session_apis` (`client/execution.rs:120-155`) and `PagerWorker` (`client/pager.rs:176-182`):
the statement's value if it has one, else the execution profile's; the profile is the statement's own
(`get_execution_profile_handle()`) if set, else the session's default (`session.rs:1046-1050, 1375-1378, 1793-1796`). -/

/-- The two fields of `ExecutionProfileInner` that reach the wire. -/
structure ExecProfile where
  consistency : Consistency
  serialConsistency : Option SerialConsistency
  deriving Repr, DecidableEq

def chosenProfile (stmtProfile : Option ExecProfile) (sessionDefault : ExecProfile) : ExecProfile :=
  stmtProfile.getD sessionDefault

/-- `statement_config.consistency.unwrap_or(execution_profile.consistency)`. -/
def sessionConsistency (cfg : StmtConfig) (p : ExecProfile) : Consistency := cfg.consistency.getD p.consistency

/-- `statement_config.serial_consistency.unwrap_or(execution_profile.serial_consistency)` (`Option<Option<_>>`:
an explicit `Some(None)` on the statement means *no* serial consistency; unset means the profile's). -/
def sessionSerial (cfg : StmtConfig) (p : ExecProfile) : Option SerialConsistency :=
  match cfg.serialConsistency with
  | some s => s
  | none => p.serialConsistency

/-- `*_unpaged` passes no page size; `*_single_page` and `*_iter` pass the statement's (validated) page size. -/
inductive Paging where
  | unpaged
  | paged
  deriving Repr, DecidableEq

def sessionPageSize (m : Paging) (stmtPageSize : Int32) : Option Int32 :=
  match m with
  | .unpaged => none
  | .paged => some stmtPageSize

/-- `Session::query_unpaged / query_single_page / query_iter` (one page of it). -/
def sessionQuery (text : Bytes) (cfg : StmtConfig) (stmtProfile : Option ExecProfile) (sessionDefault : ExecProfile)
    (conn : ConnCtx) (m : Paging) (stmtPageSize : Int32) (pagingState : Option Bytes) : Req :=
  let prof := chosenProfile stmtProfile sessionDefault
  queryRequest text (sessionConsistency cfg prof) (sessionSerial cfg prof) cfg conn (sessionPageSize m stmtPageSize)
    pagingState

/-- `Session::execute_unpaged / execute_single_page / execute_iter` (one page of it). -/
def sessionExecute (p : PreparedInfo) (values : List RawVal) (cfg : StmtConfig) (stmtProfile : Option ExecProfile)
    (sessionDefault : ExecProfile) (conn : ConnCtx) (m : Paging) (stmtPageSize : Int32) (pagingState : Option Bytes) : Req :=
  let prof := chosenProfile stmtProfile sessionDefault
  executeRequest p values (sessionConsistency cfg prof) (sessionSerial cfg prof) cfg conn
    (sessionPageSize m stmtPageSize) pagingState

/-- `Session::batch`. -/
def sessionBatchBody (server : Bytes → Bytes × Nat) (ty : BatchType) (stmts : List GlueStmt) (rows : List (List RawVal))
    (cfg : StmtConfig) (stmtProfile : Option ExecProfile) (sessionDefault : ExecProfile) (conn : ConnCtx) :
    Except Err Bytes :=
  let prof := chosenProfile stmtProfile sessionDefault
  batchRequestBody server ty stmts rows (sessionConsistency cfg prof) (sessionSerial cfg prof) cfg conn

/-- How `Session::batch` can refuse a batch before / instead of sending it. -/
inductive SessionBatchErr where
  /-- `ExecutionError::BadQuery(BadQuery::TooManyQueriesInBatchStatement(n))` — the session's own guard -/
  | tooManyQueries (n : Nat)
  /-- any refusal of the layers behind the guard (the frame serializer's `BatchSerializationError`s) -/
  | frame (e : Err)
  deriving Repr, DecidableEq

/-- `Session::batch` as a whole (`session.rs:1031-1107`): FIRST the session's own guard on the number of statements
(`session.rs:1039-1045`: `if batch.statements.len() > u16::MAX as usize { return Err(TooManyQueriesInBatchStatement(len)) }`,
a second implementation of "oversize batches are refused" in front of `Batch::do_serialize`'s own `try_into::<u16>`),
then the profile defaulting and `Connection::batch_with_consistency` (`sessionBatchBody`).  `peek_first_token`
(`statement/batch.rs:308-342`) between the two only pre-serializes the first row with the first statement's own context —
the same row/context pair the serializer would judge — and is folded into `.frame`. -/
def sessionBatch (server : Bytes → Bytes × Nat) (ty : BatchType) (stmts : List GlueStmt) (rows : List (List RawVal))
    (cfg : StmtConfig) (stmtProfile : Option ExecProfile) (sessionDefault : ExecProfile) (conn : ConnCtx) :
    Except SessionBatchErr Bytes :=
  if stmts.length > 65535 then .error (.tooManyQueries stmts.length)
  else
    match sessionBatchBody server ty stmts rows cfg stmtProfile sessionDefault conn with
    | .ok body => .ok body
    | .error e => .error (.frame e)

/-- The requests of a paged session-level iteration (`query_iter` / `execute_iter`): first page without a paging
state, then the server's previous state each time. -/
def sessionIterExecutes (p : PreparedInfo) (values : List RawVal) (cfg : StmtConfig) (stmtProfile : Option ExecProfile)
    (sessionDefault : ExecProfile) (conn : ConnCtx) (stmtPageSize : Int32) (states : List Bytes) : List Req :=
  (none :: states.map some).map (fun st =>
    sessionExecute p values cfg stmtProfile sessionDefault conn .paged stmtPageSize st)

/-- Manual paging through `Session::query_single_page` / `execute_single_page` (`session.rs:738-745, 917-930`): each call
is one paged request carrying exactly the `PagingState` the CALLER passed; a caller that feeds every response's paging
state into the next call (`states` = what the server answered, in order) produces this sequence. -/
def sessionSinglePageQuery (text : Bytes) (cfg : StmtConfig) (stmtProfile : Option ExecProfile) (sessionDefault : ExecProfile)
    (conn : ConnCtx) (stmtPageSize : Int32) (callerState : Option Bytes) : Req :=
  sessionQuery text cfg stmtProfile sessionDefault conn .paged stmtPageSize callerState

def sessionSinglePageExecute (p : PreparedInfo) (values : List RawVal) (cfg : StmtConfig) (stmtProfile : Option ExecProfile)
    (sessionDefault : ExecProfile) (conn : ConnCtx) (stmtPageSize : Int32) (callerState : Option Bytes) : Req :=
  sessionExecute p values cfg stmtProfile sessionDefault conn .paged stmtPageSize callerState

def sessionManualQueryPages (text : Bytes) (cfg : StmtConfig) (stmtProfile : Option ExecProfile)
    (sessionDefault : ExecProfile) (conn : ConnCtx) (stmtPageSize : Int32) (states : List Bytes) : List Req :=
  (none :: states.map some).map (sessionSinglePageQuery text cfg stmtProfile sessionDefault conn stmtPageSize)

def sessionManualExecutePages (p : PreparedInfo) (values : List RawVal) (cfg : StmtConfig)
    (stmtProfile : Option ExecProfile) (sessionDefault : ExecProfile) (conn : ConnCtx) (stmtPageSize : Int32)
    (states : List Bytes) : List Req :=
  (none :: states.map some).map (sessionSinglePageExecute p values cfg stmtProfile sessionDefault conn stmtPageSize)

/-! ### Statement → PreparedStatement: what a prepared handle inherits

`RawPreparedStatement::into_prepared_statement` (`statement/prepared.rs:86-108`, used by `Connection::prepare` and
`Session::prepare`) builds the handle with `statement.config.clone()` and `statement.get_validated_page_size()`;
`CachingSession` does the same on a cache miss and on a hit re-configures the cached handle with
`make_configured_handle(query.config, page_size)` (`client/caching_session.rs:199-247`).  So everything of the
statement's configuration that reaches the wire — consistency, serial consistency, timestamp, tracing, execution profile
handle, page size — is the statement's; `use_cached_result_metadata` is false unless set on the handle (or by the
`CachingSession`'s own flag). -/

/-- The wire-relevant configuration of a prepared handle. -/
structure PreparedCfg where
  cfg : StmtConfig
  profile : Option ExecProfile
  pageSize : Int32
  deriving Repr, DecidableEq

/-- `into_prepared_statement` / `make_configured_handle`. -/
def intoPrepared (cfg : StmtConfig) (stmtProfile : Option ExecProfile) (pageSize : Int32) : PreparedCfg :=
  { cfg := cfg, profile := stmtProfile, pageSize := pageSize }

/-- `Session::query_*(statement, values)` with non-empty values (`session.rs:1421-1437`, `do_query_iter` 1539-1546),
`Session::prepare(statement)` followed by `execute_*`, and `CachingSession::execute_*(statement, values)`: a PREPARE of
the statement's text (tracing flag: the statement's), then EXECUTE(s) of the prepared handle that inherited the
statement's configuration.  Result: the requests with their tracing flags; `states` as in `sessionIterExecutes` (`[]`
for a single request). -/
def sessionPreparedFromStatement (text : Bytes) (server : PreparedInfo) (useCached : Bool) (values : List RawVal)
    (cfg : StmtConfig) (stmtProfile : Option ExecProfile) (sessionDefault : ExecProfile) (conn : ConnCtx) (m : Paging)
    (stmtPageSize : Int32) (states : List Bytes) : List (Req × Bool) :=
  let h := intoPrepared cfg stmtProfile stmtPageSize
  (.prepare text, cfg.tracing) ::
    (none :: states.map some).map (fun st =>
      (sessionExecute { server with useCachedResultMetadata := useCached } values h.cfg h.profile sessionDefault conn m
        h.pageSize st, h.cfg.tracing))

/-! ### STARTUP -/

/-- What `open_connection` learned from SUPPORTED (`ProtocolFeatures::parse_from_supported` + the COMPRESSION list). -/
structure Negotiated where
  rateLimitError : Bool            -- SCYLLA_RATE_LIMIT_ERROR with a parsable ERROR_CODE
  lwtMask : Option Nat             -- SCYLLA_LWT_ADD_METADATA_MARK with a parsable mask
  tabletsV1 : Bool
  metadataId : Bool
  /-- does SUPPORTED's COMPRESSION list contain the configured algorithm's name? -/
  compressionSupported : Bool
  deriving Repr, DecidableEq

def ascii (s : String) : Bytes := s.toUTF8.toList

/-- `Compression::as_str`. -/
def compressionName : Compression → Bytes
  | .lz4 => ascii "lz4"
  | .snappy => ascii "snappy"

/-- `SelfIdentity` (`client/self_identity.rs`): custom driver name / version (else the defaults), optional application
name / version and client id. -/
structure Identity where
  driverName : Option Bytes := none
  driverVersion : Option Bytes := none
  applicationName : Option Bytes := none
  applicationVersion : Option Bytes := none
  clientId : Option Bytes := none
  deriving Repr, DecidableEq

def optEntry (key : Bytes) : Option Bytes → List (Bytes × Bytes)
  | some v => [(key, v)]
  | none => []

/-- `SelfIdentity::add_startup_options` (`connection.rs:236-274`). -/
def identityOptions (id : Identity) : List (Bytes × Bytes) :=
  [(Generated.startup_key_DRIVER_NAME, id.driverName.getD Generated.startup_DRIVER_NAME_value),
   (Generated.startup_key_DRIVER_VERSION, id.driverVersion.getD Generated.startup_DRIVER_VERSION_value)] ++
  optEntry Generated.startup_key_APPLICATION_NAME id.applicationName ++
  optEntry Generated.startup_key_APPLICATION_VERSION id.applicationVersion ++
  optEntry Generated.startup_key_CLIENT_ID id.clientId

/-- `ProtocolFeatures::add_startup_options`. -/
def featureOptions (n : Negotiated) : List (Bytes × Bytes) :=
  (if n.rateLimitError then [(Generated.startup_key_RATE_LIMIT_ERROR, [])] else []) ++
  (match n.lwtMask with
   | some m => [(Generated.startup_key_LWT_MARK, Generated.startup_LWT_MASK_field ++ ascii ("=" ++ toString m))]
   | none => []) ++
  (if n.tabletsV1 then [(Generated.startup_key_TABLETS_ROUTING_V1, [])] else []) ++
  (if n.metadataId then [(Generated.startup_key_USE_METADATA_ID, [])] else [])

def compressionOption (n : Negotiated) (configured : Option Compression) : List (Bytes × Bytes) :=
  match configured with
  | some c => if n.compressionSupported then [(Generated.startup_key_COMPRESSION, compressionName c)] else []
  | none => []

/-- The STARTUP options map (as a list of entries; the order on the wire is the `HashMap`'s).  Keys and advertised
values are the constants re-extracted from the source (`Generated.startup_*`). -/
def startupOptionsId (id : Identity) (n : Negotiated) (configured : Option Compression) : List (Bytes × Bytes) :=
  featureOptions n ++ [(Generated.startup_key_CQL_VERSION, Generated.startup_CQL_VERSION_value)] ++
  identityOptions id ++ compressionOption n configured

/-- With the default identity. -/
def startupOptions (n : Negotiated) (configured : Option Compression) : List (Bytes × Bytes) :=
  startupOptionsId {} n configured

/-- The compression actually used after STARTUP: the configured one if the server supports it, else none. -/
def effectiveCompression (n : Negotiated) (configured : Option Compression) : Option Compression :=
  match configured with
  | some c => if n.compressionSupported then some c else none
  | none => none

end ScyllaVerif.RequestGlue

import ScyllaVerif.Model.Carrier
/-
C17 — WHICH result metadata the rows of a RESULT::Rows response are type-checked and decoded against.
Core Lean only.

`rows::<R>()` / `TypedRowStream` run `R::type_check` against `DeserializedMetadataAndRawRows::metadata`; the row bytes
are laid out per the metadata the SERVER used.  The two agree only if the layer below the deserializers picks the
right metadata.  That layer:

* `parsePresence`        ← `RawMetadataAndRawRows::deserialize` (scylla-cql/src/frame/response/result.rs:810-829):
  flag 0x0004 = NO_METADATA, flag 0x0008 = METADATA_CHANGED, the latter honoured ONLY when the
  SCYLLA_USE_METADATA_ID extension was negotiated; both at once = `IdPresentForEmptyMetadata`.
* `deserializeMetadata`  ← `RawMetadataAndRawRows::deserialize_metadata` (result.rs:902-946): the three arms
  `Some(cached) if no_metadata` → `SharedCached(cached)`, `None if no_metadata` → `mock_empty()`,
  `Some(_) | None` → the metadata the response carries, parsed by `metadata_deserializer` (865-895: the id is read
  iff `metadata_changed`), `SelfBorrowed`.
* `skipMetadata` / `cachedMetadata` ← `Connection::calculate_cached_metadata_params` (scylla/src/network/connection.rs:
  974-1004): metadata is skipped (and the statement's current metadata handed to the parser as `cached_metadata`) iff
  the statement's current metadata has columns and (`use_cached_result_metadata` or the extension).
* `updateResultMetadata` ← `Connection::handle_result_metadata_new_id` (connection.rs:937-972): the statement's current
  metadata is replaced by the response's iff that has an id and (the id differs, or the current one has no columns
  and the response's has).
* `pagesInForce` ← the per-page loop of the pager's worker (one EXECUTE per page, `calculate_cached_metadata_params`
  on the statement's CURRENT metadata before, `handle_result_metadata_new_id` after each response).
-/
namespace ScyllaVerif.C17Meta
open ScyllaVerif.Cql ScyllaVerif.Carrier

abbrev Cols := List (String × CqlTy)

/-- `ResultMetadata`: the (optional) metadata id and the column specs (`col_count` = their number). -/
structure Meta where
  id : Option Nat
  cols : Cols
  deriving Repr, Inhabited

/-- `MetadataPresence` (result.rs). -/
inductive Presence where
  | noMetadata
  | metadataWithNewId
  | justMetadata
  deriving Repr, DecidableEq, Inhabited

/-- result.rs:815-829.  `none` = `IdPresentForEmptyMetadata`. -/
def presenceOf (noMetadata metadataChanged : Bool) : Option Presence :=
  match noMetadata, metadataChanged with
  | true, true => none
  | true, false => some .noMetadata
  | false, true => some .metadataWithNewId
  | false, false => some .justMetadata

def parsePresence (ext : Bool) (flags : Nat) : Option Presence :=
  presenceOf (flags &&& 0x0004 != 0) (ext && (flags &&& 0x0008 != 0))

/-- `ResultMetadataHolder` (plus `mock_empty()`, which is a `SelfBorrowed` of nothing). -/
inductive Holder where
  | sharedCached (m : Meta)
  | mockEmpty
  | selfBorrowed (m : Meta)
  deriving Repr, Inhabited

/-- `ResultMetadataHolder::inner()`. -/
def Holder.inner : Holder → Meta
  | .sharedCached m => m
  | .mockEmpty => ⟨none, []⟩
  | .selfBorrowed m => m

/-- What the response carries behind the flags when it is not NO_METADATA: `[new id]` (present on the wire iff the
flag is set AND honoured) and the column specs. -/
structure Sent where
  newId : Nat
  cols : Cols
  deriving Repr, Inhabited

/-- result.rs:865-895 `metadata_deserializer`: the id is read iff `metadata_changed`. -/
def parseSent (p : Presence) (s : Sent) : Meta :=
  ⟨if p = .metadataWithNewId then some s.newId else none, s.cols⟩

/-- result.rs:902-946, arm by arm. -/
def deserializeMetadata (cached : Option Meta) (p : Presence) (s : Sent) : Holder :=
  match cached, p with
  | some c, .noMetadata => .sharedCached c
  | none, .noMetadata => .mockEmpty
  | _, p => .selfBorrowed (parseSent p s)

/-- The column specs `rows_iter::<R>()` type-checks `R` against and decodes the rows with (result.rs:437-450:
`self.metadata.inner().col_specs()`). -/
def colsInForce (cached : Option Meta) (p : Presence) (s : Sent) : Cols :=
  (deserializeMetadata cached p s).inner.cols

/-- The layout of the row bytes: the server encodes the cells per the metadata it SENDS; when it sends none it was
asked to skip it and encodes per the metadata the client holds (the prepared statement's). -/
def layoutCols (cached : Option Meta) (p : Presence) (s : Sent) : Cols :=
  match p, cached with
  | .noMetadata, some c => c.cols
  | .noMetadata, none => []
  | _, _ => s.cols

/-- connection.rs:982-997. -/
def skipMetadata (useCached ext : Bool) (stmt : Meta) : Bool :=
  if stmt.cols.length == 0 then false else useCached || ext

/-- connection.rs:1004 `skip_metadata.then_some(statement_metadata)`. -/
def cachedMetadata (useCached ext : Bool) (stmt : Meta) : Option Meta :=
  if skipMetadata useCached ext stmt then some stmt else none

/-- connection.rs:937-972 `handle_result_metadata_new_id` with the metadata IN FORCE for the response. -/
def updateResultMetadata (stmt resp : Meta) : Meta :=
  match resp.id with
  | none => stmt
  | some _ =>
    let updatedId := !(resp.id == stmt.id)
    let sameIdButNonEmpty := !updatedId && stmt.cols.length == 0 && resp.cols.length != 0
    if updatedId || sameIdButNonEmpty then resp else stmt

/-- One page of a scripted server: the flags it sets and what it sends behind them. -/
structure PageResp where
  flags : Nat
  sent : Sent
  deriving Repr, Inhabited

/-- The pager's loop over the pages: per page the cached metadata handed to the parser (from the statement's
CURRENT metadata), the metadata in force for that page, the statement's metadata afterwards.
`none` = a page whose flags are refused (`IdPresentForEmptyMetadata`). -/
def pagesInForce (useCached ext : Bool) : Meta → List PageResp → Option (List Cols)
  | _, [] => some []
  | stmt, r :: rs =>
    match parsePresence ext r.flags with
    | none => none
    | some p =>
      match pagesInForce useCached ext
          (updateResultMetadata stmt (deserializeMetadata (cachedMetadata useCached ext stmt) p r.sent).inner) rs with
      | none => none
      | some cs => some ((deserializeMetadata (cachedMetadata useCached ext stmt) p r.sent).inner.cols :: cs)

end ScyllaVerif.C17Meta

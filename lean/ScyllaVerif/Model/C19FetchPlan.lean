/-
C19: which fetch a server event schedules, and which fetches may run side by side - the scheduling half of
`MetadataWorker::work_on_cc` (scylla/src/cluster/metadata/worker.rs).

* `Plan`          ← `FetchPlan` (118-170): `Full`, or `Partial { client_routes: Option<_>, topology: bool }`
                    (`note_full_needed` 139-141, `note_client_routes` 147-155, `note_topology` 161-166, `empty` 169-174).
                    The accumulated (connection id, host id) pairs of a client-routes request are abstracted to "owed".
* `Pending`       ← `PendingFetches` (236-250): a full fetch with nothing beside it, or one slot per partial fetch type.
                    A fetch in flight is identified by the logical time it was started at.
* `serverEvent`   ← `handle_server_event` (759-842): SCHEMA_CHANGE schedules nothing; TOPOLOGY_CHANGE a partial topology
                    fetch; STATUS_CHANGE sends the UP / DOWN hint and ALSO schedules a partial topology fetch (a restarted
                    node may have a new address); CLIENT_ROUTES_CHANGE a partial client-routes fetch.
* `refreshRequest`← the `refresh_channel` branch (700-704): `plan.note_full_needed()`.
* `deadline`      ← the periodic refresh deadline passes.
* `startDue`      ← `start_due_fetches` (261-316), the loop top: a due full fetch (owed, or deadline passed) starts unless
                    one is running - DROPPING the plan's partial work and every running partial fetch; otherwise each
                    partial fetch type starts if it is owed and its slot is free - never while a full fetch runs.
* `fullDone ok` / `topoDone ok` / `routesDone ok`
                  ← the `fetch_outcome` arms (647-690): a successful fetch is published (`merged` log: kind and start
                    time); a failed partial fetch schedules a full one (`note_full_needed`); a failed full fetch gives the
                    control connection up (`gaveUp`; the worker leaves this loop).
-/
namespace ScyllaVerif.C19FetchPlan

inductive Plan where
  | full
  | part (clientRoutes : Bool) (topology : Bool)
  deriving DecidableEq, Repr

def Plan.empty : Plan := .part false false

def Plan.noteFull (_ : Plan) : Plan := .full

def Plan.noteClientRoutes : Plan → Plan
  | .part _ t => .part true t
  | .full => .full

def Plan.noteTopology : Plan → Plan
  | .part c _ => .part c true
  | .full => .full

inductive Pending where
  | full (startedAt : Nat)
  | part (clientRoutes : Option Nat) (topology : Option Nat)
  deriving DecidableEq, Repr

inductive SrvEvent where
  | schemaChange
  | topologyChange
  | statusUp (addr : Nat)
  | statusDown (addr : Nat)
  | clientRoutesChange
  deriving DecidableEq, Repr

inductive Kind where
  | full | topology | clientRoutes
  deriving DecidableEq, Repr

structure Sched where
  plan : Plan := Plan.empty
  pending : Pending := .part none none
  deadlinePassed : Bool := false
  /-- logical clock: ticks at every fetch start and every fetch completion. -/
  clock : Nat := 1
  /-- completion time of the last full fetch that completed (0 = none yet). -/
  lastFullDone : Nat := 0
  /-- start time of the last full fetch started (0 = none yet). -/
  lastFullStart : Nat := 0
  /-- status hints sent to the cluster worker: (address, is-UP). -/
  hints : List (Nat × Bool) := []
  /-- results published, oldest first: kind, start time of the fetch, completion time. -/
  merged : List (Kind × Nat × Nat) := []
  gaveUp : Bool := false
  deriving Repr

inductive Ev where
  | serverEvent (e : SrvEvent)
  | refreshRequest
  | deadline
  | startDue
  | fullDone (ok : Bool)
  | topoDone (ok : Bool)
  | routesDone (ok : Bool)
  deriving DecidableEq, Repr

def handleServerEvent (s : Sched) : SrvEvent → Sched
  | .schemaChange => s
  | .topologyChange => { s with plan := s.plan.noteTopology }
  | .statusUp a => { s with hints := s.hints ++ [(a, true)], plan := s.plan.noteTopology }
  | .statusDown a => { s with hints := s.hints ++ [(a, false)], plan := s.plan.noteTopology }
  | .clientRoutesChange => { s with plan := s.plan.noteClientRoutes }

def isFullPending : Pending → Bool
  | .full _ => true
  | _ => false

def startDue (s : Sched) : Sched :=
  if !isFullPending s.pending && (s.plan == .full || s.deadlinePassed) then
    { s with plan := Plan.empty, deadlinePassed := false, pending := .full s.clock, lastFullStart := s.clock,
             clock := s.clock + 1 }
  else
    match s.pending, s.plan with
    | .part cr topo, .part ownCr ownTopo =>
      let (cr', ownCr', c1) := if cr.isNone && ownCr then (some s.clock, false, s.clock + 1) else (cr, ownCr, s.clock)
      let (topo', ownTopo', c2) := if topo.isNone && ownTopo then (some c1, false, c1 + 1) else (topo, ownTopo, c1)
      { s with pending := .part cr' topo', plan := .part ownCr' ownTopo', clock := c2 }
    | _, _ => s

def step (s : Sched) : Ev → Sched
  | .serverEvent e => if s.gaveUp then s else handleServerEvent s e
  | .refreshRequest => if s.gaveUp || isFullPending s.pending then s else { s with plan := s.plan.noteFull }
  | .deadline => if s.gaveUp then s else { s with deadlinePassed := true }
  | .startDue => if s.gaveUp then s else startDue s
  | .fullDone ok =>
    if s.gaveUp then s else
    match s.pending with
    | .full t =>
      if ok then { s with pending := .part none none, merged := s.merged ++ [(.full, t, s.clock)],
                          lastFullDone := s.clock, clock := s.clock + 1 }
      else { s with pending := .part none none, gaveUp := true }
    | _ => s
  | .topoDone ok =>
    if s.gaveUp then s else
    match s.pending with
    | .part cr (some t) =>
      if ok then { s with pending := .part cr none, merged := s.merged ++ [(.topology, t, s.clock)], clock := s.clock + 1 }
      else { s with pending := .part cr none, plan := s.plan.noteFull }
    | _ => s
  | .routesDone ok =>
    if s.gaveUp then s else
    match s.pending with
    | .part (some t) topo =>
      if ok then { s with pending := .part none topo, merged := s.merged ++ [(.clientRoutes, t, s.clock)], clock := s.clock + 1 }
      else { s with pending := .part none topo, plan := s.plan.noteFull }
    | _ => s

def run (s : Sched) (evs : List Ev) : Sched := evs.foldl step s

end ScyllaVerif.C19FetchPlan

/-
C01: the arithmetic of the conversions between the external-crate carriers and the core CQL carriers
(`scylla-cql-core/src/value.rs:738-1025`).  An external value is represented by what its public accessors
return (the harness builds it from exactly those components with the external crate's own constructors):

  time 0.3   `Date`            ↔ `CqlDate`       Julian day number                     (926-960)
  time 0.3   `Time`            ↔ `CqlTime`       (hour, minute, second, nanosecond)    (998-1025)
  time 0.3   `OffsetDateTime`  ↔ `CqlTimestamp`  (unix seconds (floor), nanosecond of the second)   (962-996)
  chrono 0.4 `NaiveDate`       ↔ `CqlDate`       days since 1970-01-01                 (741-760)
  chrono 0.4 `NaiveTime`       ↔ `CqlTime`       (seconds from midnight, nanosecond fraction — up to 1 999 999 999 in a leap second) (892-924)
  chrono 0.4 `DateTime<Utc>`   ↔ `CqlTimestamp`  (unix seconds (floor), sub-second milliseconds)   (876-890)

Integers are unbounded here; the Rust code's static assertions / `try_into` guards are the range hypotheses
of the theorems (`Props/C01.lean`, section "external carriers").  Import-free.
-/
namespace ScyllaVerif.ExternalConv

/-- Julian day of 1970-01-01. -/
def unixEpochJulianDay : Int := 2440588
/-- `JULIAN_DAY_OFFSET = (1 << 31) - UNIX_EPOCH.to_julian_day()`. -/
def julianDayOffset : Int := 2 ^ 31 - unixEpochJulianDay
/-- `time::Date::MIN` / `MAX` (years -9999 ..= 9999) as Julian days. -/
def timeDateMinJd : Int := -1930999
def timeDateMaxJd : Int := 5373484

/-- `From<time::Date> for CqlDate`: `value.to_julian_day() as i64 + JULIAN_DAY_OFFSET` as `u32`. -/
def timeDateToCql (jd : Int) : Int := jd + julianDayOffset
/-- `TryInto<time::Date> for CqlDate`: `(self.0 as i64 - OFFSET).try_into::<i32>()`, `from_julian_day` (range). -/
def cqlToTimeDate (days : Int) : Option Int :=
  let jd := days - julianDayOffset
  if timeDateMinJd ≤ jd ∧ jd ≤ timeDateMaxJd then some jd else none

/-- `From<time::Time> for CqlTime`. -/
def timeTimeToCql (h m s n : Int) : Int := (h * 3600 + m * 60 + s) * 1000000000 + n
/-- `TryInto<time::Time> for CqlTime`: `h.try_into::<u8>()`, `m as u8`, `s as u8`, `n as u32`, `from_hms_nano`
(which demands h < 24, m < 60, s < 60, n < 10⁹).  Rust `/` and `%` on `i64` truncate toward zero. -/
def cqlToTimeTime (x : Int) : Option (Int × Int × Int × Int) :=
  let h := Int.tdiv x 3600000000000
  let m := Int.tmod (Int.tdiv x 60000000000) 60
  let s := Int.tmod (Int.tdiv x 1000000000) 60
  let n := Int.tmod x 1000000000
  -- `m as u8`, `s as u8`, `n as u32` wrap; `from_hms_nano` then rejects what is out of range
  let m8 := m % 256
  let s8 := s % 256
  let n32 := n % 4294967296
  if 0 ≤ h ∧ h < 24 ∧ m8 < 60 ∧ s8 < 60 ∧ n32 < 1000000000 then some (h, m8, s8, n32) else none

/-- `From<time::OffsetDateTime> for CqlTimestamp`: `unix_timestamp() * 1000 + millisecond()`. -/
def timeOdtToCql (secs nanos : Int) : Int := secs * 1000 + nanos / 1000000
/-- `TryInto<time::OffsetDateTime> for CqlTimestamp`: `from_unix_timestamp_nanos(ms * 1_000_000)`;
components of the result (floor seconds, nanosecond of the second); the crate's range is years ±9999. -/
def cqlToTimeOdt (ms : Int) : Option (Int × Int) :=
  let secs := ms / 1000
  if (timeDateMinJd - unixEpochJulianDay) * 86400 ≤ secs ∧ secs < (timeDateMaxJd - unixEpochJulianDay + 1) * 86400 then
    some (secs, (ms % 1000) * 1000000)
  else none

/-- `From<chrono::NaiveDate> for CqlDate`: `(1 << 31) + signed_duration_since(epoch).num_days()`. -/
def chronoDateToCql (daysSinceEpoch : Int) : Int := 2 ^ 31 + daysSinceEpoch

/-- `TryFrom<chrono::NaiveTime> for CqlTime`: nanoseconds since midnight, rejected in a leap second. -/
def chronoTimeToCql (secs frac : Int) : Option Int :=
  let nanos := secs * 1000000000 + frac
  if nanos ≤ 86399999999999 then some nanos else none
/-- `TryInto<chrono::NaiveTime> for CqlTime`: `(x / 10⁹).try_into::<u32>()`, `(x % 10⁹).try_into::<u32>()`,
`from_num_seconds_from_midnight_opt` (secs < 86400, frac < 2·10⁹). -/
def cqlToChronoTime (x : Int) : Option (Int × Int) :=
  let secs := Int.tdiv x 1000000000
  let frac := Int.tmod x 1000000000
  if 0 ≤ secs ∧ secs < 86400 ∧ 0 ≤ frac then some (secs, frac) else none

/-- `From<chrono::DateTime<Utc>> for CqlTimestamp`: `timestamp_millis()`. -/
def chronoDtToCql (secs millis : Int) : Int := secs * 1000 + millis
/-- chrono's `DateTime<Utc>` range in milliseconds (`MIN_UTC` / `MAX_UTC`; checked by `conv bounds`). -/
def chronoDtMinMs : Int := -8334601228800000
def chronoDtMaxMs : Int := 8210266876799999

/-- `TryInto<chrono::DateTime<Utc>> for CqlTimestamp`: `timestamp_millis_opt` (floor seconds, sub-second
millis), `ValueOverflow` outside chrono's range. -/
def cqlToChronoDt (ms : Int) : Option (Int × Int) :=
  if chronoDtMinMs ≤ ms ∧ ms ≤ chronoDtMaxMs then some (ms / 1000, ms % 1000) else none

/-- `SerializeValue for bigdecimal::BigDecimal` (`serialize/value.rs:142-155`): the `i64` exponent must fit the
protocol's 4-byte scale, else `ValueOverflow`. -/
def bigDecimalScale (scale : Int) : Option Int :=
  if -(2 ^ 31) ≤ scale ∧ scale < 2 ^ 31 then some scale else none

/-! ### the external carriers' own `DeserializeValue` code (`deserialize/value.rs:606-756`)

`chrono::NaiveDate` (`try_days` + `checked_add_signed` from 1970-01-01), `time::Date` (`checked_add` from
1970-01-01), `chrono::DateTime<Utc>` (`timestamp_millis_opt`), `time::OffsetDateTime`
(`from_unix_timestamp_nanos`) do not go through the `TryInto` impls above; `chrono::NaiveTime` and `time::Time`
first apply the column's range check (`get_nanos_from_time_column`) and then do.  Ranges of the external
types (checked against the crates' own constants by the `conv bounds` case on every run; `time` built without
its `large-dates` feature — with it the `time` range is ±999999 years): -/

def chronoDateMinDays : Int := -96465292
def chronoDateMaxDays : Int := 95026236
/-- `NaiveDate::deserialize`: days since the epoch, `ValueOverflow` outside chrono's range. -/
def deChronoDate (days : Int) : Option Int :=
  let d := days - 2 ^ 31
  if chronoDateMinDays ≤ d ∧ d ≤ chronoDateMaxDays then some d else none

/-- `time::Date::deserialize`: 1970-01-01 plus the day offset, `ValueOverflow` outside the crate's range —
the same function of the Julian day as `cqlToTimeDate`. -/
def deTimeDate (days : Int) : Option Int := cqlToTimeDate days

/-- `DateTime<Utc>::deserialize` (same arithmetic as `cqlToChronoDt`). -/
def deChronoDt (ms : Int) : Option (Int × Int) := cqlToChronoDt ms

/-- `OffsetDateTime::deserialize` (same arithmetic as `cqlToTimeOdt`). -/
def deTimeOdt (ms : Int) : Option (Int × Int) := cqlToTimeOdt ms

/-- `NaiveTime::deserialize` / `time::Time::deserialize`: the column's range check, then the `TryInto`. -/
def deChronoTime (x : Int) : Option (Int × Int) :=
  if 0 ≤ x ∧ x ≤ 86399999999999 then cqlToChronoTime x else none
def deTimeTime (x : Int) : Option (Int × Int × Int × Int) :=
  if 0 ≤ x ∧ x ≤ 86399999999999 then cqlToTimeTime x else none

end ScyllaVerif.ExternalConv

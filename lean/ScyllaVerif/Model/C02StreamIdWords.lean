import ScyllaVerif.Model.StreamMap
/-!
C02 — the machine-word layer of `StreamIdSet` (`connection.rs:2434-2463`) and the bare bitmap as a transition system.

`Model/StreamMap.lean` states `allocate` / `free` over `Nat`. The Rust works on an `i16` stream id:

```
fn free(&mut self, stream_id: i16) {
    let block_id = stream_id as usize / 64;      // `as usize` of an i16 SIGN-EXTENDS
    let off = stream_id as usize % 64;
    self.used_bitmap[block_id] &= !(1 << off);   // indexing panics outside the 512 blocks
}
… let stream_id = off as i16 + block_id as i16 * 64;      // in `allocate`
```

Here the casts are explicit (`asUsize`, `wrapI16`), so that "the block index is computed in a type that holds it" is a
statement about the model (`Props.C02.free_word_level`, `allocate_id_fits_i16`), and the seeded change C02-9 (block
index narrowed to `u8`: every id ≥ 16384 releases the bit of id − 16384) is a different function (`freeNarrow`, kept
only as the counterexample of `Props.C02.narrow_block_index_frees_another_id`).
-/
namespace ScyllaVerif.C02StreamIdWords
open ScyllaVerif.StreamMap

/-- `x as usize` for an `i16` value `x` (given as an `Int` in `-32768..32767`) on a 64-bit target: sign extension. -/
def asUsize (x : Int) : Nat := if x < 0 then 2 ^ 64 - x.natAbs else x.toNat

/-- `x as i16` for a non-negative `usize`/`u32` value, and the result of a wrapping `i16` operation. -/
def wrapI16 (x : Int) : Int :=
  let m := x % 65536
  if m ≥ 32768 then m - 65536 else m

/-- `StreamIdSet::free` on the `i16` it is handed. `none` = the slice index panics (nothing is written). -/
def freeI16 (s : StreamIdSet) (id : Int) : Option StreamIdSet :=
  let u := asUsize id
  let blockId := u / 64
  let off := u % 64
  if blockId < s.blocks.length then
    some ⟨s.blocks.modify blockId (fun b => b &&& ~~~(1#64 <<< off))⟩
  else none

/-- The stream id `allocate` computes from the block and the bit it found: `off as i16 + block_id as i16 * 64`
(wrapping at every step, as a release build does). -/
def idOfBlockBit (off blockId : Nat) : Int :=
  wrapI16 (wrapI16 off + wrapI16 (wrapI16 blockId * 64))

/-- `StreamIdSet::allocate` with the `i16` it returns (`allocateGo` finds block and bit; the id it reports as a `Nat`
is `off + blockId * 64` with `off < 64`). -/
def allocateI16 (s : StreamIdSet) : Option (Int × StreamIdSet) :=
  match s.allocate with
  | none => none
  | some (id, s') => some (idOfBlockBit (id % 64) (id / 64), s')

/-- The seeded variant C02-9: bit and block by mask / shift, the block index narrowed to `u8`. NOT the code. -/
def freeNarrow (s : StreamIdSet) (id : Nat) : StreamIdSet :=
  ⟨s.blocks.modify ((id / 64) % 256) (fun b => b &&& ~~~(1#64 <<< (id % 64)))⟩

/-! ### the bare bitmap as a transition system -/

inductive IdOp where
  | alloc
  | free (id : Int)       -- any `i16`

/-- State plus what the operation returned: `some id` for a successful `allocate`. A panicking `free` leaves the
bitmap as it was. -/
def idStep (s : StreamIdSet) : IdOp → StreamIdSet × Option Int
  | .alloc =>
    match allocateI16 s with
    | some (id, s') => (s', some id)
    | none => (s, none)
  | .free id =>
    match freeI16 s id with
    | some s' => (s', none)
    | none => (s, none)

def idRun (s : StreamIdSet) : List IdOp → StreamIdSet
  | [] => s
  | op :: rest => idRun (idStep s op).1 rest

/-- `allocate` until it fails (at most `fuel` times): the ids handed out, in order, and the full bitmap. -/
def drain : Nat → StreamIdSet → List Nat → List Nat × StreamIdSet
  | 0, s, acc => (acc.reverse, s)
  | fuel + 1, s, acc =>
    match s.allocate with
    | none => (acc.reverse, s)
    | some (id, s') => drain fuel s' (id :: acc)

def freeAll (s : StreamIdSet) : List Nat → StreamIdSet
  | [] => s
  | id :: rest => freeAll (s.free id) rest

end ScyllaVerif.C02StreamIdWords

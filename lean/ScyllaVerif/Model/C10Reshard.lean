/-
C10 (audit round 6, item 1): the refiller's book-keeping of connections across RESHARDS, ids only.
Import-free. Transcribes `scylla/src/network/connection_pool.rs`:
  * 1098-1123 `PoolRefiller::maybe_reshard`: same sharder → nothing; another sharder (the node reports another shard
    count, or sharded ↔ unsharded) → ALL previous connections are thrown away: `conns.clear()`,
    `conns.resize_with(shard_count, Vec::new)` (`shard_count` = `nr_shards`, 1 without a sharder),
    `excess_connections.clear()`. Nothing is carried over to the new buckets.
  * 1218-1272 `remove_connection`: the dead connection is looked up by POINTER first in the bucket of its own
    `shard_info.shard` (0 without shard info; "we might have resharded, so the bucket might not exist anymore":
    `shard_id < conns.len()`), then in `excess_connections`, else "was already removed". `swap_remove` is modelled as
    `erase` (the order inside a bucket is abstracted; membership is what is published).
  * `handle_ready_connection`: a new connection goes into the bucket of its shard or into `excess_connections`
    (the choice - bucket full, wrong shard - is the draw `toExcess`); a pointer is never added twice.
`sh c` = the shard in connection `c`'s `shard_info` (fixed for the life of the connection).
-/
namespace ScyllaVerif.C10Reshard

structure RPool where
  buckets : List (List Nat)
  excess : List Nat
  /-- `sharder`: `none` = unsharded node, `some n` = n shards -/
  sharder : Option Nat
  deriving Repr, DecidableEq

/-- `conns[j]`, empty when the bucket does not exist. -/
def getB (l : List (List Nat)) (j : Nat) : List Nat := (l[j]?).getD []

def modifyAt (f : List Nat → List Nat) : List (List Nat) → Nat → List (List Nat)
  | [], _ => []
  | b :: bs, 0 => f b :: bs
  | b :: bs, i + 1 => b :: modifyAt f bs i

/-- The connection sits in a bucket or in `excess_connections`. -/
def present (p : RPool) (c : Nat) : Prop := (∃ j, c ∈ getB p.buckets j) ∨ c ∈ p.excess

def presentB (p : RPool) (c : Nat) : Bool := p.buckets.any (·.contains c) || p.excess.contains c

/-- `remove_connection`. -/
def removeConn (sh : Nat → Nat) (p : RPool) (c : Nat) : RPool :=
  if sh c < p.buckets.length ∧ c ∈ getB p.buckets (sh c) then
    { p with buckets := modifyAt (·.erase c) p.buckets (sh c) }
  else if c ∈ p.excess then { p with excess := p.excess.erase c }
  else p

/-- `maybe_reshard`. -/
def reshard (p : RPool) (new : Option Nat) : RPool :=
  if p.sharder = new then p else ⟨List.replicate (new.getD 1) [], [], new⟩

/-- A freshly opened connection is taken in. -/
def addConn (sh : Nat → Nat) (p : RPool) (c : Nat) (toExcess : Bool) : RPool :=
  if presentB p c then p
  else if toExcess = false ∧ sh c < p.buckets.length then
    { p with buckets := modifyAt (c :: ·) p.buckets (sh c) }
  else { p with excess := c :: p.excess }

inductive Ev where
  | add (c : Nat) (toExcess : Bool)
  | die (c : Nat)
  | reshard (new : Option Nat)
  deriving Repr, DecidableEq

def step (sh : Nat → Nat) (p : RPool) : Ev → RPool
  | .add c e => addConn sh p c e
  | .die c => removeConn sh p c
  | .reshard n => reshard p n

def run (sh : Nat → Nat) (p : RPool) (evs : List Ev) : RPool := evs.foldl (step sh) p

/-- An unsharded, empty pool. -/
def init : RPool := ⟨[[]], [], none⟩

end ScyllaVerif.C10Reshard

/-
The resources around the connection model that are bounded in the code (C02; used by C10 too):

* the SUBMIT CHANNEL ← `mpsc::channel(1024)` (`Connection::new`; `RouterHandle::send_request` 136-175): `send()` first
  obtains one of the 1024 permits of tokio's semaphore, then pushes. With no permit free the caller parks
  (`Conn.sending`). A permit released by the writer's `recv()` is ASSIGNED to the oldest parked caller at once
  (tokio's batch semaphore is FIFO and hands released permits to its waiters before returning them to the pool);
  that caller pushes its task when it is polled next. `granted` = parked callers that hold an assigned permit.
* the ORPHAN AGES ← `OrphanageTracker` (`orphans: HashMap<i16, Instant>`, 2309-2347), `orphaner` (1766-1799):
  `old_orphans_count()` = stream ids orphaned for at least `OLD_AGE_ORPHAN_THRESHOLD` (1 s); on the orphaner's
  interval tick more than `OLD_ORPHAN_COUNT_THRESHOLD` (1024) of them end the router
  (`TooManyOrphanedStreamIds`). `Model/StreamMap.lean` keeps the orphan SET; the times need the clock and live here.

`Sched` = the connection plus these two pieces of state; `sstep` = the events of `Model/Conn.lean` issued the way the
code can issue them (a submission takes a slot or parks, the writer's receive frees a slot, …) plus time.
-/
import ScyllaVerif.Model.StreamMap
import ScyllaVerif.Model.Conn
import ScyllaVerif.Generated.Constants

namespace ScyllaVerif.ConnSched
open ScyllaVerif.StreamMap ScyllaVerif.Conn

/-- `mpsc::channel(1024)` in `Connection::new` — the value is re-extracted from the source on every run
(`tools/extract_tables.py`); `Props.C02.channel_capacity_is_1024` pins it and the hook's own channel to it. -/
def chanCap : Nat := ScyllaVerif.Generated.submitChannelCapacity
/-- `OLD_ORPHAN_COUNT_THRESHOLD` (extracted). -/
def orphanLimit : Nat := ScyllaVerif.Generated.oldOrphanCountThreshold
/-- `OLD_AGE_ORPHAN_THRESHOLD` in ms (extracted). -/
def orphanAge : Nat := ScyllaVerif.Generated.oldAgeOrphanThresholdMs

structure Sched where
  c : Conn
  granted : List Nat := []          -- parked callers that hold an assigned permit (they are in `c.sending`)
  clock : Nat := 0                  -- ms
  ages : List (Nat × Nat) := []     -- orphaned stream id ↦ when it was orphaned

def Sched.init : Sched := { c := Conn.init }

/-- `OrphanageTracker::insert` / `remove` seen from outside: an id that is orphaned now and was not before gets the
current time; an id that is no longer orphaned loses its entry; the others keep theirs. -/
def syncAges (orphans : List Nat) (ages : List (Nat × Nat)) (now : Nat) : List (Nat × Nat) :=
  orphans.map fun s =>
    match ages.find? (fun p => p.1 == s) with
    | some p => p
    | none => (s, now)

/-- `syncAges`, skipping the recomputation when the orphan set is what the ages already describe (the usual case;
`Proofs.ConnSched.syncAges_same`: the result is the same). -/
def agesFor (orphans : List Nat) (ages : List (Nat × Nat)) (now : Nat) : List (Nat × Nat) :=
  if orphans == ages.map (·.1) then ages else syncAges orphans ages now

/-- Install the connection's next state: ages follow the orphan set; a dead router holds no permits for anybody
(the channel is closed). -/
def stamp (s : Sched) (c' : Conn) : Sched :=
  { s with c := c', ages := agesFor c'.map.orphans s.ages s.clock,
           granted := if c'.broken then [] else s.granted }

/-- A released permit goes to the oldest parked caller that has none yet. -/
def grant1 (s : Sched) : Sched :=
  match s.c.sending.find? (fun r => !s.granted.contains r) with
  | some r => { s with granted := s.granted ++ [r] }
  | none => s

/-- `old_orphans_count()` = `by_orphaning_times.range(..(now - 1 s, i16::MAX)).count()`: the entries `(time, id)`
strictly below `(now - 1 s, 32767)` in the lexicographic order — orphaned more than a second ago, or exactly a
second ago on a stream id other than 32767. -/
def isOldOrphan (clock : Nat) (p : Nat × Nat) : Bool :=
  decide (p.2 + orphanAge < clock) || (decide (p.2 + orphanAge = clock) && decide (p.1 < 32767))

def oldOrphans (s : Sched) : Nat := (s.ages.filter (isOldOrphan s.clock)).length

inductive SEv where
  | submit                 -- a caller enters `send_request`: it takes a slot of the channel, or parks
  | poll (r : Nat)         -- request r's future is polled: a granted caller pushes (`enqueue`), any other looks
                           -- into its oneshot (`recv`)
  | cancel (r : Nat)       -- request r's future is dropped; an assigned permit goes to the next parked caller
  | writerOne              -- the writer receives one task (the slot is free again), allocates, writes
  | orphaner               -- the orphaner processes one notice
  | respond (i : Nat)
  | unsolicited (st : Nat)
  | break_ (k : BreakKind)
  | advance (dt : Nat)     -- time passes
  | orphanTick             -- the orphaner's interval tick
  deriving Repr, DecidableEq

def sstep (s : Sched) : SEv → Sched
  | .submit =>
    if s.c.queue.length + s.granted.length ≥ chanCap then stamp s (step s.c .submitFull)
    else stamp s (step s.c .submit)
  | .poll r =>
    if s.granted.contains r && !s.c.broken then
      stamp { s with granted := s.granted.filter (· != r) } (step s.c (.enqueue r))
    else stamp s (step s.c (.recv r))
  | .cancel r =>
    let had := s.granted.contains r
    let s1 := stamp { s with granted := s.granted.filter (· != r) } (step s.c (.cancel r))
    if had && !s1.c.broken then grant1 s1 else s1
  | .writerOne =>
    let c' := step s.c .writerTake
    let s1 := stamp s c'
    if c'.queue.length < s.c.queue.length && !c'.broken then grant1 s1 else s1
  | .orphaner => stamp s (step s.c .orphanerStep)
  | .respond i => stamp s (step s.c (.respond i))
  | .unsolicited st => stamp s (step s.c (.unsolicited st))
  | .break_ k => stamp s (step s.c (.break_ k))
  | .advance dt => { s with clock := s.clock + dt }
  | .orphanTick =>
    if s.c.broken then s
    else if oldOrphans s > orphanLimit then stamp s (step s.c (.break_ .tooManyOrphanedStreamIds))
    else s

def srun (s : Sched) (evs : List SEv) : Sched := evs.foldl sstep s

end ScyllaVerif.ConnSched

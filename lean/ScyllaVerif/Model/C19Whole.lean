import ScyllaVerif.Model.RefreshFlow
import ScyllaVerif.Model.ClusterConsumer
/-
C19: the two worker models composed - the request flow with its ghost clock (`RefreshFlow.Timed`) driving the consumer
model (`ClusterConsumer.consume`): the update the flow's `consumerTake` removes from the slot is the one `consume`
processes when `consumerFinish` publishes and answers. Ghost fields remember which FULL fetch (by its start time) the
slot's / the taken / the published metadata comes from.
-/
namespace ScyllaVerif.C19Whole
open ScyllaVerif.MetaUpdate ScyllaVerif.RefreshFlow ScyllaVerif.ClusterConsumer

structure Whole where
  t : Timed := {}
  cons : Consumer
  /-- the update `apply_metadata_update` is working on. -/
  taken : Option Update := none
  /-- start time of the newest full fetch whose metadata is in the slot / in the taken update / published. -/
  slotFull : Option Nat := none
  takenFull : Option Nat := none
  publishedFull : Option Nat := none
  deriving Repr

def wstep (w : Whole) (e : Ev) : Whole :=
  let f := w.t.flow
  let w' := { w with t := tstep w.t e }
  match e with
  | .fetchOk _ =>
    if !f.producerGone && f.fetching && !f.consumerGone then { w' with slotFull := some w.t.fetchStart } else w'
  | .consumerTake =>
    if !f.consumerGone && !f.busy then
      match f.slot with
      | some u => { w' with taken := some u, takenFull := w.slotFull, slotFull := none }
      | none => w'
    else w'
  | .consumerFinish =>
    if !f.consumerGone && f.busy then
      { w' with
        cons := (match w.taken with | some u => consume w.cons u | none => w.cons),
        taken := none,
        publishedFull := (match w.takenFull with | some a => some a | none => w.publishedFull),
        takenFull := none }
    else w'
  | _ => w'

/-- The metadata a `fetchOk` event hands over is identified by the start time of the fetch that produced it: along the
run, every `fetchOk m` has `m.stamp` = the start time of the fetch in flight. (Any event list can be stamped this way;
the stamp is ghost - the Rust `Metadata` has no such field - and no step of either model reads it.) -/
def WellStamped : Whole → List Ev → Prop
  | _, [] => True
  | w, e :: rest =>
    (match e with
     | .fetchOk m => m.stamp = w.t.fetchStart
     | _ => True) ∧ WellStamped (wstep w e) rest

/-- Stamps the `fetchOk` events of an event list as `WellStamped` wants them. -/
def restamp : Whole → List Ev → List Ev
  | _, [] => []
  | w, e :: rest =>
    let e' := match e with
      | .fetchOk m => .fetchOk { m with stamp := w.t.fetchStart }
      | e => e
    e' :: restamp (wstep w e') rest

def wrun (w : Whole) (evs : List Ev) : Whole := evs.foldl wstep w

def winit (sub : Bool) (t0 : Topo) : Whole := { cons := Consumer.start sub 0 t0 }

end ScyllaVerif.C19Whole

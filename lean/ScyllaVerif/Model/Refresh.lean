import ScyllaVerif.Model.Ring
import ScyllaVerif.Model.Replicas
/-
Model of metadata refreshes as far as replica placement is concerned (C04): which `Node` objects end up in the
ring handed to `ReplicaLocator::new` when a `ClusterState` is rebuilt from new metadata and the previous state.

* `KNode`            ← an entry of `ClusterState::known_nodes`: the `Node` (host id, datacenter, rack), its address
                       and whether it `is_enabled()` (has a pool / verification override).
* `MPeer`            ← a `Peer` of the new metadata plus the host filter's verdict for it.
* `pickNode`         ← the `match (is_enabled, known_nodes.get(&peer_host_id))` of `calculate_new_topology`
                       (`cluster/state.rs:291-331`), all four arms; `Node::inherit_with_ip_changed`
                       (`cluster/node.rs:191-211`) copies datacenter and rack from the OLD node.
* `newTopology`      ← `calculate_new_topology`: the new known nodes and the ring entries `(token, node)`.
* `CState.fresh`, `CState.refresh`, `CState.refreshTopology` ← `ClusterState::{new, new_updated,
                       new_with_updated_topology}` (`state.rs:172-269`) → `calculate_new_locator` (every keyspace
                       strategy is precomputed; the topology-only refresh keeps the previous keyspaces).
* `resolveKeyspaces` ← `resolve_metadata_keyspaces` (`state.rs:345-373`): per-keyspace fetch errors reuse the OLD keyspace.
-/
namespace ScyllaVerif.Refresh
open ScyllaVerif.Ring ScyllaVerif.Replicas

/-- An entry of `known_nodes`. -/
structure KNode where
  node : Node
  addr : Nat
  /-- `is_enabled()`: in production `pool.is_some()`; in hook-built states the verification override, which may
  differ from `pool` -/
  enabled : Bool
  /-- `pool.is_some()`: does the node object carry a connection pool -/
  pool : Bool
  deriving Repr, DecidableEq

/-- A peer of the new metadata; `accepted` is the host filter's verdict (`is_enabled` in the code). -/
structure MPeer where
  node : Node
  addr : Nat
  tokens : List Int
  accepted : Bool
  deriving Repr

/-- `known_nodes.get(&peer_host_id)`.  `known_nodes` is a `HashMap` filled by `new_known_nodes.insert(peer_host_id, ..)`
in peer order (`state.rs:333`): a later insert of the same host id REPLACES the earlier one, so the lookup finds the
node object of the LAST peer row with that id.  `known` is the list of all inserts in order (`newTopology`), hence
last match wins.  Nothing in front of `calculate_new_topology` removes repeated host ids (`validate_peers` only
refuses an empty list / all-empty tokens): `system.peers` is keyed by address, so one host id can be listed twice
(stale row after an address change, the local node also listed as a peer). -/
def lookupKnown (known : List KNode) (id : Nat) : Option KNode := known.reverse.find? (fun k => decide (k.node.id = id))
/-- The node object put into the ring for a peer: reused, re-created with the pool inherited, or new. -/
def pickNode (known : List KNode) (p : MPeer) : KNode :=
  match p.accepted, lookupKnown known p.node.id with
  | false, some k =>
    if !k.enabled && decide (k.node.dc = p.node.dc) && decide (k.node.rack = p.node.rack) && decide (k.addr = p.addr)
    then k                                            -- `Arc::clone(node)`
    else ⟨p.node, p.addr, false, false⟩                -- `Node::new_disabled(peer_endpoint)`: no pool
  | false, none => ⟨p.node, p.addr, false, false⟩
  | true, some k =>
    if k.enabled && decide (k.node.dc = p.node.dc) && decide (k.node.rack = p.node.rack) then
      if k.addr = p.addr then k                       -- `Arc::clone(node)`
      else ⟨⟨k.node.id, k.node.dc, k.node.rack⟩, p.addr, true, k.pool⟩   -- `inherit_with_ip_changed`: dc, rack, pool of the old node
    else ⟨p.node, p.addr, true, true⟩                  -- `Node::new(peer_endpoint, ..)`: a pool is created
  | true, none => ⟨p.node, p.addr, true, true⟩

/-- Which arm of the reuse `match` a peer takes, as observable from outside: the previous `Arc<Node>` itself
(`reused`), a new object that inherits the old one's pool and settings (`inherited`), or a new node (`fresh`). -/
inductive Arm where
  | reused
  | inherited
  | fresh
  deriving Repr, DecidableEq

/-- The arm taken by `pickNode` (same guards, same order). -/
def pickArm (known : List KNode) (p : MPeer) : Arm :=
  match p.accepted, lookupKnown known p.node.id with
  | false, some k =>
    if !k.enabled && decide (k.node.dc = p.node.dc) && decide (k.node.rack = p.node.rack) && decide (k.addr = p.addr)
    then .reused else .fresh
  | false, none => .fresh
  | true, some k =>
    if k.enabled && decide (k.node.dc = p.node.dc) && decide (k.node.rack = p.node.rack) then
      if k.addr = p.addr then .reused else .inherited
    else .fresh
  | true, none => .fresh

/-- `calculate_new_topology`: new known nodes (every `insert`, in metadata order — the map keeps the last per host id,
see `lookupKnown`) and ring entries, in metadata order.  Every peer row is matched against the OLD `known` only, so
two rows with one host id give two node objects, both in the ring. -/
def newTopology (known : List KNode) (peers : List MPeer) : List KNode × List (Int × Node) :=
  (peers.map (pickNode known),
   peers.flatMap (fun p => p.tokens.map (fun tk => (tokenNew tk, (pickNode known p).node))))

/-- `ClusterState::keyspaces` as far as placement reads it: keyspace name (`k<n>` ↔ `n`) → replication strategy.
A `HashMap`: an association list with distinct names. -/
abbrev Keyspaces := List (Nat × Strategy)

/-- `Metadata::keyspaces`: per keyspace name either its freshly fetched definition or a fetch error (`none`). -/
abbrev Fetched := List (Nat × Option Strategy)

/-- `resolve_metadata_keyspaces` (`state.rs:345-373`): a keyspace whose fetch failed keeps the PREVIOUS state's
definition; if there is none it is absent until the next refresh. -/
def resolveKeyspaces (fetched : Fetched) (old : Keyspaces) : Keyspaces :=
  fetched.filterMap (fun e =>
    match e.2 with
    | some s => some (e.1, s)
    | none => (old.lookup e.1).map (fun s => (e.1, s)))

/-- The strategies handed to `ReplicaLocator::new` for precomputation (`calculate_new_locator`). -/
def strategiesOf (ks : Keyspaces) : List Strategy := ks.map (·.2)

/-- The parts of `ClusterState` that replica placement depends on. -/
structure CState where
  known : List KNode
  keyspaces : Keyspaces
  loc : Locator
  deriving Repr

/-- `ClusterState::new(metadata, ..)`: keyspaces resolved against an empty previous map. -/
def CState.fresh (peers : List MPeer) (fetched : Fetched) : CState :=
  let t := newTopology [] peers
  let ks := resolveKeyspaces fetched []
  ⟨t.1, ks, mkLocator t.2 (strategiesOf ks)⟩

/-- `previous.new_updated(metadata, ..)`: new topology; keyspaces resolved against the previous state's. -/
def CState.refresh (st : CState) (peers : List MPeer) (fetched : Fetched) : CState :=
  let t := newTopology st.known peers
  let ks := resolveKeyspaces fetched st.keyspaces
  ⟨t.1, ks, mkLocator t.2 (strategiesOf ks)⟩

/-- `previous.new_with_updated_topology(peers, ..)`: new topology, keyspaces of the previous state. -/
def CState.refreshTopology (st : CState) (peers : List MPeer) : CState :=
  let t := newTopology st.known peers
  ⟨t.1, st.keyspaces, mkLocator t.2 (strategiesOf st.keyspaces)⟩

/-- What happens to the known nodes between refreshes as far as `calculate_new_topology` can see: only
`is_enabled()` changes (pools open and close; the verification hook overrides it). -/
def CState.setEnabled (st : CState) (ids : List Nat) : CState :=
  { st with known := st.known.map (fun k => { k with enabled := decide (k.node.id ∈ ids) }) }

/-- One event of a history: a full metadata refresh, a topology-only refresh, a change of enabled-ness. -/
inductive Step where
  | full (peers : List MPeer) (fetched : Fetched)
  | topo (peers : List MPeer)
  | enable (ids : List Nat)
  deriving Repr

def CState.step (st : CState) : Step → CState
  | .full peers fetched => st.refresh peers fetched
  | .topo peers => st.refreshTopology peers
  | .enable ids => st.setEnabled ids

/-- Any history. -/
def CState.run (st : CState) (steps : List Step) : CState := steps.foldl CState.step st

/-- The metadata peers as a `Topology` (what a cluster built from scratch starts from). -/
def toTopology (peers : List MPeer) : Topology := peers.map (fun p => ⟨p.node, p.tokens⟩)

end ScyllaVerif.Refresh

import ScyllaVerif.Model.Codec
/-
Typed Rust carriers of CQL values, for C01's `carrier_factor` (C17 has its own, richer `Model/Carrier.lean`
with acceptance relations and failure prefixes; this one is the minimum needed to factor the typed
serializers through the dynamic one).  Core Lean only.

* `Carrier`  — the Rust types that implement `SerializeValue` in `scylla-cql-core/src/serialize/value.rs`
  (93-621, 847-930): integers, floats (bit patterns), `bool`, `String`/`&str`, `Vec<u8>`/`&[u8]`/`Bytes`,
  `IpAddr`, `Uuid`, `CqlTimeuuid`, `CqlDate`/`CqlTime`/`CqlTimestamp`/`CqlDuration`, `CqlVarint`,
  `CqlDecimal`, `Counter`, `Option<T>`, `MaybeUnset<T>`, `MaybeEmpty<T>`, `Vec<T>`/`[T]`,
  `HashSet<T>`/`BTreeSet<T>`, `HashMap<K,V>`/`BTreeMap<K,V>`, tuples, the dynamic `CqlValue`
  (`Box`/`Arc`/`&`/`Cow` are transparent).
* `RustVal`  — values of those types (sets / maps as the list their iterator yields).
* `wtVal c x` — `x` is a value of Rust type `c`.
* `embed c x` — the `CqlVal` (Model/Cql.lean) a carrier value denotes.
* `serCarrier` — a transcription of the *typed* impls: `exact_type_check!` + `set_value` for the scalars
  (`primView`), `Option::None ↦ set_null`, `Unset ↦ set_unset`, `MaybeEmpty` (emptiability is checked
  *before* the inner value), `Vec` → `serialize_sequence` / `serialize_vector`, the set types →
  `serialize_sequence` only (a vector type is `NotSetOrList`), maps → `serialize_mapping`, the tuple macro.
* `compat c t` — the (carrier, type) pairs on which the typed impl and the dynamic serializer of the
  embedding are the same function (everything except `MaybeEmpty` at a non-emptiable type and a set
  carrier at a vector type); `Props/C01.lean: carrier_factor`.
-/
namespace ScyllaVerif.TypedCarrier
open ScyllaVerif.Vint ScyllaVerif.Cql ScyllaVerif.Codec

inductive Carrier where
  | i8 | i16 | i32 | i64 | f32 | f64 | bool | string | blob | inet | uuid | timeuuid | date | time
  | timestamp | duration | varint | decimal | counter
  | opt (c : Carrier)
  | maybeUnset (c : Carrier)
  | maybeEmpty (c : Carrier)
  | vec (c : Carrier)
  | set (c : Carrier)
  | map (k v : Carrier)
  | tuple (cs : List Carrier)
  | dyn
  deriving Repr, Inhabited

inductive RustVal where
  | i8 (x : BitVec 8) | i16 (x : BitVec 16) | i32 (x : BitVec 32) | i64 (x : BitVec 64)
  | f32 (bits : BitVec 32) | f64 (bits : BitVec 64) | bool (b : Bool)
  | string (s : Bytes) | blob (b : Bytes) | inet4 (a : BitVec 32) | inet6 (a : BitVec 128)
  | uuid (x : BitVec 128) | timeuuid (x : BitVec 128) | date (x : BitVec 32) | time (x : BitVec 64)
  | timestamp (x : BitVec 64) | duration (months days : BitVec 32) (nanos : BitVec 64)
  | varint (b : Bytes) | decimal (scale : BitVec 32) (b : Bytes) | counter (x : BitVec 64)
  | none | some (x : RustVal)
  | unset | set (x : RustVal)
  | empty | value (x : RustVal)
  | seq (xs : List RustVal)
  | pairs (kvs : List (RustVal × RustVal))
  | tuple (xs : List RustVal)
  | dyn (v : CqlVal)
  deriving Repr, Inhabited

/-- The scalar carriers: the `CqlVal` a value denotes (`None` if `x` is not a value of scalar type `c`). -/
def embedPrim : Carrier → RustVal → Option CqlVal
  | .i8, .i8 x => some (.tinyint x)
  | .i16, .i16 x => some (.smallint x)
  | .i32, .i32 x => some (.int x)
  | .i64, .i64 x => some (.bigint x)
  | .f32, .f32 x => some (.float x)
  | .f64, .f64 x => some (.double x)
  | .bool, .bool b => some (.boolean b)
  | .string, .string s => some (.text s)
  | .blob, .blob b => some (.blob b)
  | .inet, .inet4 a => some (.inet4 a)
  | .inet, .inet6 a => some (.inet6 a)
  | .uuid, .uuid x => some (.uuid x)
  | .timeuuid, .timeuuid x => some (.timeuuid x)
  | .date, .date x => some (.date x)
  | .time, .time x => some (.time x)
  | .timestamp, .timestamp x => some (.timestamp x)
  | .duration, .duration m d n => some (.duration m d n)
  | .varint, .varint b => some (.varint b)
  | .decimal, .decimal s b => some (.decimal s b)
  | .counter, .counter x => some (.counter x)
  | _, _ => none

/-- The typed scalar impls (`value.rs:93-402`): natives accepted by `exact_type_check!`, the bytes handed
to `set_value` (or appended through a builder: `CqlDecimal`). -/
def primView : Carrier → RustVal → Option (List NativeTy × Bytes × Bool)
  | .i8, .i8 x => some ([.tinyint], beBytes 1 x.toNat, false)
  | .i16, .i16 x => some ([.smallint], beBytes 2 x.toNat, false)
  | .i32, .i32 x => some ([.int], beBytes 4 x.toNat, false)
  | .i64, .i64 x => some ([.bigint], beBytes 8 x.toNat, false)
  | .f32, .f32 x => some ([.float], beBytes 4 x.toNat, false)
  | .f64, .f64 x => some ([.double], beBytes 8 x.toNat, false)
  | .bool, .bool b => some ([.boolean], [if b then 1 else 0], false)
  | .string, .string s => some ([.ascii, .text], s, false)
  | .blob, .blob b => some ([.blob], b, false)
  | .inet, .inet4 a => some ([.inet], beBytes 4 a.toNat, false)
  | .inet, .inet6 a => some ([.inet], beBytes 16 a.toNat, false)
  | .uuid, .uuid x => some ([.uuid], beBytes 16 x.toNat, false)
  | .timeuuid, .timeuuid x => some ([.timeuuid], beBytes 16 x.toNat, false)
  | .date, .date x => some ([.date], beBytes 4 x.toNat, false)
  | .time, .time x => some ([.time], beBytes 8 x.toNat, false)
  | .timestamp, .timestamp x => some ([.timestamp], beBytes 8 x.toNat, false)
  | .duration, .duration m d n =>
    some ([.duration], vintEnc (m.signExtend 64) ++ vintEnc (d.signExtend 64) ++ vintEnc n, false)
  | .varint, .varint b => some ([.varint], b, false)
  | .decimal, .decimal s b => some ([.decimal], beBytes 4 s.toNat ++ b, true)
  | .counter, .counter x => some ([.counter], beBytes 8 x.toNat, false)
  | _, _ => none

mutual
/-- `x` is a value of Rust type `c`. -/
def wtVal : Carrier → RustVal → Bool
  | .opt c, x => match x with
    | .none => true
    | .some y => wtVal c y
    | _ => false
  | .maybeUnset c, x => match x with
    | .unset => true
    | .set y => wtVal c y
    | _ => false
  | .maybeEmpty c, x => match x with
    | .empty => true
    | .value y => wtVal c y
    | _ => false
  | .vec c, x => match x with
    | .seq xs => xs.all (fun y => wtVal c y)
    | _ => false
  | .set c, x => match x with
    | .seq xs => xs.all (fun y => wtVal c y)
    | _ => false
  | .map k v, x => match x with
    | .pairs kvs => kvs.all (fun kv => wtVal k kv.1 && wtVal v kv.2)
    | _ => false
  | .tuple cs, x => match x with
    | .tuple xs => wtTuple cs xs
    | _ => false
  | .dyn, x => match x with
    | .dyn _ => true
    | _ => false
  | c, x => (embedPrim c x).isSome
def wtTuple : List Carrier → List RustVal → Bool
  | [], [] => true
  | c :: cs, x :: xs => wtVal c x && wtTuple cs xs
  | _, _ => false
end

mutual
/-- The `CqlVal` a carrier value denotes. -/
def embed : Carrier → RustVal → CqlVal
  | .opt c, x => match x with
    | .some y => embed c y
    | _ => .null
  | .maybeUnset c, x => match x with
    | .set y => embed c y
    | _ => .unset
  | .maybeEmpty c, x => match x with
    | .value y => embed c y
    | _ => .empty
  | .vec c, x => match x with
    | .seq xs => .list (xs.map (fun y => embed c y))
    | _ => .null
  | .set c, x => match x with
    | .seq xs => .set (xs.map (fun y => embed c y))
    | _ => .null
  | .map k v, x => match x with
    | .pairs kvs => .map (kvs.map (fun kv => (embed k kv.1, embed v kv.2)))
    | _ => .null
  | .tuple cs, x => match x with
    | .tuple xs => .tuple (embedTuple cs xs)
    | _ => .null
  | .dyn, x => match x with
    | .dyn v => v
    | _ => .null
  | c, x => match embedPrim c x with
    | some v => v
    | none => .null
def embedTuple : List Carrier → List RustVal → List CqlVal
  | c :: cs, x :: xs => embed c x :: embedTuple cs xs
  | _, _ => []
end

/-- `serialize_sequence` with the element serializer `f`. -/
def seqImpl (f : RustVal → Bytes → Except SerErr Bytes) (xs : List RustVal) (ws : Bool) (buf : Bytes) :
    Except SerErr Bytes :=
  let start := buf.length
  let b0 := builderNew ws buf
  if xs.length > i32Max then .error .tooManyElements
  else
    match foldEnc f xs (b0 ++ be32 xs.length) with
    | .error e => .error e
    | .ok b => builderFinish ws start b

mutual
/-- The typed `SerializeValue::serialize` of carrier `c`. -/
def serCarrier : Carrier → CqlTy → RustVal → Bool → Bytes → Except SerErr Bytes
  | .opt c, t, x, ws, buf => match x with
    | .some y => serCarrier c t y ws buf
    | _ => .ok (setNull buf)
  | .maybeUnset c, t, x, ws, buf => match x with
    | .set y => serCarrier c t y ws buf
    | _ => .ok (setUnset buf)
  | .maybeEmpty c, t, x, ws, buf =>
    if !t.supportsEmpty then .error .notEmptyable
    else match x with
      | .value y => serCarrier c t y ws buf
      | _ => setValue ws [] buf
  | .vec c, t, x, ws, buf => match x with
    | .seq xs =>
      match t with
      | .list elt | .set elt => seqImpl (fun y b => serCarrier c elt y true b) xs ws buf
      | .vector elt dim =>
        if xs.length ≠ dim then .error .invalidNumberOfElements
        else
          let start := buf.length
          let b0 := builderNew ws buf
          match elt.sizeForVector with
          | some _ =>
            match foldEnc (fun y b => serCarrier c elt y false b) xs b0 with
            | .error e => .error e
            | .ok b => builderFinish ws start b
          | none =>
            match foldEnc (varElemImpl (fun y b => serCarrier c elt y false b)) xs b0 with
            | .error e => .error e
            | .ok b => builderFinish ws start b
      | _ => .error .notSetOrList
    | _ => .error .mismatchedType
  | .set c, t, x, ws, buf => match x with
    | .seq xs =>
      match t with
      | .list elt | .set elt => seqImpl (fun y b => serCarrier c elt y true b) xs ws buf
      | _ => .error .notSetOrList
    | _ => .error .mismatchedType
  | .map k v, t, x, ws, buf => match x with
    | .pairs kvs =>
      match t with
      | .map kt vt =>
        let start := buf.length
        let b0 := builderNew ws buf
        if kvs.length > i32Max then .error .tooManyElements
        else
          match foldEnc (pairImpl (fun y b => serCarrier k kt y true b) (fun y b => serCarrier v vt y true b)) kvs
              (b0 ++ be32 kvs.length) with
          | .error e => .error e
          | .ok b => builderFinish ws start b
      | _ => .error .notMap
    | _ => .error .mismatchedType
  | .tuple cs, t, x, ws, buf => match x with
    | .tuple xs =>
      match t with
      | .tuple ts =>
        -- `[t0, …, tn, ..]`: the CQL tuple may be longer than the Rust tuple, not shorter
        if ts.length < cs.length then .error .wrongElementCount
        else
          let start := buf.length
          match serTuple cs ts xs (builderNew ws buf) with
          | .error e => .error e
          | .ok b => builderFinish ws start b
      | _ => .error .notTuple
    | _ => .error .mismatchedType
  | .dyn, t, x, ws, buf => match x with
    | .dyn v => encImpl t v ws buf
    | _ => .error .mismatchedType
  | c, t, x, ws, buf =>
    match primView c x with
    | some (acc, body, viaB) => encScalarImpl acc body viaB t ws buf
    | none => .error .mismatchedType
def serTuple : List Carrier → List CqlTy → List RustVal → Bytes → Except SerErr Bytes
  | c :: cs, t :: ts, x :: xs, buf =>
    match serCarrier c t x true buf with
    | .error e => .error e
    | .ok b => serTuple cs ts xs b
  | _, _, _, buf => .ok buf
end

mutual
/-- (carrier, type) pairs on which the typed impl is the dynamic serializer of the embedding. -/
def compat : Carrier → CqlTy → Bool
  | .opt c, t => compat c t
  | .maybeUnset c, t => compat c t
  | .maybeEmpty c, t => t.supportsEmpty && compat c t
  | .vec c, t => match t with
    | .list e => compat c e
    | .set e => compat c e
    | .vector e _ => compat c e
    | _ => true
  | .set c, t => match t with
    | .list e => compat c e
    | .set e => compat c e
    | .vector _ _ => false
    | _ => true
  | .map k v, t => match t with
    | .map kt vt => compat k kt && compat v vt
    | _ => true
  | .tuple cs, t => match t with
    | .tuple ts => compatTuple cs ts
    | _ => true
  | _, _ => true
def compatTuple : List Carrier → List CqlTy → Bool
  | c :: cs, t :: ts => compat c t && compatTuple cs ts
  | _, _ => true
end

end ScyllaVerif.TypedCarrier

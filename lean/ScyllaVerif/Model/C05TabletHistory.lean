import ScyllaVerif.Model.Routing
/-
C05 on TABLET tables whose cluster state came out of a REFRESH HISTORY: the layer below the policy through which a
tablet's replica list reaches `DefaultPolicy::{pick, fallback}`.

* `HOp`, `hstep`, `hrun`   ← `ClusterState::new` / `new_updated` / `new_with_updated_topology` (`cluster/state.rs:172-270`, each
                             of which runs `calculate_new_topology` and then `perform_tablets_maintenance` →
                             `TabletsInfo::perform_maintenance`, `routing/locator/tablets.rs:608-672`) and
                             `ClusterState::update_tablets` (`state.rs:647-675`), interleaved in any order.  The steps
                             themselves are C15's model (`Model/TabletsRefresh.lean`: `refresh`, `learn`; `Model/Tablets.lean`:
                             `Info.maintenance` with its guard `!removed.is_empty() || !recreated.is_empty() || has_unknown_replicas`,
                             `Table.maintenance`, `updateStale`).
* `objCurrent`, `staleReps` — is the `Arc<Node>` a tablet holds the object registered in `known_nodes` (`Arc::ptr_eq`:
                             same host id, same allocation)?  A STALE object carries the datacenter, the rack, the
                             host-filter verdict (`pool.is_some()`) and the connection pool of the metadata that created it.
* `viewOf`                 ← the tablet branch of `ReplicaLocator::replicas_for_token` (`locator/mod.rs:111-124`) as the
                             policy consumes it (`ReplicaSetInner::PlainSharded`): the covering tablet's `all` list, or its
                             `per_dc` list of one datacenter, every `Arc<Node>` read through `known_nodes`.
-/
namespace ScyllaVerif.C05TabletHistory
open ScyllaVerif.Tablets ScyllaVerif.TabletsRefresh

/-- One step of a history of a cluster state. -/
inductive HOp where
  /-- a metadata refresh (`new` on the initial state, `new_updated`, `new_with_updated_topology`) to these peers -/
  | refresh (peers : List Peer)
  /-- `update_tablets`: one tablet of table `spec` arrives as tablet feedback -/
  | learn (spec : String × String) (first last : Int) (raw : List (Nat × Nat))

/-- `kss` = the keyspaces `(name, tablet_based, tables ++ views)` every refresh of the history sees. -/
def hstep (kss : List (String × Bool × List String)) (cs : CState) : HOp → CState
  | .refresh peers => refresh cs peers kss
  | .learn spec f l raw => (learn cs spec f l raw).1

def hrun (kss : List (String × Bool × List String)) (ops : List HOp) : CState := ops.foldl (hstep kss) CState.init

/-- The keyspaces of the differential run: `k0` is tablet based with table `t`, `k1 ..` are ring keyspaces. -/
def kssOf (nks : Nat) : List (String × Bool × List String) :=
  (List.range nks).map (fun i => (Routing.ksName i, i == 0, if i == 0 then ["t"] else []))

/-- `Arc::ptr_eq(known_nodes[replica.host_id], replica)`. -/
def objCurrent (known : Known) (r : Rep) : Bool :=
  match alGet r.1.hostId known with
  | some k => k.node == r.1
  | none => false

/-- Every replica object of every tablet of every table - in the `all` list or in the `per_dc` list of any datacenter
key - that is NOT the object of the current `known_nodes`. -/
def staleReps (cs : CState) : List Rep :=
  cs.info.tables.flatMap (fun e => e.2.tablets.flatMap (fun t =>
    (t.replicas.all ++ (t.replicas.perDc.map (·.1)).flatMap (dcReplicas t)).filter (fun r => !objCurrent cs.known r)))

/-- What the policy gets for a token of table `spec`: `replicas_for_token` / `dc_replicas_for_token` of the covering
tablet (`&[]` without one, or without an entry for the table), each replica as the known node `nodes` has for its host id. -/
def viewOf (cs : CState) (spec : String × String) (nodes : List Ring.Node) (tok : Option Int) (dc : Option Nat) :
    List Routing.SRep :=
  match tok, alGet spec cs.info.tables with
  | some t, some tbl =>
    ((match dc with
      | some d => dcReplicasForToken tbl.tablets t (Routing.dcName d)
      | none => replicasForToken tbl.tablets t).getD []).filterMap (Routing.resolve nodes)
  | _, _ => []

end ScyllaVerif.C05TabletHistory

import ScyllaVerif.Model.FrameHdr
/-
C08 — model of the connection reader's header dispatch, one layer above `read_response_frame`
(`scylla/src/network/connection.rs`): `Connection::reader` (:1621-1685), `ResponseHandlerMap::{allocate, lookup}`
(:2373-2425), `StreamIdSet::{new, allocate, free}` (:2438-2463).

The `stream` field of a response header is an arbitrary `i16` from the network.  The reader skips `stream < -1`,
treats `-1` as an event (no event sender here: skipped; with one, the body goes through the response decoders
modelled in `Model/FrameHdr.lean`) and hands EVERY non-negative one to `ResponseHandlerMap::lookup`, which first calls
`StreamIdSet::free(stream_id)`:

    let block_id = stream_id as usize / 64;  let off = stream_id as usize % 64;
    self.used_bitmap[block_id] &= !(1 << off);

a slice index, i.e. a PANIC when `block_id >= used_bitmap.len()`.  The model keeps that panic site; the bitmap length
is a field of the state (`words`), `StreamIdSet::new` makes it `(i16::MAX + 1) / 64 = 512`.  `stream_id as usize`
sign-extends, so a negative id would index far outside: the reader's `cmp(&-1)` test is what keeps those away.

Not modelled: the orphanage (no request is dropped in the cases that drive this; C02 models it), the writer and the
keep-aliver (C02 / C10).
-/
namespace ScyllaVerif.C08R
open ScyllaVerif ScyllaVerif.C08

/-- `StreamIdSet::new`: `const BITMAP_SIZE: usize = (i16::MAX as usize + 1) / 64`. -/
def BITMAP_WORDS : Nat := (32767 + 1) / 64

/-- `stream_id as usize` for an `i16` on a 64-bit target (sign extension). -/
def asUsize (s : Int) : Nat := if 0 ≤ s then s.toNat else 2 ^ 64 - (-s).toNat

/-- `ResponseHandlerMap`: the bitmap (its length in words and the set bits) and the waiting handlers
(stream id ↦ request id). -/
structure HMap where
  words : Nat
  used : List Nat
  waiting : List (Int × Nat)
  deriving Repr

def HMap.new : HMap := ⟨BITMAP_WORDS, [], []⟩

/-- lowest id in `from .. from + fuel` whose bit is clear -/
def firstFree (used : List Nat) : Nat → Nat → Option Nat
  | 0, _ => none
  | fuel + 1, i => if used.contains i then firstFree used fuel (i + 1) else some i

/-- `ResponseHandlerMap::allocate` over `StreamIdSet::allocate` (first clear bit, word by word). -/
def allocate (m : HMap) (req : Nat) : Option Int × HMap :=
  match firstFree m.used (m.words * 64) 0 with
  | none => (none, m)
  | some i => (some (i : Int), { m with used := i :: m.used, waiting := ((i : Int), req) :: m.waiting })

def allocateN (m : HMap) : Nat → Nat → HMap
  | 0, _ => m
  | k + 1, req => allocateN (allocate m req).2 k (req + 1)

/-- `StreamIdSet::free`: the slice index panics when the word is outside the bitmap. -/
def free (m : HMap) (s : Int) : Outcome HMap :=
  let blockId := asUsize s / 64
  if blockId ≥ m.words then .panic "StreamIdSet::free: used_bitmap index out of bounds"
  else .ok { m with used := m.used.filter (fun i => i ≠ asUsize s) }

inductive Look where
  | handler (req : Nat)
  | missing
  deriving Repr

/-- `ResponseHandlerMap::lookup` (empty orphanage): `free` first, then `handlers.remove`. -/
def lookup (m : HMap) (s : Int) : Outcome (Look × HMap) :=
  match free m s with
  | .panic k => .panic k
  | .err k => .err k
  | .ok m1 =>
    match m1.waiting.find? (fun p => p.1 = s) with
    | some p => .ok (.handler p.2, { m1 with waiting := m1.waiting.filter (fun q => q.1 ≠ s) })
    | none => .ok (.missing, m1)

/-- a response handed to a waiting request -/
structure Deliv where
  req : Nat
  stream : Int
  flags : Nat
  opcode : Nat
  body : Bytes
  deriving Repr

/-- how the reader ended: the kind of the error that broke the connection, what it delivered before, and the
handler map it left (every handler still in it is answered with that error by `Connection::router`) -/
structure ROut where
  broken : String
  delivered : List Deliv
  left : HMap
  deriving Repr

/-- What the reader does with one parsed header (event sender absent): `none` = go on with the next frame. -/
def dispatch (m : HMap) (h : Header) : Outcome (Option String × Option Deliv × HMap) :=
  if h.stream < -1 then .ok (none, none, m)
  else if h.stream = -1 then .ok (none, none, m)
  else
    match lookup m h.stream with
    | .panic k => .panic k
    | .err k => .err k
    | .ok (.handler r, m1) => .ok (none, some ⟨r, h.stream, h.flags, h.opcode, h.body⟩, m1)
    | .ok (.missing, m1) => .ok (some "UnexpectedStreamId", none, m1)

/-- `Connection::reader` over the bytes `bs` (then EOF).  `fuel`: one unit per frame; `.err "fuel"` when it runs out
(`reader_fuel_suffices`: never with `fuel > bs.length`). -/
def reader : Nat → Bytes → HMap → List Deliv → Outcome ROut
  | 0, _, _, _ => .err "fuel"
  | fuel + 1, bs, m, d =>
    match parseFrameP bs with
    | .panic k => .panic k
    | .err _ => .ok ⟨"FrameHeaderParseError", d.reverse, m⟩
    | .ok h =>
      match dispatch m h with
      | .panic k => .panic k
      | .err k => .err k
      | .ok (some label, _, m1) => .ok ⟨label, d.reverse, m1⟩
      | .ok (none, dl, m1) =>
        reader fuel (bs.drop (HEADER_SIZE + h.body.length)) m1 (match dl with | some x => x :: d | none => d)

/-- `n` requests in flight (stream ids `0 .. n-1`), then the bytes `bs` arrive and the peer closes. -/
def runReader (n : Nat) (bs : Bytes) : Outcome ROut :=
  reader (bs.length + 1) bs (allocateN HMap.new n 0) []

end ScyllaVerif.C08R

import ScyllaVerif.Model.WirePrim
import ScyllaVerif.Model.ReqParse
import ScyllaVerif.Generated.Constants
/-
Model of the request encoder of `scylla-cql` (C09).

* `addValue`, `mkSerVals`   ← `SerializedValues::add_value` (`scylla-cql-core/src/serialize/row.rs:594-615`) with
                               `CellWriter::set_null / set_unset / set_value` (`serialize/writers.rs:104-131`).
* `encodeParams`            ← `QueryParameters::serialize` (`frame/request/query.rs:120-176`).
* `encodeBody`              ← `SerializableRequest::serialize` of `Query` (`query.rs:49-56`), `Prepare`
                               (`prepare.rs:23-27`), `ExecuteV2` (`execute.rs:74-90`), `Batch::do_serialize`
                               (`batch.rs:63-159`) + `serialize_batch_statement` (`batch.rs:195-213`), `Startup`
                               (`startup.rs:27-31`), `RegisterV2` (`register.rs:45-56`), `AuthResponse`
                               (`auth_response.rs:21-25`), `Options` (`options.rs:14-16`).
* `compressAppend`, `decompress` ← `frame/mod.rs:273-297, 301-348` with the LZ4 / Snappy block codecs as parameters.
* `encodeReq`               ← `SerializedRequest::make` (`frame/mod.rs:70-99`).

All opcodes, flag bits and codes come from `Generated/Constants.lean` (re-extracted from the Rust source on every
run).  The *view* types (what a request says) are those of the independent parser `Model/ReqParse.lean`.
Strings are their UTF-8 bytes.  Import-free apart from the three model files.
-/
namespace ScyllaVerif.Request
open ScyllaVerif.Wire
open ScyllaVerif.ReqParse (Consistency SerialConsistency BatchType RawVal ParamsView BatchStmtView ReqView FrameView)

/-! ### enums → wire codes (`c as u16`, `self.batch_type as u8`, `R::OPCODE as u8`) -/

def consistencyCode : Consistency → Nat
  | .any => Generated.consistency_Any
  | .one => Generated.consistency_One
  | .two => Generated.consistency_Two
  | .three => Generated.consistency_Three
  | .quorum => Generated.consistency_Quorum
  | .all => Generated.consistency_All
  | .localQuorum => Generated.consistency_LocalQuorum
  | .eachQuorum => Generated.consistency_EachQuorum
  | .localOne => Generated.consistency_LocalOne
  | .serial => Generated.consistency_Serial
  | .localSerial => Generated.consistency_LocalSerial

def serialConsistencyCode : SerialConsistency → Nat
  | .serial => Generated.serialConsistency_Serial
  | .localSerial => Generated.serialConsistency_LocalSerial

def batchTypeCode : BatchType → Nat
  | .logged => Generated.batchType_Logged
  | .unlogged => Generated.batchType_Unlogged
  | .counter => Generated.batchType_Counter

/-- `EventTypeV2` (`server_event_type.rs`); `EventType` is its first three variants. -/
inductive EventType where
  | topologyChange | statusChange | schemaChange | clientRoutesChange
  deriving Repr, DecidableEq

/-- `impl Display for EventTypeV2`. -/
def eventName : EventType → Bytes
  | .topologyChange => Generated.eventTypeV2_TopologyChange
  | .statusChange => Generated.eventTypeV2_StatusChange
  | .schemaChange => Generated.eventTypeV2_SchemaChange
  | .clientRoutesChange => Generated.eventTypeV2_ClientRoutesChange

/-! ### requests -/

/-- `QueryParameters` (`query.rs:73-102`); `values` is the list handed to `SerializedValues::add_value` one by one;
`pagingState = none` is `PagingState::start()`. -/
structure Params where
  consistency : Consistency
  serialConsistency : Option SerialConsistency
  timestamp : Option Int64
  pageSize : Option Int32
  pagingState : Option Bytes
  skipMetadata : Bool
  values : List RawVal
  deriving Repr, DecidableEq

inductive BatchStmt where
  | query (text : Bytes)
  | prepared (id : Bytes)
  deriving Repr, DecidableEq

inductive Req where
  /-- `Startup.options` in the `HashMap`'s iteration order (arbitrary; an explicit argument). -/
  | startup (options : List (Bytes × Bytes))
  | options
  | query (text : Bytes) (params : Params)
  | prepare (text : Bytes)
  | execute (id : Bytes) (resultMetadataId : Option Bytes) (params : Params)
  | register (events : List EventType)
  /-- `values`: one value list per `SerializedValues` of `Batch.values` (its length need not match). -/
  | batch (type : BatchType) (statements : List BatchStmt) (values : List (List RawVal))
      (consistency : Consistency) (serialConsistency : Option SerialConsistency) (timestamp : Option Int64)
  | authResponse (response : Option Bytes)
  deriving Repr, DecidableEq

def opcode : Req → Nat
  | .startup _ => Generated.requestOpcode_Startup
  | .options => Generated.requestOpcode_Options
  | .query _ _ => Generated.requestOpcode_Query
  | .prepare _ => Generated.requestOpcode_Prepare
  | .execute _ _ _ => Generated.requestOpcode_Execute
  | .register _ => Generated.requestOpcode_Register
  | .batch _ _ _ _ _ _ => Generated.requestOpcode_Batch
  | .authResponse _ => Generated.requestOpcode_AuthResponse

/-! ### errors (kinds only) -/

inductive StmtErr where
  | statementString   -- BatchStatementSerializationError::StatementStringSerialization
  | statementId       -- ::StatementIdSerialization
  | tooManyValues     -- ::TooManyValues
  | values            -- ::ValuesSerialiation (a typed row refused by its `RowSerializationContext`, or a cell overflow)
  deriving Repr, DecidableEq

inductive Err where
  | valuesTooMany            -- SerializedValues::add_value: already u16::MAX values
  | valueTooBig              -- CellOverflowError: a value of 2^31 bytes or more
  | queryStatementString     -- QuerySerializationError::StatementStringSerialization
  | queryBadPagingState      -- QuerySerializationError::QueryParametersSerialization(BadPagingState)
  | prepareStatementString
  | executeStatementId
  | executeResultMetadataId
  | executeBadPagingState
  | batchTooManyStatements
  | batchMismatch (nValueLists nStatements : Nat)
  | batchStmt (idx : Nat) (e : StmtErr)
  | startupOptions
  | registerEventTypes
  | authResponse
  | snapCompress
  deriving Repr, DecidableEq

/-! ### `SerializedValues` -/

/-- `SerializedValues { serialized_values, element_count }`. -/
structure SerVals where
  bytes : Bytes
  count : Nat
  deriving Repr, DecidableEq

/-- One `[value]` as written by `CellWriter`: `set_null` / `set_unset` write the markers, `set_value` converts the
length with `i32::try_from` (`CellOverflowError` when it does not fit). -/
def encodeCell : RawVal → Option Bytes
  | .null => some (intBe32 Generated.valueLen_null)
  | .unset => some (intBe32 Generated.valueLen_unset)
  | .val b => if b.length < 2 ^ 31 then some (be32 b.length ++ b) else none

/-- Repeated `add_value` starting from `count` values: the bytes appended and the final count.
`add_value` first refuses when `element_count == u16::MAX`, then serializes. -/
def addValues (count : Nat) : List RawVal → Except Err SerVals
  | [] => .ok ⟨[], count⟩
  | v :: vs =>
    if count = 65535 then .error .valuesTooMany
    else
      match encodeCell v with
      | none => .error .valueTooBig
      | some c =>
        match addValues (count + 1) vs with
        | .error e => .error e
        | .ok sv => .ok ⟨c ++ sv.bytes, sv.count⟩

/-- `SerializedValues::new()` followed by `add_value` for each element. -/
def mkSerVals (vs : List RawVal) : Except Err SerVals := addValues 0 vs

/-- `write_to_request`: `put_u16(element_count)` then the bytes. -/
def writeToRequest (sv : SerVals) : Bytes := be16 sv.count ++ sv.bytes

/-! ### QUERY / EXECUTE parameters -/

def flagIf (b : Bool) (bit : Nat) : Nat := if b then bit else 0

/-- The `flags |= …` sequence of `QueryParameters::serialize`. -/
def paramFlags (hasValues skip hasPageSize hasPaging hasSerial hasTs : Bool) : Nat :=
  flagIf hasValues Generated.queryFlag_VALUES ||| flagIf skip Generated.queryFlag_SKIP_METADATA |||
  flagIf hasPageSize Generated.queryFlag_PAGE_SIZE ||| flagIf hasPaging Generated.queryFlag_WITH_PAGING_STATE |||
  flagIf hasSerial Generated.queryFlag_WITH_SERIAL_CONSISTENCY |||
  flagIf hasTs Generated.queryFlag_WITH_DEFAULT_TIMESTAMP

def optBytes {α : Type} (f : α → Bytes) : Option α → Bytes
  | some x => f x
  | none => []

/-- `QueryParameters::serialize`; `none` = `BadPagingState` (the only error: `write_bytes` of the paging state). -/
def encodeParams (p : Params) (sv : SerVals) : Option Bytes :=
  let flags := paramFlags (sv.count != 0) p.skipMetadata p.pageSize.isSome p.pagingState.isSome
    p.serialConsistency.isSome p.timestamp.isSome
  let head := be16 (consistencyCode p.consistency) ++ [UInt8.ofNat flags]
    ++ (if sv.count != 0 then writeToRequest sv else [])
    ++ optBytes i32be p.pageSize
  let paging : Option Bytes :=
    match p.pagingState with
    | some ps => writeBytes ps
    | none => some []
  match paging with
  | none => none
  | some pg =>
    some (head ++ pg ++ optBytes (fun c => be16 (serialConsistencyCode c)) p.serialConsistency
      ++ optBytes i64be p.timestamp)

/-! ### BATCH -/

/-- `serialize_batch_statement`. -/
def encodeBatchStmt : BatchStmt → Except StmtErr Bytes
  | .query text =>
    match writeLongString text with
    | some b => .ok (UInt8.ofNat Generated.batchStmtKind_Query :: b)
    | none => .error .statementString
  | .prepared id =>
    match writeShortBytes id with
    | some b => .ok (UInt8.ofNat Generated.batchStmtKind_Prepared :: b)
    | none => .error .statementId

/-- The statement loop of `Batch::do_serialize` (`batch.rs:84-127`): `idx` statements are already serialized,
`n` is `self.statements.len()`.  For each statement: the statement, a two-byte value count (back-patched), the values
of the next value list; a missing value list is `ValuesAndStatementsLengthMismatch{n_value_lists: idx, n_statements: n}`;
value lists left over after the last statement are a mismatch counting all of them. -/
def batchLoop (n : Nat) : Nat → List BatchStmt → List SerVals → Except Err Bytes
  | idx, [], vals =>
    if vals.isEmpty then .ok [] else .error (.batchMismatch (idx + vals.length) idx)
  | idx, s :: ss, vals =>
    match encodeBatchStmt s with
    | .error e => .error (.batchStmt idx e)
    | .ok sb =>
      match vals with
      | [] => .error (.batchMismatch idx n)
      | v :: vs =>
        if v.count > 65535 then .error (.batchStmt idx .tooManyValues)
        else
          match batchLoop n (idx + 1) ss vs with
          | .error e => .error e
          | .ok rest => .ok (sb ++ be16 v.count ++ v.bytes ++ rest)

def batchFlags (hasSerial hasTs : Bool) : Nat :=
  flagIf hasSerial Generated.batchFlag_WITH_SERIAL_CONSISTENCY |||
  flagIf hasTs Generated.batchFlag_WITH_DEFAULT_TIMESTAMP

/-- `Batch::do_serialize`.  (`BadBatchConstructed` cannot happen: the announced and the iterated statement counts
are both `self.statements.len()`.) -/
def encodeBatch (ty : BatchType) (stmts : List BatchStmt) (vals : List SerVals) (c : Consistency)
    (sc : Option SerialConsistency) (ts : Option Int64) : Except Err Bytes :=
  if stmts.length > 65535 then .error .batchTooManyStatements
  else
    match batchLoop stmts.length 0 stmts vals with
    | .error e => .error e
    | .ok body =>
      .ok ([UInt8.ofNat (batchTypeCode ty)] ++ be16 stmts.length ++ body ++ be16 (consistencyCode c)
        ++ [UInt8.ofNat (batchFlags sc.isSome ts.isSome)]
        ++ optBytes (fun c => be16 (serialConsistencyCode c)) sc ++ optBytes i64be ts)

/-! #### BATCH through `RawBatchValuesAdapter` (`serialize/raw_batch.rs:112-166`), the path of `Connection::batch_with_consistency`

The values are typed rows (`BatchValues`), serialized inside the statement loop against the statement's
`RowSerializationContext` (here: its number of columns; the harness uses blob columns and `Vec` rows, whose
`SerializeRow` refuses a row whose length differs from the column count — `row.rs:140-157`).  The contexts come from the
statements, one per statement, so a context is consumed in step with its statement. -/

/-- The cells of one typed row (`serialize_column` per value); `none` = some value overflows (`SizeOverflow`). -/
def rowCells : List RawVal → Option Bytes
  | [] => some []
  | v :: vs =>
    match encodeCell v with
    | none => none
    | some c =>
      match rowCells vs with
      | none => none
      | some r => some (c ++ r)

/-- `Batch::do_serialize`'s loop with `RawBatchValuesIteratorAdapter`: per statement (with `cols` context columns)
`serialize_next` = `None` → mismatch; row refused (`WrongColumnCount` / overflow) → `ValuesSerialiation`; more than
65535 values written → `TooManyValues`; after the loop `skip_next().is_some()` → mismatch counting all value lists. -/
def batchLoopA (n : Nat) : Nat → List (BatchStmt × Nat) → List (List RawVal) → Except Err Bytes
  | idx, [], vals =>
    if vals.isEmpty then .ok [] else .error (.batchMismatch (idx + vals.length) idx)
  | idx, (s, cols) :: ss, vals =>
    match encodeBatchStmt s with
    | .error e => .error (.batchStmt idx e)
    | .ok sb =>
      match vals with
      | [] => .error (.batchMismatch idx n)
      | v :: vs =>
        if cols ≠ v.length then .error (.batchStmt idx .values)
        else
          match rowCells v with
          | none => .error (.batchStmt idx .values)
          | some cells =>
            if v.length > 65535 then .error (.batchStmt idx .tooManyValues)
            else
              match batchLoopA n (idx + 1) ss vs with
              | .error e => .error e
              | .ok rest => .ok (sb ++ be16 v.length ++ cells ++ rest)

/-- `Batch::do_serialize` with adapter values. -/
def encodeBatchA (ty : BatchType) (stmts : List (BatchStmt × Nat)) (vals : List (List RawVal)) (c : Consistency)
    (sc : Option SerialConsistency) (ts : Option Int64) : Except Err Bytes :=
  if stmts.length > 65535 then .error .batchTooManyStatements
  else
    match batchLoopA stmts.length 0 stmts vals with
    | .error e => .error e
    | .ok body =>
      .ok ([UInt8.ofNat (batchTypeCode ty)] ++ be16 stmts.length ++ body ++ be16 (consistencyCode c)
        ++ [UInt8.ofNat (batchFlags sc.isSome ts.isSome)]
        ++ optBytes (fun c => be16 (serialConsistencyCode c)) sc ++ optBytes i64be ts)

/-- All `SerializedValues` of a batch, built in order before the `Batch` exists. -/
def mkSerValsList : List (List RawVal) → Except Err (List SerVals)
  | [] => .ok []
  | vs :: rest =>
    match mkSerVals vs with
    | .error e => .error e
    | .ok sv =>
      match mkSerValsList rest with
      | .error e => .error e
      | .ok svs => .ok (sv :: svs)

/-! ### bodies -/

/-- `req.serialize(&mut buf)` preceded by the construction of the request's `SerializedValues`. -/
def encodeBody : Req → Except Err Bytes
  | .startup opts =>
    match writeStringMap opts with
    | some b => .ok b
    | none => .error .startupOptions
  | .options => .ok []
  | .query text p =>
    match mkSerVals p.values with
    | .error e => .error e
    | .ok sv =>
      match writeLongString text with
      | none => .error .queryStatementString
      | some t =>
        match encodeParams p sv with
        | none => .error .queryBadPagingState
        | some ps => .ok (t ++ ps)
  | .prepare text =>
    match writeLongString text with
    | some b => .ok b
    | none => .error .prepareStatementString
  | .execute id mid p =>
    match mkSerVals p.values with
    | .error e => .error e
    | .ok sv =>
      match writeShortBytes id with
      | none => .error .executeStatementId
      | some i =>
        let midBytes : Option Bytes :=
          match mid with
          | some m => writeShortBytes m
          | none => some []
        match midBytes with
        | none => .error .executeResultMetadataId
        | some m =>
          match encodeParams p sv with
          | none => .error .executeBadPagingState
          | some ps => .ok (i ++ m ++ ps)
  | .register evs =>
    match writeStringList (evs.map eventName) with
    | some b => .ok b
    | none => .error .registerEventTypes
  | .batch ty stmts vals c sc ts =>
    match mkSerValsList vals with
    | .error e => .error e
    | .ok svs => encodeBatch ty stmts svs c sc ts
  | .authResponse resp =>
    match writeBytesOpt resp with
    | some b => .ok b
    | none => .error .authResponse

/-! ### compression (`frame/mod.rs:273-297` `compress_append`, `301-348` `decompress` incl. the LZ4 guard at 318-325
and the Snappy guard at 333-342); the block codecs are parameters -/

inductive Compression where
  | lz4 | snappy
  deriving Repr, DecidableEq

/-- The external block codecs: `lz4_flex::compress` / `decompress(input, uncompressed_len)`,
`snap::raw::Encoder::compress` (may fail) / `Decoder::decompress_vec`. -/
structure Codec where
  lz4 : Bytes → Bytes
  unlz4 : Bytes → Nat → Option Bytes
  snappy : Bytes → Option Bytes
  unsnappy : Bytes → Option Bytes
  /-- `snap::raw::decompress_len`: the uncompressed size declared in the block's preamble. -/
  snappyLen : Bytes → Option Nat

/-- `compress_append` (what it appends): LZ4 = `uncomp_body.len() as u32` big-endian, then the block. -/
def compressAppend (k : Codec) (c : Compression) (body : Bytes) : Except Err Bytes :=
  match c with
  | .lz4 => .ok (be32 body.length ++ k.lz4 body)
  | .snappy =>
    match k.snappy body with
    | some b => .ok b
    | none => .error .snapCompress

/-- Why `frame::decompress` refuses a body. -/
inductive DecErr where
  | prefix   -- LZ4 body shorter than its 4-byte size prefix
  | guard    -- declared uncompressed size impossible for the compressed size (checked before anything is allocated)
  | header   -- Snappy: `decompress_len` cannot read the preamble
  | codec    -- the block decoder fails
  deriving Repr, DecidableEq

/-- `decompress` (`frame/mod.rs:301-348`), including the size guards in front of the allocating decoders: an LZ4 body
whose declared size exceeds `comp_body.len() * 255 + 64`, or a Snappy body whose declared size exceeds
`comp_body.len() * 64 + 64`, is rejected before decoding (the four constants are re-extracted from the source:
`Generated.decompressGuard_*`).  `usize::saturating_mul/add` never saturate for buffers that fit a 64-bit address space,
so plain `Nat` arithmetic is exact. -/
def decompressE (k : Codec) (c : Compression) (comp : Bytes) : Except DecErr Bytes :=
  match c with
  | .lz4 =>
    match ReqParse.rdU32 comp with
    | none => .error .prefix
    | some (n, rest) =>
      if n > rest.length * Generated.decompressGuard_lz4_mul + Generated.decompressGuard_lz4_add then .error .guard
      else
        match k.unlz4 rest n with
        | some b => .ok b
        | none => .error .codec
  | .snappy =>
    match k.snappyLen comp with
    | none => .error .header
    | some n =>
      if n > comp.length * Generated.decompressGuard_snappy_mul + Generated.decompressGuard_snappy_add then .error .guard
      else
        match k.unsnappy comp with
        | some b => .ok b
        | none => .error .codec

/-- `decompress(..).ok()`. -/
def decompress (k : Codec) (c : Compression) (comp : Bytes) : Option Bytes :=
  match decompressE k c comp with
  | .ok b => some b
  | .error _ => none

/-! ### the frame (`SerializedRequest::make`) -/

def frameFlags (compressed tracing : Bool) : Nat :=
  flagIf compressed Generated.frameFlag_COMPRESSION ||| flagIf tracing Generated.frameFlag_TRACING

/-- Header written over the 9 reserved bytes: version, flags, stream placeholder `0 0`, opcode,
`(data.len() - HEADER_SIZE) as u32`. -/
def header (flags op payloadLen : Nat) : Bytes :=
  [UInt8.ofNat Generated.frame_REQUEST_VERSION, UInt8.ofNat flags, 0, 0, UInt8.ofNat op] ++ be32 payloadLen

def encodeReq (k : Codec) (r : Req) (comp : Option Compression) (tracing : Bool) : Except Err Bytes :=
  match encodeBody r with
  | .error e => .error e
  | .ok body =>
    let payload : Except Err Bytes :=
      match comp with
      | some c => compressAppend k c body
      | none => .ok body
    match payload with
    | .error e => .error e
    | .ok pl => .ok (header (frameFlags comp.isSome tracing) (opcode r) pl.length ++ pl)

/-- `SerializedRequest::make` for an already computed body result (`encodeReq k r = encodeFrameOf k (encodeBody r) (opcode r)`,
see `Props.C09.encodeReq_eq`); used for the adapter-built BATCH, which is not a `Req`. -/
def encodeFrameOf (k : Codec) (body : Except Err Bytes) (op : Nat) (comp : Option Compression) (tracing : Bool) :
    Except Err Bytes :=
  match body with
  | .error e => .error e
  | .ok body =>
    let payload : Except Err Bytes :=
      match comp with
      | some c => compressAppend k c body
      | none => .ok body
    match payload with
    | .error e => .error e
    | .ok pl => .ok (header (frameFlags comp.isSome tracing) op pl.length ++ pl)

/-- `set_stream`. -/
def setStream (f : Bytes) (stream : Int16) : Bytes :=
  f.take 2 ++ be16 stream.toUInt16.toNat ++ f.drop 4

/-! ### length-only abstraction of one oversize field (for inputs that cannot be materialised)

`bigFieldErr what n`: what `encodeBody` / `mkSerVals` / `encodeBatchA` answers for the request shape the harness builds
for `biglen <what> <n>` when the named field is `n` bytes long and every other field is small: `none` = accepted,
`some e` = refused with `e`.  `Props.C09.bigField_sound` proves that this is exactly the encoder's answer for *every*
byte string of that length. -/

inductive BigField where
  | queryStatement | prepareStatement | batchStatement | value | pagingState | executePagingState | authResponse
  | adapterValue
  deriving Repr, DecidableEq

def bigFieldErr (what : BigField) (n : Nat) : Option Err :=
  match what with
  | .queryStatement => if (writeIntLength n).isSome then none else some .queryStatementString
  | .prepareStatement => if (writeIntLength n).isSome then none else some .prepareStatementString
  | .batchStatement => if (writeIntLength n).isSome then none else some (.batchStmt 0 .statementString)
  | .value => if n < 2 ^ 31 then none else some .valueTooBig
  | .pagingState => if (writeIntLength n).isSome then none else some .queryBadPagingState
  | .executePagingState => if (writeIntLength n).isSome then none else some .executeBadPagingState
  | .authResponse => if (writeIntLength n).isSome then none else some .authResponse
  | .adapterValue => if n < 2 ^ 31 then none else some (.batchStmt 0 .values)

/-- `QueryParameters::default()` (consistency `LocalQuorum`, nothing else). -/
def defaultParams : Params :=
  { consistency := .localQuorum, serialConsistency := none, timestamp := none, pageSize := none, pagingState := none,
    skipMetadata := false, values := [] }

/-- The result of the request the harness builds for `biglen <what>` with the big field `b`. -/
def bigFieldRun (what : BigField) (b : Bytes) : Except Err Unit :=
  let unit (r : Except Err Bytes) : Except Err Unit := match r with | .ok _ => .ok () | .error e => .error e
  match what with
  | .queryStatement => unit (encodeBody (.query b defaultParams))
  | .prepareStatement => unit (encodeBody (.prepare b))
  | .batchStatement => unit (encodeBody (.batch .logged [.query b] [[]] .one none none))
  | .value => match mkSerVals [.val b] with | .ok _ => .ok () | .error e => .error e
  | .pagingState => unit (encodeBody (.query [0x78] { defaultParams with pagingState := some b }))
  | .executePagingState => unit (encodeBody (.execute [0x01] none { defaultParams with pagingState := some b }))
  | .authResponse => unit (encodeBody (.authResponse (some b)))
  | .adapterValue => unit (encodeBatchA .logged [(.prepared [0x01], 1)] [[.val b]] .one none none)

/-! ### what the caller asked for, in the parser's vocabulary -/

/-- Protocol names of the event types (CQL v4 §4.1.8 / §4.2.6; `CLIENT_ROUTES_CHANGE` is ScyllaDB's). -/
def eventSpecName : EventType → Bytes
  | .topologyChange => "TOPOLOGY_CHANGE".toUTF8.toList
  | .statusChange => "STATUS_CHANGE".toUTF8.toList
  | .schemaChange => "SCHEMA_CHANGE".toUTF8.toList
  | .clientRoutesChange => "CLIENT_ROUTES_CHANGE".toUTF8.toList

def viewParams (p : Params) : ParamsView :=
  { consistency := p.consistency
    skipMetadata := p.skipMetadata
    values := p.values
    pageSize := p.pageSize.map Int32.toInt
    pagingState := p.pagingState
    serialConsistency := p.serialConsistency
    timestamp := p.timestamp.map Int64.toInt }

def viewStmt : BatchStmt → BatchStmtView
  | .query t => .query t
  | .prepared i => .prepared i

def view : Req → ReqView
  | .startup opts => .startup opts
  | .options => .options
  | .query text p => .query text (viewParams p)
  | .prepare text => .prepare text
  | .execute id mid p => .execute id mid (viewParams p)
  | .register evs => .register (evs.map eventSpecName)
  | .batch ty stmts vals c sc ts => .batch ty ((stmts.map viewStmt).zip vals) c sc (ts.map Int64.toInt)
  | .authResponse r => .authResponse r

def hasMetadataId : Req → Bool
  | .execute _ (some _) _ => true
  | _ => false

end ScyllaVerif.Request

/-
C19: the periodic-refresh deadline of `MetadataWorker::work_on_cc` and the `refresh_channel` arm it competes with
(scylla/src/cluster/metadata/worker.rs).

* `deadlineAfter`   ← `deadline_after` (893-900, after /repo 3ab1ad9): `start.checked_add(interval)`, saturating to
                      `start + FAR_FUTURE` when the sum overflows `Instant` (`horizon` = the largest representable
                      instant, `far` = FAR_FUTURE; both are parameters).
* `deadlineAfterOld`← the function BEFORE 3ab1ad9: `Instant::now()` (= `start`) on overflow. Kept to state what was
                      wrong with it (`Props.C19.old_deadline_starves_request`), used by no run of the model.
* `Loop`            ← the locals of `work_on_cc` that decide about FULL fetches: `next_refresh_deadline`,
                      `matches!(pending_fetches, Full{..})`, `matches!(plan, FetchPlan::Full)`, `self.pending_request`,
                      the requests queued in `refresh_channel`; `now` is the clock (an explicit argument: `tick`).
* `startDue`        ← `start_due_fetches` (261-286), the loop top: a full fetch starts iff none runs and (the plan owes
                      one or `now >= next_refresh_deadline`); starting resets plan and deadline.
* `select arm`      ← one loop iteration: the loop top, then the arm `select!` picked - which does something only if
                      its guard holds and it is ready: `refresh` (700: `if !full_fetch_in_flight`, a request queued),
                      `deadline` (748: `if !full_fetch_in_flight`, `now >= deadline`; its body is empty),
                      `fullDone` (647-650: publish, the pending request rides on the update),
                      `partialFailed` (670-690: a failed partial fetch owes a full one; only while no full fetch runs,
                      since a starting full fetch drops the running partial ones), `other` (server events, successful
                      partial fetches: nothing that decides about full fetches).
* `starts`          ghost log, newest first: for every full fetch started, the time, why (`Cause`), and whether a
                      pending request rides on it.
-/
namespace ScyllaVerif.C19Deadline

def deadlineAfter (horizon far start iv : Nat) : Nat :=
  if start + iv ≤ horizon then start + iv else start + far

def deadlineAfterOld (horizon start iv : Nat) : Nat :=
  if start + iv ≤ horizon then start + iv else start

inductive Cause where
  | owed      -- the plan owed a full fetch (request received, or a partial fetch failed)
  | deadline  -- only the periodic deadline
  deriving DecidableEq, Repr

structure Loop where
  horizon : Nat
  far : Nat
  interval : Nat
  now : Nat := 0
  deadline : Nat
  fullInFlight : Bool := false
  planFull : Bool := false
  waiting : Nat := 0
  pending : Bool := false
  /-- requests received so far / answered (attached to a published update) so far -/
  received : Nat := 0
  answered : Nat := 0
  starts : List (Nat × Cause × Bool) := []
  deriving Repr

/-- `work_on_cc` entry (627-628): the deadline is `deadline_after(now, interval)`. -/
def init (horizon far interval now : Nat) : Loop :=
  { horizon, far, interval, now, deadline := deadlineAfter horizon far now interval }

inductive Arm where
  | refresh | deadline | fullDone | partialFailed | other
  deriving DecidableEq, Repr

inductive Ev where
  | tick (d : Nat)
  | request
  | select (a : Arm)
  deriving DecidableEq, Repr

def startDue (s : Loop) : Loop :=
  if !s.fullInFlight && (s.planFull || decide (s.deadline ≤ s.now)) then
    { s with planFull := false, deadline := deadlineAfter s.horizon s.far s.now s.interval, fullInFlight := true,
             starts := (s.now, (if s.planFull then Cause.owed else Cause.deadline), s.pending) :: s.starts }
  else s

def refreshEnabled (s : Loop) : Bool := !s.fullInFlight && decide (0 < s.waiting)

def arm (s : Loop) : Arm → Loop
  | .refresh => if refreshEnabled s then { s with waiting := s.waiting - 1, pending := true, planFull := true,
                                                  received := s.received + 1 } else s
  | .deadline => s
  | .fullDone => if s.fullInFlight then { s with fullInFlight := false, pending := false,
                                                 answered := s.answered + (if s.pending then 1 else 0) } else s
  | .partialFailed => if s.fullInFlight then s else { s with planFull := true }
  | .other => s

def step (s : Loop) : Ev → Loop
  | .tick d => { s with now := s.now + d }
  | .request => { s with waiting := s.waiting + 1 }
  | .select a => arm (startDue s) a

def run (s : Loop) (evs : List Ev) : Loop := evs.foldl step s

/-- The loop of the OLD code (only `deadline_after` differs), for the statement of the defect. -/
def startDueOld (s : Loop) : Loop :=
  if !s.fullInFlight && (s.planFull || decide (s.deadline ≤ s.now)) then
    { s with planFull := false, deadline := deadlineAfterOld s.horizon s.now s.interval, fullInFlight := true,
             starts := (s.now, (if s.planFull then Cause.owed else Cause.deadline), s.pending) :: s.starts }
  else s

def stepOld (s : Loop) : Ev → Loop
  | .tick d => { s with now := s.now + d }
  | .request => { s with waiting := s.waiting + 1 }
  | .select a => arm (startDueOld s) a

def runOld (s : Loop) (evs : List Ev) : Loop := evs.foldl stepOld s

end ScyllaVerif.C19Deadline

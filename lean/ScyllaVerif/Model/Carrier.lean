import ScyllaVerif.Model.Vint
import ScyllaVerif.Model.Cql
/-
Model of the *acceptance relations* between Rust carrier types and CQL column types (C17).  Core Lean only.

Serialization side — `scylla-cql-core/src/serialize/value.rs`:
  * `Scalar.serNatives`  ← the `exact_type_check!` list of every leaf `impl SerializeValue` (93-402);
  * `ser`                ← `SerializeValue::serialize` of `Option` (369-382), `Unset` (383-385), `MaybeUnset` (403-416),
    `MaybeEmpty` (417-438), the transparent `&T`/`Box`/`Arc`/`Cow`/`Secret` (220-243, 439-474: identified with
    their content), `HashSet`/`BTreeSet` (475-519) → `serialize_sequence` (932-981), `HashMap`/`BTreeMap`
    (490-534) → `serialize_mapping` (1102-1150), `Vec<T>`/`[T]` (535-612) → `serialize_sequence` |
    `serialize_vector` (1055-1100) with `serialize_next_{constant,variable}_length_elem` (995-1053),
    Rust tuples (`impl_tuple!` 847-900), `CqlValue` (`serialize_cql_value` 623-706, `serialize_udt` 750-818,
    `serialize_tuple_like` 820-845 — a `CqlValue` is *embedded* as the tree of typed values it delegates to);
  * the writers (`writers.rs:103-218`): the buffer is threaded through and RETURNED ALSO ON FAILURE (`Res` =
    buffer after the call × optional error), because the Rust code appends to `&mut Vec<u8>` and a failure deep
    inside a collection leaves the already written prefix behind (that is what `add_value` must roll back);
  * `accepts`            — the static relation carrier × type that `ser` implements (`ser` itself is
    value-directed: an empty `Vec<i32>` never looks at the element type, `None` never looks at any type).
Deserialization side — `scylla-cql-core/src/deserialize/value.rs`:
  * `tcheck` / `deserAccepts` ← every `DeserializeValue::type_check` (67-70, 253-259, 271-279, 296-800,
    962-990, 1065-1085, 1107-1125, 1137-1157, 1216-1234, 1428-1450, 1554-1583, 1610-1615, 1632-1652,
    1791-1797, 1866-1950, `ensure_tuple_type` 1994-2012);
  * `tcheckRow` ← `deserialize/row.rs:143-147, 198-203, 239-265` (`ColumnIterator`, `Row`, Rust tuples as rows).

Errors are *kinds* plus the path of wrappers around them (element / key / value / tuple field / UDT field),
never messages.
-/
namespace ScyllaVerif.Carrier
open ScyllaVerif.Vint ScyllaVerif.Cql

/-! ### carriers -/

/-- Leaf Rust carrier types (one per `exact_type_check!` family).  External-crate carriers are the same
leaves after their conversion (`chrono::NaiveDate`, `time::Date` ↦ `date`, `num_bigint::BigInt` ↦ `varint`,
`bigdecimal::BigDecimal` ↦ `decimal`, …); borrowed / owned / boxed variants are identified
(`&str`, `String`, `Box<str>`, `Arc<str>`, `Cow<str>` ↦ `str`; `&[u8]`, `Vec<u8>`, `Bytes`, `[u8; N]` ↦ `blob`). -/
inductive Scalar where
  | i8 | i16 | i32 | i64 | f32 | f64 | bool | str | blob | inet | uuid | timeuuid | date | time
  | timestamp | duration | varint | decimal | counter
  deriving Repr, DecidableEq, Inhabited

/-- The natives listed in the leaf's `exact_type_check!` on the **serialization** side. -/
def Scalar.serNatives : Scalar → List NativeTy
  | .i8 => [.tinyint] | .i16 => [.smallint] | .i32 => [.int] | .i64 => [.bigint]
  | .f32 => [.float] | .f64 => [.double] | .bool => [.boolean] | .str => [.ascii, .text]
  | .blob => [.blob] | .inet => [.inet] | .uuid => [.uuid] | .timeuuid => [.timeuuid]
  | .date => [.date] | .time => [.time] | .timestamp => [.timestamp] | .duration => [.duration]
  | .varint => [.varint] | .decimal => [.decimal] | .counter => [.counter]

/-- The natives listed in the leaf's `impl_strict_type!` on the **deserialization** side. -/
def Scalar.deNatives : Scalar → List NativeTy
  | .i8 => [.tinyint] | .i16 => [.smallint] | .i32 => [.int] | .i64 => [.bigint]
  | .f32 => [.float] | .f64 => [.double] | .bool => [.boolean] | .str => [.ascii, .text]
  | .blob => [.blob] | .inet => [.inet] | .uuid => [.uuid] | .timeuuid => [.timeuuid]
  | .date => [.date] | .time => [.time] | .timestamp => [.timestamp] | .duration => [.duration]
  | .varint => [.varint] | .decimal => [.decimal] | .counter => [.counter]

/-- `CqlDecimal` (and `BigDecimal`) go through `into_value_builder` + `finish`; every other leaf through
`set_value`. -/
def Scalar.viaBuilder : Scalar → Bool
  | .decimal => true
  | _ => false

/-- Rust carrier *types*.  The last five exist on the deserialization side only (`ListlikeIterator<T>`,
`VectorIterator<T>`, `MapIterator<K, V>`, `UdtIterator`, `FrameSliceWithMetadata`); `unset` / `maybeUnset`
exist on the serialization side only. -/
inductive Carrier where
  | scalar (s : Scalar)
  | unset
  | opt (c : Carrier)
  | maybeUnset (c : Carrier)
  | maybeEmpty (c : Carrier)
  | vec (c : Carrier)
  | hashSet (c : Carrier)
  | btreeSet (c : Carrier)
  | hashMap (k v : Carrier)
  | btreeMap (k v : Carrier)
  | tuple (cs : List Carrier)
  | dyn
  | listIter (c : Carrier)
  | vecIter (c : Carrier)
  | mapIter (k v : Carrier)
  | udtIter
  | raw
  deriving Repr, Inhabited

/-! ### the static acceptance relations -/

mutual
/-- Serialization side: does a (fully populated) value of carrier `c` serialize to column type `t`?
`dyn` (`CqlValue`) is accepted statically everywhere — its check is entirely value-directed. -/
def accepts : Carrier → CqlTy → Bool
  | .scalar s, t => match t with
    | .native n => s.serNatives.contains n
    | _ => false
  | .unset, _ => true
  | .opt c, t => accepts c t
  | .maybeUnset c, t => accepts c t
  | .maybeEmpty c, t => t.supportsEmpty && accepts c t
  | .vec c, t => match t with
    | .list e => accepts c e
    | .set e => accepts c e
    | .vector e _ => accepts c e
    | _ => false
  | .hashSet c, t => match t with
    | .list e => accepts c e
    | .set e => accepts c e
    | _ => false
  | .btreeSet c, t => match t with
    | .list e => accepts c e
    | .set e => accepts c e
    | _ => false
  | .hashMap k v, t => match t with
    | .map kt vt => accepts k kt && accepts v vt
    | _ => false
  | .btreeMap k v, t => match t with
    | .map kt vt => accepts k kt && accepts v vt
    | _ => false
  | .tuple cs, t => match t with
    | .tuple ts => decide (cs.length ≤ ts.length) && acceptsZip cs ts
    | _ => false
  | .dyn, _ => true
  | .listIter _, _ => false
  | .vecIter _, _ => false
  | .mapIter _ _, _ => false
  | .udtIter, _ => false
  | .raw, _ => false
/-- Field-wise acceptance of the common prefix (`[t0, …, tn-1, ..]` pattern of `impl_tuple!`). -/
def acceptsZip : List Carrier → List CqlTy → Bool
  | c :: cs, t :: ts => accepts c t && acceptsZip cs ts
  | _, _ => true
end

mutual
/-- Deserialization side: `T::type_check(typ)` succeeds. -/
def deserAccepts : Carrier → CqlTy → Bool
  | .scalar s, t => match t with
    | .native n => s.deNatives.contains n
    | _ => false
  | .unset, _ => false
  | .opt c, t => deserAccepts c t
  | .maybeUnset _, _ => false
  | .maybeEmpty c, t => deserAccepts c t
  | .vec c, t => match t with
    | .list e => deserAccepts c e
    | .set e => deserAccepts c e
    | .vector e _ => deserAccepts c e
    | _ => false
  | .hashSet c, t => match t with
    | .set e => deserAccepts c e
    | _ => false
  | .btreeSet c, t => match t with
    | .set e => deserAccepts c e
    | _ => false
  | .hashMap k v, t => match t with
    | .map kt vt => deserAccepts k kt && deserAccepts v vt
    | _ => false
  | .btreeMap k v, t => match t with
    | .map kt vt => deserAccepts k kt && deserAccepts v vt
    | _ => false
  | .tuple cs, t => match t with
    | .tuple ts => decide (cs.length = ts.length) && deserAcceptsZip cs ts
    | _ => false
  | .dyn, _ => true
  | .listIter c, t => match t with
    | .list e => deserAccepts c e
    | .set e => deserAccepts c e
    | _ => false
  | .vecIter c, t => match t with
    | .vector e _ => deserAccepts c e
    | _ => false
  | .mapIter k v, t => match t with
    | .map kt vt => deserAccepts k kt && deserAccepts v vt
    | _ => false
  | .udtIter, t => match t with
    | .udt _ _ _ => true
    | _ => false
  | .raw, _ => true
def deserAcceptsZip : List Carrier → List CqlTy → Bool
  | c :: cs, t :: ts => deserAccepts c t && deserAcceptsZip cs ts
  | _, _ => true
end

/-! ### `type_check` with its error (deserialization side) -/

inductive Step where
  | elem | key | val | field (i : Nat) | udtField (name : String) | col (i : Nat)
  deriving Repr, DecidableEq, Inhabited

inductive TcKind where
  | mismatchedType | notSetOrList | notSet | notVector | notDeserializableToVec | notMap | notTuple
  | wrongElementCount | notUdt | wrongColumnCount | noImpl
  deriving Repr, DecidableEq, Inhabited

structure TcErr where
  path : List Step
  kind : TcKind
  deriving Repr, DecidableEq, Inhabited

def tcWrap (st : Step) : Option TcErr → Option TcErr
  | none => none
  | some e => some { e with path := st :: e.path }

def tcLeaf (k : TcKind) : Option TcErr := some ⟨[], k⟩

mutual
/-- `<T as DeserializeValue>::type_check(typ)`; `none` = `Ok(())`.  `noImpl`: the Rust type has no
`DeserializeValue` impl (never instantiated by the harness). -/
def tcheck : Carrier → CqlTy → Option TcErr
  | .scalar s, t => match t with
    | .native n => if s.deNatives.contains n then none else tcLeaf .mismatchedType
    | _ => tcLeaf .mismatchedType
  | .unset, _ => tcLeaf .noImpl
  | .opt c, t => tcheck c t
  | .maybeUnset _, _ => tcLeaf .noImpl
  | .maybeEmpty c, t => tcheck c t
  | .vec c, t => match t with
    | .list e => tcWrap .elem (tcheck c e)
    | .set e => tcWrap .elem (tcheck c e)
    | .vector e _ => tcWrap .elem (tcheck c e)
    | _ => tcLeaf .notDeserializableToVec
  | .hashSet c, t => match t with
    | .set e => tcWrap .elem (tcheck c e)
    | _ => tcLeaf .notSet
  | .btreeSet c, t => match t with
    | .set e => tcWrap .elem (tcheck c e)
    | _ => tcLeaf .notSet
  | .hashMap k v, t => match t with
    | .map kt vt =>
      match tcheck k kt with
      | some e => tcWrap .key (some e)
      | none => tcWrap .val (tcheck v vt)
    | _ => tcLeaf .notMap
  | .btreeMap k v, t => match t with
    | .map kt vt =>
      match tcheck k kt with
      | some e => tcWrap .key (some e)
      | none => tcWrap .val (tcheck v vt)
    | _ => tcLeaf .notMap
  | .tuple cs, t => match t with
    | .tuple ts => if cs.length ≠ ts.length then tcLeaf .wrongElementCount else tcheckZip cs ts 0
    | _ => tcLeaf .notTuple
  | .dyn, _ => none
  | .listIter c, t => match t with
    | .list e => tcWrap .elem (tcheck c e)
    | .set e => tcWrap .elem (tcheck c e)
    | _ => tcLeaf .notSetOrList
  | .vecIter c, t => match t with
    | .vector e _ => tcWrap .elem (tcheck c e)
    | _ => tcLeaf .notVector
  | .mapIter k v, t => match t with
    | .map kt vt =>
      match tcheck k kt with
      | some e => tcWrap .key (some e)
      | none => tcWrap .val (tcheck v vt)
    | _ => tcLeaf .notMap
  | .udtIter, t => match t with
    | .udt _ _ _ => none
    | _ => tcLeaf .notUdt
  | .raw, _ => none
/-- The field checks of `impl_tuple!`, in order, first failure wins. -/
def tcheckZip : List Carrier → List CqlTy → Nat → Option TcErr
  | c :: cs, t :: ts, i =>
    match tcheck c t with
    | some e => tcWrap (.field i) (some e)
    | none => tcheckZip cs ts (i + 1)
  | _, _, _ => none
end

/-- Column checks of the row-level tuple `type_check` (`deserialize/row.rs:245-264`). -/
def tcheckCols : List Carrier → List CqlTy → Nat → Option TcErr
  | c :: cs, t :: ts, i =>
    match tcheck c t with
    | some e => tcWrap (.col i) (some e)
    | none => tcheckCols cs ts (i + 1)
  | _, _, _ => none

/-- Row carriers: a Rust tuple of column carriers, or the untyped `Row` / `ColumnIterator`. -/
inductive RowCarrier where
  | cols (cs : List Carrier)
  | untyped
  deriving Repr, Inhabited

/-- `<R as DeserializeRow>::type_check(specs)`. -/
def tcheckRow : RowCarrier → List CqlTy → Option TcErr
  | .untyped, _ => none
  | .cols cs, ts => if cs.length ≠ ts.length then tcLeaf .wrongColumnCount else tcheckCols cs ts 0

/-- `TypedRowIterator<R>` (`deserialize/result.rs:91-111`): it can only be obtained from `TypedRowIterator::new`,
which is what `DeserializedMetadataAndRawRows::rows_iter` and, through it, `QueryRowsResult::rows` /
`first_row` / `single_row` go through.  (The pager does NOT: `TypedRowStream` calls `RowT::type_check` itself,
per page — see `typedStream` below.) -/
structure TypedIter where
  rc : RowCarrier
  specs : List CqlTy
  remaining : Nat
  deriving Repr, Inhabited

/-- `TypedRowIterator::new(raw)`: `R::type_check(raw.specs())?` and only then the iterator — once per result,
before any row is read, independently of how many rows there are and of what they contain. -/
def typedIterNew (rc : RowCarrier) (specs : List CqlTy) (rows : Nat) : Except TcErr TypedIter :=
  match tcheckRow rc specs with
  | some e => .error e
  | none => .ok ⟨rc, specs, rows⟩

/-! ### `deserialize` after `type_check`: the partial operations of the typed readers

`DeserializeValue::deserialize` "can assume that the driver called `type_check`" (value.rs:55-63).  The typed
readers destructure the column type AGAIN and `unreachable!` / `expect` when it does not have the kind they need:
`Vec::deserialize` (1088-1103 "Should be prevented by typecheck"), `ListlikeIterator::deserialize` (995-1007),
`VectorIterator::deserialize` (1237-1247), `MapIterator::deserialize` (1453-1463), `UdtIterator::deserialize`
(1805-1815), the tuple impls (`ensure_tuple_type(..).expect("Type check should have prevented this!")` 1655-1658),
and at row level the tuple `DeserializeRow::deserialize` (row.rs:266-290: `unwrap_or_else(|| unreachable!(..))`
for a missing column, `assert!(row.next().is_none())` for an excess one).  `deserPanics c t` says whether decoding a
NON-NULL cell of column type `t` into carrier `c` can reach one of those sites (at any depth: the readers hand the
element / key / value / field types down).  The byte-level partial operations (`split_at`, vint arithmetic) are
C08's subject (`Model/C08Value.lean`), the leaves return errors, never panic (`ensure_exact_length`, `from_utf8`). -/

mutual
def deserPanics : Carrier → CqlTy → Bool
  | .scalar _, _ => false
  | .unset, _ => false
  | .maybeUnset _, _ => false
  | .opt c, t => deserPanics c t
  | .maybeEmpty c, t => deserPanics c t
  | .vec c, t => match t with
    | .list e => deserPanics c e
    | .set e => deserPanics c e
    | .vector e _ => deserPanics c e
    | _ => true
  | .hashSet c, t => match t with          -- through `ListlikeIterator::deserialize`: list or set
    | .list e => deserPanics c e
    | .set e => deserPanics c e
    | _ => true
  | .btreeSet c, t => match t with
    | .list e => deserPanics c e
    | .set e => deserPanics c e
    | _ => true
  | .listIter c, t => match t with
    | .list e => deserPanics c e
    | .set e => deserPanics c e
    | _ => true
  | .vecIter c, t => match t with
    | .vector e _ => deserPanics c e
    | _ => true
  | .hashMap k v, t => match t with
    | .map kt vt => deserPanics k kt || deserPanics v vt
    | _ => true
  | .btreeMap k v, t => match t with
    | .map kt vt => deserPanics k kt || deserPanics v vt
    | _ => true
  | .mapIter k v, t => match t with
    | .map kt vt => deserPanics k kt || deserPanics v vt
    | _ => true
  | .tuple cs, t => match t with
    | .tuple ts => decide (cs.length ≠ ts.length) || deserPanicsZip cs ts
    | _ => true
  | .udtIter, t => match t with
    | .udt _ _ _ => false
    | _ => true
  | .dyn, _ => false
  | .raw, _ => false
def deserPanicsZip : List Carrier → List CqlTy → Bool
  | c :: cs, t :: ts => deserPanics c t || deserPanicsZip cs ts
  | _, _ => false
end

/-- `TypedRowIterator::next` → `<R as DeserializeRow>::deserialize(column_iterator)` for a tuple row type over a
row with `specs.length` columns: a missing or excess column, or a column whose reader panics. -/
def rowDecodePanics : RowCarrier → List CqlTy → Bool
  | .untyped, _ => false
  | .cols cs, specs => decide (cs.length ≠ specs.length) || deserPanicsZip cs specs

/-! ### the pager's typed stream (`scylla/src/client/pager.rs`)

`QueryPager::rows_stream::<T>()` → `TypedRowStream::new` type-checks `T` against the column specs of the page the
pager currently holds (the FIRST page, fetched before the pager is handed out) and starts with
`current_page_typechecked = true` (1275-1285).  `TypedRowStream::poll_next` (1313-1340): `QueryPager::next`
reports `fresh_page = true` with the first row of every page fetched afterwards (`poll_fill_page` 751-769: a new
non-empty page; zero-sized pages are swallowed without yielding anything); a fresh page resets the flag; an
unset flag means `type_check` against THAT page's columns before the row is deserialized.  The pages' column
specs may all differ (each page carries its own result metadata, or uses the statement's cached one). -/

/-- One received page: its own column specs (names and types) and, per announced row, whether the raw row
iterator (`RawRowLendingIterator::next`, `scylla-cql/src/deserialize/result.rs`) could read it (`false` = a
truncated / malformed row: `QueryPager::next` answers `RowDeserializationError` for it). -/
structure PageM where
  specs : List (String × CqlTy)
  raws : List Bool
  deriving Repr, Inhabited

/-- A page whose `n` rows are all readable. -/
def PageM.intact (specs : List (String × CqlTy)) (n : Nat) : PageM := ⟨specs, List.replicate n true⟩

def PageM.rows (p : PageM) : Nat := p.raws.length

/-- What the typed stream hands to its consumer. -/
inductive StreamOut where
  | row (page : Nat)
  | typeErr (page : Nat)
  | rawErr (page : Nat)
  deriving Repr, DecidableEq, Inhabited

/-- The body of `poll_next` for one READABLE row of a page whose columns pass (`ok`) or fail `T::type_check`:
new flag, and whether the row became a type-check error. -/
def streamRow (ok fresh flag : Bool) : Bool × Bool :=
  let flag1 := if fresh then false else flag
  if !flag1 then (if ok then (true, false) else (flag1, true)) else (true, false)

/-- The rows of page `i`, for a consumer that keeps polling after error items.  A refused row is consumed and
the flag stays unset, so EVERY remaining row of a page that does not fit is refused again.  For an UNREADABLE row
`QueryPager::next` returns `Some(Err(RowDeserializationError))` (pager.rs:726-731): the `and_then` closure of
`poll_next` (1321) does not run — the flag is not touched AND THE `fresh_page` BIT OF THAT CALL IS LOST: the next
row of the page comes with `fresh = false`.  Returns the flag after the page. -/
def pageRows (ok : Bool) (i : Nat) : List Bool → Bool → Bool → List StreamOut × Bool
  | [], _, flag => ([], flag)
  | false :: rs, _, flag =>
    match pageRows ok i rs false flag with
    | (os, r) => (.rawErr i :: os, r)
  | true :: rs, fresh, flag =>
    match streamRow ok fresh flag with
    | (flag', true) =>
      match pageRows ok i rs false flag' with
      | (os, r) => (.typeErr i :: os, r)
    | (flag', false) =>
      match pageRows ok i rs false flag' with
      | (os, r) => (.row i :: os, r)

/-- The pages fetched after the first one (the producer keeps fetching whatever the consumer was told). -/
def streamPages (check : List (String × CqlTy) → Bool) : Nat → List PageM → Bool → List StreamOut
  | _, [], _ => []
  | i, p :: ps, flag =>
    if p.raws.isEmpty then streamPages check (i + 1) ps flag
    else
      match pageRows (check p.specs) i p.raws true flag with
      | (os, flag') => os ++ streamPages check (i + 1) ps flag'

/-- `rows_stream::<T>()` and the items of the whole stream, polled to its end THROUGH error items; `none` = the
constructor's own type-check error.  (A consumer that stops at the first error sees the prefix up to it.) -/
def typedStream (check : List (String × CqlTy) → Bool) : List PageM → Option (List StreamOut)
  | [] => some []
  | p :: ps =>
    if !check p.specs then none
    else
      match pageRows (check p.specs) 0 p.raws false true with
      | (os, flag) => some (os ++ streamPages check 1 ps flag)

/-- What a consumer that stops at the first error item sees. -/
def untilFirstError : List StreamOut → List StreamOut
  | [] => []
  | .row i :: r => .row i :: untilFirstError r
  | o :: _ => [o]

/-- The raw row iterator cannot recover within a page: once a row is unreadable, every later announced row of
that page is (C08: `iterRows_after_error`, `lending_iterator_is_plain_iterator`). -/
def stickyRaws : List Bool → Bool
  | [] => true
  | true :: rs => stickyRaws rs
  | false :: rs => rs.all (· == false)

/-- The item the stream owes the consumer for one announced row of page `i`. -/
def itemOf (ok : Bool) (i : Nat) (readable : Bool) : StreamOut :=
  if readable then (if ok then .row i else .typeErr i) else .rawErr i

/-- THE SPECIFICATION of the typed stream: one item per announced row, page by page in order — the row itself
iff it is readable and its page's OWN columns pass the check. -/
def streamSpec (check : List (String × CqlTy) → Bool) : Nat → List PageM → List StreamOut
  | _, [] => []
  | i, p :: ps => p.raws.map (itemOf (check p.specs) i) ++ streamSpec check (i + 1) ps

/-! ### values -/

/-- A Rust value, self-describing (every node says which `impl SerializeValue` serializes it).  A leaf
carries its content bytes (their encoding is C01's subject).  `set` / `map` list the elements in the
container's iteration order.  A `CqlValue` is embedded as the tree of typed values `serialize_cql_value`
delegates to: `Int(i)` ↦ `scalar i32 _`, `List`/`Set`/`Vector(v)` ↦ `vec _`, `Map(m)` ↦ `map _`,
`Empty` ↦ `meEmpty`, `Tuple(fs)` ↦ `tuple` of `none` / `some _`, `UserDefinedType` ↦ `udt` with `none` /
`some _` fields. -/
inductive RVal where
  | scalar (s : Scalar) (body : Bytes)
  | unset
  | none
  | some (v : RVal)
  | muUnset
  | muSet (v : RVal)
  | meEmpty
  | meValue (v : RVal)
  | vec (vs : List RVal)
  | set (vs : List RVal)
  | map (kvs : List (RVal × RVal))
  | tuple (fs : List RVal)
  | udt (ks name : String) (fs : List (String × RVal))
  deriving Repr, Inhabited

/-- What is left of a value once the transparent layers (`Option::Some`, `MaybeUnset::Set`,
`MaybeEmpty::Value`) are peeled off. -/
inductive Core where
  | null | unset | empty
  | scalar (s : Scalar) (body : Bytes)
  | vec (vs : List RVal)
  | set (vs : List RVal)
  | map (kvs : List (RVal × RVal))
  | tuple (fs : List RVal)
  | udt (ks name : String) (fs : List (String × RVal))
  deriving Inhabited

/-- Peel the transparent layers.  The flag says that a `MaybeEmpty` layer was crossed: its
`supports_special_empty_value` check is made against the same column type as every other layer's, and the
transparent layers check nothing else, so only *whether* one was crossed matters. -/
def strip : RVal → Bool × Core
  | .scalar s b => (false, .scalar s b)
  | .unset => (false, .unset)
  | .none => (false, .null)
  | .some v => strip v
  | .muUnset => (false, .unset)
  | .muSet v => strip v
  | .meEmpty => (true, .empty)
  | .meValue v => (true, (strip v).2)
  | .vec vs => (false, .vec vs)
  | .set vs => (false, .set vs)
  | .map kvs => (false, .map kvs)
  | .tuple fs => (false, .tuple fs)
  | .udt ks name fs => (false, .udt ks name fs)

/-! ### serialization errors -/

/-- Leaves of `BuiltinTypeCheckErrorKind` / `BuiltinSerializationErrorKind` (serialize/value.rs:1220-1620). -/
inductive SerKind where
  | mismatchedType | notEmptyable | notSetOrList | notMap | notTuple | wrongElementCount
  | notUdt | nameMismatch | noSuchFieldInUdt
  | sizeOverflow | tooManyElements | invalidNumberOfElements
  deriving Repr, DecidableEq, Inhabited

/-- The error is a `BuiltinTypeCheckError` (as opposed to a `BuiltinSerializationError`). -/
def SerKind.isTypeCheck : SerKind → Bool
  | .sizeOverflow => false
  | .tooManyElements => false
  | .invalidNumberOfElements => false
  | _ => true

/-- The error is about the *size* of the value (cannot happen below 2 GiB / 2^31 elements). -/
def SerKind.isSize : SerKind → Bool
  | .sizeOverflow => true
  | .tooManyElements => true
  | _ => false

structure SerErr where
  path : List Step
  kind : SerKind
  deriving Repr, DecidableEq, Inhabited

/-- Result of a serializer call on a `&mut Vec<u8>`: the buffer afterwards (also on failure) and the error. -/
abbrev Res := Bytes × Option SerErr

def serLeaf (buf : Bytes) (k : SerKind) : Res := (buf, some ⟨[], k⟩)

/-- `.map_err(|err| mk_ser_err(…ElementSerializationFailed(err)))`. -/
def wrap (st : Step) : Res → Res
  | (b, some e) => (b, some { e with path := st :: e.path })
  | (b, none) => (b, none)

/-! ### writers (writers.rs) -/

def i32Max : Nat := 2147483647
def be32 (n : Nat) : Bytes := beBytes 4 n
def nullBytes : Bytes := [0xff, 0xff, 0xff, 0xff]
def unsetBytes : Bytes := [0xff, 0xff, 0xff, 0xfe]
def placeholder : Bytes := [0xff, 0xff, 0xff, 0xfd]

/-- `CellWriter::set_null` (103-108): `-1i32`, whatever `write_size` is. -/
def setNull (buf : Bytes) : Res := (buf ++ nullBytes, none)
/-- `CellWriter::set_unset` (110-115). -/
def setUnset (buf : Bytes) : Res := (buf ++ unsetBytes, none)

/-- `CellWriter::set_value` (125-133); callers map the `CellOverflowError` to `SizeOverflow` (the fixed-width
leaves `unwrap()` it — unreachable, their bodies are at most 27 bytes). -/
def setValue (ws : Bool) (contents buf : Bytes) : Res :=
  if contents.length > i32Max then serLeaf buf .sizeOverflow
  else if ws then (buf ++ be32 contents.length ++ contents, none)
  else (buf ++ contents, none)

/-- `CellValueBuilder::new` (165-182). -/
def builderNew (ws : Bool) (buf : Bytes) : Bytes := if ws then buf ++ placeholder else buf

/-- `CellValueBuilder::finish` (208-218): back-patch `buf[start .. start+4]`. -/
def builderFinish (ws : Bool) (start : Nat) (buf : Bytes) : Res :=
  if ws then
    let len := buf.length - start - 4
    if len > i32Max then serLeaf buf .sizeOverflow
    else (buf.take start ++ be32 len ++ buf.drop (start + 4), none)
  else (buf, none)

/-- `writer.into_value_builder()`, the body `inner`, then `builder.finish()`. -/
def framed (ws : Bool) (buf : Bytes) (inner : Bytes → Res) : Res :=
  match inner (builderNew ws buf) with
  | (b, some e) => (b, some e)
  | (b, none) => builderFinish ws buf.length b

/-- A `for … { …? }` loop appending to one buffer. -/
def foldSer {α : Type} (f : α → Bytes → Res) : List α → Bytes → Res
  | [], buf => (buf, none)
  | v :: vs, buf =>
    match f v buf with
    | (b, some e) => (b, some e)
    | (b, none) => foldSer f vs b

/-- `serialize_next_variable_length_elem` (1029-1053): the element goes to a *fresh* buffer; on success
`unsigned vint length ++ bytes` is appended, on failure the main buffer is untouched. -/
def varElem (f : RVal → Bytes → Res) (v : RVal) (b : Bytes) : Res :=
  match f v [] with
  | (_, some e) => (b, some { e with path := .elem :: e.path })
  | (eb, none) => (b ++ uvintEnc (BitVec.ofNat 64 eb.length) ++ eb, none)

/-- One iteration of the `serialize_mapping` loop. -/
def pairSer (fk fv : RVal → Bytes → Res) (kv : RVal × RVal) (b : Bytes) : Res :=
  match wrap .key (fk kv.1 b) with
  | (b1, some e) => (b1, some e)
  | (b1, none) => wrap .val (fv kv.2 b1)

/-- `HashMap::from_iter` followed by `remove`: the *last* entry with that name wins. -/
def lookupLast (n : String) : List (String × RVal) → Option RVal
  | [] => none
  | (m, v) :: r =>
    match lookupLast n r with
    | some x => some x
    | none => if m = n then some v else none

def removeName (n : String) (fs : List (String × RVal)) : List (String × RVal) :=
  fs.filter (fun p => p.1 ≠ n)

/-- A leaf: `exact_type_check!`, then `set_value` (or builder + `finish` for decimals). -/
def serScalar (s : Scalar) (body : Bytes) (t : CqlTy) (ws : Bool) (buf : Bytes) : Res :=
  match t with
  | .native n =>
    if s.serNatives.contains n then
      if s.viaBuilder then framed ws buf (fun b0 => (b0 ++ body, none))
      else setValue ws body buf
    else serLeaf buf .mismatchedType
  | _ => serLeaf buf .mismatchedType

/-- `serialize_sequence` after its type match: count, then the elements. -/
def seqBody (n : Nat) (loop : Bytes → Res) (b0 : Bytes) : Res :=
  if n > i32Max then serLeaf b0 .tooManyElements else loop (b0 ++ be32 n)

mutual
/-- `<T as SerializeValue>::serialize(&x, t, writer)` with `writer.write_size = ws` on buffer `buf`. -/
def ser : CqlTy → RVal → Bool → Bytes → Res
  | t, x, ws, buf =>
    match strip x with
    | (chk, core) =>
      if chk && !t.supportsEmpty then serLeaf buf .notEmptyable
      else
      match core with
      | .null => setNull buf
      | .unset => setUnset buf
      | .empty => setValue ws [] buf
      | .scalar s body => serScalar s body t ws buf
      | .vec vs =>
        match t with
        | .list elt =>
          framed ws buf (seqBody vs.length (foldSer (fun v b => wrap .elem (ser elt v true b)) vs))
        | .set elt =>
          framed ws buf (seqBody vs.length (foldSer (fun v b => wrap .elem (ser elt v true b)) vs))
        | .vector elt dim =>
          if vs.length ≠ dim then serLeaf buf .invalidNumberOfElements
          else
            match elt.sizeForVector with
            | some _ => framed ws buf (foldSer (fun v b => wrap .elem (ser elt v false b)) vs)
            | none => framed ws buf (foldSer (varElem (fun v b => ser elt v false b)) vs)
        | _ => serLeaf buf .notSetOrList
      | .set vs =>
        match t with
        | .list elt =>
          framed ws buf (seqBody vs.length (foldSer (fun v b => wrap .elem (ser elt v true b)) vs))
        | .set elt =>
          framed ws buf (seqBody vs.length (foldSer (fun v b => wrap .elem (ser elt v true b)) vs))
        | _ => serLeaf buf .notSetOrList
      | .map kvs =>
        match t with
        | .map kt vt =>
          framed ws buf (seqBody kvs.length
            (foldSer (pairSer (fun k b => ser kt k true b) (fun v b => ser vt v true b)) kvs))
        | _ => serLeaf buf .notMap
      | .tuple fs =>
        match t with
        | .tuple ts =>
          if ts.length < fs.length then serLeaf buf .wrongElementCount
          else framed ws buf (serTuple ts fs 0)
        | _ => serLeaf buf .notTuple
      | .udt ks name fs =>
        match t with
        | .udt dks dname fields =>
          if ks ≠ dks || name ≠ dname then serLeaf buf .nameMismatch
          else framed ws buf (serUdt fields fs)
        | _ => serLeaf buf .notUdt
/-- The element loop of `impl_tuple!` / `serialize_tuple_like`: `values.zip(types)`. -/
def serTuple : List CqlTy → List RVal → Nat → Bytes → Res
  | t :: ts, f :: fs, i, buf =>
    match wrap (.field i) (ser t f true buf) with
    | (b, some e) => (b, some e)
    | (b, none) => serTuple ts fs (i + 1) b
  | _, _, _, buf => (buf, none)
/-- The field loop of `serialize_udt` (fields in *type* order, value looked up and removed by name, missing
or `None` ⇒ null) followed by the left-over check (`NoSuchFieldInUdt`, raised AFTER the fields were written). -/
def serUdt : List (String × CqlTy) → List (String × RVal) → Bytes → Res
  | [], m, buf => if m.isEmpty then (buf, none) else serLeaf buf .noSuchFieldInUdt
  | (n, t) :: rest, m, buf =>
    match lookupLast n m with
    | none =>
      match setNull buf with
      | (b, _) => serUdt rest m b
    | some v =>
      match wrap (.udtField n) (ser t v true buf) with
      | (b, some e) => (b, some e)
      | (b, none) => serUdt rest (removeName n m) b
end

/-! ### the value-directed acceptance condition, written without buffers -/

def allB {α : Type} (p : α → Bool) : List α → Bool
  | [] => true
  | a :: as => p a && allB p as

mutual
/-- What `ser` checks about *types and shapes* (everything except byte sizes) on the way through `x`:
leaf natives, `NotEmptyable`, container kinds, vector dimensions, tuple arity, UDT names and left-over
fields — exactly along the parts of the type the value reaches. -/
def fits : CqlTy → RVal → Bool
  | t, x =>
    match strip x with
    | (chk, core) =>
      (!chk || t.supportsEmpty) &&
      match core with
      | .null => true
      | .unset => true
      | .empty => true
      | .scalar s _ => match t with
        | .native n => s.serNatives.contains n
        | _ => false
      | .vec vs =>
        match t with
        | .list elt => allB (fun v => fits elt v) vs
        | .set elt => allB (fun v => fits elt v) vs
        | .vector elt dim => decide (vs.length = dim) && allB (fun v => fits elt v) vs
        | _ => false
      | .set vs =>
        match t with
        | .list elt => allB (fun v => fits elt v) vs
        | .set elt => allB (fun v => fits elt v) vs
        | _ => false
      | .map kvs =>
        match t with
        | .map kt vt => allB (fun kv => fits kt kv.1 && fits vt kv.2) kvs
        | _ => false
      | .tuple fs =>
        match t with
        | .tuple ts => decide (fs.length ≤ ts.length) && fitsTuple ts fs
        | _ => false
      | .udt ks name fs =>
        match t with
        | .udt dks dname fields => decide (ks = dks) && decide (name = dname) && fitsUdt fields fs
        | _ => false
def fitsTuple : List CqlTy → List RVal → Bool
  | t :: ts, f :: fs => fits t f && fitsTuple ts fs
  | _, _ => true
def fitsUdt : List (String × CqlTy) → List (String × RVal) → Bool
  | [], m => m.isEmpty
  | (n, t) :: rest, m =>
    match lookupLast n m with
    | none => fitsUdt rest m
    | some v => fits t v && fitsUdt rest (removeName n m)
end

mutual
/-- Every sequence that meets a `vector<_, dim>` column on the way through `x` has exactly `dim` elements
(the one condition of `fits` that depends on the value of a typed carrier, not on its type). -/
def dimsOk : CqlTy → RVal → Bool
  | t, x =>
    match (strip x).2 with
    | .vec vs =>
      match t with
      | .list elt => allB (fun v => dimsOk elt v) vs
      | .set elt => allB (fun v => dimsOk elt v) vs
      | .vector elt dim => decide (vs.length = dim) && allB (fun v => dimsOk elt v) vs
      | _ => true
    | .set vs =>
      match t with
      | .list elt => allB (fun v => dimsOk elt v) vs
      | .set elt => allB (fun v => dimsOk elt v) vs
      | _ => true
    | .map kvs =>
      match t with
      | .map kt vt => allB (fun kv => dimsOk kt kv.1 && dimsOk vt kv.2) kvs
      | _ => true
    | .tuple fs =>
      match t with
      | .tuple ts => dimsTuple ts fs
      | _ => true
    | .udt _ _ fs =>
      match t with
      | .udt _ _ fields => dimsUdt fields fs
      | _ => true
    | _ => true
def dimsTuple : List CqlTy → List RVal → Bool
  | t :: ts, f :: fs => dimsOk t f && dimsTuple ts fs
  | _, _ => true
def dimsUdt : List (String × CqlTy) → List (String × RVal) → Bool
  | [], _ => true
  | (n, t) :: rest, m =>
    match lookupLast n m with
    | none => dimsUdt rest m
    | some v => dimsOk t v && dimsUdt rest (removeName n m)
end

mutual
/-- The carrier type contains no `CqlValue` (whose acceptance is decided by the value, not by the type). -/
def noDyn : Carrier → Bool
  | .dyn => false
  | .opt c => noDyn c
  | .maybeUnset c => noDyn c
  | .maybeEmpty c => noDyn c
  | .vec c => noDyn c
  | .hashSet c => noDyn c
  | .btreeSet c => noDyn c
  | .hashMap k v => noDyn k && noDyn v
  | .btreeMap k v => noDyn k && noDyn v
  | .tuple cs => noDynList cs
  | .listIter c => noDyn c
  | .vecIter c => noDyn c
  | .mapIter k v => noDyn k && noDyn v
  | _ => true
def noDynList : List Carrier → Bool
  | [] => true
  | c :: cs => noDyn c && noDynList cs
end

/-- The outermost check of `ser`: does the column type have the KIND the (peeled) value needs?  It is made
before anything is written and does not depend on the value being populated (an empty `Vec<i32>` bound to
`text` fails it). -/
def kindOk (t : CqlTy) : Core → Bool
  | .vec _ => match t with
    | .list _ => true
    | .set _ => true
    | .vector _ _ => true
    | _ => false
  | .set _ => match t with
    | .list _ => true
    | .set _ => true
    | _ => false
  | .map _ => match t with
    | .map _ _ => true
    | _ => false
  | .tuple fs => match t with
    | .tuple ts => decide (fs.length ≤ ts.length)
    | _ => false
  | .udt ks name _ => match t with
    | .udt dks dname _ => decide (ks = dks) && decide (name = dname)
    | _ => false
  | .scalar s _ => match t with
    | .native n => s.serNatives.contains n
    | _ => false
  | _ => true

/-! ### typing of values by carriers -/

/-- `x` is the embedding of a `CqlValue` (see `RVal`): leaves, `Empty`, sequences / maps of such, tuples and
UDTs whose fields are `none` or `some` of such. -/
def dynImage : RVal → Bool
  | .scalar _ _ => true
  | .meEmpty => true
  | .vec vs => dynList vs
  | .map kvs => dynPairs kvs
  | .tuple fs => dynOpts fs
  | .udt _ _ fs => dynFields fs
  | _ => false
where
  dynList : List RVal → Bool
    | [] => true
    | v :: vs => dynImage v && dynList vs
  dynPairs : List (RVal × RVal) → Bool
    | [] => true
    | (k, v) :: r => dynImage k && dynImage v && dynPairs r
  dynOpts : List RVal → Bool
    | [] => true
    | .none :: r => dynOpts r
    | .some v :: r => dynImage v && dynOpts r
    | _ :: _ => false
  dynFields : List (String × RVal) → Bool
    | [] => true
    | (_, .none) :: r => dynFields r
    | (_, .some v) :: r => dynImage v && dynFields r
    | _ :: _ => false

mutual
/-- `x` is a value of Rust type `c` (for `dyn`: the embedding of some `CqlValue`). -/
def hasType : Carrier → RVal → Bool
  | .scalar s, x => match x with
    | .scalar s' _ => decide (s = s')
    | _ => false
  | .unset, x => match x with
    | .unset => true
    | _ => false
  | .opt c, x => match x with
    | .none => true
    | .some v => hasType c v
    | _ => false
  | .maybeUnset c, x => match x with
    | .muUnset => true
    | .muSet v => hasType c v
    | _ => false
  | .maybeEmpty c, x => match x with
    | .meEmpty => true
    | .meValue v => hasType c v
    | _ => false
  | .vec c, x => match x with
    | .vec vs => allB (fun v => hasType c v) vs
    | _ => false
  | .hashSet c, x => match x with
    | .set vs => allB (fun v => hasType c v) vs
    | _ => false
  | .btreeSet c, x => match x with
    | .set vs => allB (fun v => hasType c v) vs
    | _ => false
  | .hashMap k v, x => match x with
    | .map kvs => allB (fun kv => hasType k kv.1 && hasType v kv.2) kvs
    | _ => false
  | .btreeMap k v, x => match x with
    | .map kvs => allB (fun kv => hasType k kv.1 && hasType v kv.2) kvs
    | _ => false
  | .tuple cs, x => match x with
    | .tuple fs => hasTypes cs fs
    | _ => false
  | .dyn, x => dynImage x
  | _, _ => false
def hasTypes : List Carrier → List RVal → Bool
  | [], [] => true
  | c :: cs, f :: fs => hasType c f && hasTypes cs fs
  | _, _ => false
end

/-- A *fully populated* value: every `Option` is `Some`, every `MaybeUnset` is `Set`, every `MaybeEmpty` is
`Value`, every collection is non-empty — so that serializing it visits every part of its carrier type.
(The harness's representative value `v0` of each carrier.)  `Unset` itself counts as populated. -/
def full : RVal → Bool
  | .scalar _ _ => true
  | .unset => true
  | .none => false
  | .some v => full v
  | .muUnset => false
  | .muSet v => full v
  | .meEmpty => false
  | .meValue v => full v
  | .vec vs => !vs.isEmpty && fullList vs
  | .set vs => !vs.isEmpty && fullList vs
  | .map kvs => !kvs.isEmpty && fullPairs kvs
  | .tuple fs => fullList fs
  | .udt _ _ fs => fullFields fs
where
  fullList : List RVal → Bool
    | [] => true
    | v :: vs => full v && fullList vs
  fullPairs : List (RVal × RVal) → Bool
    | [] => true
    | (k, v) :: r => full k && full v && fullPairs r
  fullFields : List (String × RVal) → Bool
    | [] => true
    | (_, v) :: r => full v && fullFields r

end ScyllaVerif.Carrier

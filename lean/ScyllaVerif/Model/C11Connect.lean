import ScyllaVerif.Model.Sharding
/-
Model of what the connection layer does with the sharding arithmetic (C11, second layer).

* `isAddressUnavailable` ← `ConnectionError::is_address_unavailable_for_use` (`scylla/src/errors.rs:616-628`).
* `openLoop` / `openShardAware` ← `open_connection_to_shard_aware_port` (`scylla/src/network/connection.rs:2178-2199`),
  the ONLY production consumer of `iter_source_ports_for_shard_from_range`: walk the iterator, `continue` on an
  address-unavailable error, return anything else, `NoSourcePortForShard` once the iterator is exhausted.
  What `open_connection(endpoint, Some(port), config)` does for one source port is an explicit argument
  (`outcome : Nat → Except ConnErr Unit`); so is the iterator's random pivot.
* `drawPub` / `iterPub` ← the public wrappers `Sharder::draw_source_port_for_shard` (`sharding.rs:136-142`, which
  `expect`s a port: it PANICS when the fixed ephemeral range holds no port of the shard) and
  `Sharder::iter_source_ports_for_shard` (`sharding.rs:195-200`); both `assert!(shard < nr_shards)` first.
* `rangeNew` ← `ShardAwarePortRange::new` (`sharding.rs:29-35`): this DEFINES "allowed local-port range".
* `parseUnsigned` ← `str::parse::<u16>` / `parse::<u8>` (core `from_str_radix`, radix 10, unsigned): an optional single
  leading `+` (not alone), then one or more ASCII digits; the bound is applied by the caller.
* `shardInfoOf` / `shardAwarePortOf` ← what `open_connection` makes of SUPPORTED (`connection.rs:2080-2114`):
  EVERY `ShardingError` becomes `None`; the shard-aware port is the first value of `SCYLLA_SHARD_AWARE_PORT_SSL`
  (TLS) or `SCYLLA_SHARD_AWARE_PORT` (plain), `parse::<u16>().ok()`.
-/
namespace ScyllaVerif.C11Connect
open ScyllaVerif.Sharding

/-! ### the consumer loop -/

/-- `std::io::ErrorKind`, as far as `is_address_unavailable_for_use` tells kinds apart. -/
inductive IoKind where
  | addrInUse
  | permissionDenied
  | addrNotAvailable
  | other            -- ConnectionRefused, ConnectionReset, UnexpectedEof, …
  deriving Repr, DecidableEq

/-- `ConnectionError`, as far as the loop tells errors apart. -/
inductive ConnErr where
  | io (k : IoKind)
  | notIo            -- ConnectTimeout, BrokenConnection, TranslationError, …
  deriving Repr, DecidableEq

/-- `ConnectionError::is_address_unavailable_for_use`: an I/O error of kind AddrInUse, PermissionDenied or
AddrNotAvailable; nothing else. -/
def isAddressUnavailable : ConnErr → Bool
  | .io .addrInUse => true
  | .io .permissionDenied => true
  | .io .addrNotAvailable => true
  | _ => false

inductive OpenResult where
  | connected (port : Nat)
  | failed (port : Nat) (e : ConnErr)   -- the error `open_connection` returned for `port`, passed through
  | noSourcePort                        -- `ConnectionError::NoSourcePortForShard(shard)`
  deriving Repr, DecidableEq

/-- The `for port in source_port_iter` loop. -/
def openLoop (outcome : Nat → Except ConnErr Unit) : List Nat → OpenResult
  | [] => .noSourcePort
  | p :: ps =>
    match outcome p with
    | .ok _ => .connected p
    | .error e => if isAddressUnavailable e then openLoop outcome ps else .failed p e

/-- The source ports `open_connection` is called with, in call order. -/
def triedPorts (outcome : Nat → Except ConnErr Unit) : List Nat → List Nat
  | [] => []
  | p :: ps =>
    match outcome p with
    | .ok _ => [p]
    | .error e => if isAddressUnavailable e then p :: triedPorts outcome ps else [p]

/-- `open_connection_to_shard_aware_port` for shard `s` of `n`, configured range `[lo, hi]`, the iterator's random
pivot and the per-port behaviour of `open_connection` made explicit. -/
def openShardAware (n s lo hi pivot : Nat) (outcome : Nat → Except ConnErr Unit) : OpenResult :=
  openLoop outcome (iterPorts n s lo hi pivot)

def triedShardAware (n s lo hi pivot : Nat) (outcome : Nat → Except ConnErr Unit) : List Nat :=
  triedPorts outcome (iterPorts n s lo hi pivot)

/-- Every result the loop can produce over the iterator's possible pivots (`random_range(0..count)`; with no port
the iterator is empty and no pivot is drawn). -/
def possibleResults (n s lo hi : Nat) (outcome : Nat → Except ConnErr Unit) : List OpenResult :=
  let k := (ports n s lo hi).length
  if k = 0 then [openShardAware n s lo hi 0 outcome]
  else (List.range k).map (fun pivot => openShardAware n s lo hi pivot outcome)

/-! ### the public wrappers over the fixed ephemeral range -/

def ephemeralLo : Nat := 49152
def ephemeralHi : Nat := 65535

inductive PubOutcome (α : Type) where
  | panic
  | value (a : α)
  deriving Repr, DecidableEq

/-- `Sharder::draw_source_port_for_shard`: `assert!(shard < nr_shards)` (inside the `_from_range` variant), then
`.expect(..)` on the draw - a panic when the ephemeral range has no port of the shard. -/
def drawPub (n s idx : Nat) : PubOutcome Nat :=
  if s ≥ n then .panic
  else match drawPort n s ephemeralLo ephemeralHi idx with
    | none => .panic
    | some p => .value p

/-- `Sharder::iter_source_ports_for_shard`: only the assertion can panic. -/
def iterPub (n s pivot : Nat) : PubOutcome (List Nat) :=
  if s ≥ n then .panic else .value (iterPorts n s ephemeralLo ephemeralHi pivot)

/-! ### `ShardAwarePortRange::new` -/

/-- `Ok` iff the range is not empty (`start <= end`) and does not start below 1024. -/
def rangeNew (lo hi : Nat) : Bool := !(decide (hi < lo) || decide (lo < 1024))

/-! ### decimal parsing and what `open_connection` keeps of SUPPORTED -/

def digitsValue : List Char → Nat → Option Nat
  | [], acc => some acc
  | c :: cs, acc => if '0' ≤ c ∧ c ≤ '9' then digitsValue cs (acc * 10 + (c.toNat - 48)) else none

/-- `from_str_radix(s, 10)` of an unsigned type, without its bound: `""`, `"+"`, `"-"` are errors; one leading `+` is
dropped; everything left must be an ASCII digit (so `-1`, `1_0`, ` 1`, `++1` are errors; `007` is 7). -/
def parseUnsignedChars (cs : List Char) : Option Nat :=
  match cs with
  | [] => none
  | ['+'] => none
  | '+' :: rest => digitsValue rest 0
  | _ => digitsValue cs 0

def parseUnsigned (s : String) : Option Nat := parseUnsignedChars s.toList

/-- `parse::<u16>().ok()` -/
def parseU16 (s : String) : Option Nat :=
  match parseUnsigned s with
  | some v => if v ≤ 65535 then some v else none
  | none => none

/-- An entry of SUPPORTED (`HashMap<String, Vec<String>>::get`) as `ShardInfo::try_from` sees it. -/
def entryOf : Option (List String) → Entry
  | none => .absent
  | some [] => .empty
  | some (v :: _) => .val (parseUnsigned v)

/-- The five entries of SUPPORTED this layer reads. -/
structure Supported where
  shard : Option (List String)
  nrShards : Option (List String)
  msbIgnore : Option (List String)
  port : Option (List String)      -- SCYLLA_SHARD_AWARE_PORT
  portSsl : Option (List String)   -- SCYLLA_SHARD_AWARE_PORT_SSL

/-- `connection.rs:2087-2104`: `Ok(info) => Some(info)`, `Err(NoShardInfo) => None` (logged at info level),
`Err(e) => None` (logged as an error) - the caller keeps NO trace of the difference. -/
def shardInfoOf (o : Supported) : Option ShardInfo :=
  match parseShardOptions (entryOf o.shard) (entryOf o.nrShards) (entryOf o.msbIgnore) with
  | .ok si => some si
  | .error _ => none

/-- `connection.rs:2082-2085, 2109-2114`: the key is chosen by `config.is_tls()`; a missing key is an empty list;
`first().and_then(|p| p.parse::<u16>().ok())`. -/
def shardAwarePortOf (o : Supported) (tls : Bool) : Option Nat :=
  match (if tls then o.portSsl else o.port) with
  | none => none
  | some [] => none
  | some (v :: _) => parseU16 v

/-! ### the random shard fill-in of the load-balancing plan

`Plan::with_random_shard_if_unknown` (`scylla/src/policies/load_balancing/plan.rs:94-107`) is the other place where the
driver PRODUCES a shard number: a policy may return `(node, None)`, and the plan then draws
`rng().random_range(0..nr_shards)` with `nr_shards = node.sharder().map(|s| s.nr_shards.get()).unwrap_or(1)`.
An explicit shard `Some(s)` is passed through untouched (not validated here: C12/C13). -/

/-- The exclusive upper bound handed to `random_range`: the node's shard count, 1 for a node without a sharder. -/
def fillCount (sharder : Option Nat) : Nat :=
  match sharder with
  | some n => n
  | none => 1

/-- `with_random_shard_if_unknown`; `r` is what `random_range(0..fillCount)` returned (the RNG's contract: `r` lies in
the half-open range - the bound is an argument of the theorems, not baked in with a `%`). -/
def withRandomShard (explicit : Option Nat) (r : Nat) : Nat :=
  match explicit with
  | some s => s
  | none => r

/-- What a whole plan yields for the entries a policy returned: `(node's sharder, entry's shard)` per entry, one
random draw per entry. -/
def planShards (entries : List (Option Nat × Option Nat)) (draws : Nat → Nat) : List (Option Nat × Nat) :=
  (List.range entries.length).zip entries |>.map (fun (i, (sharder, explicit)) => (sharder, withRandomShard explicit (draws i)))

end ScyllaVerif.C11Connect

import ScyllaVerif.Model.RetryPager
/-
C06: WHERE an execution profile's retry policy / consistency / request timeout come from when nobody set them, and
when the profile was DERIVED from another one.  Import-free (core only).

  * `ExecutionProfileBuilder` (`scylla/src/client/execution_profile.rs:217-236`): six optional fields
    (`request_timeout` and `serial_consistency` doubly optional, `speculative_execution_policy` as well).
  * `ExecutionProfile::builder()` (`:433-443`): every field `None`.
  * the setters (`:253-337`): each sets ITS field to `Some(argument)` and touches no other.
  * `build()` (`:369-389`): every field `unwrap_or_else(defaults::…)`; the defaults (`:180-199`): LOCAL_QUORUM,
    `Some(LocalSerial)`, 30 s, `DefaultPolicy::default()`, `DefaultRetryPolicy::new()`, no speculative execution.
  * `ExecutionProfileInner::to_builder` (`:416-425`; behind the public `ExecutionProfile::to_builder` `:446` and
    `ExecutionProfileHandle::pointee_to_builder` `:514`): a builder with EVERY field `Some(the profile's value)`.
  * `StatementConfig` is `#[derive(Default)]` (`scylla/src/statement/mod.rs:27-28`): `is_idempotent: false`, no
    consistency, no retry policy, no request timeout, no profile handle - an untouched statement.

The load-balancing policy, the speculative-execution policy and the serial consistency are opaque tags here (C06
reads none of them); they are fields of the model so that `to_builder` and `build` are transcribed in full and "a
derived profile keeps every field" can be stated for every field.
-/
namespace ScyllaVerif.RetryProfile
open ScyllaVerif.Retry ScyllaVerif.RetryPager

/-- `ExecutionProfileInner` (`execution_profile.rs:402-411`); the request timeout in ms. -/
structure FullProfile where
  timeout : Option Nat
  cl : Consistency
  /-- `Option<SerialConsistency>`: tag 0 = Serial, 1 = LocalSerial -/
  serial : Option Nat
  /-- which load-balancing policy object (tag; 0 = `DefaultPolicy::default()`) -/
  lbp : Nat
  policy : Policy
  /-- which speculative-execution policy object, if any (tag) -/
  spec : Option Nat
  deriving DecidableEq, Repr, Inhabited

/-- `ExecutionProfileBuilder` (`execution_profile.rs:217-236`). -/
structure Builder where
  timeout : Option (Option Nat)
  cl : Option Consistency
  serial : Option (Option Nat)
  lbp : Option Nat
  policy : Option Policy
  spec : Option (Option Nat)
  deriving DecidableEq, Repr, Inhabited

/-- `ExecutionProfile::builder()` (`:433-443`). -/
def blank : Builder := ⟨none, none, none, none, none, none⟩

/-- `mod defaults` (`:180-199`). -/
def defaults : FullProfile := ⟨some 30000, .localQuorum, some 1, 0, .default, none⟩

/-- One call of a builder setter (`:253-337`). -/
inductive Setter where
  | timeout (t : Option Nat)
  | cl (c : Consistency)
  | serial (s : Option Nat)
  | lbp (l : Nat)
  | policy (p : Policy)
  | spec (s : Option Nat)
  deriving DecidableEq, Repr, Inhabited

def Builder.set (b : Builder) : Setter → Builder
  | .timeout t => { b with timeout := some t }
  | .cl c => { b with cl := some c }
  | .serial s => { b with serial := some s }
  | .lbp l => { b with lbp := some l }
  | .policy p => { b with policy := some p }
  | .spec s => { b with spec := some s }

/-- `build()` (`:369-389`). -/
def Builder.build (b : Builder) : FullProfile :=
  { timeout := b.timeout.getD defaults.timeout
    cl := b.cl.getD defaults.cl
    serial := b.serial.getD defaults.serial
    lbp := b.lbp.getD defaults.lbp
    policy := b.policy.getD defaults.policy
    spec := b.spec.getD defaults.spec }

/-- `ExecutionProfileInner::to_builder` (`:416-425`). -/
def FullProfile.toBuilder (p : FullProfile) : Builder :=
  { timeout := some p.timeout
    cl := some p.cl
    serial := some p.serial
    lbp := some p.lbp
    policy := some p.policy
    spec := some p.spec }

/-- A profile built from scratch: `ExecutionProfile::builder().<setters>.build()`. -/
def built (ops : List Setter) : FullProfile := (ops.foldl Builder.set blank).build

/-- A profile derived from `p`: `p.to_builder().<setters>.build()`. -/
def derive (p : FullProfile) (ops : List Setter) : FullProfile := (ops.foldl Builder.set p.toBuilder).build

/-- What the retry machinery reads of a profile (`RetryPager.Profile`). -/
def FullProfile.toProfile (p : FullProfile) : Profile := ⟨p.cl, p.policy, p.timeout⟩

/-- `StatementConfig::default()` (`statement/mod.rs:27-28`, derived): an untouched statement / batch. -/
def untouchedStmt : StmtCfg := ⟨false, none, none, none, none⟩

/-- The last value a setter list gives each of the three fields the retry machinery reads. -/
def lastPolicy : List Setter → Option Policy
  | [] => none
  | s :: rest => match lastPolicy rest with
    | some p => some p
    | none => match s with | .policy p => some p | _ => none

def lastCl : List Setter → Option Consistency
  | [] => none
  | s :: rest => match lastCl rest with
    | some c => some c
    | none => match s with | .cl c => some c | _ => none

def lastTimeout : List Setter → Option (Option Nat)
  | [] => none
  | s :: rest => match lastTimeout rest with
    | some t => some t
    | none => match s with | .timeout t => some t | _ => none

/-! ### configuration carried through preparation

  * `StatementConfig` (`scylla/src/statement/mod.rs:27-44`): all eleven fields (those C06 does not read as opaque tags).
  * `RawPreparedStatement::into_prepared_statement` (`scylla/src/statement/prepared.rs:86-108`): the prepared statement
    gets `statement.config.clone()` - the WHOLE config -, the contents, the validated page size, and the tracing id
    of the PREPARE if there was one.  (`Session::prepare` -> `prepare_nongeneric` -> `prepare_on_all`,
    `session.rs:1623-1700`, builds the result with it.)
  * `Session::prepare_batch` (`session.rs:1945-1963`): `batch.clone()`, then every `BatchStatement::Query` is replaced
    by `PreparedStatement(prepare_nongeneric(query)?)`; prepared statements and the batch's own config stay; the first
    failing PREPARE makes the whole call fail.
-/

/-- `StatementConfig` (`statement/mod.rs:27-44`). -/
structure FullStmtCfg where
  cl : Option Consistency
  serial : Option (Option Nat)
  idem : Bool
  skipResultMetadata : Bool
  tracing : Bool
  timestamp : Option Int
  timeout : Option Nat
  /-- which history listener object, if any (tag) -/
  historyListener : Option Nat
  profile : Option Profile
  /-- which load-balancing policy object, if any (tag) -/
  lbp : Option Nat
  policy : Option Policy
  deriving DecidableEq, Repr, Inhabited

/-- What the parameter selection (`RetryPager.newForSessionApis`) reads of it. -/
def FullStmtCfg.toStmtCfg (c : FullStmtCfg) : StmtCfg := ⟨c.idem, c.cl, c.policy, c.timeout, c.profile⟩

/-- `Statement` (`statement/unprepared.rs`). -/
structure Stmt where
  contents : String
  pageSize : Nat
  config : FullStmtCfg
  deriving DecidableEq, Repr, Inhabited

/-- `PreparedStatement` (`statement/prepared.rs`): what `PreparedStatement::new` is given + the tracing ids. -/
structure Prepared where
  id : Nat
  isLwt : Bool
  contents : String
  pageSize : Nat
  config : FullStmtCfg
  tracingIds : List Nat
  deriving DecidableEq, Repr, Inhabited

/-- `into_prepared_statement` (`prepared.rs:86-108`); `id`, `isLwt`, `tracingId` come from the PREPARE response. -/
def intoPrepared (st : Stmt) (id : Nat) (isLwt : Bool) (tracingId : Option Nat) : Prepared :=
  { id := id, isLwt := isLwt, contents := st.contents, pageSize := st.pageSize, config := st.config
    tracingIds := match tracingId with | some t => [t] | none => [] }

inductive BatchStmt where
  | query (s : Stmt)
  | prepared (p : Prepared)
  deriving DecidableEq, Repr, Inhabited

/-- the config that travels with a batch statement -/
def BatchStmt.config : BatchStmt → FullStmtCfg
  | .query s => s.config
  | .prepared p => p.config

def BatchStmt.isPrepared : BatchStmt → Bool
  | .query _ => false
  | .prepared _ => true

/-- `Batch` (`statement/batch.rs:23-33`). -/
structure Batch where
  config : FullStmtCfg
  statements : List BatchStmt
  batchType : Nat
  deriving DecidableEq, Repr, Inhabited

/-- The statements of `prepare_batch`; `prep i` = the PREPARE result for the statement at position `i`
(`none`: it failed; else id and LWT flag). -/
def prepareStmts (prep : Nat → Option (Nat × Bool)) : Nat → List BatchStmt → Option (List BatchStmt)
  | _, [] => some []
  | i, .prepared p :: rest => (prepareStmts prep (i + 1) rest).map (fun l => .prepared p :: l)
  | i, .query s :: rest =>
    match prep i with
    | none => none
    | some (id, lwt) => (prepareStmts prep (i + 1) rest).map (fun l => .prepared (intoPrepared s id lwt none) :: l)

/-- `Session::prepare_batch` (`session.rs:1945-1963`). -/
def prepareBatch (b : Batch) (prep : Nat → Option (Nat × Bool)) : Option Batch :=
  (prepareStmts prep 0 b.statements).map (fun l => { b with statements := l })

end ScyllaVerif.RetryProfile
